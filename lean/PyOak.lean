import PyOak.Sexp
import PyOak.Model.Core
import PyOak.Decode
import PyOak.Model.Traverse
import PyOak.Handle.Traverse
import PyOak.Props.C05
