/-
Model driver: one S-expression request per input line, one answer per output line.
Runs the *executable definitions the theorems are about* (PyOak/Model/*).
-/
import PyOak.Handle.Traverse
import PyOak.Handle.XPath
import PyOak.Handle.Encode
import PyOak.Handle.Registry
import PyOak.Handle.IsInstance
import PyOak.Handle.Annot
import PyOak.Handle.Origin
import PyOak.Handle.SerOpts
import PyOak.Handle.LegacyC20
import PyOak.Handle.Visitor
import PyOak.Handle.Accessors
import PyOak.Handle.Pattern
import PyOak.Handle.Legacy
import PyOak.Handle.OriginCodec
import PyOak.Handle.ValueCodec
import PyOak.Handle.LegacyC20Heap
open PyOak PyOak.Sexp

def dispatch (s : Sexp) : Sexp :=
  match s with
  | .list (.atom cmd :: args) =>
    let r : Option Sexp :=
      if cmd == "dfs" || cmd == "bfs" || cmd == "gather" || cmd == "edges" then handleTraverse cmd args
      else if cmd == "tree-queries" then handleTreeQ args
      else if cmd == "xpath" then handleXPath args
      else if cmd == "cid-pre" then handleCidPre args
      else if cmd == "cid-eq" then handleCidEq args
      else if cmd == "node-eq" then handleNodeEq args
      else if cmd == "registry-history" then handleRegistry args
      else if cmd == "isinst" then handleIsInst args
      else if cmd == "construct" then handleConstruct args
      else if cmd == "c11-chain" || cmd == "c11-classify" || cmd == "c11-fkind" then handleAnnot cmd args
      else if cmd.startsWith "oc-" then handleOriginCodec cmd args
      else if cmd.startsWith "o-" then handleOrigin cmd args
      else if cmd == "c16" then PyOak.SerOpts.handleC16 args
      else if cmd == "ldfs" || cmd == "lbfs" || cmd == "lgather" || cmd == "lcalc" || cmd == "lxpath" then
        handleLegacyC20 cmd args
      else if cmd == "transform" then handleTransform args
      else if cmd == "dispatch" then handleDispatch args
      else if cmd.startsWith "acc-" then handleAccessors cmd args
      else if cmd == "pmatch" || cmd == "pmulti" || cmd == "pcompile" then PM.handlePattern cmd args
      else if cmd == "legacy" then handleLegacy args
      else if cmd == "lhxpath" then handleLegacyHeap args
      else if cmd.startsWith "vc-" then handleValueCodec cmd args
      else none
    match r with
    | some x => x
    | none => app "bad-request" [.atom cmd]
  | _ => app "bad-request" []

partial def loop (h : IO.FS.Stream) (out : IO.FS.Stream) : IO Unit := do
  let line ← h.getLine
  if line.isEmpty then return ()
  let l := line.trimAscii.toString
  if l.isEmpty then
    out.putStrLn ""
  else
    match Sexp.parse l with
    | some s => out.putStrLn (toString (dispatch s))
    | none => out.putStrLn "(bad-sexp)"
  loop h out

def main : IO Unit := do
  let i ← IO.getStdin
  let o ← IO.getStdout
  loop i o
  o.flush
