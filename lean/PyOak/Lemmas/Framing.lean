/-
Framing lemmas over `List Char` used by C01 (injectivity of the digest pre-image), and the
facts about `sortBy` / `strLt` that the proofs need.
-/
import PyOak.Spec.Content
import Std.Data.String.ToNat
namespace PyOak
namespace Framing

/-! ### splitting a text at the first character satisfying `p` -/

/-- `a` and `a'` contain no `p`-character, `c` and `c'` are `p`-characters: the split is unique -/
theorem split_unique (p : Char → Bool) :
    ∀ (a a' : Str) (c c' : Char) (r r' : Str),
      (∀ x ∈ a, p x = false) → (∀ x ∈ a', p x = false) → p c = true → p c' = true →
      a ++ c :: r = a' ++ c' :: r' → a = a' ∧ c = c' ∧ r = r'
  | [], [], c, c', r, r', _, _, _, _, h => by
    simp at h; exact ⟨rfl, h.1, h.2⟩
  | [], y :: a', c, c', r, r', _, ha', hc, _, h => by
    simp at h
    have := ha' y (by simp)
    rw [← h.1, hc] at this; cases this
  | x :: a, [], c, c', r, r', ha, _, _, hc', h => by
    simp at h
    have := ha x (by simp)
    rw [h.1, hc'] at this; cases this
  | x :: a, y :: a', c, c', r, r', ha, ha', hc, hc', h => by
    simp at h
    obtain ⟨rfl, h⟩ := h
    have := split_unique p a a' c c' r r' (fun z hz => ha z (by simp [hz]))
      (fun z hz => ha' z (by simp [hz])) hc hc' h
    exact ⟨by rw [this.1], this.2⟩

/-- a rest is "closed" for `p` when it is empty or starts with a `p`-character -/
def Closed (p : Char → Bool) (r : Str) : Prop := r = [] ∨ ∃ c t, r = c :: t ∧ p c = true

theorem split_closed (p : Char → Bool) :
    ∀ (a a' r r' : Str),
      (∀ x ∈ a, p x = false) → (∀ x ∈ a', p x = false) → Closed p r → Closed p r' →
      a ++ r = a' ++ r' → a = a' ∧ r = r'
  | [], [], r, r', _, _, _, _, h => by simp at h; exact ⟨rfl, h⟩
  | [], y :: a', r, r', _, ha', hr, _, h => by
    exfalso
    simp at h
    have hy := ha' y (by simp)
    rcases hr with rfl | ⟨c, t, rfl, hc⟩
    · cases h
    · simp at h; rw [← h.1, hc] at hy; cases hy
  | x :: a, [], r, r', ha, _, _, hr', h => by
    exfalso
    simp at h
    have hx := ha x (by simp)
    rcases hr' with rfl | ⟨c, t, rfl, hc⟩
    · cases h
    · simp at h; rw [h.1, hc] at hx; cases hx
  | x :: a, y :: a', r, r', ha, ha', hr, hr', h => by
    simp at h
    obtain ⟨rfl, h⟩ := h
    have := split_closed p a a' r r' (fun z hz => ha z (by simp [hz]))
      (fun z hz => ha' z (by simp [hz])) hr hr' h
    exact ⟨by rw [this.1], this.2⟩

/-! ### the escaping of property texts is self-delimiting before `)` -/

theorem escText_delim : ∀ (t t' r r' : Str),
    escText t ++ ')' :: r = escText t' ++ ')' :: r' → t = t' ∧ r = r'
  | [], [], r, r', h => by simp [escText] at h; exact ⟨rfl, h⟩
  | [], c :: t', r, r', h => by
    exfalso
    simp only [escText] at h
    split at h
    · simp at h
    · split at h
      · simp at h
      · rename_i h1 h2; simp at h; exact h2 h.1.symm
  | c :: t, [], r, r', h => by
    exfalso
    simp only [escText] at h
    split at h
    · simp at h
    · split at h
      · simp at h
      · rename_i h1 h2; simp at h; exact h2 h.1
  | c :: t, c' :: t', r, r', h => by
    simp only [escText] at h
    by_cases h1 : c = '\\'
    · by_cases h1' : c' = '\\'
      · subst h1 h1'
        simp at h
        have := escText_delim t t' r r' h
        exact ⟨by rw [this.1], this.2⟩
      · exfalso
        by_cases h2' : c' = ')'
        · subst h1 h2'; simp at h
        · subst h1; simp [h1', h2'] at h; exact h1' h.1.symm
    · by_cases h2 : c = ')'
      · by_cases h1' : c' = '\\'
        · exfalso; subst h2 h1'; simp at h
        · by_cases h2' : c' = ')'
          · subst h2 h2'
            simp at h
            have := escText_delim t t' r r' h
            exact ⟨by rw [this.1], this.2⟩
          · exfalso; subst h2; simp [h1', h2'] at h; exact h1' h.1.symm
      · by_cases h1' : c' = '\\'
        · exfalso; subst h1'; simp [h1, h2] at h
        · by_cases h2' : c' = ')'
          · exfalso; subst h2'; simp [h1, h2] at h
          · simp [h1, h2, h1', h2'] at h
            obtain ⟨rfl, h⟩ := h
            have := escText_delim t t' r r' h
            exact ⟨by rw [this.1], this.2⟩

theorem escText_injective : Function.Injective escText := by
  intro t t' h
  have : escText t ++ ')' :: [] = escText t' ++ ')' :: [] := by rw [h]
  exact (escText_delim t t' [] [] this).1

/-! ### names, indices -/

theorem isNameChar_of_identLike {s : Str} (h : IdentLike s) : ∀ x ∈ s, (!isNameChar x) = false := by
  intro x hx; simp [h.2 x hx]

theorem natStr_digit (n : Nat) : ∀ c ∈ natStr n, c.isDigit = true := by
  intro c hc
  simp only [natStr, Nat.toList_repr] at hc
  exact Nat.isDigit_of_mem_toDigits (by decide) (by decide) hc

theorem natStr_injective : Function.Injective natStr := by
  intro m n h
  simp only [natStr] at h
  exact Nat.repr_injective (String.toList_inj.mp h)

theorem idxText_no_rbracket (i : Option Nat) : ∀ c ∈ idxText i, (c == ']') = false := by
  intro c hc
  match i, hc with
  | some (k + 1), hc =>
    have := natStr_digit (k + 1) c hc
    simp only [beq_eq_false_iff_ne, ne_eq]
    rintro rfl
    revert this; decide
  | some 0, hc =>
    simp [idxText] at hc
    rcases hc with rfl | rfl <;> decide
  | none, hc =>
    simp [idxText] at hc
    rcases hc with rfl | rfl <;> decide

/-! ### insertion sort -/

section SortLemmas
variable {α : Type}

theorem insertBy_perm (lt : α → α → Bool) (x : α) : ∀ l, (insertBy lt x l).Perm (x :: l)
  | [] => by simp [insertBy]
  | y :: r => by
    simp only [insertBy]
    split
    · exact ((insertBy_perm lt x r).cons y).trans (List.Perm.swap x y r)
    · exact List.Perm.refl _

theorem sortBy_perm (lt : α → α → Bool) : ∀ l, (sortBy lt l).Perm l
  | [] => by simp [sortBy]
  | x :: r => by
    simp only [sortBy]
    exact (insertBy_perm lt x _).trans ((sortBy_perm lt r).cons x)

theorem mem_sortBy (lt : α → α → Bool) (l : List α) (a : α) : a ∈ sortBy lt l ↔ a ∈ l :=
  (sortBy_perm lt l).mem_iff

theorem insertBy_map {β : Type} (f : α → β) (lt : β → β → Bool) (x : α) :
    ∀ l, insertBy lt (f x) (l.map f) = (insertBy (fun a b => lt (f a) (f b)) x l).map f
  | [] => by simp [insertBy]
  | y :: r => by
    simp only [insertBy, List.map_cons]
    split
    · simp [insertBy_map f lt x r]
    · simp

theorem sortBy_map {β : Type} (f : α → β) (lt : β → β → Bool) :
    ∀ l, sortBy lt (l.map f) = (sortBy (fun a b => lt (f a) (f b)) l).map f
  | [] => by simp [sortBy]
  | x :: r => by
    simp only [sortBy, List.map_cons]
    rw [sortBy_map f lt r, insertBy_map]

theorem sortByName_map {β : Type} (f : α → β) (nameB : β → Str) (nameA : α → Str)
    (h : ∀ a, nameB (f a) = nameA a) (l : List α) :
    sortByName nameB (l.map f) = (sortByName nameA l).map f := by
  unfold sortByName
  rw [sortBy_map]
  simp only [h]

end SortLemmas

/-! ### `strLt` is a strict total order; sorting is invariant under permutation when the keys
are pairwise distinct -/

theorem strLt_cons (x y : Char) (r s : Str) :
    strLt (x :: r) (y :: s) = (decide (x.toNat < y.toNat) || (decide (x.toNat = y.toNat) && strLt r s)) := by
  simp only [strLt]
  by_cases h1 : x.toNat < y.toNat
  · simp [h1]
  · by_cases h2 : y.toNat < x.toNat
    · have : ¬ x.toNat = y.toNat := by omega
      simp [h1, h2, this]
    · have : x.toNat = y.toNat := by omega
      simp [this]

theorem strLt_irrefl : ∀ a, strLt a a = false
  | [] => by simp [strLt]
  | x :: r => by simp [strLt_cons, strLt_irrefl r]

theorem strLt_negtrans : ∀ a b c, strLt a b = false → strLt b c = false → strLt a c = false
  | [], [], c, _, h => h
  | [], _ :: _, _, h, _ => by simp [strLt] at h
  | _ :: _, _, [], _, _ => by simp [strLt]
  | _ :: _, [], _ :: _, _, h => by simp [strLt] at h
  | x :: r, y :: s, z :: t, h1, h2 => by
    simp only [strLt_cons, Bool.or_eq_false_iff, Bool.and_eq_false_iff, decide_eq_false_iff_not] at *
    refine ⟨by omega, ?_⟩
    rcases h1.2 with h | h
    · left; omega
    · rcases h2.2 with h' | h'
      · left; omega
      · by_cases e : x.toNat = z.toNat
        · right; exact strLt_negtrans r s t h h'
        · left; exact e

theorem strLt_asymm : ∀ a b, strLt a b = true → strLt b a = false
  | [], [], h => by simp [strLt] at h
  | [], _ :: _, _ => by simp [strLt]
  | _ :: _, [], h => by simp [strLt] at h
  | x :: r, y :: s, h => by
    simp only [strLt_cons, Bool.or_eq_false_iff, Bool.and_eq_false_iff, decide_eq_false_iff_not,
      Bool.or_eq_true, Bool.and_eq_true, decide_eq_true_eq] at *
    rcases h with h | ⟨h, h'⟩
    · exact ⟨by omega, Or.inl (by omega)⟩
    · exact ⟨by omega, Or.inr (strLt_asymm r s h')⟩

theorem strLt_total : ∀ a b, strLt a b = false → strLt b a = false → a = b
  | [], [], _, _ => rfl
  | [], _ :: _, h, _ => by simp [strLt] at h
  | _ :: _, [], _, h => by simp [strLt] at h
  | x :: r, y :: s, h1, h2 => by
    simp only [strLt_cons, Bool.or_eq_false_iff, Bool.and_eq_false_iff, decide_eq_false_iff_not] at *
    have e : x.toNat = y.toNat := by omega
    have e' : x = y := Char.toNat_inj.mp e
    subst e'
    rcases h1.2 with h | h
    · exact absurd rfl h
    · rcases h2.2 with h' | h'
      · exact absurd rfl h'
      · rw [strLt_total r s h h']


theorem strLt_trans (a b c : Str) (h1 : strLt a b = true) (h2 : strLt b c = true) :
    strLt a c = true := by
  cases h : strLt a c with
  | true => rfl
  | false =>
    have := strLt_negtrans a c b h (strLt_asymm b c h2)
    rw [h1] at this; cases this

section S
variable {α : Type} (lt : α → α → Bool)
  (hasym : ∀ a b, lt a b = true → lt b a = false)
  (hneg : ∀ a b c, lt a b = false → lt b c = false → lt a c = false)
include hasym hneg

theorem insertBy_pairwise (x : α) : ∀ l, l.Pairwise (fun a b => lt b a = false) →
    (insertBy lt x l).Pairwise (fun a b => lt b a = false)
  | [], _ => by simp [insertBy]
  | y :: r, h => by
    simp only [insertBy]
    rw [List.pairwise_cons] at h
    split
    · rename_i hyx
      rw [List.pairwise_cons]
      refine ⟨?_, insertBy_pairwise x r h.2⟩
      intro z hz
      rcases List.mem_cons.mp ((insertBy_perm lt x r).mem_iff.mp hz) with rfl | hz
      · exact hasym _ _ hyx
      · exact h.1 z hz
    · rename_i hyx
      have hyx : lt y x = false := by simpa using hyx
      rw [List.pairwise_cons]
      refine ⟨?_, List.pairwise_cons.mpr h⟩
      intro z hz
      rcases List.mem_cons.mp hz with rfl | hz
      · exact hyx
      · exact hneg _ _ _ (h.1 z hz) hyx

theorem sortBy_pairwise : ∀ l : List α, (sortBy lt l).Pairwise (fun a b => lt b a = false)
  | [] => by simp [sortBy]
  | x :: r => by
    simp only [sortBy]
    exact insertBy_pairwise lt hasym hneg x _ (sortBy_pairwise r)

theorem sortBy_eq_of_perm {l₁ l₂ : List α} (hp : l₁.Perm l₂)
    (hanti : ∀ a ∈ l₁, ∀ b ∈ l₁, lt b a = false → lt a b = false → a = b) :
    sortBy lt l₁ = sortBy lt l₂ := by
  apply List.Perm.eq_of_pairwise (le := fun a b => lt b a = false)
  · intro a b ha hb h1 h2
    have ha := (mem_sortBy lt l₁ a).mp ha
    have hb := hp.mem_iff.mpr ((mem_sortBy lt l₂ b).mp hb)
    exact hanti a ha b hb h1 h2
  · exact sortBy_pairwise lt hasym hneg l₁
  · exact sortBy_pairwise lt hasym hneg l₂
  · exact (sortBy_perm lt l₁).trans (hp.trans (sortBy_perm lt l₂).symm)
end S

theorem eq_of_nodup_map {α β : Type} (f : α → β) : ∀ (l : List α), (l.map f).Nodup →
    ∀ a ∈ l, ∀ b ∈ l, f a = f b → a = b
  | [], _, a, ha, _, _, _ => by simp at ha
  | x :: r, h, a, ha, b, hb, e => by
    simp only [List.map_cons, List.nodup_cons, List.mem_map, not_exists, not_and] at h
    rcases List.mem_cons.mp ha with rfl | ha'
    · rcases List.mem_cons.mp hb with rfl | hb'
      · rfl
      · exact absurd e.symm (h.1 b hb')
    · rcases List.mem_cons.mp hb with rfl | hb'
      · exact absurd e (h.1 a ha')
      · exact eq_of_nodup_map f r h.2 a ha' b hb' e

theorem sortByName_eq_of_perm {α : Type} (name : α → Str) {l₁ l₂ : List α} (hp : l₁.Perm l₂)
    (hnd : (l₁.map name).Nodup) : sortByName name l₁ = sortByName name l₂ := by
  unfold sortByName
  apply sortBy_eq_of_perm (fun a b => strLt (name a) (name b)) (fun a b => strLt_asymm _ _)
    (fun a b c => strLt_negtrans _ _ _) hp
  intro a ha b hb h1 h2
  exact eq_of_nodup_map name l₁ hnd a ha b hb (strLt_total _ _ h2 h1)

end Framing
end PyOak
