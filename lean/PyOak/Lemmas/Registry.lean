/-
Helper lemmas about the registry state machine (`PyOak.Model.Registry`), shared by C03, C14, C10.
-/
import PyOak.Model.Registry
import PyOak.Lemmas.Framing
namespace PyOak
namespace RegL
open RState

/-! ### association-list level facts -/

/-- list-level lookup; `s.regGet k = rget s.reg k` by `rfl` -/
def rget (reg : List (Str × Nat)) (k : Str) : Option Nat := (reg.find? (·.1 == k)).map (·.2)

theorem regGet_def (s : RState) (k : Str) : s.regGet k = rget s.reg k := rfl

theorem rget_nil (k : Str) : rget [] k = none := rfl

theorem rget_cons (e : Str × Nat) (r : List (Str × Nat)) (k : Str) :
    rget (e :: r) k = if e.1 = k then some e.2 else rget r k := by
  unfold rget
  by_cases h : e.1 = k <;> simp [h]

theorem rget_some_mem : ∀ {reg : List (Str × Nat)} {k : Str} {u : Nat}, rget reg k = some u → (k, u) ∈ reg
  | [], _, _, h => by simp [rget_nil] at h
  | e :: r, k, u, h => by
    rw [rget_cons] at h
    split at h
    · rename_i hk; cases h; subst hk; simp
    · exact List.mem_cons_of_mem _ (rget_some_mem h)

theorem rget_none_iff : ∀ {reg : List (Str × Nat)} {k : Str}, rget reg k = none ↔ k ∉ reg.map (·.1)
  | [], k => by simp [rget_nil]
  | e :: r, k => by
    rw [rget_cons]
    by_cases h : e.1 = k
    · simp [h]
    · have := @rget_none_iff r k
      simp only [h, if_false, this, List.map_cons, List.mem_cons, not_or]
      exact ⟨fun x => ⟨fun e' => h e'.symm, x⟩, fun x => x.2⟩

theorem rget_isSome_iff {reg : List (Str × Nat)} {k : Str} : (rget reg k).isSome = true ↔ k ∈ reg.map (·.1) := by
  cases h : rget reg k with
  | none => simp [rget_none_iff.mp h]
  | some u =>
    simp
    exact ⟨u, rget_some_mem h⟩

theorem rget_of_mem : ∀ {reg : List (Str × Nat)} {k : Str} {u : Nat},
    (reg.map (·.1)).Nodup → (k, u) ∈ reg → rget reg k = some u
  | [], _, _, _, h => by simp at h
  | e :: r, k, u, hnd, h => by
    rw [rget_cons]
    simp only [List.map_cons, List.nodup_cons] at hnd
    rcases List.mem_cons.mp h with rfl | h'
    · simp
    · have : e.1 ≠ k := by
        intro e'; apply hnd.1; rw [e']; exact List.mem_map.mpr ⟨(k, u), h', rfl⟩
      simp [this, rget_of_mem hnd.2 h']

theorem mem_regDel {reg : List (Str × Nat)} {k : Str} {e : Str × Nat} :
    e ∈ regDel reg k ↔ e ∈ reg ∧ e.1 ≠ k := by
  simp [regDel]

theorem regDel_sublist (reg : List (Str × Nat)) (k : Str) : (regDel reg k).Sublist reg :=
  List.filter_sublist

theorem keys_regDel (reg : List (Str × Nat)) (k : Str) :
    ((regDel reg k).map (·.1)).Sublist (reg.map (·.1)) := (regDel_sublist reg k).map _

theorem key_not_mem_regDel (reg : List (Str × Nat)) (k : Str) : k ∉ (regDel reg k).map (·.1) := by
  intro h
  obtain ⟨e, he, rfl⟩ := List.mem_map.mp h
  exact (mem_regDel.mp he).2 rfl

theorem rget_regDel (reg : List (Str × Nat)) (k k' : Str) :
    rget (regDel reg k) k' = if k' = k then none else rget reg k' := by
  induction reg with
  | nil => simp [regDel, rget_nil]
  | cons e r ih =>
    by_cases h : e.1 = k
    · have : regDel (e :: r) k = regDel r k := by simp [regDel, h]
      rw [this, ih, rget_cons]
      by_cases h' : k' = k
      · simp [h']
      · have : e.1 ≠ k' := by rw [h]; exact fun x => h' x.symm
        simp [h', this]
    · have : regDel (e :: r) k = e :: regDel r k := by simp [regDel, h]
      rw [this, rget_cons, rget_cons, ih]
      by_cases h' : k' = k
      · subst h'
        simp [h]
      · simp [h']

theorem rget_append (a b : List (Str × Nat)) (k : Str) :
    rget (a ++ b) k = (rget a k).or (rget b k) := by
  induction a with
  | nil => simp [rget_nil]
  | cons e r ih =>
    simp only [List.cons_append, rget_cons]
    split <;> simp [ih]

theorem rget_regSet (reg : List (Str × Nat)) (k : Str) (u : Nat) (k' : Str) :
    rget (regSet reg k u) k' = if k' = k then some u else rget reg k' := by
  unfold regSet
  rw [rget_append, rget_regDel, rget_cons, rget_nil]
  by_cases h : k' = k
  · subst h; simp
  · have : ¬ k = k' := fun x => h x.symm
    simp [h, this]

theorem mem_regSet {reg : List (Str × Nat)} {k : Str} {u : Nat} {e : Str × Nat} :
    e ∈ regSet reg k u ↔ (e ∈ reg ∧ e.1 ≠ k) ∨ e = (k, u) := by
  simp [regSet, mem_regDel]

theorem keysNodup_regSet {reg : List (Str × Nat)} (k : Str) (u : Nat)
    (h : (reg.map (·.1)).Nodup) : ((regSet reg k u).map (·.1)).Nodup := by
  unfold regSet
  rw [List.map_append, List.nodup_append]
  refine ⟨h.sublist (keys_regDel reg k), by simp, ?_⟩
  intro a ha b hb
  simp at hb
  subst hb
  intro e; subst e
  exact key_not_mem_regDel reg _ ha

theorem regSet_of_free {reg : List (Str × Nat)} {k : Str} (u : Nat) (h : k ∉ reg.map (·.1)) :
    regSet reg k u = reg ++ [(k, u)] := by
  unfold regSet regDel
  congr 1
  rw [List.filter_eq_self]
  intro e he
  simp only [bne_iff_ne, ne_eq]
  intro e'
  exact h (List.mem_map.mpr ⟨e, he, e'⟩)

/-! ### `_get_next_unique_id` always finds a free id -/

theorem suffixed_injective (base : Str) : Function.Injective (suffixed base) := by
  intro i j h
  unfold suffixed at h
  have := List.append_cancel_left h
  simp only [List.cons.injEq, true_and] at this
  exact Framing.natStr_injective this

/-- pigeonhole: among `n + 1` values of an injective function one avoids a list of length `≤ n` -/
theorem pigeon (f : Nat → Str) (hf : Function.Injective f) :
    ∀ (n : Nat) (keys : List Str) (i : Nat), keys.length ≤ n → ∃ j, i ≤ j ∧ j ≤ i + n ∧ f j ∉ keys
  | 0, keys, i, h => by
    have : keys = [] := List.eq_nil_of_length_eq_zero (by omega)
    subst this
    exact ⟨i, by omega, by omega, by simp⟩
  | n + 1, keys, i, h => by
    by_cases hm : f (i + (n + 1)) ∈ keys
    · have hl : (keys.erase (f (i + (n + 1)))).length ≤ n := by
        rw [List.length_erase_of_mem hm]; omega
      obtain ⟨j, h1, h2, h3⟩ := pigeon f hf n _ i hl
      refine ⟨j, h1, by omega, ?_⟩
      intro hj
      apply h3
      have hne : f j ≠ f (i + (n + 1)) := by
        intro e; have := hf e; omega
      exact (List.mem_erase_of_ne hne).mpr hj
    · exact ⟨i + (n + 1), by omega, by omega, hm⟩

theorem nextUniqueFrom_free (s : RState) (base : Str) :
    ∀ (fuel i : Nat), (∃ j, i ≤ j ∧ j ≤ i + fuel ∧ suffixed base j ∉ s.reg.map (·.1)) →
      s.nextUniqueFrom base fuel i ∉ s.reg.map (·.1)
  | 0, i, ⟨j, h1, h2, h3⟩ => by
    have : j = i := by omega
    subst this
    simpa [nextUniqueFrom] using h3
  | fuel + 1, i, ⟨j, h1, h2, h3⟩ => by
    simp only [nextUniqueFrom]
    split
    · rename_i hs
      apply nextUniqueFrom_free s base fuel (i + 1)
      refine ⟨j, ?_, by omega, h3⟩
      by_cases e : j = i
      · subst e
        rw [regGet_def, rget_isSome_iff] at hs
        exact absurd hs h3
      · omega
    · rename_i hs
      rw [regGet_def, rget_isSome_iff] at hs
      exact hs

/-- the id handed out by `__post_init__` is never a key of the registry -/
theorem freshId_free (s : RState) (base : Str) : s.freshId base ∉ s.reg.map (·.1) := by
  unfold freshId
  split
  · apply nextUniqueFrom_free
    obtain ⟨j, h1, h2, h3⟩ := pigeon (suffixed base) (suffixed_injective base) s.reg.length
      (s.reg.map (·.1)) 1 (by simp)
    exact ⟨j, h1, by omega, h3⟩
  · rename_i h
    rw [regGet_def, rget_isSome_iff] at h
    exact h

/-- "same id every time": with no registered node under the digest, the id is the digest -/
theorem id_fresh_is_base (s : RState) (base : Str) (h : s.regGet base = none) : s.freshId base = base := by
  simp [freshId, h]

/-- otherwise the id is `base_i` for some `i ≥ 1` -/
theorem nextUniqueFrom_suffixed (s : RState) (base : Str) :
    ∀ (fuel i : Nat), ∃ j, i ≤ j ∧ s.nextUniqueFrom base fuel i = suffixed base j
  | 0, i => ⟨i, Nat.le_refl _, rfl⟩
  | fuel + 1, i => by
    simp only [nextUniqueFrom]
    split
    · obtain ⟨j, h1, h2⟩ := nextUniqueFrom_suffixed s base fuel (i + 1)
      exact ⟨j, by omega, h2⟩
    · exact ⟨i, Nat.le_refl _, rfl⟩

theorem freshId_shape (s : RState) (base : Str) :
    s.freshId base = base ∨ ∃ j, 1 ≤ j ∧ s.freshId base = suffixed base j := by
  unfold freshId
  split
  · exact Or.inr (nextUniqueFrom_suffixed s base _ 1)
  · exact Or.inl rfl

/-! ### heap lookups -/

theorem obj?_some {s : RState} {u : Nat} {o : RObj} (h : s.obj? u = some o) : o ∈ s.heap ∧ o.uid = u := by
  unfold obj? at h
  exact ⟨List.mem_of_find?_eq_some h, by simpa using List.find?_some h⟩

theorem find_uid_of_mem : ∀ {heap : List RObj} {o : RObj}, (heap.map (·.uid)).Nodup → o ∈ heap →
    heap.find? (·.uid == o.uid) = some o
  | [], _, _, h => by simp at h
  | a :: r, o, hnd, h => by
    simp only [List.map_cons, List.nodup_cons] at hnd
    rw [List.find?_cons]
    rcases List.mem_cons.mp h with rfl | h'
    · simp
    · have : a.uid ≠ o.uid := by
        intro e; apply hnd.1; rw [e]; exact List.mem_map.mpr ⟨o, h', rfl⟩
      have hb : (a.uid == o.uid) = false := by simp [this]
      simp [hb, find_uid_of_mem hnd.2 h']

theorem obj?_of_mem {s : RState} (hnd : (s.heap.map (·.uid)).Nodup) {o : RObj} (h : o ∈ s.heap) :
    s.obj? o.uid = some o := find_uid_of_mem hnd h

theorem obj?_none_iff {s : RState} {u : Nat} : s.obj? u = none ↔ u ∉ s.heap.map (·.uid) := by
  unfold obj?
  rw [List.find?_eq_none]
  simp

theorem idOf_of_mem {s : RState} (hnd : (s.heap.map (·.uid)).Nodup) {o : RObj} (h : o ∈ s.heap) :
    s.idOf o.uid = o.id := by
  simp [idOf, obj?_of_mem hnd h]

theorem kidsOf_of_mem {s : RState} (hnd : (s.heap.map (·.uid)).Nodup) {o : RObj} (h : o ∈ s.heap) :
    s.kidsOf o.uid = o.kids := by
  simp [kidsOf, obj?_of_mem hnd h]

/-! ### evolutions: sequences of node creations consuming the fresh tokens in order

`Evol K L F C s f s' f'`: `s'` is obtained from `s` by creating nodes with the tokens `f \ f'` (a prefix
of `f`), each creation optionally (only when `F = true`) followed by forcing the id of the node
just created (`_deserialize`). -/

inductive Evol (K L : Nat → Prop) (F C : Bool) : RState → Fresh → RState → Fresh → Prop
  | refl (s : RState) (f : Fresh) : Evol K L F C s f s f
  | new {s : RState} {f : Fresh} {s1 : RState} {tok : Nat} {base : Str} {fr : Fresh}
      (h : Evol K L F C s f s1 ((tok, base) :: fr)) (cls : Str) (mro : List Str) (ks : List Nat)
      (hk : ∀ k ∈ ks, K k) (hl : L ks.length) :
      Evol K L F C s f (s1.pNew tok cls mro base ks) fr
  | newForce {s : RState} {f : Fresh} {s1 : RState} {tok : Nat} {base : Str} {fr : Fresh}
      (hF : F = true) (h : Evol K L F C s f s1 ((tok, base) :: fr)) (cls : Str) (mro : List Str) (ks : List Nat)
      (hk : ∀ k ∈ ks, K k) (hl : L ks.length) (sid : Str)
      (hC : C = false → sid ∉ (s1.pNew tok cls mro base ks).reg.map (·.1)) :
      Evol K L F C s f ((s1.pNew tok cls mro base ks).pForceId tok sid) fr

section EvolBasics
variable {K L : Nat → Prop} {F C : Bool}

theorem Evol.trans {s f s1 f1 s2 f2} (h1 : Evol K L F C s f s1 f1)
    (h2 : Evol K L F C s1 f1 s2 f2) : Evol K L F C s f s2 f2 := by
  induction h2 with
  | refl => exact h1
  | new _ cls mro ks hk hl ih => exact Evol.new ih cls mro ks hk hl
  | newForce hF _ cls mro ks hk hl sid hC ih => exact Evol.newForce hF ih cls mro ks hk hl sid hC

theorem Evol.suffix {s f s1 f1} (h : Evol K L F C s f s1 f1) : ∃ pre, f = pre ++ f1 := by
  induction h with
  | refl => exact ⟨[], rfl⟩
  | @new s1 tok base fr _ cls mro ks hk hl ih =>
    obtain ⟨p, hp⟩ := ih; exact ⟨p ++ [(tok, base)], by rw [hp]; simp⟩
  | @newForce s1 tok base fr hF _ cls mro ks hk hl sid hC ih =>
    obtain ⟨p, hp⟩ := ih; exact ⟨p ++ [(tok, base)], by rw [hp]; simp⟩

theorem Evol.roots {s f s1 f1} (h : Evol K L F C s f s1 f1) : s1.roots = s.roots := by
  induction h with
  | refl => rfl
  | new _ cls mro ks hk hl ih => exact ih
  | newForce hF _ cls mro ks hk hl sid hC ih => exact ih

theorem Evol.detached {s f s1 f1} (h : Evol K L F C s f s1 f1) : s1.detached = s.detached := by
  induction h with
  | refl => rfl
  | new _ cls mro ks hk hl ih => exact ih
  | newForce hF _ cls mro ks hk hl sid hC ih => exact ih

/-- without forced ids the heap only grows -/
theorem Evol.heap_ext {s f s1 f1} (h : Evol K L false C s f s1 f1) : ∃ ext, s1.heap = s.heap ++ ext := by
  induction h with
  | refl => exact ⟨[], by simp⟩
  | @new s1 tok base fr _ cls mro ks hk hl ih =>
    obtain ⟨e, he⟩ := ih
    exact ⟨e ++ [{ uid := tok, cls := cls, mro := mro, base := base, id := s1.freshId base, kids := ks }],
      by simp [pNew, he]⟩
  | newForce hF => cases hF

/-- the bound `L` on the number of children holds for every record of the final state -/
theorem Evol.kidsL {s f s1 f1} (h : Evol K L F C s f s1 f1) (h0 : ∀ o ∈ s.heap, L o.kids.length) :
    ∀ o ∈ s1.heap, L o.kids.length := by
  induction h with
  | refl => exact h0
  | new _ cls mro ks hk hl ih =>
    intro o ho
    rcases List.mem_append.mp ho with h | h
    · exact ih o h
    · simp only [List.mem_singleton] at h; subst h; exact hl
  | newForce hF _ cls mro ks hk hl sid hC ih =>
    intro o ho
    simp only [pForceId, pNew] at ho
    obtain ⟨o', ho', rfl⟩ := List.mem_map.mp ho
    have : L o'.kids.length := by
      rcases List.mem_append.mp ho' with h | h
      · exact ih o' h
      · simp only [List.mem_singleton] at h; subst h; exact hl
    split <;> exact this

end EvolBasics

/-! ### `duplicate` and `_deserialize` are evolutions -/

/-- the fold over the children inside `dupAux` -/
def dupFold (fuel : Nat) (kids : List Nat) (acc : Option (RState × List Nat × Fresh)) :
    Option (RState × List Nat × Fresh) :=
  kids.foldl (fun acc c =>
    match acc with
    | none => none
    | some (s', ks, fr) =>
      match dupAux s' fuel c fr with
      | none => none
      | some (s'', c', fr') => some (s'', ks ++ [c'], fr')) acc

theorem dupFold_nil (fuel : Nat) (acc) : dupFold fuel [] acc = acc := rfl

theorem dupFold_cons (fuel : Nat) (c : Nat) (r : List Nat) (acc) :
    dupFold fuel (c :: r) acc = dupFold fuel r
      (match acc with
       | none => none
       | some (s', ks, fr) =>
         match dupAux s' fuel c fr with
         | none => none
         | some (s'', c', fr') => some (s'', ks ++ [c'], fr')) := rfl

theorem dupFold_none (fuel : Nat) : ∀ kids, dupFold fuel kids none = none
  | [] => rfl
  | c :: r => by rw [dupFold_cons]; exact dupFold_none fuel r

theorem dupAux_zero (s : RState) (u : Nat) (fresh : Fresh) : s.dupAux 0 u fresh = none := rfl

theorem dupAux_succ (s : RState) (fuel u : Nat) (fresh : Fresh) :
    s.dupAux (fuel + 1) u fresh =
      match s.obj? u with
      | none => none
      | some o =>
        match dupFold fuel o.kids (some (s, [], fresh)) with
        | none => none
        | some (s', ks, fr) =>
          match fr with
          | [] => none
          | (tok, base) :: fr' => some (s'.pNew tok o.cls o.mro base ks, tok, fr') := rfl

/-- inversion of a successful `dupAux` -/
theorem dupAux_inv {s : RState} {fuel u : Nat} {fresh : Fresh} {s' : RState} {r : Nat} {fr : Fresh}
    (h : s.dupAux (fuel + 1) u fresh = some (s', r, fr)) :
    ∃ o s1 ks base, s.obj? u = some o ∧ dupFold fuel o.kids (some (s, [], fresh)) = some (s1, ks, (r, base) :: fr) ∧
      s' = s1.pNew r o.cls o.mro base ks := by
  rw [dupAux_succ] at h
  cases ho : s.obj? u with
  | none => simp [ho] at h
  | some o =>
    simp only [ho] at h
    cases hf : dupFold fuel o.kids (some (s, [], fresh)) with
    | none => simp [hf] at h
    | some res =>
      obtain ⟨s1, ks, fr1⟩ := res
      simp only [hf] at h
      cases fr1 with
      | nil => simp at h
      | cons e fr' =>
        obtain ⟨tok, base⟩ := e
        simp only [Option.some.injEq, Prod.mk.injEq] at h
        obtain ⟨h1, h2, h3⟩ := h
        subst h2 h3
        exact ⟨o, s1, ks, base, rfl, hf, h1.symm⟩

/-- inversion of one successful step of the children fold -/
theorem dupFold_cons_inv {fuel c : Nat} {r : List Nat} {s : RState} {ks : List Nat} {fr : Fresh} {res}
    (h : dupFold fuel (c :: r) (some (s, ks, fr)) = some res) :
    ∃ s1 c' fr1, s.dupAux fuel c fr = some (s1, c', fr1) ∧ dupFold fuel r (some (s1, ks ++ [c'], fr1)) = some res := by
  rw [dupFold_cons] at h
  cases hd : s.dupAux fuel c fr with
  | none => simp [hd, dupFold_none] at h
  | some x =>
    obtain ⟨s1, c', fr1⟩ := x
    simp only [hd] at h
    exact ⟨s1, c', fr1, rfl, h⟩

theorem dupAux_evolK (K L : Nat → Prop) (C : Bool) :
    ∀ (fuel : Nat) (s : RState) (u : Nat) (fresh : Fresh) (s' : RState) (r : Nat) (fr : Fresh),
    (∀ t ∈ fresh.map (·.1), K t) → (∀ o ∈ s.heap, L o.kids.length) →
    s.dupAux fuel u fresh = some (s', r, fr) → Evol K L false C s fresh s' fr ∧ K r
  | 0, s, u, fresh, s', r, fr, _, _, h => by simp [dupAux_zero] at h
  | fuel + 1, s, u, fresh, s', r, fr, hK, hL, h => by
    obtain ⟨o, s1, ks, base, ho, hf, rfl⟩ := dupAux_inv h
    have key : ∀ (kids : List Nat) (s0 : RState) (ks0 : List Nat) (f0 : Fresh) (res : RState × List Nat × Fresh),
        (∀ t ∈ f0.map (·.1), K t) → (∀ k ∈ ks0, K k) → (∀ o ∈ s0.heap, L o.kids.length) →
        dupFold fuel kids (some (s0, ks0, f0)) = some res →
        Evol K L false C s0 f0 res.1 res.2.2 ∧ (∀ k ∈ res.2.1, K k) ∧
          res.2.1.length = ks0.length + kids.length := by
      intro kids
      induction kids with
      | nil =>
        intro s0 ks0 f0 res _ hks _ h
        simp [dupFold_nil] at h; subst h; exact ⟨Evol.refl _ _, hks, by simp⟩
      | cons c rest ih =>
        intro s0 ks0 f0 res hf0 hks hL0 h
        obtain ⟨s1, c', fr1, hd, hr⟩ := dupFold_cons_inv h
        obtain ⟨e1, kc⟩ := dupAux_evolK K L C fuel s0 c f0 s1 c' fr1 hf0 hL0 hd
        obtain ⟨p, hp⟩ := e1.suffix
        have hf1 : ∀ t ∈ fr1.map (·.1), K t := by
          intro t ht; apply hf0; rw [hp]; simp only [List.map_append, List.mem_append]; exact Or.inr ht
        have hks1 : ∀ k ∈ ks0 ++ [c'], K k := by
          intro k hk
          rcases List.mem_append.mp hk with h | h
          · exact hks k h
          · simp at h; subst h; exact kc
        obtain ⟨e2, k2, l2⟩ := ih _ _ _ _ hf1 hks1 (e1.kidsL hL0) hr
        exact ⟨e1.trans e2, k2, by rw [l2]; simp; omega⟩
    obtain ⟨e, hks, hlen⟩ := key _ _ _ _ _ hK (by intro k hk; simp at hk) hL hf
    obtain ⟨p, hp⟩ := e.suffix
    have hl : L ks.length := by
      simp only [List.length_nil, Nat.zero_add] at hlen
      have : ks.length = o.kids.length := hlen
      rw [this]; exact hL o (obj?_some ho).1
    exact ⟨Evol.new e _ _ _ hks hl, hK r (by rw [hp]; simp)⟩

theorem dupAux_evol (fuel : Nat) (s : RState) (u : Nat) (fresh : Fresh) (s' : RState) (r : Nat)
    (fr : Fresh) (h : s.dupAux fuel u fresh = some (s', r, fr)) :
    Evol (fun _ => True) (fun _ => True) false false s fresh s' fr :=
  (dupAux_evolK (fun _ => True) (fun _ => True) false fuel s u fresh s' r fr (fun _ _ => trivial)
    (fun _ _ => trivial) h).1

theorem deserAux_eq (s : RState) (sid cls : Str) (mro : List Str) (kids : List SerTree) (fresh : Fresh) :
    s.deserAux (.mk sid cls mro kids) fresh =
      match s.regGet sid with
      | some u => some (s, u, fresh)
      | none =>
        match deserKids s kids fresh with
        | none => none
        | some (s', ks, fr) =>
          match fr with
          | [] => none
          | (tok, base) :: fr' =>
            some (if (s'.pNew tok cls mro base ks).idOf tok == sid then s'.pNew tok cls mro base ks
                  else (s'.pNew tok cls mro base ks).pForceId tok sid, tok, fr') := by
  rw [deserAux]
  rfl

theorem deserKids_nil (s : RState) (fresh : Fresh) : s.deserKids [] fresh = some (s, [], fresh) := by
  rw [deserKids]

theorem deserKids_cons (s : RState) (t : SerTree) (r : List SerTree) (fresh : Fresh) :
    s.deserKids (t :: r) fresh =
      match deserAux s t fresh with
      | none => none
      | some (s', u, fr) =>
        match deserKids s' r fr with
        | none => none
        | some (s'', us, fr') => some (s'', u :: us, fr') := by
  rw [deserKids]
  rfl

/-- inversion of a successful `deserAux` -/
theorem deserAux_inv {s : RState} {sid cls : Str} {mro : List Str} {kids : List SerTree} {fresh : Fresh}
    {s' : RState} {r : Nat} {fr : Fresh} (h : s.deserAux (.mk sid cls mro kids) fresh = some (s', r, fr)) :
    (s.regGet sid = some r ∧ s' = s ∧ fr = fresh) ∨
    (s.regGet sid = none ∧ ∃ s1 ks base, s.deserKids kids fresh = some (s1, ks, (r, base) :: fr) ∧
      s' = if (s1.pNew r cls mro base ks).idOf r == sid then s1.pNew r cls mro base ks
           else (s1.pNew r cls mro base ks).pForceId r sid) := by
  rw [deserAux_eq] at h
  cases hg : s.regGet sid with
  | some u =>
    simp only [hg, Option.some.injEq, Prod.mk.injEq] at h
    obtain ⟨h1, h2, h3⟩ := h
    subst h1 h2 h3
    exact Or.inl ⟨rfl, rfl, rfl⟩
  | none =>
    simp only [hg] at h
    cases hk : s.deserKids kids fresh with
    | none => simp [hk] at h
    | some res =>
      obtain ⟨s1, ks, fr1⟩ := res
      simp only [hk] at h
      cases fr1 with
      | nil => simp at h
      | cons e fr' =>
        obtain ⟨tok, base⟩ := e
        simp only [Option.some.injEq, Prod.mk.injEq] at h
        obtain ⟨h1, h2, h3⟩ := h
        subst h2 h3
        exact Or.inr ⟨rfl, s1, ks, base, rfl, h1.symm⟩

theorem deserKids_cons_inv {s : RState} {t : SerTree} {r : List SerTree} {fresh : Fresh} {s' : RState}
    {us : List Nat} {fr : Fresh} (h : s.deserKids (t :: r) fresh = some (s', us, fr)) :
    ∃ s1 u fr1 us', s.deserAux t fresh = some (s1, u, fr1) ∧ s1.deserKids r fr1 = some (s', us', fr) ∧
      us = u :: us' := by
  rw [deserKids_cons] at h
  cases ha : s.deserAux t fresh with
  | none => simp [ha] at h
  | some x =>
    obtain ⟨s1, u, fr1⟩ := x
    simp only [ha] at h
    cases hk : s1.deserKids r fr1 with
    | none => simp [hk] at h
    | some y =>
      obtain ⟨s2, us', fr2⟩ := y
      simp only [hk, Option.some.injEq, Prod.mk.injEq] at h
      obtain ⟨h1, h2, h3⟩ := h
      subst h1 h2 h3
      exact ⟨s1, u, fr1, us', rfl, hk, rfl⟩

mutual
theorem deserAux_evol : ∀ (t : SerTree) (s : RState) (fresh : Fresh) (s' : RState) (r : Nat) (fr : Fresh),
    s.deserAux t fresh = some (s', r, fr) → Evol (fun _ => True) (fun _ => True) true true s fresh s' fr
  | .mk sid cls mro kids, s, fresh, s', r, fr, h => by
    rcases deserAux_inv h with ⟨_, rfl, rfl⟩ | ⟨_, s1, ks, base, hk, rfl⟩
    · exact Evol.refl _ _
    · have := deserKids_evol kids s fresh s1 ks _ hk
      split
      · exact Evol.new this _ _ _ (fun _ _ => trivial) trivial
      · exact Evol.newForce rfl this _ _ _ (fun _ _ => trivial) trivial _ (fun h => by cases h)
theorem deserKids_evol : ∀ (ts : List SerTree) (s : RState) (fresh : Fresh) (s' : RState) (us : List Nat) (fr : Fresh),
    s.deserKids ts fresh = some (s', us, fr) → Evol (fun _ => True) (fun _ => True) true true s fresh s' fr
  | [], s, fresh, s', us, fr, h => by
    simp [deserKids_nil] at h
    obtain ⟨rfl, _, rfl⟩ := h
    exact Evol.refl _ _
  | t :: r, s, fresh, s', us, fr, h => by
    obtain ⟨s1, u, fr1, us', ha, hk, _⟩ := deserKids_cons_inv h
    exact (deserAux_evol t s fresh s1 u fr1 ha).trans (deserKids_evol r s1 fr1 s' us' fr hk)
end

/-! ### `_deserialize` without id clashes -/

mutual
/-- does `_deserialize` force an id that is, at that moment, a key of the registry? (defect F19) -/
def clashAux (s : RState) : SerTree → Fresh → Bool
  | .mk sid cls mro kids, fresh =>
    match s.regGet sid with
    | some _ => false
    | none =>
      clashKids s kids fresh ||
      match deserKids s kids fresh with
      | some (s', ks, (tok, base) :: _) =>
        !((s'.pNew tok cls mro base ks).idOf tok == sid) && ((s'.pNew tok cls mro base ks).regGet sid).isSome
      | _ => false
def clashKids (s : RState) : List SerTree → Fresh → Bool
  | [], _ => false
  | t :: r, fresh =>
    clashAux s t fresh ||
    match deserAux s t fresh with
    | some (s', _, fr) => clashKids s' r fr
    | none => false
end

theorem clashAux_eq (s : RState) (sid cls : Str) (mro : List Str) (kids : List SerTree) (fresh : Fresh) :
    clashAux s (.mk sid cls mro kids) fresh =
      match s.regGet sid with
      | some _ => false
      | none =>
        clashKids s kids fresh ||
        match deserKids s kids fresh with
        | some (s', ks, (tok, base) :: _) =>
          !((s'.pNew tok cls mro base ks).idOf tok == sid) && ((s'.pNew tok cls mro base ks).regGet sid).isSome
        | _ => false := by
  rw [clashAux]

theorem clashKids_cons (s : RState) (t : SerTree) (r : List SerTree) (fresh : Fresh) :
    clashKids s (t :: r) fresh =
      (clashAux s t fresh ||
        match deserAux s t fresh with
        | some (s', _, fr) => clashKids s' r fr
        | none => false) := by
  rw [clashKids]

section EvolK
variable {K L : Nat → Prop} {F C : Bool}

/-- every registered object satisfies `K` along an evolution whose tokens satisfy `K` -/
theorem Evol.regK {s f s1 f1} (h : Evol K L F C s f s1 f1) (hf : ∀ t ∈ f.map (·.1), K t)
    (hr : ∀ e ∈ s.reg, K e.2) : ∀ e ∈ s1.reg, K e.2 := by
  induction h with
  | refl => exact hr
  | @new s1 tok base fr hE cls mro ks hk hl ih =>
    obtain ⟨p, hp⟩ := hE.suffix
    intro e he
    rcases mem_regSet.mp he with ⟨h1, _⟩ | rfl
    · exact ih e h1
    · exact hf tok (by rw [hp]; simp)
  | @newForce s1 tok base fr hF hE cls mro ks hk hl sid hC ih =>
    obtain ⟨p, hp⟩ := hE.suffix
    intro e he
    simp only [pForceId] at he
    rcases mem_regSet.mp he with ⟨h1, _⟩ | rfl
    · rcases mem_regSet.mp (mem_regDel.mp h1).1 with ⟨h2, _⟩ | rfl
      · exact ih e h2
      · exact hf tok (by rw [hp]; simp)
    · exact hf tok (by rw [hp]; simp)

theorem Evol.freshK {s f s1 f1} (h : Evol K L F C s f s1 f1) (hf : ∀ t ∈ f.map (·.1), K t) :
    ∀ t ∈ f1.map (·.1), K t := by
  obtain ⟨p, hp⟩ := h.suffix
  intro t ht
  apply hf; rw [hp]; simp only [List.map_append, List.mem_append]; exact Or.inr ht

end EvolK

mutual
theorem deserAux_evolK (K : Nat → Prop) :
    ∀ (t : SerTree) (s : RState) (fresh : Fresh) (s' : RState) (r : Nat) (fr : Fresh),
    (∀ t ∈ fresh.map (·.1), K t) → (∀ e ∈ s.reg, K e.2) → clashAux s t fresh = false →
    s.deserAux t fresh = some (s', r, fr) → Evol K (fun _ => True) true false s fresh s' fr ∧ K r
  | .mk sid cls mro kids, s, fresh, s', r, fr, hf, hr, hc, h => by
    rcases deserAux_inv h with ⟨hg, rfl, rfl⟩ | ⟨hg, s1, ks, base, hk, rfl⟩
    · exact ⟨Evol.refl _ _, hr _ (rget_some_mem hg)⟩
    · rw [clashAux_eq] at hc
      simp only [hg, hk, Bool.or_eq_false_iff] at hc
      obtain ⟨hc1, hc2⟩ := hc
      obtain ⟨e, hks⟩ := deserKids_evolK K kids s fresh s1 ks _ hf hr hc1 hk
      obtain ⟨p, hp⟩ := e.suffix
      have hKr : K r := hf r (by rw [hp]; simp)
      refine ⟨?_, hKr⟩
      split
      · exact Evol.new e _ _ _ hks trivial
      · rename_i hne
        refine Evol.newForce rfl e _ _ _ hks trivial _ (fun _ => ?_)
        simp only [hne, Bool.not_false, Bool.true_and] at hc2
        rw [← rget_isSome_iff, ← regGet_def]
        simp [hc2]
theorem deserKids_evolK (K : Nat → Prop) :
    ∀ (ts : List SerTree) (s : RState) (fresh : Fresh) (s' : RState) (us : List Nat) (fr : Fresh),
    (∀ t ∈ fresh.map (·.1), K t) → (∀ e ∈ s.reg, K e.2) → clashKids s ts fresh = false →
    s.deserKids ts fresh = some (s', us, fr) →
    Evol K (fun _ => True) true false s fresh s' fr ∧ ∀ u ∈ us, K u
  | [], s, fresh, s', us, fr, _, _, _, h => by
    simp [deserKids_nil] at h
    obtain ⟨rfl, rfl, rfl⟩ := h
    exact ⟨Evol.refl _ _, by intro u hu; simp at hu⟩
  | t :: r, s, fresh, s', us, fr, hf, hr, hc, h => by
    obtain ⟨s1, u, fr1, us', ha, hk, rfl⟩ := deserKids_cons_inv h
    rw [clashKids_cons] at hc
    simp only [ha, Bool.or_eq_false_iff] at hc
    obtain ⟨e1, ku⟩ := deserAux_evolK K t s fresh s1 u fr1 hf hr hc.1 ha
    obtain ⟨e2, kus⟩ := deserKids_evolK K r s1 fr1 s' us' fr (e1.freshK hf) (e1.regK hf hr) hc.2 hk
    refine ⟨e1.trans e2, ?_⟩
    intro w hw
    rcases List.mem_cons.mp hw with rfl | hw
    · exact ku
    · exact kus w hw
end

/-! ### the shape of `step`: nothing, or a pre-state followed by `gc` -/

/-- the fold of `detach` over the descendants -/
def detachAll (s : RState) (us : List Nat) : RState := us.foldl (fun st c => (st.pDetachSelf c).1) s

theorem detachAll_nil (s : RState) : detachAll s [] = s := rfl
theorem detachAll_cons (s : RState) (c : Nat) (r : List Nat) :
    detachAll s (c :: r) = detachAll (s.pDetachSelf c).1 r := rfl

/-- `Pre s op s1`: the operation is carried out and `s1` is the state just before the final `gc` -/
inductive Pre (s : RState) : ROp → RState → Prop
  | construct {v cls mro kids tok base} (hk : kids.all s.isLive = true) :
      Pre s (.construct v cls mro kids [(tok, base)]) ((s.pNew tok cls mro base kids).bind v tok)
  | duplicate {v x fresh s' u} (hx : s.isLive x = true)
      (h : s.dupAux (s.heap.length + 1) x fresh = some (s', u, [])) :
      Pre s (.duplicate v x fresh) (s'.bind v u)
  | duplicateD {v x fresh s' u e fr} (hx : s.isLive x = true)
      (h : s.dupAux (s.heap.length + 1) x fresh = some (s', u, e :: fr)) :
      Pre s (.duplicate v x fresh) s'
  | dcReplace {v x kids tok base o} (hx : s.isLive x = true) (hk : kids.all s.isLive = true)
      (ho : s.obj? x = some o) :
      Pre s (.dcReplace v x kids [(tok, base)]) ((s.pNew tok o.cls o.mro base kids).bind v tok)
  | replaceFail {v x kids} (hx : s.isLive x = true) (hk : kids.all s.isLive = true) :
      Pre s (.replace v x kids true [])
        (if (s.pDetachSelf x).2 then (s.pDetachSelf x).1.pRestore x else (s.pDetachSelf x).1)
  | replaceOk {v x kids tok base o} (hx : s.isLive x = true) (hk : kids.all s.isLive = true)
      (ho : s.obj? x = some o) :
      Pre s (.replace v x kids false [(tok, base)])
        (((s.pDetachSelf x).1.pNew tok o.cls o.mro base kids).bind v tok)
  | detach {x} (hx : s.isLive x = true) :
      Pre s (.detach x) (detachAll (s.pDetachSelf x).1 (s.descendants (s.heap.length + 1) x))
  | detachSelf {x} (hx : s.isLive x = true) : Pre s (.detachSelf x) (s.pDetachSelf x).1
  | asObj {v t fresh s' u} (h : s.deserAux t fresh = some (s', u, [])) :
      Pre s (.asObj v t fresh) (s'.bind v u)
  | asObjD {v t fresh s' u e fr} (h : s.deserAux t fresh = some (s', u, e :: fr)) :
      Pre s (.asObj v t fresh) s'
  | alias {v u} (hu : s.isLive u = true) : Pre s (.alias v u) (s.bind v u)
  | drop {v} : Pre s (.drop v) (s.unbind v)

theorem finish_shape (s' : RState) (v u : Nat) (fr : Fresh) (flag : Option Bool) :
    (fr = [] ∧ (s'.finish v u fr flag).1 = (s'.bind v u).gc) ∨
    (∃ e r, fr = e :: r ∧ (s'.finish v u fr flag).1 = s'.gc) := by
  cases fr with
  | nil => exact Or.inl ⟨rfl, rfl⟩
  | cons e r => exact Or.inr ⟨e, r, rfl, rfl⟩

theorem step_shape (s : RState) (op : ROp) :
    (s.step op).1 = s ∨ ∃ s1, Pre s op s1 ∧ (s.step op).1 = s1.gc := by
  cases op with
  | construct v cls mro kids fresh =>
    simp only [step]
    by_cases hk : kids.all s.isLive = true
    · match fresh with
      | [] => simp [hk]
      | [(tok, base)] => simp only [hk]; exact Or.inr ⟨_, Pre.construct hk, rfl⟩
      | _ :: _ :: _ => simp [hk]
    · simp [hk]
  | duplicate v x fresh =>
    simp only [step]
    by_cases hx : s.isLive x = true
    · simp only [hx]
      cases hd : s.dupAux (s.heap.length + 1) x fresh with
      | none => simp
      | some r =>
        obtain ⟨s', u, fr⟩ := r
        rcases finish_shape s' v u fr none with ⟨rfl, h⟩ | ⟨e, r, rfl, h⟩
        · exact Or.inr ⟨_, Pre.duplicate hx hd, h⟩
        · exact Or.inr ⟨_, Pre.duplicateD hx hd, h⟩
    · simp [hx]
  | dcReplace v x kids fresh =>
    simp only [step]
    by_cases hc : (s.isLive x && kids.all s.isLive) = true
    · have hc' := hc
      rw [Bool.and_eq_true] at hc'
      simp only [hc]
      cases ho : s.obj? x with
      | none => simp
      | some o =>
        match fresh with
        | [] => simp
        | [(tok, base)] => exact Or.inr ⟨_, Pre.dcReplace hc'.1 hc'.2 ho, rfl⟩
        | _ :: _ :: _ => simp
    · simp [hc]
  | replace v x kids fails fresh =>
    simp only [step]
    by_cases hc : (s.isLive x && kids.all s.isLive) = true
    · have hc' := hc
      rw [Bool.and_eq_true] at hc'
      simp only [hc]
      cases fails with
      | true =>
        match fresh with
        | [] => exact Or.inr ⟨_, Pre.replaceFail hc'.1 hc'.2, rfl⟩
        | _ :: _ => simp
      | false =>
        cases ho : s.obj? x with
        | none => simp
        | some o =>
          match fresh with
          | [] => simp
          | [(tok, base)] => exact Or.inr ⟨_, Pre.replaceOk hc'.1 hc'.2 ho, rfl⟩
          | _ :: _ :: _ => simp
    · simp [hc]
  | detach x =>
    simp only [step]
    by_cases hx : s.isLive x = true
    · simp only [hx]; exact Or.inr ⟨_, Pre.detach hx, rfl⟩
    · simp [hx]
  | detachSelf x =>
    simp only [step]
    by_cases hx : s.isLive x = true
    · simp only [hx]; exact Or.inr ⟨_, Pre.detachSelf hx, rfl⟩
    · simp [hx]
  | asObj v t fresh =>
    simp only [step]
    cases hd : s.deserAux t fresh with
    | none => simp
    | some r =>
      obtain ⟨s', u, fr⟩ := r
      rcases finish_shape s' v u fr none with ⟨rfl, h⟩ | ⟨e, r, rfl, h⟩
      · exact Or.inr ⟨_, Pre.asObj hd, h⟩
      · exact Or.inr ⟨_, Pre.asObjD hd, h⟩
  | alias v u =>
    simp only [step]
    by_cases hu : s.isLive u = true
    · simp only [hu]; exact Or.inr ⟨_, Pre.alias hu, rfl⟩
    · simp [hu]
  | drop v => exact Or.inr ⟨_, Pre.drop, rfl⟩

/-! ### reachability: `live` computes the closure of the roots under child links -/

inductive Reach (s : RState) (R : List Nat) : Nat → Prop
  | root {u : Nat} : u ∈ R → Reach s R u
  | kid {a b : Nat} : Reach s R a → b ∈ s.kidsOf a → Reach s R b

theorem reach_sound (s : RState) (R : List Nat) :
    ∀ (fuel : Nat) (fr seen : List Nat), (∀ u ∈ fr, Reach s R u) → (∀ u ∈ seen, Reach s R u) →
      ∀ u ∈ s.reach fuel fr seen, Reach s R u
  | 0, _, _, _, hs => by simpa [reach] using hs
  | _ + 1, [], _, _, hs => by simpa [reach] using hs
  | fuel + 1, a :: rest, seen, hf, hs => by
    simp only [reach]
    split
    · exact reach_sound s R fuel rest seen (fun u hu => hf u (List.mem_cons_of_mem _ hu)) hs
    · apply reach_sound s R fuel
      · intro u hu
        rcases List.mem_append.mp hu with h | h
        · exact Reach.kid (hf a (by simp)) h
        · exact hf u (List.mem_cons_of_mem _ h)
      · intro u hu
        rcases List.mem_cons.mp hu with rfl | h
        · exact hf _ (by simp)
        · exact hs u h

/-- the work still to be done by `reach`: the children lists of the objects not yet seen -/
def cost (seen : List Nat) : List RObj → Nat
  | [] => 0
  | o :: r => (if seen.contains o.uid then 0 else o.kids.length) + cost seen r

def kidsL (heap : List RObj) (u : Nat) : List Nat := ((heap.find? (·.uid == u)).map (·.kids)).getD []

theorem kidsOf_def (s : RState) (u : Nat) : s.kidsOf u = kidsL s.heap u := rfl

theorem kidsL_append_of_mem {heap ext : List RObj} {a : Nat} (h : a ∈ heap.map (·.uid)) :
    kidsL (heap ++ ext) a = kidsL heap a := by
  unfold kidsL
  rw [List.find?_append]
  cases hf : heap.find? (·.uid == a) with
  | some o => simp
  | none =>
    exfalso
    obtain ⟨o, ho, rfl⟩ := List.mem_map.mp h
    have := List.find?_eq_none.mp hf o ho
    simp at this

theorem kidsL_append_of_not_mem {heap ext : List RObj} {a : Nat} (h : a ∉ heap.map (·.uid)) :
    kidsL (heap ++ ext) a = kidsL ext a := by
  unfold kidsL
  rw [List.find?_append]
  have : heap.find? (·.uid == a) = none := by
    rw [List.find?_eq_none]
    intro o ho
    simp only [beq_iff_eq]
    intro e; exact h (List.mem_map.mpr ⟨o, ho, e⟩)
  simp [this]

theorem kidsL_of_not_mem {heap : List RObj} {a : Nat} (h : a ∉ heap.map (·.uid)) : kidsL heap a = [] := by
  have := kidsL_append_of_not_mem (ext := []) h
  simpa [kidsL] using this

theorem cost_notin (u : Nat) (seen : List Nat) : ∀ (heap : List RObj), u ∉ heap.map (·.uid) →
    cost (u :: seen) heap = cost seen heap
  | [], _ => rfl
  | o :: r, h => by
    simp only [List.map_cons, List.mem_cons, not_or] at h
    have hne : (o.uid == u) = false := by simpa using fun e => h.1 e.symm
    simp only [cost, List.contains_cons, hne, Bool.false_or, cost_notin u seen r h.2]

theorem cost_step (u : Nat) (seen : List Nat) (hu : seen.contains u = false) :
    ∀ (heap : List RObj), (heap.map (·.uid)).Nodup →
      cost (u :: seen) heap + (kidsL heap u).length = cost seen heap
  | [], _ => by simp [cost, kidsL]
  | o :: r, hnd => by
    simp only [List.map_cons, List.nodup_cons] at hnd
    by_cases e : o.uid = u
    · subst e
      have hk : kidsL (o :: r) o.uid = o.kids := by simp [kidsL]
      rw [hk]
      simp only [cost, List.contains_cons, beq_self_eq_true, Bool.true_or, if_true, hu, Bool.false_eq_true,
        if_false, cost_notin o.uid seen r hnd.1]
      omega
    · have hne : (o.uid == u) = false := by simpa using e
      have hk : kidsL (o :: r) u = kidsL r u := by simp [kidsL, hne]
      rw [hk]
      simp only [cost, List.contains_cons, hne, Bool.false_or]
      have := cost_step u seen hu r hnd.2
      omega

theorem cost_le (seen : List Nat) (B : Nat) : ∀ (heap : List RObj), (∀ o ∈ heap, o.kids.length ≤ B) →
    cost seen heap ≤ heap.length * B
  | [], _ => by simp [cost]
  | o :: r, h => by
    have h1 := h o (by simp)
    have h2 := cost_le seen B r (fun o' ho' => h o' (List.mem_cons_of_mem _ ho'))
    simp only [cost, List.length_cons]
    have : (r.length + 1) * B = r.length * B + B := by rw [Nat.add_mul]; simp
    split <;> omega

theorem reach_complete (s : RState) (hnd : (s.heap.map (·.uid)).Nodup) :
    ∀ (fuel : Nat) (fr seen : List Nat), cost seen s.heap + fr.length ≤ fuel →
      (∀ a ∈ seen, ∀ b ∈ s.kidsOf a, b ∈ seen ∨ b ∈ fr) →
      (∀ u ∈ seen, u ∈ s.reach fuel fr seen) ∧ (∀ u ∈ fr, u ∈ s.reach fuel fr seen) ∧
      (∀ a ∈ s.reach fuel fr seen, ∀ b ∈ s.kidsOf a, b ∈ s.reach fuel fr seen)
  | 0, fr, seen, hc, hinv => by
    have : fr = [] := List.eq_nil_of_length_eq_zero (by omega)
    subst this
    simp only [reach]
    refine ⟨fun u h => h, fun u h => by simp at h, ?_⟩
    intro a ha b hb
    rcases hinv a ha b hb with h | h
    · exact h
    · simp at h
  | fuel + 1, [], seen, hc, hinv => by
    simp only [reach]
    refine ⟨fun u h => h, fun u h => by simp at h, ?_⟩
    intro a ha b hb
    rcases hinv a ha b hb with h | h
    · exact h
    · simp at h
  | fuel + 1, u :: rest, seen, hc, hinv => by
    simp only [reach]
    split
    · rename_i hu
      have hu' : u ∈ seen := by simpa using hu
      obtain ⟨h1, h2, h3⟩ := reach_complete s hnd fuel rest seen (by simp at hc; omega) (by
        intro a ha b hb
        rcases hinv a ha b hb with h | h
        · exact Or.inl h
        · rcases List.mem_cons.mp h with rfl | h
          · exact Or.inl hu'
          · exact Or.inr h)
      refine ⟨h1, ?_, h3⟩
      intro w hw
      rcases List.mem_cons.mp hw with rfl | hw
      · exact h1 _ hu'
      · exact h2 w hw
    · rename_i hu
      have hu' : seen.contains u = false := by simpa using hu
      have hcs := cost_step u seen hu' s.heap hnd
      rw [← kidsOf_def] at hcs
      obtain ⟨h1, h2, h3⟩ := reach_complete s hnd fuel (s.kidsOf u ++ rest) (u :: seen)
        (by simp at hc ⊢; omega) (by
        intro a ha b hb
        rcases List.mem_cons.mp ha with rfl | ha
        · exact Or.inr (List.mem_append_left _ hb)
        · rcases hinv a ha b hb with h | h
          · exact Or.inl (List.mem_cons_of_mem _ h)
          · rcases List.mem_cons.mp h with rfl | h
            · exact Or.inl (by simp)
            · exact Or.inr (List.mem_append_right _ h))
      refine ⟨fun w hw => h1 w (List.mem_cons_of_mem _ hw), ?_, h3⟩
      intro w hw
      rcases List.mem_cons.mp hw with rfl | hw
      · exact h1 _ (by simp)
      · exact h2 w (List.mem_append_right _ hw)

theorem cost_nil : ∀ (heap : List RObj), cost [] heap = (heap.map (·.kids.length)).sum
  | [] => rfl
  | o :: r => by simp [cost, cost_nil r]

theorem isLive_sound {s : RState} {u : Nat} (h : s.isLive u = true) : Reach s (s.roots.map (·.2)) u := by
  unfold isLive live at h
  have hm : u ∈ s.reach ((s.heap.map (·.kids.length)).sum + s.roots.length + 1) (s.roots.map (·.2)) [] := by
    simpa using h
  exact reach_sound s _ _ _ _ (fun u hu => Reach.root hu) (fun u hu => by simp at hu) u hm

/-- the fuel of `live` (all children lists + the roots) always suffices -/
theorem live_complete {s : RState} (hnd : (s.heap.map (·.uid)).Nodup) :
    (∀ u ∈ s.roots.map (·.2), u ∈ s.live) ∧ (∀ a ∈ s.live, ∀ b ∈ s.kidsOf a, b ∈ s.live) := by
  have hc : cost [] s.heap + (s.roots.map (·.2)).length ≤
      (s.heap.map (·.kids.length)).sum + s.roots.length + 1 := by
    rw [cost_nil]
    simp only [List.length_map]
    omega
  obtain ⟨_, h2, h3⟩ := reach_complete s hnd _ (s.roots.map (·.2)) [] hc (by intro a ha; simp at ha)
  exact ⟨h2, h3⟩

theorem isLive_complete {s : RState} (hnd : (s.heap.map (·.uid)).Nodup) {u : Nat}
    (h : Reach s (s.roots.map (·.2)) u) : s.isLive u = true := by
  obtain ⟨h2, h3⟩ := live_complete hnd
  unfold isLive
  rw [List.contains_iff_mem]
  induction h with
  | root hr => exact h2 _ hr
  | kid _ hb ih => exact h3 _ ih _ hb

theorem isLive_root {s : RState} (hnd : (s.heap.map (·.uid)).Nodup) {r : Nat × Nat}
    (h : r ∈ s.roots) : s.isLive r.2 = true :=
  isLive_complete hnd (Reach.root (List.mem_map.mpr ⟨r, h, rfl⟩))

theorem isLive_kid {s : RState} (hnd : (s.heap.map (·.uid)).Nodup) {a b : Nat}
    (ha : s.isLive a = true) (hb : b ∈ s.kidsOf a) : s.isLive b = true :=
  isLive_complete hnd (Reach.kid (isLive_sound ha) hb)

/-- liveness transfer: a set containing the roots and closed under child links contains every
live object -/
theorem isLive_ind {s : RState} (P : Nat → Prop) (hr : ∀ r ∈ s.roots, P r.2)
    (hc : ∀ a, P a → ∀ b ∈ s.kidsOf a, P b) {u : Nat} (h : s.isLive u = true) : P u := by
  have := isLive_sound h
  clear h
  induction this with
  | root hr' => obtain ⟨r, hr1, rfl⟩ := List.mem_map.mp hr'; exact hr r hr1
  | kid _ hb ih => exact hc _ ih _ hb

end RegL
end PyOak
