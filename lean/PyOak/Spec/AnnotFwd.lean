/-
Transformations of annotations used by the C11 invariance theorems (Props/C11Fwd.lean,
Props/C11NewType.lean).  None of them mirrors a function of pyoak: they describe the SAME class written in
another module layout (a referenced node class defined before / after the annotated class — which is what
decides whether `get_type_hints` can evaluate a postponed / string annotation at class-definition time).

* `mapRef g`        re-tag (and re-index) every reference to a node class: `g late c = (late', c')`
* `resolveFwd known` `.fwd c ↦ .node c` for every class `c` with `known c` (the class table at definition time)
* `resolveAll`      every referenced class already exists when the annotated class is defined
* `deferAll`        no referenced class exists yet (e.g. all node classes of a module are defined bottom-up
                    and reference each other by name)
* `noNoneNT`        no union member is a NewType of `None` — the weakest side condition under which erasing
                    NewType wrappers at every depth keeps the verdict (`ntBaseOk` of Spec/Annot.lean is stronger)
-/
import PyOak.Spec.Annot
namespace PyOak
namespace Annot
open Ty

/-- a reference to node class `c`, resolvable at definition time (`late = false`) or not -/
def Ty.ref (late : Bool) (c : Nat) : Ty := if late then .fwd c else .node c

mutual
def mapRef (g : Bool → Nat → Bool × Nat) : Ty → Ty
  | .node c => Ty.ref (g false c).1 (g false c).2
  | .fwd c => Ty.ref (g true c).1 (g true c).2
  | .newtype t => .newtype (mapRef g t)
  | .union m ms => .union (mapRef g m) (mapRefL g ms)
  | .vtuple t => .vtuple (mapRef g t)
  | .coll k args => .coll k (mapRefL g args)
  | .atom a => .atom a
  | .none => .none
def mapRefL (g : Bool → Nat → Bool × Nat) : List Ty → List Ty
  | [] => []
  | t :: r => mapRef g t :: mapRefL g r
end

/-- `.fwd c ↦ .node c` when `c` names a node class in the class table `known`; nothing else changes -/
def resolveFwd (known : Nat → Bool) : Ty → Ty := mapRef fun late c => (late && !known c, c)

def resolveAll : Ty → Ty := resolveFwd fun _ => true

def deferAll : Ty → Ty := mapRef fun _ c => (true, c)

def mapField (F : Ty → Ty) (f : Field) : Field := ⟨f.name, F f.ty⟩

/-- the same transformation on every annotation of every class of a chain -/
def mapLevels (F : Ty → Ty) (ls : List Level) : List Level := ls.map fun lvl => lvl.map (mapField F)

/-- `NewType("..", None)` behind any number of further NewTypes -/
def isNoneNT : Ty → Bool
  | .newtype t => t.unwrap.isNone
  | _ => false

mutual
def noNoneNT : Ty → Bool
  | .newtype t => noNoneNT t
  | .union m ms => !(isNoneNT m) && noNoneNT m && noNoneNTL ms
  | .vtuple t => noNoneNT t
  | .coll _ args => noNoneNTArgs args
  | _ => true
/-- the members of a union -/
def noNoneNTL : List Ty → Bool
  | [] => true
  | t :: r => !(isNoneNT t) && noNoneNT t && noNoneNTL r
/-- the arguments of a tuple / container -/
def noNoneNTArgs : List Ty → Bool
  | [] => true
  | t :: r => noNoneNT t && noNoneNTArgs r
end

end Annot
end PyOak
