/-
Specification of C11 as the property states it: shape predicates on annotations.

* a *child* field: "a node class, a union of node classes optionally with None, or a fixed or
  variadic tuple of such [node classes / unions of node classes]" — NewType wrappers are transparent;
* a *property*: "mentions no node class and no mutable collection";
* everything else is rejected.
-/
import PyOak.Model.Annot
namespace PyOak
namespace Annot
open Ty

/-- a node class, possibly behind NewType wrappers -/
inductive NodeLike : Ty → Prop where
  | node (c : Nat) : NodeLike (.node c)
  | fwd (c : Nat) : NodeLike (.fwd c)
  | newtype {t : Ty} : NodeLike t → NodeLike (.newtype t)

/-- an element type of a tuple of nodes: a node class or a union of node classes (no None) -/
inductive ElemShape : Ty → Prop where
  | one {t : Ty} : NodeLike t → ElemShape t
  | union {m : Ty} {ms : List Ty} : (∀ x ∈ m :: ms, NodeLike x) → ElemShape (.union m ms)
  | newtype {t : Ty} : ElemShape t → ElemShape (.newtype t)

/-- the annotations of child fields -/
inductive ChildShape : Ty → Prop where
  | one {t : Ty} : NodeLike t → ChildShape t
  | union {m : Ty} {ms : List Ty} :
      (∀ x ∈ m :: ms, x = .none ∨ NodeLike x) → (∃ x ∈ m :: ms, NodeLike x) → ChildShape (.union m ms)
  | vtuple {t : Ty} : ElemShape t → ChildShape (.vtuple t)
  | tuple {args : List Ty} : args ≠ [] → (∀ a ∈ args, ElemShape a) → ChildShape (.coll .tuple args)
  | newtype {t : Ty} : ChildShape t → ChildShape (.newtype t)

/-- a node class occurs somewhere in the annotation -/
inductive MentionsNode : Ty → Prop where
  | node (c : Nat) : MentionsNode (.node c)
  | fwd (c : Nat) : MentionsNode (.fwd c)
  | newtype {t : Ty} : MentionsNode t → MentionsNode (.newtype t)
  | union {m : Ty} {ms : List Ty} {x : Ty} : x ∈ m :: ms → MentionsNode x → MentionsNode (.union m ms)
  | vtuple {t : Ty} : MentionsNode t → MentionsNode (.vtuple t)
  | coll {k : CollKind} {args : List Ty} {x : Ty} : x ∈ args → MentionsNode x → MentionsNode (.coll k args)

/-- a mutable collection (list / dict / set) occurs somewhere in the annotation -/
inductive MentionsMutable : Ty → Prop where
  | here {k : CollKind} {args : List Ty} : k.mutable = true → MentionsMutable (.coll k args)
  | newtype {t : Ty} : MentionsMutable t → MentionsMutable (.newtype t)
  | union {m : Ty} {ms : List Ty} {x : Ty} : x ∈ m :: ms → MentionsMutable x → MentionsMutable (.union m ms)
  | vtuple {t : Ty} : MentionsMutable t → MentionsMutable (.vtuple t)
  | coll {k : CollKind} {args : List Ty} {x : Ty} : x ∈ args → MentionsMutable x → MentionsMutable (.coll k args)

/-- the documented verdict -/
inductive SpecVerdict : Ty → Verdict → Prop where
  | child {t : Ty} : ChildShape t → SpecVerdict t .child
  | prop {t : Ty} : ¬ MentionsNode t → ¬ MentionsMutable t → SpecVerdict t .prop
  | reject {t : Ty} : ¬ ChildShape t → (MentionsNode t ∨ MentionsMutable t) → SpecVerdict t .reject

mutual
/-- the annotation with every NewType wrapper removed -/
def erase : Ty → Ty
  | .newtype t => erase t
  | .union m ms => .union (erase m) (eraseL ms)
  | .vtuple t => .vtuple (erase t)
  | .coll k args => .coll k (eraseL args)
  | t => t
def eraseL : List Ty → List Ty
  | [] => []
  | t :: r => erase t :: eraseL r
end

mutual
/-- every NewType in the annotation wraps (behind further NewTypes) something that is neither a Union
nor None — PEP 484 requires the base of a NewType to be a class; `typing` would flatten a union
written directly inside a union but cannot see through a NewType -/
def ntBaseOk : Ty → Bool
  | .newtype t => ntBaseOk t && (match t.unwrap with | .none => false | .union _ _ => false | _ => true)
  | .union m ms => ntBaseOk m && ntBaseOkL ms
  | .vtuple t => ntBaseOk t
  | .coll _ args => ntBaseOkL args
  | _ => true
def ntBaseOkL : List Ty → Bool
  | [] => true
  | t :: r => ntBaseOk t && ntBaseOkL r
end

end Annot
end PyOak
