/-
Specification for C13: "the value conforms to the annotation", as the property lists it
(bool values conform to bool and not to int, ints are acceptable for float, None only where the
annotation allows it, tuples element-wise with exact length for fixed tuples, literals by
membership, unions by any member, node / enum fields by instance), written by recursion on the
annotation with no reference to the order of checks of the implementation.

`dontCare` marks the pairs the property does not decide (DESIGN §4.1): a bool offered for
`float`, and a `Literal` member that is `==` to the value without being of the same kind
(`True` vs `1`, `1.0` vs `1`) — at any position the element-wise rules reach.
-/
import PyOak.Model.IsInstance
namespace PyOak
namespace RT

/-- `v` is of the same kind as, and equal to, one of the members -/
def litMember (v : PyVal) (ms : List Lit) : Bool := ms.any fun m => strictEqLit v m

mutual
def conforms (v : PyVal) (t : Ty) : Bool :=
  match t with
  | .int => v.isInt                                   -- not a bool
  | .float => v.isFloat || v.isInt                    -- ints are acceptable for float
  | .str => v.isStr
  | .bool => v.isBool
  | .bytes => v.isBytes
  | .any => true
  | .none => v.isNone                                 -- None only where allowed
  | .lit ms => litMember v ms
  | .cls c => v.instOf c
  | .newtype _ u => conforms v u
  | .union ts => conformsAny v ts
  | .tupleFix ts =>
    match v with
    | .tuple xs => xs.length == ts.length && conformsZip xs ts
    | _ => false
  | .tupleVar u =>
    match v with
    | .tuple xs => xs.all fun x => conforms x u
    | _ => false
  | .tupleAny => v.isTuple
  | .fset u =>
    match v with
    | .fset xs => xs.all fun x => conforms x u
    | _ => false
  | .fsetAny => v.isFset
  | .seq u =>
    match v.seqElems with
    | some xs => xs.all fun x => conforms x u
    | Option.none => false
  | .seqAny => v.seqElems.isSome
  | .map k w =>
    match v with
    | .dict kvs => kvs.all fun kv => conforms kv.1 k && conforms kv.2 w
    | _ => false
  | .mapAny => v.isDict
def conformsAny (v : PyVal) (ts : List Ty) : Bool :=
  match ts with
  | [] => false
  | t :: r => conforms v t || conformsAny v r
/-- element-wise over the common prefix (the caller compares the lengths) -/
def conformsZip (xs : List PyVal) (ts : List Ty) : Bool :=
  match ts with
  | [] => true
  | t :: r =>
    match xs with
    | [] => true
    | x :: xr => conforms x t && conformsZip xr r
end

/-- `==` but not of the same kind -/
def crossEqLit (v : PyVal) (m : Lit) : Bool := pyEqLit v m && !strictEqLit v m

mutual
/-- the pair touches a point the property leaves open -/
def dontCare (v : PyVal) (t : Ty) : Bool :=
  match t with
  | .float => v.isBool
  | .lit ms => ms.any fun m => crossEqLit v m
  | .newtype _ u => dontCare v u
  | .union ts => dontCareAny v ts
  | .tupleFix ts =>
    match v with
    | .tuple xs => dontCareZip xs ts
    | _ => false
  | .tupleVar u =>
    match v with
    | .tuple xs => xs.any fun x => dontCare x u
    | _ => false
  | .fset u =>
    match v with
    | .fset xs => xs.any fun x => dontCare x u
    | _ => false
  | .seq u =>
    match v.seqElems with
    | some xs => xs.any fun x => dontCare x u
    | Option.none => false
  | .map k w =>
    match v with
    | .dict kvs => kvs.any fun kv => dontCare kv.1 k || dontCare kv.2 w
    | _ => false
  | _ => false
def dontCareAny (v : PyVal) (ts : List Ty) : Bool :=
  match ts with
  | [] => false
  | t :: r => dontCare v t || dontCareAny v r
def dontCareZip (xs : List PyVal) (ts : List Ty) : Bool :=
  match ts with
  | [] => false
  | t :: r =>
    match xs with
    | [] => false
    | x :: xr => dontCare x t || dontCareZip xr r
end

end RT
end PyOak
