/-
"The same annotation up to the order of union members" (C11: `typing` objects that differ only in the order
of the members of a union compare and hash equal, and pyoak's predicates are `lru_cache`d on them — so the
verdict of `Union[None, N]` may be the one computed earlier for `Union[N, None]`).

* `PermStep t t'`   `t'` is `t` with the member list of ONE union, anywhere in the term, permuted
* `PermEq t t'`     reflexive-transitive closure: any number of unions, at any depths, permuted
* `Pointwise R`     two lists related element by element (own `Forall₂`, no Mathlib)
* `mkU`, `swapU`    helpers / a concrete every-union-at-once permutation
-/
import PyOak.Model.Annot
namespace PyOak
namespace Annot

inductive PermStep : Ty → Ty → Prop where
  | here {m m' : Ty} {ms ms' : List Ty} : (m :: ms).Perm (m' :: ms') → PermStep (.union m ms) (.union m' ms')
  | newtype {t t' : Ty} : PermStep t t' → PermStep (.newtype t) (.newtype t')
  | vtuple {t t' : Ty} : PermStep t t' → PermStep (.vtuple t) (.vtuple t')
  | member {m m' x x' : Ty} {ms ms' l1 l2 : List Ty} : m :: ms = l1 ++ x :: l2 → m' :: ms' = l1 ++ x' :: l2 →
      PermStep x x' → PermStep (.union m ms) (.union m' ms')
  | arg {k : CollKind} {x x' : Ty} {l1 l2 : List Ty} : PermStep x x' →
      PermStep (.coll k (l1 ++ x :: l2)) (.coll k (l1 ++ x' :: l2))

inductive PermEq : Ty → Ty → Prop where
  | refl (t : Ty) : PermEq t t
  | tail {a b c : Ty} : PermEq a b → PermStep b c → PermEq a c

inductive Pointwise (R : Ty → Ty → Prop) : List Ty → List Ty → Prop where
  | nil : Pointwise R [] []
  | cons {a b : Ty} {l l' : List Ty} : R a b → Pointwise R l l' → Pointwise R (a :: l) (b :: l')

/-- a union given by its (non-empty) member list -/
def mkU : List Ty → Ty
  | [] => .none
  | a :: r => .union a r

mutual
/-- an example of a rewriting that permutes EVERY union of an annotation, at every depth: the first two members
of each union are swapped (used as a witness that `PermEq` covers simultaneous permutations) -/
def swapU : Ty → Ty
  | .newtype t => .newtype (swapU t)
  | .union m ms =>
    match swapUL ms with
    | [] => .union (swapU m) []
    | a :: r => .union a (swapU m :: r)
  | .vtuple t => .vtuple (swapU t)
  | .coll k args => .coll k (swapUL args)
  | t => t
def swapUL : List Ty → List Ty
  | [] => []
  | t :: r => swapU t :: swapUL r
end

end Annot
end PyOak
