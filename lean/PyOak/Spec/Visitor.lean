/-
Specification of C09 as the property states it.

* dispatch: `nearest` — the first class of a list of class names that has a method.
* transformation: `T` — the bottom-up rewrite by plain structural recursion over the tree:
  every child field is rewritten child by child, left to right; a child mapped to `None` is
  dropped (tuple field: the remaining elements keep their order; single field: the field becomes
  `None`, i.e. empty); a field none of whose children changed *keeps its old value*; a node none
  of whose fields changed is returned *itself*; otherwise a new object (fresh identity) with the
  same class / origin / properties and the rewritten fields is returned.
  The counter of object identities is threaded left to right so that "new object" is expressible.
-/
import PyOak.Model.Visitor
namespace PyOak

/-- the nearest class (first in the list) that has a method -/
def nearest (has : Str → Option Rule) : List Str → Option Rule
  | [] => none
  | c :: r => match has c with
    | some m => some m
    | none => nearest has r

/-- the node a generic visit returns, given the rewritten child fields -/
def rebuilt (h : Head) (ks : List Kid) : Except Err (List Kid × Bool × Nat) → VRes
  | .error e => .error e
  | .ok (ks', chg, c') =>
    if chg then .ok (some (.mk { h with uid := c' } ks'), c' + 1) else .ok (some (.mk h ks), c')

mutual
/-- bottom-up rewrite of one node: `(result, next free identity)` -/
def T (v : Visitor) : Node → Nat → VRes
  | .mk h ks, c =>
    match v.action h with
    | .keep => .ok (some (.mk h ks), c)
    | .replaceBy k => .ok (some k, c)
    | .remove => .ok (none, c)
    | .raise => .error .raised
    | .generic => rebuilt h ks (TKids v ks c)
    | .rewriteProp p => finishRewrite p (rebuilt h ks (TKids v ks c))
termination_by structural n => n
/-- all child fields, in declaration order: `(new fields, any changed, counter)` -/
def TKids (v : Visitor) : List Kid → Nat → Except Err (List Kid × Bool × Nat)
  | [], c => .ok ([], false, c)
  | k :: r, c =>
    match TKid v k c with
    | .error e => .error e
    | .ok (k', chg, c1) =>
      match TKids v r c1 with
      | .error e => .error e
      | .ok (r', chg', c2) => .ok (k' :: r', chg || chg', c2)
termination_by structural ks => ks
/-- one child field: an unchanged field keeps its old value -/
def TKid (v : Visitor) : Kid → Nat → Except Err (Kid × Bool × Nat)
  | .mk name coll ns, c =>
    match TNodes v ns c with
    | .error e => .error e
    | .ok (out, chg, c') => .ok (if chg then .mk name coll out else .mk name coll ns, chg, c')
termination_by structural k => k
/-- the children of one field, left to right: results that are `None` are dropped, the field is
changed iff some result is not the very same object as the child -/
def TNodes (v : Visitor) : List Node → Nat → Except Err (List Node × Bool × Nat)
  | [], c => .ok ([], false, c)
  | x :: r, c =>
    match T v x c with
    | .error e => .error e
    | .ok (rx, c1) =>
      match TNodes v r c1 with
      | .error e => .error e
      | .ok (out, chg, c2) => .ok (rx.toList ++ out, !(sameObj rx x) || chg, c2)
termination_by structural ns => ns
end

/-! ### preconditions: well-formed tree values, fresh counter -/

mutual
/-- field names of every node are pairwise distinct; a single (non-sequence) field holds at most
one node -/
def wf : Node → Bool
  | .mk _ ks => decide ((ks.map Kid.name).Nodup) && wfKids ks
termination_by structural n => n
def wfKids : List Kid → Bool
  | [] => true
  | k :: r => wfKid k && wfKids r
termination_by structural ks => ks
def wfKid : Kid → Bool
  | .mk _ coll ns => (coll || decide (ns.length ≤ 1)) && wfNodes ns
termination_by structural k => k
def wfNodes : List Node → Bool
  | [] => true
  | n :: r => wf n && wfNodes r
termination_by structural ns => ns
end


mutual
/-- every object identity in the tree is `< c` (the counter `c` is fresh) -/
def uidsLt (c : Nat) : Node → Bool
  | .mk h ks => decide (h.uid < c) && uidsLtKids c ks
termination_by structural n => n
def uidsLtKids (c : Nat) : List Kid → Bool
  | [] => true
  | k :: r => uidsLtKid c k && uidsLtKids c r
termination_by structural ks => ks
def uidsLtKid (c : Nat) : Kid → Bool
  | .mk _ _ ns => uidsLtNodes c ns
termination_by structural k => k
def uidsLtNodes (c : Nat) : List Node → Bool
  | [] => true
  | n :: r => uidsLt c n && uidsLtNodes c r
termination_by structural ns => ns
end


end PyOak
