/-
Documented meaning of an xpath, top-down along the root-first chain of a position.

A chain is the list `[(root, none), (n₁, some e₁), …, (n_k, some e_k)]` where each `n_{i+1}` is
stored in `n_i` under edge `e_{i+1}`.  `sat els chain`: the steps `els` (root side first) can be
aligned with chain members, strictly downwards, such that
  * the first step is aligned with the root unless it is `anywhere` (a leading `//` or a
    relative path), in which case it may be aligned with any member;
  * each further step is aligned with the member directly below the previous step's member,
    or, when it is `anywhere`, with any member strictly below it;
  * the last step is aligned with the last member (the node asked about);
  * every step matches its member: instance of the class, stored in the named field and at the
    given index when those are given (the root has no field and no index).
-/
import PyOak.Model.XPath
import PyOak.Spec.Tree
namespace PyOak

def sat : Chain → List XElem → Bool
  | [], _ => false
  | _ :: _, [] => false
  | x :: c, el :: rest =>
    (matchElem x.1 x.2 el &&
        (match rest with
         | [] => c.isEmpty
         | _ :: _ => !c.isEmpty && sat c rest))
      || (el.anywhere && !c.isEmpty && sat c (el :: rest))

end PyOak
