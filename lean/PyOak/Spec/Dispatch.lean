/-
C09, dispatch: the decision table of `ASTNode.accept` as the property states it, in terms of the
node's OWN class.

`Head.cls` (`type(node).__name__`) and `Head.mro` (`[k.__name__ for k in type(node).__mro__]`) are two
fields of the model's node head; `Head.ownMro` is the well-formedness condition that ties them: the
class is the head of its MRO and the MRO goes on (at least `object` follows).  The protocol handler
checks it on every node it is given.
-/
import PyOak.Spec.Visitor
namespace PyOak

/-- the class of the node is the first entry of its MRO and at least one more class follows -/
def Head.ownMro (h : Head) : Bool :=
  match h.mro with
  | c :: _ :: _ => c == h.cls
  | _ => false

/-- the proper base classes that are consulted: the MRO without the own class and without its last
entry (`object`) -/
def Head.bases (h : Head) : List Str := h.mro.tail.dropLast

/-- **the decision table**: the method of the node's own class if the visitor has one (strict or
not); otherwise, for a non-strict visitor, the method of the nearest base class that has one;
otherwise `none` (= `generic_visit`) -/
def ownMethod (strict : Bool) (has : Str → Option Rule) (cls : Str) (bases : List Str) : Option Rule :=
  match has cls with
  | some r => some r
  | none => if strict then none else nearest has bases

mutual
def ownMroTree : Node → Bool
  | .mk h ks => h.ownMro && ownMroKids ks
termination_by structural n => n
def ownMroKids : List Kid → Bool
  | [] => true
  | k :: r => ownMroKid k && ownMroKids r
termination_by structural ks => ks
def ownMroKid : Kid → Bool
  | .mk _ _ ns => ownMroNodes ns
termination_by structural k => k
def ownMroNodes : List Node → Bool
  | [] => true
  | n :: r => ownMroTree n && ownMroNodes r
termination_by structural ns => ns
end

end PyOak
