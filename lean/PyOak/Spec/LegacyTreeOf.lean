/-
The ABSTRACTION FUNCTION from the legacy heap (Model/Legacy.lean: objects with `_parent_id`,
`_parent_field`, `_parent_index`, the registry) to the tree values on which the successor's
traversals, `Tree` tables and xpath semantics are stated (Model/Core.lean, Spec/Tree.lean).

  treeOf s u      the tree VALUE below object `u`: its head (identity = the heap address `u`, class,
                  MRO, properties) and, for every child field in declaration order, the trees of
                  the stored children.  Reads only the downward structure (`fields`), never the
                  parent slots.  Recursion over the object graph by fuel (`s.size`);
                  Props/C20Heap.lean shows that on an acyclic heap (`C18.Ranked`) the fuel is
                  sufficient (`treeOf_unfold`).
  edgeOf s u      what the legacy code reads off the node itself: `(parent_field.name, parent_index)`,
                  `none` when `_parent_field` is unset
  heapChain s u l the root-first chain built from the node's OWN parent slots along the parent
                  pointers `l` (= `node.ancestors()`, nearest first)

No theorem here; nothing of this file is executable model code that needs the differential harness
(the definitions are specification vocabulary; the heap-level walks that mirror the Python code are
in Model/LegacyHeapWalk.lean).
-/
import PyOak.Model.Legacy
import PyOak.Spec.Tree
namespace PyOak.Legacy
open PyOak

/-- the head of the tree node that stands for heap object `u` (object identity = heap address) -/
def headOf (u : Nat) (o : LObj) : Head :=
  { uid := u, cls := o.cls, mro := o.mro, org := ⟨0, o.fqn⟩,
    props := o.props.map fun p =>
      { name := p.name, ty := [], txt := p.txt, canon := .str p.txt, compare := p.compare, init := true },
    truthy := true }

/-- one child field: tuple / list fields are collections, required / optional ones hold `[]` or `[c]` -/
def kidOf (T : Nat → Node) (f : LField) : Kid := .mk f.name f.kind.isSeq (f.kids.map T)

/-- the tree below `u`, unfolded `fuel` levels deep -/
def treeOfGo (s : LState) : Nat → Nat → Node
  | 0, u => .mk (headOf u (s.obj u)) []
  | fuel + 1, u => .mk (headOf u (s.obj u)) ((s.obj u).fields.map (kidOf (treeOfGo s fuel)))

/-- **the tree a heap object represents** -/
def treeOf (s : LState) (u : Nat) : Node := treeOfGo s s.size u

/-- the node's own record of where it is stored: `parent_field.name` / `parent_index` -/
def edgeOf (s : LState) (u : Nat) : Option Edge :=
  match (s.obj u).pfield with
  | some f => some ⟨f, (s.obj u).pindex⟩
  | none => none

/-- a chain member as the legacy matcher sees it: the object and its own parent slots -/
def posOf (s : LState) (u : Nat) : Node × Option Edge := (treeOf s u, edgeOf s u)

/-- the last member of `u :: l` (the root the parent pointers end in) -/
def topOf : Nat → List Nat → Nat
  | u, [] => u
  | _, p :: l => topOf p l

/-- node-first: the node, then `node.ancestors()` -/
def upList (s : LState) (u : Nat) (l : List Nat) : List (Node × Option Edge) := (u :: l).map (posOf s)

/-- root-first chain read off the parent pointers -/
def heapChain (s : LState) (u : Nat) (l : List Nat) : Chain := (upList s u l).reverse

end PyOak.Legacy
