/-
An INDEPENDENT specification of `ASTTransformVisitor.transform` on tree *values*: the pure bottom-up
rewrite `Rw`.

What it does NOT share with `Model/Visitor.lean` / `Spec/Visitor.lean` (`transform`, `T`):
no object counter, no "changed" flag, no `sameObj` test, no fuel, no dict / changed-set, no
`rebuilt` / `finishRewrite` / `setProp`, no dispatch (`Rw` is parametrised by the function
`act : Head → Act` that says what the method called for a node does; `Props/C09Dispatch.lean`
characterises `Visitor.action` separately).  Only the vocabulary is imported: the node universe, the
six `Act` shapes a `visit_*` method can have, and the error type.

`Rw act n`, by plain structural recursion:
* the method returns the node / another node / `None` / raises: that is the result (no descent);
* the method calls `generic_visit`: the children are rewritten bottom-up, field by field, left to
  right; results that are `None` are dropped (tuple field: the others keep their order; single
  field: `[x] ↦ []`, i.e. `None`), and the node is ALWAYS rebuilt from the rewritten fields
  (same head);
* `rewriteProp p`: the rebuilt node with property `p` set (`withProp`), a raise when the class has
  no such `init` field.

`Rw` keeps the identity (`uid`) of a rebuilt node in its head: identities are not part of what `Rw`
specifies; `strip` erases them and `Props/C09Rw.lean` proves
`strip (transform v n c) = strip (Rw v.action n)`.
-/
import PyOak.Model.Visitor
namespace PyOak

/-- some field of the class is called `name` and is an `init` field -/
def hasInitProp (name : Str) : List PropV → Bool
  | [] => false
  | q :: r => (q.name == name && q.init) || hasInitProp name r

/-- the property list with the value of `p.name` replaced (the dataclass flags belong to the field) -/
def putProp (p : PropV) : List PropV → List PropV
  | [] => []
  | q :: r => (if q.name == p.name then { p with compare := q.compare, init := q.init } else q) :: putProp p r

/-- `dataclasses.replace(node, <p.name>=<value>)` on the head of a node value; `none` = it raises -/
def withProp (h : Head) (p : PropV) : Option Head :=
  if hasInitProp p.name h.props then some { h with props := putProp p h.props } else none

mutual
/-- the pure bottom-up rewrite of one node: `.ok none` = dropped, `.error` = a method raised -/
def Rw (act : Head → Act) : Node → Except Err (Option Node)
  | .mk h ks =>
    match act h with
    | .keep => .ok (some (.mk h ks))
    | .replaceBy k => .ok (some k)
    | .remove => .ok none
    | .raise => .error .raised
    | .generic =>
      match RwKids act ks with
      | .error e => .error e
      | .ok ks' => .ok (some (.mk h ks'))
    | .rewriteProp p =>
      match RwKids act ks with
      | .error e => .error e
      | .ok ks' =>
        match withProp h p with
        | some h' => .ok (some (.mk h' ks'))
        | none => .error .raised
termination_by structural n => n
/-- every child field, in declaration order -/
def RwKids (act : Head → Act) : List Kid → Except Err (List Kid)
  | [] => .ok []
  | k :: r =>
    match RwKid act k with
    | .error e => .error e
    | .ok k' =>
      match RwKids act r with
      | .error e => .error e
      | .ok r' => .ok (k' :: r')
termination_by structural ks => ks
/-- one child field: the rewritten children that are not dropped, in order -/
def RwKid (act : Head → Act) : Kid → Except Err Kid
  | .mk name coll ns =>
    match RwNodes act ns with
    | .error e => .error e
    | .ok out => .ok (.mk name coll out)
termination_by structural k => k
def RwNodes (act : Head → Act) : List Node → Except Err (List Node)
  | [] => .ok []
  | x :: r =>
    match Rw act x with
    | .error e => .error e
    | .ok rx =>
      match RwNodes act r with
      | .error e => .error e
      | .ok out => .ok (rx.toList ++ out)
termination_by structural ns => ns
end

mutual
/-- erase all object identities of a tree value -/
def strip : Node → Node
  | .mk h ks => .mk { h with uid := 0 } (stripKids ks)
termination_by structural n => n
def stripKids : List Kid → List Kid
  | [] => []
  | k :: r => stripKid k :: stripKids r
termination_by structural ks => ks
def stripKid : Kid → Kid
  | .mk name coll ns => .mk name coll (stripNodes ns)
termination_by structural k => k
def stripNodes : List Node → List Node
  | [] => []
  | n :: r => strip n :: stripNodes r
termination_by structural ns => ns
end

end PyOak
