/-
Structural content of a node (C01): the class, the comparable properties as a name-sorted list
of (name, type text, value text), and the non-empty child fields, name-sorted, each with the
canonical content of its children in order.  Origins, uids, non-comparable properties, the
declaration order of fields and `truthy` do not occur in it.
(An absent optional child and an empty tuple contribute nothing, a present child contributes an
entry: "a missing optional child differs from every present child".)
-/
import PyOak.Model.Encode
namespace PyOak

inductive Canon where
  | mk (cls : Str) (props : List (Str × Str × Str)) (kids : List (Str × List Canon))

mutual
def canonN : Node → Canon
  | .mk h ks =>
    .mk h.cls ((comparableSorted h).map fun p => (p.name, p.ty, p.txt))
      ((sortByName (·.1) (canonKids ks)).filter (fun k => !k.2.isEmpty))
def canonKids : List Kid → List (Str × List Canon)
  | [] => []
  | k :: r => canonKid k :: canonKids r
def canonKid : Kid → Str × List Canon
  | .mk name _ ns => (name, canonNodes ns)
def canonNodes : List Node → List Canon
  | [] => []
  | n :: r => canonN n :: canonNodes r
end

/-- two nodes are content-equal -/
def ContentEq (a b : Node) : Prop := canonN a = canonN b

/-- well-formedness of names and texts that the framing relies on -/
def IdentLike (s : Str) : Prop := s ≠ [] ∧ ∀ c ∈ s, isNameChar c = true

mutual
def WFN : Node → Prop
  | .mk h ks =>
    IdentLike h.cls ∧ (∀ p ∈ h.props, IdentLike p.name ∧ ∀ c ∈ p.ty, c ≠ '(') ∧
    (h.props.map (·.name)).Nodup ∧ WFKids ks ∧ (kidNames ks).Nodup
def WFKids : List Kid → Prop
  | [] => True
  | k :: r => WFKid k ∧ WFKids r
def WFKid : Kid → Prop
  | .mk name coll ns => IdentLike name ∧ (coll = false → nodesLen ns ≤ 1) ∧ WFNodes ns
def WFNodes : List Node → Prop
  | [] => True
  | n :: r => WFN n ∧ WFNodes r
def kidNames : List Kid → List Str
  | [] => []
  | k :: r => kidName k :: kidNames r
def kidName : Kid → Str
  | .mk name _ _ => name
def nodesLen : List Node → Nat
  | [] => 0
  | _ :: r => nodesLen r + 1
end

end PyOak
