/-
Shared vocabulary for C06 / C07: all nodes of a tree, "no node object occurs twice", and
root-first chains (the downward structure the upward queries must agree with).
-/
import PyOak.Model.Tree
namespace PyOak

/-- the root and all its proper descendants, pre-order (with multiplicity if an object is shared) -/
def allNodes (root : Node) : List Node :=
  root :: (dfsImpl (fun _ => false) (fun _ => true) false root).map (·.node)

/-- Tree precondition: no node object occurs twice (object identity = `uid`) -/
def NoRepeat (root : Node) : Prop := ((allNodes root).map (·.uid)).Nodup

/-- a chain: `[(root, none), (n₁, some e₁), …, (n_k, some e_k)]` -/
abbrev Chain := List (Node × Option Edge)

/-- root-first chains of `root`: each member is stored in its predecessor under the given edge -/
inductive IsChain (root : Node) : Chain → Prop where
  | root : IsChain root [(root, none)]
  | snoc (c : Chain) (p : Node) (pe : Option Edge) (n : Node) (e : Edge) :
      IsChain root (c ++ [(p, pe)]) → (n, e) ∈ p.edges → IsChain root (c ++ [(p, pe)] ++ [(n, some e)])

/-- `get_xpath` must spell the chain: `/@root[0]Cls` then `/@field[index or 0]Cls` per member -/
def spellChain : Chain → Str
  | [] => []
  | (n, none) :: r => xpathStep ['r','o','o','t'] none n.cls ++ spellChain r
  | (n, some e) :: r => xpathStep e.field e.idx n.cls ++ spellChain r

end PyOak
