/-
Specification of the accessors (C12), as the property states it:

  "… return exactly the child fields' nodes, respectively the property fields' values, in
   declaration order or in name order when sort_keys is set, with absent optional children omitted
   and tuple elements indexed from 0.  Every combination of the skip flags is honoured (a user
   property is yielded unless it is non-comparable and skip_non_compare is set or non-init and
   skip_non_init is set; id, content_id and origin follow their own flags) …"

* declaration order of a hierarchy (`declOrder`): the names in order of *first* declaration along the
  chain, each with its *most derived* declaration (an override keeps the slot of the field it overrides);
* name order (`IsNameOrder`): a permutation that is non-decreasing by field name (Python `str` order);
  field names of a class are pairwise distinct, so this determines the list (`Props/C12.lean`).
-/
import PyOak.Model.Accessors
namespace PyOak
namespace Acc

/-- the last declaration of `n` in `ds` (later declarations are more derived) -/
def lastDecl (n : Str) : List FDecl → Option FDecl
  | [] => none
  | d :: r =>
    match lastDecl n r with
    | some x => some x
    | none => if d.name = n then some d else none

/-- the names of `ds` in order of first occurrence -/
def firstNames : List Str → List Str
  | [] => []
  | n :: r => n :: (firstNames r).filter (· ≠ n)

/-- declaration order of a hierarchy: all declarations, base-most class first -/
def declOrder (decls : List FDecl) : List FDecl :=
  (firstNames (decls.map FDecl.name)).filterMap fun n => lastDecl n decls

/-- all declarations of a class, `ASTNode`'s first -/
def ClassDecl.allDecls (c : ClassDecl) : List FDecl := (baseFields :: c.levels).flatten

/-- `a` is not after `b` in Python's string order -/
def nameLe (a b : FDecl) : Prop := strLt b.name a.name = false

/-- `out` is `ds` in name order -/
def IsNameOrder (out ds : List FDecl) : Prop := out.Perm ds ∧ out.Pairwise nameLe

/-- the fields in the order an accessor must use -/
def ordered (sortKeys : Bool) (ds : List FDecl) : List FDecl :=
  if sortKeys then sortByName FDecl.name ds else ds

def FDecl.isChild (d : FDecl) : Bool := d.kind ≠ .prop
def FDecl.isProp (d : FDecl) : Bool := d.kind = .prop

/-- the rule of the statement: is property field `d` yielded under the flags `fl`? -/
def keeps (fl : Flags) (d : FDecl) : Bool :=
  if d.name = nmId then !fl.skipId
  else if d.name = nmContentId then !fl.skipContentId
  else if d.name = nmOrigin then !fl.skipOrigin
  else !((!d.compare && fl.skipNonCompare) || (!d.init && fl.skipNonInit))

/-- tuple elements with their index, counted from `from` -/
def indexed : Nat → List Nd → List (Nd × Nat)
  | _, [] => []
  | k, n :: r => (n, k) :: indexed (k + 1) r

/-- the nodes stored in child field `d` of the instance, with field and index -/
def fieldNodes (i : Inst) (d : FDecl) : List (Nd × FDecl × Option Nat) :=
  match d.kind, i.get d.name with
  | .childOne, .node n => [(n, d, none)]              -- a present single child: index None
  | .childOne, _ => []                                -- an absent optional child is omitted
  | .childTuple, .tuple ns => (indexed 0 ns).map fun (n, k) => (n, d, some k)
  | _, _ => []

/-- a value of the shape the kind of the field calls for -/
def shapeOk : FKind → FVal → Bool
  | .prop, .prop _ => true
  | .childOne, .node _ => true
  | .childOne, .none => true
  | .childTuple, .tuple _ => true
  | _, _ => false

/-- the instance stores, in every field, a value of the field's shape -/
def Conforms (ds : List FDecl) (i : Inst) : Prop := ∀ d ∈ ds, shapeOk d.kind (i.get d.name) = true

instance (ds : List FDecl) (i : Inst) : Decidable (Conforms ds i) := by unfold Conforms; infer_instance

def specChildFields (c : ClassDecl) : List FDecl := c.fields.filter FDecl.isChild

def specChildNodesWithField (c : ClassDecl) (i : Inst) (sortKeys : Bool) : List (Nd × FDecl × Option Nat) :=
  (ordered sortKeys (specChildFields c)).flatMap (fieldNodes i)

def specChildNodes (c : ClassDecl) (i : Inst) (sortKeys : Bool) : List Nd :=
  (specChildNodesWithField c i sortKeys).map (·.1)

def specIterChildFields (c : ClassDecl) (i : Inst) (sortKeys : Bool) : List (FVal × FDecl) :=
  (ordered sortKeys (specChildFields c)).map fun d => (i.get d.name, d)

def specPropertyFields (c : ClassDecl) (fl : Flags) (sortKeys : Bool) : List FDecl :=
  (ordered sortKeys (c.fields.filter FDecl.isProp)).filter (keeps fl)

def specProperties (c : ClassDecl) (i : Inst) (fl : Flags) (sortKeys : Bool) : List (FVal × FDecl) :=
  (specPropertyFields c fl sortKeys).map fun d => (i.get d.name, d)

def specPropertiesDict (c : ClassDecl) (i : Inst) : List (Str × FVal) :=
  (specPropertyFields c Flags.default false).map fun d => (d.name, i.get d.name)

/-! the same instance with other truth values of the child nodes -/
def Nd.retruth (g : Nat → Bool) (n : Nd) : Nd := ⟨n.uid, g n.uid⟩
def FVal.retruth (g : Nat → Bool) : FVal → FVal
  | .node n => .node (n.retruth g)
  | .tuple ns => .tuple (ns.map (Nd.retruth g))
  | v => v
/-- the same instance with every child node's truth value replaced -/
def Inst.retruth (g : Nat → Bool) (i : Inst) : Inst := i.map fun p => (p.1, p.2.retruth g)


end Acc
end PyOak
