/-
Specification vocabulary for C05 that is independent of the traversal loops and of the
pre/post/level recursions of `Props/C05.lean`:

* `Stored p e c` — "field `e.field` of `p`, looked up BY NAME, holds `c`" (at index `i` of a tuple
  field, with index `None` for a single field);
* `IsTrail n t` — `t` is a downward sequence of storage positions starting at a child of `n`
  (a *path with its nodes*); `pathOf t` is its list of `(field, index)` edges;
* `ValidPath n p` — the list of edges `p` can be followed downward from `n`;
* `trails P n` — all non-empty trails below `n` none of whose PROPER prefixes ends in a pruned
  position, in lexicographic (declaration) order, prefix first; `Props/C05Trails.lean` proves that
  the ends of these trails are exactly the `dfs` stream (so `trails` is tied to the exercised
  `dfsImpl`);
* `PathLt n p q` — `p` comes before `q` in the pre-order of paths below `n`; `trailsPost`,
  `PathLtPost`: the same for post-order (`dfs(bottom_up=True)`); `levelTrails`, `bfsTrails`,
  `ShortLex`: the same for level order (`bfs`);
* `ClassOK` — the class test of `gather`.
-/
import PyOak.Model.Traverse
namespace PyOak
namespace Trav

/-- the child field of `p` named `f`, looked up by name (`getattr(p, f)` for a child field) -/
def childField? (p : Node) (f : Str) : Option Kid := p.kids.find? (fun k => k.name == f)

/-- `p.<e.field>` (at `e.idx` for a tuple field; `e.idx = None` for a single field) is `c` -/
def Stored (p : Node) (e : Edge) (c : Node) : Prop :=
  ∃ k, childField? p e.field = some k ∧
    (k.coll = true → ∃ i, e.idx = some i ∧ k.nodes[i]? = some c) ∧
    (k.coll = false → e.idx = none ∧ k.nodes = [c])

/-- a downward trail of storage positions below `n`: the first is a child position of `n`, each
further one is a child position of the node of its predecessor -/
def IsTrail : Node → List Item → Prop
  | _, [] => True
  | n, it :: r => it ∈ n.items ∧ IsTrail it.node r

/-- the node a trail below `n` ends in (`n` for the empty trail) -/
def endNode : Node → List Item → Node
  | n, [] => n
  | _, it :: r => endNode it.node r

/-- the `(field, index)` edges of a trail -/
def pathOf (t : List Item) : List Edge := t.map (·.edge)

/-- the position a non-empty trail ends in -/
def trailEnd (t : List Item) : Item := t.getLastD default

/-- the list of edges `p` can be followed downward from `n` -/
def ValidPath : Node → List Edge → Prop
  | _, [] => True
  | n, e :: r => ∃ c, (c, e) ∈ n.edges ∧ ValidPath c r

/-- all non-empty trails below the positions `its` that never continue THROUGH a pruned position
(fuel = a bound on the size of the nodes of `its`) -/
def trailsF (P : Item → Bool) : Nat → List Item → List (List Item)
  | 0, _ => []
  | f + 1, its => its.flatMap fun it =>
      [it] :: (if P it then [] else (trailsF P f it.node.items).map (it :: ·))

/-- all non-empty trails below `n` no proper prefix of which ends in a pruned position -/
def trails (P : Item → Bool) (n : Node) : List (List Item) := trailsF P n.size n.items

/-- no proper prefix of the trail ends in a pruned position -/
def unpruned (P : Item → Bool) (t : List Item) : Bool := t.dropLast.all (fun y => !P y)

/-- pre-order of paths below `n`: a proper prefix comes first; otherwise the paths are compared at
the first edge where they differ, by the position of that edge in the parent's enumeration
(child fields in declaration order, tuple elements left to right) -/
inductive PathLt : Node → List Edge → List Edge → Prop where
  | pre (n : Node) (e : Edge) (p : List Edge) : PathLt n [] (e :: p)
  | fork (n : Node) (e1 e2 : Edge) (p q : List Edge) :
      [e1, e2].Sublist (n.edges.map (·.2)) → PathLt n (e1 :: p) (e2 :: q)
  | down (n c : Node) (e : Edge) (p q : List Edge) :
      (c, e) ∈ n.edges → PathLt c p q → PathLt n (e :: p) (e :: q)

/-- the same trails in POST-order: the trails through a position before the trail ending there -/
def trailsPostF (P : Item → Bool) : Nat → List Item → List (List Item)
  | 0, _ => []
  | f + 1, its => its.flatMap fun it =>
      (if P it then [] else (trailsPostF P f it.node.items).map (it :: ·)) ++ [[it]]

def trailsPost (P : Item → Bool) (n : Node) : List (List Item) := trailsPostF P n.size n.items

/-- post-order of paths below `n`: a proper extension comes first; otherwise as `PathLt` -/
inductive PathLtPost : Node → List Edge → List Edge → Prop where
  | ext (n : Node) (e : Edge) (p : List Edge) : PathLtPost n (e :: p) []
  | fork (n : Node) (e1 e2 : Edge) (p q : List Edge) :
      [e1, e2].Sublist (n.edges.map (·.2)) → PathLtPost n (e1 :: p) (e2 :: q)
  | down (n c : Node) (e : Edge) (p q : List Edge) :
      (c, e) ∈ n.edges → PathLtPost c p q → PathLtPost n (e :: p) (e :: q)

/-- the trails of `k + 1` positions, built level by level: each trail of the previous level whose
end is not pruned is extended by the child positions of its end, in declaration order -/
def levelTrails (P : Item → Bool) (n : Node) : Nat → List (List Item)
  | 0 => n.items.map fun it => [it]
  | k + 1 => ((levelTrails P n k).filter fun t => !P (trailEnd t)).flatMap fun t =>
      (trailEnd t).node.items.map fun c => t ++ [c]

/-- all trails, shortest first -/
def bfsTrails (P : Item → Bool) (n : Node) : List (List Item) :=
  (List.range n.size).flatMap (levelTrails P n)

/-- level order of paths: shorter paths first, paths of equal length in the pre-order `PathLt` -/
def ShortLex (n : Node) (p q : List Edge) : Prop :=
  p.length < q.length ∨ (p.length = q.length ∧ PathLt n p q)

/-- the class test of `gather`: exact type (class identity) or `isinstance` (the class occurs in the
MRO of the node's class) for one of the requested classes -/
def ClassOK (classes : List Str) (exact : Bool) (m : Node) : Prop :=
  if exact then m.cls ∈ classes else ∃ c ∈ classes, c ∈ m.hd.mro

instance (classes : List Str) (exact : Bool) (m : Node) : Decidable (ClassOK classes exact m) := by
  unfold ClassOK; exact inferInstance

end Trav
end PyOak
