/-
Specification vocabulary of property C15 for the multi-origin part (the interval laws are stated
directly on indices in Props/C15.lean).
-/
import PyOak.Model.Origin
namespace PyOak.OriginAlg
open PyOak.Gen

/-- the non-empty single origins an origin stands for, in order -/
def leaves : Origin → List Origin
  | .none => []
  | .multi _ _ os => os
  | o => [o]

/-- *flat*: a multi-origin lists only single, non-empty origins (never a MultiOrigin, never NoOrigin) and its
source / position are the ones its constructor computes (in particular it has at least two members). Every
origin the API produces from flat operands is flat (`merge_flat`, `add_flat`, `concat_flat`). -/
def Flat : Origin → Prop
  | .multi s p os => (∀ o ∈ os, o.isLeaf = true) ∧ mkMulti os = .ok (.multi s p os)
  | _ => True

/-- the one case in which `+` does not list its operands: two code origins (generated ones included) of the
same source whose ranges overlap or touch -/
def mergeable : Origin → Origin → Bool
  | .code _ sa ra, .code _ sb rb => (sa == sb) && ra.overlaps rb
  | _, _ => false

/-- what one `+` of `concat_origins` does to the list of single origins accumulated so far -/
def specStep (acc : List Origin) (b : Origin) : List Origin :=
  match acc, b with
  | [.code ga sa ra], .code gb sb rb =>
    if mergeable (.code ga sa ra) (.code gb sb rb) then [.code false sa (ra.add rb)] else acc ++ [b]
  | acc, b => acc ++ leaves b

end PyOak.OriginAlg
