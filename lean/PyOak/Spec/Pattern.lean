/-
Documented meaning of a pattern (README "Pattern matching", docstrings of match/pattern.py and the
statement of property C08), as structural recursion over the pattern *text's* syntax tree — no
matcher objects, no accumulators:

  `(C1|C2 @f1… )` matches a value iff it is a node, an instance of one of the listed classes (any
      node for `*`), and every listed field exists and its value satisfies the field's spec,
      left to right, each spec seeing the captures made before it;
  `@f`            any value;
  `@f="re"`       the regex matches at the start of `str(value)`;
  `@f=None`       the value is None;
  `@f=(…)`        the nested pattern matches the value;
  `@f=$x`         the value equals the value captured as `x` (content equality if that is a node,
                  `==` otherwise); using a name nothing has captured is a definition error;
  `@f=[v1 … vk]`  the value is a tuple of exactly k elements, element i satisfying `vi`;
  `@f=[v1 … vk *]` the value is a tuple of at least k elements, the first k satisfying `v1 … vk`;
  `… -> name`     binds `name` to the very value matched (a field's value, a sequence element, or —
                  after `*` — the tuple of the remaining elements).

Result: `ok (some captures)` on a match, `ok none` on a mismatch, `error` for the definition error.
-/
import PyOak.Model.Pattern
namespace PyOak
namespace PM

abbrev SRes := Except Unit (Option Ctx)

/-- "instance of one of the listed classes (any node for `*`)" -/
def classOk : ClassSpec → Node → Bool
  | .any, _ => true
  | .names f r, n => (f :: r).any (instOf n)

/-- `… -> name`: the captures made inside the value, plus the value itself under `name` -/
def bindCap (cap : Option Str) (v : MVal) (inner : Ctx) : Ctx :=
  match cap with
  | none => inner
  | some c => Ctx.update [(c, v)] inner

mutual
def specPat (S : Sem) : Pat → MVal → Ctx → SRes
  | .mk cls fields, v, ctx =>
    match v with
    | .node n => if classOk cls n then specFields S fields n ctx else .ok none
    | _ => .ok none
def specFields (S : Sem) : Fields → Node → Ctx → SRes
  | .nil, _, _ => .ok (some [])
  | .cons f spec cap rest, n, ctx =>
    match getField n f with
    | none => .ok none                           -- the field does not exist
    | some fv =>
      match specFSpec S spec fv ctx with
      | .error e => .error e
      | .ok none => .ok none
      | .ok (some c0) =>
        match specFields S rest n (Ctx.update ctx (bindCap cap fv c0)) with
        | .error e => .error e
        | .ok none => .ok none
        | .ok (some c2) => .ok (some (Ctx.update (bindCap cap fv c0) c2))
def specFSpec (S : Sem) : FSpec → MVal → Ctx → SRes
  | .any, _, _ => .ok (some [])
  | .val pv, v, ctx => specVal S pv v ctx
  | .seq items tail, v, ctx =>
    match v with
    | .tup xs =>
      match tail with
      | none => if xs.length = items.length then specItems S items xs ctx else .ok none
      | some tcap =>
        if items.length ≤ xs.length then
          match specItems S items xs ctx with
          | .error e => .error e
          | .ok none => .ok none
          | .ok (some c) => .ok (some (Ctx.update c (tailVars tcap (xs.drop items.length))))
        else .ok none
    | _ => .ok none
/-- the listed elements against the first elements of the tuple -/
def specItems (S : Sem) : Items → List MVal → Ctx → SRes
  | .nil, _, _ => .ok (some [])
  | .cons _ _ _, [], _ => .ok none
  | .cons pv cap rest, x :: xs, ctx =>
    match specVal S pv x ctx with
    | .error e => .error e
    | .ok none => .ok none
    | .ok (some c0) =>
      match specItems S rest xs (Ctx.update ctx (bindCap cap x c0)) with
      | .error e => .error e
      | .ok none => .ok none
      | .ok (some c2) => .ok (some (Ctx.update (bindCap cap x c0) c2))
def specVal (S : Sem) : PVal → MVal → Ctx → SRes
  | .tree p, v, ctx => specPat S p v ctx
  | .var x, v, ctx =>
    match ctx.lookup x with
    | none => .error ()
    | some c => .ok (if varEq S c v then some [] else none)
  | .none, v, _ => .ok (if v.isNone then some [] else none)
  | .re s, v, _ => .ok (if S.rx s v.strText then some [] else none)
end

/-- what `match` returns for a specification result: `(True, captures)` / `(False, {})` -/
def specRes : Option Ctx → Bool × Ctx
  | some c => (true, c)
  | none => (false, [])

/-- `NodeMatcher.from_pattern(text)[0].match(node)` must be -/
def specMatch (S : Sem) (p : Pat) (n : Node) : SRes := specPat S p (.node n) []

/-- `MultiPatternMatcher(defs).match(node, rules)` must be: the first rule, in the given order,
whose pattern matches, with that pattern's captures -/
def specMulti (S : Sem) (defs : List (Str × Pat)) : List Str → Node → Except MultiErr (Option (Str × Ctx))
  | [], _ => .ok none
  | r :: rest, n =>
    match defs.lookup r with
    | none => .error .keyError
    | some p =>
      match specMatch S p n with
      | .error _ => .error .defError
      | .ok (some caps) => .ok (some (r, caps))
      | .ok none => specMulti S defs rest n

/-- the capture names of a pattern, in text order (the order `PatternDefInterpreter` meets them) -/
def capOpt : Option Str → List Str
  | none => []
  | some c => [c]

mutual
def Pat.caps : Pat → List Str
  | .mk _ fields => fields.caps
def Fields.caps : Fields → List Str
  | .nil => []
  | .cons _ spec cap rest => spec.caps ++ capOpt cap ++ rest.caps
def FSpec.caps : FSpec → List Str
  | .any => []
  | .val v => v.caps
  | .seq items tail => items.caps ++ (match tail with | some t => capOpt t | none => [])
def Items.caps : Items → List Str
  | .nil => []
  | .cons v cap rest => v.caps ++ capOpt cap ++ rest.caps
def PVal.caps : PVal → List Str
  | .tree p => p.caps
  | _ => []
end

end PM
end PyOak
