/-
The documented meaning of a pattern as an INDUCTIVE RELATION, one rule per clause of the statement
of property C08 (DESIGN §5 promised `Matches`; Spec/Pattern.lean is a functional interpreter).

`Matches S p v ctx caps` : pattern `p` matches value `v`, the names in `ctx` being bound before `p`
(text order), and binds `caps`.  Sibling relations for field lists, field specs, sequence items and
values.  There is no rule for failure and no rule for the definition error: a pattern does not match
exactly when no derivation exists (`C08.matches_iff`, `C08.no_match_iff`).

Reading of the rules (statement of C08):
  tree    — the value is a node, "an instance of one of the listed classes (any node for '*')", and
            "every listed field exists and satisfies its spec", left to right, later fields seeing
            the captures of the earlier ones;
  any     — `@f` alone: any value;
  re      — "a quoted regex matches at the start of str(value)" (`S.rx`, the `re.match` parameter);
  none    — "None matches only None";
  seqExact— "a bracketed sequence matches element-wise with equal length" (so `[]` only the empty tuple);
  seqTail — "unless it ends in '*' (then at least as many elements as listed)"; a capture after `*`
            binds "the tuple of remaining elements";
  tree (value) — "a nested pattern matches recursively";
  var     — "$name equals the value captured earlier (content equality for nodes, == otherwise)" (`varEq`);
  `-> c`  — binds `c` to "the very object matched (field value, sequence element)" (`bindCap`).
-/
import PyOak.Spec.Pattern
namespace PyOak
namespace PM

mutual
inductive Matches (S : Sem) : Pat → MVal → Ctx → Ctx → Prop
  | tree {cls : ClassSpec} {fields : Fields} {n : Node} {ctx caps : Ctx} :
      classOk cls n = true → MatchesFields S fields n ctx caps →
      Matches S (.mk cls fields) (.node n) ctx caps
inductive MatchesFields (S : Sem) : Fields → Node → Ctx → Ctx → Prop
  | nil {n : Node} {ctx : Ctx} : MatchesFields S .nil n ctx []
  | cons {f : Str} {spec : FSpec} {cap : Option Str} {rest : Fields} {n : Node} {fv : MVal} {ctx c0 c2 : Ctx} :
      getField n f = some fv →                                         -- the field exists
      MatchesFSpec S spec fv ctx c0 →                                  -- its value satisfies the spec
      MatchesFields S rest n (Ctx.update ctx (bindCap cap fv c0)) c2 → -- the later fields see these captures
      MatchesFields S (.cons f spec cap rest) n ctx (Ctx.update (bindCap cap fv c0) c2)
inductive MatchesFSpec (S : Sem) : FSpec → MVal → Ctx → Ctx → Prop
  | any {v : MVal} {ctx : Ctx} : MatchesFSpec S .any v ctx []
  | val {pv : PVal} {v : MVal} {ctx c : Ctx} : MatchesVal S pv v ctx c → MatchesFSpec S (.val pv) v ctx c
  | seqExact {items : Items} {xs : List MVal} {ctx c : Ctx} :
      xs.length = items.length → MatchesItems S items xs ctx c →
      MatchesFSpec S (.seq items none) (.tup xs) ctx c
  | seqTail {items : Items} {tcap : Option Str} {xs : List MVal} {ctx c : Ctx} :
      items.length ≤ xs.length → MatchesItems S items xs ctx c →
      MatchesFSpec S (.seq items (some tcap)) (.tup xs) ctx (Ctx.update c (tailVars tcap (xs.drop items.length)))
inductive MatchesItems (S : Sem) : Items → List MVal → Ctx → Ctx → Prop
  | nil {xs : List MVal} {ctx : Ctx} : MatchesItems S .nil xs ctx []
  | cons {pv : PVal} {cap : Option Str} {rest : Items} {x : MVal} {xs : List MVal} {ctx c0 c2 : Ctx} :
      MatchesVal S pv x ctx c0 →
      MatchesItems S rest xs (Ctx.update ctx (bindCap cap x c0)) c2 →
      MatchesItems S (.cons pv cap rest) (x :: xs) ctx (Ctx.update (bindCap cap x c0) c2)
inductive MatchesVal (S : Sem) : PVal → MVal → Ctx → Ctx → Prop
  | tree {p : Pat} {v : MVal} {ctx c : Ctx} : Matches S p v ctx c → MatchesVal S (.tree p) v ctx c
  | var {x : Str} {v cv : MVal} {ctx : Ctx} :
      ctx.lookup x = some cv → varEq S cv v = true → MatchesVal S (.var x) v ctx []
  | none {v : MVal} {ctx : Ctx} : v.isNone = true → MatchesVal S .none v ctx []
  | re {s : Str} {v : MVal} {ctx : Ctx} : S.rx s v.strText = true → MatchesVal S (.re s) v ctx []
end

end PM
end PyOak
