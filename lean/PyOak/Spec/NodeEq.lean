/-
Specification of `a == b` (C02): content equality plus origin equality at every position.

`originsAgree a b` walks the two trees simultaneously in *declaration order*: the root origins
are `==` (equal `Org.key`), the two nodes have the same number of child fields, corresponding
fields hold the same number of children, and corresponding children agree recursively.
`Conforms sig n` is the class-table consistency of a tree: every node of class `C` declares
exactly the child fields `sig C` (name, is_collection), in that order — in Python the fields
are a property of the class, not of the instance.
-/
import PyOak.Spec.Content
namespace PyOak

mutual
def originsAgree (a b : Node) : Bool :=
  match a, b with
  | .mk h ks, .mk h' ks' => h.org.key == h'.org.key && agreeKs ks ks'
termination_by structural a
def agreeKs (ks ks' : List Kid) : Bool :=
  match ks, ks' with
  | [], [] => true
  | k :: r, k' :: r' => agreeK k k' && agreeKs r r'
  | [], _ :: _ => false
  | _ :: _, [] => false
termination_by structural ks
def agreeK (k k' : Kid) : Bool :=
  match k, k' with
  | .mk _ _ ns, .mk _ _ ns' => agreeNs ns ns'
termination_by structural k
def agreeNs (ns ns' : List Node) : Bool :=
  match ns, ns' with
  | [], [] => true
  | n :: r, n' :: r' => originsAgree n n' && agreeNs r r'
  | [], _ :: _ => false
  | _ :: _, [] => false
termination_by structural ns
end

/-- `a == b` must mean: same structural content and `==` origins at every position -/
def NodeEq (a b : Node) : Prop := ContentEq a b ∧ originsAgree a b = true

mutual
def Conforms (sig : Str → List (Str × Bool)) : Node → Prop
  | .mk h ks => ks.map (fun k => (k.name, k.coll)) = sig h.cls ∧ ConformsKs sig ks
def ConformsKs (sig : Str → List (Str × Bool)) : List Kid → Prop
  | [] => True
  | k :: r => ConformsK sig k ∧ ConformsKs sig r
def ConformsK (sig : Str → List (Str × Bool)) : Kid → Prop
  | .mk _ _ ns => ConformsNs sig ns
def ConformsNs (sig : Str → List (Str × Bool)) : List Node → Prop
  | [] => True
  | n :: r => Conforms sig n ∧ ConformsNs sig r
end

end PyOak
