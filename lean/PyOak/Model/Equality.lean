/-
Model of `_eq_fn` / `_hash_fn` (src/pyoak/node.py): `a == b`, `a != b`, `hash(a)`.
-/
import PyOak.Model.Encode
namespace PyOak

/-- `for si, oi in zip(self.dfs(), other.dfs(), strict=True): if si.node.origin != oi.node.origin: return False`
`error` = the ValueError of `zip(strict=True)` on streams of different length -/
def zipOrigins : List Item → List Item → Except Unit Bool
  | [], [] => .ok true
  | x :: xs, y :: ys => if x.node.org.key != y.node.org.key then .ok false else zipOrigins xs ys
  | _, _ => .error ()

/-- `_eq_fn` with the outcome of the content_id comparison supplied -/
def eqCore (cidEq : Bool) (a b : Node) : Except Unit Bool :=
  if a.cls == b.cls then
    if cidEq && a.org.key == b.org.key then
      zipOrigins (dfsImpl (fun _ => false) (fun _ => true) false a)
                 (dfsImpl (fun _ => false) (fun _ => true) false b)
    else .ok false
  else .ok false

/-- `a == b` -/
def eqImpl (H : Str → Str) (a b : Node) : Except Unit Bool := eqCore (cid H a == cid H b) a b

/-- `a != b` (Python derives `__ne__` from `__eq__`) -/
def neImpl (H : Str → Str) (a b : Node) : Except Unit Bool := (eqImpl H a b).map (!·)

end PyOak
