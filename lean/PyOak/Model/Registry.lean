/-
The registry state machine (src/pyoak/node.py): `NODE_REGISTRY` (a WeakValueDictionary),
`__post_init__` id assignment with `_get_next_unique_id`, `detach`, `detach_self`, `replace`,
`duplicate`, `dataclasses.replace`, `_deserialize` (re-use by id / re-create / force id), and
garbage collection of unreferenced nodes.  Used by C03, C14, C10 and the registry part of C04.

The digest of a node's id pre-image is an *input* of every construction (`base`): the machine
is therefore correct for an arbitrary digest function, collisions included (ID_DIGEST_SIZE=1).
Strong references are the harness variables (`roots`) and child links; an object is alive iff
reachable from a root.  `gc` (run after every public operation) removes the registry entries
of dead objects — the weak-value semantics at quiescent points.
-/
import PyOak.Model.Core
namespace PyOak

structure RObj where
  uid : Nat
  cls : Str
  mro : List Str
  base : Str          -- blake2b(id pre-image) at construction
  id : Str            -- the id the node carries
  kids : List Nat     -- direct children (uids), declaration order, tuple elements in order
  deriving Inhabited, Repr

structure RState where
  heap : List RObj := []               -- every object ever created (append-only but for forced ids)
  reg : List (Str × Nat) := []         -- NODE_REGISTRY : id ↦ object
  roots : List (Nat × Nat) := []       -- harness variable ↦ object
  detached : List Nat := []            -- ghost: objects that were detached / replaced away
  deriving Inhabited, Repr

namespace RState

def obj? (s : RState) (u : Nat) : Option RObj := s.heap.find? (·.uid == u)
def idOf (s : RState) (u : Nat) : Str := ((s.obj? u).map (·.id)).getD []
def kidsOf (s : RState) (u : Nat) : List Nat := ((s.obj? u).map (·.kids)).getD []

def regGet (s : RState) (k : Str) : Option Nat := (s.reg.find? (·.1 == k)).map (·.2)
def regDel (reg : List (Str × Nat)) (k : Str) : List (Str × Nat) := reg.filter (·.1 != k)
/-- `NODE_REGISTRY[k] = u` -/
def regSet (reg : List (Str × Nat)) (k : Str) (u : Nat) : List (Str × Nat) := regDel reg k ++ [(k, u)]

/-- `f"{original_id}_{i}"` -/
def suffixed (base : Str) (i : Nat) : Str := base ++ '_' :: natStr i

/-- `_get_next_unique_id`: first `i ≥ 1` with `f"{id}_{i}"` free.  `fuel` bounds the search;
`reg.length + 1` candidates always contain a free one. -/
def nextUniqueFrom (s : RState) (base : Str) : Nat → Nat → Str
  | 0, i => suffixed base i
  | fuel + 1, i => if (s.regGet (suffixed base i)).isSome then nextUniqueFrom s base fuel (i + 1)
                   else suffixed base i

/-- the id a new node with digest `base` gets -/
def freshId (s : RState) (base : Str) : Str :=
  if (s.regGet base).isSome then nextUniqueFrom s base (s.reg.length + 1) 1 else base

/-- `ASTNode.__post_init__` (id assignment + registration) -/
def pNew (s : RState) (u : Nat) (cls : Str) (mro : List Str) (base : Str) (kids : List Nat) : RState :=
  let id := s.freshId base
  { s with heap := s.heap ++ [{ uid := u, cls := cls, mro := mro, base := base, id := id, kids := kids }],
           reg := regSet s.reg id u }

/-- `detach_self()`: only the node itself is ever removed -/
def pDetachSelf (s : RState) (u : Nat) : RState × Bool :=
  if s.regGet (s.idOf u) == some u then
    ({ s with reg := regDel s.reg (s.idOf u), detached := u :: s.detached }, true)
  else (s, false)

/-- `NODE_REGISTRY[ori_n.id] = ori_n` (roll-back in `replace`) -/
def pRestore (s : RState) (u : Nat) : RState :=
  { s with reg := regSet s.reg (s.idOf u) u, detached := s.detached.filter (· != u) }

/-- the tail of `_deserialize`: pop the fresh id, force the serialized one, re-register -/
def pForceId (s : RState) (u : Nat) (sid : Str) : RState :=
  { s with heap := s.heap.map (fun o => if o.uid == u then { o with id := sid } else o),
           reg := regSet (regDel s.reg (s.idOf u)) sid u }

/-- objects reachable from `frontier` through child links -/
def reach (s : RState) : Nat → List Nat → List Nat → List Nat
  | 0, _, seen => seen
  | _, [], seen => seen
  | fuel + 1, u :: rest, seen =>
    if seen.contains u then reach s fuel rest seen
    else reach s fuel (s.kidsOf u ++ rest) (u :: seen)

/-- the set of live objects -/
def live (s : RState) : List Nat :=
  s.reach ((s.heap.map (·.kids.length)).sum + s.roots.length + 1) (s.roots.map (·.2)) []

def isLive (s : RState) (u : Nat) : Bool := s.live.contains u

/-- weak values: entries of dead objects vanish -/
def gc (s : RState) : RState :=
  let l := s.live
  { s with reg := s.reg.filter (fun e => l.contains e.2) }

def bind (s : RState) (v u : Nat) : RState :=
  { s with roots := s.roots.filter (·.1 != v) ++ [(v, u)] }
def unbind (s : RState) (v : Nat) : RState := { s with roots := s.roots.filter (·.1 != v) }

/-- all descendants of `u` (with multiplicity), pre-order: `self.dfs()` -/
def descendants (s : RState) : Nat → Nat → List Nat
  | 0, _ => []
  | fuel + 1, u => (s.kidsOf u).flatMap fun c => c :: descendants s fuel c

end RState

/-- a serialized tree: what `as_dict` recorded (id, class) per node -/
inductive SerTree where
  | mk (sid : Str) (cls : Str) (mro : List Str) (kids : List SerTree)
  deriving Inhabited

/-- what an operation hands back -/
inductive ROut where
  | ok (result : Option Nat) (flag : Option Bool)
  | raised
  | desync            -- the model needed more / fewer fresh objects than the harness observed
  | badOp             -- inadmissible request (argument not alive, unknown variable …)
  deriving DecidableEq, Inhabited, Repr

/-- (token, base digest) of the objects the real operation created, in creation order -/
abbrev Fresh := List (Nat × Str)

namespace RState

/-- `x.duplicate()`: children first (declaration order), then `dataclasses.replace(self, **changes)` -/
def dupAux (s : RState) : Nat → Nat → Fresh → Option (RState × Nat × Fresh)
  | 0, _, _ => none
  | fuel + 1, u, fresh =>
    match s.obj? u with
    | none => none
    | some o =>
      let r := o.kids.foldl (fun acc c =>
        match acc with
        | none => none
        | some (s', ks, fr) =>
          match dupAux s' fuel c fr with
          | none => none
          | some (s'', c', fr') => some (s'', ks ++ [c'], fr')) (some (s, [], fresh))
      match r with
      | none => none
      | some (s', ks, fr) =>
        match fr with
        | [] => none
        | (tok, base) :: fr' => some (s'.pNew tok o.cls o.mro base ks, tok, fr')

mutual
/-- `Cls._deserialize(value)` -/
def deserAux (s : RState) : SerTree → Fresh → Option (RState × Nat × Fresh)
  | .mk sid cls mro kids, fresh =>
    match s.regGet sid with
    | some u => some (s, u, fresh)                         -- re-use the registered object
    | none =>
      match deserKids s kids fresh with
      | none => none
      | some (s', ks, fr) =>
        match fr with
        | [] => none
        | (tok, base) :: fr' =>
          let s'' := s'.pNew tok cls mro base ks
          let s''' := if s''.idOf tok == sid then s'' else s''.pForceId tok sid
          some (s''', tok, fr')
def deserKids (s : RState) : List SerTree → Fresh → Option (RState × List Nat × Fresh)
  | [], fresh => some (s, [], fresh)
  | t :: r, fresh =>
    match deserAux s t fresh with
    | none => none
    | some (s', u, fr) =>
      match deserKids s' r fr with
      | none => none
      | some (s'', us, fr') => some (s'', u :: us, fr')
end

end RState

inductive ROp where
  /-- `v = Cls(*kids, …)` over existing objects -/
  | construct (v : Nat) (cls : Str) (mro : List Str) (kids : List Nat) (fresh : Fresh)
  /-- `v = x.duplicate()` -/
  | duplicate (v x : Nat) (fresh : Fresh)
  /-- `v = dataclasses.replace(x, **changes)`; `kids` are the children of the new node -/
  | dcReplace (v x : Nat) (kids : List Nat) (fresh : Fresh)
  /-- `v = x.replace(**changes)`; `fails`: `dataclasses.replace` raises -/
  | replace (v x : Nat) (kids : List Nat) (fails : Bool) (fresh : Fresh)
  | detach (x : Nat)
  | detachSelf (x : Nat)
  /-- `v = Cls.as_obj(d)` for a dict `d` taken earlier -/
  | asObj (v : Nat) (t : SerTree) (fresh : Fresh)
  /-- `v = w` (another reference to a live object, e.g. a child) -/
  | alias (v u : Nat)
  /-- `del v` -/
  | drop (v : Nat)
  deriving Inhabited

namespace RState

def finish (s : RState) (v : Nat) (u : Nat) (fr : Fresh) (flag : Option Bool := none) : RState × ROut :=
  match fr with
  | [] => ((s.bind v u).gc, .ok (some u) flag)
  | _ :: _ => (s.gc, .desync)

/-- one public operation followed by garbage collection -/
def step (s : RState) (op : ROp) : RState × ROut :=
  match op with
  | .construct v cls mro kids fresh =>
    if !(kids.all s.isLive) then (s, .badOp) else
    match fresh with
    | [(tok, base)] => (((s.pNew tok cls mro base kids).bind v tok).gc, .ok (some tok) none)
    | _ => (s, .desync)
  | .duplicate v x fresh =>
    if !s.isLive x then (s, .badOp) else
    match s.dupAux (s.heap.length + 1) x fresh with
    | none => (s, .desync)
    | some (s', u, fr) => s'.finish v u fr
  | .dcReplace v x kids fresh =>
    if !(s.isLive x && kids.all s.isLive) then (s, .badOp) else
    match s.obj? x, fresh with
    | some o, [(tok, base)] => (((s.pNew tok o.cls o.mro base kids).bind v tok).gc, .ok (some tok) none)
    | _, _ => (s, .desync)
  | .replace v x kids fails fresh =>
    if !(s.isLive x && kids.all s.isLive) then (s, .badOp) else
    let (s1, was) := s.pDetachSelf x
    if fails then
      match fresh with
      | [] => ((if was then s1.pRestore x else s1).gc, .raised)
      | _ => (s, .desync)
    else
      match s.obj? x, fresh with
      | some o, [(tok, base)] => (((s1.pNew tok o.cls o.mro base kids).bind v tok).gc, .ok (some tok) none)
      | _, _ => (s, .desync)
  | .detach x =>
    if !s.isLive x then (s, .badOp) else
    let s1 := (s.pDetachSelf x).1
    let s2 := (s.descendants (s.heap.length + 1) x).foldl (fun st c => (st.pDetachSelf c).1) s1
    (s2.gc, .ok none none)
  | .detachSelf x =>
    if !s.isLive x then (s, .badOp) else
    let (s1, was) := s.pDetachSelf x
    (s1.gc, .ok none (some was))
  | .asObj v t fresh =>
    match s.deserAux t fresh with
    | none => (s, .desync)
    | some (s', u, fr) => s'.finish v u fr
  | .alias v u => if s.isLive u then ((s.bind v u).gc, .ok (some u) none) else (s, .badOp)
  | .drop v => ((s.unbind v).gc, .ok none none)

/-- `ASTNode.get_any(id)` -/
def getAny (s : RState) (k : Str) : Option Nat := s.regGet k

/-- `Cls.get(id, strict=)` -/
def get (s : RState) (cls : Str) (k : Str) (strict : Bool) : Option Nat :=
  match s.regGet k with
  | none => none
  | some u =>
    match s.obj? u with
    | none => none
    | some o => if strict then (if o.cls == cls then some u else none)
                else (if o.mro.contains cls then some u else none)

end RState
end PyOak
