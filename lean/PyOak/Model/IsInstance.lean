/-
Model of the runtime type checker: `pyoak.typing.is_instance`, `pyoak.node._check_runtime_types`
and the `config.RUNTIME_TYPE_CHECK` gate at the top of `ASTNode.__post_init__`
(src/pyoak/typing.py, src/pyoak/node.py), written in the *order of checks of the code*.

Annotations (`Ty`) are the type grammar that the annotation classifier (C11) accepts; values
(`PyVal`) are the Python objects that can be handed to a constructor.  What CPython's
`isinstance` answers for each (value kind, plain class) pair, the iteration of `str`/`bytes`,
and `==` between numbers are *modelled* (trusted base, exercised by the correspondence).

The model mirrors the code *with the four repairs* of this property applied (patches F13, F18, F14, F21):
  F13  `type_ is int and (value is True or value is False)` — was missing the parentheses, so `False`
       conformed to nothing, not even `bool` / `Any`;
  F18  the union case is decided member by member *before* the `isinstance(value, type_)` test — the early
       `isinstance(True, int | str)` accepted a bool that `int` alone rejects;
  F14  `Mapping[K, V]` checks keys and values — it raised `RuntimeError` for every mapping value;
  F21  a `NewType` is checked as its supertype at any depth — only the top level of a field type was
       unwrapped, so `tuple[NT, ...]` / `NT | None` fields rejected every value.
On the unrepaired tree the correspondence reports each of them as a VIOLATION.
-/
import PyOak.Model.Core
namespace PyOak
namespace RT

/-- members of a `Literal[...]` -/
inductive Lit where
  | int (i : Int)
  | bool (b : Bool)
  | str (s : Str)
  | none
  | enum (cls member : Str)
  deriving DecidableEq, Repr, Inhabited

/-- Python values.  A float is an opaque token together with the integer it is `==` to (if any);
`obj` is an instance of a user class (a node, an origin, …): object identity and the names of the
classes in its MRO; `str`/`bytes` are kept as their elements because `Sequence[...]` iterates them. -/
inductive PyVal where
  | bool (b : Bool)
  | int (i : Int)
  | float (tok : Str) (asInt : Option Int)
  | str (s : Str)
  | bytes (bs : List Nat)
  | none
  | enum (cls member : Str)
  | obj (uid : Nat) (mro : List Str)
  | tuple (xs : List PyVal)
  | list (xs : List PyVal)
  | fset (xs : List PyVal)
  | dict (kvs : List (PyVal × PyVal))
  deriving Inhabited

/-- annotations: the grammar accepted by the annotation classifier -/
inductive Ty where
  | int | float | str | bool | bytes
  | any
  | none                          -- `None` / `type(None)`
  | lit (ms : List Lit)           -- `Literal[m1, …]`
  | cls (name : Str)              -- an Enum class, a node class, `Origin`, … (by name)
  | newtype (name : Str) (t : Ty) -- `NewType(name, t)`
  | union (ts : List Ty)          -- `Union[…]`, `a | b`, `Optional[a]`
  | tupleFix (ts : List Ty)       -- `tuple[a, b]`, `tuple[()]`
  | tupleVar (t : Ty)             -- `tuple[a, ...]`
  | tupleAny                      -- `tuple`
  | fset (t : Ty)                 -- `frozenset[a]`
  | fsetAny                       -- `frozenset`
  | seq (t : Ty)                  -- `Sequence[a]`
  | seqAny                        -- `Sequence`
  | map (k v : Ty)                -- `Mapping[k, v]`
  | mapAny                        -- `Mapping`
  deriving Inhabited

/-! ### What CPython answers (trusted) -/

/-- `isinstance(v, C)` for the user / enum class named `c` -/
def PyVal.instOf : PyVal → Str → Bool
  | .obj _ mro, c => mro.contains c
  | .enum k _, c => k == c
  | _, _ => false

def PyVal.isBool : PyVal → Bool | .bool _ => true | _ => false
def PyVal.isInt : PyVal → Bool | .int _ => true | _ => false
def PyVal.isFloat : PyVal → Bool | .float _ _ => true | _ => false
def PyVal.isStr : PyVal → Bool | .str _ => true | _ => false
def PyVal.isBytes : PyVal → Bool | .bytes _ => true | _ => false
def PyVal.isNone : PyVal → Bool | .none => true | _ => false
def PyVal.isTuple : PyVal → Bool | .tuple _ => true | _ => false
def PyVal.isFset : PyVal → Bool | .fset _ => true | _ => false
def PyVal.isDict : PyVal → Bool | .dict _ => true | _ => false

/-- `isinstance(v, collections.abc.Sequence)` and, if so, the elements that iterating `v` yields -/
def PyVal.seqElems : PyVal → Option (List PyVal)
  | .tuple xs => some xs
  | .list xs => some xs
  | .str s => some (s.map fun c => .str [c])
  | .bytes bs => some (bs.map fun b => .int (Int.ofNat b))
  | _ => Option.none

/-- `isinstance(value, type_)` as evaluated inside the `try`: a `TypeError` (subscripted generic,
`Literal`, `Any`, a `NewType`) counts as "not an instance" because the code passes on it.
`bool` is a subclass of `int`. -/
def pyIsinstance (v : PyVal) : Ty → Bool
  | .int => v.isInt || v.isBool
  | .float => v.isFloat
  | .str => v.isStr
  | .bool => v.isBool
  | .bytes => v.isBytes
  | .none => v.isNone
  | .cls c => v.instOf c
  | .tupleAny => v.isTuple
  | .fsetAny => v.isFset
  | .seqAny => v.seqElems.isSome
  | .mapAny => v.isDict
  | _ => false

/-- the integer a number is `==` to -/
def PyVal.num : PyVal → Option Int
  | .bool b => some (if b then 1 else 0)
  | .int i => some i
  | .float _ a => a
  | _ => Option.none

def Lit.num : Lit → Option Int
  | .bool b => some (if b then 1 else 0)
  | .int i => some i
  | _ => Option.none

/-- same kind and equal -/
def strictEqLit : PyVal → Lit → Bool
  | .int i, .int j => i == j
  | .bool a, .bool b => a == b
  | .str s, .str t => s == t
  | .none, .none => true
  | .enum c m, .enum c' m' => c == c' && m == m'
  | _, _ => false

/-- Python's `v == m` (numbers compare across bool / int / float) -/
def pyEqLit (v : PyVal) (m : Lit) : Bool :=
  match v.num, m.num with
  | some a, some b => a == b
  | _, _ => strictEqLit v m

/-! ### `is_instance`, in the order of the code -/

def Ty.isAny : Ty → Bool | .any => true | _ => false
def Ty.isInt : Ty → Bool | .int => true | _ => false
def Ty.isFloat : Ty → Bool | .float => true | _ => false

/-- the checks that come before any look at the structure of the annotation:
`if type_ is int and (value is True or value is False): return False`;
the numeric-tower / `isinstance` test inside the `try`; `if type_ == Any: return True`.
`none` means: go on. -/
def pre (v : PyVal) (t : Ty) : Option Bool :=
  if t.isInt && v.isBool then some false
  else if (t.isFloat && (v.isInt || v.isBool || v.isFloat)) || pyIsinstance v t then some true
  else if t.isAny then some true
  else Option.none

mutual
/-- `is_instance(value, type_)` -/
def isInstance (v : PyVal) (t : Ty) : Bool :=
  match t with
  -- a NewType is checked as its supertype
  | .newtype _ u => isInstance v u
  -- unions come before the `isinstance` test: `any(is_instance(value, t) for t in get_args(type_))`
  | .union ts => isInstAny v ts
  -- generic collections: `isinstance(value, orig)`, then the arguments
  | .tupleFix ts =>
    match pre v (.tupleFix ts) with
    | some b => b
    | Option.none =>
      match v with
      | .tuple xs =>
        if ts.isEmpty then xs.isEmpty
        else if ts.length != xs.length then false
        else isInstZip xs ts
      | _ => false
  | .tupleVar u =>
    match pre v (.tupleVar u) with
    | some b => b
    | Option.none =>
      match v with
      | .tuple xs => xs.all fun x => isInstance x u
      | _ => false
  | .fset u =>
    match pre v (.fset u) with
    | some b => b
    | Option.none =>
      match v with
      | .fset xs => xs.all fun x => isInstance x u
      | _ => false
  | .seq u =>
    match pre v (.seq u) with
    | some b => b
    | Option.none =>
      match v.seqElems with
      | some xs => xs.all fun x => isInstance x u
      | Option.none => false
  | .map k w =>
    match pre v (.map k w) with
    | some b => b
    | Option.none =>
      match v with
      | .dict kvs => kvs.all fun kv => isInstance kv.1 k && isInstance kv.2 w
      | _ => false
  -- `value in get_args(type_)`
  | .lit ms =>
    match pre v (.lit ms) with
    | some b => b
    | Option.none => ms.any fun m => pyEqLit v m
  -- plain classes, `Any`, bare collections: nothing after the early tests can say yes
  -- (a bare collection class repeats `isinstance(value, type_)`)
  | .tupleAny => (pre v .tupleAny).getD (pyIsinstance v .tupleAny)
  | .fsetAny => (pre v .fsetAny).getD (pyIsinstance v .fsetAny)
  | .seqAny => (pre v .seqAny).getD (pyIsinstance v .seqAny)
  | .mapAny => (pre v .mapAny).getD (pyIsinstance v .mapAny)
  | .bytes => (pre v .bytes).getD (pyIsinstance v .bytes)
  | .int => (pre v .int).getD false
  | .float => (pre v .float).getD false
  | .str => (pre v .str).getD false
  | .bool => (pre v .bool).getD false
  | .any => (pre v .any).getD false
  | .none => (pre v .none).getD false
  | .cls c => (pre v (.cls c)).getD false
/-- `any(is_instance(value, t) for t in args)` -/
def isInstAny (v : PyVal) (ts : List Ty) : Bool :=
  match ts with
  | [] => false
  | t :: r => isInstance v t || isInstAny v r
/-- `all(is_instance(item, item_type) for item, item_type in zip(value, args))` -/
def isInstZip (xs : List PyVal) (ts : List Ty) : Bool :=
  match ts with
  | [] => true
  | t :: r =>
    match xs with
    | [] => true
    | x :: xr => isInstance x t && isInstZip xr r
end

/-! ### `_check_runtime_types` and the gate in `__post_init__` -/

/-- `unwrap_newtype` (applied to the top level of every field type by `get_field_types`) -/
def unwrapNewtype : Ty → Ty
  | .newtype _ t => unwrapNewtype t
  | t => t

/-- a dataclass field of the node being constructed: name, annotation, the value `getattr` returns -/
structure FieldV where
  name : Str
  ty : Ty
  val : PyVal
  deriving Inhabited

def idName : Str := "id".toList
def cidName : Str := "content_id".toList

/-- `f.name not in ("id", "content_id")` -/
def FieldV.checked (f : FieldV) : Bool := !(f.name == idName || f.name == cidName)

/-- `_check_runtime_types(self, {f: info for f, info in all_fields if f.name not in (…)})` -/
def checkRuntimeTypes (fs : List FieldV) : List Str :=
  ((fs.filter FieldV.checked).filter fun f => !isInstance f.val (unwrapNewtype f.ty)).map (·.name)

/-- what is built: the field values as given -/
abbrev Built := List (Str × PyVal)
def mkBuilt (fs : List FieldV) : Built := fs.map fun f => (f.name, f.val)

/-- the gate: `if config.RUNTIME_TYPE_CHECK: … if incorrect_fields: raise InvalidTypes(incorrect_fields)`;
the rest of `__post_init__` does not look at types. -/
def construct (gate : Bool) (fs : List FieldV) : Except (List Str) Built :=
  if gate then
    let bad := checkRuntimeTypes fs
    if bad.isEmpty then .ok (mkBuilt fs) else .error bad
  else .ok (mkBuilt fs)

end RT
end PyOak
