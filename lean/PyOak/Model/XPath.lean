/-
Model of `pyoak.match.xpath` (src/pyoak/match/xpath.py):
 * the grammar `xpath_grammar` (lark LALR + contextual lexer, re-modelled as a lexer and a
   recursive-descent parser over `List Char`), the `XPathTransformer` with its reversed walk,
   the `ASTXpath.__init__` prefixing of relative paths;
 * `_match_node_element`, `_match_node_xpath` (bottom-up, over the `Tree` tables);
 * `ASTXpath.findall` (top-down work list with first-insertion-order de-duplication).
-/
import PyOak.Model.Tree
namespace PyOak

/-- `ASTXpathElement(ast_class, parent_field, parent_index, anywhere)`; the class is kept by
name (`ASTNode` when the step names none) -/
structure XElem where
  cls : Str
  field : Option Str
  idx : Option Nat
  anywhere : Bool
  deriving DecidableEq, Inhabited, Repr

/-! ### lexer -/

inductive XTok where
  | slash | at | lsqb | rsqb
  | cname (s : Str)
  | digit (c : Char)
  deriving DecidableEq, Repr


/-- `none` = a character no terminal matches -/
def xlex : Nat → Str → Option (List XTok)
  | 0, _ => some []
  | _, [] => some []
  | fuel + 1, c :: r =>
    if isWS c then xlex fuel r
    else if c == '/' then (xlex fuel r).map (.slash :: ·)
    else if c == '@' then (xlex fuel r).map (.at :: ·)
    else if c == '[' then (xlex fuel r).map (.lsqb :: ·)
    else if c == ']' then (xlex fuel r).map (.rsqb :: ·)
    else if isDigitC c then (xlex fuel r).map (.digit c :: ·)
    else if isNameStart c then
      let name := c :: r.takeWhile isNameChar
      (xlex fuel (r.dropWhile isNameChar)).map (.cname name :: ·)
    else none

/-! ### parser: `xpath: element* self`, `element: "/" field_spec? index_spec? class_spec?` -/

/-- what the transformer's `element` callback returns; `none` = the empty element of `//` -/
abbrev RawEl := Option (Option Str × Option Nat × Str)

def astNodeName : Str := "ASTNode".toList

def digitsVal (ds : List Char) : Nat := ds.foldl (fun a c => a * 10 + (c.toNat - '0'.toNat)) 0

/-- parse the optional parts after a "/" ; returns the raw element and the rest.
`known` decides whether a class name denotes a node class (`check_and_get_ast_node_type`). -/
def parseStepBody (known : Str → Bool) (toks : List XTok) :
    Option (Option Str × Option (Option Nat) × Option Str × List XTok) :=
  -- field_spec?
  let (fld, toks) : Option Str × List XTok := match toks with
    | .at :: .cname f :: r => (some f, r)
    | _ => (none, toks)
  match toks with
  | .at :: _ => none          -- "@" not followed by a CNAME
  | _ =>
  -- index_spec?
  let idxr : Option (Option (Option Nat) × List XTok) := match toks with
    | .lsqb :: r =>
      let ds := r.takeWhile (fun t => match t with | .digit _ => true | _ => false)
      let r' := r.dropWhile (fun t => match t with | .digit _ => true | _ => false)
      match r' with
      | .rsqb :: r'' =>
        let cs := ds.filterMap (fun t => match t with | .digit c => some c | _ => none)
        some (some (if cs.isEmpty then none else some (digitsVal cs)), r'')
      | _ => none
    | _ => some (none, toks)
  match idxr with
  | none => none
  | some (idx, toks) =>
  -- class_spec?
  match toks with
  | .cname c :: r => if known c then some (fld, idx, some c, r) else none
  | _ => some (fld, idx, none, toks)

/-- all steps, left to right; the last must carry a class (`self`) -/
def parseSteps (known : Str → Bool) : Nat → List XTok → Option (List RawEl)
  | 0, _ => none
  | fuel + 1, toks =>
    match toks with
    | .slash :: r =>
      match parseStepBody known r with
      | none => none
      | some (fld, idx, cls, rest) =>
        let raw : RawEl :=
          match fld, idx, cls with
          | none, none, none => none
          | _, _, _ => some (fld, idx.getD none, cls.getD astNodeName)
        match rest with
        | [] => if cls.isSome then some [raw] else none      -- `self` needs a class_spec
        | _ => (parseSteps known fuel rest).map (raw :: ·)
    | _ => none

/-- the reversed walk of `XPathTransformer.xpath`; `acc` is `ret` with its last element first -/
def xwalk : List RawEl → List XElem → Option (List XElem)
  | [], acc => some acc.reverse
  | some (f, i, c) :: r, acc => xwalk r (⟨c, f, i, false⟩ :: acc)
  | none :: r, acc =>
    match acc with
    | [] => none                      -- IndexError in the implementation (unreachable by grammar)
    | e :: acc' => xwalk r ({ e with anywhere := true } :: acc')

/-- `ASTXpath(text)._elements_reversed`; `none` = `ASTXpathDefinitionError` -/
def parseXPath (known : Str → Bool) (text : Str) : Option (List XElem) :=
  let text := match text with
    | '/' :: _ => text
    | _ => '/' :: '/' :: text
  match xlex (text.length + 1) text with
  | none => none
  | some toks =>
    match parseSteps known (toks.length + 1) toks with
    | none => none
    | some raws => xwalk raws.reverse []

/-! ### matching one step -/

/-- `_match_node_element(n_info, element)` -/
def matchElem (n : Node) (edge : Option Edge) (el : XElem) : Bool :=
  n.isInst el.cls
    && (match el.field with
        | none => true
        | some f => match edge with
          | some e => f == e.field
          | none => false)
    && (match el.idx with
        | none => true
        | some i => (edge.bind (·.idx)) == some i)

/-! ### `_match_node_xpath` over the Tree tables (bottom-up) -/

inductive MErr where
  | keyError | valueError
  deriving DecidableEq, Repr

/-- `elements` is `_elements_reversed` (self first). Fuel: one unit per level climbed. -/
def matchUpT (t : TreeT) : Nat → Node → List XElem → Except TErr Bool
  | 0, _, _ => .ok false
  | _, _, [] => .ok false          -- unreachable (`elements[0]` on an empty list)
  | fuel + 1, n, el :: tail =>
    match t.getParentInfo n with
    | .error e => .error e
    | .ok pi =>
      if !matchElem n (pi.map (·.edge)) el then .ok false
      else match tail with
        | [] => .ok (el.anywhere || pi.isNone)
        | _ :: _ =>
          match pi with
          | none => .ok false
          | some p =>
            if el.anywhere then
              match t.getAncestors n with
              | .error e => .error e
              | .ok as =>
                -- `for ancestor in get_ancestors(node): if _match(...): return True`
                as.foldr (fun a acc =>
                  match matchUpT t fuel a tail with
                  | .error e => .error e
                  | .ok true => .ok true
                  | .ok false => acc) (.ok false)
            else matchUpT t fuel p.parent tail

/-- `ASTXpath.match(root, node)` -/
def xmatch (els : List XElem) (root n : Node) : Except MErr Bool :=
  let t := TreeT.build root
  if !t.isInTree n then .error .valueError
  else match matchUpT t (root.size + 1) n els with
    | .ok b => .ok b
    | .error _ => .error .keyError

/-! ### `findall` (top-down) -/

/-- `_NodeTraversalInfo(node, parent, field, findex)` with an absent parent for the root -/
structure XPos where
  node : Node
  parent : Option Node
  edge : Option Edge
  deriving Inhabited

/-- key under which the ordered-set `dict` de-duplicates (tuple equality; see Tree.lean on
node keys) -/
def XPos.key (p : XPos) : Nat × Option Nat × Option Edge := (p.node.uid, p.parent.map (·.uid), p.edge)

def XPos.ofItem (it : Item) : XPos := ⟨it.node, some it.parent, some it.edge⟩

/-- `if c_info not in new_work: new_work[c_info] = None` -/
def insertPos (w : List XPos) (p : XPos) : List XPos :=
  if w.any (fun q => q.key == p.key) then w else w ++ [p]

/-- candidates below one work item for one element -/
def candidates (n : Node) (anywhere : Bool) : List XPos :=
  (if anywhere then dfsImpl (fun _ => false) (fun _ => true) false n else n.items).map XPos.ofItem

/-- one `for el in self._elements` round for the non-first elements -/
def findStep (work : List XPos) (el : XElem) : List XPos :=
  work.foldl (fun nw w =>
    (candidates w.node el.anywhere).foldl (fun nw c =>
      if matchElem c.node c.edge el then insertPos nw c else nw) nw) []

/-- first round: the root itself (no parent, field or index) and, for `//`, its descendants -/
def findFirst (root : Node) (el : XElem) : List XPos :=
  let cands : List XPos := ⟨root, none, none⟩ :: (if el.anywhere then candidates root true else [])
  cands.foldl (fun nw c => if matchElem c.node c.edge el then insertPos nw c else nw) []

/-- `ASTXpath.findall(root)`; `els` is `_elements` (root-side first) -/
def findallPos (els : List XElem) (root : Node) : List XPos :=
  match els with
  | [] => []
  | el :: rest => rest.foldl findStep (findFirst root el)

def findall (els : List XElem) (root : Node) : List Node := (findallPos els root).map (·.node)

end PyOak
