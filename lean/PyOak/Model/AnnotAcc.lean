/-
Bridge between the annotation classifier (Model/Annot.lean, C11) and the accessor model
(Model/Accessors.lean, C12): what `process_node_fields` stores for an accepted field.

`process_node_fields` puts a field whose verdict is `child` into `child_fields` with
`get_type_info(ftype) = FieldTypeInfo(is_collection(ftype), ftype)` (`ftype` = the resolved hint with a top-level
NewType unwrapped by `get_field_types`), a field whose verdict is `prop` into `props`.  The generated accessors
(codegen.py `_build_body`) only ask `type_info.is_collection`: that is `Acc.FKind`.

  `is_collection(t)`:  `issubclass(get_origin(t) or t, Collection) and not issubclass(.., str)`, TypeError ⇒ False.
  For a child annotation after the top-level unwrap: a node class → False, a Union → False (TypeError),
  `tuple[..]` → True.

Exercised by the correspondence through `(c11-fkind ty)` (Handle/Annot.lean; harness/props/c11.py `fkind_cases`).
-/
import PyOak.Model.Annot
import PyOak.Model.Accessors
namespace PyOak
namespace Annot

/-- `is_collection(t)` for an annotation that `_is_valid_child_field_type` accepted -/
def Ty.isTupleType : Ty → Bool
  | .vtuple _ => true
  | .coll _ _ => true
  | _ => false

/-- the entry `process_node_fields` makes for a field annotated `t`: `none` = the field is reported in
InvalidFieldAnnotations -/
def fkind (t : Ty) : Option Acc.FKind :=
  match t.classify with
  | .reject => none
  | .prop => some .prop
  | .child => some (if t.unwrap.isTupleType then .childTuple else .childOne)

/-- the `dataclasses.Field` the accessor model sees for a field of the annotation model; `attrs` supplies
what the annotation does not determine (`compare`, `init`, `kw_only`) -/
def toDecl (attrs : Field → Bool × Bool × Bool) (f : Field) : Acc.FDecl :=
  ⟨f.name, (fkind f.ty).getD .prop, (attrs f).1, (attrs f).2.1, (attrs f).2.2⟩

/-- the three fields `ASTNode` itself declares (`id: str`, `content_id: str`, `origin: Origin`; a plain
non-node class is an atom of the grammar) -/
def baseLevel : Level :=
  [⟨Acc.nmId, .atom .str⟩, ⟨Acc.nmContentId, .atom .str⟩, ⟨Acc.nmOrigin, .atom .any⟩]

/-- the accessor-model class of a chain of annotated levels -/
def classDecl (attrs : Field → Bool × Bool × Bool) (ls : List Level) : Acc.ClassDecl :=
  ⟨ls.map fun lvl => lvl.map (toDecl attrs)⟩

/-- `compare` / `init` / `kw_only` of the fields of `ASTNode` (node.py), defaults of `dataclasses.field`
for every other field -/
def stdAttrs (f : Field) : Bool × Bool × Bool :=
  if f.name = Acc.nmId ∨ f.name = Acc.nmContentId then (false, false, false)
  else if f.name = Acc.nmOrigin then (true, true, true)
  else (true, true, false)

end Annot
end PyOak
