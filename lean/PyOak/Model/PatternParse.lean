/-
Model of the text → AST step of `pyoak.match.pattern`: `pattern_def_parser.parse(text)`
(lark, LALR with the *contextual* lexer over `PATTERN_DEF_GRAMMAR`), re-modelled as a
scanner-less recursive-descent parser over `List Char`: at each position only the terminals the
grammar accepts there are tried (which is the discipline of lark's contextual lexer), white
space (`WS`, ignored) is skipped before every terminal.

Terminals:
  CLASS / FIELD_NAME = CNAME   `[A-Za-z_][A-Za-z0-9_]*`, greedy
  CAPTURE_KEY                  `[a-z_]*[a-z]` : the longest prefix of the run of `[a-z_]` that
                               ends in a letter (regex back-tracking)
  NONE                         the four characters `None` (no word boundary is required)
  ESCAPED_STRING               `".*?(?<!\\)(\\\\)*?"` : up to the first `"` preceded by an even
                               number of backslashes; `.` does not match a newline
  `(` `)` `|` `=` `@` `[` `]` `*` `$` and the two-character `->`

`compilePattern` is the whole `validate_pattern` / `NodeMatcher.from_pattern` pipeline:
parse, then `PatternDefInterpreter` (Model/Pattern.lean).
-/
import PyOak.Model.Pattern
namespace PyOak
namespace PM

def skipWS (s : Str) : Str := s.dropWhile isWS

def isLower (c : Char) : Bool := 'a' ≤ c && c ≤ 'z'
def isKeyChar (c : Char) : Bool := isLower c || c == '_'

/-- CNAME at the head of `s` (after white space): the name and the rest -/
def lexCName (s : Str) : Option (Str × Str) :=
  match skipWS s with
  | c :: r => if isNameStart c then some (c :: r.takeWhile isNameChar, r.dropWhile isNameChar) else none
  | [] => none

/-- drop trailing underscores of a run of key characters; returns the kept prefix and what was dropped -/
def trimKey (run : Str) : Str × Str :=
  let dropped := (run.reverse.takeWhile (· == '_'))
  (run.take (run.length - dropped.length), dropped)

/-- CAPTURE_KEY at the head of `s` (after white space) -/
def lexKey (s : Str) : Option (Str × Str) :=
  let t := skipWS s
  let run := t.takeWhile isKeyChar
  let (key, dropped) := trimKey run
  if key.isEmpty then none else some (key, dropped ++ t.dropWhile isKeyChar)

/-- the body of an ESCAPED_STRING after the opening quote: content (raw, with its backslashes) and rest -/
def scanStr : Str → Str → Option (Str × Str)
  | [], _ => none
  | '\n' :: _, _ => none
  | '"' :: r, acc => some (acc.reverse, r)
  | '\\' :: c :: r, acc => if c == '\n' then none else scanStr r (c :: '\\' :: acc)
  | c :: r, acc => scanStr r (c :: acc)

/-- expect the single character `c` (after white space) -/
def expectC (c : Char) (s : Str) : Option Str :=
  match skipWS s with
  | d :: r => if d == c then some r else none
  | [] => none

/-- `capture?` : `"->" CAPTURE_KEY` -/
def parseCapture (s : Str) : Option (Option Str × Str) :=
  match skipWS s with
  | '-' :: '>' :: r =>
    match lexKey r with
    | some (k, r') => some (some k, r')
    | none => none
  | '-' :: _ => none
  | _ => some (none, s)

/-- `("|" CLASS)*` -/
def parseAlts : Nat → Str → Option (List Str × Str)
  | 0, _ => none
  | fuel + 1, s =>
    match skipWS s with
    | '|' :: r =>
      match lexCName r with
      | none => none
      | some (c, r') =>
        match parseAlts fuel r' with
        | none => none
        | some (cs, r'') => some (c :: cs, r'')
    | _ => some ([], s)

/-- `class_spec: ANY | CLASS ("|" CLASS)*` -/
def parseClassSpec (s : Str) : Option (ClassSpec × Str) :=
  match skipWS s with
  | '*' :: r => some (.any, r)
  | t =>
    match lexCName t with
    | none => none
    | some (c, r) =>
      match parseAlts (r.length + 1) r with
      | none => none
      | some (cs, r') => some (.names c cs, r')

/-- does a `value` start here (first character after white space)? -/
def startsValue (s : Str) : Bool :=
  match skipWS s with
  | '(' :: _ => true
  | '$' :: _ => true
  | '"' :: _ => true
  | 'N' :: _ => true
  | _ => false

mutual
/-- `tree: "(" class_spec field_spec* ")"` -/
def parseTree : Nat → Str → Option (Pat × Str)
  | 0, _ => none
  | fuel + 1, s =>
    match expectC '(' s with
    | none => none
    | some r =>
      match parseClassSpec r with
      | none => none
      | some (cls, r1) =>
        match parseFields fuel r1 with
        | none => none
        | some (fs, r2) =>
          match expectC ')' r2 with
          | none => none
          | some r3 => some (.mk cls fs, r3)
/-- `field_spec*` -/
def parseFields : Nat → Str → Option (Fields × Str)
  | 0, _ => none
  | fuel + 1, s =>
    match skipWS s with
    | '@' :: r =>
      match lexCName r with
      | none => none
      | some (name, r1) =>
        match parseFSpec fuel r1 with
        | none => none
        | some (spec, r2) =>
          match parseCapture r2 with
          | none => none
          | some (cap, r3) =>
            match parseFields fuel r3 with
            | none => none
            | some (rest, r4) => some (.cons name spec cap rest, r4)
    | _ => some (.nil, s)
/-- `("=" (sequence | value))?` with `sequence: "[" (value capture?)* (ANY capture?)? "]"` -/
def parseFSpec : Nat → Str → Option (FSpec × Str)
  | 0, _ => none
  | fuel + 1, r1 =>
    match skipWS r1 with
    | '=' :: r2 =>
      match skipWS r2 with
      | '[' :: r3 =>
        match parseItems fuel r3 with
        | none => none
        | some (items, r4) =>
          -- (ANY capture?)? "]"
          match skipWS r4 with
          | '*' :: r5 =>
            match parseCapture r5 with
            | none => none
            | some (tc, r6) =>
              match expectC ']' r6 with
              | none => none
              | some r7 => some (.seq items (some tc), r7)
          | ']' :: r5 => some (.seq items none, r5)
          | _ => none
      | _ =>
        match parseValue fuel r2 with
        | none => none
        | some (v, r3) => some (.val v, r3)
    | _ => some (.any, r1)
/-- `(value capture?)*` -/
def parseItems : Nat → Str → Option (Items × Str)
  | 0, _ => none
  | fuel + 1, s =>
    if startsValue s then
      match parseValue fuel s with
      | none => none
      | some (v, r1) =>
        match parseCapture r1 with
        | none => none
        | some (cap, r2) =>
          match parseItems fuel r2 with
          | none => none
          | some (rest, r3) => some (.cons v cap rest, r3)
    else some (.nil, s)
/-- `value: tree | var | NONE | ESCAPED_STRING` -/
def parseValue : Nat → Str → Option (PVal × Str)
  | 0, _ => none
  | fuel + 1, s =>
    match skipWS s with
    | '(' :: r =>
      match parseTree fuel ('(' :: r) with
      | none => none
      | some (p, r') => some (.tree p, r')
    | '$' :: r =>
      match lexKey r with
      | none => none
      | some (k, r') => some (.var k, r')
    | '"' :: r =>
      match scanStr r [] with
      | none => none
      | some (body, r') => some (.re body, r')
    | 'N' :: 'o' :: 'n' :: 'e' :: r => some (.none, r)
    | _ => none
end

/-- `pattern_def_parser.parse(text)`; `none` = `UnexpectedInput` -/
def parsePattern (text : Str) : Option Pat :=
  match parseTree (5 * text.length + 8) text with
  | none => none
  | some (p, rest) => if (skipWS rest).isEmpty then some p else none

/-- definition errors of the pattern entry points -/
inductive DefErr where
  | syntax
  | interp (e : CErr)
  deriving DecidableEq, Repr

/-- `validate_pattern(text)` / `NodeMatcher.from_pattern(text)` (uncached): parse, then interpret -/
def compilePattern (K : CEnv) (text : Str) : Except DefErr Matcher :=
  match parsePattern text with
  | none => .error .syntax
  | some p =>
    match compile K p with
    | .error e => .error (.interp e)
    | .ok m => .ok m

end PM
end PyOak
