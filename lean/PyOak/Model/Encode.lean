/-
Model of the digest assembly in `ASTNode.__post_init__` (src/pyoak/node.py): the pre-images of
`content_id` and of the base `id`, `is_equal`, and the escaping of property texts.
The digest function is a parameter `H : Str → Str` (blake2b + hexdigest in the implementation).
`PropV.ty` / `PropV.txt` are the texts `type(val)` and `_stable_str(val)` as CPython renders them.
-/
import PyOak.Model.Traverse
namespace PyOak

/-- `s.replace("\\", "\\\\").replace(")", "\\)")` -/
def escText : Str → Str
  | [] => []
  | c :: r => if c = '\\' then '\\' :: '\\' :: escText r
              else if c = ')' then '\\' :: ')' :: escText r
              else c :: escText r

/-- `:{name}={type(val)}({escaped text})` -/
def propEntry (p : PropV) : Str :=
  ':' :: p.name ++ '=' :: p.ty ++ '(' :: escText p.txt ++ [')']

/-- `get_properties(skip_id, skip_origin, skip_content_id, skip_non_compare=True, sort_keys=True)` -/
def comparableSorted (h : Head) : List PropV :=
  sortByName PropV.name (h.props.filter (·.compare))

/-- `resolved_index = i or -1` rendered inside `[...]` -/
def idxText : Option Nat → Str
  | some (k + 1) => natStr (k + 1)
  | _ => ['-', '1']

/-- what a child contributes: its content_id and the fqn of its origin -/
structure KidDigest where
  cid : Str
  fqn : Str
  deriving DecidableEq, Inhabited, Repr

/-- a child field after the children have been digested: name, is_collection, children in order -/
abbrev KidD := Str × Bool × List KidDigest

/-- entries of one child field, as `get_child_nodes_with_field(sort_keys=True)` enumerates them;
`withOrigin` selects the `id` flavour (`{cid}@{fqn}`) -/
def kidEntries (withOrigin : Bool) (k : KidD) : Str :=
  let render (i : Option Nat) (d : KidDigest) : Str :=
    ':' :: k.1 ++ '[' :: idxText i ++ ']' :: '=' :: d.cid ++ (if withOrigin then '@' :: d.fqn else [])
  if k.2.1 then (enumFrom 0 k.2.2).flatMap (fun (i, d) => render (some i) d)
  else k.2.2.flatMap (render none)

def cidInputOf (h : Head) (kids : List KidD) : Str :=
  h.cls ++ (comparableSorted h).flatMap propEntry ++ (sortByName (·.1) kids).flatMap (kidEntries false)

def idInputOf (h : Head) (kids : List KidD) : Str :=
  h.cls ++ '@' :: h.org.fqn ++ (comparableSorted h).flatMap propEntry
    ++ (sortByName (·.1) kids).flatMap (kidEntries true)

mutual
/-- `node.content_id` -/
def cid (H : Str → Str) : Node → Str
  | .mk h ks => H (cidInputOf h (cidKids H ks))
def cidKids (H : Str → Str) : List Kid → List KidD
  | [] => []
  | k :: r => cidKid H k :: cidKids H r
def cidKid (H : Str → Str) : Kid → KidD
  | .mk name coll ns => (name, coll, cidNodes H ns)
def cidNodes (H : Str → Str) : List Node → List KidDigest
  | [] => []
  | n :: r => ⟨cid H n, n.org.fqn⟩ :: cidNodes H r
end

/-- the string whose digest is `content_id` -/
def cidInput (H : Str → Str) (n : Node) : Str := cidInputOf n.hd (cidKids H n.kids)
/-- the string whose digest is the base `id` (before uniquification in the registry) -/
def idInput (H : Str → Str) (n : Node) : Str := idInputOf n.hd (cidKids H n.kids)
def baseId (H : Str → Str) (n : Node) : Str := H (idInput H n)

/-- `a.is_equal(b)` -/
def isEqual (H : Str → Str) (a b : Node) : Bool := a.cls == b.cls && cid H a == cid H b

end PyOak
