/-
Conservative EXTENSION of Model/Accessors.lean (nothing there is changed): the per-class
installation of the generated accessors END TO END.

`Acc.World` (Model/Accessors.lean) is a slot machine over class INDICES for ONE accessor: a slot
holds `gen k` ("the function generated for class k") and nothing links `k` to a class definition,
to the memo dicts of src/pyoak/types.py or to the code that finally runs.  Here a program state
`Prog` carries

  * `decls`  the class table: class `k` is `decls[k]` (the field declarations of its whole chain,
             as `dataclasses.fields` sees them; for multiple inheritance the flattened replay of
             Props/C12MI.lean),
  * `mros`   class k's MRO below k (as in `World`),
  * `slots`  for EACH of the four generated accessors the class's own `__dict__` entry: absent, the
             bootstrap stub (`gen_and_yield_*`, codegen.py:278-337), or a GENERATED FUNCTION — the IR
             of its body (`Code`), i.e. what `_gen_func` `exec`s and `setattr`s on the class,
  * `memo`   `_TYPE_TO_CHILD_FIELDS[cls]` / `_TYPE_TO_PROPS[cls]` (types.py:15-62; filled together
             by `_populate_type_dicts` on the first `get_cls_*` of the class).

`defineClass` = `__init_subclass__` (node.py:888-901: all four accessors re-pointed to the stubs);
`dispatch a k` = calling accessor `a` on an instance of class `k`: attribute lookup along the MRO;
a generated function runs as it is; a stub reads (or fills) the memo of `type(self)`, generates
the code for `type(self)`, installs it on `type(self)` and calls the accessor AGAIN.
The four public calls execute the code that `dispatch` returns on the instance.  No Mathlib.
-/
import PyOak.Model.Accessors
namespace PyOak
namespace Acc

/-- the four accessors that are generated per class -/
inductive AccId where
  | childNodes | childNodesWF | iterChildFields | properties
  deriving DecidableEq, Repr, Inhabited

/-- a generated function: the IR of its body, tagged with the accessor it implements -/
inductive Code where
  | nodes (b : Body CStmt)       -- `get_child_nodes`
  | nodesWF (b : Body CStmt)     -- `get_child_nodes_with_field`
  | iterCF (b : Body FDecl)      -- `iter_child_fields`
  | props (b : Body PStmt)       -- `get_properties`
  deriving Repr

instance : Inhabited Code := ⟨.nodes ⟨[], []⟩⟩

inductive SlotC where
  | stub
  | gen (code : Code)
  deriving Repr, Inhabited

/-- `(child_fields, props)` as `process_node_fields` returned them for the class -/
abbrev FieldsPair := List FDecl × List FDecl

/-- `_gen_*_func(cls, get_cls_child_fields(cls) / get_cls_props(cls))` -/
def genCode (a : AccId) (m : FieldsPair) : Code :=
  match a with
  | .childNodes => .nodes (genChildNodes m.1)
  | .childNodesWF => .nodesWF (genChildNodes m.1)
  | .iterChildFields => .iterCF (genIterChildFields m.1)
  | .properties => .props (genGetProperties m.2)

structure Prog where
  decls : List ClassDecl
  mros : List (List Nat)
  slots : AccId → List (Option SlotC)
  memo : List (Option FieldsPair)

def Prog.init : Prog := ⟨[], [], fun _ => [], []⟩

/-- the class definition of class `k` (`default` beyond the table) -/
def Prog.decl (p : Prog) (k : Nat) : ClassDecl := (p.decls[k]?).getD default

/-- what `process_node_fields` returns for class `k` -/
def Prog.fieldsOf (p : Prog) (k : Nat) : FieldsPair := processNodeFields (p.decl k).fields

/-- `class K(bases…): …` with `__init_subclass__`: all four accessors point to the stubs -/
def Prog.defineClass (p : Prog) (d : ClassDecl) (mro : List Nat) : Prog :=
  ⟨p.decls ++ [d], p.mros ++ [mro], fun a => p.slots a ++ [some .stub], p.memo ++ [none]⟩

/-- `get_cls_child_fields(cls)` / `get_cls_props(cls)`: the memo entry, filled on first use by
`process_node_fields(cls)` -/
def Prog.clsFields (p : Prog) (k : Nat) : FieldsPair × Prog :=
  match (p.memo[k]?).join with
  | some m => (m, p)
  | none =>
    let m := processNodeFields (p.decl k).fields
    (m, { p with memo := p.memo.set k (some m) })

/-- attribute lookup of accessor `a` along the MRO of class `k`; `ASTNode` itself holds a stub -/
def Prog.lookup (p : Prog) (a : AccId) (k : Nat) : SlotC :=
  match (k :: (p.mros[k]?).getD []).findSome? (fun c => ((p.slots a)[c]?).join) with
  | some s => s
  | none => .stub

/-- `setattr(clz, fname, new_f)` -/
def Prog.install (p : Prog) (a : AccId) (k : Nat) (code : Code) : Prog :=
  { p with slots := fun b => if b = a then (p.slots a).set k (some (.gen code)) else p.slots b }

/-- calling accessor `a` on an instance of class `k`: the code that finally runs, and the new state -/
def Prog.dispatch (p : Prog) (a : AccId) (k : Nat) : Code × Prog :=
  match p.lookup a k with
  | .gen code => (code, p)
  | .stub =>
    let (m, p1) := p.clsFields k              -- get_cls_child_fields(self.__class__) / get_cls_props(…)
    let code := genCode a m                   -- _gen_…_func(self.__class__, …)
    let p2 := p1.install a k code
    -- `yield from self.<accessor>(…)`: dispatched again (finds what was just installed on `k`)
    match p2.lookup a k with
    | .gen code' => (code', p2)
    | .stub => (code, p2)

/-! ### the public calls: dispatch, then run the code on the instance -/

def Code.runNodes (i : Inst) (s : Bool) : Code → List Nd
  | .nodes b => (b.branch s).flatMap (CStmt.runN i)
  | _ => []
def Code.runNodesWF (i : Inst) (s : Bool) : Code → List (Nd × FDecl × Option Nat)
  | .nodesWF b => (b.branch s).flatMap (CStmt.runWF i)
  | _ => []
def Code.runIterCF (i : Inst) (s : Bool) : Code → List (FVal × FDecl)
  | .iterCF b => (b.branch s).map fun d => (i.get d.name, d)
  | _ => []
def Code.runProps (i : Inst) (fl : Flags) (s : Bool) : Code → List (FVal × FDecl)
  | .props b => (b.branch s).flatMap (PStmt.run fl i)
  | _ => []

/-- `node.get_child_nodes(sort_keys=s)` for `type(node)` = class `k` -/
def Prog.getChildNodes (p : Prog) (k : Nat) (i : Inst) (s : Bool) : List Nd × Prog :=
  let (c, p') := p.dispatch .childNodes k; (c.runNodes i s, p')
def Prog.getChildNodesWithField (p : Prog) (k : Nat) (i : Inst) (s : Bool) :
    List (Nd × FDecl × Option Nat) × Prog :=
  let (c, p') := p.dispatch .childNodesWF k; (c.runNodesWF i s, p')
def Prog.iterChildFields (p : Prog) (k : Nat) (i : Inst) (s : Bool) : List (FVal × FDecl) × Prog :=
  let (c, p') := p.dispatch .iterChildFields k; (c.runIterCF i s, p')
def Prog.getProperties (p : Prog) (k : Nat) (i : Inst) (fl : Flags) (s : Bool) : List (FVal × FDecl) × Prog :=
  let (c, p') := p.dispatch .properties k; (c.runProps i fl s, p')
/-- `node.children` -/
def Prog.children (p : Prog) (k : Nat) (i : Inst) : List Nd × Prog := p.getChildNodes k i false
/-- `cls.get_child_fields()` (static; reads / fills the memo, touches no slot) -/
def Prog.getChildFields (p : Prog) (k : Nat) : List FDecl × Prog :=
  let (m, p') := p.clsFields k; (m.1, p')
/-- `cls.get_property_fields(flags…)` (static) -/
def Prog.getPropertyFields (p : Prog) (k : Nat) (fl : Flags) : List FDecl × Prog :=
  let (m, p') := p.clsFields k; (m.2.filter (propertyFieldYielded fl), p')
/-- `node.to_properties_dict()` -/
def Prog.toPropertiesDict (p : Prog) (k : Nat) (i : Inst) : List (Str × FVal) × Prog :=
  let (r, p') := p.getProperties k i Flags.default false
  (r.foldl (fun d (x : FVal × FDecl) => dictPut d x.2.name x.1) [], p')

/-- variant for the `_fails` witness: class definition without the re-pointing of `__init_subclass__` -/
def Prog.defineClassNoRepoint (p : Prog) (d : ClassDecl) (mro : List Nat) : Prog :=
  ⟨p.decls ++ [d], p.mros ++ [mro], fun a => p.slots a ++ [none], p.memo ++ [none]⟩

end Acc
end PyOak
