/-
Python's `s[lo:hi]` on a `str` for ARBITRARY ints (step 1), as CPython's `PySlice_AdjustIndices` computes it:
a negative index counts from the end (`+ len`, then clamped at 0), an index beyond the end is clamped to `len`, and
an empty slice results when the adjusted stop is not after the adjusted start.

Independent of `OriginAlg.slice` (Model/Origin.lean), which uses `Int.toNat` and is only meant for `0 ≤ lo`, `0 ≤ hi`.
Exercised by the protocol command `o-pyslice` (Handle/Origin.lean) against the real `str.__getitem__`; bridged to
`slice` / `getRaw` in Props/C15Boundary.lean.  No Mathlib.
-/
import PyOak.Sexp
namespace PyOak.OriginAlg

/-- `PySlice_AdjustIndices` for one bound, step 1, on a sequence of length `n` -/
def pyClamp (n : Nat) (i : Int) : Nat :=
  if i < 0 then (if i + (n : Int) < 0 then 0 else (i + (n : Int)).toNat)
  else (if i > (n : Int) then n else i.toNat)

/-- Python `s[lo:hi]` -/
def pySlice (s : Str) (lo hi : Int) : Str :=
  let a := pyClamp s.length lo
  let b := pyClamp s.length hi
  (s.drop a).take (b - a)

end PyOak.OriginAlg
