/-
Model of `pyoak.legacy.match.xpath` (src/pyoak/legacy/match/xpath.py):
 * the grammar (same text as the successor's; the lexer and the per-step parser of
   `Model/XPath.lean` are reused), with the legacy default class `AwareASTNode`;
 * the legacy `XPathTransformer.xpath` walk: the `anywhere` flag is put on the element *above*
   a `//` (not below it as in the successor) and a leading `//` becomes a separate
   `ASTXpathAnywhereElement` at the end of the reversed list;
 * `_match_node_xpath(node | None, elements)` climbing `node.parent` and, for an `anywhere`
   element, trying every member of `node.ancestors()` first.
The parent chain of a node (`parent`, `parent_field`, `parent_index`) is modelled as the
node-first list of `(node, storage edge)`; the empty list is `None`.
-/
import PyOak.Model.XPath
namespace PyOak

def awareName : Str := "AwareASTNode".toList

/-- an entry of the legacy `_elemetns` list -/
inductive LElem where
  | el (e : XElem)        -- `ASTXpathElement(ast_class, parent_field, parent_index, anywhere)`
  | anyw                  -- `ASTXpathAnywhereElement()`
  deriving DecidableEq, Repr

/-- the transformer's `element` callback: `(None, None, None)` for the empty element of `//`,
otherwise the parts with the legacy default class `AwareASTNode` and `-1 -> None` for `[]` -/
def lmkRaw (fld : Option Str) (idx : Option (Option Nat)) (cls : Option Str) : RawEl :=
  match fld, idx, cls with
  | none, none, none => none
  | _, _, _ => some (fld, idx.getD none, cls.getD awareName)

/-- `xpath: element* self` (an element that has a field or an index but no class gets
`AwareASTNode`) -/
def lparseSteps (known : Str → Bool) : Nat → List XTok → Option (List RawEl)
  | 0, _ => none
  | fuel + 1, toks =>
    match toks with
    | .slash :: r =>
      match parseStepBody known r with
      | none => none
      | some (fld, idx, cls, rest) =>
        match rest with
        | [] => if cls.isSome then some [lmkRaw fld idx cls] else none   -- `self` needs a class_spec
        | _ :: _ => (lparseSteps known fuel rest).map (lmkRaw fld idx cls :: ·)
    | _ => none

/-- the legacy `XPathTransformer.xpath`: `for el in reversed(args)` with the inner
`while ast_class is None: anywhere = True; next_el = next(elements, None)`; `pending` is the
`anywhere` variable.  Input: the raw elements, `self` first. -/
def lwalk : List RawEl → Bool → List LElem
  | [], false => []
  | [], true => [.anyw]                         -- `ret.append(ASTXpathAnywhereElement()); return ret`
  | none :: r, _ => lwalk r true
  | some (f, i, c) :: r, pending => .el ⟨c, f, i, pending⟩ :: lwalk r false

/-- `if not xpath.startswith("/"): xpath = "//" + xpath` -/
def lprefix (text : Str) : Str :=
  match text with
  | '/' :: _ => text
  | _ => '/' :: '/' :: text

/-- lexing and parsing of the (prefixed) text: the transformer's `args`, in text order -/
def lrawSteps (known : Str → Bool) (text : Str) : Option (List RawEl) :=
  match xlex ((lprefix text).length + 1) (lprefix text) with
  | none => none
  | some toks => lparseSteps known (toks.length + 1) toks

/-- legacy `ASTXpath(text)._elemetns`; `none` = `ASTXpathDefinitionError` -/
def lparseXPath (known : Str → Bool) (text : Str) : Option (List LElem) :=
  (lrawSteps known text).map fun raws => lwalk raws.reverse false

/-- the test in the middle of `_match_node_xpath`; `edge = none` for a node without parent
(`c_parent_field = None`, `c_index = None`) -/
def lmatchElem (n : Node) (edge : Option Edge) (el : XElem) : Bool :=
  n.isInst el.cls
    && (match el.field with
        | none => true
        | some f => edge.map (·.field) == some f)
    && (match el.idx with
        | none => true
        | some i => edge.bind (·.idx) == some i)

/-- `for ancestor in …: if f(ancestor): return True` over a node-first chain: `f` holds for some
non-empty suffix -/
def ancAny (f : List (Node × Option Edge) → Bool) : List (Node × Option Edge) → Bool
  | [] => false
  | a :: up => f (a :: up) || ancAny f up

/-- `_match_node_xpath(node, elements)`; `up` is the node-first parent chain (`[]` = `None`).
Fuel: one unit per call depth (every recursive call is on a strictly shorter chain). -/
def lmatch : Nat → List (Node × Option Edge) → List LElem → Bool
  | 0, _, _ => false
  | _ + 1, [], [] => true
  | _ + 1, [], .anyw :: _ => true
  | _ + 1, [], .el _ :: _ => false
  | _ + 1, _ :: _, [] => false
  | _ + 1, _ :: _, .anyw :: _ => true
  | fuel + 1, x :: up, .el e :: tail =>
    -- `if element.anywhere: for ancestor in node.ancestors(): if _match(ancestor, elements): return True`
    (e.anywhere && ancAny (fun s => lmatch fuel s (.el e :: tail)) up)
      || (lmatchElem x.1 x.2 e && lmatch fuel up tail)

/-- legacy `ASTXpath.match(node)` for a node whose parent chain is `up` (node first) -/
def lxmatch (els : List LElem) (up : List (Node × Option Edge)) : Bool :=
  lmatch (up.length + 1) up els

end PyOak
