/-
Model of `MultiPatternMatcher.__init__` and of `MultiPatternMatcher.match(node, rules)` as a whole
(src/pyoak/match/pattern.py:420-481).  A conservative EXTENSION of Model/Pattern.lean +
Model/PatternParse.lean (nothing there is changed): until now the constructor existed only as glue
inside the protocol handler (`Handle/Pattern.lean`, `handlePMulti`); the handler now calls
`multiInit` / `ruleOrder`, so the correspondence (C08 `pmulti` cases, incl. repeated pattern names and
incorrect definitions) exercises these definitions.

  * `if len({pd[0] for pd in pattern_defs}) != len(pattern_defs): raise ASTPatternDefinitionError`
  * `for name, text in pattern_defs: matcher, msg = NodeMatcher.from_pattern(text)` — collect the
    incorrect ones, `self._name_to_matcher[name] = matcher` for the others;
  * `if incorrect_patterns: raise ASTPatternDefinitionError`
  * `match`: `rules = self._name_to_matcher.keys()` when `rules is None` (insertion order = definition order).
-/
import PyOak.Model.PatternParse
namespace PyOak
namespace PM

/-- `len(set(names)) != len(names)`: some name occurs twice -/
def hasDup : List Str → Bool
  | [] => false
  | a :: r => r.contains a || hasDup r

def isRejected : Str × Except DefErr Matcher → Bool
  | (_, .error _) => true
  | (_, .ok _) => false

def accepted? : Str × Except DefErr Matcher → Option (Str × Matcher)
  | (n, .ok m) => some (n, m)
  | (_, .error _) => none

/-- `MultiPatternMatcher(pattern_defs)`: the name → matcher dict; `none` = `ASTPatternDefinitionError` -/
def multiInit (K : CEnv) (defs : List (Str × Str)) : Option (List (Str × Matcher)) :=
  if hasDup (defs.map (·.1)) then none
  else
    let compiled := defs.map fun d => (d.1, compilePattern K d.2)
    if compiled.any isRejected then none          -- `if incorrect_patterns: raise`
    else some (compiled.filterMap accepted?)

/-- `rules = self._name_to_matcher.keys()` when no rules are given -/
def ruleOrder (tbl : List (Str × Matcher)) (rules : Option (List Str)) : List Str :=
  match rules with
  | some o => o
  | none => tbl.map (·.1)

/-- `MultiPatternMatcher(defs).match(node, rules)`; outer `none` = the constructor raised -/
def multiRun (K : CEnv) (S : Sem) (defs : List (Str × Str)) (rules : Option (List Str)) (n : Node) :
    Option (Except MultiErr (Option (Str × Ctx))) :=
  match multiInit K defs with
  | none => none
  | some tbl => some (multiMatch S tbl (ruleOrder tbl rules) n)

end PM
end PyOak
