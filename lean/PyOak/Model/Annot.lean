/-
Model of the field-annotation classifier (src/pyoak/typing.py, src/pyoak/types.py,
`ASTNode.__init_subclass__` in src/pyoak/node.py), written in the order of the code's checks.

`Ty` is the annotation grammar *after* `typing.get_type_hints` has evaluated the annotation
(so plain and postponed/string spellings, `Optional[X]` / `X | None` / `Union[..]`, `Tuple` /
`tuple` are one and the same term; `typing` itself flattens unions and gives a union at least two
members, the model only needs "at least one", which the constructor enforces):

  atom a            int, str, bool, float, bytes, Any, Literal[..], an Enum class
                    (for all of them `issubclass(.., ASTNode)` is False or a TypeError, `get_args`
                     is `()` or holds only literals, and none is a mutable collection)
  none              NoneType
  node c            a node class (subclass of ASTNode) that exists when the annotated class is defined
  fwd c             a node class that does not exist yet when the annotated class is defined (a later
                    class, or the class itself): `get_type_hints` raises NameError at definition time
                    and evaluates to the class at first use
  newtype t         NewType("..", t)
  union m ms        Union[m, *ms]
  vtuple t          tuple[t, ...]
  coll k args       k[*args]  for k in tuple (fixed length; `tuple[()]` and bare `tuple` have no args),
                    frozenset, Sequence, Mapping, list, dict, set (bare or with arguments)

No Mathlib; everything total and executable (the driver runs `chainOutcome`).
-/
import PyOak.Sexp
namespace PyOak
namespace Annot

inductive Atom where
  | int | str | bool | float | bytes | any | literal | enum
  deriving DecidableEq, Repr, Inhabited

inductive CollKind where
  | tuple | frozenset | sequence | mapping | list | dict | set
  deriving DecidableEq, Repr, Inhabited

/-- `is_mutable_collection`: `issubclass(origin or type, (MutableSequence, MutableMapping, MutableSet))` -/
def CollKind.mutable : CollKind → Bool
  | .list | .dict | .set => true
  | _ => false

inductive Ty where
  | atom (a : Atom)
  | none
  | node (c : Nat)
  | fwd (c : Nat)
  | newtype (t : Ty)
  | union (m : Ty) (ms : List Ty)
  | vtuple (t : Ty)
  | coll (k : CollKind) (args : List Ty)
  deriving Repr, Inhabited

inductive Verdict where
  | child | prop | reject
  deriving DecidableEq, Repr, Inhabited

namespace Ty

/-- `unwrap_newtype`: `while isinstance(type_, NewType): type_ = type_.__supertype__` -/
def unwrap : Ty → Ty
  | .newtype t => unwrap t
  | t => t

/-- `t is type(None)` -/
def isNone : Ty → Bool
  | .none => true
  | _ => false

/-- `issubclass(t, ASTNode)` for a `t` that has been through `unwrap_newtype`: True exactly for node
classes; False for plain classes; TypeError (caught by every caller, counted as "no") for generics,
unions and NewTypes.  Forward references are resolved classes whenever this is evaluated. -/
def isNodeClass : Ty → Bool
  | .node _ => true
  | .fwd _ => true
  | _ => false

mutual
/-- `has_check_type_in_type(type_, ASTNode)`: unwrap NewType, `issubclass` or any argument.
(`unwrap` then recursion on the arguments of the result is the same as recursion through `newtype`.) -/
def hasNode : Ty → Bool
  | .atom _ => false
  | .none => false
  | .node _ => true
  | .fwd _ => true
  | .newtype t => hasNode t
  | .union m ms => hasNode m || hasNodeL ms
  | .vtuple t => hasNode t          -- `Ellipsis` contributes False
  | .coll _ args => hasNodeL args
/-- `any(has_check_type_in_type(t, ..) for t in get_args(type_))` -/
def hasNodeL : List Ty → Bool
  | [] => false
  | t :: r => hasNode t || hasNodeL r
end

/-- one member of a union in `_is_valid_child_field_type`:
`t is type(None)` (skipped) or `issubclass(unwrap_newtype(t), node_base_type)` -/
def unionMemberOk (t : Ty) : Bool := t.isNone || t.unwrap.isNodeClass

mutual
/-- `_is_valid_child_field_type(type_, ASTNode, allow_sequence) == InvalidTypeReason.OK`
(a TypeError escaping to `is_valid_child_field_type` is `OTHER`, i.e. not OK).  Order of the code:
unwrap NewType; Optional inside a sequence; union; tuple (only when sequences are allowed);
mutable collection; `issubclass(type_, node)`. -/
def validChild (allowSeq : Bool) : Ty → Bool
  | .newtype t => validChild allowSeq t
  | .union m ms =>
      if !allowSeq && (m :: ms).any isNone then false        -- OPT_IN_SEQ
      else (m :: ms).all unionMemberOk                        -- else NON_NODE_TYPE
  | .vtuple t => allowSeq && validChild false t               -- not allowed: issubclass(tuple[..]) TypeError
  | .coll .tuple args =>
      allowSeq && (!args.isEmpty && validChildL args)         -- EMPTY_TUPLE / NON_NODE_TYPE
  | .coll _ _ => false                                        -- MUT_SEQ, or issubclass False / TypeError
  | .node _ => true
  | .fwd _ => true
  | .atom _ => false
  | .none => false
/-- `all(_is_valid_child_field_type(t, node, False) == OK for t in args)` -/
def validChildL : List Ty → Bool
  | [] => true
  | t :: r => validChild false t && validChildL r
end

mutual
/-- `is_valid_property_type`: a collection must not be mutable and all its arguments must be valid;
a union: all members; a NewType: the wrapped type; anything else is accepted. -/
def validProp : Ty → Bool
  | .coll k args => !k.mutable && validPropL args
  | .vtuple t => validProp t        -- `Ellipsis` is accepted
  | .union m ms => validProp m && validPropL ms
  | .newtype t => validProp t
  | _ => true
def validPropL : List Ty → Bool
  | [] => true
  | t :: r => validProp t && validPropL r
end

/-- the `if has_check_type_in_type … else …` body shared by `check_annotations` and
`process_node_fields`, for one field type -/
def classifyRaw (t : Ty) : Verdict :=
  if hasNode t then (if validChild true t then .child else .reject)
  else (if validProp t then .prop else .reject)

/-- first use: `get_field_types` unwraps a top-level NewType, then `process_node_fields` classifies -/
def classify (t : Ty) : Verdict := classifyRaw t.unwrap

mutual
/-- does evaluating the annotation need a name that is not bound at class-definition time -/
def hasFwd : Ty → Bool
  | .fwd _ => true
  | .newtype t => hasFwd t
  | .union m ms => hasFwd m || hasFwdL ms
  | .vtuple t => hasFwd t
  | .coll _ args => hasFwdL args
  | _ => false
def hasFwdL : List Ty → Bool
  | [] => false
  | t :: r => hasFwd t || hasFwdL r
end

end Ty

/-! ### classes -/

/-- one annotated dataclass field -/
structure Field where
  name : Str
  ty : Ty
  deriving Repr, Inhabited

/-- the fields a class declares itself -/
abbrev Level := List Field

/-- `dataclasses.fields` of a subclass: an overriding annotation replaces the type in the slot of the
inherited field, a new name is appended -/
def addField (acc : List Field) (f : Field) : List Field :=
  if acc.any (·.name == f.name) then acc.map (fun g => if g.name == f.name then f else g)
  else acc ++ [f]

/-- fields of the most derived class of a chain (base class first) -/
def effective (levels : List Level) : List Field :=
  levels.foldl (fun acc lvl => lvl.foldl addField acc) []

inductive DefOutcome where
  | passed      -- check_annotations returned True
  | skipped     -- NameError: unresolved forward references, nothing checked
  | raised      -- InvalidFieldAnnotations at class definition
  deriving DecidableEq, Repr

/-- `check_annotations(cls, ASTNode)` in `__init_subclass__`: `get_type_hints(cls)` evaluates the
annotations of every class of the MRO (NameError ⇒ return False, nothing checked), then every
(merged) annotation is classified *without* top-level NewType unwrapping -/
def defCheck (levels : List Level) : DefOutcome :=
  if levels.any (fun lvl => lvl.any (fun f => f.ty.hasFwd)) then .skipped
  else if (effective levels).any (fun f => f.ty.classifyRaw == .reject) then .raised
  else .passed

/-- `process_node_fields(cls, ASTNode)` at first use (cached per class by types.py):
`none` = InvalidFieldAnnotations, otherwise the verdict of every field -/
def processNodeFields (levels : List Level) : Option (List (Str × Verdict)) :=
  let vs := (effective levels).map fun f => (f.name, f.ty.classify)
  if vs.any (fun p => p.2 == .reject) then none else some vs

/-- what a user sees of one class: rejected (at definition or at first instantiation), or classified -/
def classOutcome (levels : List Level) : Option (List (Str × Verdict)) :=
  match defCheck levels with
  | .raised => none
  | _ => processNodeFields levels

/-- the classes of a chain in definition order, up to and including the first rejected one
(`done` = the levels of the classes already defined) -/
def chainFrom (done : List Level) : List Level → List (Option (List (Str × Verdict)))
  | [] => []
  | lvl :: rest =>
    match classOutcome (done ++ [lvl]) with
    | none => [none]
    | some vs => some vs :: chainFrom (done ++ [lvl]) rest

def chainOutcome (levels : List Level) : List (Option (List (Str × Verdict))) :=
  chainFrom [] levels

end Annot
end PyOak
