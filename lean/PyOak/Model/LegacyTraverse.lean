/-
Model of the legacy walkers `AwareASTNode.dfs / bfs / gather` and of `calculate_xpath` /
`_set_xpath` (src/pyoak/legacy/node.py), in the *shape of the legacy code*: one build deque that
initially holds the start node itself, the `skip_self` flag that is cleared by the first
iteration, prune / filter callbacks that receive the bare node.  A legacy tree (tuple and list
child fields, optional children) is a rose tree of the shared `Node` universe: tuples and lists
are both collection kids (`coll = true`).
-/
import PyOak.Model.Tree
namespace PyOak

/-- `get_child_nodes()` / `.children`: for every child field in `fields()` order, every stored
node (`_ensure_iterable`: `None` contributes nothing, a single node itself, a list/tuple its
elements) -/
def Node.children (n : Node) : List Node := n.kids.flatMap Kid.nodes

/-- The `while build_queue:` loop of the legacy `dfs`.  `build` has its left end at the head
(`popleft` / `appendleft`), `queue` is the yield deque left to right.  Top-down pushes
`reversed(child.children)` one by one to the left (first child ends leftmost), bottom-up pushes
`get_child_nodes()` one by one to the left (last child ends leftmost). -/
def ldfsLoop (prune filt : Node → Bool) (bottomUp : Bool) :
    Nat → Bool → List Node → List Node → List Node
  | 0, _, _, queue => queue
  | _ + 1, _, [], queue => queue
  | fuel + 1, skipSelf, child :: build, queue =>
    let build' := (if bottomUp then child.children.reverse else child.children) ++ build
    if skipSelf then
      -- `else: skip_self = False`, then walk through the children
      ldfsLoop prune filt bottomUp fuel false build' queue
    else
      let queue' := if filt child then (if bottomUp then child :: queue else queue ++ [child]) else queue
      if prune child then ldfsLoop prune filt bottomUp fuel false build queue'
      else ldfsLoop prune filt bottomUp fuel false build' queue'

/-- `AwareASTNode.dfs(prune, filter, bottom_up, skip_self)` -/
def ldfsImpl (prune filt : Node → Bool) (bottomUp skipSelf : Bool) (n : Node) : List Node :=
  ldfsLoop prune filt bottomUp (n.size + 1) skipSelf [n] []

/-- The `while queue:` loop of the legacy `bfs` (a generator: yields as it goes). -/
def lbfsLoop (prune filt : Node → Bool) : Nat → Bool → List Node → List Node
  | 0, _, _ => []
  | _ + 1, _, [] => []
  | fuel + 1, skipSelf, child :: queue =>
    if skipSelf then lbfsLoop prune filt fuel false (queue ++ child.children)
    else
      let rest := if prune child then lbfsLoop prune filt fuel false queue
                  else lbfsLoop prune filt fuel false (queue ++ child.children)
      if filt child then child :: rest else rest

/-- `AwareASTNode.bfs(prune, filter, skip_self)` -/
def lbfsImpl (prune filt : Node → Bool) (skipSelf : Bool) (n : Node) : List Node :=
  lbfsLoop prune filt (n.size + 1) skipSelf [n]

/-- `AwareASTNode.gather(obj_class, exact_type=, extra_filter=, prune=, skip_self=)` -/
def lgatherImpl (classes : List Str) (exact : Bool) (extra prune : Node → Bool) (skipSelf : Bool)
    (n : Node) : List Node :=
  let f : Node → Bool := fun o =>
    (if exact then classes.contains o.cls else classes.any o.isInst) && extra o
  ldfsImpl prune f false skipSelf n

/-! ### `calculate_xpath` -/

mutual
/-- `_set_xpath(node, parent_xpath)`: the node gets `parent_xpath/@field[index or '0']Class`, then
its children are visited with that text.  (`field` / `index` are the node's own `parent_field` /
`parent_index`, which in an attached tree are its storage position.) -/
def setXpathN (pp : Str) (e : Edge) (n : Node) : List (Node × Str) :=
  match n with
  | .mk h ks =>
    let xp := pp ++ xpathStep e.field e.idx h.cls
    (.mk h ks, xp) :: setXpathKs xp ks
termination_by structural n
def setXpathKs (pp : Str) (ks : List Kid) : List (Node × Str) :=
  match ks with
  | [] => []
  | k :: r => setXpathK pp k ++ setXpathKs pp r
termination_by structural ks
def setXpathK (pp : Str) (k : Kid) : List (Node × Str) :=
  match k with
  | .mk name coll ns => setXpathNs pp name coll 0 ns
termination_by structural k
def setXpathNs (pp : Str) (name : Str) (coll : Bool) (i : Nat) (ns : List Node) : List (Node × Str) :=
  match ns with
  | [] => []
  | n :: r => setXpathN pp ⟨name, if coll then some i else none⟩ n ++ setXpathNs pp name coll (i + 1) r
termination_by structural ns
end

/-- `root.calculate_xpath()` on an attached root: the assignments `node._xpath = text`, one per
position (the root's own assignment listed first; the code performs it last, on a different
object) -/
def calcXpath (root : Node) : List (Node × Str) :=
  let xp := xpathStep ['r','o','o','t'] none root.cls
  (root, xp) :: setXpathKs xp root.kids

end PyOak
