/-
Conservative extension of the registry machine (`PyOak.Model.Registry`; nothing there is changed):
the **serializer** `serOf`, i.e. what `as_dict` records of a node of the machine (id, class, mro,
children in order, recursively), plus the vocabulary needed to speak about serialized trees
(`sids`: the ids that occur in a tree) and about positions of a machine tree (`nodeAt`).

`serOf s n u` takes a fuel `n` (the machine's heap is a list of records, not an inductive tree);
`Covered s n u` says that the fuel is enough: the whole subtree below `u` exists in the heap and
has height `< n`.  With `Covered`, `serOf` never reaches its fuel-0 clause.
-/
import PyOak.Model.Registry
namespace PyOak
namespace RState

def clsOf (s : RState) (u : Nat) : Str := ((s.obj? u).map (·.cls)).getD []
def mroOf (s : RState) (u : Nat) : List Str := ((s.obj? u).map (·.mro)).getD []

/-- `u.as_dict()` restricted to what the registry machine knows of a node -/
def serOf (s : RState) : Nat → Nat → SerTree
  | 0, u => .mk (s.idOf u) (s.clsOf u) (s.mroOf u) []
  | n + 1, u => .mk (s.idOf u) (s.clsOf u) (s.mroOf u) ((s.kidsOf u).map (serOf s n))

/-- the subtree below `u` is in the heap and has height `< n` (fuel adequacy of `serOf`) -/
def Covered (s : RState) : Nat → Nat → Prop
  | 0, _ => False
  | n + 1, u => (s.obj? u).isSome = true ∧ ∀ k ∈ s.kidsOf u, Covered s n k

instance instDecidableCovered (s : RState) : ∀ (n u : Nat), Decidable (Covered s n u)
  | 0, _ => by unfold Covered; infer_instance
  | n + 1, u => by
    unfold Covered
    have : ∀ k, Decidable (Covered s n k) := fun k => instDecidableCovered s n k
    infer_instance

/-- the node at a position (list of child indices, root first) -/
def nodeAt (s : RState) (u : Nat) : List Nat → Option Nat
  | [] => some u
  | i :: p =>
    match (s.kidsOf u)[i]? with
    | none => none
    | some k => nodeAt s k p

end RState

mutual
/-- every id that occurs in a serialized tree (with multiplicity, pre-order) -/
def SerTree.sids : SerTree → List Str
  | .mk sid _ _ kids => sid :: SerTree.sidsL kids
def SerTree.sidsL : List SerTree → List Str
  | [] => []
  | t :: r => SerTree.sids t ++ SerTree.sidsL r
end

mutual
/-- no node of the tree carries the id of one of its proper ancestors.  (The same id at two
positions that are not on one root path is fine: that is a shared node.) -/
def SerTree.AcyclicIds : SerTree → Prop
  | .mk sid _ _ kids => sid ∉ SerTree.sidsL kids ∧ SerTree.AcyclicIdsL kids
def SerTree.AcyclicIdsL : List SerTree → Prop
  | [] => True
  | t :: r => SerTree.AcyclicIds t ∧ SerTree.AcyclicIdsL r
end

mutual
def SerTree.acyclicIds : SerTree → Bool
  | .mk sid _ _ kids => !(SerTree.sidsL kids).contains sid && SerTree.acyclicIdsL kids
def SerTree.acyclicIdsL : List SerTree → Bool
  | [] => true
  | t :: r => SerTree.acyclicIds t && SerTree.acyclicIdsL r
end

end PyOak
