/-
Model of `pyoak.tree.Tree` (src/pyoak/tree.py): the two tables filled from one `dfs()` pass and
every query as coded.  A Python `dict` keyed by node objects is modelled as an association list
keyed by `uid`; this is faithful under the documented precondition of Tree (all nodes
registered, hence ids pairwise distinct, hence `hash`/`==` on distinct objects never
coincide) — that step is in the trusted base and is exercised by the correspondence with
content-identical twins.
-/
import PyOak.Model.Traverse
namespace PyOak

/-- `ParentInfo(parent, field, findex)` -/
structure PInfo where
  parent : Node
  edge : Edge
  deriving Inhabited

/-- `dict.__setitem__`: replace the value of an existing key in place, else append -/
def dictSet {β : Type} (d : List (Nat × β)) (k : Nat) (v : β) : List (Nat × β) :=
  if d.any (·.1 == k) then d.map (fun kv => if kv.1 == k then (k, v) else kv) else d ++ [(k, v)]

def dictGet? {β : Type} (d : List (Nat × β)) (k : Nat) : Option β :=
  (d.find? (·.1 == k)).map (·.2)

structure TreeT where
  root : Node
  pinfo : List (Nat × PInfo)     -- `_node_to_parent_info`
  xpath : List (Nat × Str)       -- `_node_to_xpath`
  deriving Inhabited

inductive TErr where
  | keyError
  | valueError
  deriving DecidableEq, Repr

/-- one step of `get_xpath`: `/@{field}[{findex or '0'}]{Class}` -/
def xpathStep (field : Str) (idx : Option Nat) (cls : Str) : Str :=
  ['/', '@'] ++ field ++ ['['] ++ natStr (idx.getD 0) ++ [']'] ++ cls

/-- `Tree.__init__` -/
def TreeT.build (root : Node) : TreeT :=
  let init : TreeT := { root := root, pinfo := [], xpath := [(root.uid, xpathStep ['r','o','o','t'] none root.cls)] }
  (dfsImpl (fun _ => false) (fun _ => true) false root).foldl
    (fun t it =>
      let px := (dictGet? t.xpath it.parent.uid).getD []   -- parent is always present (dfs order)
      { t with pinfo := dictSet t.pinfo it.node.uid ⟨it.parent, it.edge⟩,
               xpath := dictSet t.xpath it.node.uid (px ++ xpathStep it.edge.field it.edge.idx it.node.cls) })
    init

namespace TreeT

def isRoot (t : TreeT) (n : Node) : Bool := t.root.uid == n.uid

def isInTree (t : TreeT) (n : Node) : Bool := t.xpath.any (·.1 == n.uid)

def getXpath (t : TreeT) (n : Node) : Except TErr Str :=
  match dictGet? t.xpath n.uid with
  | some s => .ok s
  | none => .error .keyError

/-- `get_parent_info` : `(None, None, None)` for the root -/
def getParentInfo (t : TreeT) (n : Node) : Except TErr (Option PInfo) :=
  if t.isRoot n then .ok none
  else match dictGet? t.pinfo n.uid with
    | some p => .ok (some p)
    | none => .error .keyError

def getParent (t : TreeT) (n : Node) : Except TErr (Option Node) :=
  (t.getParentInfo n).map (·.map (·.parent))

/-- `get_ancestors` (a generator: a KeyError of the first lookup surfaces on first `next`).
Fuel bounds the upward walk; `build` never produces a longer chain than `root.size`. -/
def ancestorsAux (t : TreeT) : Nat → Node → Except TErr (List Node)
  | 0, _ => .ok []
  | fuel + 1, n =>
    match t.getParent n with
    | .error e => .error e
    | .ok none => .ok []
    | .ok (some p) =>
      match ancestorsAux t fuel p with
      | .ok r => .ok (p :: r)
      | .error e => .error e

def getAncestors (t : TreeT) (n : Node) : Except TErr (List Node) :=
  ancestorsAux t t.root.size n

def isAncestor (t : TreeT) (n a : Node) : Except TErr Bool :=
  (t.getAncestors n).map (·.any (·.uid == a.uid))

/-- `get_depth(node, relative_to, check_ancestor)` -/
def depthAux (t : TreeT) (rel : Option Node) : Nat → Node → Except TErr Nat
  | 0, _ => .ok 0
  | fuel + 1, n =>
    match t.getParent n with
    | .error e => .error e
    | .ok none => .ok 0
    | .ok (some p) =>
      match rel with
      | some r => if p.uid == r.uid then .ok 1 else (depthAux t rel fuel p).map (· + 1)
      | none => (depthAux t rel fuel p).map (· + 1)

def getDepth (t : TreeT) (n : Node) (rel : Option Node) (check : Bool) : Except TErr Nat :=
  match rel with
  | some r =>
    if check then
      match t.isAncestor n r with
      | .error e => .error e
      | .ok false => .error .valueError
      | .ok true => depthAux t rel t.root.size n
    else depthAux t rel t.root.size n
  | none => depthAux t rel t.root.size n

def firstAncestorOfType (t : TreeT) (n : Node) (classes : List Str) (exact : Bool) :
    Except TErr (Option Node) :=
  (t.getAncestors n).map fun as =>
    as.find? fun a => if exact then classes.contains a.cls else classes.any a.isInst

end TreeT
end PyOak
