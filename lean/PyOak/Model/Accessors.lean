/-
Model of the child / property accessors of `ASTNode` (C12), in the *shape of the implementation*:

* `dictSet` / `resolve`      — how `dataclasses` computes `fields(cls)` for a single-inheritance chain
                               (a `dict` keyed by field name: an override replaces the value *in its slot*,
                               a new name is appended); level 0 is `ASTNode` itself (`id`, `content_id`,
                               `origin`, src/pyoak/node.py:161-194)
* `processNodeFields`        — the loop of `typing.process_node_fields` that splits the fields into child
                               fields and properties (the *classification* of an annotation is C11's subject;
                               here the kind of every field is data)
* `gen…` / `run…`            — src/pyoak/codegen.py: the source text generated for `get_child_nodes`,
                               `get_child_nodes_with_field`, `iter_child_fields`, `get_properties` as a small
                               IR (one statement per field, a sorted and an unsorted branch), and its execution
                               on an instance (`getattr` = lookup by name)
* `getPropertyFields`        — the static skip chain of `ASTNode.get_property_fields` (node.py)
* `children`, `toPropertiesDict`, `getChildFields`
* `World` …                  — the per-class installation of the generated functions: `__init_subclass__`
                               re-points the four accessors of every new class to the bootstrap stubs, a stub
                               generates the function for `type(self)` and `setattr`s it on that class;
                               attribute lookup walks the MRO.

No function here looks at `Nd.truthy` (since /repo 819b908 the generated code tests `is not None`).
-/
import PyOak.Model.Core
namespace PyOak
namespace Acc

inductive FKind where
  | prop
  | childOne      -- `X`, `X | None`, `A | B`, …   (`type_info.is_collection = False`)
  | childTuple    -- `tuple[X, ...]`, `tuple[A, B]` (`type_info.is_collection = True`)
  deriving DecidableEq, Repr, Inhabited

/-- one `dataclasses.Field` as far as the accessors look at it -/
structure FDecl where
  name : Str
  kind : FKind
  compare : Bool
  init : Bool
  kwOnly : Bool      -- carried for completeness: no accessor reads it
  deriving DecidableEq, Repr, Inhabited

def nmId : Str := ['i', 'd']
def nmContentId : Str := ['c', 'o', 'n', 't', 'e', 'n', 't', '_', 'i', 'd']
def nmOrigin : Str := ['o', 'r', 'i', 'g', 'i', 'n']

/-- the fields `ASTNode` itself declares -/
def baseFields : List FDecl :=
  [ ⟨nmId, .prop, false, false, false⟩,
    ⟨nmContentId, .prop, false, false, false⟩,
    ⟨nmOrigin, .prop, true, true, true⟩ ]

/-- `fields[f.name] = f` on an insertion-ordered dict -/
def dictSet : List FDecl → FDecl → List FDecl
  | [], f => [f]
  | g :: r, f => if g.name = f.name then f :: r else g :: dictSet r f

/-- `dataclasses._process_class`: the fields of the bases (base-most first), then the class's own
annotations, all written into one dict -/
def resolve (levels : List (List FDecl)) : List FDecl :=
  levels.foldl (fun acc lvl => lvl.foldl dictSet acc) []

/-- a node class: the field declarations of every user class of the chain, base-most first
(`ASTNode`'s own level is added by `fields`) -/
structure ClassDecl where
  levels : List (List FDecl)
  deriving Repr, Inhabited

/-- `dataclasses.fields(cls)` -/
def ClassDecl.fields (c : ClassDecl) : List FDecl := resolve (baseFields :: c.levels)

/-- `process_node_fields`: one pass, two insertion-ordered dicts `(child_fields, props)` -/
def processNodeFields (fs : List FDecl) : List FDecl × List FDecl :=
  fs.foldl (fun (acc : List FDecl × List FDecl) f =>
    if f.kind = .prop then (acc.1, acc.2 ++ [f]) else (acc.1 ++ [f], acc.2)) ([], [])

/-- `get_cls_child_fields(cls)` = `cls.get_child_fields()` -/
def ClassDecl.childFields (c : ClassDecl) : List FDecl := (processNodeFields c.fields).1
/-- `get_cls_props(cls)` -/
def ClassDecl.props (c : ClassDecl) : List FDecl := (processNodeFields c.fields).2
def getChildFields (c : ClassDecl) : List FDecl := c.childFields

/-! ### instances -/

/-- a child node object: identity and what `bool(node)` returns -/
structure Nd where
  uid : Nat
  truthy : Bool
  deriving DecidableEq, Repr, Inhabited

/-- the value stored in one attribute -/
inductive FVal where
  | prop (tok : Nat)          -- a property value (opaque token)
  | none
  | node (n : Nd)
  | tuple (ns : List Nd)
  deriving DecidableEq, Repr, Inhabited

abbrev Inst := List (Str × FVal)

/-- `getattr(self, name)` -/
def Inst.get (i : Inst) (n : Str) : FVal :=
  match i.find? (fun p => p.1 = n) with
  | some p => p.2
  | none => .none

/-! ### generated code: child accessors -/

/-- one statement of a generated child accessor; `d` is the `Field` bound to `_fld_<name>` -/
inductive CStmt where
  | forEach (d : FDecl)      -- `for i, o in enumerate(self.f): yield o, _fld_f, i`
  | ifNotNone (d : FDecl)    -- `if self.f is not None: yield self.f, _fld_f, None`
  deriving DecidableEq, Repr, Inhabited

/-- `if sort_keys: <sorted> else: <unsorted>`; a class without child fields gets `yield from ()`,
which is the body with two empty branches -/
structure Body (σ : Type) where
  sorted : List σ
  unsorted : List σ
  deriving Repr

def Body.branch {σ : Type} (b : Body σ) (sortKeys : Bool) : List σ :=
  if sortKeys then b.sorted else b.unsorted

/-- `_build_body(f, type_info)` of the two node-yielding generators -/
def buildChild (d : FDecl) : CStmt :=
  if d.kind = .childTuple then .forEach d else .ifNotNone d

/-- `_gen_get_child_nodes_func` and `_gen_get_child_nodes_with_field_func` (same skeleton) -/
def genChildNodes (childFields : List FDecl) : Body CStmt :=
  if childFields.length = 0 then ⟨[], []⟩
  else ⟨(sortByName FDecl.name childFields).map buildChild, childFields.map buildChild⟩

/-- `enumerate(xs)` -/
def enumerate {α : Type} : Nat → List α → List (Nat × α)
  | _, [] => []
  | i, x :: r => (i, x) :: enumerate (i + 1) r

/-- the elements a `for` loop over the attribute visits (a non-tuple is not iterable: instances
are assumed well typed, see `Conforms`) -/
def FVal.iter : FVal → List Nd
  | .tuple ns => ns
  | _ => []

/-- execution of one statement of `get_child_nodes_with_field` -/
def CStmt.runWF (i : Inst) : CStmt → List (Nd × FDecl × Option Nat)
  | .forEach d => (enumerate 0 (i.get d.name).iter).map fun (k, o) => (o, d, some k)
  | .ifNotNone d =>
    match i.get d.name with
    | .node n => [(n, d, none)]
    | _ => []

/-- execution of one statement of `get_child_nodes` -/
def CStmt.runN (i : Inst) : CStmt → List Nd
  | .forEach d => (i.get d.name).iter
  | .ifNotNone d =>
    match i.get d.name with
    | .node n => [n]
    | _ => []

/-- `node.get_child_nodes_with_field(sort_keys)` for `type(node) = c` -/
def getChildNodesWithField (c : ClassDecl) (i : Inst) (sortKeys : Bool) : List (Nd × FDecl × Option Nat) :=
  ((genChildNodes c.childFields).branch sortKeys).flatMap (CStmt.runWF i)

/-- `node.get_child_nodes(sort_keys)` -/
def getChildNodes (c : ClassDecl) (i : Inst) (sortKeys : Bool) : List Nd :=
  ((genChildNodes c.childFields).branch sortKeys).flatMap (CStmt.runN i)

/-- `node.children` = `list(self.get_child_nodes())` -/
def children (c : ClassDecl) (i : Inst) : List Nd := getChildNodes c i false

/-- `_gen_iter_child_fields_func`: one `yield self.f, _fld_f` per child field -/
def genIterChildFields (childFields : List FDecl) : Body FDecl :=
  if childFields.length = 0 then ⟨[], []⟩
  else ⟨sortByName FDecl.name childFields, childFields⟩

/-- `node.iter_child_fields(sort_keys)` -/
def iterChildFields (c : ClassDecl) (i : Inst) (sortKeys : Bool) : List (FVal × FDecl) :=
  ((genIterChildFields c.childFields).branch sortKeys).map fun d => (i.get d.name, d)

/-! ### generated code: `get_properties` -/

structure Flags where
  skipId : Bool
  skipOrigin : Bool
  skipContentId : Bool
  skipNonCompare : Bool
  skipNonInit : Bool
  deriving DecidableEq, Repr, Inhabited

/-- the atoms of the generated guards -/
inductive Cond where
  | notSkipId | notSkipContentId | notSkipOrigin | notSkipNonCompare | notSkipNonInit
  deriving DecidableEq, Repr, Inhabited

def Cond.eval (fl : Flags) : Cond → Bool
  | .notSkipId => !fl.skipId
  | .notSkipContentId => !fl.skipContentId
  | .notSkipOrigin => !fl.skipOrigin
  | .notSkipNonCompare => !fl.skipNonCompare
  | .notSkipNonInit => !fl.skipNonInit

/-- `if c1 and c2 …: yield self.f, _fld_f`  (no condition: a bare `yield`) -/
structure PStmt where
  conds : List Cond
  fld : FDecl
  deriving DecidableEq, Repr, Inhabited

/-- `_gen_get_properties_func._build_body(f)`: the three base fields by *name*, each under its own
flag; any other field under the conjunction of the flags its `compare` / `init` attributes call for -/
def buildProp (d : FDecl) : PStmt :=
  if d.name = nmId then ⟨[.notSkipId], d⟩
  else if d.name = nmContentId then ⟨[.notSkipContentId], d⟩
  else if d.name = nmOrigin then ⟨[.notSkipOrigin], d⟩
  else
    let conds : List Cond := []
    let conds := if !d.compare then conds ++ [.notSkipNonCompare] else conds
    let conds := if !d.init then conds ++ [.notSkipNonInit] else conds
    ⟨conds, d⟩

/-- `_gen_get_properties_func` (never empty: every class has the three base properties) -/
def genGetProperties (props : List FDecl) : Body PStmt :=
  ⟨(sortByName FDecl.name props).map buildProp, props.map buildProp⟩

def PStmt.run (fl : Flags) (i : Inst) (s : PStmt) : List (FVal × FDecl) :=
  if s.conds.all (Cond.eval fl) then [(i.get s.fld.name, s.fld)] else []

/-- `node.get_properties(skip_id, skip_origin, skip_content_id, skip_non_compare, skip_non_init, sort_keys=…)` -/
def getProperties (c : ClassDecl) (i : Inst) (fl : Flags) (sortKeys : Bool) : List (FVal × FDecl) :=
  ((genGetProperties c.props).branch sortKeys).flatMap (PStmt.run fl i)

/-- the defaults of `get_properties` / `get_property_fields` -/
def Flags.default : Flags := ⟨true, true, true, false, false⟩

/-- `d[k] = v` on an insertion-ordered dict -/
def dictPut : List (Str × FVal) → Str → FVal → List (Str × FVal)
  | [], k, v => [(k, v)]
  | e :: r, k, v => if e.1 = k then (k, v) :: r else e :: dictPut r k v

/-- `node.to_properties_dict()`: `d[f.name] = v` for `get_properties()` -/
def toPropertiesDict (c : ClassDecl) (i : Inst) : List (Str × FVal) :=
  (getProperties c i Flags.default false).foldl (fun d (p : FVal × FDecl) => dictPut d p.2.name p.1) []

/-! ### the static variant -/

/-- body of the loop of `ASTNode.get_property_fields`; `false` = `continue` -/
def propertyFieldYielded (fl : Flags) (f : FDecl) : Bool :=
  if f.name = nmId then
    if fl.skipId then false else true
  else if f.name = nmContentId then
    if fl.skipContentId then false else true
  else if f.name = nmOrigin then
    if fl.skipOrigin then false else true
  else
    if !f.compare && fl.skipNonCompare then false
    else if !f.init && fl.skipNonInit then false
    else true

/-- `cls.get_property_fields(flags…)` -/
def getPropertyFields (c : ClassDecl) (fl : Flags) : List FDecl :=
  c.props.filter (propertyFieldYielded fl)

/-! ### installation of the generated functions on the classes

Classes are numbered in creation order; `parent` is the index of the direct base (`none`: the base
is `ASTNode`).  Every accessor has one *slot* per class: empty (the attribute is inherited),
the bootstrap stub, or the function generated for some class. -/

inductive Slot where
  | stub
  | gen (cls : Nat)       -- the function generated from the fields of class `cls`
  deriving DecidableEq, Repr, Inhabited

structure World where
  mros : List (List Nat)           -- class k's MRO below k itself (user node classes, nearest first);
                                   -- one element for single inheritance, several for `class C(A, B)`
  slots : List (Option Slot)       -- class k's own `__dict__` entry for the accessor
  deriving Repr, Inhabited

/-- `class K(bases…): …` → `__init_subclass__` sets the stub on the new class -/
def World.defineClass (w : World) (mro : List Nat) : World :=
  ⟨w.mros ++ [mro], w.slots ++ [some .stub]⟩

/-- attribute lookup along the MRO: the entry of the first class of `k :: mro k` that has one;
reaching `ASTNode` finds the method defined there, which is again a bootstrap stub -/
def World.lookup (w : World) (k : Nat) : Slot :=
  match (k :: (w.mros[k]?).getD []).findSome? (fun c => (w.slots[c]?).join) with
  | some s => s
  | none => .stub

/-- calling the accessor on an instance of class `k`: returns the class whose generated function
finally runs, and the new world (a stub generates for `type(self)` = `k` and installs it on `k`) -/
def World.call (w : World) (k : Nat) : Nat × World :=
  match w.lookup k with
  | .gen c => (c, w)
  | .stub => (k, ⟨w.mros, w.slots.set k (some (.gen k))⟩)

/-! ### variants used only by the `…_fails` witnesses of `Props/C12.lean` -/

/-- class definition without the re-pointing of `__init_subclass__` -/
def World.defineClassNoRepoint (w : World) (mro : List Nat) : World :=
  ⟨w.mros ++ [mro], w.slots ++ [none]⟩

/-- `_build_body` before the repair (F12): `return` after the `compare` test -/
def buildPropPre (d : FDecl) : PStmt :=
  if d.name = nmId then ⟨[.notSkipId], d⟩
  else if d.name = nmContentId then ⟨[.notSkipContentId], d⟩
  else if d.name = nmOrigin then ⟨[.notSkipOrigin], d⟩
  else if !d.compare then ⟨[.notSkipNonCompare], d⟩
  else if !d.init then ⟨[.notSkipNonInit], d⟩
  else ⟨[], d⟩

/-- the skip chain of `get_property_fields` before the repair (F17) -/
def propertyFieldYieldedPre (fl : Flags) (f : FDecl) : Bool :=
  if f.name = nmId && fl.skipId then false
  else if f.name = nmContentId && fl.skipContentId then false
  else if f.name = nmOrigin && fl.skipOrigin then false
  else if !f.compare && fl.skipNonCompare then false
  else if !f.init && fl.skipNonInit then false
  else true

end Acc
end PyOak
