/-
Model of the (de)serialization codec of sources, positions and origins of `pyoak/origin.py`
(the origin half of property C04) and of the process-global *source registry*.

What is modelled, in the shape of the implementation:

* `J`: the JSON-like values `as_dict` produces / `as_obj` consumes (null, bool, int, str, list, *ordered*
  mapping).
* concrete sources (`Source`): `NoSource`, `Source`/`TextSource`, `MemoryTextSource`, `FileSource`/
  `TextFileSource`, `ZippedFileSource`, `SourceSet`, each with its derived `source_uri` / `source_type`,
  its `_raw` payload (`compare=False`: ignored by `==`, never serialized), and `==` (dataclass equality:
  same class, same compared fields).
* the registry `SrcReg` = `Source._sources` / `Source._source_idx_to_source`: the list of registered
  instances in registration order (index = position); `register` is `Source.__post_init__`,
  `NoSource.__post_init__` registers nothing.
* `Source._serialize` (`encSource`): `{}` for `NoSource`, `{"idx": n}` under SOURCE_OPTIMIZED (KeyError when
  the source is not registered), else mashumaro's `to_dict` + `__post_serialize__` (type tag `__type` first,
  `_raw` popped).
* `Source._deserialize` (`decSource`): `{}` / tag `NoSource` ⇒ the singleton; `idx` given ⇒ lookup;
  otherwise dispatch on the tag (default class `Source`), `from_dict` (init fields only; the derived
  `source_uri`/`source_type` of the file / set classes are recomputed), `__post_init__` registers the new
  object if no equal one is registered, and the *registered* equal instance is returned.
* `Source.all_as_dict`, `Source.load_serialized_sources`, `Source.clear_registry`.
* positions (`PosV` of Model/Origin.lean) and origins (`Org`, the concrete-source twin of
  `OriginAlg.Origin`): `NoOrigin`/`NoPosition` ⇒ `{}`; `Origin._deserialize` / `Position._deserialize`
  special cases; tag dispatch through the class table; `GeneratedCodeOrigin.position` and the
  `source` / `position` of a `MultiOrigin` are `init=False`: not read from the dict, recomputed by
  `__post_init__` (`mkMultiC`, which — like the real constructor — registers the derived `SourceSet`).

Outside the model (the decoder answers `Err.unmodelled`): mashumaro's scalar coercions (`5` for a `str`
field), a `_raw` key in the input, a tag naming a class of the wrong family, `MemoryTextSource` without
`source_uri` (the real code invents `id(self)`), non-normalized paths.  Registry side effects of a decode
that *fails* half-way are not reported.

No Mathlib.  Text is `Str = List Char`.
-/
import PyOak.Model.Origin
namespace PyOak.OC
open PyOak.Gen PyOak.OriginAlg

/-! ## JSON-like values -/
inductive J where
  | null
  | bool (b : Bool)
  | int (i : Int)
  | str (s : Str)
  | list (xs : List J)
  | map (kvs : List (Str × J))      -- ordered mapping
  deriving Repr, Inhabited

mutual
def J.beq' : J → J → Bool
  | .null, .null => true
  | .bool a, .bool b => a == b
  | .int a, .int b => a == b
  | .str a, .str b => a == b
  | .list a, .list b => J.beqL a b
  | .map a, .map b => J.beqM a b
  | _, _ => false
def J.beqL : List J → List J → Bool
  | [], [] => true
  | x :: xs, y :: ys => J.beq' x y && J.beqL xs ys
  | _, _ => false
def J.beqM : List (Str × J) → List (Str × J) → Bool
  | [], [] => true
  | (k, x) :: xs, (k', y) :: ys => k == k' && J.beq' x y && J.beqM xs ys
  | _, _ => false
end

mutual
theorem J.beq'_iff : ∀ a b : J, J.beq' a b = true ↔ a = b
  | .null, b => by cases b <;> simp [J.beq']
  | .bool _, b => by cases b <;> simp [J.beq']
  | .int _, b => by cases b <;> simp [J.beq']
  | .str _, b => by cases b <;> simp [J.beq']
  | .list xs, b => by cases b <;> simp [J.beq', J.beqL_iff xs]
  | .map xs, b => by cases b <;> simp [J.beq', J.beqM_iff xs]
theorem J.beqL_iff : ∀ a b : List J, J.beqL a b = true ↔ a = b
  | [], b => by cases b <;> simp [J.beqL]
  | x :: xs, b => by cases b <;> simp [J.beqL, J.beq'_iff x, J.beqL_iff xs]
theorem J.beqM_iff : ∀ a b : List (Str × J), J.beqM a b = true ↔ a = b
  | [], b => by cases b <;> simp [J.beqM]
  | (k, x) :: xs, b => by
    cases b with
    | nil => simp [J.beqM]
    | cons y ys => obtain ⟨k', y⟩ := y; simp [J.beqM, J.beq'_iff x, J.beqM_iff xs, and_assoc]
end
instance : DecidableEq J := fun a b => decidable_of_iff _ (J.beq'_iff a b)

/-- `d.get(k)` -/
def J.get (k : Str) : List (Str × J) → Option J
  | [] => none
  | (k', v) :: r => if k' = k then some v else J.get k r

/-! ## keys and class names, as the library writes them -/
def kType : Str := "__type".toList
def kIdx : Str := "idx".toList
def kRaw : Str := "_raw".toList
def kUri : Str := "source_uri".toList
def kStype : Str := "source_type".toList
def kRel : Str := "relative_path".toList
def kZip : Str := "in_zip_path".toList
def kSources : Str := "sources".toList
def kSource : Str := "source".toList
def kPosition : Str := "position".toList
def kOrigins : Str := "origins".toList
def kPositions : Str := "positions".toList
def kXpath : Str := "xpath".toList
def kStart : Str := "start".toList
def kEnd : Str := "end".toList
def kIndex : Str := "index".toList
def kLine : Str := "line".toList
def kColumn : Str := "column".toList

def cNoSource : Str := "NoSource".toList
def cSource : Str := "Source".toList
def cTextSource : Str := "TextSource".toList
def cMemory : Str := "MemoryTextSource".toList
def cFile : Str := "FileSource".toList
def cTextFile : Str := "TextFileSource".toList
def cZipped : Str := "ZippedFileSource".toList
def cSourceSet : Str := "SourceSet".toList
def cNoPosition : Str := "NoPosition".toList
def cPosition : Str := "Position".toList
def cEntire : Str := "EntireSourcePosition".toList
def cXMLPath : Str := "XMLPath".toList
def cCodePoint : Str := "CodePoint".toList
def cCodeRange : Str := "CodeRange".toList
def cPositionSet : Str := "PositionSet".toList
def cNoOrigin : Str := "NoOrigin".toList
def cOrigin : Str := "Origin".toList
def cCodeOrigin : Str := "CodeOrigin".toList
def cGenerated : Str := "GeneratedCodeOrigin".toList
def cXMLOrigin : Str := "XMLFileOrigin".toList
def cMulti : Str := "MultiOrigin".toList

def tMemory : Str := "<memory>".toList
def tFile : Str := "File".toList
def unsetUri : Str := "UNSET".toList

/-- the names in `serialize.TYPES` after `import pyoak.origin` -/
def knownTypes : List Str :=
  [cNoSource, cSource, cTextSource, cMemory, cFile, cTextFile, cZipped, cSourceSet, cNoPosition, cPosition,
   cEntire, cXMLPath, cCodePoint, cCodeRange, cPositionSet, cNoOrigin, cOrigin, cCodeOrigin, cGenerated,
   cXMLOrigin, cMulti]

/-! ## concrete sources -/
inductive Source where
  | noSource
  | plain (text : Bool) (uri type : Str) (raw : Raw)    -- `Source` / `TextSource`
  | memory (uri : Str) (raw : Raw)                      -- `MemoryTextSource`
  | file (text : Bool) (rel : Str) (raw : Raw)          -- `FileSource` / `TextFileSource` (`rel` = `as_posix()`)
  | zipped (rel zip : Str) (raw : Raw)                  -- `ZippedFileSource`
  | set (ms : List Source)                              -- `SourceSet`
  deriving Repr, Inhabited

mutual
def Source.beq' : Source → Source → Bool
  | .noSource, .noSource => true
  | .plain t u ty r, .plain t' u' ty' r' => t == t' && u == u' && ty == ty' && r == r'
  | .memory u r, .memory u' r' => u == u' && r == r'
  | .file t p r, .file t' p' r' => t == t' && p == p' && r == r'
  | .zipped p z r, .zipped p' z' r' => p == p' && z == z' && r == r'
  | .set a, .set b => Source.beqL a b
  | _, _ => false
def Source.beqL : List Source → List Source → Bool
  | [], [] => true
  | x :: xs, y :: ys => Source.beq' x y && Source.beqL xs ys
  | _, _ => false
end

mutual
theorem Source.beq'_iff : ∀ a b : Source, Source.beq' a b = true ↔ a = b
  | .noSource, b => by cases b <;> simp [Source.beq']
  | .plain .., b => by cases b <;> simp [Source.beq', and_assoc]
  | .memory .., b => by cases b <;> simp [Source.beq']
  | .file .., b => by cases b <;> simp [Source.beq', and_assoc]
  | .zipped .., b => by cases b <;> simp [Source.beq', and_assoc]
  | .set xs, b => by cases b <;> simp [Source.beq', Source.beqL_iff xs]
theorem Source.beqL_iff : ∀ a b : List Source, Source.beqL a b = true ↔ a = b
  | [], b => by cases b <;> simp [Source.beqL]
  | x :: xs, b => by cases b <;> simp [Source.beqL, Source.beq'_iff x, Source.beqL_iff xs]
end
/-- *identity-level* equality of the model (same class, same fields, same `_raw` payload) -/
instance : DecidableEq Source := fun a b => decidable_of_iff _ (Source.beq'_iff a b)

mutual
/-- the object with every `_raw` forgotten: what `==` looks at, and what a freshly deserialized source is -/
def Source.strip : Source → Source
  | .noSource => .noSource
  | .plain t u ty _ => .plain t u ty .none
  | .memory u _ => .memory u .none
  | .file t p _ => .file t p .none
  | .zipped p z _ => .zipped p z .none
  | .set ms => .set (Source.stripL ms)
def Source.stripL : List Source → List Source
  | [] => []
  | x :: r => Source.strip x :: Source.stripL r
end

/-- Python `a == b` on sources: the dataclass `__eq__` (same class, equal compared fields; `_raw` has
`compare=False`; the members of a `SourceSet` are compared with `==` in order) -/
def Source.eqv (a b : Source) : Bool := decide (a.strip = b.strip)
instance : BEq Source := ⟨Source.eqv⟩

mutual
/-- `source.source_uri` (= `fqn`) -/
def Source.uri : Source → Str
  | .noSource => cNoSource
  | .plain _ u _ _ => u
  | .memory u _ => u
  | .file _ p _ => p
  | .zipped p z _ => p ++ uriDelim ++ z
  | .set ms => sourceSetOpen ++ joinSep setsDelim (Source.uriL ms) ++ closeParen
def Source.uriL : List Source → List Str
  | [] => []
  | x :: r => Source.uri x :: Source.uriL r
end

/-- `source.source_type` -/
def Source.stype : Source → Str
  | .noSource => cNoSource
  | .plain _ _ ty _ => ty
  | .memory _ _ => tMemory
  | .file _ _ _ => tFile
  | .zipped _ _ _ => tFile
  | .set _ => cSourceSet

/-- `type(source).__name__` -/
def Source.cls : Source → Str
  | .noSource => cNoSource
  | .plain t _ _ _ => if t then cTextSource else cSource
  | .memory _ _ => cMemory
  | .file t _ _ => if t then cTextFile else cFile
  | .zipped _ _ _ => cZipped
  | .set _ => cSourceSet

def Source.isNo : Source → Bool
  | .noSource => true
  | _ => false

/-! ## the source registry -/

/-- `Source._sources` / `Source._source_idx_to_source`: registered instances, index = position -/
abbrev SrcReg := List Source

/-- the dict lookup `Source._sources[s]` together with `Source._source_idx_to_source[idx]`:
index and *registered instance* of the source equal to `s` -/
def locate : SrcReg → Source → Option (Nat × Source)
  | [], _ => none
  | r :: rs, s => if r == s then some (0, r) else (locate rs s).map fun p => (p.1 + 1, p.2)

def lookup (reg : SrcReg) (s : Source) : Option Source := (locate reg s).map (·.2)
def indexOf (reg : SrcReg) (s : Source) : Option Nat := (locate reg s).map (·.1)

/-- `Source.__post_init__` (`NoSource.__post_init__` does nothing) -/
def register (reg : SrcReg) (s : Source) : SrcReg :=
  if s.isNo then reg else if (locate reg s).isSome then reg else reg ++ [s]

/-- `Source.clear_registry()` -/
def clearRegistry : SrcReg := []

/-- `Source._source_idx_to_source.get(idx)` for a Python int -/
def byIdx (reg : SrcReg) (i : Int) : Option Source :=
  if i < 0 then none else reg[i.toNat]?

inductive Err where
  | value          -- ValueError (incl. mashumaro's InvalidFieldValue)
  | missing        -- mashumaro MissingField
  | key            -- KeyError
  | unmodelled     -- outside the model
  deriving DecidableEq, Repr, Inhabited

instance {α : Type} [DecidableEq α] : DecidableEq (Except Err α) := fun a b =>
  match a, b with
  | .ok x, .ok y => if h : x = y then isTrue (by rw [h]) else isFalse (by intro e; cases e; exact h rfl)
  | .error x, .error y => if h : x = y then isTrue (by rw [h]) else isFalse (by intro e; cases e; exact h rfl)
  | .ok _, .error _ => isFalse (by intro e; cases e)
  | .error _, .ok _ => isFalse (by intro e; cases e)

/-- mashumaro wraps whatever the deserializer of a *field* raises (a `MissingField` of a nested dict, …)
into `InvalidFieldValue`, a `ValueError` -/
def nested {α : Type} : Except Err α → Except Err α
  | .error .missing => .error .value
  | .error .key => .error .value
  | x => x

/-! ## serialization of sources -/

/-- `DataClassSerializeMixin.__post_serialize__` without options: the type tag first, then the fields -/
def typed (cls : Str) (fields : List (Str × J)) : J := .map ((kType, .str cls) :: fields)

mutual
/-- `DataClassSerializeMixin._serialize` of a source (`to_dict` + `__post_serialize__`, `_raw` popped);
`NoSource._serialize` returns `{}` -/
def encSourceFull : Source → J
  | .noSource => .map []
  | .plain t u ty r =>
      typed (Source.cls (.plain t u ty r)) [(kUri, .str u), (kStype, .str ty)]
  | .memory u _ => typed cMemory [(kUri, .str u), (kStype, .str tMemory)]
  | .file t p r => typed (Source.cls (.file t p r)) [(kUri, .str p), (kStype, .str tFile), (kRel, .str p)]
  | .zipped p z _ =>
      typed cZipped [(kUri, .str (p ++ uriDelim ++ z)), (kStype, .str tFile), (kRel, .str p), (kZip, .str z)]
  | .set ms =>
      typed cSourceSet [(kUri, .str (Source.uri (.set ms))), (kStype, .str cSourceSet),
                        (kSources, .list (encSourceFullL ms))]
def encSourceFullL : List Source → List J
  | [] => []
  | x :: r => encSourceFull x :: encSourceFullL r
end

/-- `Source._serialize` under the current options -/
def encSource (optimized : Bool) (reg : SrcReg) (s : Source) : Except Err J :=
  if s.isNo then .ok (.map [])
  else if optimized then
    match indexOf reg s with
    | some i => .ok (.map [(kIdx, .int i)])
    | none => .error .key
  else .ok (encSourceFull s)

/-- `Source.all_as_dict()` -/
def allAsDict (reg : SrcReg) : List J := reg.map encSourceFull

/-! ## deserialization of sources -/

def getStr (k : Str) (m : List (Str × J)) : Except Err Str :=
  match J.get k m with
  | some (.str s) => .ok s
  | some _ => .error .unmodelled
  | none => .error .missing

def getInt (k : Str) (m : List (Str × J)) : Except Err Int :=
  match J.get k m with
  | some (.int i) => .ok i
  | some _ => .error .unmodelled
  | none => .error .missing

/-- the tag test shared by the three `_deserialize` overrides:
`value == {} or (TYPE_KEY in value and value[TYPE_KEY] == name)` -/
def isSingleton (name : Str) (m : List (Str × J)) : Bool :=
  m.isEmpty || J.get kType m == some (.str name)

/-- `class_name = value.get(TYPE_KEY)`; `clazz = TYPES.get(class_name) if isinstance(class_name, str) else cls` -/
def className (dflt : Str) (m : List (Str × J)) : Str :=
  match J.get kType m with
  | some (.str c) => c
  | _ => dflt

/-- the tail of `Source._deserialize` after construction: `__post_init__` has registered the object if it
was new; `idx = obj.source_registry_id; ret = Source._source_idx_to_source.get(idx)` -/
def finish (reg : SrcReg) (s : Source) : SrcReg × Source :=
  let reg' := register reg s
  (reg', (lookup reg' s).getD s)

mutual
/-- `Source._deserialize` (as called by `Source.as_obj` and for every field of type `Source`) -/
def decSource (reg : SrcReg) : J → Except Err (SrcReg × Source)
  | .map m =>
    if isSingleton cNoSource m then .ok (reg, .noSource)
    else
      let byIndex (i : Int) : Except Err (SrcReg × Source) :=
        match byIdx reg i with
        | some r => .ok (reg, r)
        | none => .error .value
      match J.get kIdx m with
      | some (.int i) => byIndex i
      | some (.bool b) => byIndex (if b then 1 else 0)     -- `isinstance(True, int)`
      | some .null | none =>
        if (J.get kRaw m).isSome then .error .unmodelled else
        let c := className cSource m
        if c = cSource ∨ c = cTextSource then do
          let u ← getStr kUri m
          let ty ← getStr kStype m
          pure (finish reg (.plain (c = cTextSource) u ty .none))
        else if c = cMemory then do
          match J.get kUri m with
          | some (.str u) => if u = unsetUri then .error .unmodelled else pure (finish reg (.memory u .none))
          | _ => .error .unmodelled
        else if c = cFile ∨ c = cTextFile then do
          let p ← getStr kRel m
          pure (finish reg (.file (c = cTextFile) p .none))
        else if c = cZipped then do
          let p ← getStr kRel m
          let z ← getStr kZip m
          pure (finish reg (.zipped p z .none))
        else if c = cSourceSet then do
          let (reg1, ms) ← decSourcesIn reg m
          pure (finish reg1 (.set ms))
        else if knownTypes.contains c then .error .unmodelled
        else .error .value                                  -- "Unknown class name"
      | some _ => .error .value                             -- "Invalid value of idx"
  | _ => .error .unmodelled
/-- the `sources` field of a `SourceSet` dict: every member goes through `Source._deserialize`, in order -/
def decSourcesIn (reg : SrcReg) : List (Str × J) → Except Err (SrcReg × List Source)
  | [] => .error .missing
  | (k, v) :: rest =>
    if k = kSources then
      match v with
      | .list xs => nested (decSourceL reg xs)
      | _ => .error .unmodelled
    else decSourcesIn reg rest
def decSourceL (reg : SrcReg) : List J → Except Err (SrcReg × List Source)
  | [] => .ok (reg, [])
  | x :: r => do
    let (reg1, s) ← decSource reg x
    let (reg2, ss) ← decSourceL reg1 r
    pure (reg2, s :: ss)
end

/-- `Source.load_serialized_sources(sources)` -/
def loadSerializedSources (reg : SrcReg) : List J → Except Err SrcReg
  | [] => .ok reg
  | j :: r => do
    let (reg1, _) ← decSource reg j
    loadSerializedSources reg1 r

/-! ## positions -/

mutual
def posBeq : PosV → PosV → Bool
  | .noPos, .noPos => true
  | .entire, .entire => true
  | .xml a, .xml b => a == b
  | .code a, .code b => a == b
  | .set a, .set b => posBeqL a b
  | _, _ => false
def posBeqL : List PosV → List PosV → Bool
  | [], [] => true
  | x :: xs, y :: ys => posBeq x y && posBeqL xs ys
  | _, _ => false
end
mutual
theorem posBeq_iff : ∀ a b : PosV, posBeq a b = true ↔ a = b
  | .noPos, b => by cases b <;> simp [posBeq]
  | .entire, b => by cases b <;> simp [posBeq]
  | .xml _, b => by cases b <;> simp [posBeq]
  | .code _, b => by cases b <;> simp [posBeq]
  | .set xs, b => by cases b <;> simp [posBeq, posBeqL_iff xs]
theorem posBeqL_iff : ∀ a b : List PosV, posBeqL a b = true ↔ a = b
  | [], b => by cases b <;> simp [posBeqL]
  | x :: xs, b => by cases b <;> simp [posBeqL, posBeq_iff x, posBeqL_iff xs]
end
instance : DecidableEq PosV := fun a b => decidable_of_iff _ (posBeq_iff a b)

def encPoint (p : CodePoint) : J :=
  typed cCodePoint [(kIndex, .int p.index), (kLine, .int p.line), (kColumn, .int p.column)]

mutual
def encPosition : PosV → J
  | .noPos => .map []
  | .entire => typed cEntire []
  | .xml p => typed cXMLPath [(kXpath, .str p)]
  | .code r => typed cCodeRange [(kStart, encPoint r.start), (kEnd, encPoint r.end_)]
  | .set ps => typed cPositionSet [(kPositions, .list (encPositionL ps))]
def encPositionL : List PosV → List J
  | [] => []
  | x :: r => encPosition x :: encPositionL r
end

/-- `CodePoint._deserialize` + `CodePoint.__post_init__` -/
def decPoint : J → Except Err CodePoint
  | .map m =>
    let c := className cCodePoint m
    if c = cCodePoint then do
      let i ← getInt kIndex m
      let l ← getInt kLine m
      let col ← getInt kColumn m
      let p : CodePoint := { index := i, line := l, column := col }
      if p.valid then pure p else .error .value
    else if knownTypes.contains c then .error .unmodelled
    else .error .value
  | _ => .error .unmodelled

def getField (k : Str) (m : List (Str × J)) : Except Err J :=
  match J.get k m with
  | some v => .ok v
  | none => .error .missing

mutual
/-- `Position._deserialize`, called on class `dflt` (the annotated type of the field) -/
def decPosition (dflt : Str) : J → Except Err PosV
  | .map m =>
    if isSingleton cNoPosition m then .ok .noPos
    else
      let c := className dflt m
      if c = cEntire then .ok .entire
      else if c = cXMLPath then do
        let p ← getStr kXpath m
        pure (.xml p)
      else if c = cCodeRange then do
        let s ← getField kStart m
        let s ← nested (decPoint s)
        let e ← getField kEnd m
        let e ← nested (decPoint e)
        let r : CodeRange := { start := s, end_ := e }
        if r.valid then pure (.code r) else .error .value
      else if c = cPositionSet then do
        let ps ← decPositionsIn m
        pure (.set ps)
      else if knownTypes.contains c then .error .unmodelled    -- incl. the abstract `Position` (TypeError)
      else .error .value
  | _ => .error .unmodelled
def decPositionsIn : List (Str × J) → Except Err (List PosV)
  | [] => .error .missing
  | (k, v) :: rest =>
    if k = kPositions then
      match v with
      | .list xs => nested (decPositionL xs)
      | _ => .error .unmodelled
    else decPositionsIn rest
def decPositionL : List J → Except Err (List PosV)
  | [] => .ok []
  | x :: r => do
    let p ← decPosition cPosition x
    let ps ← decPositionL r
    pure (p :: ps)
end

/-! ## origins -/

/-- origins over concrete sources; the twin of `OriginAlg.Origin` -/
inductive Org where
  | none
  | code (gen : Bool) (src : Source) (r : CodeRange)
  | other (k : OKind) (src : Source) (pos : PosV)
  | multi (src : Source) (pos : PosV) (os : List Org)
  deriving Repr, Inhabited

mutual
def Org.beq' : Org → Org → Bool
  | .none, .none => true
  | .code g s r, .code g' s' r' => g == g' && decide (s = s') && r == r'
  | .other k s p, .other k' s' p' => k == k' && decide (s = s') && decide (p = p')
  | .multi s p os, .multi s' p' os' => decide (s = s') && decide (p = p') && Org.beqL os os'
  | _, _ => false
def Org.beqL : List Org → List Org → Bool
  | [], [] => true
  | x :: xs, y :: ys => Org.beq' x y && Org.beqL xs ys
  | _, _ => false
end
mutual
theorem Org.beq'_iff : ∀ a b : Org, Org.beq' a b = true ↔ a = b
  | .none, b => by cases b <;> simp [Org.beq']
  | .code .., b => by cases b <;> simp [Org.beq', and_assoc]
  | .other .., b => by cases b <;> simp [Org.beq', and_assoc]
  | .multi _ _ xs, b => by cases b <;> simp [Org.beq', Org.beqL_iff xs, and_assoc]
theorem Org.beqL_iff : ∀ a b : List Org, Org.beqL a b = true ↔ a = b
  | [], b => by cases b <;> simp [Org.beqL]
  | x :: xs, b => by cases b <;> simp [Org.beqL, Org.beq'_iff x, Org.beqL_iff xs]
end
/-- identity-level equality of origins (sources compared with their `_raw`) -/
instance : DecidableEq Org := fun a b => decidable_of_iff _ (Org.beq'_iff a b)

namespace Org
def source : Org → Source
  | .none => .noSource
  | .code _ s _ => s
  | .other _ s _ => s
  | .multi s _ _ => s
def position : Org → PosV
  | .none => .noPos
  | .code _ _ r => .code r
  | .other _ _ p => p
  | .multi _ p _ => p
def cls : Org → Str
  | .none => cNoOrigin
  | .code g _ _ => if g then cGenerated else cCodeOrigin
  | .other .xml _ _ => cXMLOrigin
  | .other .base _ _ => cOrigin
  | .multi _ _ _ => cMulti
end Org

/-- the `source` that `MultiOrigin.__post_init__` derives from the members' sources -/
def deriveSrc : List Source → Source
  | [] => .noSource
  | s0 :: rest => if rest.all (fun s => s == s0) then s0 else .set (s0 :: rest)

/-- does `MultiOrigin.__post_init__` construct a `SourceSet` (which registers itself)? -/
def derivesSet : List Source → Bool
  | [] => false
  | s0 :: rest => !rest.all (fun s => s == s0)

/-- `MultiOrigin(origins=os)`: `__post_init__`, with its effect on the source registry -/
def mkMultiC (reg : SrcReg) (os : List Org) : Except Err (SrcReg × Org) :=
  if os.length < 2 then .error .value
  else
    let ss := os.map Org.source
    let reg' := if derivesSet ss then register reg (.set ss) else reg
    .ok (reg', .multi (deriveSrc ss) (.set (os.map Org.position)) os)

mutual
/-- `Origin._serialize` (mashumaro `to_dict` + `__post_serialize__`; `NoOrigin._serialize` is `{}`) -/
def encOrigin (optimized : Bool) (reg : SrcReg) : Org → Except Err J
  | .none => .ok (.map [])
  | .code g s r => do
    let sj ← encSource optimized reg s
    pure (typed (Org.cls (.code g s r)) [(kSource, sj), (kPosition, encPosition (.code r))])
  | .other k s p => do
    let sj ← encSource optimized reg s
    pure (typed (Org.cls (.other k s p)) [(kSource, sj), (kPosition, encPosition p)])
  | .multi s p os => do
    -- the field is typed `SourceSet | Source`: mashumaro's Union packer swallows the KeyError of
    -- `Source._serialize` and raises InvalidFieldValue (a ValueError)
    let sj ← nested (encSource optimized reg s)
    let oj ← encOriginL optimized reg os
    pure (typed cMulti [(kSource, sj), (kPosition, encPosition p), (kOrigins, .list oj)])
def encOriginL (optimized : Bool) (reg : SrcReg) : List Org → Except Err (List J)
  | [] => .ok []
  | x :: r => do
    let j ← encOrigin optimized reg x
    let js ← encOriginL optimized reg r
    pure (j :: js)
end

/-- the `source` and `position` fields of a single origin dict (`from_dict` reads the fields in order) -/
def decSrcPos (reg : SrcReg) (posDflt : Str) (m : List (Str × J)) : Except Err (SrcReg × Source × PosV) := do
  let sj ← getField kSource m
  let (reg1, s) ← nested (decSource reg sj)
  let pj ← getField kPosition m
  let p ← nested (decPosition posDflt pj)
  pure (reg1, s, p)

mutual
/-- `Origin._deserialize` -/
def decOrigin (reg : SrcReg) : J → Except Err (SrcReg × Org)
  | .map m =>
    if isSingleton cNoOrigin m then .ok (reg, .none)
    else
      let c := className cOrigin m
      if c = cOrigin then do
        let (reg1, s, p) ← decSrcPos reg cPosition m
        pure (reg1, .other .base s p)
      else if c = cXMLOrigin then do
        let (reg1, s, p) ← decSrcPos reg cXMLPath m
        pure (reg1, .other .xml s p)
      else if c = cCodeOrigin then do
        let (reg1, s, p) ← decSrcPos reg cCodeRange m
        match p with
        | .code r => pure (reg1, .code false s r)
        | _ => .error .unmodelled                   -- the real code builds a CodeOrigin with that position
      else if c = cGenerated then do
        -- `position` has init=False: not read, always EMPTY_CODE_RANGE
        let sj ← getField kSource m
        let (reg1, s) ← nested (decSource reg sj)
        pure (reg1, .code true s EMPTY_CODE_RANGE)
      else if c = cMulti then do
        -- `source` / `position` have init=False: not read, recomputed
        let (reg1, os) ← decOriginsIn reg m
        mkMultiC reg1 os
      else if knownTypes.contains c then .error .unmodelled
      else .error .value
  | _ => .error .unmodelled
def decOriginsIn (reg : SrcReg) : List (Str × J) → Except Err (SrcReg × List Org)
  | [] => .error .missing
  | (k, v) :: rest =>
    if k = kOrigins then
      match v with
      | .list xs => nested (decOriginL reg xs)
      | _ => .error .unmodelled
    else decOriginsIn reg rest
def decOriginL (reg : SrcReg) : List J → Except Err (SrcReg × List Org)
  | [] => .ok (reg, [])
  | x :: r => do
    let (reg1, o) ← decOrigin reg x
    let (reg2, os) ← decOriginL reg1 r
    pure (reg2, o :: os)
end

end PyOak.OC
