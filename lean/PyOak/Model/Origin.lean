/-
Model of the origin algebra of `pyoak/origin.py` (property C15).

The *pure kernels* (CodePoint / CodeRange comparisons, validity, hull, and the same-source /
overlap decision of `CodeOrigin.__add__`) are NOT written here: they are generated from the
Python source by `harness/py2lean.py` into `PyOak/Gen/Origin.lean` on every run.  This file
models by hand, in the shape of the implementation, what is around them:

* sources (`Source`, `SourceSet`) and positions (`NoPosition`, `EntireSourcePosition`, `XMLPath`,
  `CodeRange`, `PositionSet`) with their `fqn`, and `==` on sources (a leaf source is identified by the
  key of its `==`-class, a `SourceSet` compares member-wise);
* origins: `NoOrigin`, `CodeOrigin`/`GeneratedCodeOrigin`, the other single origins (`XMLFileOrigin`, a
  plain `Origin`), and `MultiOrigin` whose `source`/`position` are *computed at construction* exactly as
  `MultiOrigin.__post_init__` does (common source, else a `SourceSet` in operand order; `PositionSet`);
* `merge_origins` (the loop that skips `NoOrigin`, splices the members of a `MultiOrigin`, appends the rest),
  `Origin.__add__`, `CodeOrigin.__add__` (dispatch around the generated decision), `concat_origins`
  (left fold with `+`), `Origin.fqn`, `CodeOrigin.get_raw` (the slice).

No Mathlib.  Text is `Str = List Char`.
-/
import PyOak.Sexp
import PyOak.Gen.Origin
namespace PyOak.OriginAlg
open PyOak.Gen

/-- what `source.get_raw()` returns: `None`, a `str`, or something that is not a `str` -/
inductive Raw where
  | none
  | text (s : Str)
  | other
  deriving DecidableEq, Repr, Inhabited

/-- a single (non-set) source; `key` names its `==`-class -/
structure Src where
  key : Nat
  fqn : Str
  raw : Raw
  deriving Repr, Inhabited

/-- `NO_SOURCE` (key 0 is reserved for it) -/
def noSrc : Src := { key := 0, fqn := ['N', 'o', 'S', 'o', 'u', 'r', 'c', 'e'], raw := .none }

inductive SrcV where
  | one (s : Src)
  | set (ms : List SrcV)
  deriving Repr, Inhabited

mutual
/-- `a == b` on sources (dataclass equality: same class, same compared fields) -/
def SrcV.beq : SrcV → SrcV → Bool
  | .one a, .one b => a.key == b.key
  | .set xs, .set ys => SrcV.beqList xs ys
  | _, _ => false
def SrcV.beqList : List SrcV → List SrcV → Bool
  | [], [] => true
  | x :: xs, y :: ys => SrcV.beq x y && SrcV.beqList xs ys
  | _, _ => false
end
instance : BEq SrcV := ⟨SrcV.beq⟩

/-- `sep.join(xs)` -/
def joinSep (sep : Str) : List Str → Str
  | [] => []
  | [x] => x
  | x :: y :: r => x ++ sep ++ joinSep sep (y :: r)

/-- `SETS_DELIM = "||"`, `URI_DELIM = "::"` and the fixed texts of the fqn properties (as character lists) -/
def setsDelim : Str := ['|', '|']
def uriDelim : Str := [':', ':']
def sourceSetOpen : Str := ['S', 'o', 'u', 'r', 'c', 'e', 'S', 'e', 't', '(']
def positionSetOpen : Str := ['P', 'o', 's', 'i', 't', 'i', 'o', 'n', 'S', 'e', 't', '(']
def closeParen : Str := [')']
def noPositionName : Str := ['N', 'o', 'P', 'o', 's', 'i', 't', 'i', 'o', 'n']
def entireName : Str := ['(', 'e', 'n', 't', 'i', 'r', 'e', ' ', 's', 'o', 'u', 'r', 'c', 'e', ')']
def noOriginName : Str := ['N', 'o', 'O', 'r', 'i', 'g', 'i', 'n']
def dash : Str := ['-']

mutual
def SrcV.fqn : SrcV → Str
  | .one s => s.fqn
  | .set ms => sourceSetOpen ++ joinSep setsDelim (SrcV.fqnList ms) ++ closeParen
def SrcV.fqnList : List SrcV → List Str
  | [] => []
  | x :: r => SrcV.fqn x :: SrcV.fqnList r
end

/-- `str(i)` for a Python int -/
def intStr (i : Int) : Str := (toString i).toList

inductive PosV where
  | noPos
  | entire
  | xml (path : Str)
  | code (r : CodeRange)
  | set (ps : List PosV)
  deriving Repr, Inhabited

mutual
def PosV.fqn : PosV → Str
  | .noPos => noPositionName
  | .entire => entireName
  | .xml p => p
  | .code r => intStr r.start.index ++ dash ++ intStr r.end_.index
  | .set ps => positionSetOpen ++ joinSep setsDelim (PosV.fqnList ps) ++ closeParen
def PosV.fqnList : List PosV → List Str
  | [] => []
  | x :: r => PosV.fqn x :: PosV.fqnList r
end

/-- class of a single origin that is not a code origin -/
inductive OKind where
  | xml      -- XMLFileOrigin
  | base     -- a plain `Origin(source, position)`
  deriving DecidableEq, Repr, Inhabited

inductive Origin where
  | none                                                   -- NoOrigin
  | code (gen : Bool) (src : SrcV) (r : CodeRange)         -- CodeOrigin / GeneratedCodeOrigin (isinstance CodeOrigin)
  | other (k : OKind) (src : SrcV) (pos : PosV)
  | multi (src : SrcV) (pos : PosV) (os : List Origin)     -- MultiOrigin; src/pos as set by __post_init__
  deriving Repr, Inhabited

namespace Origin
def source : Origin → SrcV
  | .none => .one noSrc
  | .code _ s _ => s
  | .other _ s _ => s
  | .multi s _ _ => s
def position : Origin → PosV
  | .none => .noPos
  | .code _ _ r => .code r
  | .other _ _ p => p
  | .multi _ p _ => p
def isNone : Origin → Bool
  | .none => true
  | _ => false
def isMulti : Origin → Bool
  | .multi _ _ _ => true
  | _ => false
/-- a single, non-empty origin -/
def isLeaf (o : Origin) : Bool := !o.isNone && !o.isMulti
/-- `origin.fqn` -/
def fqn : Origin → Str
  | .none => noOriginName
  | o => o.source.fqn ++ uriDelim ++ o.position.fqn
end Origin

inductive Err where
  | valueError
  deriving DecidableEq, Repr, Inhabited

/-- `MultiOrigin(origins=os)`: `__post_init__` -/
def mkMulti (os : List Origin) : Except Err Origin :=
  match os with
  | [] => .error .valueError
  | [_] => .error .valueError
  | o0 :: rest =>
    let src := if rest.all (fun o => o.source == o0.source) then o0.source
               else SrcV.set ((o0 :: rest).map Origin.source)
    .ok (.multi src (.set ((o0 :: rest).map Origin.position)) (o0 :: rest))

/-- one step of the loop of `merge_origins` -/
def mergeStep (acc : List Origin) (o : Origin) : List Origin :=
  match o with
  | .none => acc
  | .multi _ _ os => acc ++ os
  | o => acc ++ [o]

/-- the tail of `merge_origins`: NoOrigin / the single one / a MultiOrigin -/
def pack (xs : List Origin) : Except Err Origin :=
  match xs with
  | [] => .ok .none
  | [x] => .ok x
  | xs => mkMulti xs

/-- `merge_origins(*os)` -/
def merge (os : List Origin) : Except Err Origin :=
  match os with
  | [o] => .ok o
  | os => pack (os.foldl mergeStep [])

/-- `a + b`: `type(a).__add__` — `CodeOrigin.__add__` for (generated) code origins, `Origin.__add__` otherwise.
The decision and the merged origin come from the generated `Gen.CodeOrigin.add`; the `CodeRange(..)`
constructor inside `CodeRange.__add__` validates its result. -/
def add (a b : Origin) : Except Err Origin :=
  match a, b with
  | .code _ sa ra, .code _ sb rb =>
    match Gen.CodeOrigin.add ⟨sa, ra⟩ ⟨sb, rb⟩ with
    | some c => if c.position.valid then .ok (.code false c.source c.position) else .error .valueError
    | none => merge [a, b]
  | a, b => merge [a, b]

/-- `concat_origins(o, *os)`: `new_origin += origin` in a loop -/
def concat (o : Origin) (os : List Origin) : Except Err Origin :=
  os.foldl (fun acc b => acc.bind (fun a => add a b)) (.ok o)

/-- Python `s[lo:hi]` for `0 ≤ lo`, `0 ≤ hi` -/
def slice (s : Str) (lo hi : Int) : Str := (s.drop lo.toNat).take (hi.toNat - lo.toNat)

/-- `get_raw()` of a single origin -/
def getRaw : Origin → Option Str
  | .code false (.one s) r =>
    match s.raw with
    | .text t => some (slice t r.start.index r.end_.index)
    | _ => Option.none
  | _ => Option.none

/-- `CodePoint(i, l, c)` -/
def mkPoint (i l c : Int) : Except Err CodePoint :=
  let p : CodePoint := { index := i, line := l, column := c }
  if p.valid then .ok p else .error .valueError

/-- `CodeRange(start, end)` -/
def mkRange (s e : CodePoint) : Except Err CodeRange :=
  let r : CodeRange := { start := s, end_ := e }
  if r.valid then .ok r else .error .valueError

/-- `a + b` on ranges, with the validation done by the constructor call inside `__add__` -/
def rangeAdd (a b : CodeRange) : Except Err CodeRange :=
  let r := CodeRange.add a b
  if r.valid then .ok r else .error .valueError

end PyOak.OriginAlg
