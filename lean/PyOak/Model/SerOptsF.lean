/-
Conservative EXTENSION of Model/SerOpts.lean (nothing there is changed): the `try … finally` of
`DataClassSerializeMixin.as_dict` / `as_obj` (src/pyoak/serialize.py:166-177, 200-211) made explicit.

In Model/SerOpts.lean `call` returns the literal default state `{}` in both arms, so "the options
apply to nothing afterwards" holds of `call` by definition, and the calibration mutants (no
`finally`; no reset on the deserialization path) cannot be expressed.  Here the two class-level
slots `G` are THREADED through the body:

  * `M α := G → G × Except Unit α` — a computation that reads and may write the globals and may
    raise; the first component is the state AT THE EXIT POINT (normal return or raise).
  * `serObjM hook` / `deserM hook` — the same recursion as `serObj` / `deser`, but every nested
    `_serialize` / `__post_serialize__` / `__pre_deserialize__` reads the globals *at the moment it
    runs*, and an arbitrary piece of user code `hook : SObj → M Unit` (resp. `DJ`-hook) runs at every
    nested object: it may write the globals (e.g. a nested `as_dict` in a user `__post_serialize__`,
    whose own `finally` resets them) and may raise — "a body that may raise at any nested position".
  * `tryFin body fin` (try … finally) — runs `fin` on the state the body left, on BOTH exits.
  * `callF hook` — `enter`; `try: body finally: reset`.
  * `callNoFinally`, `callNoResetDeser` — the two calibration mutants, for the `_fails` theorems.

With the trivial hook (nothing writes, nothing extra raises) `callF` is `call` (Props/C16Finally.lean).
No Mathlib.
-/
import PyOak.Model.SerOpts
namespace PyOak
namespace SerOpts

/-- computations over the two global slots: state at the exit point, and the outcome -/
abbrev M (α : Type) := G → G × Except Unit α

def M.pure {α : Type} (a : α) : M α := fun g => (g, .ok a)
def M.raise {α : Type} : M α := fun g => (g, .error ())
/-- assignment to the class attributes -/
def M.write (g' : G) : M Unit := fun _ => (g', .ok ())

/-- `try: body  finally: fin` — `fin` runs on the state the body left behind, whether the body
returned or raised; the outcome is the body's (an exception raised by `fin` itself would replace it) -/
def tryFin {α : Type} (body : M α) (fin : M Unit) : M α := fun g =>
  match body g with
  | (g1, r) =>
    match fin g1 with
    | (g2, .ok _) => (g2, r)
    | (g2, .error e) => (g2, .error e)

/-- the `finally:` block: `__serialization_options = {}; __mashumaro_dialect = None` -/
def resetM : M Unit := M.write {}

/-- user code that runs at every nested object -/
abbrev Hook := SObj → M Unit
abbrev DHook := DJ → M Unit
/-- the library's own behaviour: nothing writes the globals while a call is in progress -/
def noHook : Hook := fun _ => M.pure ()
def noDHook : DHook := fun _ => M.pure ()

mutual
def serValM (hook : Hook) : SVal → M J
  | .atom d c => fun g => (g, .ok (if g.customOn then c.toJ else d.toJ))
  | .seq xs => fun g => match serValsM hook xs g with
    | (g1, .ok js) => (g1, .ok (.arr js))
    | (g1, .error e) => (g1, .error e)
  | .obj o => serObjM hook o
  | .bomb => M.raise
def serValsM (hook : Hook) : List SVal → M (List J)
  | [] => M.pure []
  | x :: r => fun g => match serValM hook x g with
    | (g1, .error e) => (g1, .error e)
    | (g1, .ok j) => match serValsM hook r g1 with
      | (g2, .error e) => (g2, .error e)
      | (g2, .ok js) => (g2, .ok (j :: js))
/-- `obj._serialize()`: the hook, then the fields, then `__post_serialize__` — which reads the
options as they are AFTER the fields were written -/
def serObjM (hook : Hook) : SObj → M J
  | .empty => M.pure (.map [])
  | .mk kind cls idx fields cn => fun g => match hook (.mk kind cls idx fields cn) g with
    | (g0, .error e) => (g0, .error e)
    | (g0, .ok _) =>
      if kind = .source ∧ g0.opts.srcOn = true then (g0, .ok (.map [.mk idxKey (.lit (natStr idx))]))
      else match serFieldsM hook fields g0 with
        | (g1, .error e) => (g1, .error e)
        | (g1, .ok d) => (g1, .ok (.map (post g1.opts kind cls cn d)))
def serFieldsM (hook : Hook) : List SField → M (List JF)
  | [] => M.pure []
  | f :: r => fun g => match serFieldM hook f g with
    | (g1, .error e) => (g1, .error e)
    | (g1, .ok jf) => match serFieldsM hook r g1 with
      | (g2, .error e) => (g2, .error e)
      | (g2, .ok d) => (g2, .ok (jf :: d))
def serFieldM (hook : Hook) : SField → M JF
  | .mk n v => fun g => match serValM hook v g with
    | (g1, .error e) => (g1, .error e)
    | (g1, .ok j) => (g1, .ok (.mk n j))
end

mutual
/-- `cls._deserialize(value)` with the state threaded: a probe records the state it sees -/
def deserM (hook : DHook) : DJ → M (List G)
  | .plain => M.pure []
  | .int c => fun g => if c = g.customOn then (g, .ok []) else (g, .error ())
  | .bad => M.raise
  | .node p xs => fun g => match hook (.node p xs) g with
    | (g0, .error e) => (g0, .error e)
    | (g0, .ok _) => match deserLM hook xs g0 with
      | (g1, .error e) => (g1, .error e)
      | (g1, .ok l) => (g1, .ok (if p then g0 :: l else l))
def deserLM (hook : DHook) : List DJ → M (List G)
  | [] => M.pure []
  | x :: r => fun g => match deserM hook x g with
    | (g1, .error e) => (g1, .error e)
    | (g1, .ok l) => match deserLM hook r g1 with
      | (g2, .error e) => (g2, .error e)
      | (g2, .ok l') => (g2, .ok (l ++ l'))
end

/-- what runs inside the `try:` -/
def bodyM (hook : Hook) (dhook : DHook) : Input → M Out
  | .ser o => fun g => match serObjM hook o g with
    | (g1, .ok j) => (g1, .ok (.j j))
    | (g1, .error e) => (g1, .error e)
  | .deser d => fun g => match deserM dhook d g with
    | (g1, .ok l) => (g1, .ok (.seen l))
    | (g1, .error e) => (g1, .error e)
  | .unparsable => M.raise

/-- one public call with the `finally` explicit -/
def callF (hook : Hook) (dhook : DHook) (g : G) (c : Call) : G × Except Unit Out :=
  match c.input with
  | .unparsable => (g, .error ())          -- raises in the front end, before the wrapper is entered
  | inp => tryFin (bodyM hook dhook inp) resetM (enter g c)

def runSeqF (hook : Hook) (dhook : DHook) (g : G) : List Call → List (Except Unit Out × G) × G
  | [] => ([], g)
  | c :: r =>
    let (g1, out) := callF hook dhook g c
    let (outs, g2) := runSeqF hook dhook g1 r
    ((out, g1) :: outs, g2)

/-! ### the calibration mutants -/

/-- mutant `ser_opts_no_finally`: the reset is skipped when the body raises -/
def callNoFinally (hook : Hook) (dhook : DHook) (g : G) (c : Call) : G × Except Unit Out :=
  match c.input with
  | .unparsable => (g, .error ())
  | inp =>
    match bodyM hook dhook inp (enter g c) with
    | (g1, .ok r) => ((resetM g1).1, .ok r)
    | (g1, .error e) => (g1, .error e)

/-- mutant `ser_opts_not_cleared_on_deser`: `as_obj` has no reset -/
def callNoResetDeser (hook : Hook) (dhook : DHook) (g : G) (c : Call) : G × Except Unit Out :=
  match c.input with
  | .unparsable => (g, .error ())
  | .deser d => bodyM hook dhook (.deser d) (enter g c)
  | inp => tryFin (bodyM hook dhook inp) resetM (enter g c)

/-- a history under a given implementation of one call -/
def runSeqWith (callX : G → Call → G × Except Unit Out) (g : G) : List Call → List (Except Unit Out × G) × G
  | [] => ([], g)
  | c :: r =>
    let (g1, out) := callX g c
    let (outs, g2) := runSeqWith callX g1 r
    ((out, g1) :: outs, g2)

end SerOpts
end PyOak
