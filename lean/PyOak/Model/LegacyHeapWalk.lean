/-
The legacy walks AS THE PYTHON CODE RUNS THEM: on the heap of mutable objects (Model/Legacy.lean),
following `node.parent` (= registry look-up of `_parent_id`), `node.parent_field`, `node.parent_index`
and the stored child fields of the OBJECTS — not on a tree value and not on a chain handed in by the
caller.

  lmatchElemH / lmatchH / lxmatchH   `_match_node_xpath(node, elements)` / `ASTXpath.match(node)` of
                                     src/pyoak/legacy/match/xpath.py: `node.ancestors()` is the heap walk
                                     `Legacy.ancestors` (Model/LegacyQueries.lean), the recursion climbs
                                     `s.parent`
  hdfsLoop / hdfsImpl, hbfsLoop / hbfsImpl, hgatherImpl
                                     `AwareASTNode.dfs / bfs / gather` of src/pyoak/legacy/node.py: the deques
                                     hold object references (uids), `get_child_nodes()` reads the object's
                                     child fields, callbacks receive the object
  hsetXpath / hcalcXpath             `_set_xpath` / `calculate_xpath`: the text is built from the node's OWN
                                     `parent_field` / `parent_index` slots (RuntimeError when unset), the
                                     `is_attached_root` guard

CONSERVATIVE EXTENSION (a new file; the state machine does not mention these functions).  The heap
matcher is exercised by the differential harness through the `lhxpath` request (Handle/LegacyC20Heap.lean,
harness/props/c20.py: a history of real legacy operations, then real `ASTXpath.match` on every live
object); Props/C20Heap*.lean prove all of them equal to the tree-level models of Model/LegacyTraverse.lean /
Model/LegacyXPath.lean (which are exercised by `ldfs` / `lbfs` / `lgather` / `lxpath` / `lcalc`) applied to
the tree the heap represents (`Spec/LegacyTreeOf.lean`).

Fuel: as everywhere in the legacy model, walks over the object graph take fuel; running out of fuel (`none`)
is the model's rendering of a walk that does not end (a cyclic heap).
-/
import PyOak.Model.LegacyQueries
import PyOak.Model.LegacyXPath
import PyOak.Model.LegacyTraverse
namespace PyOak.Legacy
open PyOak

/-! ### `ASTXpath.match(node)` -/

/-- the test in the middle of `_match_node_xpath`, on the object: `isinstance(node, element.ast_class)`,
`element.parent_field == node.parent_field.name`, `element.parent_index == node.parent_index` -/
def lmatchElemH (o : LObj) (el : XElem) : Bool :=
  o.mro.contains el.cls
    && (match el.field with
        | none => true
        | some f => o.pfield == some f)
    && (match el.idx with
        | none => true
        | some i => o.pindex == some i)

/-- `for ancestor in …: if f(ancestor): return True` (a walk that does not end inside `f` does not end) -/
def anyAnc (f : Nat → Option Bool) : List Nat → Option Bool
  | [] => some false
  | a :: r =>
    match f a with
    | none => none
    | some true => some true
    | some false => anyAnc f r

/-- `_match_node_xpath(node | None, elements)` on the heap; `none` = the walk did not end.
Fuel: one unit per call depth. -/
def lmatchH (s : LState) : Nat → Option Nat → List LElem → Option Bool
  | 0, _, _ => none
  | _ + 1, none, [] => some true
  | _ + 1, none, .anyw :: _ => some true
  | _ + 1, none, .el _ :: _ => some false
  | _ + 1, some _, [] => some false
  | _ + 1, some _, .anyw :: _ => some true
  | fuel + 1, some u, .el e :: tail =>
    -- the current node against the current element, then `node.parent` against the tail
    let own : Option Bool :=
      if lmatchElemH (s.obj u) e then lmatchH s fuel (s.parent u) tail else some false
    if e.anywhere then
      -- `for ancestor in node.ancestors(): if _match_node_xpath(ancestor, elements): return True`
      match ancestors s u with
      | none => none
      | some as =>
        match anyAnc (fun a => lmatchH s fuel (some a) (.el e :: tail)) as with
        | none => none
        | some true => some true
        | some false => own
    else own

/-- legacy `ASTXpath(text).match(node)` for the object `u` of heap `s` -/
def lxmatchH (s : LState) (els : List LElem) (u : Nat) : Option Bool :=
  lmatchH s (fuelOf s) (some u) els

/-! ### `dfs` / `bfs` / `gather` -/

/-- the `while build_queue:` loop of `dfs` over object references -/
def hdfsLoop (s : LState) (prune filt : Nat → Bool) (bottomUp : Bool) :
    Nat → Bool → List Nat → List Nat → List Nat
  | 0, _, _, queue => queue
  | _ + 1, _, [], queue => queue
  | fuel + 1, skipSelf, child :: build, queue =>
    let kids := (s.obj child).kidList
    let build' := (if bottomUp then kids.reverse else kids) ++ build
    if skipSelf then hdfsLoop s prune filt bottomUp fuel false build' queue
    else
      let queue' := if filt child then (if bottomUp then child :: queue else queue ++ [child]) else queue
      if prune child then hdfsLoop s prune filt bottomUp fuel false build queue'
      else hdfsLoop s prune filt bottomUp fuel false build' queue'

/-- `node.dfs(prune, filter, bottom_up, skip_self)` (one unit of fuel per popped object) -/
def hdfsImpl (s : LState) (prune filt : Nat → Bool) (bottomUp skipSelf : Bool) (u : Nat) : List Nat :=
  hdfsLoop s prune filt bottomUp (fuelOf s) skipSelf [u] []

/-- the `while queue:` loop of `bfs` -/
def hbfsLoop (s : LState) (prune filt : Nat → Bool) : Nat → Bool → List Nat → List Nat
  | 0, _, _ => []
  | _ + 1, _, [] => []
  | fuel + 1, skipSelf, child :: queue =>
    if skipSelf then hbfsLoop s prune filt fuel false (queue ++ (s.obj child).kidList)
    else
      let rest := if prune child then hbfsLoop s prune filt fuel false queue
                  else hbfsLoop s prune filt fuel false (queue ++ (s.obj child).kidList)
      if filt child then child :: rest else rest

/-- `node.bfs(prune, filter, skip_self)` -/
def hbfsImpl (s : LState) (prune filt : Nat → Bool) (skipSelf : Bool) (u : Nat) : List Nat :=
  hbfsLoop s prune filt (fuelOf s) skipSelf [u]

/-- `node.gather(obj_class, exact_type=, extra_filter=, prune=, skip_self=)` -/
def hgatherImpl (s : LState) (classes : List Str) (exact : Bool) (extra prune : Nat → Bool) (skipSelf : Bool)
    (u : Nat) : List Nat :=
  let f : Nat → Bool := fun x =>
    (if exact then classes.contains (s.obj x).cls else classes.any fun c => (s.obj x).mro.contains c) && extra x
  hdfsImpl s prune f false skipSelf u

/-! ### `calculate_xpath` -/

/-- `for child in …: <collect the assignments of the call on child>`; `none` as soon as one call fails -/
def collectM {α : Type} (f : Nat → Option (List α)) : List Nat → Option (List α)
  | [] => some []
  | c :: r =>
    match f c with
    | none => none
    | some a => (collectM f r).map (a ++ ·)

/-- `_set_xpath(node, parent_xpath)`: the assignments `(object, text)` in the order they are made; `none` = the
`RuntimeError` ("Parent field is not set") or a walk that does not end -/
def hsetXpath (s : LState) : Nat → Str → Nat → Option (List (Nat × Str))
  | 0, _, _ => none
  | fuel + 1, pp, u =>
    match (s.obj u).pfield with
    | none => none
    | some f =>
      let xp := pp ++ xpathStep f (s.obj u).pindex (s.obj u).cls
      (collectM (hsetXpath s fuel xp) (s.obj u).kidList).map ((u, xp) :: ·)

inductive CalcOut where
  | refused                              -- `return False`: not an attached root
  | failed                               -- RuntimeError / endless walk
  | ok (assign : List (Nat × Str))       -- `return True`; the root's own assignment listed first
  deriving Repr, Inhabited

/-- `root.calculate_xpath()` -/
def hcalcXpath (s : LState) (u : Nat) : CalcOut :=
  if !s.isAttachedRoot u then .refused
  else
    let xp := xpathStep ['r','o','o','t'] none (s.obj u).cls
    match collectM (hsetXpath s (fuelOf s) xp) (s.obj u).kidList with
    | none => .failed
    | some l => .ok ((u, xp) :: l)

end PyOak.Legacy
