/-
The legacy TRANSFORM VISITOR (`ASTTransformVisitor.transform / visit / generic_visit /
_transform_children`) and the legacy TRANSFORMER (`ASTTransformer.execute`) of
src/pyoak/legacy/node.py, as compositions of the primitive operations of `Model/Legacy.lean`.

User callbacks are a finite RULE TABLE (the rule interpreters `RuleVisitor` / `RuleTransformer` of
harness/legacy_machine.py): the first rule whose class name (exact, not MRO) and optional property
text match the node decides what the callback does with it:

  remove      return None
  raise       raise an exception (not a pyoak error)
  set ps      `node.replace(<children as transformed>, **ps)`   (visitor)
              `node.replace(**ps)`                               (transformer)
  make spec   return a newly constructed node (`Cls(..)`: an ordinary constructor call)
  no rule     visitor: the library's own `generic_visit`; transformer: `filter` says no

Every library-level side effect is ONE primitive operation of the existing machine, executed with
`step` on the current state (so with the fuel `step` itself takes from that state):

  node.duplicate(as_detached_clone=True)   step (.dup u true)
  node.replace(**changes)                  step (.replace u changes)
  Cls(...)                                 step (.new spec)
  orig.replace_with(transformed)           step (.rwith u transformed)

Each function returns, next to the state and the result, the list `ops` of the primitive operations
it performed, in order.  `Props/C18Transform.lean` proves `s' = run s ops` (a rejected primitive is
always the last one), which is how the theorems about `step` compose.

What is NOT here: `visit_<ClassName>` methods other than through the rule table (the harness'
visitors define none, so `accept` always ends in `generic_visit`), `prune` (never overridden), and
the moment at which CPython frees an unreferenced temporary *during* a call (the weak registry is
collected when the call returns: `gcNew` in Handle/Legacy.lean).
-/
import PyOak.Model.Legacy
namespace PyOak.Legacy

/-- what a user callback does with a node -/
inductive Act where
  | remove
  | raise
  | set (props : List LProp)
  | make (spec : NewSpec)
  deriving Repr, Inhabited

structure Rule where
  cls : Str                       -- `type(node).__name__`
  prop : Option (Str × Str)       -- (property name, `str(value)`) the node must carry; `none` = any
  act : Act
  deriving Repr, Inhabited

def Rule.hits (r : Rule) (o : LObj) : Bool :=
  decide (r.cls = o.cls) &&
    match r.prop with
    | none => true
    | some (n, t) => o.props.any fun p => decide (p.name = n) && decide (p.txt = t)

/-- `_rule(rules, node)`: the action of the first matching rule -/
def ruleOf (rules : List Rule) (o : LObj) : Option Act :=
  match rules.find? (·.hits o) with
  | some r => some r.act
  | none => none

/-- state, primitive operations performed (in order), result -/
structure TOut (α : Type) where
  s : LState
  ops : List LOp
  res : Except Err α

def TOut.after {α : Type} (pre : List LOp) (r : TOut α) : TOut α := ⟨r.s, pre ++ r.ops, r.res⟩

/-- `except Exception as e: raise ASTTransformError(..) from e` (a walk that does not end is not an
`Exception`) -/
def inTry (e : Err) : Err := if e = .hang then .hang else .transformError

section machine
variable (H Hc : Str → Str) (rules : List Rule)

/-- one primitive operation that returns a node -/
def primNode (s : LState) (op : LOp) : TOut (Option Nat) :=
  match step H Hc s op with
  | (s1, .node n) => ⟨s1, [op], .ok (some n)⟩
  | (s1, .raised e) => ⟨s1, [op], .error e⟩
  | (s1, _) => ⟨s1, [op], .error .internal⟩

/-- one primitive operation that returns nothing -/
def primUnit (s : LState) (op : LOp) : TOut Unit :=
  match step H Hc s op with
  | (s1, .raised e) => ⟨s1, [op], .error e⟩
  | (s1, _) => ⟨s1, [op], .ok ()⟩

/-! ### the transform visitor -/

/-- the loop of `_transform_children` over the children stored in ONE field: the new sequence and
whether the field counts as changed (`new_child is not child`, or a removed child) -/
def tKids (rec : LState → Nat → TOut (Option Nat)) : LState → List Nat → TOut (List Nat × Bool)
  | s, [] => ⟨s, [], .ok ([], false)⟩
  | s, c :: cs =>
    match rec s c with
    | ⟨s1, t1, .error e⟩ => ⟨s1, t1, .error e⟩
    | ⟨s1, t1, .ok r⟩ =>
      match tKids rec s1 cs with
      | ⟨s2, t2, .error e⟩ => ⟨s2, t1 ++ t2, .error e⟩
      | ⟨s2, t2, .ok (ks, ch)⟩ =>
        match r with
        | none => ⟨s2, t1 ++ t2, .ok (ks, true)⟩
        | some c' => ⟨s2, t1 ++ t2, .ok (c' :: ks, ch || c' != c)⟩

/-- `_transform_children`: the changed fields only, in declaration order -/
def tFields (rec : LState → Nat → TOut (Option Nat)) : LState → List LField → TOut (List (Str × List Nat))
  | s, [] => ⟨s, [], .ok []⟩
  | s, f :: fs =>
    match tKids rec s f.kids with
    | ⟨s1, t1, .error e⟩ => ⟨s1, t1, .error e⟩
    | ⟨s1, t1, .ok (ks, ch)⟩ =>
      match tFields rec s1 fs with
      | ⟨s2, t2, .error e⟩ => ⟨s2, t1 ++ t2, .error e⟩
      | ⟨s2, t2, .ok chs⟩ => ⟨s2, t1 ++ t2, .ok (if ch then (f.name, ks) :: chs else chs)⟩

/-- `super().visit(node)` = `node.accept(self)` = the visitor's `generic_visit(node)`:
the rule table first, the library's `generic_visit` (transform the children, `replace` if anything
changed) when no rule matches; `rec` = `self.transform` -/
def visitBody (rec : LState → Nat → TOut (Option Nat)) (s : LState) (u : Nat) : TOut (Option Nat) :=
  match ruleOf rules (s.obj u) with
  | some .remove => ⟨s, [], .ok none⟩
  | some .raise => ⟨s, [], .error .internal⟩
  | some (.make spec) => primNode H Hc s (.new spec)
  | some (.set ps) =>
    match tFields rec s (s.obj u).fields with
    | ⟨s1, t1, .error e⟩ => ⟨s1, t1, .error e⟩
    | ⟨s1, t1, .ok chs⟩ => (primNode H Hc s1 (.replace u ⟨ps, chs, false⟩)).after t1
  | none =>
    match tFields rec s (s.obj u).fields with
    | ⟨s1, t1, .error e⟩ => ⟨s1, t1, .error e⟩
    | ⟨s1, t1, .ok chs⟩ =>
      if chs.isEmpty then ⟨s1, t1, .ok (some u)⟩
      else (primNode H Hc s1 (.replace u ⟨[], chs, false⟩)).after t1

/-- `ASTTransformVisitor.transform(node)`.  An attached node is cloned first (a failure of the clone
is raised as it is: it happens before the `try`), the clone is visited, the original is replaced
with the result; everything that fails inside the `try` becomes ASTTransformError. -/
def visitGo : Nat → LState → Nat → TOut (Option Nat)
  | 0, s, _ => ⟨s, [], .error .hang⟩
  | fuel + 1, s, u =>
    if s.detached u then
      match visitBody H Hc rules (visitGo fuel) s u with
      | ⟨s1, t1, .error e⟩ => ⟨s1, t1, .error (inTry e)⟩
      | ⟨s1, t1, .ok r⟩ => ⟨s1, t1, .ok r⟩
    else
      match primNode H Hc s (.dup u true) with
      | ⟨s1, t1, .error e⟩ => ⟨s1, t1, .error e⟩
      | ⟨s1, t1, .ok none⟩ => ⟨s1, t1, .error .internal⟩
      | ⟨s1, t1, .ok (some n)⟩ =>
        match visitBody H Hc rules (visitGo fuel) s1 n with
        | ⟨s2, t2, .error e⟩ => ⟨s2, t1 ++ t2, .error (inTry e)⟩
        | ⟨s2, t2, .ok r⟩ =>
          match primUnit H Hc s2 (.rwith u r) with
          | ⟨s3, t3, .error e⟩ => ⟨s3, t1 ++ t2 ++ t3, .error (inTry e)⟩
          | ⟨s3, t3, .ok _⟩ => ⟨s3, t1 ++ t2 ++ t3, .ok r⟩

def tvisit (s : LState) (u : Nat) : TOut (Option Nat) := visitGo H Hc rules (fuelOf s) s u

/-! ### the transformer -/

def poList (rec : Nat → Option (List Nat)) : List Nat → Option (List Nat)
  | [] => some []
  | c :: cs =>
    match rec c, poList rec cs with
    | some a, some b => some (a ++ b)
    | _, _ => none

/-- `node.dfs(bottom_up=True)` without filter: the whole subtree is walked BEFORE the first node is
yielded; the yield order is post-order, children in field / index order; `none` = the walk does not end -/
def postOrder : Nat → LState → Nat → Option (List Nat)
  | 0, _, _ => none
  | fuel + 1, s, u =>
    match poList (postOrder fuel s) (s.obj u).kidList with
    | none => none
    | some l => some (l ++ [u])

/-- `self.transform(child)` of the rule transformer -/
def ruleTransform (s : LState) (c : Nat) : Act → TOut (Option Nat)
  | .remove => ⟨s, [], .ok none⟩
  | .raise => ⟨s, [], .error .internal⟩
  | .set ps => primNode H Hc s (.replace c ⟨ps, [], false⟩)
  | .make spec => primNode H Hc s (.new spec)

/-- `new_node is not child and (new_node is None or new_node.id != child.id)`: the node is replaced
with `replace_with` (a result of `child.replace(..)` keeps the id and has replaced the child already) -/
def commits (s : LState) (c : Nat) : Option Nat → Bool
  | none => true
  | some n => n != c && s.idOf n != s.idOf c

/-- the loop of `ASTTransformer.execute` over the nodes that `dfs` yields -/
def execLoop (root : Nat) : List Nat → LState → TOut (Option Nat)
  | [], s => ⟨s, [], .ok (some root)⟩
  | c :: cs, s =>
    match ruleOf rules (s.obj c) with
    | none => execLoop root cs s      -- not reachable: `filter` said yes and class / properties never change
    | some a =>
      match ruleTransform H Hc s c a with
      | ⟨s1, t1, .error e⟩ => ⟨s1, t1, .error e⟩
      | ⟨s1, t1, .ok r⟩ =>
        if c = root then ⟨s1, t1, .ok r⟩
        else
          if commits s1 c r then
            match primUnit H Hc s1 (.rwith c r) with
            | ⟨s2, t2, .error e⟩ => ⟨s2, t1 ++ t2, .error (inTry e)⟩
            | ⟨s2, t2, .ok _⟩ => (execLoop root cs s2).after (t1 ++ t2)
          else (execLoop root cs s1).after t1

/-- `ASTTransformer.execute(node)` -/
def texec (s : LState) (u : Nat) : TOut (Option Nat) :=
  match postOrder (fuelOf s) s u with
  | none => ⟨s, [], .error .hang⟩
  | some l => execLoop H Hc rules u (l.filter fun c => (ruleOf rules (s.obj c)).isSome) s

/-! ### the extended machine -/

inductive LOpX where
  | base (op : LOp)
  | tvisit (u : Nat) (rules : List Rule)
  | texec (u : Nat) (rules : List Rule)
  deriving Repr, Inhabited

def ofOptNode : TOut (Option Nat) → LState × LOut
  | ⟨s, _, .ok (some n)⟩ => (s, .node n)
  | ⟨s, _, .ok none⟩ => (s, .none)
  | ⟨s, _, .error e⟩ => (s, .raised e)

def stepX (s : LState) : LOpX → LState × LOut
  | .base op => step H Hc s op
  | .tvisit u rules => if s.size ≤ u then (s, .raised .badRequest) else ofOptNode (tvisit H Hc rules s u)
  | .texec u rules => if s.size ≤ u then (s, .raised .badRequest) else ofOptNode (texec H Hc rules s u)

def runX (s : LState) (ops : List LOpX) : LState := ops.foldl (fun s op => (stepX H Hc s op).1) s

end machine

end PyOak.Legacy
