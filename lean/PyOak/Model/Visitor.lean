/-
Model of `ASTNode.accept` (src/pyoak/node.py) and of `ASTVisitor.visit`,
`ASTTransformVisitor._transform_children / generic_visit / transform` (src/pyoak/visitor.py),
written in the *shape of the implementation*:

* a visitor is `(strict, rules)`; a class name "has a `visit_<Class>` method" iff it is a key of
  `rules` (`getattr(visitor, "visit_" + name, None)`); what the method does is an `Act`, chosen by
  the method per node object (`Rule.act`: the method may look at the node it is given);
* `accept`: strict ⇒ the method of the node's own class name; non-strict ⇒ walk `getmro(cls)[:-1]`
  (everything but `object`) and take the first class name that has a method; no method ⇒
  `generic_visit`;
* `_transform_children`: ONE flat loop over `get_child_nodes_with_field()` (`Node.edges`), with the
  dict `changes` (an association list in insertion order) and the set `field_names_with_changes`;
  sequence fields collect the non-`None` results in a list, single fields are set to the result;
  afterwards only the fields marked as changed are kept (lists become tuples: both are `List`
  here, `Chg.seq`);
* `generic_visit`: the node itself when `changes` is empty, otherwise `dataclasses.replace(node,
  **changes)` — a NEW object: fresh `uid` taken from a counter that is threaded through, same class /
  origin / properties, the changed child fields replaced.
* the recursion `visit → accept → visit_X → generic_visit → _transform_children → visit` is cut by a
  fuel argument; `Props/C09.lean` shows that the size of the tree is always enough.

Exceptions are `Except Err`.  (`visitor.py` does not wrap exceptions: whatever a method raises
propagates unchanged; the observation is only "raised".)
-/
import PyOak.Model.Traverse
namespace PyOak

/-- what a `visit_<Class>` method does with the node it is given -/
inductive Act where
  /-- `return self.generic_visit(node)` -/
  | generic
  /-- `return node` (no descent) -/
  | keep
  /-- `new = self.generic_visit(node); return dataclasses.replace(new, <name>=<value>)` -/
  | rewriteProp (p : PropV)
  /-- `return k` for some other, given node `k` -/
  | replaceBy (k : Node)
  /-- `return None` -/
  | remove
  /-- `raise Boom()` -/
  | raise
  deriving Inhabited

/-- one `visit_<Class>` method: the action may depend on the node *object* it is called with -/
structure Rule where
  dflt : Act
  per : List (Nat × Act) := []
  deriving Inhabited

def Rule.act (r : Rule) (uid : Nat) : Act :=
  match r.per.lookup uid with
  | some a => a
  | none => r.dflt

structure Visitor where
  strict : Bool
  rules : List (Str × Rule)
  deriving Inhabited

/-- `getattr(visitor, f"visit_{name}", None)` -/
def Visitor.getattr (v : Visitor) (name : Str) : Option Rule := v.rules.lookup name

/-- the method lookup of `ASTNode.accept`; `none` = `visitor.generic_visit` -/
def Visitor.method (v : Visitor) (h : Head) : Option Rule :=
  if v.strict then v.getattr h.cls
  else h.mro.dropLast.findSome? v.getattr

/-- what `visitor.visit(node)` ends up doing -/
def Visitor.action (v : Visitor) (h : Head) : Act :=
  match v.method h with
  | some r => r.act h.uid
  | none => .generic

inductive Err where
  | raised      -- an exception left the call
  | fuel        -- the model ran out of fuel (shown impossible in Props/C09)
  deriving DecidableEq, Inhabited, Repr

/-- result of one `visit` call together with the object counter -/
abbrev VRes := Except Err (Option Node × Nat)

/-- `new_child is child` -/
def sameObj (r : Option Node) (x : Node) : Bool :=
  match r with
  | some y => y.uid == x.uid
  | none => false

/-- value stored in the `changes` dict -/
inductive Chg where
  | seq (xs : List Node)         -- list (later tuple) built for a sequence field
  | single (o : Option Node)     -- result for a single field
  deriving Inhabited

def Chg.nodes : Chg → List Node
  | .seq xs => xs
  | .single o => o.toList

abbrev Dict := List (Str × Chg)

def Dict.has (d : Dict) (k : Str) : Bool := d.any (·.1 == k)

/-- `d[k] = x` -/
def Dict.set (d : Dict) (k : Str) (x : Chg) : Dict :=
  if d.has k then d.map (fun e => if e.1 == k then (e.1, x) else e) else d ++ [(k, x)]

/-- `d[k].append(y)` -/
def Dict.push (d : Dict) (k : Str) (y : Node) : Dict :=
  d.map fun e => if e.1 == k then
    (match e.2 with
     | .seq xs => (e.1, Chg.seq (xs ++ [y]))
     | .single o => (e.1, Chg.single o)) else e

/-- `set.add` -/
def setAdd (s : List Str) (k : Str) : List Str := if s.contains k then s else s ++ [k]

/-- loop state of `_transform_children` -/
structure TC where
  changes : Dict
  changed : List Str
  ctr : Nat
  deriving Inhabited

/-- body of `for child, f, index in node.get_child_nodes_with_field():` -/
def tcStep (visit : Node → Nat → VRes) (st : TC) (ce : Node × Edge) : Except Err TC :=
  let child := ce.1
  let fname := ce.2.field
  match ce.2.idx with
  | some _ =>
    let changes1 := if st.changes.has fname then st.changes else st.changes ++ [(fname, Chg.seq [])]
    match visit child st.ctr with
    | .error e => .error e
    | .ok (some y, c') =>
      .ok ⟨changes1.push fname y,
           if y.uid == child.uid then st.changed else setAdd st.changed fname, c'⟩
    | .ok (none, c') => .ok ⟨changes1, setAdd st.changed fname, c'⟩
  | none =>
    match visit child st.ctr with
    | .error e => .error e
    | .ok (r, c') =>
      .ok ⟨st.changes.set fname (.single r),
           if sameObj r child then st.changed else setAdd st.changed fname, c'⟩

def tcLoop (visit : Node → Nat → VRes) : List (Node × Edge) → TC → Except Err TC
  | [], st => .ok st
  | ce :: r, st =>
    match tcStep visit st ce with
    | .error e => .error e
    | .ok st' => tcLoop visit r st'

/-- `_transform_children(node)` -/
def transformChildren (visit : Node → Nat → VRes) (n : Node) (c : Nat) : Except Err (Dict × Nat) :=
  match tcLoop visit n.edges ⟨[], [], c⟩ with
  | .error e => .error e
  | .ok st =>
    if st.changed.isEmpty then .ok ([], st.ctr)
    else .ok (st.changes.filter (fun e => st.changed.contains e.1), st.ctr)

/-- `dataclasses.replace(node, **changes)` for child-field changes: a new object -/
def dcReplace (n : Node) (changes : Dict) (uid : Nat) : Node :=
  .mk { n.hd with uid := uid }
    (n.kids.map fun k => match changes.lookup k.name with
      | some ch => .mk k.name k.coll ch.nodes
      | none => k)

/-- `ASTTransformVisitor.generic_visit(node)` -/
def genericVisit (visit : Node → Nat → VRes) (n : Node) (c : Nat) : VRes :=
  match transformChildren visit n c with
  | .error e => .error e
  | .ok (changes, c') =>
    if changes.isEmpty then .ok (some n, c') else .ok (some (dcReplace n changes c'), c' + 1)

/-- `dataclasses.replace(node, <p.name>=<p value>)`: `TypeError` when the class has no such field,
`ValueError` when the field is `init=False`; otherwise a new object -/
def setProp (n : Node) (p : PropV) (uid : Nat) : Option Node :=
  if n.hd.props.any (fun q => q.name == p.name && q.init) then
    some (.mk { n.hd with uid := uid,
                          props := n.hd.props.map fun q =>
                            if q.name == p.name then { p with compare := q.compare, init := q.init } else q }
              n.kids)
  else none

/-- the tail of a `rewriteProp` method after its `generic_visit` call -/
def finishRewrite (p : PropV) : VRes → VRes
  | .error e => .error e
  | .ok (none, _) => .error .raised
  | .ok (some n', c') =>
    match setProp n' p c' with
    | some n'' => .ok (some n'', c' + 1)
    | none => .error .raised

/-- `visitor.visit(node)` = `node.accept(visitor)` -/
def visitF (v : Visitor) : Nat → Node → Nat → VRes
  | 0, _, _ => .error .fuel
  | fuel + 1, n, c =>
    match v.action n.hd with
    | .generic => genericVisit (visitF v fuel) n c
    | .keep => .ok (some n, c)
    | .replaceBy k => .ok (some k, c)
    | .remove => .ok (none, c)
    | .raise => .error .raised
    | .rewriteProp p => finishRewrite p (genericVisit (visitF v fuel) n c)

/-- `visitor.transform(tree)`; `c` = first unused object identity -/
def transform (v : Visitor) (n : Node) (c : Nat) : VRes := visitF v n.size n c

end PyOak
