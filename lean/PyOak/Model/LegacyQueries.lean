/-
Upward queries of the legacy parent-aware node (src/pyoak/legacy/node.py, class `AwareASTNode`):
`ancestors()`, `is_ancestor(node)`, `get_depth(relative_to, check_ancestor)`, on the heap `LState` of
Model/Legacy.lean.

CONSERVATIVE EXTENSION of the model: a new file, nothing in Model/Legacy.lean changes, the state
machine `step` does not mention these functions.  They mirror the shape of the Python code (the
`while parent is not None` loop, the two recursions on `node.parent`, comparisons by identity = uid)
with fuel for the walks (`fuelOf s`, as everywhere in the model; running out of fuel is the model's
rendering of a walk that does not end).

NOT TIED TO THE PYTHON CODE BY THE DIFFERENTIAL HARNESS (no protocol command yet): the only evidence
for these definitions is their proximity to the source and the theorems of Props/C18Queries.lean,
which relate them to `LState.parent` (which IS tied: the K1 state dump contains `parent`).
-/
import PyOak.Model.Legacy
namespace PyOak.Legacy

/-- `ancestors()`: `parent = self.parent; while parent is not None: yield parent; parent = parent.parent`
(nearest first); `none` when the walk does not end -/
def ancestorsGo (s : LState) : Nat → Nat → Option (List Nat)
  | 0, _ => none
  | fuel + 1, u =>
    match s.parent u with
    | none => some []
    | some p => (ancestorsGo s fuel p).map (p :: ·)

/-- `a.is_ancestor(node)`: `node.parent is None → False`, `node.parent is a → True`, else recurse -/
def isAncestorGo (s : LState) (a : Nat) : Nat → Nat → Option Bool
  | 0, _ => none
  | fuel + 1, node =>
    match s.parent node with
    | none => some false
    | some p => if p = a then some true else isAncestorGo s a fuel p

/-- the recursion of `get_depth(relative_to, check_ancestor=False)` -/
def getDepthGo (s : LState) (rel : Option Nat) : Nat → Nat → Option Nat
  | 0, _ => none
  | fuel + 1, u =>
    match s.parent u with
    | none => some 0
    | some p => if rel = some p then some 1 else (getDepthGo s rel fuel p).map (· + 1)

inductive DepthOut where
  | depth (d : Nat)
  | valueError        -- "relative_to must be an ancestor of this node"
  | hang
  deriving DecidableEq, Repr, Inhabited

/-- `node.ancestors()` -/
def ancestors (s : LState) (u : Nat) : Option (List Nat) := ancestorsGo s (fuelOf s) u

/-- `a.is_ancestor(node)` -/
def isAncestor (s : LState) (a node : Nat) : Option Bool := isAncestorGo s a (fuelOf s) node

/-- `node.get_depth(relative_to=rel, check_ancestor=check)` -/
def getDepth (s : LState) (u : Nat) (rel : Option Nat) (check : Bool) : DepthOut :=
  let pre : Option Bool := match rel with
    | some a => if check then isAncestor s a u else some true
    | none => some true
  match pre with
  | none => .hang
  | some false => .valueError
  | some true =>
    match getDepthGo s rel (fuelOf s) u with
    | none => .hang
    | some d => .depth d

end PyOak.Legacy
