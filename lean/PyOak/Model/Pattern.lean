/-
Model of `pyoak.match.pattern` (src/pyoak/match/pattern.py), the part behind
`NodeMatcher.from_pattern(text)[0].match(node)` and `MultiPatternMatcher(defs).match(node, rules)`:

 * the pattern AST as `PATTERN_DEF_GRAMMAR` (match/grammar.py) produces it (`Pat`, `Fields`, `FSpec`,
   `Items`, `PVal`);
 * the matcher graph (`Matcher`: Any / Value / Regex / Var / Sequence / Node matchers) and the
   `PatternDefInterpreter` that builds it: class resolution through `TYPES`, the `_captures_seen`
   bookkeeping, `replace(matcher, name=…)`, `SequenceMatcher.__post_init__` (tail split);
 * `BaseMatcher.match` (the wrapper that adds the matcher's own capture and clears the captures of
   a failed match) around each `_match`: the early length test and the non-strict `zip` of
   `SequenceMatcher._match`, the `local_ctx` / `ret_vars` updates of `NodeMatcher._match`;
 * `MultiPatternMatcher.match` (first matching rule in the given order).

Parameters (CPython / third-party behaviour that is modelled, not verified):
  `rx p t`   — `re.compile(p).match(t) is not None`
  `ceq a b`  — `a.is_equal(b)` for two nodes (content_id equality, Model/Encode.lean `isEqual`)
  `neq a b`  — `a == b` for two nodes (Model/Equality.lean)
  `aeq v w`  — `v == w` for two property values that are neither nodes, tuples nor None

Dicts (`ctx`, `local_ctx`, `ret_vars`, the capture dict) are association lists in which an entry
shadows the entries behind it: `d.update(e)` is `e ++ d`, lookup finds the first entry.  The
observable capture *set* is obtained by dropping shadowed entries (theorem `C08.caps_nodup`: for a
compiled pattern nothing is ever shadowed in a returned capture dict).
-/
import PyOak.Model.Core
namespace PyOak
namespace PM

/-! ### values a field / a sequence element can hold -/

inductive MVal where
  | node (n : Node)
  | tup (xs : List MVal)           -- a Python tuple
  | atom (txt : Str) (v : Val)     -- any other property value; `txt` = `str(value)`
  | none
  deriving Inhabited

def astNodeName : Str := "ASTNode".toList

/-- `isinstance(n, C)` for a node object `n` and a class name: every node is an `ASTNode` -/
def instOf (n : Node) (c : Str) : Bool := c == astNodeName || n.isInst c

/-- `str(v)` of an *element* of a tuple-valued property (for atoms of the kinds the zoo uses) -/
def Val.pyStr : Val → Str
  | .int i => (toString i).toList
  | .bool b => if b then "True".toList else "False".toList
  | .none => "None".toList
  | .str s => s
  | .enum c m => c ++ '.' :: m
  | .opaque _ t => t
  | .tuple _ => []      -- don't care (regex against a tuple)
  | .fset _ => []       -- don't care

mutual
/-- a property value as a matcher sees it -/
def valToM (txt : Str) : Val → MVal
  | .none => .none
  | .tuple xs => .tup (valsToM xs)
  | .int i => .atom txt (.int i)
  | .bool b => .atom txt (.bool b)
  | .str s => .atom txt (.str s)
  | .enum c m => .atom txt (.enum c m)
  | .opaque t s => .atom txt (.opaque t s)
  | .fset xs => .atom txt (.fset xs)
def valsToM : List Val → List MVal
  | [] => []
  | v :: r => valToM (Val.pyStr v) v :: valsToM r
end

/-- `getattr(n, f)` when `hasattr(n, f)`, for the dataclass fields of the node (properties and
child fields); `none` = no such attribute -/
def getField (n : Node) (f : Str) : Option MVal :=
  match n.hd.props.find? (·.name == f) with
  | some p => some (valToM p.txt p.canon)
  | none =>
    match n.kids.find? (·.name == f) with
    | some k =>
      some (if k.coll then .tup (k.nodes.map .node)
            else match k.nodes with
              | [] => .none
              | c :: _ => .node c)
    | none => none

namespace MVal
def isNone : MVal → Bool
  | .none => true
  | _ => false
/-- `value == ()` -/
def isEmptyTup : MVal → Bool
  | .tup [] => true
  | _ => false
/-- `str(value)` (nodes and tuples: don't care) -/
def strText : MVal → Str
  | .atom t _ => t
  | .none => "None".toList
  | _ => []
end MVal

/-! ### semantic parameters -/

structure Sem where
  rx : Str → Str → Bool
  ceq : Node → Node → Bool
  neq : Node → Node → Bool
  aeq : Val → Val → Bool

mutual
/-- Python `a == b` on field values: tuples element-wise (`x is y or x == y`) -/
def pyEq (S : Sem) : MVal → MVal → Bool
  | .node a, .node b => a.uid == b.uid || S.neq a b
  | .tup xs, .tup ys => pyEqList S xs ys
  | .atom _ v, .atom _ w => S.aeq v w
  | .none, .none => true
  | _, _ => false
def pyEqList (S : Sem) : List MVal → List MVal → Bool
  | [], [] => true
  | x :: xs, y :: ys => pyEq S x y && pyEqList S xs ys
  | _, _ => false
end

/-- `VarMatcher._match` once the variable is found: content equality when the captured value is
a node, `==` otherwise -/
def varEq (S : Sem) (captured value : MVal) : Bool :=
  match captured with
  | .node a =>
    match value with
    | .node b => S.ceq a b
    | _ => false
  | c => pyEq S c value

/-! ### dicts -/

abbrev Ctx := List (Str × MVal)

/-- `d.update(e)` / `{**d, **e}` -/
def Ctx.update (d e : Ctx) : Ctx := e ++ d

/-- the keys of a dict -/
def Ctx.keys (d : Ctx) : List Str := d.map (·.1)

/-! ### the pattern AST (grammar.py) -/

/-- `class_spec: ANY | CLASS ("|" CLASS)*` -/
inductive ClassSpec where
  | any
  | names (first : Str) (rest : List Str)
  deriving DecidableEq, Inhabited, Repr

mutual
/-- `tree: "(" class_spec field_spec* ")"` -/
inductive Pat where
  | mk (cls : ClassSpec) (fields : Fields)
/-- `field_spec: "@" FIELD_NAME ("=" (sequence | value))? capture?` (a list of them) -/
inductive Fields where
  | nil
  | cons (name : Str) (spec : FSpec) (cap : Option Str) (rest : Fields)
inductive FSpec where
  | any                                            -- no "=" part
  | val (v : PVal)
  | seq (items : Items) (tail : Option (Option Str)) -- `(ANY capture?)?`
/-- `(value capture?)*` -/
inductive Items where
  | nil
  | cons (v : PVal) (cap : Option Str) (rest : Items)
/-- `value: tree | var | NONE | ESCAPED_STRING` -/
inductive PVal where
  | tree (p : Pat)
  | var (x : Str)
  | none
  | re (s : Str)
end

instance : Inhabited Pat := ⟨.mk .any .nil⟩

def Items.length : Items → Nat
  | .nil => 0
  | .cons _ _ r => r.length + 1

/-! ### the matcher graph -/

mutual
inductive Matcher where
  | any (name : Option Str)                          -- AnyMatcher
  | valNone (name : Option Str)                      -- ValueMatcher(value=None)
  | valEmpty (name : Option Str)                     -- ValueMatcher(value=())
  | regex (name : Option Str) (re : Str)             -- RegexMatcher
  | var (name : Option Str) (x : Str)                -- VarMatcher
  /-- SequenceMatcher: `matchers` (tail already split off) and the name of the tail AnyMatcher -/
  | seq (name : Option Str) (ms : Matchers) (tail : Option (Option Str))
  | node (name : Option Str) (types : List Str) (content : Content)   -- NodeMatcher
inductive Matchers where
  | nil
  | cons (m : Matcher) (rest : Matchers)
inductive Content where
  | nil
  | cons (fname : Str) (m : Matcher) (rest : Content)
end

instance : Inhabited Matcher := ⟨.any none⟩

def Matcher.name : Matcher → Option Str
  | .any n | .valNone n | .valEmpty n | .regex n _ | .var n _ | .seq n _ _ | .node n _ _ => n

def Matchers.length : Matchers → Nat
  | .nil => 0
  | .cons _ r => r.length + 1

/-- `matchers.append(m)` -/
def Matchers.snoc : Matchers → Matcher → Matchers
  | .nil, x => .cons x .nil
  | .cons m r, x => .cons m (r.snoc x)

/-- `__post_init__`: `if isinstance(self.matchers[-1], AnyMatcher)`: split it off -/
def Matchers.splitTail : Matchers → Matchers × Option (Option Str)
  | .nil => (.nil, none)
  | .cons (.any nm) .nil => (.nil, some nm)
  | .cons m rest => ((Matchers.cons m (splitTail rest).1), (splitTail rest).2)

/-! ### PatternDefInterpreter -/

inductive ClsKind where
  | unknown | notNode | node
  deriving DecidableEq, Repr

/-- the ways a pattern definition is rejected after parsing -/
inductive CErr where
  | unknownClass | notNodeClass | dupCapture | unboundVar
  | badRegex     -- `re.error` ⇒ "Unexpected error"
  | runtime      -- a `RuntimeError` inside the interpreter ⇒ "Unexpected error"
  deriving DecidableEq, Repr

structure CEnv where
  cls : Str → ClsKind      -- `TYPES` lookup and `issubclass(type_, ASTNode)`
  rxOk : Str → Bool        -- `re.compile(s)` succeeds

/-- `SequenceMatcher(matchers=ms, tail_matcher=tail, name=name)` including `__post_init__` -/
def mkSeq (name : Option Str) (ms : Matchers) (tail : Option (Option Str)) : Except CErr Matcher :=
  match tail with
  | some t => .ok (.seq name ms (some t))        -- already split (a copy made by `replace`)
  | none =>
    match ms with
    | .nil => .error .runtime
    | .cons m r => .ok (.seq name (Matchers.cons m r).splitTail.1 (Matchers.cons m r).splitTail.2)

/-- `dataclasses.replace(m, name=nm)` -/
def Matcher.setName (m : Matcher) (nm : Str) : Except CErr Matcher :=
  match m with
  | .any _ => .ok (.any (some nm))
  | .valNone _ => .ok (.valNone (some nm))
  | .valEmpty _ => .ok (.valEmpty (some nm))
  | .regex _ r => .ok (.regex (some nm) r)
  | .var _ x => .ok (.var (some nm) x)
  | .seq _ ms tail => mkSeq (some nm) ms tail
  | .node _ ts c => .ok (.node (some nm) ts c)

/-- `_check_unique_and_get_capture` -/
def checkCap (seen : List Str) (c : Str) : Except CErr (List Str) :=
  if seen.contains c then .error .dupCapture else .ok (c :: seen)

/-- an optional trailing `capture` applied to a freshly built matcher -/
def applyCap (m : Matcher) (cap : Option Str) (seen : List Str) : Except CErr (Matcher × List Str) :=
  match cap with
  | none => .ok (m, seen)
  | some c =>
    match checkCap seen c with
    | .error e => .error e
    | .ok seen' =>
      match m.setName c with
      | .error e => .error e
      | .ok m' => .ok (m', seen')

/-- the class names of a `class_spec` resolved through `check_and_get_ast_node_type` -/
def resolveNames (K : CEnv) : List Str → Except CErr (List Str)
  | [] => .ok []
  | c :: r =>
    match K.cls c with
    | .unknown => .error .unknownClass
    | .notNode => .error .notNodeClass
    | .node =>
      match resolveNames K r with
      | .error e => .error e
      | .ok ts => .ok (c :: ts)

def resolveClasses (K : CEnv) : ClassSpec → Except CErr (List Str)
  | .any => .ok [astNodeName]
  | .names f r => resolveNames K (f :: r)

/-- the tail of `PatternDefInterpreter.sequence`: the `ANY capture?` part and the constructor -/
def finishSeq (ms : Matchers) (tail : Option (Option Str)) (seen : List Str) :
    Except CErr (Matcher × List Str) :=
  match tail with
  | none =>
    match ms with
    | .nil => .ok (.valEmpty none, seen)          -- `ValueMatcher(value=())`
    | .cons m r =>
      match mkSeq none (.cons m r) none with
      | .error e => .error e
      | .ok s => .ok (s, seen)
  | some none =>
    match mkSeq none (ms.snoc (.any none)) none with
    | .error e => .error e
    | .ok s => .ok (s, seen)
  | some (some c) =>
    match checkCap seen c with
    | .error e => .error e
    | .ok seen' =>
      match mkSeq none (ms.snoc (.any (some c))) none with
      | .error e => .error e
      | .ok s => .ok (s, seen')

mutual
/-- `PatternDefInterpreter.tree` -/
def compilePat (K : CEnv) : Pat → List Str → Except CErr (Matcher × List Str)
  | .mk cls fields, seen =>
    match resolveClasses K cls with
    | .error e => .error e
    | .ok types =>
      match compileFields K fields seen with
      | .error e => .error e
      | .ok (content, seen') => .ok (.node none types content, seen')
/-- the `for child in tree.children[1:]` loop with `field_spec` inlined -/
def compileFields (K : CEnv) : Fields → List Str → Except CErr (Content × List Str)
  | .nil, seen => .ok (.nil, seen)
  | .cons name spec cap rest, seen =>
    match compileFSpec K spec seen with
    | .error e => .error e
    | .ok (m, seen1) =>
      match applyCap m cap seen1 with
      | .error e => .error e
      | .ok (m', seen2) =>
        match compileFields K rest seen2 with
        | .error e => .error e
        | .ok (c, seen3) => .ok (.cons name m' c, seen3)
def compileFSpec (K : CEnv) : FSpec → List Str → Except CErr (Matcher × List Str)
  | .any, seen => .ok (.any none, seen)
  | .val v, seen => compileVal K v seen
  | .seq items tail, seen =>
    match compileItems K items seen with
    | .error e => .error e
    | .ok (ms, seen') => finishSeq ms tail seen'
/-- the `(value capture?)*` part of `PatternDefInterpreter.sequence` -/
def compileItems (K : CEnv) : Items → List Str → Except CErr (Matchers × List Str)
  | .nil, seen => .ok (.nil, seen)
  | .cons v cap rest, seen =>
    match compileVal K v seen with
    | .error e => .error e
    | .ok (m, seen1) =>
      match applyCap m cap seen1 with
      | .error e => .error e
      | .ok (m', seen2) =>
        match compileItems K rest seen2 with
        | .error e => .error e
        | .ok (ms, seen3) => .ok (.cons m' ms, seen3)
/-- `PatternDefInterpreter.value` -/
def compileVal (K : CEnv) : PVal → List Str → Except CErr (Matcher × List Str)
  | .tree p, seen => compilePat K p seen
  | .var x, seen => if seen.contains x then .ok (.var none x, seen) else .error .unboundVar
  | .none, seen => .ok (.valNone none, seen)
  | .re s, seen => if K.rxOk s then .ok (.regex none s, seen) else .error .badRegex
end

/-- `PatternDefInterpreter().visit(parsed)`: a fresh interpreter has seen no capture -/
def compile (K : CEnv) (p : Pat) : Except CErr Matcher :=
  match compilePat K p [] with
  | .error e => .error e
  | .ok (m, _) => .ok m

/-! ### matching -/

/-- `(ok, vars)`; `error` = `ASTPatternDefinitionError` raised by `VarMatcher._match` -/
abbrev Res := Except Unit (Bool × Ctx)

/-- `BaseMatcher.match` around the result of `_match` -/
def wrap (name : Option Str) (value : MVal) (r : Res) : Res :=
  match r with
  | .error e => .error e
  | .ok (false, _) => .ok (false, [])
  | .ok (true, vars) =>
    match name with
    | none => .ok (true, vars)
    | some nm => .ok (true, Ctx.update [(nm, value)] vars)     -- `{self.name: value, **new_vars}`

/-- what the tail AnyMatcher contributes: `tail_matcher.match(value[len(matchers):], local_ctx)[1]` -/
def tailVars (tail : Option Str) (rest : List MVal) : Ctx :=
  match tail with
  | none => []
  | some t => [(t, .tup rest)]

mutual
/-- `m._match(value, ctx)` -/
def Matcher.core (S : Sem) : Matcher → MVal → Ctx → Res
  | .any _, _, _ => .ok (true, [])
  | .valNone _, v, _ => .ok (v.isNone, [])
  | .valEmpty _, v, _ => .ok (v.isEmptyTup, [])
  | .regex _ re, v, _ => .ok (S.rx re v.strText, [])
  | .var _ x, v, ctx =>
    match ctx.lookup x with
    | none => .error ()
    | some c => .ok (varEq S c v, [])
  | .seq _ ms tail, v, ctx =>
    match v with
    | .tup xs =>
      if (tail.isNone && xs.length != ms.length) || (tail.isSome && xs.length < ms.length) then
        .ok (false, [])
      else
        match ms.runZip S xs ctx [] with
        | .error e => .error e
        | .ok none => .ok (false, [])
        | .ok (some (_, ret)) =>
          match tail with
          | none => .ok (true, ret)
          | some t => .ok (true, Ctx.update ret (tailVars t (xs.drop ms.length)))
    | _ => .ok (false, [])
  | .node _ types content, v, ctx =>
    match v with
    | .node n => if types.any (instOf n) then content.run S n ctx [] else .ok (false, [])
    | _ => .ok (false, [])
/-- the loop `for matcher, val in zip(self.matchers, value, strict=False)`; `none` = a matcher
failed; otherwise `(local_ctx, ret_vars)` -/
def Matchers.runZip (S : Sem) : Matchers → List MVal → Ctx → Ctx → Except Unit (Option (Ctx × Ctx))
  | .nil, _, l, r => .ok (some (l, r))
  | .cons _ _, [], l, r => .ok (some (l, r))
  | .cons m rest, x :: xs, l, r =>
    match wrap m.name x (m.core S x l) with
    | .error e => .error e
    | .ok (false, _) => .ok none
    | .ok (true, nv) => rest.runZip S xs (Ctx.update l nv) (Ctx.update r nv)
/-- the loop `for fname, submatcher in self.content` of `NodeMatcher._match` -/
def Content.run (S : Sem) : Content → Node → Ctx → Ctx → Res
  | .nil, _, _, r => .ok (true, r)
  | .cons f m rest, n, l, r =>
    match getField n f with
    | none => .ok (false, [])
    | some fv =>
      match wrap m.name fv (m.core S fv l) with
      | .error e => .error e
      | .ok (false, _) => .ok (false, [])
      | .ok (true, nv) => rest.run S n (Ctx.update l nv) (Ctx.update r nv)
end

/-- `m.match(value, ctx)` -/
def Matcher.run (S : Sem) (m : Matcher) (v : MVal) (ctx : Ctx) : Res := wrap m.name v (m.core S v ctx)

/-- `matcher.match(node)` (no context given) -/
def matchNode (S : Sem) (m : Matcher) (n : Node) : Res := m.run S (.node n) []

/-! ### MultiPatternMatcher.match -/

inductive MultiErr where
  | keyError      -- a name in `rules` that is no pattern name (don't care)
  | defError
  deriving DecidableEq, Repr

/-- `for rule in rules: ok, caps = self._name_to_matcher[rule].match(node); if ok: return rule, caps` -/
def multiMatch (S : Sem) (tbl : List (Str × Matcher)) : List Str → Node → Except MultiErr (Option (Str × Ctx))
  | [], _ => .ok none
  | r :: rest, n =>
    match tbl.lookup r with
    | none => .error .keyError
    | some m =>
      match matchNode S m n with
      | .error _ => .error .defError
      | .ok (true, caps) => .ok (some (r, caps))
      | .ok (false, _) => multiMatch S tbl rest n

end PM
end PyOak
