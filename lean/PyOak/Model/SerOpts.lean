/-
Model of the *scope of serialization options* (property C16):
`DataClassSerializeMixin` (src/pyoak/serialize.py), `ASTNode.__post_serialize__`
(src/pyoak/node.py) and the `Source` / `No*` hooks of src/pyoak/origin.py.

The two name-mangled class attributes `__serialization_options` / `__mashumaro_dialect` are the
process-global state `G`.  A call (`as_dict`, `as_obj`, `to_json`, …) *enters* (updates the
option dict, stores the dialect), runs its body, and resets both in a `finally`.  Everything that
runs inside the body — mashumaro's generated `to_dict` calling `_serialize` of every nested
`SerializableType`, every `__post_serialize__`, the index-based `Source._serialize`, a
`__pre_deserialize__` hook of a user class — *reads* the globals; nothing in pyoak writes them
while a call is in progress (no nested `as_dict`), so the body is a function of the entered state.

Objects are a generic rose tree of "serializable objects" (kind tag, class name, fields in
dataclass order, child field names for nodes, registry index for sources); the empty `No*`
singletons are `SObj.empty`.  Output is an ordered JSON-like tree `J`.
No Mathlib.  Text is `Str = List Char`.
-/
import PyOak.Model.Core
namespace PyOak
namespace SerOpts

/-! ## keys the library uses -/
def TYPE_KEY : Str := "__type".toList
def childrenKey : Str := "_children".toList
def originKey : Str := "origin".toList
def sourceKey : Str := "source".toList
def rawKey : Str := "_raw".toList
def idxKey : Str := "idx".toList
def sourceUriKey : Str := "source_uri".toList
def sourceTypeKey : Str := "source_type".toList
def sourceCls : Str := "Source".toList

/-! ## options and the global state -/

/-- `ASTSerializationDialects` -/
inductive AstDialect where
  | explorer | test
  deriving DecidableEq, Repr, Inhabited

/-- the mashumaro dialects that occur: the two built-in ones and one user dialect that changes
how `int` is written (`5` ↦ `"#5"`) -/
inductive MD where
  | orjson | msgpack | custom
  deriving DecidableEq, Repr, Inhabited

/-- a `serialization_options` dict restricted to the keys pyoak reads; `none` = key absent -/
structure Opts where
  skip : Option Bool := none        -- SerializationOption.SKIP_CLASS
  sort : Option Bool := none        -- SerializationOption.SORT_KEYS
  src : Option Bool := none         -- SOURCE_OPTIMIZED_SERIALIZATION_KEY
  ast : Option AstDialect := none   -- AST_SERIALIZE_DIALECT_KEY
  deriving DecidableEq, Repr, Inhabited

/-- `dict.update`: keys of `c` override -/
def Opts.update (g c : Opts) : Opts :=
  { skip := match c.skip with | some b => some b | none => g.skip
    sort := match c.sort with | some b => some b | none => g.sort
    src := match c.src with | some b => some b | none => g.src
    ast := match c.ast with | some b => some b | none => g.ast }

/-- `.get(SKIP_CLASS, False)` … -/
def Opts.skipOn (o : Opts) : Bool := o.skip.getD false
def Opts.sortOn (o : Opts) : Bool := o.sort.getD false
def Opts.srcOn (o : Opts) : Bool := o.src.getD false

/-- the two class-level slots -/
structure G where
  opts : Opts := {}
  md : Option MD := none
  deriving DecidableEq, Repr, Inhabited

def G.customOn (g : G) : Bool := g.md == some MD.custom

/-! ## output: ordered JSON-like trees -/
mutual
inductive J where
  | str (s : Str)            -- a string scalar
  | lit (s : Str)            -- any other scalar, in canonical text (`7`, `1.5`, `true`, `null`)
  | arr (xs : List J)
  | map (fs : List JF)       -- *ordered* mapping
inductive JF where
  | mk (key : Str) (val : J)
end

instance : Inhabited J := ⟨.lit []⟩
instance : Inhabited JF := ⟨.mk [] default⟩

def JF.key : JF → Str | .mk k _ => k
def JF.val : JF → J | .mk _ v => v
def keys (fs : List JF) : List Str := fs.map JF.key

/-- a scalar as the output carries it -/
inductive Scalar where
  | str (s : Str)
  | lit (s : Str)
  deriving Inhabited

def Scalar.toJ : Scalar → J
  | .str s => .str s
  | .lit s => .lit s

/-! ## input: serializable objects -/
inductive Kind where
  | node | origin | source | position | point | other
  deriving DecidableEq, Repr, Inhabited

mutual
inductive SVal where
  | atom (dflt custom : Scalar)  -- a scalar: what is written normally / under the custom dialect
  | seq (xs : List SVal)       -- tuple / list / frozenset (iteration order)
  | obj (o : SObj)
  | bomb                       -- a value whose serialization raises
inductive SObj where
  | empty                      -- NoOrigin / NoSource / NoPosition: `_serialize` returns `{}`
  | mk (kind : Kind) (cls : Str) (idx : Nat) (fields : List SField) (childNames : List Str)
inductive SField where
  | mk (name : Str) (v : SVal)
end

instance : Inhabited SObj := ⟨.empty⟩

def SField.name : SField → Str | .mk n _ => n
def SField.val : SField → SVal | .mk _ v => v

/-! ## `__post_serialize__` -/

/-- `sorted(d.items(), key=itemgetter(0))` -/
def sortKeys (d : List JF) : List JF := sortByName JF.key d

/-- `DataClassSerializeMixin.__post_serialize__`: type tag first unless suppressed, then the
entries of `d`, sorted by key if requested -/
def postMixin (o : Opts) (cls : Str) (d : List JF) : List JF :=
  let body := if o.sortOn then sortKeys d else d
  if o.skipOn then body else .mk TYPE_KEY (.str cls) :: body

/-- `d[k] = v` on an ordered dict: replace in place, else append -/
def setKey (k : Str) (v : J) : List JF → List JF
  | [] => [.mk k v]
  | .mk k' v' :: r => if k' = k then .mk k v :: r else .mk k' v' :: setKey k v r

/-- `d.pop(k, None)` (keys of a dict are unique) -/
def popKey (k : Str) (d : List JF) : List JF := d.filter fun f => !(f.key == k)

/-- the placeholder source of the AST_TEST dialect, written like any other mapping of the call
(repaired code: the literal used to carry `__type` unconditionally and in unsorted order) -/
def testSource (o : Opts) : J :=
  .map (postMixin o sourceCls [.mk sourceUriKey (.str []), .mk sourceTypeKey (.str [])])

/-- `out.get("origin", {})["source"] = …` -/
def patchOrigin (dummy : J) : List JF → List JF
  | [] => []
  | .mk k v :: r =>
    if k = originKey then
      match v with
      | .map fs => .mk k (.map (setKey sourceKey dummy fs)) :: r
      | other => .mk k other :: r
    else .mk k v :: patchOrigin dummy r

/-- `ASTNode.__post_serialize__` (repaired code: `_children` is added to `d` *before* the mixin
step, so that it takes part in the sorting) -/
def postNode (o : Opts) (cls : Str) (childNames : List Str) (d : List JF) : List JF :=
  let d1 := if o.ast = some .explorer then setKey childrenKey (.arr (childNames.map .str)) d else d
  let out := postMixin o cls d1
  if o.ast = some .test then patchOrigin (testSource o) out else out

/-- dispatch of `__post_serialize__` on the kind of object -/
def post (o : Opts) (kind : Kind) (cls : Str) (childNames : List Str) (d : List JF) : List JF :=
  match kind with
  | .node => postNode o cls childNames d
  | .source => popKey rawKey (postMixin o cls d)
  | _ => postMixin o cls d

/-! ## `_serialize` / mashumaro's `to_dict` -/
mutual
def serVal (g : G) : SVal → Except Unit J
  | .atom d c => .ok (if g.customOn then c.toJ else d.toJ)
  | .seq xs => match serVals g xs with
    | .ok js => .ok (.arr js)
    | .error e => .error e
  | .obj o => serObj g o
  | .bomb => .error ()
def serVals (g : G) : List SVal → Except Unit (List J)
  | [] => .ok []
  | x :: r => match serVal g x with
    | .error e => .error e
    | .ok j => match serVals g r with
      | .error e => .error e
      | .ok js => .ok (j :: js)
/-- `obj._serialize()` -/
def serObj (g : G) : SObj → Except Unit J
  | .empty => .ok (.map [])
  | .mk kind cls idx fields cn =>
    if kind = .source ∧ g.opts.srcOn = true then .ok (.map [.mk idxKey (.lit (natStr idx))])
    else match serFields g fields with
      | .error e => .error e
      | .ok d => .ok (.map (post g.opts kind cls cn d))
/-- the generated `to_dict`: fields in dataclass order -/
def serFields (g : G) : List SField → Except Unit (List JF)
  | [] => .ok []
  | f :: r => match serField g f with
    | .error e => .error e
    | .ok jf => match serFields g r with
      | .error e => .error e
      | .ok d => .ok (jf :: d)
def serField (g : G) : SField → Except Unit JF
  | .mk n v => match serVal g v with
    | .error e => .error e
    | .ok j => .ok (.mk n j)
end

/-! ## decidable side conditions of the theorems (evaluated by the driver on every request) -/

mutual
/-- the Boolean predicate `w` holds of every (non-placeholder) object nested in `o` -/
def allObj (w : SObj → Bool) : SObj → Bool
  | .empty => true
  | .mk k c i fs cn => w (.mk k c i fs cn) && allObjFs w fs
def allObjFs (w : SObj → Bool) : List SField → Bool
  | [] => true
  | f :: r => allObjF w f && allObjFs w r
def allObjF (w : SObj → Bool) : SField → Bool
  | .mk _ v => allObjV w v
def allObjV (w : SObj → Bool) : SVal → Bool
  | .atom _ _ => true
  | .seq xs => allObjVs w xs
  | .obj o => allObj w o
  | .bomb => true
def allObjVs (w : SObj → Bool) : List SVal → Bool
  | [] => true
  | x :: r => allObjV w x && allObjVs w r
end


/-- no dataclass field is itself called `__type` -/
def noTagField1 : SObj → Bool
  | .empty => true
  | .mk _ _ _ fs _ => fs.all fun f => !(f.name == TYPE_KEY)


/-- no dataclass field is itself called `_children` -/
def noChildrenField1 : SObj → Bool
  | .empty => true
  | .mk _ _ _ fs _ => fs.all fun f => !(f.name == childrenKey)


/-- a node's `origin` is `NoOrigin` or an `Origin` object (which always has a `source` field) -/
def originLike : SVal → Bool
  | .obj .empty => true
  | .obj (.mk .origin _ _ fs _) => (fs.map SField.name).contains sourceKey
  | _ => false

def originOK1 : SObj → Bool
  | .mk .node _ _ fs _ => fs.all fun f => !(f.name == originKey) || originLike f.val
  | _ => true

/-- all three side conditions, everywhere in the tree -/
def wellFormed (o : SObj) : Bool :=
  allObj noTagField1 o && allObj noChildrenField1 o && allObj originOK1 o

/-! ## deserialization input -/

/-- what matters of an input dict: where it is malformed, where an `int`-annotated scalar stands
(written in the custom dialect's format or not), where a mapping belongs to a class with a
`__pre_deserialize__` hook that reads the options -/
inductive DJ where
  | plain
  | int (custom : Bool)
  | bad
  | node (probe : Bool) (xs : List DJ)    -- a mapping or a list

mutual
/-- `cls._deserialize(value)`: the global states seen by the hooks, in visiting order; raises at
the first malformed spot or at an `int` written in the other dialect's format -/
def deser (g : G) : DJ → Except Unit (List G)
  | .plain => .ok []
  | .int c => if c = g.customOn then .ok [] else .error ()
  | .bad => .error ()
  | .node p xs => match deserL g xs with
    | .error e => .error e
    | .ok l => .ok (if p then g :: l else l)
def deserL (g : G) : List DJ → Except Unit (List G)
  | [] => .ok []
  | x :: r => match deser g x with
    | .error e => .error e
    | .ok l => match deserL g r with
      | .error e => .error e
      | .ok l' => .ok (l ++ l')
end

/-! ## calls -/
inductive CallKind where
  | asDict | toJson | toMsgpck | toYaml | asObj | fromJson | fromMsgpck | fromYaml
  deriving DecidableEq, Repr, Inhabited

/-- the dialect a wrapper passes down to `as_dict` / `as_obj` -/
def effMd : CallKind → Option MD → Option MD
  | .toJson, _ | .fromJson, _ => some .orjson
  | .toMsgpck, _ | .fromMsgpck, _ => some .msgpack
  | _, m => m

inductive Input where
  | ser (o : SObj)
  | deser (d : DJ)
  | unparsable        -- text / bytes that the front end (orjson, msgpack, yaml) rejects

inductive Out where
  | j (j : J)
  | seen (l : List G)

structure Call where
  kind : CallKind
  opts : Option Opts      -- `serialization_options=` (None = not given)
  md : Option MD          -- `mashumaro_dialect=`
  input : Input

/-- the two assignments before the `try:` -/
def enter (g : G) (c : Call) : G :=
  { opts := match c.opts with
      | some o => g.opts.update o
      | none => g.opts
    md := effMd c.kind c.md }

/-- what runs inside the `try:` -/
def body (g : G) : Input → Except Unit Out
  | .ser o => match serObj g o with
    | .ok j => .ok (.j j)
    | .error e => .error e
  | .deser d => match deser g d with
    | .ok l => .ok (.seen l)
    | .error e => .error e
  | .unparsable => .error ()

/-- one public call: new global state and outcome.  `from_json(garbage)` raises in `orjson.loads`
before `as_obj` is entered; otherwise enter, `try` body `finally` reset. -/
def call (g : G) (c : Call) : G × Except Unit Out :=
  match c.input with
  | .unparsable => (g, .error ())
  | inp =>
    let g1 := enter g c
    match body g1 inp with
    | .ok r => ({}, .ok r)
    | .error e => ({}, .error e)

/-- a history of calls: the outcomes and the state after each call, and the final state -/
def runSeq (g : G) : List Call → List (Except Unit Out × G) × G
  | [] => ([], g)
  | c :: r =>
    let (g1, out) := call g c
    let (outs, g2) := runSeq g1 r
    ((out, g1) :: outs, g2)

end SerOpts
end PyOak
