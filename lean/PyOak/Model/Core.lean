/-
The node universe shared by all models.

A `Node` is one ASTNode *object*: `uid` is object identity ("the very same object"), the class
is carried with its MRO (so `isinstance` is a list membership), properties carry the dataclass
flags of their field together with the texts `type(v)` / `str(v)` exactly as CPython renders
them (CPython's `str`/`type` are in the trusted base, the model never re-implements them) and a
structural description `canon` used by the specifications.  Child fields are kept in
*declaration order*; a single (required/optional) child field holds `[]` (None) or `[n]`,
a tuple field holds its elements.  `truthy` is what `bool(node)` returns (a node class may
define `__len__`): no specification mentions it, models of code that tests truthiness do.
Text is `List Char` throughout.
-/
import PyOak.Sexp
namespace PyOak

inductive Val where
  | int (i : Int)
  | bool (b : Bool)
  | none
  | str (s : Str)
  | enum (cls member : Str)
  | opaque (ty text : Str)      -- floats, paths, … : compared as the two texts
  | tuple (xs : List Val)
  | fset (xs : List Val)        -- in *iteration order*
  deriving Inhabited, Repr

structure Org where
  key : Nat        -- two origins are `==` iff their keys are equal
  fqn : Str
  deriving DecidableEq, Inhabited, Repr

structure PropV where
  name : Str
  ty : Str         -- text of `type(value)`
  txt : Str        -- text of `str(value)`
  canon : Val
  compare : Bool
  init : Bool
  deriving Inhabited, Repr

structure Head where
  uid : Nat
  cls : Str
  mro : List Str   -- own class first … `ASTNode` … `object`
  org : Org
  props : List PropV     -- user properties (not id / content_id / origin), declaration order
  truthy : Bool
  deriving Inhabited, Repr

mutual
inductive Node where
  | mk (hd : Head) (kids : List Kid)
inductive Kid where
  | mk (name : Str) (coll : Bool) (nodes : List Node)
end

instance : Inhabited Node := ⟨.mk default []⟩
instance : Inhabited Kid := ⟨.mk [] false []⟩

namespace Node
def hd : Node → Head | .mk h _ => h
def kids : Node → List Kid | .mk _ k => k
def uid (n : Node) : Nat := n.hd.uid
def cls (n : Node) : Str := n.hd.cls
def org (n : Node) : Org := n.hd.org
/-- `isinstance(n, C)` -/
def isInst (n : Node) (c : Str) : Bool := n.hd.mro.contains c
end Node

namespace Kid
def name : Kid → Str | .mk n _ _ => n
def coll : Kid → Bool | .mk _ c _ => c
def nodes : Kid → List Node | .mk _ _ ns => ns
end Kid

/-- position of a child inside its parent: field name and tuple index (None for single fields) -/
structure Edge where
  field : Str
  idx : Option Nat
  deriving DecidableEq, Inhabited, Repr

mutual
def Node.size : Node → Nat
  | .mk _ ks => 1 + kidsSize ks
def kidsSize : List Kid → Nat
  | [] => 0
  | k :: r => k.size + kidsSize r
def Kid.size : Kid → Nat
  | .mk _ _ ns => nodesSize ns
def nodesSize : List Node → Nat
  | [] => 0
  | n :: r => n.size + nodesSize r
end

theorem Node.size_pos (n : Node) : 0 < n.size := by
  cases n; simp [Node.size]; omega

/-- insertion sort by a key with a strict order, stable (models `sorted(..., key=...)`) -/
def insertBy {α : Type} (lt : α → α → Bool) (x : α) : List α → List α
  | [] => [x]
  | y :: r => if lt y x then y :: insertBy lt x r else x :: y :: r

def sortBy {α : Type} (lt : α → α → Bool) : List α → List α
  | [] => []
  | x :: r => insertBy lt x (sortBy lt r)

/-- Python's `str.__lt__`: lexicographic by code point -/
def strLt : Str → Str → Bool
  | [], [] => false
  | [], _ :: _ => true
  | _ :: _, [] => false
  | a :: r, b :: s => if a.toNat < b.toNat then true else if b.toNat < a.toNat then false else strLt r s

/-- stable sort by name: `sorted(xs, key=name)`.  (`insertBy` puts `x` before the first element
that is not strictly smaller, and `sortBy` folds from the right, so equal keys keep their order.) -/
def sortByName {α : Type} (name : α → Str) (xs : List α) : List α :=
  sortBy (fun a b => strLt (name a) (name b)) xs

/-- lark `common.WS`: `[ \t\f\r\n]+` -/
def isWS (c : Char) : Bool := c == ' ' || c == '\t' || c == '\x0c' || c == '\r' || c == '\n'
def isLetter (c : Char) : Bool := ('a' ≤ c && c ≤ 'z') || ('A' ≤ c && c ≤ 'Z')
def isDigitC (c : Char) : Bool := '0' ≤ c && c ≤ '9'
def isNameStart (c : Char) : Bool := isLetter c || c == '_'
def isNameChar (c : Char) : Bool := isLetter c || c == '_' || isDigitC c

/-- `str(n)` for a natural number -/
def natStr (n : Nat) : Str := (Nat.repr n).toList

end PyOak
