/-
The legacy parent-aware node life-cycle (src/pyoak/legacy/node.py, class `AwareASTNode`),
modelled as a state machine over a heap of mutable records and the registry `_nodes`.

  heap      every object ever created; `uid` = allocation number = object identity
  registry  `AwareASTNode._nodes` : id ↦ object  (weak values: see `gcNew` in Handle/Legacy.lean;
            everything the harness has ever seen stays alive)

Each function mirrors the *shape* of the (repaired) implementation: the early returns of
`detach`, the dry run `_attach_check` followed by `_attach_inner` with its recursion into
detached children, the order of side effects and the roll-back branches of `replace` and
`replace_with`, `_replace_child` with its index shift and its conditional `_reset_content_id`
walk, `duplicate` bottom-up.  Recursion over the object graph is by fuel (`heap.length + 1`);
running out of fuel is the model's rendering of an endless walk (`Err.hang`).

The two digests are parameters: `H` for ids (`sha256` of the id pre-image) and `Hc` for content
ids.  Nothing in the invariant proofs depends on them being injective.

Not modelled (stated as assumptions of C18/C19): constructor arguments `original_id` /
`id_collision_with` other than `None` ("set automatically, DO NOT SET MANUALLY": the
deserialization branches of `__post_init__`), serialization, the cached legacy `_xpath`.
-/
import PyOak.Model.Core
namespace PyOak.Legacy
open PyOak

inductive FKind where
  | one | opt | tup | lst
  deriving DecidableEq, Repr, Inhabited

def FKind.isSeq : FKind → Bool
  | .tup | .lst => true
  | _ => false

structure LField where
  name : Str
  kind : FKind
  allowed : List Str        -- `ChildFieldTypeInfo.types` (class names)
  kids : List Nat
  deriving DecidableEq, Repr, Inhabited

structure LProp where
  name : Str
  txt : Str                 -- `str(value)`
  compare : Bool
  deriving DecidableEq, Repr, Inhabited

structure LObj where
  cls : Str
  mro : List Str
  fqn : Str                 -- `origin.fqn`
  props : List LProp
  id : Str
  origId : Option Str
  collWith : Option Str
  cid : Str
  fields : List LField      -- child fields, declaration order
  pid : Option Str          -- `_parent_id`
  pfield : Option Str       -- `_parent_field` (its name)
  pindex : Option Nat       -- `_parent_index`
  deriving DecidableEq, Repr, Inhabited

abbrev Reg := List (Str × Nat)

structure LState where
  heap : Nat → LObj := fun _ => default     -- object behind a uid (total: junk beyond `size`)
  size : Nat := 0                           -- number of objects created so far
  reg : Reg := []
  deriving Inhabited

inductive Err where
  | dupChildren | idCollision | parentCollision | registryCollision
  | replaceError | replaceWithError | transformError
  | hang          -- an upward / downward walk that does not end
  | internal      -- KeyError / RuntimeError / TypeError: never on a consistent state
  | badRequest    -- the request names an object that does not exist
  deriving DecidableEq, Repr, Inhabited

/-! ### registry and heap primitives -/

def regGet (r : Reg) (k : Str) : Option Nat :=
  match r with
  | [] => none
  | (k', u) :: rest => if k' = k then some u else regGet rest k

def regDel : Reg → Str → Reg
  | [], _ => []
  | (k', u) :: r, k => if k' = k then regDel r k else (k', u) :: regDel r k

def regSet (r : Reg) (k : Str) (u : Nat) : Reg := (k, u) :: regDel r k

namespace LState

/-- the object behind a reference -/
def obj (s : LState) (u : Nat) : LObj := s.heap u

def modify (s : LState) (u : Nat) (f : LObj → LObj) : LState :=
  { s with heap := fun v => if v = u then f (s.heap u) else s.heap v }

def alloc (s : LState) (o : LObj) : LState × Nat :=
  ({ s with heap := fun v => if v = s.size then o else s.heap v, size := s.size + 1 }, s.size)

def idOf (s : LState) (u : Nat) : Str := (s.obj u).id

def lookup (s : LState) (k : Str) : Option Nat := regGet s.reg k

/-- `node.detached` : `_nodes.get(self.id) is not self` -/
def detached (s : LState) (u : Nat) : Bool := s.lookup (s.idOf u) != some u

/-- `node.parent` -/
def parent (s : LState) (u : Nat) : Option Nat :=
  match (s.obj u).pid with
  | none => none
  | some k => s.lookup k

def isAttachedRoot (s : LState) (u : Nat) : Bool := (s.parent u).isNone && !s.detached u
def isAttachedSubtree (s : LState) (u : Nat) : Bool := (s.parent u).isSome && !s.detached u

def register (s : LState) (u : Nat) : LState := { s with reg := regSet s.reg (s.idOf u) u }
def unregister (s : LState) (k : Str) : LState := { s with reg := regDel s.reg k }

end LState

/-! ### children -/

/-- `(child, field name, index)` for one field: `get_child_nodes_with_field` -/
def posFrom (name : Str) : Nat → List Nat → List (Nat × Str × Option Nat)
  | _, [] => []
  | i, c :: r => (c, name, some i) :: posFrom name (i + 1) r

def LField.pos (f : LField) : List (Nat × Str × Option Nat) :=
  if f.kind.isSeq then posFrom f.name 0 f.kids else f.kids.map fun c => (c, f.name, none)

def LObj.kidsPos (o : LObj) : List (Nat × Str × Option Nat) := o.fields.flatMap LField.pos

/-- `get_child_nodes` -/
def LObj.kidList (o : LObj) : List Nat := o.fields.flatMap (·.kids)

/-! ### digests -/

def colon : Str := [':']

/-- `i or -1` rendered: index 0 and None both give `-1` -/
def idxText : Option Nat → Str
  | none => "-1".toList
  | some 0 => "-1".toList
  | some (n + 1) => natStr (n + 1)

def propsText (ps : List LProp) : Str :=
  (sortByName LProp.name ps).flatMap fun p => colon ++ p.name ++ ['='] ++ p.txt

/-- the children part of both pre-images: sorted by `(field name, index or -1)`; inside one field
the declaration order already is the index order, so a stable sort by name is that order -/
def kidsText (s : LState) (o : LObj) (what : LObj → Str) : Str :=
  (sortByName (fun e : Nat × Str × Option Nat => e.2.1) o.kidsPos).flatMap fun e =>
    colon ++ e.2.1 ++ ['['] ++ idxText e.2.2 ++ "]=".toList ++ what (s.obj e.1)

def idPre (s : LState) (o : LObj) : Str :=
  o.cls ++ colon ++ o.fqn ++ propsText o.props ++ kidsText s o (·.id)

def cidPre (s : LState) (o : LObj) : Str :=
  o.cls ++ propsText (o.props.filter (·.compare)) ++ kidsText s o (·.cid)

section machine
variable (H Hc : Str → Str)

namespace LState

/-- `_set_content_id` -/
def setContentId (s : LState) (u : Nat) : LState :=
  s.modify u fun o => { o with cid := Hc (cidPre s o) }

/-- `_reset_content_id`: this node and all its parents -/
def resetContentId (s : LState) : Nat → Nat → LState × Bool
  | 0, _ => (s, false)
  | fuel + 1, u =>
    let s1 := s.setContentId Hc u
    match s1.parent u with
    | none => (s1, true)
    | some p => resetContentId s1 fuel p

def clearParent (s : LState) (u : Nat) : LState :=
  s.modify u fun o => { o with pid := none, pfield := none, pindex := none }

/-- `c._set_parent(parent, field, index)` (stores `parent.id`) -/
def setParent (s : LState) (c p : Nat) (f : Str) (i : Option Nat) : LState :=
  s.modify c fun o => { o with pid := some (s.idOf p), pfield := some f, pindex := i }

/-- `_get_next_unique_id` -/
def nextUnique (s : LState) (base : Str) : Nat → Nat → Str
  | 0, i => base ++ '_' :: natStr i
  | fuel + 1, i =>
    let cand := base ++ '_' :: natStr i
    if (s.lookup cand).isSome then nextUnique s base fuel (i + 1) else cand

end LState

/-- `_check_unique_children`: a child id seen twice -/
def dupIn (s : LState) : List Str → List Nat → Bool
  | _, [] => false
  | seen, c :: r => if seen.contains (s.idOf c) then true else dupIn s (s.idOf c :: seen) r

abbrev Collision := Option (Nat × Nat)

/-- the bookkeeping of `_attach_plan` -/
structure Plan where
  pending : List (Str × Nat) := []    -- id ↦ node, for the nodes that are going to be registered
  seen : List (Nat × Nat) := []       -- child ↦ the node it was found in
  order : List Nat := []              -- the nodes to attach, children before parents
  deriving Repr, Inhabited

/-- the loop over the children in `_attach_plan` -/
def planKids (s : LState) (rec : Nat → Plan → Except Err (Plan × Collision)) (u : Nat) :
    List Nat → Plan → Except Err (Plan × Collision)
  | [], pl => .ok (pl, none)
  | c :: cs, pl =>
    match pl.seen.find? (fun e => e.1 = c) with
    | some (_, p) => .ok (pl, some (c, p))
    | none =>
      let pl1 := { pl with seen := (c, u) :: pl.seen }
      if s.detached c then
        match rec c pl1 with
        | .error e => .error e
        | .ok (pl2, some col) => .ok (pl2, some col)
        | .ok (pl2, none) => planKids s rec u cs pl2
      else if !s.isAttachedRoot c then .ok (pl1, some (c, (s.parent c).getD 0))
      else planKids s rec u cs pl1

/-- `_attach_plan`: validates the whole subtree and collects the nodes to attach; changes nothing -/
def attachPlan (s : LState) : Nat → Nat → Plan → Except Err (Plan × Collision)
  | 0, _, _ => .error .hang
  | fuel + 1, u, pl =>
    let k := s.idOf u
    if (s.lookup k).isSome || (regGet pl.pending k).isSome then .error .registryCollision
    else
      match planKids s (attachPlan s fuel) u (s.obj u).kidList { pl with pending := (k, u) :: pl.pending } with
      | .error e => .error e
      | .ok (pl1, some col) => .ok (pl1, some col)
      | .ok (pl1, none) => .ok ({ pl1 with order := pl1.order ++ [u] }, none)

/-- give every child its parent (the loop in `_attach`, the roll-back of `replace`) -/
def reparent (u : Nat) : LState → List (Nat × Str × Option Nat) → LState
  | s, [] => s
  | s, (c, f, i) :: r => reparent u (s.setParent c u f i) r

/-- one round of the loop in `_attach` -/
def commitOne (s : LState) (n : Nat) : LState :=
  ((reparent n s (s.obj n).kidsPos).setContentId Hc n).register n

/-- `_attach` -/
def attach (fuel : Nat) (s : LState) (u : Nat) : LState × Except Err Unit :=
  match attachPlan s fuel u {} with
  | .error e => (s, .error e)
  | .ok (_, some _) => (s, .error .parentCollision)
  | .ok (pl, none) => (pl.order.foldl (commitOne Hc) s, .ok ())

/-- the loop over the children in `detach`; `false` when a nested walk did not end -/
def detachKids (rec : LState → Nat → LState × Option Bool) (onlySelf : Bool) : LState → List Nat → LState × Bool
  | s, [] => (s, true)
  | s, c :: cs =>
    let s1 := s.clearParent c
    if onlySelf then detachKids rec onlySelf s1 cs
    else
      match rec s1 c with
      | (s2, none) => (s2, false)
      | (s2, some _) => detachKids rec onlySelf s2 cs

/-- `detach(only_self)`; the result is `none` when the walk does not end -/
def detachGo : Nat → Bool → LState → Nat → LState × Option Bool
  | 0, _, s, _ => (s, none)
  | fuel + 1, onlySelf, s, u =>
    if s.detached u then (s, some true)
    else if !s.isAttachedRoot u then (s, some false)
    else
      match detachKids (detachGo fuel false) onlySelf s (s.obj u).kidList with
      | (s1, false) => (s1, none)
      | (s1, true) => (s1.unregister (s1.idOf u), some true)

/-! ### construction -/

structure NewSpec where
  cls : Str
  mro : List Str
  fqn : Str
  props : List LProp
  idArg : Option Str            -- `id=` given explicitly
  ensureUnique : Bool
  asDuplicate : Bool
  createDetached : Bool
  fields : List LField
  deriving Repr, Inhabited

def unsetId : Str := "~~~UNSET~~~".toList

/-- the object as `__init__` leaves it -/
def newObj (n : NewSpec) : LObj :=
  { cls := n.cls, mro := n.mro, fqn := n.fqn, props := n.props, id := n.idArg.getD unsetId, origId := none,
    collWith := none, cid := unsetId, fields := n.fields, pid := none, pfield := none, pindex := none }

/-- the id part of `__post_init__`: the id, `id_collision_with`, `original_id` the node gets -/
def chooseId (s0 : LState) (u : Nat) (n : NewSpec) : Except Err (Str × Option Str × Option Str) :=
  let newId := match n.idArg with
    | some k => k
    | none => H (idPre s0 (s0.obj u))
  if n.createDetached then .ok (newId, none, none)
  else if (s0.lookup newId).isSome then
    if !n.ensureUnique || n.asDuplicate then
      let nid := s0.nextUnique newId (s0.size + 1) 1
      if !n.asDuplicate then .ok (nid, some newId, none) else .ok (nid, none, some newId)
    else .error .idCollision
  else .ok (newId, none, none)

/-- `object.__setattr__(self, "id" / "id_collision_with" / "original_id", …)` + `_clear_parent()` -/
def setIds (nid : Str) (coll orig : Option Str) (o : LObj) : LObj :=
  { o with id := nid, collWith := coll, origId := orig, pid := none, pfield := none, pindex := none }

/-- the tail of `__post_init__`: `_attach("create")` unless detached, then `_set_content_id()` -/
def finishConstruct (fuel : Nat) (s1 : LState) (u : Nat) (det : Bool) : LState × Except Err Nat :=
  if det then (s1.setContentId Hc u, .ok u)
  else
    match attach Hc fuel s1 u with
    | (s2, .error e) => (s2, .error e)
    | (s2, .ok ()) => (s2.setContentId Hc u, .ok u)

/-- `__init__` + `__post_init__`.  The object exists from the first line on (it is the `self`
of `__post_init__`), so it is allocated first; a rejected construction leaves it behind as
garbage that nothing refers to. -/
def construct (fuel : Nat) (s : LState) (n : NewSpec) : LState × Except Err Nat :=
  let s0 := (s.alloc (newObj n)).1
  let u := s.size
  if dupIn s0 [] (s0.obj u).kidList then (s0, .error .dupChildren)
  else
    match chooseId H s0 u n with
    | .error e => (s0, .error e)
    | .ok (nid, coll, orig) => finishConstruct Hc fuel (s0.modify u (setIds nid coll orig)) u n.createDetached

/-! ### `_replace_child` -/

def setField (s : LState) (p : Nat) (f : Str) (ks : List Nat) : LState :=
  s.modify p fun o => { o with fields := o.fields.map fun fl => if fl.name = f then { fl with kids := ks } else fl }

def fieldKids (s : LState) (p : Nat) (f : Str) : List Nat :=
  match (s.obj p).fields.find? (·.name = f) with
  | some fl => fl.kids
  | none => []

/-- shift the indexes of the children after a removed one -/
def shiftDown (p : Nat) (f : Str) : LState → List Nat → LState
  | s, [] => s
  | s, c :: cs => shiftDown p f (s.setParent c p f ((s.obj c).pindex.map (· - 1))) cs

def replaceChild (fuel : Nat) (s : LState) (p old : Nat) (f : Str) (idx : Option Nat) (new : Option Nat) :
    LState × Bool :=
  let s1 := match idx with
    | some i =>
      let seq := fieldKids s p f
      match new with
      | some n => setField s p f (seq.take i ++ n :: seq.drop (i + 1))
      | none => shiftDown p f (setField s p f (seq.take i ++ seq.drop (i + 1))) (seq.drop (i + 1))
    | none => setField s p f new.toList
  let s2 := match new with
    | some n => s1.setParent n p f idx
    | none => s1
  let changed := match new with
    | none => true
    | some n => (s2.obj old).cid ≠ (s2.obj n).cid
  if changed then s2.resetContentId Hc fuel p else (s2, true)

/-! ### replace -/

structure Changes where
  props : List LProp            -- replaced properties (by name)
  fields : List (Str × List Nat)    -- replaced child fields
  bad : Bool                    -- a key that is not allowed / does not exist
  deriving Repr, Inhabited

def applyProps (old : List LProp) (ch : List LProp) : List LProp :=
  old.map fun p => match ch.find? (·.name = p.name) with
    | some q => q
    | none => p

def applyFields (old : List LField) (ch : List (Str × List Nat)) : List LField :=
  old.map fun f => match ch.find? (·.1 = f.name) with
    | some (_, ks) => { f with kids := ks }
    | none => f

def replace (fuel : Nat) (s : LState) (u : Nat) (ch : Changes) : LState × Except Err Nat :=
  if ch.bad then (s, .error .replaceError)
  else
    let o := s.obj u
    let curParent := s.parent u
    let curField := o.pfield
    let curIndex := o.pindex
    let s1 := if curParent.isSome then s.clearParent u else s
    let wasAttached := !s1.detached u
    let s2 := if wasAttached then (detachGo (fuel + 1) true s1 u).1 else s1
    let o2 := s2.obj u
    match construct H Hc fuel s2
        { cls := o2.cls, mro := o2.mro, fqn := o2.fqn, props := applyProps o2.props ch.props, idArg := some o2.id,
          ensureUnique := false, asDuplicate := false, createDetached := !wasAttached,
          fields := applyFields o2.fields ch.fields } with
    | (s3, .error e) =>
      let s4 := if wasAttached then reparent u (s3.register u) (s3.obj u).kidsPos else s3
      let s5 := match curParent with
        | some p => s4.setParent u p (curField.getD []) curIndex
        | none => s4
      (s5, .error e)
    | (s3, .ok n) =>
      let (s4, fin) := match curParent with
        | some p => replaceChild Hc fuel s3 p u (curField.getD []) curIndex (some n)
        | none => (s3, true)
      let s5 := s4.modify n fun x => { x with origId := (s4.obj u).origId, collWith := (s4.obj u).collWith }
      if fin then (s5, .ok n) else (s5, .error .hang)

/-! ### replace_with -/

/-- pop `new` from the registry if it is there, swap the ids -/
def takeOver (s : LState) (u n : Nat) : LState × Bool :=
  let newWasAttached := !s.detached n
  let s1 := if newWasAttached then s.unregister (s.idOf n) else s
  let s2 := s1.modify n fun x => { x with origId := some x.id, id := s1.idOf u }
  (s2, newWasAttached)

def replaceWith (fuel : Nat) (s : LState) (u : Nat) (new : Option Nat) : LState × Except Err Unit :=
  if (match new with | some n => s.isAttachedSubtree n | none => false) then (s, .error .replaceWithError)
  else
    match s.parent u with
    | some p =>
      match (s.obj u).pfield with
      | none => (s, .error .internal)
      | some f =>
        match (s.obj p).fields.find? (·.name = f) with
        | none => (s, .error .internal)
        | some fl =>
          let typeOk := match new with
            | none => fl.kind = .opt || fl.kind.isSeq
            | some n => fl.allowed.any fun t => (s.obj n).mro.contains t
          if !typeOk then (s, .error .replaceWithError)
          else
            let idx := (s.obj u).pindex
            let s1 := s.clearParent u
            match detachGo (fuel + 1) false s1 u with
            | (s2, none) => (s2, .error .hang)
            | (s2, some _) =>
              match new with
              | none =>
                let (s3, fin) := replaceChild Hc fuel s2 p u f idx none
                if fin then (s3, .ok ()) else (s3, .error .hang)
              | some n =>
                let savedId := (s2.obj n).id
                let savedOrig := (s2.obj n).origId
                let (s3, newWasAttached) := takeOver s2 u n
                match attach Hc fuel s3 n with
                | (s4, .error e) =>
                  let s5 := s4.modify n fun x => { x with id := savedId, origId := savedOrig }
                  let s6 := s5.setParent u p f idx
                  match attach Hc fuel s6 u with
                  | (s7, .error e') => (s7, .error (if e = .hang then .hang else e'))
                  | (s7, .ok ()) =>
                    let s8 := if newWasAttached then s7.register n else s7
                    (s8, .error (if e = .hang then .hang else .replaceWithError))
                | (s4, .ok ()) =>
                  let (s5, fin) := replaceChild Hc fuel s4 p u f idx (some n)
                  if fin then (s5, .ok ()) else (s5, .error .hang)
    | none =>
      match new with
      | none => match detachGo (fuel + 1) false s u with
        | (s1, none) => (s1, .error .hang)
        | (s1, some _) => (s1, .ok ())
      | some n =>
        let wasAttached := !s.detached u
        match (if wasAttached then detachGo (fuel + 1) false s u else (s, some true)) with
        | (s1, none) => (s1, .error .hang)
        | (s1, some _) =>
          let savedId := (s1.obj n).id
          let savedOrig := (s1.obj n).origId
          let (s2, newWasAttached) := takeOver s1 u n
          match attach Hc fuel s2 n with
          | (s3, .error e) =>
            let s4 := s3.modify n fun x => { x with id := savedId, origId := savedOrig }
            match (if wasAttached then attach Hc fuel s4 u else (s4, .ok ())) with
            | (s5, .error e') => (s5, .error (if e = .hang then .hang else e'))
            | (s5, .ok ()) =>
              let s6 := if newWasAttached then s5.register n else s5
              (s6, .error (if e = .hang then .hang else .replaceWithError))
          | (s3, .ok ()) => (s3, .ok ())

/-! ### duplicate -/

/-- `[c.duplicate(...) for c in obj]`, left to right -/
def dupList (rec : LState → Nat → LState × Except Err Nat) : LState → List Nat → LState × Except Err (List Nat)
  | s, [] => (s, .ok [])
  | s, c :: cs =>
    match rec s c with
    | (s1, .error e) => (s1, .error e)
    | (s1, .ok c') =>
      match dupList rec s1 cs with
      | (s2, .error e) => (s2, .error e)
      | (s2, .ok cs') => (s2, .ok (c' :: cs'))

def dupFields (rec : LState → Nat → LState × Except Err Nat) : LState → List LField → LState × Except Err (List LField)
  | s, [] => (s, .ok [])
  | s, f :: fs =>
    match dupList rec s f.kids with
    | (s1, .error e) => (s1, .error e)
    | (s1, .ok ks) =>
      match dupFields rec s1 fs with
      | (s2, .error e) => (s2, .error e)
      | (s2, .ok fs') => (s2, .ok ({ f with kids := ks } :: fs'))

def duplicate (cfuel : Nat) (clone : Bool) : Nat → LState → Nat → LState × Except Err Nat
  | 0, s, _ => (s, .error .hang)
  | fuel + 1, s, u =>
    match dupFields (duplicate cfuel clone fuel) s (s.obj u).fields with
    | (s1, .error e) => (s1, .error e)
    | (s1, .ok fs) =>
      let o := s1.obj u
      match construct H Hc cfuel s1
          { cls := o.cls, mro := o.mro, fqn := o.fqn, props := o.props, idArg := some o.id, ensureUnique := false,
            asDuplicate := false, createDetached := clone, fields := fs } with
      | (s2, .error e) => (s2, .error e)
      | (s2, .ok n) =>
        let o' := s2.obj u
        let s3 := s2.modify n fun x =>
          { x with collWith := o'.collWith, origId := if x.id ≠ o'.id then some o'.id else o'.origId }
        (s3, .ok n)

/-! ### the machine -/

inductive LOp where
  | new (spec : NewSpec)
  | attach (u : Nat)
  | detach (u : Nat) (onlySelf : Bool)
  | replace (u : Nat) (ch : Changes)
  | rwith (u : Nat) (new : Option Nat)
  | dup (u : Nat) (clone : Bool)
  deriving Repr, Inhabited

inductive LOut where
  | none
  | bool (b : Bool)
  | node (u : Nat)
  | raised (e : Err)
  deriving DecidableEq, Repr, Inhabited

def LOut.isOk : LOut → Bool
  | .raised _ => false
  | _ => true

def fuelOf (s : LState) : Nat := s.size + 1

def LOp.refs : LOp → List Nat
  | .new sp => sp.fields.flatMap (·.kids)
  | .attach u => [u]
  | .detach u _ => [u]
  | .replace u ch => u :: ch.fields.flatMap (·.2)
  | .rwith u n => u :: n.toList
  | .dup u _ => [u]

def ofNode : LState × Except Err Nat → LState × LOut
  | (s, .ok n) => (s, .node n)
  | (s, .error e) => (s, .raised e)

def ofUnit : LState × Except Err Unit → LState × LOut
  | (s, .ok _) => (s, .none)
  | (s, .error e) => (s, .raised e)

def step (s : LState) (op : LOp) : LState × LOut :=
  if op.refs.any (fun u => s.size ≤ u) then (s, .raised .badRequest)
  else
    let fuel := fuelOf s
    match op with
    | .new sp => ofNode (construct H Hc fuel s sp)
    | .attach u => if !s.detached u then (s, .none) else ofUnit (attach Hc fuel s u)
    | .detach u onlySelf =>
      match detachGo (fuel + 1) onlySelf s u with
      | (s1, some b) => (s1, .bool b)
      | (s1, none) => (s1, .raised .hang)
    | .replace u ch => ofNode (replace H Hc fuel s u ch)
    | .rwith u n => ofUnit (replaceWith Hc fuel s u n)
    | .dup u clone => ofNode (duplicate H Hc (2 * fuel) clone fuel s u)

def run (s : LState) (ops : List LOp) : LState := ops.foldl (fun s op => (step H Hc s op).1) s

end machine

end PyOak.Legacy
