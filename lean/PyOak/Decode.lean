/-
Decoding of protocol S-expressions into model values (glue, not referenced by theorems).

  value  ::= (i <int>) | (b true|false) | none | (s "text") | (e "Cls" "member")
           | (o "type text" "str text") | (t value…) | (fs value…)
  node   ::= (n <uid> "Cls" <orgkey> <truthy> (p prop…) (k kid…)) | (ref <uid>)
  prop   ::= ("name" "type text" "str text" value <compare> <init>)
  kid    ::= ("name" <is_collection> node…)
  env    ::= (classes ("Cls" "Base"… )…) (orgs (<key> "fqn")…)
-/
import PyOak.Model.Core
namespace PyOak
open Sexp

structure Env where
  classes : List (Str × List Str) := []
  orgs : List (Nat × Str) := []
  deriving Inhabited

def Env.mro (e : Env) (c : Str) : List Str :=
  match e.classes.find? (·.1 == c) with
  | some (_, m) => m
  | none => [c]

def Env.fqn (e : Env) (k : Nat) : Str :=
  match e.orgs.find? (·.1 == k) with
  | some (_, f) => f
  | none => []

def decodeEnv (xs : List Sexp) : Env :=
  let cls := match field? xs "classes" with
    | some cs => cs.filterMap fun c => match c with
        | .list (h :: r) => (asStr? h).map fun n => (n, n :: r.filterMap asStr?)
        | _ => none
    | none => []
  let orgs := match field? xs "orgs" with
    | some os => os.filterMap fun o => match o with
        | .list [k, f] => do let k ← asNat? k; let f ← asStr? f; pure (k, f)
        | _ => none
    | none => []
  { classes := cls, orgs := orgs }

partial def decodeVal : Sexp → Option Val
  | .atom "none" => some .none
  | .list [.atom "i", x] => (asInt? x).map .int
  | .list [.atom "b", x] => (asBool? x).map .bool
  | .list [.atom "s", x] => (asStr? x).map .str
  | .list [.atom "e", c, m] => do pure (.enum (← asStr? c) (← asStr? m))
  | .list [.atom "o", c, m] => do pure (.opaque (← asStr? c) (← asStr? m))
  | .list (.atom "t" :: xs) => (xs.mapM decodeVal).map .tuple
  | .list (.atom "fs" :: xs) => (xs.mapM decodeVal).map .fset
  | _ => none

def decodeProp : Sexp → Option PropV
  | .list [n, ty, txt, v, c, i] => do
      pure { name := ← asStr? n, ty := ← asStr? ty, txt := ← asStr? txt, canon := ← decodeVal v,
             compare := ← asBool? c, init := ← asBool? i }
  | _ => none

/-- decoding threads a table of already decoded nodes so that `(ref uid)` re-uses them -/
abbrev DecM := StateT (List (Nat × Node)) Option

mutual
partial def decodeNode (e : Env) : Sexp → DecM Node
  | .list [.atom "ref", u] => do
      let u ← (asNat? u : Option Nat)
      match (← get).find? (·.1 == u) with
      | some (_, n) => pure n
      | none => failure
  | .list [.atom "n", u, c, o, t, .list (.atom "p" :: ps), .list (.atom "k" :: ks)] => do
      let u ← (asNat? u : Option Nat)
      let c ← (asStr? c : Option Str)
      let o ← (asNat? o : Option Nat)
      let t ← (asBool? t : Option Bool)
      let ps ← (ps.mapM decodeProp : Option _)
      let ks ← ks.mapM (decodeKid e)
      let n := Node.mk { uid := u, cls := c, mro := e.mro c, org := ⟨o, e.fqn o⟩, props := ps,
                         truthy := t } ks
      modify ((u, n) :: ·)
      pure n
  | _ => failure
partial def decodeKid (e : Env) : Sexp → DecM Kid
  | .list (n :: c :: ns) => do
      let n ← (asStr? n : Option Str)
      let c ← (asBool? c : Option Bool)
      let ns ← ns.mapM (decodeNode e)
      pure (.mk n c ns)
  | _ => failure
end

def decodeTree (e : Env) (s : Sexp) : Option Node :=
  (decodeNode e s |>.run []).map (·.1)

end PyOak
