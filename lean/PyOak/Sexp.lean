/-
S-expressions: the line protocol between the Python harness and the model driver.
One S-expression per line.  Atoms are bare tokens, strings are double-quoted with the
escapes \\ \" \n \t \r and \u{HEX}.  This file is glue (untrusted by the theorems, trusted by
the correspondence): nothing here is referenced by a property theorem.
-/
namespace PyOak

abbrev Str := List Char

inductive Sexp where
  | atom (s : String)
  | str (s : String)
  | list (xs : List Sexp)
  deriving Inhabited, Repr

namespace Sexp

private def hexVal (c : Char) : Nat :=
  if c.isDigit then c.toNat - '0'.toNat
  else if 'a' ≤ c ∧ c ≤ 'f' then c.toNat - 'a'.toNat + 10
  else if 'A' ≤ c ∧ c ≤ 'F' then c.toNat - 'A'.toNat + 10
  else 0

private def isAtomChar (c : Char) : Bool :=
  !(c.isWhitespace || c == '(' || c == ')' || c == '"')

/-- parse a quoted string body (after the opening quote); returns the text and the rest -/
private partial def parseStr (acc : List Char) : List Char → Option (String × List Char)
  | [] => none
  | '"' :: r => some (String.ofList acc.reverse, r)
  | '\\' :: 'n' :: r => parseStr ('\n' :: acc) r
  | '\\' :: 't' :: r => parseStr ('\t' :: acc) r
  | '\\' :: 'r' :: r => parseStr ('\r' :: acc) r
  | '\\' :: 'u' :: '{' :: r =>
      let hex := r.takeWhile (· != '}')
      let rest := (r.dropWhile (· != '}')).drop 1
      let v := hex.foldl (fun a c => a * 16 + hexVal c) 0
      parseStr (Char.ofNat v :: acc) rest
  | '\\' :: c :: r => parseStr (c :: acc) r
  | c :: r => parseStr (c :: acc) r

mutual
partial def parseOne : List Char → Option (Sexp × List Char)
  | [] => none
  | c :: r =>
    if c.isWhitespace then parseOne r
    else if c == '(' then
      match parseMany [] r with
      | some (xs, r') => some (.list xs, r')
      | none => none
    else if c == ')' then none
    else if c == '"' then
      match parseStr [] r with
      | some (s, r') => some (.str s, r')
      | none => none
    else
      let tok := (c :: r).takeWhile isAtomChar
      some (.atom (String.ofList tok), (c :: r).dropWhile isAtomChar)
partial def parseMany (acc : List Sexp) : List Char → Option (List Sexp × List Char)
  | [] => none
  | c :: r =>
    if c.isWhitespace then parseMany acc r
    else if c == ')' then some (acc.reverse, r)
    else match parseOne (c :: r) with
      | some (x, r') => parseMany (x :: acc) r'
      | none => none
end

def parse (s : String) : Option Sexp :=
  match parseOne s.toList with
  | some (x, _) => some x
  | none => none

private def hexDigit (n : Nat) : Char :=
  if n < 10 then Char.ofNat (n + '0'.toNat) else Char.ofNat (n - 10 + 'a'.toNat)

private partial def toHex (n : Nat) : List Char :=
  if n < 16 then [hexDigit n] else toHex (n / 16) ++ [hexDigit (n % 16)]

def escape (s : String) : String :=
  String.ofList <| s.toList.flatMap fun c =>
    if c == '"' then ['\\', '"']
    else if c == '\\' then ['\\', '\\']
    else if c.toNat < 32 || c.toNat > 126 then
      ['\\', 'u', '{'] ++ toHex c.toNat ++ ['}']
    else [c]

partial def render : Sexp → String
  | .atom s => s
  | .str s => "\"" ++ escape s ++ "\""
  | .list xs => "(" ++ " ".intercalate (xs.map render) ++ ")"

instance : ToString Sexp := ⟨render⟩

/-! helpers for building answers -/
def ofStr (s : Str) : Sexp := .str (String.ofList s)
def ofNat (n : Nat) : Sexp := .atom (toString n)
def ofInt (n : Int) : Sexp := .atom (toString n)
def ofBool (b : Bool) : Sexp := .atom (if b then "true" else "false")
def ofOptNat : Option Nat → Sexp
  | some n => ofNat n
  | none => .atom "none"
def sym (s : String) : Sexp := .atom s
def app (h : String) (xs : List Sexp) : Sexp := .list (.atom h :: xs)

/-! helpers for reading requests -/
def asStr? : Sexp → Option Str
  | .str s => some s.toList
  | .atom s => some s.toList
  | _ => none
def asNat? : Sexp → Option Nat
  | .atom s => s.toNat?
  | _ => none
def asInt? : Sexp → Option Int
  | .atom s => s.toInt?
  | _ => none
def asBool? : Sexp → Option Bool
  | .atom "true" => some true
  | .atom "false" => some false
  | _ => none
def asList? : Sexp → Option (List Sexp)
  | .list xs => some xs
  | _ => none
def asOptNat? : Sexp → Option (Option Nat)
  | .atom "none" => some none
  | x => (asNat? x).map some

/-- `(key v1 v2 …)` lookup inside a list of tagged lists: returns the arguments -/
def field? (xs : List Sexp) (key : String) : Option (List Sexp) :=
  xs.findSome? fun
    | .list (.atom k :: r) => if k == key then some r else none
    | _ => none

def field1? (xs : List Sexp) (key : String) : Option Sexp :=
  match field? xs key with
  | some [x] => some x
  | _ => none

end Sexp
end PyOak
