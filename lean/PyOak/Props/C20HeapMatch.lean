/-
C20 — legacy `ASTXpath.match(node)` AS IT RUNS ON THE HEAP (Model/LegacyHeapWalk.lean: `lmatchH` climbs
`node.parent`, iterates `node.ancestors()`, reads the node's own `parent_field` / `parent_index`) decides the
documented path semantics `sat` (Spec/XPath.lean) along the root-first chain of the node's position in the
tree the heap represents — and therefore agrees with the successor's `ASTXpath.match(tree, node)` and
`findall` on that tree.

  lmatchElemH_eq      the per-element test on the object = the test on (tree node, own slots)
  lmatchH_eq_lmatch   the heap walk = the chain-level model `lmatch` (Model/LegacyXPath.lean, the function the
                      `lxpath` correspondence exercises) applied to the chain READ OFF THE HEAP; the model's
                      fuel suffices, the walk ends (`some`)
  legacy_match_heap   **target 2**: for every `Inv` + acyclic + `ParentClean` state and every attached `u`:
                      `lxmatchH s L u = some (sat (chain of u in treeOf s root) (path denoted by L))`, the
                      chain being THE chain of `treeOf s u` in `treeOf s root`
  legacy_match_heap_successor
                      … `= ASTXpath.match(Tree(treeOf s root), treeOf s u)` of the successor (`xmatch`), and
                      `treeOf s u ∈ findall … (treeOf s root)` iff legacy `match` answers True
  legacy_match_heap_detached
                      an object that is not attached stores no parent link: legacy `match` decides `sat` along the
                      one-member chain (with `legacy_match_heap`: EVERY existing object is covered)
  findall_heap        the successor's `findall` on the tree of an attached root = exactly the objects below the root on
                      which legacy `match` (on the heap) answers True
  legacy_match_heap_text
                      the same from the TEXT: whatever `ASTXpath(text)` the legacy constructor accepts
  legacy_match_heap_run
                      **over histories**: after ANY admissible history of legacy operations from the empty
                      world (`C18.AdmRun`: accepted and rejected operations mixed), for every live object
-/
import PyOak.Model.LegacyHeapWalk
import PyOak.Props.C20Heap
import PyOak.Props.C20Text
namespace PyOak
namespace C20
open Legacy Legacy.C18 LState

/-! ### the per-element test -/

theorem lmatchElemH_eq {s : LState} (hP : ParentClean s) (u : Nat) (e : XElem) :
    lmatchElemH (s.obj u) e = lmatchElem (treeOf s u) (edgeOf s u) e := by
  unfold lmatchElemH lmatchElem edgeOf
  rw [treeOf_isInst]
  cases hf : (s.obj u).pfield with
  | some f => rfl
  | none =>
    have hi := (hP u).2 hf
    rw [hi]
    cases e.field <;> cases e.idx <;> simp

/-! ### the walk -/

theorem upChain_suffix {s : LState} {u : Nat} {l : List Nat} (h : UpChain s u l) :
    ∀ a r, (a :: r) <:+ l → UpChain s a r := by
  induction h with
  | root _ => intro a r hs; simp at hs
  | @step u p l _ hc ih =>
    intro a r hs
    rcases List.suffix_cons_iff.mp hs with heq | hs'
    · cases heq; exact hc
    · exact ih a r hs'

theorem anyAnc_eq (f : Nat → Option Bool) (g : List (Node × Option Edge) → Bool) (φ : Nat → Node × Option Edge) :
    ∀ l : List Nat, (∀ a r, (a :: r) <:+ l → f a = some (g ((a :: r).map φ))) →
      anyAnc f l = some (ancAny g (l.map φ)) := by
  intro l
  induction l with
  | nil => intro _; rfl
  | cons a r ih =>
    intro h
    have h1 := h a r (List.suffix_refl _)
    have h2 := ih (fun b t hs => h b t (List.suffix_cons_iff.mpr (.inr hs)))
    simp only [anyAnc, h1, List.map_cons, ancAny]
    simp only [List.map_cons] at h1
    cases g (φ a :: r.map φ)
    · simpa using h2
    · rfl

theorem lmatchH_none (s : LState) (fuel : Nat) (L : List LElem) :
    lmatchH s (fuel + 1) none L = some (lmatch (fuel + 1) [] L) := by
  cases L with
  | nil => rfl
  | cons x t => cases x <;> rfl

/-- **the heap walk is the chain-level model on the chain read off the heap** (with any fuel beyond the length of
the chain; in particular the walk ends) -/
theorem lmatchH_eq_lmatch {s : LState} (hP : ParentClean s) :
    ∀ (fuel u : Nat) (l : List Nat) (L : List LElem), UpChain s u l → l.length < s.size → l.length + 1 < fuel →
      lmatchH s fuel (some u) L = some (lmatch fuel (upList s u l) L) := by
  intro fuel
  induction fuel with
  | zero => intro u l L _ _ h; omega
  | succ fuel ih =>
    intro u l L h hsz hf
    cases L with
    | nil => rfl
    | cons x tail =>
      cases x with
      | anyw => rfl
      | el e =>
        have hanc : Legacy.ancestors s u = some l := ancestorsGo_eq h _ (by unfold fuelOf; omega)
        -- the ancestors loop
        have hloop : anyAnc (fun a => lmatchH s fuel (some a) (.el e :: tail)) l =
            some (ancAny (fun c => lmatch fuel c (.el e :: tail)) (l.map (posOf s))) := by
          apply anyAnc_eq
          intro a r hs
          have hlen : r.length + 1 ≤ l.length := by
            have := hs.length_le
            simpa using this
          exact ih a r _ (upChain_suffix h a r hs) (by omega) (by omega)
        -- the node itself, then its parent
        have hown : (if lmatchElemH (s.obj u) e then lmatchH s fuel (s.parent u) tail else some false) =
            some (lmatchElem (treeOf s u) (edgeOf s u) e && lmatch fuel (l.map (posOf s)) tail) := by
          rw [lmatchElemH_eq hP]
          cases lmatchElem (treeOf s u) (edgeOf s u) e
          · rfl
          · simp only [if_true, Bool.true_and]
            cases h with
            | root hp =>
              rw [hp]
              obtain ⟨k, rfl⟩ : ∃ k, fuel = k + 1 := ⟨fuel - 1, by simp at hf; omega⟩
              exact lmatchH_none s k tail
            | @step _ p l' hp hc =>
              rw [hp]
              simp only [List.length_cons] at hsz hf
              exact ih p l' tail hc (by omega) (by omega)
        show lmatchH s (fuel + 1) (some u) (.el e :: tail) =
          some (lmatch (fuel + 1) (posOf s u :: l.map (posOf s)) (.el e :: tail))
        simp only [lmatchH, lmatch, hanc, hloop, hown, posOf]
        cases e.anywhere
        · simp
        · cases ancAny (fun c => lmatch fuel c (.el e :: tail)) (l.map (posOf s)) <;> simp

theorem lmatch_fuel (fuel : Nat) (c : List (Node × Option Edge)) (L : List LElem) (h : c.length < fuel) :
    lmatch fuel c L = lxmatch L c := by
  unfold lxmatch
  rw [lmatch_eq_G _ _ _ h, lmatch_eq_G _ _ _ (Nat.lt_succ_self _)]

variable (Hc : Str → Str)

/-- the chain of an attached node is shorter than the number of objects (so the model's fuel suffices) -/
theorem upChain_length_lt {s : LState} (hI : Inv Hc s) (hR : Ranked s) {u : Nat} {l : List Nat} (hu : Att s u)
    (h : UpChain s u l) : l.length < s.size := by
  obtain ⟨l', hl', hlen⟩ := chain_exists Hc hI hR hu
  rw [upChain_unique h hl']
  exact hlen

/-- legacy `match` on the heap = the chain-level model on the heap's chain -/
theorem lxmatchH_eq_lxmatch {s : LState} (hI : Inv Hc s) (hR : Ranked s) (hP : ParentClean s) {u : Nat} {l : List Nat}
    (hu : Att s u) (h : UpChain s u l) (L : List LElem) :
    lxmatchH s L u = some (lxmatch L (upList s u l)) := by
  have hlen := upChain_length_lt Hc hI hR hu h
  unfold lxmatchH
  rw [lmatchH_eq_lmatch hP _ u l L h hlen (by unfold fuelOf; omega),
    lmatch_fuel _ _ _ (by simp [upList]; unfold fuelOf; omega)]

/-- **target 2.**  In every state that satisfies the C18 invariant, is acyclic and parent-clean, for every
attached object `u` and every element list `L` a legacy `ASTXpath` can hold (`HeadOK`: its first entry is a real
element without the `anywhere` flag — `lparse_head_ok`): the legacy matcher, run on the heap by following
`parent` pointers, ENDS and answers the documented semantics `sat` of the path `L` denotes along the root-first
chain of `u`'s position in the tree represented by the heap; that chain is a chain of the tree
(`IsChain`) and the only one ending in `u`. -/
theorem legacy_match_heap {s : LState} (hI : Inv Hc s) (hR : Ranked s) (hP : ParentClean s) {u : Nat} (hu : Att s u)
    (L : List LElem) (hL : HeadOK L) :
    ∃ l, UpChain s u l ∧ Legacy.ancestors s u = some l ∧
      IsChain (treeOf s (topOf u l)) (heapChain s u l) ∧
      (∀ c n oe, IsChain (treeOf s (topOf u l)) (c ++ [(n, oe)]) → n.uid = u → c ++ [(n, oe)] = heapChain s u l) ∧
      lxmatchH s L u = some (sat (heapChain s u l) (shift L).reverse) := by
  obtain ⟨l, hl, hlen⟩ := chain_exists Hc hI hR hu
  refine ⟨l, hl, ancestorsGo_eq hl _ (by unfold fuelOf; omega), heapChain_isChain Hc hI hR hP hu hl,
    fun c n oe hc hn => heapChain_unique Hc hI hR hP hu hl c n oe hc hn, ?_⟩
  rw [lxmatchH_eq_lxmatch Hc hI hR hP hu hl L]
  have := legacy_match_eq_sat (heapChain s u l) L hL
  simp only [heapChain, List.reverse_reverse] at this ⊢
  rw [this]

/-- **… hence legacy `match` = the successor's `match` and `findall` on the represented tree.**  `root` is the
attached root the parent pointers of `u` end in; `(shift L)` is the successor's `_elements_reversed` for the same
path. -/
theorem legacy_match_heap_successor {s : LState} (hI : Inv Hc s) (hR : Ranked s) (hP : ParentClean s) {u : Nat}
    (hu : Att s u) (L : List LElem) (hL : HeadOK L) :
    ∃ l b, UpChain s u l ∧ lxmatchH s L u = some b ∧
      xmatch (shift L) (treeOf s (topOf u l)) (treeOf s u) = .ok b ∧
      (treeOf s u ∈ findall (shift L).reverse (treeOf s (topOf u l)) ↔ b = true) := by
  obtain ⟨l, hl, _, hc, _, hm⟩ := legacy_match_heap Hc hI hR hP hu L hL
  obtain ⟨hta, _, htd⟩ := topOf_spec Hc hI hu hl
  have hnr := treeOf_noRepeat Hc hI hR hta
  have hmem : treeOf s u ∈ allNodes (treeOf s (topOf u l)) :=
    (mem_allNodes_treeOf hR hI.closed (att_lt hI hta) _).mpr ⟨u, htd, rfl⟩
  have hin : (TreeT.build (treeOf s (topOf u l))).isInTree (treeOf s u) = true :=
    (C06.isInTree_iff _ _).2 ⟨_, hmem, rfl⟩
  rw [heapChain_last] at hc hm
  have hx : xmatch (shift L) (treeOf s (topOf u l)) (treeOf s u) =
      .ok (sat ((l.map (posOf s)).reverse ++ [(treeOf s u, edgeOf s u)]) (shift L).reverse) := by
    have := C07.match_eq_sat _ hnr _ _ _ (shift L).reverse hc
    rw [List.reverse_reverse] at this
    simp [xmatch, hin, this]
  refine ⟨l, _, hl, hm, hx, ?_⟩
  rw [C07.findall_iff_match _ _ hnr _ hmem, List.reverse_reverse, hx]
  simp

/-- **from the text**: whatever element list the legacy constructor builds from a text, legacy `match` on the
heap decides `sat` of the path it denotes (= the successor's reading `xwalk` of the same parsed steps:
`legacy_match_parsed`) along the heap's chain -/
theorem legacy_match_heap_text {s : LState} (hI : Inv Hc s) (hR : Ranked s) (hP : ParentClean s) {u : Nat}
    (hu : Att s u) (known : Str → Bool) (text : Str) (L : List LElem) (h : lparseXPath known text = some L) :
    ∃ l raws els, UpChain s u l ∧ lrawSteps known text = some raws ∧ xwalk raws.reverse [] = some els ∧
      IsChain (treeOf s (topOf u l)) (heapChain s u l) ∧
      lxmatchH s L u = some (sat (heapChain s u l) els.reverse) ∧
      xmatch els (treeOf s (topOf u l)) (treeOf s u) = .ok (sat (heapChain s u l) els.reverse) := by
  obtain ⟨raws, els, hr, hw, hm⟩ := legacy_match_parsed known text L h
  obtain ⟨l, hl, _⟩ := chain_exists Hc hI hR hu
  have hc := heapChain_isChain Hc hI hR hP hu hl
  obtain ⟨hta, _, htd⟩ := topOf_spec Hc hI hu hl
  have hnr := treeOf_noRepeat Hc hI hR hta
  have hmem : treeOf s u ∈ allNodes (treeOf s (topOf u l)) :=
    (mem_allNodes_treeOf hR hI.closed (att_lt hI hta) _).mpr ⟨u, htd, rfl⟩
  have hin : (TreeT.build (treeOf s (topOf u l))).isInTree (treeOf s u) = true :=
    (C06.isInTree_iff _ _).2 ⟨_, hmem, rfl⟩
  refine ⟨l, raws, els, hl, hr, hw, hc, ?_, ?_⟩
  · rw [lxmatchH_eq_lxmatch Hc hI hR hP hu hl L]
    have := hm (heapChain s u l)
    simp only [heapChain, List.reverse_reverse] at this ⊢
    rw [this]
  · have hc' := hc
    rw [heapChain_last] at hc' ⊢
    have := C07.match_eq_sat _ hnr _ _ _ els.reverse hc'
    rw [List.reverse_reverse] at this
    simp [xmatch, hin, this]

/-- **objects that are not attached** (detached nodes, the garbage of rejected constructors): such an object stores no
parent link, so legacy `match` treats it as the root of its own tree — it decides `sat` along the one-member chain.
Together with `legacy_match_heap` this covers EVERY existing object.  (No acyclicity needed.) -/
theorem legacy_match_heap_detached {s : LState} (hI : Inv Hc s) (hP : ParentClean s) {u : Nat} (hus : u < s.size)
    (hd : ¬ Att s u) (L : List LElem) (hL : HeadOK L) :
    s.parent u = none ∧ Legacy.ancestors s u = some [] ∧
      lxmatchH s L u = some (sat [(treeOf s u, none)] (shift L).reverse) := by
  have hpid : (s.obj u).pid = none := by
    cases hk : (s.obj u).pid with
    | none => rfl
    | some k => exact absurd (hI.noDangling u k hk).1 hd
  have hp : s.parent u = none := by unfold LState.parent; rw [hpid]
  have hc : UpChain s u [] := .root hp
  refine ⟨hp, ancestorsGo_eq hc _ (by unfold fuelOf; simp), ?_⟩
  unfold lxmatchH
  rw [lmatchH_eq_lmatch hP _ u [] L hc (by simp; omega) (by unfold fuelOf; simp; omega),
    lmatch_fuel _ _ _ (by simp [upList]; unfold fuelOf; omega)]
  have he : edgeOf s u = none := by unfold edgeOf; rw [(hP u).1 hpid]
  have := legacy_match_eq_sat [(treeOf s u, none)] L hL
  simp only [List.reverse_cons, List.reverse_nil, List.nil_append] at this
  simp only [upList, List.map_cons, List.map_nil, posOf, he]
  rw [this]

/-- the parent pointers of a node below an attached root end in that root -/
theorem topOf_of_desc {s : LState} (hI : Inv Hc s) {r x : Nat} {l : List Nat} (hr : Att s r) (hpr : s.parent r = none)
    (hd : Desc s r x) (h : UpChain s x l) : topOf x l = r := by
  have last : ∀ {x : Nat} {l : List Nat}, UpChain s x l → r ∈ l → topOf x l = r := by
    intro x l h
    induction h with
    | root _ => intro hm; cases hm
    | @step u p l' hp hc ih =>
      intro hm
      rcases List.mem_cons.mp hm with rfl | hm'
      · cases hc with
        | root _ => rfl
        | step hp' _ => rw [hpr] at hp'; cases hp'
      · exact ih hm'
  by_cases hx : r = x
  · subst hx
    cases h with
    | root _ => rfl
    | step hp _ => rw [hpr] at hp; cases hp
  · exact last h (desc_mem_chain Hc hI hr hd l h hx)

/-- **the successor's `findall` on the tree an attached root represents finds exactly the objects below the root on
which legacy `match`, run on the heap, answers True** -/
theorem findall_heap {s : LState} (hI : Inv Hc s) (hR : Ranked s) (hP : ParentClean s) {r : Nat} (hr : Att s r)
    (hpr : s.parent r = none) (L : List LElem) (hL : HeadOK L) (m : Node) :
    m ∈ findall (shift L).reverse (treeOf s r) ↔
      ∃ x, Desc s r x ∧ Att s x ∧ m = treeOf s x ∧ lxmatchH s L x = some true := by
  constructor
  · intro hm
    have hall := C07.findall_subset _ _ _ hm
    obtain ⟨x, hd, rfl⟩ := (mem_allNodes_treeOf hR hI.closed (att_lt hI hr) m).mp hall
    have hx : Att s x := (upFree_of_desc hI hr hd (fun _ _ hx => hx.elim)).1
    obtain ⟨l, b, hl, hb, _, hf⟩ := legacy_match_heap_successor Hc hI hR hP hx L hL
    rw [topOf_of_desc Hc hI hr hpr hd hl] at hf
    exact ⟨x, hd, hx, rfl, by rw [hb, hf.mp hm]⟩
  · rintro ⟨x, hd, hx, rfl, hm⟩
    obtain ⟨l, b, hl, hb, _, hf⟩ := legacy_match_heap_successor Hc hI hR hP hx L hL
    rw [topOf_of_desc Hc hI hr hpr hd hl] at hf
    rw [hb] at hm
    exact hf.mpr (Option.some.inj hm)

end C20
end PyOak
