/-
C11 — Every field annotation is soundly classified as child, property, or rejected.

Model (Model/Annot.lean): `hasNode` (`has_check_type_in_type`), `validChild` (`_is_valid_child_field_type`
with the `allow_sequence` flag), `validProp` (`is_valid_property_type`), `classifyRaw` (the branch shared by
`check_annotations` and `process_node_fields`), `classify` (first use: top-level NewType unwrapped by
`get_field_types`), `defCheck` / `processNodeFields` / `classOutcome` (the two-phase protocol of a class),
`effective` (dataclass field resolution along an inheritance chain) — of the code *repaired* by
`get_field_types_resolved_hints.diff` (F10, F21) and `newtype_transparent_in_child_check.diff` (F11).
Specification (Spec/Annot.lean): `ChildShape`, `MentionsNode`, `MentionsMutable`, `SpecVerdict`.

Proved for every annotation of the grammar (structural induction, no depth bound) and every chain:
  * `classify_child_iff`   classify t = child  ↔ ChildShape t
  * `classify_prop_iff`    classify t = prop   ↔ ¬ MentionsNode t ∧ ¬ MentionsMutable t
  * `classify_reject_iff`  classify t = reject ↔ ¬ ChildShape t ∧ (MentionsNode t ∨ MentionsMutable t)
  * `classify_spec`, `specVerdict_unique`   the documented verdict exists, is unique, and is the computed one
  * `prop_hides_no_node`, `childShape_mentionsNode`   a node never hides in a property; child / property disjoint
  * `classify_eq_classifyRaw`, `classify_newtype`, `classify_erase`   NewType wrappers are transparent: at the top
    (definition-time check = first-use check) and at every depth (for NewTypes over a non-Union, non-None base;
    `classify_erase_needs_base` shows the side condition is needed)
  * `defCheck_raised_sound`, `classOutcome_eq`, `classOutcome_none_iff`, `classOutcome_some`   a class is rejected
    (at definition or at first use, whichever comes first) iff one of its fields is; whether the definition-time
    check ran, was skipped on unresolved forward references, or raised makes no difference to the outcome
  * `effective_nodup`, `fields_partition`   every dataclass field is listed once with one verdict
  * `verdict_inherited`, `verdict_overridden`   inherited fields keep their verdict, overriding fields get the
    verdict of the new annotation
  * `classOutcome_flatten`   a class is determined by the sequence of field declarations replayed along its
    reversed MRO (multiple inheritance: the harness sends that replay as one level)
"plain vs. postponed annotations" has no counterpart in the model (both are the same `Ty` once
`get_type_hints` has evaluated them): that clause is carried by the correspondence (every generated chain is
rendered in both modes) and by the spelling-invariance oracle of the harness.
-/
import PyOak.Spec.Annot
namespace PyOak
namespace C11
open Annot Annot.Ty

/-! ### induction over annotations (nested through lists) -/

theorem Ty.induct {P : Ty → Prop}
    (hatom : ∀ a, P (.atom a)) (hnone : P .none) (hnode : ∀ c, P (.node c)) (hfwd : ∀ c, P (.fwd c))
    (hnt : ∀ t, P t → P (.newtype t))
    (hunion : ∀ m ms, P m → (∀ x ∈ ms, P x) → P (.union m ms))
    (hvt : ∀ t, P t → P (.vtuple t))
    (hcoll : ∀ k args, (∀ x ∈ args, P x) → P (.coll k args)) : ∀ t, P t := by
  intro t
  exact Ty.rec (motive_1 := P) (motive_2 := fun l => ∀ x ∈ l, P x)
    hatom hnone hnode hfwd hnt hunion hvt hcoll
    (by intro x hx; cases hx)
    (fun h t ihh iht x hx => by
      cases hx with
      | head => exact ihh
      | tail _ h' => exact iht x h') t

theorem hasNodeL_eq (l : List Ty) : hasNodeL l = l.any hasNode := by
  induction l with
  | nil => rfl
  | cons t r ih => simp [hasNodeL, ih]

theorem validChildL_eq (l : List Ty) : validChildL l = l.all (validChild false) := by
  induction l with
  | nil => rfl
  | cons t r ih => simp [validChildL, ih]

theorem validPropL_eq (l : List Ty) : validPropL l = l.all validProp := by
  induction l with
  | nil => rfl
  | cons t r ih => simp [validPropL, ih]

theorem hasFwdL_eq (l : List Ty) : hasFwdL l = l.any hasFwd := by
  induction l with
  | nil => rfl
  | cons t r ih => simp [hasFwdL, ih]

/-! ### the three predicates of the code against the shape predicates -/

theorem hasNode_iff : ∀ t, hasNode t = true ↔ MentionsNode t := by
  intro t
  induction t using Ty.induct with
  | hatom a => simp [hasNode]; intro h; cases h
  | hnone => simp [hasNode]; intro h; cases h
  | hnode c => simp [hasNode]; exact .node c
  | hfwd c => simp [hasNode]; exact .fwd c
  | hnt t ih =>
    simp only [hasNode, ih]
    exact ⟨.newtype, fun h => by cases h; assumption⟩
  | hunion m ms ihm ihms =>
    simp only [hasNode, hasNodeL_eq, Bool.or_eq_true, List.any_eq_true]
    constructor
    · rintro (h | ⟨x, hx, h⟩)
      · exact .union (List.mem_cons_self) (ihm.1 h)
      · exact .union (List.mem_cons_of_mem _ hx) ((ihms x hx).1 h)
    · intro h
      cases h with
      | union hx hm =>
        rcases List.mem_cons.1 hx with rfl | hx
        · exact .inl (ihm.2 hm)
        · exact .inr ⟨_, hx, (ihms _ hx).2 hm⟩
  | hvt t ih =>
    simp only [hasNode, ih]
    exact ⟨.vtuple, fun h => by cases h; assumption⟩
  | hcoll k args ih =>
    simp only [hasNode, hasNodeL_eq, List.any_eq_true]
    constructor
    · rintro ⟨x, hx, h⟩
      exact .coll hx ((ih x hx).1 h)
    · intro h
      cases h with
      | coll hx hm => exact ⟨_, hx, (ih _ hx).2 hm⟩

theorem validProp_iff : ∀ t, validProp t = true ↔ ¬ MentionsMutable t := by
  intro t
  induction t using Ty.induct with
  | hatom a => simp [validProp]; intro h; cases h
  | hnone => simp [validProp]; intro h; cases h
  | hnode c => simp [validProp]; intro h; cases h
  | hfwd c => simp [validProp]; intro h; cases h
  | hnt t ih =>
    simp only [validProp, ih]
    exact ⟨fun h h' => by cases h'; exact h (by assumption), fun h h' => h (.newtype h')⟩
  | hunion m ms ihm ihms =>
    simp only [validProp, validPropL_eq, Bool.and_eq_true, List.all_eq_true]
    constructor
    · rintro ⟨h1, h2⟩ h
      cases h with
      | union hx hm =>
        rcases List.mem_cons.1 hx with rfl | hx
        · exact (ihm.1 h1) hm
        · exact ((ihms _ hx).1 (h2 _ hx)) hm
    · intro h
      exact ⟨ihm.2 fun h' => h (.union List.mem_cons_self h'),
             fun x hx => (ihms x hx).2 fun h' => h (.union (List.mem_cons_of_mem _ hx) h')⟩
  | hvt t ih =>
    simp only [validProp, ih]
    exact ⟨fun h h' => by cases h'; exact h (by assumption), fun h h' => h (.vtuple h')⟩
  | hcoll k args ih =>
    simp only [validProp, validPropL_eq, Bool.and_eq_true, List.all_eq_true, Bool.not_eq_true']
    constructor
    · rintro ⟨h1, h2⟩ h
      cases h with
      | here hk => simp [h1] at hk
      | coll hx hm => exact ((ih _ hx).1 (h2 _ hx)) hm
    · intro h
      refine ⟨?_, fun x hx => (ih x hx).2 fun h' => h (.coll hx h')⟩
      cases hk : k.mutable
      · rfl
      · exact absurd (.here hk) h

theorem nodeLike_iff : ∀ t, t.unwrap.isNodeClass = true ↔ NodeLike t := by
  intro t
  induction t using Ty.induct with
  | hatom a => simp [unwrap, isNodeClass]; intro h; cases h
  | hnone => simp [unwrap, isNodeClass]; intro h; cases h
  | hnode c => simp [unwrap, isNodeClass]; exact .node c
  | hfwd c => simp [unwrap, isNodeClass]; exact .fwd c
  | hnt t ih =>
    simp only [unwrap, ih]
    exact ⟨.newtype, fun h => by cases h; assumption⟩
  | hunion m ms _ _ => simp [unwrap, isNodeClass]; intro h; cases h
  | hvt t _ => simp [unwrap, isNodeClass]; intro h; cases h
  | hcoll k args _ => simp [unwrap, isNodeClass]; intro h; cases h

theorem nodeLike_hasNode {t : Ty} (h : NodeLike t) : hasNode t = true := by
  induction h with
  | node c => rfl
  | fwd c => rfl
  | newtype _ ih => simpa [hasNode] using ih

theorem isNone_iff (t : Ty) : t.isNone = true ↔ t = .none := by
  cases t <;> simp [isNone]

theorem unionMemberOk_iff (t : Ty) : unionMemberOk t = true ↔ (t = .none ∨ NodeLike t) := by
  simp [unionMemberOk, isNone_iff, nodeLike_iff]

/-- inside a tuple (`allow_sequence=False`): exactly the element shapes -/
theorem validChild_false_iff : ∀ t, validChild false t = true ↔ ElemShape t := by
  intro t
  induction t using Ty.induct with
  | hatom a => simp [validChild]; intro h; cases h; rename_i h; cases h
  | hnone => simp [validChild]; intro h; cases h; rename_i h; cases h
  | hnode c => simp [validChild]; exact .one (.node c)
  | hfwd c => simp [validChild]; exact .one (.fwd c)
  | hnt t ih =>
    simp only [validChild, ih]
    constructor
    · exact .newtype
    · intro h
      cases h with
      | one h => cases h with | newtype h => exact .one h
      | newtype h => exact h
  | hunion m ms _ _ =>
    simp only [validChild, Bool.not_false, Bool.true_and]
    constructor
    · intro h
      split at h
      · cases h
      · rename_i hn
        refine .union fun x hx => ?_
        have h1 := (unionMemberOk_iff x).1 ((List.all_eq_true.1 h) x hx)
        rcases h1 with rfl | h1
        · exact absurd (List.any_eq_true.2 ⟨_, hx, rfl⟩) hn
        · exact h1
    · intro h
      cases h with
      | one h => cases h
      | union h =>
        have hn : ¬ ((m :: ms).any isNone = true) := by
          intro hc
          obtain ⟨x, hx, hx'⟩ := List.any_eq_true.1 hc
          have := h x hx
          rw [(isNone_iff x).1 hx'] at this
          cases this
        rw [if_neg hn]
        exact List.all_eq_true.2 fun x hx => (unionMemberOk_iff x).2 (.inr (h x hx))
  | hvt t _ => simp [validChild]; intro h; cases h; rename_i h; cases h
  | hcoll k args _ =>
    have : validChild false (.coll k args) = false := by cases k <;> simp [validChild]
    simp only [this]
    constructor
    · intro h; cases h
    · intro h; cases h; rename_i h; cases h

theorem elemShape_hasNode {t : Ty} (h : ElemShape t) : hasNode t = true := by
  induction h with
  | one h => exact nodeLike_hasNode h
  | union h => simp [hasNode, nodeLike_hasNode (h _ List.mem_cons_self)]
  | newtype _ ih => simpa [hasNode] using ih

theorem childShape_hasNode {t : Ty} (h : ChildShape t) : hasNode t = true := by
  induction h with
  | one h => exact nodeLike_hasNode h
  | union _ h =>
    obtain ⟨x, hx, hn⟩ := h
    simp only [hasNode, hasNodeL_eq, Bool.or_eq_true, List.any_eq_true]
    rcases List.mem_cons.1 hx with rfl | hx
    · exact .inl (nodeLike_hasNode hn)
    · exact .inr ⟨x, hx, nodeLike_hasNode hn⟩
  | vtuple h => simpa [hasNode] using elemShape_hasNode h
  | @tuple args hne h =>
    cases args with
    | nil => exact absurd rfl hne
    | cons a r => simp [hasNode, hasNodeL, elemShape_hasNode (h a List.mem_cons_self)]
  | newtype _ ih => simpa [hasNode] using ih

/-- top level (`allow_sequence=True`), for annotations that mention a node: exactly the child shapes -/
theorem validChild_true_iff : ∀ t, (hasNode t = true ∧ validChild true t = true) ↔ ChildShape t := by
  intro t
  induction t using Ty.induct with
  | hatom a => simp [validChild]; intro h; cases h; rename_i h; cases h
  | hnone => simp [validChild]; intro h; cases h; rename_i h; cases h
  | hnode c => simp [validChild, hasNode]; exact .one (.node c)
  | hfwd c => simp [validChild, hasNode]; exact .one (.fwd c)
  | hnt t ih =>
    simp only [validChild, hasNode, ih]
    constructor
    · exact .newtype
    · intro h
      cases h with
      | one h => cases h with | newtype h => exact .one h
      | newtype h => exact h
  | hunion m ms _ _ =>
    constructor
    · rintro ⟨hn, hv⟩
      simp only [validChild, Bool.not_true, Bool.false_and, Bool.false_eq_true, if_false] at hv
      have hall : ∀ x ∈ m :: ms, x = .none ∨ NodeLike x := fun x hx =>
        (unionMemberOk_iff x).1 ((List.all_eq_true.1 hv) x hx)
      refine .union hall ?_
      have hn' : (m :: ms).any hasNode = true := by simpa [hasNode, hasNodeL_eq] using hn
      obtain ⟨x, hx, hxn⟩ := List.any_eq_true.1 hn'
      rcases hall x hx with rfl | h
      · simp [hasNode] at hxn
      · exact ⟨x, hx, h⟩
    · intro h
      refine ⟨childShape_hasNode h, ?_⟩
      cases h with
      | one h => cases h
      | union hall _ =>
        simp only [validChild, Bool.not_true, Bool.false_and, Bool.false_eq_true, if_false]
        exact List.all_eq_true.2 fun x hx => (unionMemberOk_iff x).2 (hall x hx)
  | hvt t _ =>
    constructor
    · rintro ⟨_, hv⟩
      simp only [validChild, Bool.true_and] at hv
      exact .vtuple ((validChild_false_iff t).1 hv)
    · intro h
      refine ⟨childShape_hasNode h, ?_⟩
      cases h with
      | one h => cases h
      | vtuple h => simpa [validChild] using (validChild_false_iff t).2 h
  | hcoll k args _ =>
    constructor
    · rintro ⟨_, hv⟩
      cases k <;> simp only [validChild, Bool.false_eq_true] at hv
      simp only [Bool.true_and, Bool.and_eq_true, Bool.not_eq_true', validChildL_eq,
        List.all_eq_true] at hv
      refine .tuple (by intro h; simp [h] at hv) fun a ha => (validChild_false_iff a).1 (hv.2 a ha)
    · intro h
      refine ⟨childShape_hasNode h, ?_⟩
      cases h with
      | one h => cases h
      | tuple hne h =>
        simp only [validChild, Bool.true_and, Bool.and_eq_true, Bool.not_eq_true', validChildL_eq,
          List.all_eq_true]
        exact ⟨by cases args <;> simp_all, fun a ha => (validChild_false_iff a).2 (h a ha)⟩

/-! ### NewType wrappers at the top: definition-time check and first-use check agree -/

theorem classifyRaw_newtype (t : Ty) : classifyRaw (.newtype t) = classifyRaw t := by
  have h1 : hasNode (.newtype t) = hasNode t := by simp only [hasNode]
  have h2 : validChild true (.newtype t) = validChild true t := by simp only [validChild]
  have h3 : validProp (.newtype t) = validProp t := by simp only [validProp]
  unfold classifyRaw
  rw [h1, h2, h3]

theorem classifyRaw_unwrap : ∀ t : Ty, classifyRaw t.unwrap = classifyRaw t := by
  intro t
  induction t using Ty.induct with
  | hnt t ih => simpa [unwrap, classifyRaw_newtype] using ih
  | _ => rfl

/-- the verdict of the authoritative first-use classification (`process_node_fields` after
`get_field_types` unwrapped a top-level NewType) is the verdict of the definition-time check -/
theorem classify_eq_classifyRaw (t : Ty) : classify t = classifyRaw t := classifyRaw_unwrap t

/-! ### model = specification -/

theorem classify_child_iff (t : Ty) : classify t = .child ↔ ChildShape t := by
  rw [classify_eq_classifyRaw, ← validChild_true_iff]
  unfold classifyRaw
  cases hasNode t <;> cases validChild true t <;> cases validProp t <;> simp

theorem classify_prop_iff (t : Ty) :
    classify t = .prop ↔ (¬ MentionsNode t ∧ ¬ MentionsMutable t) := by
  rw [classify_eq_classifyRaw, ← hasNode_iff, ← validProp_iff]
  unfold classifyRaw
  cases hasNode t <;> cases validChild true t <;> cases validProp t <;> simp

theorem classify_reject_iff (t : Ty) :
    classify t = .reject ↔ (¬ ChildShape t ∧ (MentionsNode t ∨ MentionsMutable t)) := by
  have h1 := classify_child_iff t
  have h2 := classify_prop_iff t
  cases h : classify t <;> simp only [h, reduceCtorEq, false_iff, true_iff] at h1 h2 ⊢
  · intro ⟨hc, _⟩; exact hc h1
  · intro ⟨_, hm⟩; rcases hm with hm | hm
    · exact h2.1 hm
    · exact h2.2 hm
  · refine ⟨h1, ?_⟩
    by_cases hn : MentionsNode t
    · exact .inl hn
    · by_cases hm : MentionsMutable t
      · exact .inr hm
      · exact absurd ⟨hn, hm⟩ h2

/-- the verdict the model computes is the documented one … -/
theorem classify_spec (t : Ty) : SpecVerdict t (classify t) := by
  cases h : classify t
  · exact .child ((classify_child_iff t).1 h)
  · exact .prop ((classify_prop_iff t).1 h).1 ((classify_prop_iff t).1 h).2
  · exact .reject ((classify_reject_iff t).1 h).1 ((classify_reject_iff t).1 h).2

/-- … and the documented verdict is unique: every annotation has exactly one -/
theorem specVerdict_unique (t : Ty) (v : Verdict) : SpecVerdict t v ↔ v = classify t := by
  constructor
  · intro h
    cases h with
    | child h => exact ((classify_child_iff t).2 h).symm
    | prop h1 h2 => exact ((classify_prop_iff t).2 ⟨h1, h2⟩).symm
    | reject h1 h2 => exact ((classify_reject_iff t).2 ⟨h1, h2⟩).symm
  · rintro rfl; exact classify_spec t

/-- child shapes and property shapes are disjoint: a child annotation mentions a node class -/
theorem childShape_mentionsNode {t : Ty} (h : ChildShape t) : MentionsNode t :=
  (hasNode_iff t).1 (childShape_hasNode h)

/-- a node class is never hidden inside a property -/
theorem prop_hides_no_node (t : Ty) (h : classify t = .prop) : ¬ MentionsNode t :=
  ((classify_prop_iff t).1 h).1

/-! ### NewType wrappers at any depth -/

theorem classify_newtype (t : Ty) : classify (.newtype t) = classify t := by
  rw [classify_eq_classifyRaw, classify_eq_classifyRaw, classifyRaw_newtype]

theorem any_congr_mem {α : Type} {l : List α} {f g : α → Bool} (h : ∀ x ∈ l, f x = g x) :
    l.any f = l.any g := by
  induction l with
  | nil => rfl
  | cons a r ih =>
    simp only [List.any_cons, h a List.mem_cons_self,
      ih fun x hx => h x (List.mem_cons_of_mem _ hx)]

theorem all_congr_mem {α : Type} {l : List α} {f g : α → Bool} (h : ∀ x ∈ l, f x = g x) :
    l.all f = l.all g := by
  induction l with
  | nil => rfl
  | cons a r ih =>
    simp only [List.all_cons, h a List.mem_cons_self,
      ih fun x hx => h x (List.mem_cons_of_mem _ hx)]

theorem eraseL_eq (l : List Ty) : eraseL l = l.map erase := by
  induction l with
  | nil => rfl
  | cons t r ih => simp [eraseL, ih]

theorem ntBaseOkL_eq (l : List Ty) : ntBaseOkL l = l.all ntBaseOk := by
  induction l with
  | nil => rfl
  | cons t r ih => simp [ntBaseOkL, ih]

theorem hasNode_erase : ∀ t, hasNode (erase t) = hasNode t := by
  intro t
  induction t using Ty.induct with
  | hnt t ih => simpa [erase, hasNode] using ih
  | hunion m ms ihm ihms =>
    simp only [erase, hasNode, hasNodeL_eq, eraseL_eq, ihm, List.any_map]
    congr 1
    exact any_congr_mem fun x hx => ihms x hx
  | hvt t ih => simpa [erase, hasNode] using ih
  | hcoll k args ih =>
    simp only [erase, hasNode, hasNodeL_eq, eraseL_eq, List.any_map]
    exact any_congr_mem fun x hx => ih x hx
  | _ => rfl

theorem validProp_erase : ∀ t, validProp (erase t) = validProp t := by
  intro t
  induction t using Ty.induct with
  | hnt t ih => simpa [erase, validProp] using ih
  | hunion m ms ihm ihms =>
    simp only [erase, validProp, validPropL_eq, eraseL_eq, ihm, List.all_map]
    congr 1
    exact all_congr_mem fun x hx => ihms x hx
  | hvt t ih => simpa [erase, validProp] using ih
  | hcoll k args ih =>
    simp only [erase, validProp, validPropL_eq, eraseL_eq, List.all_map]
    congr 1
    exact all_congr_mem fun x hx => ih x hx
  | _ => rfl

theorem isNodeClass_erase : ∀ t, (erase t).unwrap.isNodeClass = t.unwrap.isNodeClass := by
  intro t
  induction t using Ty.induct with
  | hnt t ih => simpa [erase, unwrap] using ih
  | _ => rfl

theorem isNone_erase : ∀ t, (erase t).isNone = t.unwrap.isNone := by
  intro t
  induction t using Ty.induct with
  | hnt t ih => simpa [erase, unwrap] using ih
  | _ => rfl

theorem isNone_erase_ok (t : Ty) (h : ntBaseOk t = true) : (erase t).isNone = t.isNone := by
  rw [isNone_erase]
  cases t with
  | newtype u =>
    simp only [ntBaseOk, Bool.and_eq_true] at h
    simp only [unwrap, isNone]
    cases hu : u.unwrap <;> simp_all
  | _ => rfl

theorem unionMemberOk_erase (t : Ty) (h : ntBaseOk t = true) :
    unionMemberOk (erase t) = unionMemberOk t := by
  simp only [unionMemberOk, isNone_erase_ok t h, isNodeClass_erase]

theorem validChild_erase : ∀ t, ntBaseOk t = true → ∀ b, validChild b (erase t) = validChild b t := by
  intro t
  induction t using Ty.induct with
  | hnt t ih =>
    intro h b
    simp only [ntBaseOk, Bool.and_eq_true] at h
    simpa [erase, validChild] using ih h.1 b
  | hunion m ms _ _ =>
    intro h b
    simp only [ntBaseOk, ntBaseOkL_eq, Bool.and_eq_true, List.all_eq_true] at h
    have hall : ∀ x ∈ m :: ms, ntBaseOk x = true := by
      intro x hx
      rcases List.mem_cons.1 hx with rfl | hx
      · exact h.1
      · exact h.2 x hx
    have e1 : (erase m :: eraseL ms) = (m :: ms).map erase := by simp [eraseL_eq]
    simp only [erase, validChild, e1, List.any_map, List.all_map]
    rw [any_congr_mem (f := isNone ∘ erase) (g := isNone) (fun x hx => isNone_erase_ok x (hall x hx)),
        all_congr_mem (f := unionMemberOk ∘ erase) (g := unionMemberOk)
          (fun x hx => unionMemberOk_erase x (hall x hx))]
  | hvt t ih =>
    intro h b
    simp only [ntBaseOk] at h
    simp only [erase, validChild, ih h false]
  | hcoll k args ih =>
    intro h b
    simp only [ntBaseOk, ntBaseOkL_eq, List.all_eq_true] at h
    cases k <;> simp only [erase, validChild]
    simp only [validChildL_eq, eraseL_eq, List.all_map, List.isEmpty_map]
    congr 2
    exact all_congr_mem fun x hx => ih x hx (h x hx) false
  | _ => intro _ _; rfl

/-- the verdict does not change when NewType wrappers are removed at every depth (for NewTypes
whose base is, as PEP 484 requires, not a Union and not None) -/
theorem classify_erase (t : Ty) (h : ntBaseOk t = true) : classify (erase t) = classify t := by
  rw [classify_eq_classifyRaw, classify_eq_classifyRaw]
  unfold classifyRaw
  rw [hasNode_erase, validProp_erase, validChild_erase t h]

/-- the side condition of `classify_erase` cannot be dropped: `Union[N, NT]` with
`NT = NewType("NT", None)` is rejected, `Union[N, None]` is a child -/
theorem classify_erase_needs_base :
    ∃ t, classify (erase t) ≠ classify t :=
  ⟨.union (.node 0) [.newtype .none], by decide⟩

/-! ### classes: two-phase protocol, exactly one verdict per field, inheritance -/

/-- a rejection raised while the class is defined is never a false alarm: the authoritative
first-use classification rejects the class too -/
theorem defCheck_raised_sound (ls : List Level) (h : defCheck ls = .raised) :
    processNodeFields ls = Option.none := by
  unfold defCheck at h
  split at h
  · cases h
  · split at h
    · rename_i hr
      obtain ⟨f, hf, hfr⟩ := List.any_eq_true.1 hr
      have : f.ty.classify = .reject := by
        rw [classify_eq_classifyRaw]; simpa using hfr
      unfold processNodeFields
      simp only
      rw [if_pos]
      rw [List.any_map, List.any_eq_true]
      exact ⟨f, hf, by simp [this]⟩
    · cases h

/-- whatever the definition-time check did (passed, skipped on unresolved forward references,
raised), what the user gets is the first-use classification -/
theorem classOutcome_eq (ls : List Level) : classOutcome ls = processNodeFields ls := by
  unfold classOutcome
  cases h : defCheck ls
  · rfl
  · rfl
  · exact (defCheck_raised_sound ls h).symm

/-- a class is rejected — no later than its first instantiation — exactly when one of its fields
(own, inherited or overriding) has a rejected annotation; unresolved forward references at
definition time change nothing -/
theorem classOutcome_none_iff (ls : List Level) :
    classOutcome ls = Option.none ↔ ∃ f ∈ effective ls, classify f.ty = .reject := by
  rw [classOutcome_eq]
  unfold processNodeFields
  simp only
  split
  · rename_i h
    simp only [true_iff]
    obtain ⟨p, hp, hpr⟩ := List.any_eq_true.1 h
    obtain ⟨f, hf, rfl⟩ := List.mem_map.1 hp
    exact ⟨f, hf, by simpa using hpr⟩
  · rename_i h
    simp only [reduceCtorEq, false_iff]
    rintro ⟨f, hf, hfr⟩
    apply h
    rw [List.any_map, List.any_eq_true]
    exact ⟨f, hf, by simp [hfr]⟩

/-- an accepted class: every field of the dataclass gets the verdict of its annotation, and that
verdict is child or property -/
theorem classOutcome_some (ls : List Level) (vs : List (Str × Verdict)) (h : classOutcome ls = some vs) :
    vs = (effective ls).map (fun f => (f.name, classify f.ty)) ∧
    ∀ p ∈ vs, p.2 = .child ∨ p.2 = .prop := by
  rw [classOutcome_eq] at h
  unfold processNodeFields at h
  simp only at h
  split at h
  · cases h
  · rename_i hn
    cases h
    refine ⟨rfl, fun p hp => ?_⟩
    have : ¬ (p.2 == Verdict.reject) = true := fun hc => hn (List.any_eq_true.2 ⟨p, hp, hc⟩)
    cases hp2 : p.2 <;> simp_all

theorem addField_names (acc : List Field) (f : Field) :
    (addField acc f).map (·.name) =
      if acc.any (·.name == f.name) then acc.map (·.name) else acc.map (·.name) ++ [f.name] := by
  unfold addField
  split
  · simp only [List.map_map]
    apply List.map_congr_left
    intro g _
    simp only [Function.comp]
    split
    · rename_i h; exact (beq_iff_eq.1 h).symm
    · rfl
  · simp

theorem addField_nodup (acc : List Field) (f : Field) (h : (acc.map (·.name)).Nodup) :
    ((addField acc f).map (·.name)).Nodup := by
  rw [addField_names]
  split
  · exact h
  · rename_i hn
    refine List.nodup_append.2 ⟨h, by simp, ?_⟩
    intro a ha b hb
    simp only [List.mem_singleton] at hb
    subst hb
    rintro rfl
    obtain ⟨g, hg, hga⟩ := List.mem_map.1 ha
    exact hn (List.any_eq_true.2 ⟨g, hg, by simp [hga]⟩)

theorem foldl_addField_nodup (lvl : List Field) (acc : List Field) (h : (acc.map (·.name)).Nodup) :
    ((lvl.foldl addField acc).map (·.name)).Nodup := by
  induction lvl generalizing acc with
  | nil => exact h
  | cons f r ih => exact ih _ (addField_nodup acc f h)

/-- every dataclass field occurs once: the fields of a class have pairwise distinct names -/
theorem effective_nodup (ls : List Level) : ((effective ls).map (·.name)).Nodup := by
  unfold effective
  suffices ∀ acc : List Field, (acc.map (·.name)).Nodup →
      ((ls.foldl (fun acc lvl => lvl.foldl addField acc) acc).map (·.name)).Nodup from
    this [] List.nodup_nil
  induction ls with
  | nil => intro acc h; exact h
  | cons lvl r ih => intro acc h; exact ih _ (foldl_addField_nodup lvl acc h)

/-- each dataclass field lands in exactly one class: an accepted class lists every field once,
with one verdict -/
theorem fields_partition (ls : List Level) (vs : List (Str × Verdict)) (h : classOutcome ls = some vs) :
    vs.map (·.1) = (effective ls).map (·.name) ∧ (vs.map (·.1)).Nodup := by
  have h1 := (classOutcome_some ls vs h).1
  have h2 : vs.map (·.1) = (effective ls).map (·.name) := by
    rw [h1, List.map_map]; rfl
  exact ⟨h2, h2 ▸ effective_nodup ls⟩

/-- type of the field named `n` -/
def lookup (fs : List Field) (n : Str) : Option Ty := (fs.find? (·.name == n)).map (·.ty)

/-- verdict of the field named `n` in the most derived class of the chain -/
def fieldVerdict (ls : List Level) (n : Str) : Option Verdict := (lookup (effective ls) n).map classify

theorem lookup_addField_same (acc : List Field) (f : Field) : lookup (addField acc f) f.name = some f.ty := by
  unfold lookup addField
  split
  · rename_i h
    induction acc with
    | nil => simp at h
    | cons g r ih =>
      simp only [List.map_cons, List.find?_cons]
      by_cases hg : g.name = f.name
      · simp [hg]
      · have hg' : (g.name == f.name) = false := by simpa using hg
        simp only [hg', Bool.false_eq_true, if_false]
        simp only [List.any_cons, hg', Bool.false_or] at h
        exact ih h
  · rename_i h
    have hnone : acc.find? (·.name == f.name) = Option.none := by
      apply List.find?_eq_none.2
      intro g hg hc
      exact h (List.any_eq_true.2 ⟨g, hg, hc⟩)
    simp [List.find?_append, hnone]

theorem lookup_addField_other (acc : List Field) (f : Field) (n : Str) (hn : f.name ≠ n) :
    lookup (addField acc f) n = lookup acc n := by
  have hf : (f.name == n) = false := by simpa using hn
  unfold lookup addField
  split
  · rename_i hany
    clear hany
    congr 1
    induction acc with
    | nil => rfl
    | cons g r ih =>
      simp only [List.map_cons, List.find?_cons]
      by_cases hg : g.name = f.name
      · simp only [hg, beq_self_eq_true, if_true, hf]
        exact ih
      · have hg' : (g.name == f.name) = false := by simpa using hg
        simp only [hg', Bool.false_eq_true, if_false]
        cases (g.name == n)
        · exact ih
        · rfl
  · simp [List.find?_append, hf]

theorem lookup_foldl_other (lvl : List Field) (acc : List Field) (n : Str) (h : ∀ f ∈ lvl, f.name ≠ n) :
    lookup (lvl.foldl addField acc) n = lookup acc n := by
  induction lvl generalizing acc with
  | nil => rfl
  | cons f r ih =>
    simp only [List.foldl_cons]
    rw [ih _ fun g hg => h g (List.mem_cons_of_mem _ hg),
        lookup_addField_other acc f n (h f List.mem_cons_self)]

theorem effective_snoc (ls : List Level) (lvl : Level) :
    effective (ls ++ [lvl]) = lvl.foldl addField (effective ls) := by
  simp [effective, List.foldl_append]

/-- an inherited field (not redeclared by the subclass) has in the subclass the verdict it has
in the base class -/
theorem verdict_inherited (ls : List Level) (lvl : Level) (n : Str) (h : ∀ f ∈ lvl, f.name ≠ n) :
    fieldVerdict (ls ++ [lvl]) n = fieldVerdict ls n := by
  unfold fieldVerdict
  rw [effective_snoc, lookup_foldl_other lvl _ n h]

/-- an overriding field has the verdict of its *new* annotation, whatever the base class said -/
theorem verdict_overridden (ls : List Level) (lvl : Level) (f : Field) (hf : f ∈ lvl)
    (hnd : (lvl.map (·.name)).Nodup) :
    fieldVerdict (ls ++ [lvl]) f.name = some (classify f.ty) := by
  unfold fieldVerdict
  rw [effective_snoc]
  obtain ⟨l1, l2, rfl⟩ := List.append_of_mem hf
  have hl2 : ∀ g ∈ l2, g.name ≠ f.name := by
    intro g hg hc
    simp only [List.map_append, List.map_cons] at hnd
    have := (List.nodup_append.1 hnd).2.1
    exact (List.nodup_cons.1 this).1 (hc ▸ List.mem_map.2 ⟨g, hg, rfl⟩)
  simp only [List.foldl_append, List.foldl_cons]
  rw [lookup_foldl_other l2 _ f.name hl2, lookup_addField_same]
  rfl

/-- what the driver prints for a chain: entry `i` is the outcome of the class made of the first
`i + 1` levels (the list stops after the first rejected class) -/
theorem chainFrom_get (done : List Level) (lvls : List Level) (i : Nat)
    (r : Option (List (Str × Verdict))) (h : (chainFrom done lvls)[i]? = some r) :
    r = classOutcome (done ++ lvls.take (i + 1)) := by
  induction lvls generalizing done i with
  | nil => simp [chainFrom] at h
  | cons lvl rest ih =>
    unfold chainFrom at h
    cases hc : classOutcome (done ++ [lvl]) with
    | none =>
      rw [hc] at h
      cases i with
      | zero => simp at h; simp [← h, hc]
      | succ j => simp at h
    | some vs =>
      rw [hc] at h
      cases i with
      | zero => simp at h; simp [← h, hc]
      | succ j =>
        simp only [List.getElem?_cons_succ] at h
        have := ih (done ++ [lvl]) j h
        simpa [List.append_assoc] using this

theorem chainOutcome_get (lvls : List Level) (i : Nat) (r : Option (List (Str × Verdict)))
    (h : (chainOutcome lvls)[i]? = some r) : r = classOutcome (lvls.take (i + 1)) := by
  simpa using chainFrom_get [] lvls i r h

/-! ### multiple inheritance: a class is the replay of the declarations along its reversed MRO -/

theorem effective_flatten (ls : List Level) : effective [ls.flatten] = effective ls := by
  simp [effective, List.foldl_flatten]

/-- `dataclasses` fills the field dict of a class by writing, for every class of the reversed MRO, its
resolved fields, then the own declarations; an override keeps its slot (`addField`).  Only the sequence
of writes matters, not how it is cut into classes: the harness sends a class with several bases as ONE
level holding the whole replay -/
theorem classOutcome_flatten (ls : List Level) : classOutcome [ls.flatten] = classOutcome ls := by
  unfold classOutcome defCheck processNodeFields
  simp only [effective_flatten, List.any_cons, List.any_nil, Bool.or_false, List.any_flatten]

/-! ### non-vacuity: concrete annotations and classes -/

-- `tuple[NT, ...]`, `NT | None`, `Optional[NT]` with `NT = NewType("NT", Leaf)` are child fields (F11)
example : classify (.vtuple (.newtype (.node 0))) = .child := by decide
example : classify (.union (.newtype (.node 0)) [.none]) = .child := by decide
example : ChildShape (.vtuple (.newtype (.node 0))) := (classify_child_iff _).1 (by decide)
-- `value: None` is a property (F10); so are `tuple[()]`, `Mapping[str, tuple[int, ...]]`
example : classify .none = .prop := by decide
example : classify (.coll .tuple []) = .prop := by decide
example : classify (.coll .mapping [.atom .str, .vtuple (.atom .int)]) = .prop := by decide
example : ¬ MentionsNode (.coll .mapping [.atom .str, .vtuple (.atom .int)]) :=
  prop_hides_no_node _ (by decide)
-- the rejected shapes the statement lists
example : classify (.union (.node 0) [.atom .int]) = .reject := by decide                 -- mixed
example : classify (.coll .sequence [.node 0]) = .reject := by decide                      -- non-tuple container
example : classify (.coll .list [.node 0]) = .reject := by decide                          -- mutable container
example : classify (.vtuple (.union (.node 0) [.none])) = .reject := by decide             -- optional inside a tuple
example : classify (.vtuple (.vtuple (.node 0))) = .reject := by decide                    -- nested tuple
example : classify (.union (.vtuple (.node 0)) [.none]) = .reject := by decide             -- optional tuple
example : classify (.coll .mapping [.atom .str, .coll .list [.atom .int]]) = .reject := by decide
example : ntBaseOk (.vtuple (.newtype (.newtype (.node 1)))) = true ∧
    classify (erase (.vtuple (.newtype (.newtype (.node 1))))) = .child := by decide
-- a base class with a forward reference and a bad field is only caught at first use …
example : defCheck [[⟨['x'], .coll .list [.fwd 0]⟩]] = .skipped ∧
    classOutcome [[⟨['x'], .coll .list [.fwd 0]⟩]] = Option.none := by decide
-- … the same field without the forward reference is caught at definition time …
example : defCheck [[⟨['x'], .coll .list [.node 0]⟩]] = .raised := by decide
-- … and a subclass that overrides the bad field with a good one is accepted
example : classOutcome [[⟨['x'], .coll .list [.fwd 0]⟩, ⟨['y'], .atom .int⟩], [⟨['x'], .fwd 0⟩]] =
    some [(['x'], .child), (['y'], .prop)] := by decide
example : fieldVerdict [[⟨['x'], .atom .int⟩], [⟨['y'], .node 0⟩]] ['x'] = some .prop := by decide
-- `class D(B1, B2): pass` with `B1.x: int`, `B2.y: Leaf`, `B2.x: str`: replay B2, B1 (reversed MRO)
example : classOutcome [[⟨['y'], .node 0⟩, ⟨['x'], .atom .str⟩, ⟨['x'], .atom .int⟩]] =
    some [(['y'], .child), (['x'], .prop)] := by decide
example : chainOutcome [[⟨['x'], .atom .int⟩], [⟨['x'], .coll .set []⟩], [⟨['z'], .none⟩]] =
    [some [(['x'], .prop)], Option.none] := by decide

end C11
end PyOak
