/-
C05, `bfs` by PATHS, for every tree (shared objects allowed), every prune and filter.

`Trav.bfsTrails P n` lists the trails below `n` level by level (`Trav.levelTrails`).  Its ends are
the `bfs` stream (`bfs_eq_trails`); its members are those of `trails P n` (`mem_bfsTrails_iff`);
its paths increase for the level order `ShortLex` = (length, then pre-order of paths)
(`bfsPaths_sorted`), irreflexive under `WellKeyed` (`shortLex_irrefl`).
`bfs_enumerates_paths`: under `WellKeyed n` only, the unpruned, unfiltered `bfs()` stream
enumerates the non-empty valid paths exactly once, shorter paths first, paths of one length in
declaration order — "level by level" for trees with shared objects.
-/
import PyOak.Props.C05Paths
namespace PyOak
namespace C05P
open C05 C05X C05T Trav

variable (P : Item → Bool)

theorem exists_snoc' {α : Type} (l : List α) (h : l ≠ []) : ∃ l' a, l = l' ++ [a] := by
  rcases List.eq_nil_or_concat l with h' | ⟨l', a, h'⟩
  · exact absurd h' h
  · exact ⟨l', a, by simpa using h'⟩

/-- the ends of the `k`-th level of trails are the `k`-th level of positions -/
theorem levelTrails_end (n : Node) (k : Nat) : (levelTrails P n k).map trailEnd = level P n k := by
  induction k with
  | zero => simp [levelTrails, level, Function.comp_def, trailEnd_single]
  | succ k ih =>
    simp only [levelTrails, level, nextLevel, List.map_flatMap, List.map_map]
    rw [← ih, List.filter_map, List.flatMap_map]
    apply flatMap_congr'
    intro t _
    simp [Function.comp_def, trailEnd_snoc]

/-- the members of the `k`-th level: the valid trails of `k + 1` positions, no proper prefix ending
in a pruned position -/
theorem mem_levelTrails_iff (n : Node) (k : Nat) (t : List Item) :
    t ∈ levelTrails P n k ↔ t.length = k + 1 ∧ IsTrail n t ∧ ∀ y ∈ t.dropLast, P y = false := by
  induction k generalizing t with
  | zero =>
    simp only [levelTrails, List.mem_map]
    constructor
    · rintro ⟨it, hit, rfl⟩; exact ⟨rfl, ⟨hit, trivial⟩, by simp⟩
    · rintro ⟨hl, ht, _⟩
      match t, hl, ht with
      | [a], _, ht => exact ⟨a, ht.1, rfl⟩
  | succ k ih =>
    simp only [levelTrails, List.mem_flatMap, List.mem_filter, List.mem_map]
    constructor
    · rintro ⟨t0, ⟨ht0, hP⟩, c, hc, rfl⟩
      obtain ⟨hl, htr, hpr⟩ := (ih t0).mp ht0
      obtain ⟨t1, z, rfl⟩ := exists_snoc' t0 (by intro h; subst h; simp at hl)
      rw [trailEnd_snoc] at hP hc
      refine ⟨by simp at hl ⊢; omega, ?_, ?_⟩
      · rw [isTrail_snoc, endNode_snoc]; exact ⟨htr, hc⟩
      · intro y hy
        rw [List.dropLast_concat] at hy
        rcases List.mem_append.mp hy with hy | hy
        · exact hpr y (by simpa using hy)
        · simp only [List.mem_singleton] at hy; subst hy; simpa using hP
    · rintro ⟨hl, htr, hpr⟩
      obtain ⟨t0, c, rfl⟩ := exists_snoc' t (by intro h; subst h; simp at hl)
      obtain ⟨t1, z, rfl⟩ := exists_snoc' t0 (by intro h; subst h; simp at hl)
      rw [isTrail_snoc, endNode_snoc] at htr
      rw [List.dropLast_concat] at hpr
      refine ⟨t1 ++ [z], ⟨(ih _).mpr ⟨by simp at hl ⊢; omega, htr.1, ?_⟩, ?_⟩, c, ?_, rfl⟩
      · intro y hy; rw [List.dropLast_concat] at hy; exact hpr y (by simp [hy])
      · rw [trailEnd_snoc]; simp [hpr z (by simp)]
      · rw [trailEnd_snoc]; exact htr.2

/-- a trail is shorter than the tree is large -/
theorem isTrail_length (n : Node) (t : List Item) (h : IsTrail n t) :
    t.length + (endNode n t).size ≤ n.size := by
  induction t generalizing n with
  | nil => simp [endNode]
  | cons a r ih =>
    have := ih a.node h.2
    have := items_size n a h.1
    simp only [List.length_cons, endNode]
    omega

/-- level by level, the same trails as depth first -/
theorem mem_bfsTrails_iff (n : Node) (t : List Item) : t ∈ bfsTrails P n ↔ t ∈ trails P n := by
  rw [mem_trails_iff]
  simp only [bfsTrails, List.mem_flatMap, List.mem_range, mem_levelTrails_iff]
  constructor
  · rintro ⟨k, _, hl, h⟩
    exact ⟨by intro h; subst h; simp at hl, h⟩
  · rintro ⟨hne, htr, hp⟩
    have h1 := isTrail_length n t htr
    have h2 := (endNode n t).size_pos
    have h3 : 0 < t.length := List.length_pos_iff.mpr hne
    exact ⟨t.length - 1, by omega, by omega, htr, hp⟩

/-- **`bfs(prune, filter)` by trails**: the stream is the list of ends of the trails listed level by
level, filtered -/
theorem bfs_eq_trails (F : Item → Bool) (n : Node) :
    bfsImpl P F n = ((bfsTrails P n).map trailEnd).filter F := by
  rw [bfs_levels]
  unfold bfs bfsTrails
  congr 1
  rw [List.map_flatMap]
  apply flatMap_congr'
  intro k _
  exact (levelTrails_end P n k).symm

/-! ### order -/

theorem pathLt_append (n : Node) (p q a b : List Edge) (h : PathLt n p q) (hl : p.length = q.length) :
    PathLt n (p ++ a) (q ++ b) := by
  induction h with
  | pre n e p => simp at hl
  | fork n e1 e2 p q hs => exact PathLt.fork n e1 e2 _ _ hs
  | down n c e p q hm _ ih => exact PathLt.down n c e _ _ hm (ih (by simpa using hl))

theorem pathLt_extend (n : Node) (t : List Item) (e e' : Edge) (ht : IsTrail n t)
    (hs : [e, e'].Sublist ((endNode n t).edges.map (·.2))) :
    PathLt n (pathOf t ++ [e]) (pathOf t ++ [e']) := by
  induction t generalizing n with
  | nil => exact PathLt.fork n e e' [] [] hs
  | cons a r ih =>
    exact PathLt.down n a.node a.edge _ _ ((mem_items_iff n a).mp ht.1).2 (ih a.node ht.2 hs)

theorem endNode_eq_trailEnd (n : Node) (t : List Item) (h : t ≠ []) :
    endNode n t = (trailEnd t).node := by
  obtain ⟨t', x, rfl⟩ := exists_snoc' t h
  rw [endNode_snoc, trailEnd_snoc]

/-- inside one level the paths are in the pre-order of paths (declaration order) -/
theorem levelPaths_sorted (n : Node) (k : Nat) :
    ((levelTrails P n k).map pathOf).Pairwise (PathLt n) := by
  induction k with
  | zero =>
    simp only [levelTrails, List.map_map, List.pairwise_map]
    exact (items_pairwise_sublist n).imp (fun h => PathLt.fork n _ _ [] [] h)
  | succ k ih =>
    simp only [levelTrails, List.map_flatMap, List.map_map]
    refine List.pairwise_flatMap.mpr ⟨?_, ?_⟩
    · intro t ht
      obtain ⟨hl, htr, _⟩ := (mem_levelTrails_iff P n k t).mp (List.mem_filter.mp ht).1
      have hne : t ≠ [] := by intro h; subst h; simp at hl
      rw [List.pairwise_map]
      have := items_pairwise_sublist (trailEnd t).node
      refine this.imp ?_
      intro a b hab
      simp only [Function.comp, pathOf, List.map_append, List.map_cons, List.map_nil]
      rw [← endNode_eq_trailEnd n t hne] at hab
      exact pathLt_extend n t a.edge b.edge htr hab
    · rw [List.pairwise_map] at ih
      have ih' := ih.sublist (List.filter_sublist (p := fun t => !P (trailEnd t)))
      refine List.Pairwise.imp_of_mem ?_ ih'
      intro t t' ht ht' hlt x hx y hy
      obtain ⟨hl, _, _⟩ := (mem_levelTrails_iff P n k t).mp (List.mem_filter.mp ht).1
      obtain ⟨hl', _, _⟩ := (mem_levelTrails_iff P n k t').mp (List.mem_filter.mp ht').1
      obtain ⟨c, _, rfl⟩ := List.mem_map.mp hx
      obtain ⟨c', _, rfl⟩ := List.mem_map.mp hy
      simp only [Function.comp, pathOf, List.map_append]
      exact pathLt_append n _ _ _ _ hlt (by simp [hl, hl'])

/-- **level order of paths**: shorter paths first, equal lengths in declaration order -/
theorem bfsPaths_sorted (n : Node) : ((bfsTrails P n).map pathOf).Pairwise (ShortLex n) := by
  unfold bfsTrails
  rw [List.map_flatMap]
  refine List.pairwise_flatMap.mpr ⟨?_, ?_⟩
  · intro k _
    have := levelPaths_sorted P n k
    rw [List.pairwise_map] at this ⊢
    refine List.Pairwise.imp_of_mem ?_ this
    intro t t' ht ht' h
    have hl := ((mem_levelTrails_iff P n k t).mp ht).1
    have hl' := ((mem_levelTrails_iff P n k t').mp ht').1
    exact Or.inr ⟨by simp [pathOf, hl, hl'], h⟩
  · refine List.pairwise_lt_range.imp ?_
    intro a b hab x hx y hy
    obtain ⟨t, ht, rfl⟩ := List.mem_map.mp hx
    obtain ⟨t', ht', rfl⟩ := List.mem_map.mp hy
    have hl := ((mem_levelTrails_iff P n a t).mp ht).1
    have hl' := ((mem_levelTrails_iff P n b t').mp ht').1
    exact Or.inl (by simp [pathOf, hl, hl']; omega)

theorem shortLex_irrefl (n : Node) (hW : WellKeyed n) (p q : List Edge) (h : ShortLex n p q) :
    p ≠ q := by
  rcases h with h | ⟨_, h⟩
  · intro heq; subst heq; omega
  · exact pathLt_irrefl n hW p q h

/-- **`bfs()` with sharing: each position exactly once, level by level** — under `WellKeyed n`
only, the unpruned, unfiltered `bfs()` stream is, position by position, the list of ends of trails
whose paths are pairwise distinct, are listed shorter first and in declaration order within one
length, and are all the non-empty valid paths below the start node -/
theorem bfs_enumerates_paths (n : Node) (hW : WellKeyed n) :
    ∃ ts : List (List Item),
      ts.map trailEnd = bfsImpl (fun _ => false) (fun _ => true) n ∧
      (∀ t ∈ ts, t ≠ [] ∧ IsTrail n t) ∧
      (ts.map pathOf).Nodup ∧
      (ts.map pathOf).Pairwise (ShortLex n) ∧
      (∀ p, p ∈ ts.map pathOf ↔ p ≠ [] ∧ ValidPath n p) ∧
      (ts.map pathOf).length + 1 = n.size := by
  have hend : (bfsTrails (fun _ => false) n).map trailEnd = bfsImpl (fun _ => false) (fun _ => true) n := by
    rw [bfs_eq_trails]; symm; simp
  refine ⟨bfsTrails (fun _ => false) n, hend, ?_, ?_, bfsPaths_sorted _ n, ?_, ?_⟩
  · intro t ht
    exact (mem_trails_noprune n t).mp ((mem_bfsTrails_iff _ n t).mp ht)
  · exact (bfsPaths_sorted _ n).imp (fun h => shortLex_irrefl n hW _ _ h)
  · intro p
    rw [← mem_paths_iff]
    simp only [List.mem_map, mem_bfsTrails_iff]
  · have h1 := (all_orders_length n).2
    rw [← hend] at h1
    simpa using h1

/-- the same enumeration pruned: the trails yielded by `bfs(prune)` are exactly those of
`dfs(prune)`, in level order -/
theorem bfs_pruned_paths (n : Node) (hW : WellKeyed n) :
    ∃ ts : List (List Item),
      ts.map trailEnd = bfsImpl P (fun _ => true) n ∧
      (∀ t, t ∈ ts ↔ t ≠ [] ∧ IsTrail n t ∧ ∀ y ∈ t.dropLast, P y = false) ∧
      (ts.map pathOf).Nodup ∧ (ts.map pathOf).Pairwise (ShortLex n) := by
  refine ⟨bfsTrails P n, by rw [bfs_eq_trails]; symm; simp, ?_, ?_, bfsPaths_sorted P n⟩
  · intro t; rw [mem_bfsTrails_iff]; exact mem_trails_iff P n t
  · exact (bfsPaths_sorted P n).imp (fun h => shortLex_irrefl n hW _ _ h)

/-! ### non-vacuity -/

private def hd (u : Nat) (c : Str) : Head :=
  { uid := u, cls := c, mro := [c], org := ⟨0, []⟩, props := [], truthy := true }
private def leaf (u : Nat) : Node := .mk (hd u ['L']) []
private def mid : Node := .mk (hd 2 ['M']) [.mk ['x'] false [leaf 3], .mk ['y'] true [leaf 5, leaf 6]]
private def shared : Node := .mk (hd 0 ['R']) [.mk ['a'] true [mid, mid], .mk ['b'] false [leaf 4]]

example : WellKeyed shared := by unfold WellKeyed EdgesNodup; decide
example : (bfsTrails (fun _ => false) shared).map pathOf =
    [[⟨['a'], some 0⟩], [⟨['a'], some 1⟩], [⟨['b'], none⟩],
     [⟨['a'], some 0⟩, ⟨['x'], none⟩], [⟨['a'], some 0⟩, ⟨['y'], some 0⟩],
     [⟨['a'], some 0⟩, ⟨['y'], some 1⟩],
     [⟨['a'], some 1⟩, ⟨['x'], none⟩], [⟨['a'], some 1⟩, ⟨['y'], some 0⟩],
     [⟨['a'], some 1⟩, ⟨['y'], some 1⟩]] := by decide
example : (bfsImpl (fun _ => false) (fun _ => true) shared).map (·.node.uid) =
    [2, 2, 4, 3, 5, 6, 3, 5, 6] := by decide

#print axioms levelTrails_end
#print axioms mem_levelTrails_iff
#print axioms mem_bfsTrails_iff
#print axioms bfs_eq_trails
#print axioms levelPaths_sorted
#print axioms bfsPaths_sorted
#print axioms shortLex_irrefl
#print axioms bfs_enumerates_paths
#print axioms bfs_pruned_paths

end C05P
end PyOak
