/-
C20 — Legacy traversal and legacy XPath follow the same semantics as their successors.

 (1) legacy `dfs / bfs / gather` (Model/LegacyTraverse.lean: one deque that starts with the
     start node, `skip_self`, callbacks on bare nodes) enumerate the start node — offered to
     filter and prune like any other node, unless skipped — followed / preceded by exactly the C05
     pre- / post- / level-order of the descendants;
 (2) legacy `ASTXpath.match(node)` (Model/LegacyXPath.lean) decides the documented path semantics
     `sat` of C07 along the node's parent chain; the legacy transformer produces the successor's
     element list up to where the `anywhere` flag is stored; a decimal index is read with all
     its digits;
 (3) `calculate_xpath` assigns to every node of the tree exactly the spelling of its chain.
-/
import PyOak.Model.LegacyTraverse
import PyOak.Model.LegacyXPath
import PyOak.Spec.Tree
import PyOak.Spec.XPath
import PyOak.Props.C05
import PyOak.Props.C07
import Std.Data.String.ToNat
namespace PyOak
namespace C20

/-! ## (1) walkers -/

/-- a legacy callback (on the bare node) seen as a predicate on positions -/
def onItem (p : Node → Bool) : Item → Bool := fun it => p it.node

variable (P F : Node → Bool)

theorem enumFrom_map_snd (i : Nat) (ns : List Node) :
    (enumFrom i ns).map (fun (p : Nat × Node) => p.2) = ns := by
  induction ns generalizing i with
  | nil => simp [enumFrom]
  | cons n r ih => simp [enumFrom, ih]

theorem kid_edges_nodes (k : Kid) : k.edges.map (·.1) = k.nodes := by
  cases k with
  | mk name coll ns =>
    cases coll
    · simp [Kid.edges, Kid.nodes, Function.comp_def]
    · simp only [Kid.edges, Kid.nodes, List.map_map]
      have := enumFrom_map_snd 0 ns
      simpa [Function.comp_def] using this

/-- `get_child_nodes()` yields the nodes of `get_child_nodes_with_field()`, in the same order -/
theorem children_eq (n : Node) : n.children = n.items.map (·.node) := by
  simp only [Node.children, Node.items, Node.edges, List.map_map, List.map_flatMap]
  congr 1
  funext k
  rw [← kid_edges_nodes k]
  simp [Function.comp_def]

/-- the legacy build/yield loop run on bare nodes is the successor's loop run on positions -/
theorem ldfsLoop_sim (bu : Bool) (fuel : Nat) (stack queue : List Item) :
    ldfsLoop P F bu fuel false (stack.map (·.node)) (queue.map (·.node)) =
      (dfsLoop (onItem P) (onItem F) bu fuel stack queue).map (·.node) := by
  induction fuel generalizing stack queue with
  | zero => simp [ldfsLoop, dfsLoop]
  | succ fuel ih =>
    cases stack with
    | nil => simp [ldfsLoop, dfsLoop]
    | cons it st =>
      simp only [List.map_cons, ldfsLoop, dfsLoop, Bool.false_eq_true, if_false, onItem, children_eq]
      have hq1 : it.node :: queue.map (·.node) = (it :: queue).map (·.node) := by simp
      have hq2 : queue.map (·.node) ++ [it.node] = (queue ++ [it]).map (·.node) := by simp
      have hs1 : (it.node.items.map (·.node)).reverse ++ st.map (·.node) =
          (it.node.items.reverse ++ st).map (·.node) := by simp
      have hs2 : it.node.items.map (·.node) ++ st.map (·.node) = (it.node.items ++ st).map (·.node) := by simp
      cases bu <;> by_cases hP : P it.node <;> by_cases hF : F it.node <;>
        simp only [hP, hF, if_true, if_false, Bool.false_eq_true, hq1, hq2, hs1, hs2, ih]

theorem ldfsLoop_nil (bu skip : Bool) (fuel : Nat) (q : List Node) :
    ldfsLoop P F bu fuel skip [] q = q := by
  cases fuel <;> simp [ldfsLoop]

/-- `dfs()` (top-down, start not skipped): the start node if it passes the filter, then — unless
the start node is pruned — the C05 pre-order of its descendants. -/
theorem ldfs_top_down (n : Node) :
    ldfsImpl P F false false n =
      (if F n then [n] else []) ++
        (if P n then [] else (C05.pre (onItem P) (onItem F) n).map (·.node)) := by
  have hw := C05.weight_items n
  simp only [ldfsImpl, ldfsLoop, Bool.false_eq_true, if_false, List.append_nil, List.nil_append]
  by_cases hP : P n
  · simp [hP, ldfsLoop_nil]
  · simp only [hP, if_false, Bool.false_eq_true]
    have hq : (if F n = true then [n] else []) =
        (if F n = true then [(⟨n, n, default⟩ : Item)] else []).map (·.node) := by
      by_cases hF : F n <;> simp [hF]
    rw [children_eq, hq, ldfsLoop_sim, C05.dfsLoop_topdown _ _ _ _ _ (by omega), C05.pre_eq_preItems]
    simp

/-- `dfs(bottom_up=True)` (start not skipped): unless the start node is pruned the C05 post-order
of its descendants, then the start node if it passes the filter. -/
theorem ldfs_bottom_up (n : Node) :
    ldfsImpl P F true false n =
      (if P n then [] else (C05.post (onItem P) (onItem F) n).map (·.node)) ++
        (if F n then [n] else []) := by
  have hw := C05.weight_items n
  simp only [ldfsImpl, ldfsLoop, Bool.false_eq_true, if_false, if_true, List.append_nil]
  by_cases hP : P n
  · simp [hP, ldfsLoop_nil]
  · simp only [hP, if_false, Bool.false_eq_true]
    have hq : (if F n = true then [n] else []) =
        (if F n = true then [(⟨n, n, default⟩ : Item)] else []).map (·.node) := by
      by_cases hF : F n <;> simp [hF]
    rw [children_eq, ← List.map_reverse, hq, ldfsLoop_sim,
      C05.dfsLoop_bottomup _ _ _ _ _ (by simp; omega), C05.post_eq_postItems]
    simp

/-- `dfs(skip_self=True)`: the start node is neither yielded nor offered to prune / filter; what
remains is exactly the successor's `dfs`, i.e. the C05 pre- / post-order of the descendants. -/
theorem ldfs_skip_self (bu : Bool) (n : Node) :
    ldfsImpl P F bu true n =
      ((if bu then C05.post (onItem P) (onItem F) n else C05.pre (onItem P) (onItem F) n)).map (·.node) := by
  have h : ldfsImpl P F bu true n = (dfsImpl (onItem P) (onItem F) bu n).map (·.node) := by
    simp only [ldfsImpl, ldfsLoop, if_true, List.append_nil, dfsImpl, children_eq]
    have := ldfsLoop_sim P F bu n.size (if bu then n.items.reverse else n.items) []
    cases bu <;> simpa using this
  rw [h]
  cases bu
  · simp [C05.dfs_top_down]
  · simp [C05.dfs_bottom_up]

/-- "offered to filter and prune like any other node": with the start node not skipped, legacy
`dfs` is the C05 order *of the position of the start node itself* — whatever parent and edge one
attaches to it, because legacy callbacks only see the node. -/
theorem ldfs_start_like_any_position (par : Node) (e : Edge) (n : Node) :
    ldfsImpl P F false false n = (C05.preN (onItem P) (onItem F) par e n).map (·.node) ∧
    ldfsImpl P F true false n = (C05.postN (onItem P) (onItem F) par e n).map (·.node) := by
  constructor
  · rw [ldfs_top_down]
    have := C05.preN_unfold (onItem P) (onItem F) ⟨n, par, e⟩
    simp only at this
    rw [this, ← C05.pre_eq_preItems]
    by_cases hP : P n <;> by_cases hF : F n <;> simp [onItem, hP, hF]
  · rw [ldfs_bottom_up]
    have := C05.postN_unfold (onItem P) (onItem F) ⟨n, par, e⟩
    simp only at this
    rw [this, ← C05.post_eq_postItems]
    by_cases hP : P n <;> by_cases hF : F n <;> simp [onItem, hP, hF]

/-! ### breadth-first -/

theorem lbfsLoop_sim (fuel : Nat) (q : List Item) :
    lbfsLoop P F fuel false (q.map (·.node)) = (bfsLoop (onItem P) (onItem F) fuel q).map (·.node) := by
  induction fuel generalizing q with
  | zero => simp [lbfsLoop, bfsLoop]
  | succ fuel ih =>
    cases q with
    | nil => simp [lbfsLoop, bfsLoop]
    | cons it q =>
      simp only [List.map_cons, lbfsLoop, bfsLoop, Bool.false_eq_true, if_false, onItem, children_eq]
      have hs : q.map (·.node) ++ it.node.items.map (·.node) = (q ++ it.node.items).map (·.node) := by simp
      by_cases hP : P it.node <;> by_cases hF : F it.node <;>
        simp only [hP, hF, if_true, if_false, Bool.false_eq_true, hs, ih, List.map_cons]

theorem lbfsLoop_nil (skip : Bool) (fuel : Nat) : lbfsLoop P F fuel skip [] = [] := by
  cases fuel <;> simp [lbfsLoop]

/-- `bfs()` (start not skipped): the start node if it passes the filter, then — unless it is
pruned — the C05 level order of its descendants. -/
theorem lbfs_levels (n : Node) :
    lbfsImpl P F false n =
      (if F n then [n] else []) ++
        (if P n then [] else (C05.bfs (onItem P) (onItem F) n).map (·.node)) := by
  simp only [lbfsImpl, lbfsLoop, Bool.false_eq_true, if_false, List.nil_append]
  have h : lbfsLoop P F n.size false n.children = (C05.bfs (onItem P) (onItem F) n).map (·.node) := by
    rw [children_eq, lbfsLoop_sim, ← C05.bfs_levels]; rfl
  by_cases hP : P n <;> by_cases hF : F n <;> simp [hP, hF, lbfsLoop_nil, h]

/-- `bfs(skip_self=True)` is the C05 level order of the descendants -/
theorem lbfs_skip_self (n : Node) :
    lbfsImpl P F true n = (C05.bfs (onItem P) (onItem F) n).map (·.node) := by
  simp only [lbfsImpl, lbfsLoop, if_true, List.nil_append]
  rw [children_eq, lbfsLoop_sim, ← C05.bfs_levels]; rfl

/-- `gather` is the top-down stream restricted to the class test and the extra filter (the start
node takes part like any other node unless skipped) -/
theorem lgather_eq (classes : List Str) (exact : Bool) (extra : Node → Bool) (n : Node) :
    let f : Node → Bool := fun o =>
      (if exact then classes.contains o.cls else classes.any o.isInst) && extra o
    lgatherImpl classes exact extra P false n =
        (if f n then [n] else []) ++ (if P n then [] else (C05.pre (onItem P) (onItem f) n).map (·.node)) ∧
    lgatherImpl classes exact extra P true n = (C05.pre (onItem P) (onItem f) n).map (·.node) := by
  intro f
  constructor
  · exact ldfs_top_down P f n
  · exact ldfs_skip_self P f false n

/-! ## (2) legacy xpath -/

theorem lmatchElem_eq (n : Node) (edge : Option Edge) (el : XElem) :
    lmatchElem n edge el = matchElem n edge el := by
  unfold lmatchElem matchElem
  congr 2
  cases hf : el.field with
  | none => rfl
  | some f =>
    cases edge with
    | none => simp
    | some e =>
      simp only [Option.map_some]
      rw [Bool.eq_iff_iff]
      simp only [beq_iff_eq, Option.some.injEq]
      exact ⟨Eq.symm, Eq.symm⟩

theorem ancAny_eq_anyUp (f : List (Node × Option Edge) → Bool) (up : List (Node × Option Edge)) :
    ancAny f up = C07.anyUp f up := by
  induction up with
  | nil => rfl
  | cons a up ih => simp [ancAny, C07.anyUp, ih]

theorem anyUp_congr (f g : List (Node × Option Edge) → Bool) (up : List (Node × Option Edge))
    (h : ∀ s, s.length ≤ up.length → f s = g s) : C07.anyUp f up = C07.anyUp g up := by
  induction up with
  | nil => rfl
  | cons a up ih =>
    simp only [C07.anyUp]
    rw [h (a :: up) (Nat.le_refl _), ih (fun s hs => h s (by simp; omega))]

theorem anyUp_idem (f : List (Node × Option Edge) → Bool) (up : List (Node × Option Edge)) :
    C07.anyUp (fun s => C07.anyUp f s) up = C07.anyUp f up := by
  induction up with
  | nil => rfl
  | cons a up ih =>
    simp only [C07.anyUp, ih]
    cases f (a :: up) <;> cases C07.anyUp f up <;> rfl

/-- the `anywhere` flag the successor stores on an element: whether a `//` follows *above* it,
which the legacy list records on the next entry -/
def nextFlag : List LElem → Bool
  | [] => false
  | .anyw :: _ => true
  | .el e :: _ => e.anywhere

/-- the successor's element list (`_elements_reversed`, self first) denoted by a legacy list -/
def shift : List LElem → List XElem
  | [] => []
  | .anyw :: _ => []
  | .el e :: r => { e with anywhere := nextFlag r } :: shift r

/-- what the legacy transformer guarantees about its first entry (`self` carries a class, so it is
a real element, and nothing precedes it that could set its flag) -/
def HeadOK : List LElem → Prop
  | .el e :: _ => e.anywhere = false
  | _ => False

instance (L : List LElem) : Decidable (HeadOK L) := by
  unfold HeadOK; split <;> infer_instance

/-- the fuel-free reading of `_match_node_xpath` -/
def G (c : List (Node × Option Edge)) : List LElem → Bool
  | [] => c.isEmpty
  | .anyw :: _ => true
  | .el e :: tail =>
    if e.anywhere then C07.anyUp (fun s => C07.matchUpC s (shift (.el e :: tail))) c
    else C07.matchUpC c (shift (.el e :: tail))

theorem matchUpC_shift_cons (x : Node × Option Edge) (up : List (Node × Option Edge)) (e : XElem)
    (tail : List LElem) :
    C07.matchUpC (x :: up) (shift (.el e :: tail)) = (matchElem x.1 x.2 e && G up tail) := by
  have hm : matchElem x.1 x.2 { e with anywhere := nextFlag tail } = matchElem x.1 x.2 e := rfl
  simp only [shift, C07.matchUpC, hm]
  cases hme : matchElem x.1 x.2 e
  · simp
  · simp only [Bool.not_true, Bool.false_eq_true, if_false, Bool.true_and]
    cases tail with
    | nil => simp [shift, nextFlag, G]
    | cons l t =>
      cases l with
      | anyw => simp [shift, nextFlag, G]
      | el e2 =>
        cases up with
        | nil => simp [shift, nextFlag, G, C07.anyUp, C07.matchUpC]
        | cons y up' => rfl

/-- with enough fuel, `_match_node_xpath` computes `G` -/
theorem lmatch_eq_G (fuel : Nat) (c : List (Node × Option Edge)) (L : List LElem)
    (h : c.length < fuel) : lmatch fuel c L = G c L := by
  induction fuel generalizing c L with
  | zero => omega
  | succ fuel ih =>
    cases c with
    | nil =>
      cases L with
      | nil => simp [lmatch, G]
      | cons l t => cases l <;> simp [lmatch, G, C07.anyUp, C07.matchUpC]
    | cons x up =>
      cases L with
      | nil => simp [lmatch, G]
      | cons l tail =>
        cases l with
        | anyw => simp [lmatch, G]
        | el e =>
          simp only [List.length_cons] at h
          have h1 : lmatch fuel up tail = G up tail := ih up tail (by omega)
          have h2 : C07.anyUp (fun s => lmatch fuel s (.el e :: tail)) up =
              C07.anyUp (fun s => G s (.el e :: tail)) up :=
            anyUp_congr _ _ up (fun s hs => ih s _ (by omega))
          simp only [lmatch, ancAny_eq_anyUp, h1, h2, lmatchElem_eq]
          have hM := matchUpC_shift_cons x up e tail
          cases he : e.anywhere
          · simp [G, he, hM]
          · simp only [G, he, if_true, Bool.true_and, C07.anyUp, anyUp_idem, hM]
            rw [Bool.or_comm]

/-- legacy `match` over the node-first chain is the successor's chain-level matcher on the
successor's element list -/
theorem lmatch_eq_matchUpC (c : List (Node × Option Edge)) (L : List LElem) (hL : HeadOK L) :
    lxmatch L c = C07.matchUpC c (shift L) := by
  unfold lxmatch
  rw [lmatch_eq_G _ _ _ (Nat.lt_succ_self _)]
  cases L with
  | nil => exact hL.elim
  | cons l t =>
    cases l with
    | anyw => exact hL.elim
    | el e =>
      have : e.anywhere = false := hL
      simp [G, this]

/-- **legacy `ASTXpath.match(node)` = documented path semantics along the node's chain**
(`chain` is root-first, its last member is the node asked about; `(shift L).reverse` is the path
root side first). -/
theorem legacy_match_eq_sat (chain : Chain) (L : List LElem) (hL : HeadOK L) :
    lxmatch L chain.reverse = sat chain (shift L).reverse := by
  rw [lmatch_eq_matchUpC _ _ hL, C07.matchUpC_rev]

/-! ### the legacy transformer against the successor's -/

theorem xwalk_lwalk (rs : List RawEl) (a : XElem) (acc : List XElem) :
    xwalk rs (a :: acc) =
      some (acc.reverse ++ { a with anywhere := nextFlag (lwalk rs a.anywhere) } :: shift (lwalk rs a.anywhere)) := by
  induction rs generalizing a acc with
  | nil =>
    cases a with
    | mk c f i aw => cases aw <;> simp [xwalk, lwalk, nextFlag, shift]
  | cons r rs ih =>
    cases r with
    | none =>
      simp only [xwalk, lwalk]
      rw [ih]
    | some t =>
      obtain ⟨f, i, c⟩ := t
      simp only [xwalk, lwalk]
      rw [ih]
      simp only [List.reverse_cons, List.append_assoc, List.singleton_append, nextFlag, shift]

/-- the legacy `XPathTransformer.xpath` walk denotes exactly the successor's element list: same
classes, fields, indices, and the same `//` gaps (stored one entry further up, a leading `//` as a
separate entry) -/
theorem lwalk_agrees (r0 : Option Str × Option Nat × Str) (rs : List RawEl) :
    xwalk (some r0 :: rs) [] = some (shift (lwalk (some r0 :: rs) false)) := by
  obtain ⟨f, i, c⟩ := r0
  simp only [xwalk, lwalk]
  rw [xwalk_lwalk]
  simp [shift]

theorem lmkRaw_some (fld : Option Str) (idx : Option (Option Nat)) (c : Str) :
    lmkRaw fld idx (some c) = some (fld, idx.getD none, c) := by
  cases fld <;> cases idx <;> rfl

theorem lparseSteps_last (known : Str → Bool) (fuel : Nat) (toks : List XTok) (raws : List RawEl)
    (h : lparseSteps known fuel toks = some raws) : ∃ init r, raws = init ++ [some r] := by
  induction fuel generalizing toks raws with
  | zero => simp [lparseSteps] at h
  | succ fuel ih =>
    unfold lparseSteps at h
    split at h
    · split at h
      · simp at h
      · rename_i fld idx cls rest _
        cases rest with
        | nil =>
          cases cls with
          | none => simp at h
          | some c =>
            simp only [Option.isSome_some, if_true, Option.some.injEq, lmkRaw_some] at h
            subst h
            exact ⟨[], (fld, idx.getD none, c), rfl⟩
        | cons t ts =>
          simp only [Option.map_eq_some_iff] at h
          obtain ⟨raws', h', rfl⟩ := h
          obtain ⟨init, r, rfl⟩ := ih _ _ h'
          exact ⟨lmkRaw fld idx cls :: init, r, rfl⟩
    · simp at h

theorem lrawSteps_last (known : Str → Bool) (text : Str) (raws : List RawEl)
    (h : lrawSteps known text = some raws) : ∃ init r, raws = init ++ [some r] := by
  unfold lrawSteps at h
  split at h
  · simp at h
  · exact lparseSteps_last _ _ _ _ h

/-- the first entry of a parsed legacy list is a real element whose flag is clear -/
theorem lparse_head_ok (known : Str → Bool) (text : Str) (L : List LElem)
    (h : lparseXPath known text = some L) : HeadOK L := by
  simp only [lparseXPath, Option.map_eq_some_iff] at h
  obtain ⟨raws, hr, rfl⟩ := h
  have : ∃ init r, raws = init ++ [some r] := lrawSteps_last _ _ _ hr
  obtain ⟨init, ⟨f, i, c⟩, rfl⟩ := this
  simp [lwalk, HeadOK]

/-- **text level.**  If the legacy constructor accepts `text` (result `L`), the successor's
transformer applied to the same parsed steps yields a path `els`, and legacy `match` on any node
decides `sat` for that path along the node's chain. -/
theorem legacy_match_parsed (known : Str → Bool) (text : Str) (L : List LElem)
    (h : lparseXPath known text = some L) :
    ∃ raws els, lrawSteps known text = some raws ∧ xwalk raws.reverse [] = some els ∧
      ∀ chain : Chain, lxmatch L chain.reverse = sat chain els.reverse := by
  have hok := lparse_head_ok known text L h
  simp only [lparseXPath, Option.map_eq_some_iff] at h
  obtain ⟨raws, hr, rfl⟩ := h
  have : ∃ init r, raws = init ++ [some r] := lrawSteps_last _ _ _ hr
  obtain ⟨init, r0, rfl⟩ := this
  refine ⟨_, _, hr, ?_, fun chain => legacy_match_eq_sat chain _ hok⟩
  simp only [List.reverse_append, List.reverse_cons, List.reverse_nil, List.nil_append, List.cons_append]
  exact lwalk_agrees r0 init.reverse

/-- "all index digits significant": the value the step parser gives to the decimal numeral of
`n` is `n` (e.g. `[12]` is index 12, not 1) -/
theorem digitsVal_natStr (n : Nat) : digitsVal (natStr n) = n := by
  have h : ∀ (l : List Char) (init : Nat),
      l.foldl (fun a c => a * 10 + (c.toNat - '0'.toNat)) init = Nat.ofDigitChars 10 l init := by
    intro l
    induction l with
    | nil => intro init; simp [Nat.ofDigitChars]
    | cons c l ih => intro init; simp only [List.foldl_cons, Nat.ofDigitChars_cons, ih, Nat.mul_comm]
  unfold digitsVal natStr
  rw [h, Nat.toList_repr]
  exact Nat.ofDigitChars_toDigits (by omega) (by omega)

/-! ### token-level parse / render -/

/-- one written step of a path: `/`, then optionally `@field`, optionally `[]` / `[n]`, optionally a class -/
structure PStep where
  fld : Option Str
  idx : Option (Option Nat)    -- `none`: no brackets, `some none`: `[]`, `some (some n)`: `[n]` in decimal
  cls : Option Str

def isDigitTok : XTok → Bool
  | .digit _ => true
  | _ => false

/-- the tokens after the `/` -/
def PStep.body (s : PStep) : List XTok :=
  (match s.fld with | some f => [.at, .cname f] | none => [])
    ++ (match s.idx with
        | none => []
        | some none => [.lsqb, .rsqb]
        | some (some n) => .lsqb :: ((natStr n).map .digit ++ [.rsqb]))
    ++ (match s.cls with | some c => [.cname c] | none => [])

def PStep.toks (s : PStep) : List XTok := .slash :: s.body

/-- the transformer's `element` result for a written step -/
def PStep.raw (s : PStep) : RawEl := lmkRaw s.fld s.idx s.cls

theorem natStr_ne_nil (n : Nat) : natStr n ≠ [] := by
  intro h
  have := digitsVal_natStr n
  rw [h] at this
  cases n with
  | zero => simp [natStr] at h
  | succ m => simp [digitsVal] at this

theorem takeWhile_digits (cs : List Char) (rest : List XTok) :
    (cs.map XTok.digit ++ XTok.rsqb :: rest).takeWhile
        (fun t => match t with | .digit _ => true | _ => false) = cs.map XTok.digit := by
  induction cs with
  | nil => simp
  | cons c r ih => simp [ih]

theorem dropWhile_digits (cs : List Char) (rest : List XTok) :
    (cs.map XTok.digit ++ XTok.rsqb :: rest).dropWhile
        (fun t => match t with | .digit _ => true | _ => false) = XTok.rsqb :: rest := by
  induction cs with
  | nil => simp
  | cons c r ih => simp [ih]

theorem filterMap_digits (f : XTok → Option Char) (hf : ∀ c, f (.digit c) = some c) (cs : List Char) :
    cs.filterMap (f ∘ XTok.digit) = cs := by
  induction cs with
  | nil => rfl
  | cons c r ih => simp [ih, hf]

theorem natStr_exists (n : Nat) : ∃ x, x ∈ natStr n := by
  have := natStr_ne_nil n
  cases h : natStr n with
  | nil => exact (this h).elim
  | cons c r => exact ⟨c, by simp⟩

/-- what may follow a step: the end of the text or the next `/` -/
def StepEnd (rest : List XTok) : Prop := rest = [] ∨ ∃ r, rest = .slash :: r

theorem parseStepBody_render (known : Str → Bool) (s : PStep) (rest : List XTok)
    (hk : ∀ c, s.cls = some c → known c = true) (hr : StepEnd rest) :
    parseStepBody known (s.body ++ rest) = some (s.fld, s.idx, s.cls, rest) := by
  obtain ⟨fld, idx, cls⟩ := s
  simp only at hk
  rcases fld with _ | f <;> rcases idx with _ | (_ | n) <;> rcases cls with _ | c <;>
    rcases hr with rfl | ⟨r, rfl⟩ <;>
    simp [PStep.body, parseStepBody, natStr_exists, hk] <;>
    (rw [filterMap_digits _ (fun _ => rfl)]; exact digitsVal_natStr n)

theorem toks_head (more : List PStep) (last : PStep) :
    ∃ r, more.flatMap PStep.toks ++ last.toks = .slash :: r := by
  cases more with
  | nil => exact ⟨_, rfl⟩
  | cons s m => exact ⟨_, rfl⟩

/-- **token-level parse/render**: the step parser reads a written path back — every field, every
index with all its decimal digits (`[]` as "no index"), every class; an element without class
gets `AwareASTNode`, the empty element of `//` stays empty. -/
theorem lparseSteps_render (known : Str → Bool) (steps : List PStep) (last : PStep) (c : Str)
    (hlast : last.cls = some c)
    (hk : ∀ s ∈ steps ++ [last], ∀ c, s.cls = some c → known c = true)
    (fuel : Nat) (hf : steps.length < fuel) :
    lparseSteps known fuel (steps.flatMap PStep.toks ++ last.toks) =
      some (steps.map PStep.raw ++ [last.raw]) := by
  induction steps generalizing fuel with
  | nil =>
    cases fuel with
    | zero => omega
    | succ f =>
      have h := parseStepBody_render known last [] (hk last (by simp)) (Or.inl rfl)
      simp only [List.append_nil] at h
      simp [lparseSteps, PStep.toks, h, hlast, PStep.raw]
  | cons s more ih =>
    cases fuel with
    | zero => omega
    | succ f =>
      obtain ⟨r, hr⟩ := toks_head more last
      have h := parseStepBody_render known s (more.flatMap PStep.toks ++ last.toks)
        (hk s (by simp)) (Or.inr ⟨r, hr⟩)
      have ih' := ih (fun t ht => hk t (by simp at ht ⊢; rcases ht with h | h <;> simp [h])) f
        (by simp at hf; omega)
      simp only [List.flatMap_cons, PStep.toks, List.cons_append, List.append_assoc, lparseSteps]
      simp only [PStep.toks] at h hr ih'
      rw [h]
      generalize List.flatMap PStep.toks more ++ XTok.slash :: last.body = rest at hr ih' ⊢
      subst hr
      simp [ih', PStep.raw]

/-! ### the documented reading of a written path -/

/-- The path a sequence of written steps denotes (text order, root side first): every non-empty
step is one path element; it is `anywhere` iff an empty step (`//`) stands between it and the
previous element (or the beginning). -/
def pathOfRaw : List RawEl → Bool → List XElem
  | [], _ => []
  | none :: r, _ => pathOfRaw r true
  | some (f, i, c) :: r, pend => ⟨c, f, i, pend⟩ :: pathOfRaw r false

/-- the pending-`//` state after a prefix of the text -/
def endPend : List RawEl → Bool → Bool
  | [], p => p
  | none :: r, _ => endPend r true
  | some _ :: r, _ => endPend r false

theorem endPend_snoc_none (l : List RawEl) (p : Bool) : endPend (l ++ [none]) p = true := by
  induction l generalizing p with
  | nil => rfl
  | cons a r ih => cases a <;> simp [endPend, ih]

theorem endPend_snoc_some (l : List RawEl) (t : Option Str × Option Nat × Str) (p : Bool) :
    endPend (l ++ [some t]) p = false := by
  induction l generalizing p with
  | nil => rfl
  | cons a r ih => cases a <;> simp [endPend, ih]

theorem pathOfRaw_snoc_none (l : List RawEl) (p : Bool) :
    pathOfRaw (l ++ [none]) p = pathOfRaw l p := by
  induction l generalizing p with
  | nil => rfl
  | cons a r ih =>
    cases a with
    | none => simp [pathOfRaw, ih]
    | some t => obtain ⟨f, i, c⟩ := t; simp [pathOfRaw, ih]

theorem pathOfRaw_snoc_some (l : List RawEl) (f : Option Str) (i : Option Nat) (c : Str) (p : Bool) :
    pathOfRaw (l ++ [some (f, i, c)]) p = pathOfRaw l p ++ [⟨c, f, i, endPend l p⟩] := by
  induction l generalizing p with
  | nil => rfl
  | cons a r ih =>
    cases a with
    | none => simp [pathOfRaw, endPend, ih]
    | some t => obtain ⟨f', i', c'⟩ := t; simp [pathOfRaw, endPend, ih]

theorem nextFlag_lwalk_true (r : List RawEl) : nextFlag (lwalk r true) = true := by
  induction r with
  | nil => rfl
  | cons a r ih =>
    cases a with
    | none => simpa [lwalk] using ih
    | some t => obtain ⟨f, i, c⟩ := t; simp [lwalk, nextFlag]

theorem nextFlag_lwalk_false (r : List RawEl) :
    nextFlag (lwalk r false) = endPend r.reverse false := by
  cases r with
  | nil => rfl
  | cons a r =>
    cases a with
    | none => simp [lwalk, nextFlag_lwalk_true, endPend_snoc_none]
    | some t => obtain ⟨f, i, c⟩ := t; simp [lwalk, nextFlag, endPend_snoc_some]

theorem shift_lwalk (rs : List RawEl) (p : Bool) :
    (shift (lwalk rs p)).reverse = pathOfRaw rs.reverse false := by
  induction rs generalizing p with
  | nil => cases p <;> rfl
  | cons a r ih =>
    cases a with
    | none => simp [lwalk, ih, pathOfRaw_snoc_none]
    | some t =>
      obtain ⟨f, i, c⟩ := t
      simp [lwalk, shift, ih, pathOfRaw_snoc_some, nextFlag_lwalk_false]

/-- **the legacy element list denotes the written path**: for the transformer's `args` in text
order, the legacy list (self first, `//` stored one entry up) denotes `pathOfRaw`. -/
theorem legacy_transformer_reads_path (raws : List RawEl) :
    (shift (lwalk raws.reverse false)).reverse = pathOfRaw raws false := by
  simpa using shift_lwalk raws.reverse false

/-- **written path → documented semantics, end to end at token level.**  For a written path
(`steps` then the mandatory class-bearing `last` step) whose classes are legacy node classes: the
step parser accepts its tokens, and legacy `match` on a node decides `sat` of the denoted path
(`pathOfRaw`) along the node's root-first chain. -/
theorem legacy_written_path (known : Str → Bool) (steps : List PStep) (last : PStep) (c : Str)
    (hlast : last.cls = some c)
    (hk : ∀ s ∈ steps ++ [last], ∀ c, s.cls = some c → known c = true) (chain : Chain) :
    let raws := steps.map PStep.raw ++ [last.raw]
    lparseSteps known (steps.length + 1) (steps.flatMap PStep.toks ++ last.toks) = some raws ∧
    lxmatch (lwalk raws.reverse false) chain.reverse = sat chain (pathOfRaw raws false) := by
  intro raws
  refine ⟨lparseSteps_render known steps last c hlast hk _ (Nat.lt_succ_self _), ?_⟩
  have hraw : last.raw = some (last.fld, last.idx.getD none, c) := by
    simp [PStep.raw, hlast, lmkRaw_some]
  have hok : HeadOK (lwalk raws.reverse false) := by
    simp [raws, hraw, lwalk, HeadOK]
  rw [legacy_match_eq_sat chain _ hok, legacy_transformer_reads_path]

/-! ## (3) `calculate_xpath` -/

theorem setXpathNs_eq (pp name : Str) (i : Nat) (ns : List Node) :
    setXpathNs pp name true i ns =
      ((enumFrom i ns).map fun (j, n) => ((n, (⟨name, some j⟩ : Edge)) : Node × Edge)).flatMap
        (fun ce => setXpathN pp ce.2 ce.1) := by
  induction ns generalizing i with
  | nil => simp [setXpathNs, enumFrom]
  | cons n r ih => simp [setXpathNs, enumFrom, ih]

theorem setXpathNs_eq_single (pp name : Str) (i : Nat) (ns : List Node) :
    setXpathNs pp name false i ns =
      (ns.map fun n => ((n, (⟨name, none⟩ : Edge)) : Node × Edge)).flatMap
        (fun ce => setXpathN pp ce.2 ce.1) := by
  induction ns generalizing i with
  | nil => simp [setXpathNs]
  | cons n r ih => simp [setXpathNs, ih]

theorem setXpathKs_eq (pp : Str) (ks : List Kid) :
    setXpathKs pp ks = (ks.flatMap Kid.edges).flatMap (fun ce => setXpathN pp ce.2 ce.1) := by
  induction ks with
  | nil => simp [setXpathKs]
  | cons k r ih =>
    cases k with
    | mk name coll ns =>
      cases coll
      · simp [setXpathKs, setXpathK, Kid.edges, ih, setXpathNs_eq_single]
      · simp [setXpathKs, setXpathK, Kid.edges, ih, setXpathNs_eq]

/-- `_set_xpath`: the node's own text, then the children with that text as prefix -/
theorem setXpathN_unfold (pp : Str) (e : Edge) (n : Node) :
    setXpathN pp e n =
      (n, pp ++ xpathStep e.field e.idx n.cls) ::
        n.edges.flatMap (fun ce => setXpathN (pp ++ xpathStep e.field e.idx n.cls) ce.2 ce.1) := by
  cases n with
  | mk h ks => simp [setXpathN, setXpathKs_eq, Node.edges, Node.kids, Node.cls, Node.hd]

theorem calcXpath_eq (root : Node) :
    calcXpath root = setXpathN [] ⟨['r','o','o','t'], none⟩ root := by
  cases root with
  | mk h ks => simp [calcXpath, setXpathN, Node.kids, Node.cls, Node.hd]

theorem edge_size_lt (n c : Node) (e : Edge) (h : (c, e) ∈ n.edges) : c.size < n.size :=
  C07.item_size_lt n ⟨c, n, e⟩ ((C07.mem_items_iff n _).2 ⟨rfl, h⟩)

theorem mem_setXpathN (n : Node) (pp : Str) (e : Edge) (m : Node) (s : Str) :
    (m, s) ∈ setXpathN pp e n ↔
      ∃ pth, C07.Path n pth ∧ m = C07.lastNode n pth ∧
        s = pp ++ xpathStep e.field e.idx n.cls ++ spellChain pth := by
  generalize hk : n.size = k
  induction k using Nat.strongRecOn generalizing n pp e with
  | _ k ih =>
    rw [setXpathN_unfold]
    simp only [List.mem_cons, List.mem_flatMap, Prod.mk.injEq]
    constructor
    · rintro (⟨rfl, rfl⟩ | ⟨⟨c, e'⟩, hmem, hin⟩)
      · exact ⟨[], trivial, rfl, by simp [spellChain]⟩
      · have hlt := edge_size_lt n c e' hmem
        obtain ⟨pth, hp, hm, hs⟩ := (ih c.size (by omega) c _ e' rfl).1 hin
        refine ⟨(c, some e') :: pth, ⟨⟨e', rfl, hmem⟩, hp⟩, by simpa [C07.lastNode] using hm, ?_⟩
        simp [hs, spellChain]
    · rintro ⟨pth, hp, hm, hs⟩
      cases pth with
      | nil => left; exact ⟨by simpa using hm, by simpa [spellChain] using hs⟩
      | cons a r =>
        obtain ⟨c, oe⟩ := a
        obtain ⟨⟨e', rfl, hmem⟩, hp⟩ := hp
        have hlt := edge_size_lt n c e' hmem
        right
        refine ⟨(c, e'), hmem, ?_⟩
        refine (ih c.size (by omega) c _ e' rfl).2 ⟨r, hp, by simpa [C07.lastNode] using hm, ?_⟩
        simp [hs, spellChain]

/-- **`calculate_xpath` spells the chain**: the assignments made are exactly
`(last node of a downward path from the root, spelling of that path)` -/
theorem calc_xpath_iff (root m : Node) (s : Str) :
    (m, s) ∈ calcXpath root ↔
      ∃ pth, C07.Path root pth ∧ m = C07.lastNode root pth ∧ s = spellChain ((root, none) :: pth) := by
  rw [calcXpath_eq, mem_setXpathN]
  simp [spellChain]

/-- every node of the tree gets the spelling of its chain … -/
theorem calc_spells_chain (root : Node) (c : Chain) (n : Node) (oe : Option Edge)
    (hc : IsChain root (c ++ [(n, oe)])) : (n, spellChain (c ++ [(n, oe)])) ∈ calcXpath root := by
  obtain ⟨pth, hpth, hp⟩ := (C07.isChain_iff root _).1 hc
  rw [calc_xpath_iff]
  refine ⟨pth, hp, ?_, by rw [hpth]⟩
  have h1 := C07.getLast?_cons_lastNode root none pth
  rw [← hpth] at h1
  simpa using h1

/-- … and nothing else is assigned -/
theorem calc_sound (root m : Node) (s : Str) (h : (m, s) ∈ calcXpath root) :
    ∃ c oe, IsChain root (c ++ [(m, oe)]) ∧ s = spellChain (c ++ [(m, oe)]) := by
  obtain ⟨pth, hp, hm, hs⟩ := (calc_xpath_iff root m s).1 h
  obtain ⟨c, ⟨b, oe⟩, hcb⟩ := C07.exists_snoc (root, (none : Option Edge)) pth
  have h1 := C07.getLast?_cons_lastNode root none pth
  rw [hcb] at h1
  simp at h1
  refine ⟨c, oe, ?_, ?_⟩
  · rw [hm, ← h1, ← hcb]
    exact (C07.isChain_iff root _).2 ⟨pth, rfl, hp⟩
  · rw [hm, ← h1, ← hcb]; exact hs

theorem flatMap_congr' {α β : Type} (l : List α) (f g : α → List β) (h : ∀ a ∈ l, f a = g a) :
    l.flatMap f = l.flatMap g := by
  induction l with
  | nil => rfl
  | cons a r ih =>
    simp only [List.flatMap_cons]
    rw [h a (by simp), ih (fun b hb => h b (by simp [hb]))]

theorem setXpathN_nodes (n : Node) (pp : Str) (e : Edge) :
    (setXpathN pp e n).map (·.1) = n :: (C07.allItems n.items).map (·.node) := by
  generalize hk : n.size = k
  induction k using Nat.strongRecOn generalizing n pp e with
  | _ k ih =>
    rw [setXpathN_unfold]
    simp only [List.map_cons, List.map_flatMap, List.cons.injEq, true_and]
    have h1 : ∀ ce ∈ n.edges, (setXpathN (pp ++ xpathStep e.field e.idx n.cls) ce.2 ce.1).map (·.1) =
        ce.1 :: (C07.allItems ce.1.items).map (·.node) := by
      intro ce hce
      have hlt := edge_size_lt n ce.1 ce.2 hce
      exact ih ce.1.size (by omega) ce.1 _ ce.2 rfl
    rw [flatMap_congr' _ _ _ h1]
    simp only [C07.allItems, C05.preItems, List.map_flatMap, Node.items, List.flatMap_map]
    congr 1
    funext ce
    have hu := C05.preN_unfold (fun _ => false) (fun _ => true) ⟨ce.1, n, ce.2⟩
    simp only at hu
    rw [hu]
    simp [C05.preItems, List.map_flatMap, Node.items, List.flatMap_map]

/-- one assignment per position, in pre-order: the assigned nodes are exactly `allNodes root` -/
theorem calc_nodes (root : Node) : (calcXpath root).map (·.1) = allNodes root := by
  rw [calcXpath_eq, setXpathN_nodes, C07.allNodes_eq]

/-! ## non-vacuity -/

private def nd (u : Nat) (c : Str) (ks : List Kid) : Node :=
  .mk { uid := u, cls := c, mro := [c, awareName], org := ⟨0, []⟩, props := [], truthy := true } ks
private def leaf (u : Nat) : Node := nd u ['L'] []
private def mid : Node := nd 2 ['M'] [.mk ['x'] false [leaf 3]]
/-- `R(a=[L1, M2(x=L3), L4])` -/
private def tree : Node := nd 0 ['R'] [.mk ['a'] true [leaf 1, mid, leaf 4]]
/-- `R(a=(L1 … L12))`: indices with two digits -/
private def wide : Node := nd 0 ['R'] [.mk ['a'] true ((List.range 12).map fun i => leaf (i + 1))]

private def all : Node → Bool := fun _ => true
private def no : Node → Bool := fun _ => false
private def uids (l : List Node) : List Nat := l.map (·.uid)

-- walkers: start node first / last, skipped, pruned, filtered
example : uids (ldfsImpl no all false false tree) = [0, 1, 2, 3, 4] := by decide
example : uids (ldfsImpl no all true false tree) = [1, 3, 2, 4, 0] := by decide
example : uids (ldfsImpl no all false true tree) = [1, 2, 3, 4] := by decide
example : uids (ldfsImpl no all true true tree) = [1, 3, 2, 4] := by decide
example : uids (ldfsImpl (fun n => n.uid == 0) all false false tree) = [0] := by decide
example : uids (ldfsImpl (fun n => n.uid == 0) all false true tree) = [1, 2, 3, 4] := by decide
example : uids (ldfsImpl (fun n => n.uid == 2) (fun n => n.uid != 0) true false tree) = [1, 2, 4] := by decide
example : uids ((C05.pre (onItem no) (onItem all) tree).map (·.node)) = [1, 2, 3, 4] := by decide
example : uids (lbfsImpl no all false tree) = [0, 1, 2, 4, 3] := by decide
example : uids (lbfsImpl no all true tree) = [1, 2, 4, 3] := by decide
example : uids (lbfsImpl (fun n => n.uid == 0) all false tree) = [0] := by decide
example : uids (lgatherImpl [['L']] false all no false tree) = [1, 3, 4] := by decide
example : uids (lgatherImpl [['R'], ['M']] true all no true tree) = [2] := by decide
example : tree.children.map (·.uid) = [1, 2, 4] := by decide

-- transformer: where the legacy list stores `//`, and what it denotes
private def rR : RawEl := some (none, none, ['R'])
private def rM : RawEl := some (none, none, ['M'])
private def rL : RawEl := some (some ['x'], none, ['L'])
-- `/R//M/@x L`  (args in text order: R, <empty>, M, L)
example : lwalk [rL, rM, none, rR] false =
    [.el ⟨['L'], some ['x'], none, false⟩, .el ⟨['M'], none, none, false⟩, .el ⟨['R'], none, none, true⟩] := by decide
example : shift (lwalk [rL, rM, none, rR] false) =
    [⟨['L'], some ['x'], none, false⟩, ⟨['M'], none, none, true⟩, ⟨['R'], none, none, false⟩] := by decide
example : xwalk [rL, rM, none, rR] [] = some (shift (lwalk [rL, rM, none, rR] false)) := by decide
-- `//M/@x L`: leading `//` is a separate entry
example : lwalk [rL, rM, none] false =
    [.el ⟨['L'], some ['x'], none, false⟩, .el ⟨['M'], none, none, false⟩, .anyw] := by decide
example : HeadOK (lwalk [rL, rM, none] false) := by decide
example : ¬ HeadOK [.anyw] := by decide

-- matcher along the chain
private def chain3 : Chain := [(tree, none), (mid, some ⟨['a'], some 1⟩), (leaf 3, some ⟨['x'], none⟩)]
private def chain1 : Chain := [(tree, none), (leaf 1, some ⟨['a'], some 0⟩)]
private def lRML : List LElem := lwalk [rL, rM, none, rR] false
private def lML : List LElem := lwalk [rL, rM, none] false
example : lxmatch lRML chain3.reverse = true ∧ sat chain3 (shift lRML).reverse = true := by decide
example : lxmatch lML chain3.reverse = true ∧ sat chain3 (shift lML).reverse = true := by decide
example : lxmatch lRML chain1.reverse = false ∧ sat chain1 (shift lRML).reverse = false := by decide
example : lxmatch [.el ⟨['L'], none, none, false⟩, .el ⟨['R'], none, none, true⟩] chain3.reverse = true := by decide
example : lxmatch [.el ⟨['L'], none, none, false⟩, .el ⟨['R'], none, none, false⟩] chain3.reverse = false := by decide
-- the excluded shape really differs (a flag on the first entry would look at ancestors of the node)
example : lxmatch [.el ⟨['M'], none, none, true⟩, .anyw] chain3.reverse = true ∧
    sat chain3 (shift [.el ⟨['M'], none, none, true⟩, .anyw]).reverse = false := by decide
-- two-digit index
private def chain12 : Chain := [(wide, none), (leaf 12, some ⟨['a'], some 11⟩)]
private def chain2 : Chain := [(wide, none), (leaf 2, some ⟨['a'], some 1⟩)]
private def l11 : List LElem := [.el ⟨['L'], some ['a'], some 11, false⟩, .anyw]
example : lxmatch l11 chain12.reverse = true ∧ lxmatch l11 chain2.reverse = false := by decide
example : digitsVal ['1', '1'] = 11 ∧ digitsVal (natStr 11) = 11 := by decide

-- text level
private def known : Str → Bool := fun c => c == ['R'] || c == ['M'] || c == ['L']
example : lparseXPath known "//@a[11]L".toList = some l11 := by decide
example : lparseXPath known "@a [ 1 1 ] L ".toList = some l11 := by decide
example : lparseXPath known "/R//M/@x L".toList = some lRML := by decide
example : lparseXPath known "/[]/L".toList =
    some [.el ⟨['L'], none, none, false⟩, .el ⟨awareName, none, none, false⟩] := by decide
example : lparseXPath known "/R/".toList = none ∧ lparseXPath known "/@a".toList = none ∧
    lparseXPath known "/Nope".toList = none ∧ lparseXPath known "/R[1]".toList = none := by decide

-- written path -> tokens -> parsed steps -> denoted path
private def wR : PStep := ⟨none, none, some ['R']⟩
private def wE : PStep := ⟨none, none, none⟩
private def wL : PStep := ⟨some ['a'], some (some 11), some ['L']⟩
example : [wR, wE].flatMap PStep.toks ++ wL.toks =
    [.slash, .cname ['R'], .slash, .slash, .at, .cname ['a'], .lsqb, .digit '1', .digit '1', .rsqb, .cname ['L']] := by
  decide
example : lparseSteps known 3 ([wR, wE].flatMap PStep.toks ++ wL.toks) =
    some ([wR, wE].map PStep.raw ++ [wL.raw]) ∧
    [wR, wE].map PStep.raw ++ [wL.raw] = [rR, none, some (some ['a'], some 11, ['L'])] := by
  constructor
  · exact lparseSteps_render known [wR, wE] wL ['L'] rfl (by decide) 3 (by decide)
  · decide
example : pathOfRaw ([wR, wE].map PStep.raw ++ [wL.raw]) false =
    [⟨['R'], none, none, false⟩, ⟨['L'], some ['a'], some 11, true⟩] := by decide
example : sat chain12 (pathOfRaw ([wR, wE].map PStep.raw ++ [wL.raw]) false) = true ∧
    sat chain2 (pathOfRaw ([wR, wE].map PStep.raw ++ [wL.raw]) false) = false := by decide
example : pathOfRaw [none, rM, rL] false = [⟨['M'], none, none, true⟩, ⟨['L'], some ['x'], none, false⟩] := by decide

-- calculate_xpath
example : (calcXpath tree).map (fun p => (p.1.uid, String.ofList p.2)) =
    [(0, "/@root[0]R"), (1, "/@root[0]R/@a[0]L"), (2, "/@root[0]R/@a[1]M"),
     (3, "/@root[0]R/@a[1]M/@x[0]L"), (4, "/@root[0]R/@a[2]L")] := by decide
example : ((calcXpath wide).map (fun p => String.ofList p.2)).getLast? = some "/@root[0]R/@a[11]L" := by decide
example : IsChain tree chain3 := by
  rw [C07.isChain_iff]
  refine ⟨_, rfl, ?_⟩
  simp [C07.Path, tree, mid, nd, leaf, Node.edges, Node.kids, Kid.edges, enumFrom]
example : String.ofList (spellChain chain3) = "/@root[0]R/@a[1]M/@x[0]L" := by decide

end C20
end PyOak
