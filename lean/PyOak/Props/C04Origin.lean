/-
C04, origin half: origins of every kind, sources and positions survive the serialization round trip;
the `No*` singletons come back as the singletons; index-based source serialization round-trips once the
separately serialized sources have been loaded (into an EMPTY registry, in registration order).

All statements are about the executable model PyOak/Model/OriginCodec.lean.
-/
import PyOak.Model.OriginCodec
namespace PyOak.C04O
open PyOak PyOak.OC PyOak.OriginAlg PyOak.Gen

/-! ## `==` on sources -/

theorem stripL_eq_map (ms : List Source) : Source.stripL ms = ms.map Source.strip := by
  induction ms with
  | nil => rfl
  | cons x r ih => simp [Source.stripL, ih]

mutual
theorem strip_idem : ∀ s : Source, s.strip.strip = s.strip
  | .noSource => rfl
  | .plain .. => rfl
  | .memory .. => rfl
  | .file .. => rfl
  | .zipped .. => rfl
  | .set ms => by simp [Source.strip, stripL_idem ms]
theorem stripL_idem : ∀ ms : List Source, Source.stripL (Source.stripL ms) = Source.stripL ms
  | [] => rfl
  | x :: r => by simp [Source.stripL, strip_idem x, stripL_idem r]
end

theorem beq_iff (a b : Source) : (a == b) = true ↔ a.strip = b.strip := by
  show Source.eqv a b = true ↔ _
  simp [Source.eqv]

/-- Python `==` on sources is an equivalence -/
theorem beq_refl (a : Source) : (a == a) = true := (beq_iff a a).2 rfl
theorem beq_symm (a b : Source) : (a == b) = (b == a) := by
  rw [Bool.eq_iff_iff, beq_iff, beq_iff]; exact eq_comm
theorem beq_trans (a b c : Source) (h1 : (a == b) = true) (h2 : (b == c) = true) : (a == c) = true := by
  rw [beq_iff] at *; exact h1.trans h2
theorem beq_strip (a : Source) : (a.strip == a) = true := (beq_iff _ _).2 (strip_idem a)
theorem beq_congr_right (r a b : Source) (h : a.strip = b.strip) : (r == a) = (r == b) := by
  rw [Bool.eq_iff_iff, beq_iff, beq_iff, h]

theorem isNo_strip (s : Source) : s.strip.isNo = s.isNo := by cases s <;> rfl
theorem isNo_congr (a b : Source) (h : a.strip = b.strip) : a.isNo = b.isNo := by
  rw [← isNo_strip a, ← isNo_strip b, h]

/-! ## the registry -/

theorem locate_congr (reg : SrcReg) (a b : Source) (h : a.strip = b.strip) : locate reg a = locate reg b := by
  induction reg with
  | nil => rfl
  | cons r rs ih => simp [locate, beq_congr_right r a b h, ih]

theorem locate_some (reg : SrcReg) (s : Source) (i : Nat) (r : Source) (h : locate reg s = some (i, r)) :
    reg[i]? = some r ∧ (r == s) = true ∧ r ∈ reg := by
  induction reg generalizing i with
  | nil => simp [locate] at h
  | cons x xs ih =>
    simp only [locate] at h
    split at h
    · rename_i hx
      simp at h; obtain ⟨rfl, rfl⟩ := h
      simp [hx]
    · cases hl : locate xs s with
      | none => simp [hl] at h
      | some p =>
        obtain ⟨j, q⟩ := p
        simp [hl] at h; obtain ⟨rfl, rfl⟩ := h
        obtain ⟨h1, h2, h3⟩ := ih j hl
        simp [h1, h2, h3]

theorem locate_none_iff (reg : SrcReg) (s : Source) : locate reg s = none ↔ ∀ r ∈ reg, (r == s) = false := by
  induction reg with
  | nil => simp [locate]
  | cons x xs ih =>
    simp only [locate]
    split
    · rename_i hx; simp [hx]
    · rename_i hx; simp [ih, hx]

theorem locate_append_none (reg : SrcReg) (s x : Source) (h : locate reg s = none) :
    locate (reg ++ [x]) s = if x == s then some (reg.length, x) else none := by
  induction reg with
  | nil => simp [locate]
  | cons y ys ih =>
    simp only [locate] at h
    split at h
    · simp at h
    · rename_i hy
      simp at h
      simp only [List.cons_append, locate, hy, Bool.false_eq_true, if_false, ih h]
      split <;> simp

theorem locate_append_some (reg : SrcReg) (s x : Source) (p : Nat × Source) (h : locate reg s = some p) :
    locate (reg ++ [x]) s = some p := by
  induction reg generalizing p with
  | nil => simp [locate] at h
  | cons y ys ih =>
    simp only [locate] at h
    simp only [List.cons_append, locate]
    split
    · rename_i hy; simpa [hy] using h
    · rename_i hy
      simp only [hy, Bool.false_eq_true, if_false] at h
      cases hl : locate ys s with
      | none => simp [hl] at h
      | some q => simp [hl] at h; simp [ih q hl, h]

/-- what `finish` does: the registered equal instance if there is one, otherwise the new object, appended -/
theorem finish_eq (reg : SrcReg) (s : Source) (hs : s.isNo = false) :
    finish reg s = match locate reg s with
      | some (_, r) => (reg, r)
      | none => (reg ++ [s], s) := by
  unfold finish register lookup
  cases h : locate reg s with
  | some p => simp [hs, h]
  | none => simp [hs, locate_append_none reg s s h, beq_refl]

/-! ## sources: the full form -/

mutual
/-- what decoding the full form of `s` amounts to on objects: members first, then the object itself is
constructed without `_raw`, registered if no equal source is, and the registered equal instance returned -/
def intern (reg : SrcReg) : Source → SrcReg × Source
  | .noSource => (reg, .noSource)
  | .set ms =>
    let p := internL reg ms
    finish p.1 (.set p.2)
  | s => finish reg s.strip
def internL (reg : SrcReg) : List Source → SrcReg × List Source
  | [] => (reg, [])
  | x :: r =>
    let p := intern reg x
    let q := internL p.1 r
    (q.1, p.2 :: q.2)
end

@[simp] theorem nested_ok {α : Type} (a : α) : nested (.ok a : Except OC.Err α) = .ok a := rfl

theorem decSourcesIn_enc (reg : SrcReg) (c u t : J) (xs : List J) :
    decSourcesIn reg [(kType, c), (kUri, u), (kStype, t), (kSources, .list xs)] = nested (decSourceL reg xs) := rfl

mutual
/-- constructible sources: a `MemoryTextSource` never has the placeholder uri `"UNSET"` (its
`__post_init__` replaces it) -/
def srcWF : Source → Bool
  | .memory u _ => u != unsetUri
  | .set ms => srcWFL ms
  | _ => true
def srcWFL : List Source → Bool
  | [] => true
  | x :: r => srcWF x && srcWFL r
end

theorem decSource_set (reg : SrcReg) (u : J) (xs : List J) :
    decSource reg (typed cSourceSet [(kUri, u), (kStype, .str cSourceSet), (kSources, .list xs)])
      = (do let (reg1, ms) ← nested (decSourceL reg xs); pure (finish reg1 (.set ms))) := rfl

theorem decSource_memory (reg : SrcReg) (u : Str) (hu : u ≠ unsetUri) :
    decSource reg (typed cMemory [(kUri, .str u), (kStype, .str tMemory)]) = .ok (finish reg (.memory u .none)) := by
  have : decSource reg (typed cMemory [(kUri, .str u), (kStype, .str tMemory)])
      = if u = unsetUri then .error .unmodelled else pure (finish reg (.memory u .none)) := rfl
  rw [this, if_neg hu]; rfl

mutual
theorem dec_encFull : ∀ (s : Source) (reg : SrcReg), srcWF s = true →
    decSource reg (encSourceFull s) = .ok (intern reg s)
  | .noSource, _, _ => rfl
  | .plain t _ _ _, _, _ => by cases t <;> rfl
  | .memory u _, reg, h => by
    have hu : u ≠ unsetUri := by simpa [srcWF] using h
    exact decSource_memory reg u hu
  | .file t _ _, _, _ => by cases t <;> rfl
  | .zipped .., _, _ => rfl
  | .set ms, reg, h => by
    have ih := decL_encFull ms reg (by simpa [srcWF] using h)
    simp only [encSourceFull, decSource_set, ih, intern]
    rfl
theorem decL_encFull : ∀ (ms : List Source) (reg : SrcReg), srcWFL ms = true →
    decSourceL reg (encSourceFullL ms) = .ok (internL reg ms)
  | [], _, _ => rfl
  | x :: r, reg, h => by
    have h' : srcWF x = true ∧ srcWFL r = true := by simpa [srcWFL] using h
    simp only [encSourceFullL, decSourceL, dec_encFull x reg h'.1, internL]
    simp [bind, Except.bind, decL_encFull r _ h'.2, pure, Except.pure]
end

/-! ### the decoded source is `==` the original; registered sources come back as the registered instance -/

theorem finish_snd_strip (reg : SrcReg) (s : Source) (hs : s.isNo = false) : (finish reg s).2.strip = s.strip := by
  rw [finish_eq reg s hs]
  cases h : locate reg s with
  | none => rfl
  | some p =>
    obtain ⟨i, r⟩ := p
    exact (beq_iff _ _).1 (locate_some reg s i r h).2.1

theorem finish_of_located (reg : SrcReg) (s : Source) (hs : s.isNo = false) (i : Nat) (r : Source)
    (h : locate reg s = some (i, r)) : finish reg s = (reg, r) := by
  rw [finish_eq reg s hs, h]

theorem finish_of_fresh (reg : SrcReg) (s : Source) (hs : s.isNo = false) (h : locate reg s = none) :
    finish reg s = (reg ++ [s], s) := by
  rw [finish_eq reg s hs, h]

mutual
theorem intern_strip : ∀ (s : Source) (reg : SrcReg), (intern reg s).2.strip = s.strip
  | .noSource, _ => rfl
  | .plain .., _ => by simp only [intern]; rw [finish_snd_strip _ _ rfl, strip_idem]
  | .memory .., _ => by simp only [intern]; rw [finish_snd_strip _ _ rfl, strip_idem]
  | .file .., _ => by simp only [intern]; rw [finish_snd_strip _ _ rfl, strip_idem]
  | .zipped .., _ => by simp only [intern]; rw [finish_snd_strip _ _ rfl, strip_idem]
  | .set ms, reg => by
    simp only [intern]; rw [finish_snd_strip _ _ rfl]
    simp only [Source.strip, internL_strip ms reg]
theorem internL_strip : ∀ (ms : List Source) (reg : SrcReg), Source.stripL (internL reg ms).2 = Source.stripL ms
  | [], _ => rfl
  | x :: r, reg => by simp only [internL, Source.stripL, intern_strip x reg, internL_strip r]
end

/-- the instance a registry hands out for `s`: the singleton for `NoSource`, else the registered source
`==` to `s` -/
def canonS (reg : SrcReg) (s : Source) : Source :=
  if s.isNo then .noSource else (lookup reg s).getD s

mutual
/-- `s` and everything it contains is registered (or is `NoSource`) -/
def closed (reg : SrcReg) : Source → Bool
  | .noSource => true
  | .set ms => (locate reg (.set ms)).isSome && closedL reg ms
  | s => (locate reg s).isSome
def closedL (reg : SrcReg) : List Source → Bool
  | [] => true
  | x :: r => closed reg x && closedL reg r
end

theorem closed_located (reg : SrcReg) (s : Source) (hs : s.isNo = false) (h : closed reg s = true) :
    (locate reg s).isSome = true := by
  cases s <;> simp_all [closed, Source.isNo]

theorem canonS_strip (reg : SrcReg) (s : Source) : (canonS reg s).strip = s.strip := by
  unfold canonS lookup
  cases hs : s.isNo with
  | true => cases s <;> simp_all [Source.isNo]
  | false =>
    cases h : locate reg s with
    | none => simp
    | some p => obtain ⟨i, r⟩ := p; simpa using (beq_iff _ _).1 (locate_some reg s i r h).2.1

theorem canonS_of_located (reg : SrcReg) (s : Source) (hs : s.isNo = false) (i : Nat) (r : Source)
    (h : locate reg s = some (i, r)) : canonS reg s = r := by
  simp [canonS, lookup, hs, h]

theorem canonS_congr (reg : SrcReg) (a b : Source) (h : a.strip = b.strip) (hl : (locate reg a).isSome = true) :
    canonS reg a = canonS reg b := by
  unfold canonS lookup
  rw [← locate_congr reg a b h, ← isNo_congr a b h]
  cases hn : a.isNo with
  | true => rfl
  | false =>
    cases hloc : locate reg a with
    | none => simp [hloc] at hl
    | some p => simp

theorem stripL_map_canonS (reg : SrcReg) (ms : List Source) : Source.stripL (ms.map (canonS reg)) = Source.stripL ms := by
  induction ms with
  | nil => rfl
  | cons x r ih => simp [Source.stripL, canonS_strip, ih]

theorem intern_leaf_closed (reg : SrcReg) (s : Source) (hs : s.isNo = false) (hl : (locate reg s).isSome = true) :
    finish reg s.strip = (reg, canonS reg s) := by
  have hc := locate_congr reg s.strip s (strip_idem s)
  cases h : locate reg s with
  | none => simp [h] at hl
  | some p =>
    obtain ⟨i, r⟩ := p
    rw [finish_of_located reg s.strip (by rw [isNo_strip]; exact hs) i r (by rw [hc, h]),
      canonS_of_located reg s hs i r h]

mutual
theorem intern_closed : ∀ (s : Source) (reg : SrcReg), closed reg s = true → intern reg s = (reg, canonS reg s)
  | .noSource, _, _ => rfl
  | .plain t u ty r, reg, h => intern_leaf_closed reg _ rfl (by simpa [closed] using h)
  | .memory u r, reg, h => intern_leaf_closed reg _ rfl (by simpa [closed] using h)
  | .file t p r, reg, h => intern_leaf_closed reg _ rfl (by simpa [closed] using h)
  | .zipped p z r, reg, h => intern_leaf_closed reg _ rfl (by simpa [closed] using h)
  | .set ms, reg, h => by
    have h' : (locate reg (.set ms)).isSome = true ∧ closedL reg ms = true := by simpa [closed] using h
    have hst : (Source.set (ms.map (canonS reg))).strip = (Source.set ms).strip := by
      simp only [Source.strip, stripL_map_canonS]
    simp only [intern, internL_closed ms reg h'.2]
    cases hl : locate reg (.set ms) with
    | none => simp [hl] at h'
    | some p =>
      obtain ⟨i, r⟩ := p
      rw [finish_of_located reg _ rfl i r (by rw [locate_congr reg _ _ hst, hl]),
        canonS_of_located reg _ rfl i r hl]
theorem internL_closed : ∀ (ms : List Source) (reg : SrcReg), closedL reg ms = true →
    internL reg ms = (reg, ms.map (canonS reg))
  | [], _, _ => rfl
  | x :: r, reg, h => by
    have h' : closed reg x = true ∧ closedL reg r = true := by simpa [closedL] using h
    simp only [internL, intern_closed x reg h'.1, internL_closed r reg h'.2, List.map]
end

theorem encSource_full (reg : SrcReg) (s : Source) : encSource false reg s = .ok (encSourceFull s) := by
  cases s <;> rfl

/-- **Full-form round trip of a source.**  Decoding the full serialization of `s` in any registry succeeds;
the result is `==` to `s` and is the instance the registry holds (`intern`); when `s` and everything in it
is registered the registry is unchanged and the *registered* instance comes back; a leaf source that is not
registered is registered (without `_raw`) under the next index. -/
theorem source_roundtrip (reg : SrcReg) (s : Source) (hwf : srcWF s = true) :
    (encSource false reg s >>= decSource reg) = .ok (intern reg s)
    ∧ ((intern reg s).2 == s) = true
    ∧ (closed reg s = true → intern reg s = (reg, canonS reg s) ∧ (s.isNo = false → canonS reg s ∈ reg))
    ∧ ((∀ ms, s ≠ .set ms) → s.isNo = false → locate reg s = none →
        intern reg s = (reg ++ [s.strip], s.strip)) := by
  refine ⟨?_, ?_, ?_, ?_⟩
  · rw [encSource_full]; exact dec_encFull s reg hwf
  · exact (beq_iff _ _).2 (intern_strip s reg)
  · intro hc
    refine ⟨intern_closed s reg hc, fun hs => ?_⟩
    have hl := closed_located reg s hs hc
    cases h : locate reg s with
    | none => simp [h] at hl
    | some p =>
      obtain ⟨i, r⟩ := p
      rw [canonS_of_located reg s hs i r h]; exact (locate_some reg s i r h).2.2
  · intro hset hs hl
    have hl' : locate reg s.strip = none := by rw [locate_congr reg s.strip s (strip_idem s)]; exact hl
    cases s with
    | noSource => simp [Source.isNo] at hs
    | set ms' => exact absurd rfl (hset ms')
    | plain t u ty r => exact finish_of_fresh reg _ rfl hl'
    | memory u r => exact finish_of_fresh reg _ rfl hl'
    | file t p r => exact finish_of_fresh reg _ rfl hl'
    | zipped p z r => exact finish_of_fresh reg _ rfl hl'

/-! ## sources: the index form and `load_serialized_sources` -/

theorem decSource_idx (reg : SrcReg) (i : Nat) :
    decSource reg (.map [(kIdx, .int i)]) = match reg[i]? with
      | some r => .ok (reg, r)
      | none => .error .value := by
  have : decSource reg (.map [(kIdx, .int i)]) = match byIdx reg i with
      | some r => .ok (reg, r)
      | none => .error .value := rfl
  rw [this]
  have : byIdx reg (i : Int) = reg[i]? := by
    unfold byIdx
    rw [if_neg (by omega)]; simp
  rw [this]

/-- index form: a registered source encodes to its index and decodes, in the same registry, to the
registered instance -/
theorem source_index_same_registry (reg : SrcReg) (s : Source) (hs : s.isNo = false) (i : Nat) (r : Source)
    (h : locate reg s = some (i, r)) :
    encSource true reg s = .ok (.map [(kIdx, .int i)])
    ∧ decSource reg (.map [(kIdx, .int i)]) = .ok (reg, r) ∧ (r == s) = true := by
  refine ⟨?_, ?_, (locate_some reg s i r h).2.1⟩
  · simp [encSource, hs, indexOf, h]
  · rw [decSource_idx, (locate_some reg s i r h).1]

theorem strip_beq_left (r s : Source) : (r.strip == s) = (r == s) := by
  rw [Bool.eq_iff_iff, beq_iff, beq_iff, strip_idem]

theorem locate_map_strip (reg : SrcReg) (s : Source) :
    locate (reg.map Source.strip) s = (locate reg s).map fun p => (p.1, p.2.strip) := by
  induction reg with
  | nil => rfl
  | cons x xs ih =>
    simp only [List.map, locate, strip_beq_left, ih]
    split
    · rfl
    · cases locate xs s <;> rfl

mutual
theorem closed_map_strip : ∀ (s : Source) (reg : SrcReg), closed (reg.map Source.strip) s = closed reg s
  | .noSource, _ => rfl
  | .plain .., reg => by simp [closed, locate_map_strip]
  | .memory .., reg => by simp [closed, locate_map_strip]
  | .file .., reg => by simp [closed, locate_map_strip]
  | .zipped .., reg => by simp [closed, locate_map_strip]
  | .set ms, reg => by simp [closed, locate_map_strip, closedL_map_strip ms reg]
theorem closedL_map_strip : ∀ (ms : List Source) (reg : SrcReg),
    closedL (reg.map Source.strip) ms = closedL reg ms
  | [], _ => rfl
  | x :: r, reg => by simp [closedL, closed_map_strip x reg, closedL_map_strip r reg]
end

/-- in a registry of `_raw`-less instances the registered instance of `s` is `s.strip` -/
theorem canonS_stripped (reg : SrcReg) (s : Source) (h : closed (reg.map Source.strip) s = true) :
    canonS (reg.map Source.strip) s = s.strip := by
  cases hs : s.isNo with
  | true => cases s <;> simp_all [Source.isNo, canonS, Source.strip]
  | false =>
    have hl := closed_located _ s hs h
    cases hloc : locate (reg.map Source.strip) s with
    | none => simp [hloc] at hl
    | some p =>
      obtain ⟨i, r⟩ := p
      rw [canonS_of_located _ s hs i r hloc]
      obtain ⟨_, h2, h3⟩ := locate_some _ s i r hloc
      obtain ⟨r0, _, rfl⟩ := List.mem_map.1 h3
      rw [← (beq_iff _ _).1 h2, strip_idem]

theorem closedL_all (reg : SrcReg) (ms : List Source) (h : closedL reg ms = true) : ∀ m ∈ ms, closed reg m = true := by
  induction ms with
  | nil => simp
  | cons x r ih =>
    have h' : closed reg x = true ∧ closedL reg r = true := by simpa [closedL] using h
    intro m hm
    rcases List.mem_cons.1 hm with rfl | hm
    · exact h'.1
    · exact ih h'.2 m hm

theorem map_canonS_stripped (reg : SrcReg) (ms : List Source) (h : closedL (reg.map Source.strip) ms = true) :
    ms.map (canonS (reg.map Source.strip)) = Source.stripL ms := by
  rw [stripL_eq_map]
  exact List.map_congr_left fun m hm => canonS_stripped reg m (closedL_all _ ms h m hm)

/-- the members of a `SourceSet` are registered (with everything they contain) -/
def membersClosed (reg : SrcReg) : Source → Bool
  | .set ms => closedL reg ms
  | _ => true

/-- decoding the full form of a source that is not registered, but whose members are, into a registry of
`_raw`-less instances appends exactly `s.strip` -/
theorem intern_fresh (reg : SrcReg) (s : Source) (hs : s.isNo = false) (hl : locate reg s = none)
    (hm : membersClosed reg s = true) :
    (intern (reg.map Source.strip) s).1 = (reg ++ [s]).map Source.strip := by
  have hl' : locate (reg.map Source.strip) s.strip = none := by
    rw [locate_congr _ s.strip s (strip_idem s), locate_map_strip, hl]; rfl
  have leaf : (finish (reg.map Source.strip) s.strip).1 = (reg ++ [s]).map Source.strip := by
    rw [finish_of_fresh _ _ (by rw [isNo_strip]; exact hs) hl']; simp
  cases s with
  | noSource => simp [Source.isNo] at hs
  | plain _ _ _ _ => exact leaf
  | memory _ _ => exact leaf
  | file _ _ _ => exact leaf
  | zipped _ _ _ => exact leaf
  | set ms =>
    have hc : closedL (reg.map Source.strip) ms = true := by rw [closedL_map_strip]; exact hm
    simp only [intern, internL_closed ms _ hc, map_canonS_stripped reg ms hc]
    exact leaf

/-- a registry the library can have produced without `clear_registry` in between, as a check on a list
`pre ++ suf`: no `NoSource`, no two `==` sources, every `SourceSet` registered after everything it contains -/
def regOK (pre : SrcReg) : List Source → Bool
  | [] => true
  | x :: post =>
    !x.isNo && (locate pre x).isNone && membersClosed pre x && srcWF x && regOK (pre ++ [x]) post

theorem load_all (suf pre : SrcReg) (h : regOK pre suf = true) :
    loadSerializedSources (pre.map Source.strip) (allAsDict suf) = .ok ((pre ++ suf).map Source.strip) := by
  induction suf generalizing pre with
  | nil => simp [allAsDict, loadSerializedSources]
  | cons x post ih =>
    simp only [regOK, Bool.and_eq_true, Bool.not_eq_true', Option.isNone_iff_eq_none] at h
    obtain ⟨⟨⟨⟨h1, h2⟩, h3⟩, h4⟩, h5⟩ := h
    have hstep := intern_fresh pre x h1 h2 h3
    simp only [allAsDict, List.map, loadSerializedSources, dec_encFull x _ h4] at *
    simp only [bind, Except.bind, hstep]
    have := ih (pre ++ [x]) h5
    simpa [allAsDict] using this

/-- **Index-based round trip, part 1**: the separately serialized sources (`Source.all_as_dict()`, in
registration order), loaded into the EMPTY registry, rebuild the registry: the same sources (as new,
`_raw`-less instances) at the same indexes. -/
theorem load_roundtrip (reg : SrcReg) (h : regOK [] reg = true) :
    loadSerializedSources clearRegistry (allAsDict reg) = .ok (reg.map Source.strip) := by
  simpa [clearRegistry] using load_all reg [] h

/-- **Index-based round trip, part 2**: with the sources loaded (`reg'`), the index form written against
the original registry decodes to the source `==` to the original; the registry is not changed. -/
theorem source_index_roundtrip (reg : SrcReg) (h : regOK [] reg = true) (s : Source) (hs : s.isNo = false)
    (hreg : (locate reg s).isSome = true) :
    ∃ reg' j s', loadSerializedSources clearRegistry (allAsDict reg) = .ok reg'
      ∧ reg'.length = reg.length ∧ (∀ i (hi : i < reg.length), ∃ r', reg'[i]? = some r' ∧ (r' == reg[i]) = true)
      ∧ encSource true reg s = .ok j ∧ decSource reg' j = .ok (reg', s') ∧ (s' == s) = true := by
  cases hl : locate reg s with
  | none => simp [hl] at hreg
  | some p =>
    obtain ⟨i, r⟩ := p
    obtain ⟨e1, _, e3⟩ := source_index_same_registry reg s hs i r hl
    refine ⟨reg.map Source.strip, _, r.strip, load_roundtrip reg h, by simp, ?_, e1, ?_, ?_⟩
    · intro k hk
      exact ⟨reg[k].strip, by simp [hk], beq_strip _⟩
    · rw [decSource_idx]; simp [(locate_some reg s i r hl).1]
    · rw [strip_beq_left]; exact e3

/-! ## positions -/

mutual
/-- constructible positions: every code range was accepted by `CodePoint` / `CodeRange.__post_init__` -/
def posWF : PosV → Bool
  | .code r => r.start.valid && r.end_.valid && r.valid
  | .set ps => posWFL ps
  | _ => true
def posWFL : List PosV → Bool
  | [] => true
  | x :: r => posWF x && posWFL r
end

theorem decPoint_enc (p : CodePoint) : decPoint (encPoint p) = if p.valid then .ok p else .error .value := rfl

theorem decPosition_code (dflt : Str) (r : CodeRange) (h1 : r.start.valid = true) (h2 : r.end_.valid = true)
    (h3 : r.valid = true) : decPosition dflt (encPosition (.code r)) = .ok (.code r) := by
  have : decPosition dflt (encPosition (.code r)) = (do
      let s ← nested (decPoint (encPoint r.start))
      let e ← nested (decPoint (encPoint r.end_))
      let r' : CodeRange := { start := s, end_ := e }
      if r'.valid then pure (PosV.code r') else .error .value) := rfl
  rw [this, decPoint_enc, decPoint_enc, if_pos h1, if_pos h2]
  show (if CodeRange.valid { start := r.start, end_ := r.end_ } = true then _ else _) = _
  rw [if_pos h3]; rfl

theorem decPosition_set (dflt : Str) (xs : List J) :
    decPosition dflt (typed cPositionSet [(kPositions, .list xs)])
      = (do let ps ← nested (decPositionL xs); pure (PosV.set ps)) := rfl

mutual
theorem dec_encPosition : ∀ (p : PosV) (dflt : Str), posWF p = true → decPosition dflt (encPosition p) = .ok p
  | .noPos, _, _ => rfl
  | .entire, _, _ => rfl
  | .xml _, _, _ => rfl
  | .code r, dflt, h => by
    have h' : (r.start.valid = true ∧ r.end_.valid = true) ∧ r.valid = true := by simpa [posWF] using h
    exact decPosition_code dflt r h'.1.1 h'.1.2 h'.2
  | .set ps, dflt, h => by
    simp only [encPosition, decPosition_set, dec_encPositionL ps (by simpa [posWF] using h)]
    rfl
theorem dec_encPositionL : ∀ (ps : List PosV), posWFL ps = true → decPositionL (encPositionL ps) = .ok ps
  | [], _ => rfl
  | x :: r, h => by
    have h' : posWF x = true ∧ posWFL r = true := by simpa [posWFL] using h
    simp only [encPositionL, decPositionL, dec_encPosition x cPosition h'.1, dec_encPositionL r h'.2]
    rfl
end

/-- **Positions round-trip** (whatever class the field is annotated with) -/
theorem position_roundtrip (dflt : Str) (p : PosV) (h : posWF p = true) :
    decPosition dflt (encPosition p) = .ok p := dec_encPosition p dflt h

/-! ## origins -/

theorem bind_ok {ε α β : Type} {x : Except ε α} {f : α → Except ε β} {y : β} (h : (x >>= f) = .ok y) :
    ∃ a, x = .ok a ∧ f a = .ok y := by
  cases x with
  | error e => simp [bind, Except.bind] at h
  | ok a => exact ⟨a, rfl, h⟩

/-- a source that is registered with everything it contains encodes (in either form) and decodes, in the
same registry, to the registered instance; the registry is unchanged -/
theorem source_closed_roundtrip (opt : Bool) (reg : SrcReg) (s : Source) (hwf : srcWF s = true)
    (hc : closed reg s = true) :
    ∃ j, encSource opt reg s = .ok j ∧ decSource reg j = .ok (reg, canonS reg s) := by
  cases opt with
  | false =>
    exact ⟨_, encSource_full reg s, by rw [dec_encFull s reg hwf, intern_closed s reg hc]⟩
  | true =>
    cases hs : s.isNo with
    | true =>
      have : s = .noSource := by cases s <;> simp_all [Source.isNo]
      subst this; exact ⟨.map [], rfl, rfl⟩
    | false =>
      have hl := closed_located reg s hs hc
      cases h : locate reg s with
      | none => simp [h] at hl
      | some p =>
        obtain ⟨i, r⟩ := p
        obtain ⟨e1, e2, _⟩ := source_index_same_registry reg s hs i r h
        exact ⟨_, e1, by rw [e2, canonS_of_located reg s hs i r h]⟩

mutual
/-- the origin with every source replaced by the instance the registry holds; the derived fields of a
`MultiOrigin` recomputed from the members as `__post_init__` does -/
def canonO (reg : SrcReg) : Org → Org
  | .none => .none
  | .code g s r => .code g (canonS reg s) r
  | .other k s p => .other k (canonS reg s) p
  | .multi _ _ os =>
    .multi (deriveSrc ((canonOL reg os).map Org.source)) (.set ((canonOL reg os).map Org.position)) (canonOL reg os)
def canonOL (reg : SrcReg) : List Org → List Org
  | [] => []
  | x :: r => canonO reg x :: canonOL reg r
end

mutual
/-- constructible origins -/
def orgWF : Org → Bool
  | .none => true
  | .code g s r => srcWF s && posWF (.code r) && (!g || decide (r = EMPTY_CODE_RANGE))
  | .other _ s p => srcWF s && posWF p
  | .multi s p os =>
    decide (2 ≤ os.length) && decide (s = deriveSrc (os.map Org.source)) && decide (p = .set (os.map Org.position))
      && orgWFL os
def orgWFL : List Org → Bool
  | [] => true
  | x :: r => orgWF x && orgWFL r
end

mutual
/-- every source the origin mentions — the derived `SourceSet` of a `MultiOrigin` included — is registered
together with everything it contains (true of every origin constructed since the last `clear_registry`) -/
def orgClosed (reg : SrcReg) : Org → Bool
  | .none => true
  | .code _ s _ => closed reg s
  | .other _ s _ => closed reg s
  | .multi s _ os => closed reg s && orgClosedL reg os
def orgClosedL (reg : SrcReg) : List Org → Bool
  | [] => true
  | x :: r => orgClosed reg x && orgClosedL reg r
end

mutual
/-- forget every `_raw`: what `==` on origins looks at -/
def stripO : Org → Org
  | .none => .none
  | .code g s r => .code g s.strip r
  | .other k s p => .other k s.strip p
  | .multi s p os => .multi s.strip p (stripOL os)
def stripOL : List Org → List Org
  | [] => []
  | x :: r => stripO x :: stripOL r
end

/-- Python `a == b` on origins (dataclass equality: same class, `source`, `position`, members `==`) -/
def eqvO (a b : Org) : Bool := decide (stripO a = stripO b)

theorem canonOL_eq_map (reg : SrcReg) (os : List Org) : canonOL reg os = os.map (canonO reg) := by
  induction os with
  | nil => rfl
  | cons x r ih => simp [canonOL, ih]

theorem canonOL_length (reg : SrcReg) (os : List Org) : (canonOL reg os).length = os.length := by
  simp [canonOL_eq_map]

theorem stripOL_eq_map (os : List Org) : stripOL os = os.map stripO := by
  induction os with
  | nil => rfl
  | cons x r ih => simp [stripOL, ih]

theorem source_strip (o : Org) : (stripO o).source = o.source.strip := by cases o <;> rfl
theorem position_strip (o : Org) : (stripO o).position = o.position := by cases o <;> rfl

theorem all_beq_strip (rest : List Source) (s0 : Source) :
    (rest.map Source.strip).all (fun s => s == s0.strip) = rest.all (fun s => s == s0) := by
  induction rest with
  | nil => rfl
  | cons x r ih =>
    have : (x.strip == s0.strip) = (x == s0) := by
      rw [Bool.eq_iff_iff, beq_iff, beq_iff, strip_idem, strip_idem]
    simp [List.all_cons, this, ih]

theorem deriveSrc_strip (ss : List Source) : (deriveSrc ss).strip = deriveSrc (ss.map Source.strip) := by
  cases ss with
  | nil => rfl
  | cons s0 rest =>
    simp only [deriveSrc, List.map, all_beq_strip]
    split
    · rfl
    · simp [Source.strip, Source.stripL, stripL_eq_map]

theorem derivesSet_strip (ss : List Source) : derivesSet (ss.map Source.strip) = derivesSet ss := by
  cases ss with
  | nil => rfl
  | cons s0 rest => simp only [derivesSet, List.map, all_beq_strip]

theorem deriveSrc_of_derivesSet (ss : List Source) (h : derivesSet ss = true) : deriveSrc ss = .set ss := by
  cases ss with
  | nil => simp [derivesSet] at h
  | cons s0 rest =>
    simp only [derivesSet, Bool.not_eq_true'] at h
    simp [deriveSrc, h]

theorem map_source_strip (os : List Org) : (os.map stripO).map Org.source = (os.map Org.source).map Source.strip := by
  simp only [List.map_map]; exact List.map_congr_left fun o _ => source_strip o

theorem map_position_strip (os : List Org) : (os.map stripO).map Org.position = os.map Org.position := by
  simp only [List.map_map]; exact List.map_congr_left fun o _ => position_strip o

mutual
/-- the canonical origin is `==` the original (the derived fields are recomputed equal) -/
theorem canonO_strip : ∀ (o : Org) (reg : SrcReg), orgWF o = true → stripO (canonO reg o) = stripO o
  | .none, _, _ => rfl
  | .code g s r, reg, _ => by simp [canonO, stripO, canonS_strip]
  | .other k s p, reg, _ => by simp [canonO, stripO, canonS_strip]
  | .multi s p os, reg, h => by
    simp only [orgWF, Bool.and_eq_true, decide_eq_true_eq] at h
    obtain ⟨⟨⟨_, hs⟩, hp⟩, hwf⟩ := h
    have ih := canonOL_strip os reg hwf
    rw [stripOL_eq_map, stripOL_eq_map] at ih
    have e1 : ((canonOL reg os).map Org.source).map Source.strip = (os.map Org.source).map Source.strip := by
      rw [← map_source_strip, ih, map_source_strip]
    have e2 : (canonOL reg os).map Org.position = os.map Org.position := by
      rw [← map_position_strip, ih, map_position_strip]
    simp only [canonO, stripO, deriveSrc_strip, e1, e2, hs, hp, stripOL_eq_map, ih]
theorem canonOL_strip : ∀ (os : List Org) (reg : SrcReg), orgWFL os = true →
    stripOL (canonOL reg os) = stripOL os
  | [], _, _ => rfl
  | x :: r, reg, h => by
    have h' : orgWF x = true ∧ orgWFL r = true := by simpa [orgWFL] using h
    simp only [canonOL, stripOL, canonO_strip x reg h'.1, canonOL_strip r reg h'.2]
end

theorem decSrcPos_ok (reg reg1 : SrcReg) (dflt : Str) (c sj pj : J) (s : Source) (p : PosV)
    (h1 : decSource reg sj = .ok (reg1, s)) (h2 : decPosition dflt pj = .ok p) :
    decSrcPos reg dflt [(kType, c), (kSource, sj), (kPosition, pj)] = .ok (reg1, s, p) := by
  have : decSrcPos reg dflt [(kType, c), (kSource, sj), (kPosition, pj)] = (do
      let (reg1, s) ← nested (decSource reg sj)
      let p ← nested (decPosition dflt pj)
      pure (reg1, s, p)) := rfl
  rw [this, h1, h2]; rfl

theorem decOrigin_base (reg reg1 : SrcReg) (sj pj : J) (s : Source) (p : PosV)
    (h1 : decSource reg sj = .ok (reg1, s)) (h2 : decPosition cPosition pj = .ok p) :
    decOrigin reg (typed cOrigin [(kSource, sj), (kPosition, pj)]) = .ok (reg1, .other .base s p) := by
  have : decOrigin reg (typed cOrigin [(kSource, sj), (kPosition, pj)]) = (do
      let (reg1, s, p) ← decSrcPos reg cPosition [(kType, .str cOrigin), (kSource, sj), (kPosition, pj)]
      pure (reg1, Org.other .base s p)) := rfl
  rw [this, decSrcPos_ok reg reg1 _ _ sj pj s p h1 h2]; rfl

theorem decOrigin_xml (reg reg1 : SrcReg) (sj pj : J) (s : Source) (p : PosV)
    (h1 : decSource reg sj = .ok (reg1, s)) (h2 : decPosition cXMLPath pj = .ok p) :
    decOrigin reg (typed cXMLOrigin [(kSource, sj), (kPosition, pj)]) = .ok (reg1, .other .xml s p) := by
  have : decOrigin reg (typed cXMLOrigin [(kSource, sj), (kPosition, pj)]) = (do
      let (reg1, s, p) ← decSrcPos reg cXMLPath [(kType, .str cXMLOrigin), (kSource, sj), (kPosition, pj)]
      pure (reg1, Org.other .xml s p)) := rfl
  rw [this, decSrcPos_ok reg reg1 _ _ sj pj s p h1 h2]; rfl

theorem decOrigin_code (reg reg1 : SrcReg) (sj pj : J) (s : Source) (r : CodeRange)
    (h1 : decSource reg sj = .ok (reg1, s)) (h2 : decPosition cCodeRange pj = .ok (.code r)) :
    decOrigin reg (typed cCodeOrigin [(kSource, sj), (kPosition, pj)]) = .ok (reg1, .code false s r) := by
  have : decOrigin reg (typed cCodeOrigin [(kSource, sj), (kPosition, pj)]) = (do
      let (reg1, s, p) ← decSrcPos reg cCodeRange [(kType, .str cCodeOrigin), (kSource, sj), (kPosition, pj)]
      match p with
      | .code r => pure (reg1, Org.code false s r)
      | _ => .error .unmodelled) := rfl
  rw [this, decSrcPos_ok reg reg1 _ _ sj pj s _ h1 h2]; rfl

theorem decOrigin_generated (reg reg1 : SrcReg) (sj pj : J) (s : Source)
    (h1 : decSource reg sj = .ok (reg1, s)) :
    decOrigin reg (typed cGenerated [(kSource, sj), (kPosition, pj)]) = .ok (reg1, .code true s EMPTY_CODE_RANGE) := by
  have : decOrigin reg (typed cGenerated [(kSource, sj), (kPosition, pj)]) = (do
      let (reg1, s) ← nested (decSource reg sj)
      pure (reg1, Org.code true s EMPTY_CODE_RANGE)) := rfl
  rw [this, h1]; rfl

theorem decOrigin_multi (reg : SrcReg) (sj pj : J) (js : List J) :
    decOrigin reg (typed cMulti [(kSource, sj), (kPosition, pj), (kOrigins, .list js)]) = (do
      let (reg1, os) ← nested (decOriginL reg js)
      mkMultiC reg1 os) := rfl

theorem encSource_ok (opt : Bool) (reg : SrcReg) (s : Source) (hc : closed reg s = true) :
    ∃ j, encSource opt reg s = .ok j := by
  cases opt with
  | false => exact ⟨_, encSource_full reg s⟩
  | true =>
    cases hs : s.isNo with
    | true => exact ⟨.map [], by simp [encSource, hs]⟩
    | false =>
      have hl := closed_located reg s hs hc
      cases h : locate reg s with
      | none => simp [h] at hl
      | some p => exact ⟨.map [(kIdx, .int p.1)], by simp [encSource, hs, indexOf, h]⟩

theorem register_located (reg : SrcReg) (s : Source) (h : (locate reg s).isSome = true) : register reg s = reg := by
  simp [register, h]

theorem mkMultiC_canon (reg : SrcReg) (s : Source) (p : PosV) (os : List Org)
    (hwf : orgWF (.multi s p os) = true) (hc : closed reg s = true) :
    mkMultiC reg (canonOL reg os) = .ok (reg, canonO reg (.multi s p os)) := by
  simp only [orgWF, Bool.and_eq_true, decide_eq_true_eq] at hwf
  obtain ⟨⟨⟨hlen, hs⟩, _⟩, hwfl⟩ := hwf
  have ih := canonOL_strip os reg hwfl
  rw [stripOL_eq_map, stripOL_eq_map] at ih
  have e1 : ((canonOL reg os).map Org.source).map Source.strip = (os.map Org.source).map Source.strip := by
    rw [← map_source_strip, ih, map_source_strip]
  have hreg : (if derivesSet ((canonOL reg os).map Org.source)
      then register reg (.set ((canonOL reg os).map Org.source)) else reg) = reg := by
    split
    · rename_i hd
      rw [← derivesSet_strip, e1, derivesSet_strip] at hd
      have hset : s = .set (os.map Org.source) := by rw [hs, deriveSrc_of_derivesSet _ hd]
      have hl : (locate reg s).isSome = true := closed_located reg s (by rw [hset]; rfl) hc
      apply register_located
      rw [locate_congr reg _ s]; exact hl
      rw [hset]; simp only [Source.strip, stripL_eq_map, e1]
    · rfl
  unfold mkMultiC
  rw [if_neg (by rw [canonOL_length]; omega)]
  simp only [hreg, canonO]

mutual
theorem origin_rt : ∀ (o : Org) (opt : Bool) (reg : SrcReg), orgWF o = true → orgClosed reg o = true →
    ∃ j, encOrigin opt reg o = .ok j ∧ decOrigin reg j = .ok (reg, canonO reg o)
  | .none, _, _, _, _ => ⟨.map [], rfl, rfl⟩
  | .code g s r, opt, reg, hwf, hc => by
    simp only [orgWF, Bool.and_eq_true, Bool.or_eq_true, Bool.not_eq_true', decide_eq_true_eq] at hwf
    obtain ⟨⟨hs, hp⟩, hg⟩ := hwf
    obtain ⟨sj, e1, e2⟩ := source_closed_roundtrip opt reg s hs (by simpa [orgClosed] using hc)
    cases g with
    | false =>
      exact ⟨_, by simp only [encOrigin, e1]; rfl, decOrigin_code reg reg sj _ _ r e2 (dec_encPosition _ _ hp)⟩
    | true =>
      have hr : r = EMPTY_CODE_RANGE := by simpa using hg
      subst hr
      exact ⟨_, by simp only [encOrigin, e1]; rfl, decOrigin_generated reg reg sj _ _ e2⟩
  | .other k s p, opt, reg, hwf, hc => by
    simp only [orgWF, Bool.and_eq_true] at hwf
    obtain ⟨sj, e1, e2⟩ := source_closed_roundtrip opt reg s hwf.1 (by simpa [orgClosed] using hc)
    cases k with
    | xml =>
      exact ⟨_, by simp only [encOrigin, e1]; rfl, decOrigin_xml reg reg sj _ _ p e2 (dec_encPosition _ _ hwf.2)⟩
    | base =>
      exact ⟨_, by simp only [encOrigin, e1]; rfl, decOrigin_base reg reg sj _ _ p e2 (dec_encPosition _ _ hwf.2)⟩
  | .multi s p os, opt, reg, hwf, hc => by
    have hc' : closed reg s = true ∧ orgClosedL reg os = true := by simpa [orgClosed] using hc
    have hwfl : orgWFL os = true := by
      simp only [orgWF, Bool.and_eq_true] at hwf; exact hwf.2
    obtain ⟨sj, e1⟩ := encSource_ok opt reg s hc'.1
    obtain ⟨js, e2, e3⟩ := originL_rt os opt reg hwfl hc'.2
    refine ⟨_, by simp only [encOrigin, e1, e2]; rfl, ?_⟩
    rw [decOrigin_multi, e3]
    exact mkMultiC_canon reg s p os hwf hc'.1
theorem originL_rt : ∀ (os : List Org) (opt : Bool) (reg : SrcReg), orgWFL os = true → orgClosedL reg os = true →
    ∃ js, encOriginL opt reg os = .ok js ∧ decOriginL reg js = .ok (reg, canonOL reg os)
  | [], _, _, _, _ => ⟨[], rfl, rfl⟩
  | x :: r, opt, reg, hwf, hc => by
    have hwf' : orgWF x = true ∧ orgWFL r = true := by simpa [orgWFL] using hwf
    have hc' : orgClosed reg x = true ∧ orgClosedL reg r = true := by simpa [orgClosedL] using hc
    obtain ⟨j, e1, e2⟩ := origin_rt x opt reg hwf'.1 hc'.1
    obtain ⟨js, e3, e4⟩ := originL_rt r opt reg hwf'.2 hc'.2
    exact ⟨j :: js, by simp only [encOriginL, e1, e3]; rfl, by
      simp only [decOriginL, e2, canonOL]
      show (decOriginL reg js >>= fun q => pure (q.1, canonO reg x :: q.2)) = _
      rw [e4]; rfl⟩
end

/-- **Origins of every kind round-trip**, in the full form (`opt = false`) and in the index form
(`opt = true`): for a constructible origin whose sources are registered, `as_dict` succeeds and `as_obj` of
the result, in the same registry, leaves the registry unchanged and returns the origin with every source
replaced by the registered instance and — for a `MultiOrigin`, whose `source` / `position` are not read
back — the derived fields recomputed; that origin is `==` the original. -/
theorem origin_roundtrip (opt : Bool) (reg : SrcReg) (o : Org) (hwf : orgWF o = true)
    (hc : orgClosed reg o = true) :
    ∃ j, encOrigin opt reg o = .ok j ∧ decOrigin reg j = .ok (reg, canonO reg o)
      ∧ eqvO (canonO reg o) o = true := by
  obtain ⟨j, e1, e2⟩ := origin_rt o opt reg hwf hc
  exact ⟨j, e1, e2, by simp [eqvO, canonO_strip o reg hwf]⟩

/-! ### the full form decodes in ANY registry (e.g. the empty one of a fresh process) -/

theorem multi_strip_congr (os os' : List Org) (h : stripOL os' = stripOL os) :
    stripO (.multi (deriveSrc (os'.map Org.source)) (.set (os'.map Org.position)) os')
      = stripO (.multi (deriveSrc (os.map Org.source)) (.set (os.map Org.position)) os) := by
  have ih := h
  rw [stripOL_eq_map, stripOL_eq_map] at ih
  have e1 : (os'.map Org.source).map Source.strip = (os.map Org.source).map Source.strip := by
    rw [← map_source_strip, ih, map_source_strip]
  have e2 : os'.map Org.position = os.map Org.position := by
    rw [← map_position_strip, ih, map_position_strip]
  simp only [stripO, deriveSrc_strip, e1, e2, h]

theorem mkMultiC_ok (reg : SrcReg) (os : List Org) (h : 2 ≤ os.length) :
    ∃ reg', mkMultiC reg os
      = .ok (reg', .multi (deriveSrc (os.map Org.source)) (.set (os.map Org.position)) os) := by
  unfold mkMultiC
  rw [if_neg (by omega)]
  exact ⟨_, rfl⟩

mutual
theorem origin_full_rt : ∀ (o : Org) (reg0 : SrcReg), orgWF o = true →
    ∃ j, encOrigin false reg0 o = .ok j ∧
      ∀ reg, ∃ reg' o', decOrigin reg j = .ok (reg', o') ∧ stripO o' = stripO o
  | .none, _, _ => ⟨.map [], rfl, fun reg => ⟨reg, .none, rfl, rfl⟩⟩
  | .code g s r, reg0, hwf => by
    simp only [orgWF, Bool.and_eq_true, Bool.or_eq_true, Bool.not_eq_true', decide_eq_true_eq] at hwf
    obtain ⟨⟨hs, hp⟩, hg⟩ := hwf
    have e1 := encSource_full reg0 s
    cases g with
    | false =>
      refine ⟨_, by simp only [encOrigin, e1]; rfl, fun reg => ⟨_, _,
        decOrigin_code reg _ _ _ _ r (dec_encFull s reg hs) (dec_encPosition _ _ hp), ?_⟩⟩
      simp only [stripO, intern_strip]
    | true =>
      have hr : r = EMPTY_CODE_RANGE := by simpa using hg
      subst hr
      refine ⟨_, by simp only [encOrigin, e1]; rfl, fun reg => ⟨_, _,
        decOrigin_generated reg _ _ _ _ (dec_encFull s reg hs), ?_⟩⟩
      simp only [stripO, intern_strip]
  | .other k s p, reg0, hwf => by
    simp only [orgWF, Bool.and_eq_true] at hwf
    have e1 := encSource_full reg0 s
    cases k with
    | xml =>
      refine ⟨_, by simp only [encOrigin, e1]; rfl, fun reg => ⟨_, _,
        decOrigin_xml reg _ _ _ _ p (dec_encFull s reg hwf.1) (dec_encPosition _ _ hwf.2), ?_⟩⟩
      simp only [stripO, intern_strip]
    | base =>
      refine ⟨_, by simp only [encOrigin, e1]; rfl, fun reg => ⟨_, _,
        decOrigin_base reg _ _ _ _ p (dec_encFull s reg hwf.1) (dec_encPosition _ _ hwf.2), ?_⟩⟩
      simp only [stripO, intern_strip]
  | .multi s p os, reg0, hwf => by
    simp only [orgWF, Bool.and_eq_true, decide_eq_true_eq] at hwf
    obtain ⟨⟨⟨hlen, hs⟩, hp⟩, hwfl⟩ := hwf
    have e1 := encSource_full reg0 s
    obtain ⟨js, e2, e3⟩ := originL_full_rt os reg0 hwfl
    refine ⟨_, by simp only [encOrigin, e1, e2]; rfl, fun reg => ?_⟩
    obtain ⟨reg1, os', e4, e5⟩ := e3 reg
    have hlen' : 2 ≤ os'.length := by
      have : (stripOL os').length = (stripOL os).length := by rw [e5]
      simp only [stripOL_eq_map, List.length_map] at this
      omega
    obtain ⟨reg2, e6⟩ := mkMultiC_ok reg1 os' hlen'
    refine ⟨reg2, _, by rw [decOrigin_multi, e4]; exact e6, ?_⟩
    rw [multi_strip_congr os os' e5, ← hs, ← hp]
theorem originL_full_rt : ∀ (os : List Org) (reg0 : SrcReg), orgWFL os = true →
    ∃ js, encOriginL false reg0 os = .ok js ∧
      ∀ reg, ∃ reg' os', decOriginL reg js = .ok (reg', os') ∧ stripOL os' = stripOL os
  | [], _, _ => ⟨[], rfl, fun reg => ⟨reg, [], rfl, rfl⟩⟩
  | x :: r, reg0, hwf => by
    have hwf' : orgWF x = true ∧ orgWFL r = true := by simpa [orgWFL] using hwf
    obtain ⟨j, e1, e2⟩ := origin_full_rt x reg0 hwf'.1
    obtain ⟨js, e3, e4⟩ := originL_full_rt r reg0 hwf'.2
    refine ⟨j :: js, by simp only [encOriginL, e1, e3]; rfl, fun reg => ?_⟩
    obtain ⟨reg1, x', e5, e6⟩ := e2 reg
    obtain ⟨reg2, r', e7, e8⟩ := e4 reg1
    refine ⟨reg2, x' :: r', ?_, by simp only [stripOL, e6, e8]⟩
    simp only [decOriginL, e5]
    show (decOriginL reg1 js >>= fun q => pure (q.1, x' :: q.2)) = _
    rw [e7]; rfl
end

/-- **Full-form round trip in any registry**: the full serialization of a constructible origin (written
against any registry `reg0`) decodes in any registry `reg` — the empty registry of a fresh process
included — to an origin `==` the original (sources not yet registered are registered on the way). -/
theorem origin_roundtrip_any_registry (reg0 reg : SrcReg) (o : Org) (hwf : orgWF o = true) :
    ∃ j reg' o', encOrigin false reg0 o = .ok j ∧ decOrigin reg j = .ok (reg', o') ∧ eqvO o' o = true := by
  obtain ⟨j, e1, e2⟩ := origin_full_rt o reg0 hwf
  obtain ⟨reg', o', e3, e4⟩ := e2 reg
  exact ⟨j, reg', o', e1, e3, by simp [eqvO, e4]⟩

/-! ## the singletons -/

/-- **`NoOrigin` / `NoSource` / `NoPosition` serialize to `{}` (whatever the options and the registry) and
`{}` — as well as any dict tagged with their class name — comes back as the very singleton**; inside an
origin, a `NoSource` source and a `NoPosition` position come back as the singletons too. -/
theorem singletons_roundtrip (opt : Bool) (reg : SrcReg) (dflt : Str) (rest : List (Str × J)) :
    encOrigin opt reg .none = .ok (.map []) ∧ decOrigin reg (.map []) = .ok (reg, .none)
    ∧ encSource opt reg .noSource = .ok (.map []) ∧ decSource reg (.map []) = .ok (reg, .noSource)
    ∧ encPosition .noPos = .map [] ∧ decPosition dflt (.map []) = .ok .noPos
    ∧ decOrigin reg (.map ((kType, .str cNoOrigin) :: rest)) = .ok (reg, .none)
    ∧ decSource reg (.map ((kType, .str cNoSource) :: rest)) = .ok (reg, .noSource)
    ∧ decPosition dflt (.map ((kType, .str cNoPosition) :: rest)) = .ok .noPos
    ∧ canonS reg .noSource = .noSource
    ∧ (∀ k, canonO reg (.other k .noSource .noPos) = .other k .noSource .noPos) :=
  ⟨rfl, rfl, rfl, rfl, rfl, rfl, rfl, rfl, rfl, rfl, fun _ => rfl⟩

/-! ## index-based origins after loading the sources -/

theorem indexOf_map_strip (reg : SrcReg) (s : Source) : indexOf (reg.map Source.strip) s = indexOf reg s := by
  unfold indexOf; rw [locate_map_strip]; cases locate reg s <;> rfl

theorem encSource_true_map_strip (reg : SrcReg) (s : Source) :
    encSource true (reg.map Source.strip) s = encSource true reg s := by
  unfold encSource; rw [indexOf_map_strip]

mutual
theorem encOrigin_true_map_strip : ∀ (o : Org) (reg : SrcReg),
    encOrigin true (reg.map Source.strip) o = encOrigin true reg o
  | .none, _ => rfl
  | .code .., reg => by simp only [encOrigin, encSource_true_map_strip]
  | .other .., reg => by simp only [encOrigin, encSource_true_map_strip]
  | .multi _ _ os, reg => by simp only [encOrigin, encSource_true_map_strip, encOriginL_true_map_strip os reg]
theorem encOriginL_true_map_strip : ∀ (os : List Org) (reg : SrcReg),
    encOriginL true (reg.map Source.strip) os = encOriginL true reg os
  | [], _ => rfl
  | x :: r, reg => by simp only [encOriginL, encOrigin_true_map_strip x reg, encOriginL_true_map_strip r reg]
end

mutual
theorem orgClosed_map_strip : ∀ (o : Org) (reg : SrcReg), orgClosed (reg.map Source.strip) o = orgClosed reg o
  | .none, _ => rfl
  | .code .., reg => by simp only [orgClosed, closed_map_strip]
  | .other .., reg => by simp only [orgClosed, closed_map_strip]
  | .multi _ _ os, reg => by simp only [orgClosed, closed_map_strip, orgClosedL_map_strip os reg]
theorem orgClosedL_map_strip : ∀ (os : List Org) (reg : SrcReg),
    orgClosedL (reg.map Source.strip) os = orgClosedL reg os
  | [], _ => rfl
  | x :: r, reg => by simp only [orgClosedL, orgClosed_map_strip x reg, orgClosedL_map_strip r reg]
end

/-- **Index-based serialization of an origin round-trips once the separately serialized sources have been
loaded.**  Preconditions, all needed: the sources are loaded into the EMPTY registry, as the complete list
`Source.all_as_dict()` in registration order, of a registry in which every `SourceSet` comes after what it
contains (`regOK`). -/
theorem origin_index_roundtrip (reg : SrcReg) (hreg : regOK [] reg = true) (o : Org) (hwf : orgWF o = true)
    (hc : orgClosed reg o = true) :
    ∃ j reg' o', encOrigin true reg o = .ok j
      ∧ loadSerializedSources clearRegistry (allAsDict reg) = .ok reg'
      ∧ decOrigin reg' j = .ok (reg', o') ∧ eqvO o' o = true := by
  have hc' : orgClosed (reg.map Source.strip) o = true := by rw [orgClosed_map_strip]; exact hc
  obtain ⟨j, e1, e2, e3⟩ := origin_roundtrip true (reg.map Source.strip) o hwf hc'
  rw [encOrigin_true_map_strip] at e1
  exact ⟨j, _, _, e1, load_roundtrip reg hreg, e2, e3⟩

/-! ## the preconditions are needed (counterexamples), and the statements are not vacuous -/

section Examples
def sA : Source := .memory "m1".toList (.text "abc".toList)
def sA' : Source := .memory "m1".toList .none                    -- `==` sA, another instance
def sB : Source := .file false "a/b.txt".toList .none
def sC : Source := .zipped "z.zip".toList "in/x.xml".toList .none
def sD : Source := .plain true "u".toList "t".toList (.text "raw".toList)
def sBC : Source := .set [sB, sC]
def rg : CodeRange := ⟨⟨1, 1, 1⟩, ⟨5, 2, 0⟩⟩
def oMulti : Org :=
  .multi sBC (.set [.code rg, .set [.xml "/a/b".toList, .noPos, .entire]])
    [.code false sB rg, .other .xml sC (.set [.xml "/a/b".toList, .noPos, .entire])]
def oSame : Org :=
  .multi sA (.set [.code rg, .code EMPTY_CODE_RANGE]) [.code false sA rg, .code true sA' EMPTY_CODE_RANGE]

/-- loading into a NON-empty registry shifts the indexes: index 0 written against `[sB, sC]` decodes to the
unrelated source that was already there -/
theorem load_needs_empty_registry :
    encSource true [sB, sC] sB = .ok (.map [(kIdx, .int 0)])
    ∧ loadSerializedSources [sD] (allAsDict [sB, sC]) = .ok [sD, sB, sC]
    ∧ decSource [sD, sB, sC] (.map [(kIdx, .int 0)]) = .ok ([sD, sB, sC], sD)
    ∧ (sD == sB) = false := by decide

/-- a registry in which a `SourceSet` precedes one of its members (possible after `clear_registry` while the
member object is still alive) does NOT rebuild: loading re-registers the member before the set, so the
indexes of the set and the member are swapped -/
theorem load_needs_order :
    regOK [] [sB, sBC, sC] = false
    ∧ loadSerializedSources clearRegistry (allAsDict [sB, sBC, sC]) = .ok [sB, sC, sBC]
    ∧ encSource true [sB, sBC, sC] sBC = .ok (.map [(kIdx, .int 1)])
    ∧ decSource [sB, sC, sBC] (.map [(kIdx, .int 1)]) = .ok ([sB, sC, sBC], sC)
    ∧ (sC == sBC) = false := by decide

/-- without loading, an index does not decode -/
theorem index_needs_load : decSource clearRegistry (.map [(kIdx, .int 0)]) = .error .value := by decide

/-- an unregistered source has no index form (`KeyError` in the real code) -/
theorem index_needs_registered : encSource true [sB] sC = .error .key := by decide

-- non-vacuity: a registry satisfying `regOK`, origins satisfying the hypotheses, and the concrete outcomes
example : regOK [] [sA, sB, sC, sBC, sD] = true := by decide
example : orgWF oMulti = true ∧ orgClosed [sA, sB, sC, sBC, sD] oMulti = true := by decide
example : orgWF oSame = true ∧ orgClosed [sA, sB, sC, sBC, sD] oSame = true := by decide
example : loadSerializedSources clearRegistry (allAsDict [sA, sB, sC, sBC, sD])
    = .ok [sA', sB, sC, sBC, .plain true "u".toList "t".toList .none] := by decide
example : (encOrigin true [sA, sB, sC, sBC, sD] oMulti >>= decOrigin [sA, sB, sC, sBC, sD])
    = .ok ([sA, sB, sC, sBC, sD], oMulti) := by decide
example : (encOrigin false [sA, sB, sC, sBC, sD] oMulti >>= decOrigin [sA, sB, sC, sBC, sD])
    = .ok ([sA, sB, sC, sBC, sD], oMulti) := by decide
-- the `==` member `sA'` comes back as the registered instance `sA` (with its `_raw`)
example : (encOrigin false [sA, sB] oSame >>= decOrigin [sA, sB])
    = .ok ([sA, sB], .multi sA (.set [.code rg, .code EMPTY_CODE_RANGE])
        [.code false sA rg, .code true sA EMPTY_CODE_RANGE]) := by decide
-- decoding the full form into the empty registry registers the sources and the derived set
example : (encOrigin false [] oMulti >>= decOrigin []) = .ok ([sB, sC, sBC], oMulti) := by decide
example : encOrigin true [sA, sB, sC, sBC, sD] oMulti = .ok (typed cMulti
    [(kSource, .map [(kIdx, .int 3)]),
     (kPosition, encPosition (.set [.code rg, .set [.xml "/a/b".toList, .noPos, .entire]])),
     (kOrigins, .list [
        typed cCodeOrigin [(kSource, .map [(kIdx, .int 1)]), (kPosition, encPosition (.code rg))],
        typed cXMLOrigin [(kSource, .map [(kIdx, .int 2)]),
          (kPosition, typed cPositionSet [(kPositions, .list [typed cXMLPath [(kXpath, .str "/a/b".toList)], .map [],
            typed cEntire []])])]])]) := by decide
example : decSource [sA] (encSourceFull sA') = .ok ([sA], sA) := by decide
example : decSource [] (encSourceFull sA) = .ok ([sA'], sA') := by decide
end Examples

end PyOak.C04O

#print axioms PyOak.C04O.source_roundtrip
#print axioms PyOak.C04O.source_index_same_registry
#print axioms PyOak.C04O.load_roundtrip
#print axioms PyOak.C04O.source_index_roundtrip
#print axioms PyOak.C04O.position_roundtrip
#print axioms PyOak.C04O.origin_roundtrip
#print axioms PyOak.C04O.origin_roundtrip_any_registry
#print axioms PyOak.C04O.origin_index_roundtrip
#print axioms PyOak.C04O.singletons_roundtrip
#print axioms PyOak.C04O.load_needs_empty_registry
#print axioms PyOak.C04O.load_needs_order
#print axioms PyOak.C04O.index_needs_load
#print axioms PyOak.C04O.index_needs_registered
#print axioms PyOak.C04O.beq_refl
#print axioms PyOak.C04O.beq_symm
#print axioms PyOak.C04O.beq_trans
