/-
C04, value half — the property-VALUE codec round-trips.

  `dec_enc`      for every annotation satisfying the decidable side condition `Ty.rt` and every conforming value
                 (`wt`): the packer succeeds, its payload is JSON-like, and the unpacker gives the value back
                 (structural induction over annotations; no size bound).
  `enc_injective_on_type`, `enc_jsonLike`, `enc_null_iff`
  `dec_fset_perm`  the order of the payload list of a frozenset is irrelevant
  `*_fails` / `*_leaks`  decide-checked witnesses of the annotations OUTSIDE `Ty.rt` on which the real code does not
                 round-trip (each one reproduced on the real code by the correspondence, kind `value-codec:finding`)
  `encNode_keys`, `encNode_postNode`  the node layout under the default options
-/
import PyOak.Model.ValueCodec
namespace PyOak
namespace C04V
open VC

/-! ## scalars -/

theorem pyEq_self {s : Sc} (h : s.isFlt = false) : pyEq s s = some true := by
  cases s <;> simp_all [pyEq, Sc.isFlt]

theorem pyEq_ne_none {s x : Sc} (hs : s.isFlt = false) (hx : x.isFlt = false) : pyEq s x ≠ none := by
  cases s <;> cases x <;> simp_all [pyEq, Sc.isFlt]

theorem pyEq_flt_nonnum {t : Str} {x : Sc} (hx : x.isNum = false) : pyEq (.flt t) x = some false := by
  cases x <;> simp_all [pyEq, Sc.isNum]

theorem mayEq_false {a b : Sc} (h : mayEq a b = false) : pyEq a b = some false := by
  simpa [mayEq] using h

/-! ## `firstEq` -/

theorem firstEq_none {α : Type} (key : α → Sc) (s : Sc) :
    ∀ l : List α, (∀ a ∈ l, pyEq s (key a) = some false) → firstEq key s l = .ok none
  | [], _ => rfl
  | a :: r, h => by
    have h1 := h a (by simp)
    simp only [firstEq, h1]
    exact firstEq_none key s r (fun b hb => h b (by simp [hb]))

/-- every comparison is decided, and each element either differs or satisfies `Q`: the search ends without a result
or with an element satisfying `Q` -/
theorem firstEq_spec {α : Type} (key : α → Sc) (s : Sc) (Q : α → Prop) :
    ∀ l : List α, (∀ a ∈ l, pyEq s (key a) = some false ∨ (pyEq s (key a) = some true ∧ Q a)) →
      firstEq key s l = .ok none ∨ ∃ a, a ∈ l ∧ Q a ∧ firstEq key s l = .ok (some a)
  | [], _ => Or.inl rfl
  | a :: r, h => by
    rcases h a (by simp) with h1 | ⟨h1, hq⟩
    · simp only [firstEq, h1]
      rcases firstEq_spec key s Q r (fun b hb => h b (by simp [hb])) with h2 | ⟨b, hb, hqb, h2⟩
      · exact Or.inl h2
      · exact Or.inr ⟨b, by simp [hb], hqb, h2⟩
    · exact Or.inr ⟨a, by simp, hq, by simp only [firstEq, h1]⟩

/-- the element looked for is in the list and every other element differs from it -/
theorem firstEq_found {α : Type} (key : α → Sc) (s : Sc) (x : α) :
    ∀ l : List α, x ∈ l → pyEq s (key x) = some true →
      (∀ a ∈ l, a = x ∨ pyEq s (key a) = some false) → firstEq key s l = .ok (some x)
  | [], hx, _, _ => by simp at hx
  | a :: r, hx, hxx, h => by
    rcases h a (by simp) with h1 | h1
    · subst h1; simp only [firstEq, hxx]
    · simp only [firstEq, h1]
      have : x ∈ r := by
        rcases List.mem_cons.1 hx with e | e
        · subst e; rw [hxx] at h1; cases h1
        · exact e
      exact firstEq_found key s x r this hxx (fun b hb => h b (by simp [hb]))

/-! ## one scalar annotation -/

theorem litOK_noFlt {alts : List Sc} (h : litOK alts = true) {s : Sc} (hs : s ∈ alts) : s.isFlt = false := by
  simp only [litOK, Bool.and_eq_true, List.all_eq_true] at h
  simpa using h.1 s hs

theorem litOK_pair {alts : List Sc} (h : litOK alts = true) {a b : Sc} (ha : a ∈ alts) (hb : b ∈ alts) :
    a = b ∨ pyEq a b = some false := by
  simp only [litOK, Bool.and_eq_true, List.all_eq_true] at h
  have := h.2 a ha b hb
  simp only [Bool.or_eq_true, beq_iff_eq, Bool.not_eq_true'] at this
  rcases this with e | e
  · exact Or.inl e
  · exact Or.inr (mayEq_false e)

/-- a `Literal` finds its own alternative -/
theorem firstEq_lit {alts : List Sc} (h : litOK alts = true) {s : Sc} (hs : s ∈ alts) :
    firstEq id s alts = .ok (some s) := by
  refine firstEq_found id s s alts hs (pyEq_self (litOK_noFlt h hs)) (fun a ha => ?_)
  rcases litOK_pair h hs ha with e | e
  · exact Or.inl e.symm
  · exact Or.inr e

theorem enumOK_kind {d : EnumDecl} (h : enumOK d = true) {x : Sc} (hx : x ∈ d.vals) : x.isInt = true ∨ x.isStr = true := by
  simp only [enumOK, Bool.and_eq_true, List.all_eq_true] at h
  simpa using h.1 x hx

theorem pyEq_intstr_ne {a b : Sc} (ha : a.isInt = true ∨ a.isStr = true) (hb : b.isInt = true ∨ b.isStr = true)
    (h : a ≠ b) : pyEq a b = some false := by
  cases a <;> cases b <;> simp_all [pyEq, Sc.isInt, Sc.isStr]

theorem pyEq_intstr_self {a : Sc} (ha : a.isInt = true ∨ a.isStr = true) : pyEq a a = some true := by
  cases a <;> simp_all [pyEq, Sc.isInt, Sc.isStr]

theorem nodup_map_inj {α β : Type} (f : α → β) : ∀ {l : List α}, (l.map f).Nodup → ∀ {a b : α}, a ∈ l → b ∈ l →
    f a = f b → a = b
  | [], _, _, _, ha, _, _ => by simp at ha
  | x :: r, h, a, b, ha, hb, e => by
    simp only [List.map_cons, List.nodup_cons, List.mem_map, not_exists, not_and] at h
    rcases List.mem_cons.1 ha with rfl | ha' <;> rcases List.mem_cons.1 hb with rfl | hb'
    · rfl
    · exact absurd e.symm (h.1 b hb')
    · exact absurd e (h.1 a ha')
    · exact nodup_map_inj f h.2 ha' hb' e

/-- `Enum(value)` finds the member the value came from -/
theorem firstEq_enum {d : EnumDecl} (h : enumOK d = true) {m : Str} {val : Sc} (hm : (m, val) ∈ d.members) :
    firstEq (·.2) val d.members = .ok (some (m, val)) := by
  have hk : ∀ p ∈ d.members, p.2.isInt = true ∨ p.2.isStr = true := fun p hp =>
    enumOK_kind h (List.mem_map.2 ⟨p, hp, rfl⟩)
  have hnd : (d.members.map (·.2)).Nodup := by
    simp only [enumOK, Bool.and_eq_true, decide_eq_true_eq] at h
    exact h.2
  have hv := hk _ hm
  refine firstEq_found (·.2) val (m, val) d.members hm ?_ ?_
  · exact pyEq_intstr_self hv
  · intro p hp
    by_cases e : p.2 = val
    · left
      -- two members with the same value are the same member (values are pairwise different)
      exact nodup_map_inj (·.2) hnd hp hm e
    · right
      exact pyEq_intstr_ne hv (hk p hp) (Ne.symm e)

/-- what a non-basic member does with the payload of its OWN conforming value (`Lemma A`) -/
theorem tryUnpack_own {a : Atom} {v : V} (hok : atomOK a = true) (hp : a.prim = none) (hw : wtAtom a v = true) :
    tryUnpack a (payload v) = .ok (some v) := by
  cases a with
  | lit alts =>
    cases v with
    | sc s =>
      have hs : s ∈ alts := by simpa [wtAtom] using hw
      simp [tryUnpack, payload, firstEq_lit hok hs]
    | _ => simp [wtAtom] at hw
  | «enum» d =>
    cases v with
    | «enum» c m val =>
      simp only [wtAtom, Bool.and_eq_true, beq_iff_eq, List.contains_eq_mem, decide_eq_true_eq] at hw
      obtain ⟨rfl, hm⟩ := hw
      simp [tryUnpack, payload, firstEq_enum hok hm]
    | _ => simp [wtAtom] at hw
  | path =>
    cases v with
    | path s =>
      have : isNormPath s = true := by simpa [wtAtom] using hw
      simp [tryUnpack, payload, this]
    | _ => simp [wtAtom] at hw
  | _ => simp [Atom.prim] at hp

theorem tryPack_own {a : Atom} {v : V} (hok : atomOK a = true) (hp : a.prim = none) (hw : wtAtom a v = true) :
    tryPack a v = .ok (some (payload v)) := by
  cases a with
  | lit alts =>
    cases v with
    | sc s =>
      have hs : s ∈ alts := by simpa [wtAtom] using hw
      simp [tryPack, payload, firstEq_lit hok hs]
    | _ => simp [wtAtom] at hw
  | «enum» d =>
    cases v with
    | «enum» c m val => simp [tryPack, payload]
    | _ => simp [wtAtom] at hw
  | path =>
    cases v with
    | path s => simp [tryPack, payload]
    | _ => simp [wtAtom] at hw
  | _ => simp [Atom.prim] at hp

/-- a basic member: the value is a scalar of exactly that class -/
theorem wtAtom_prim {a : Atom} {c : Cls} {v : V} (hp : a.prim = some c) (hw : wtAtom a v = true) :
    ∃ s, v = .sc s ∧ s.cls = c := by
  cases a <;> simp [Atom.prim] at hp <;> subst hp <;> cases v <;> simp [wtAtom] at hw <;>
    (rename_i s; cases s <;> simp_all [Sc.cls])

theorem coerce_own {c : Cls} {s : Sc} (h : s.cls = c) : coerce c (.sc s) = .ok (.sc s) := by
  cases s <;> simp [Sc.cls] at h <;> subst h <;> simp [coerce]

theorem atom_rt {a : Atom} {v : V} (hok : atomOK a = true) (hw : wtAtom a v = true) :
    encAtom a v = .ok (payload v) ∧ decAtom a (payload v) = .ok v := by
  cases hp : a.prim with
  | some c =>
    obtain ⟨s, rfl, hs⟩ := wtAtom_prim hp hw
    simp [encAtom, decAtom, hp, passThrough, payload, coerce_own hs]
  | none =>
    simp [encAtom, decAtom, hp, tryPack_own hok hp hw, tryUnpack_own hok hp hw]

theorem payload_json {a : Atom} {v : V} (hw : wtAtom a v = true) : (payload v).jsonLike = true := by
  cases v <;> first | rfl | (cases a <;> simp [wtAtom] at hw)

theorem payload_null {a : Atom} {v : V} (hok : atomOK a = true) (hw : wtAtom a v = true)
    (h : payload v = .sc .null) : v = .sc .null := by
  cases v with
  | sc s => simpa [payload] using h
  | «enum» c m val =>
    cases a <;> simp [wtAtom] at hw
    rename_i d
    have := enumOK_kind (d := d) hok (x := val) (List.mem_map.2 ⟨(m, val), hw.2, rfl⟩)
    simp only [payload, J.sc.injEq] at h
    subst h
    simp [Sc.isInt, Sc.isStr] at this
  | path s => simp [payload] at h
  | tuple xs => simp [payload] at h
  | fset xs => simp [payload] at h

/-! ## unions: the first pass of the unpacker -/

/-- what one member does in the first pass -/
def take (a : Atom) (j : J) : Except Err (Option V) :=
  match a.prim with
  | some c => .ok (typeMatch c j)
  | none => tryUnpack a j

theorem pass1_cons (a : Atom) (r : List Atom) (j : J) :
    pass1 (a :: r) j = match take a j with
      | .error e => .error e
      | .ok (some v) => .ok (some v)
      | .ok none => pass1 r j := by
  cases hp : a.prim with
  | some c => cases h : typeMatch c j <;> simp [pass1, take, hp, h]
  | none =>
    simp only [pass1, take, hp]
    cases tryUnpack a j with
    | error e => rfl
    | ok o => cases o <;> rfl

/-- the three shapes of a conforming value of a scalar annotation -/
theorem wtAtom_shape {b : Atom} {v : V} (hok : atomOK b = true) (hw : wtAtom b v = true) :
    (∃ s, v = .sc s ∧ ((∃ c, b.prim = some c ∧ s.cls = c) ∨ (∃ l, b = .lit l ∧ s ∈ l ∧ s.isFlt = false))) ∨
    (∃ d c m val, b = .enum d ∧ v = .enum c m val ∧ val ∈ d.vals ∧ (val.isInt = true ∨ val.isStr = true)) ∨
    (∃ p, b = .path ∧ v = .path p ∧ isNormPath p = true) := by
  cases hp : b.prim with
  | some c =>
    obtain ⟨s, rfl, hs⟩ := wtAtom_prim hp hw
    exact Or.inl ⟨s, rfl, Or.inl ⟨c, rfl, hs⟩⟩
  | none =>
    cases b with
    | lit l =>
      cases v with
      | sc s =>
        have hs : s ∈ l := by simpa [wtAtom] using hw
        exact Or.inl ⟨s, rfl, Or.inr ⟨l, rfl, hs, litOK_noFlt hok hs⟩⟩
      | _ => simp [wtAtom] at hw
    | «enum» d =>
      cases v with
      | «enum» c m val =>
        simp only [wtAtom, Bool.and_eq_true, beq_iff_eq, List.contains_eq_mem, decide_eq_true_eq] at hw
        have hv : val ∈ d.vals := List.mem_map.2 ⟨(m, val), hw.2, rfl⟩
        exact Or.inr (Or.inl ⟨d, c, m, val, rfl, rfl, hv, enumOK_kind hok hv⟩)
      | _ => simp [wtAtom] at hw
    | path =>
      cases v with
      | path p => exact Or.inr (Or.inr ⟨p, rfl, rfl, by simpa [wtAtom] using hw⟩)
      | _ => simp [wtAtom] at hw
    | _ => simp [Atom.prim] at hp

theorem enum_all_false {d : EnumDecl} {s : Sc} (hok : enumOK d = true)
    (h : ∀ x ∈ d.vals, (x.isInt = true ∨ x.isStr = true) → pyEq s x = some false) :
    tryUnpack (.enum d) (.sc s) = .ok none := by
  have : firstEq (·.2) s d.members = .ok none :=
    firstEq_none _ _ _ (fun p hp => by
      have hv : p.2 ∈ d.vals := List.mem_map.2 ⟨p, hp, rfl⟩
      exact h _ hv (enumOK_kind hok hv))
  simp [tryUnpack, this]

theorem lit_take {l : List Sc} {s : Sc} {v : V}
    (h : ∀ x ∈ l, pyEq s x = some false ∨ (pyEq s x = some true ∧ (x = s ∧ v = .sc s))) :
    tryUnpack (.lit l) (.sc s) = .ok none ∨ tryUnpack (.lit l) (.sc s) = .ok (some v) := by
  rcases firstEq_spec id s (fun x => x = s ∧ v = .sc s) l h with h1 | ⟨x, _, ⟨rfl, rfl⟩, h1⟩
  · left; simp [tryUnpack, h1]
  · right; simp [tryUnpack, h1]

theorem any_false {α : Type} {p : α → Bool} {l : List α} (h : l.any p = false) {x : α} (hx : x ∈ l) : p x = false := by
  have := List.any_eq_false.1 h x hx
  simpa using this

/-- `Lemma B`: a member that is tried EARLIER and does not conflict lets the payload pass, or reads the same value -/
theorem take_other {a b : Atom} {v : V} (hoka : atomOK a = true) (hokb : atomOK b = true)
    (hc : conflict a b = false) (hw : wtAtom b v = true) :
    take a (payload v) = .ok none ∨ take a (payload v) = .ok (some v) := by
  rcases wtAtom_shape hokb hw with ⟨s, rfl, hb⟩ | ⟨d, c, m, val, rfl, rfl, hval, hk⟩ | ⟨p, rfl, rfl, hn⟩
  · -- the value is a scalar, written as itself
    cases hpa : a.prim with
    | some c' =>
      by_cases e : s.cls = c' <;> simp [take, hpa, payload, typeMatch, e]
    | none =>
      cases a with
      | «enum» d =>
        left
        simp only [take, hpa, payload]
        apply enum_all_false hoka
        intro x hx hkx
        rcases hb with ⟨c, hpb, hs⟩ | ⟨l, rfl, hsl, _⟩
        · cases b <;> simp [Atom.prim] at hpb <;> subst hpb <;> simp only [conflict] at hc <;>
            (try have hx' := any_false hc hx) <;> cases s <;> simp [Sc.cls] at hs <;> cases x <;>
            simp_all [pyEq, Sc.isInt, Sc.isStr, Sc.isNum, b2i]
          all_goals first
            | (have h2 := hc _ hx; simp only [Sc.int.injEq] at h2; split <;> omega)
            | (refine (Decidable.em (_ = _)).symm.imp id fun h => ⟨h, h.symm⟩)
        · simp only [conflict] at hc
          have := any_false (any_false hc hx) hsl
          exact mayEq_false (by simpa using this)
      | path =>
        left
        rcases hb with ⟨c, hpb, hs⟩ | ⟨l, rfl, hsl, _⟩
        · cases b <;> simp [Atom.prim] at hpb <;> subst hpb <;> simp [conflict] at hc <;>
            cases s <;> simp [Sc.cls] at hs <;> simp [take, Atom.prim, payload, tryUnpack]
        · simp only [conflict] at hc
          have := any_false hc hsl
          cases s <;> simp [Sc.isStr] at this <;> simp [take, Atom.prim, payload, tryUnpack]
      | lit l' =>
        simp only [take, hpa, payload]
        apply lit_take
        intro x hx
        have hxf : x.isFlt = false := litOK_noFlt hoka hx
        rcases hb with ⟨c, hpb, hs⟩ | ⟨l, rfl, hsl, hsf⟩
        · cases b <;> simp [Atom.prim] at hpb <;> subst hpb <;> simp only [conflict] at hc <;>
            (try have hx' := any_false hc hx) <;> cases s <;> simp [Sc.cls] at hs <;> cases x <;>
            simp_all [pyEq, Sc.isInt, Sc.isNum, Sc.isBool, Sc.isFlt, b2i]
          all_goals first
            | (have h2 := hc _ hx; simp only [Sc.int.injEq] at h2; split <;> omega)
            | (refine (Decidable.em (_ = _)).symm.imp id fun h => ⟨h, h.symm⟩)
        · simp only [conflict] at hc
          have := any_false (any_false hc hx) hsl
          simp only [Bool.and_eq_false_iff, bne_eq_false_iff_eq] at this
          rcases this with e | e
          · right; subst e; exact ⟨pyEq_self hxf, rfl, rfl⟩
          · left; exact mayEq_false e
      | _ => simp [Atom.prim] at hpa
  · -- an enum member, written as its value
    cases hpa : a.prim with
    | some c' =>
      left
      have : val.cls ≠ c' := by
        intro e
        cases a <;> simp [Atom.prim] at hpa <;> subst hpa <;> simp only [conflict] at hc <;>
          (try have := any_false hc hval) <;> cases val <;> simp_all [Sc.cls, Sc.isInt, Sc.isStr]
      simp [take, hpa, payload, typeMatch, this]
    | none =>
      cases a with
      | «enum» d' =>
        left
        simp only [take, hpa, payload]
        apply enum_all_false hoka
        intro x hx hkx
        simp only [conflict] at hc
        have := any_false hc hx
        have hne : val ≠ x := by
          intro e; subst e; simp [hval] at this
        exact pyEq_intstr_ne hk hkx hne
      | path =>
        left
        simp only [conflict] at hc
        have := any_false hc hval
        cases val <;> simp [Sc.isStr] at this <;> simp [take, Atom.prim, payload, tryUnpack]
      | lit l' =>
        simp only [take, hpa, payload]
        apply lit_take
        intro x hx
        left
        simp only [conflict] at hc
        have := any_false (any_false hc hx) hval
        exact mayEq_false this
      | _ => simp [Atom.prim] at hpa
  · -- a path, written as its text
    cases hpa : a.prim with
    | some c' =>
      left
      have : Cls.str ≠ c' := by
        intro e
        cases a <;> simp [Atom.prim] at hpa <;> subst hpa <;> simp [conflict] at hc <;> cases e
      simp [take, hpa, payload, typeMatch, Sc.cls, this]
    | none =>
      cases a with
      | «enum» d' =>
        left
        simp only [take, hpa, payload]
        apply enum_all_false hoka
        intro x hx hkx
        simp only [conflict] at hc
        have := any_false hc hx
        cases x <;> simp_all [pyEq, Sc.isStr, Sc.isInt]
      | path => right; simp [take, Atom.prim, payload, tryUnpack, hn]
      | lit l' =>
        simp only [take, hpa, payload]
        apply lit_take
        intro x hx
        left
        simp only [conflict] at hc
        have := any_false hc hx
        have hxf : x.isFlt = false := litOK_noFlt hoka hx
        cases x <;> simp_all [pyEq, Sc.isStr, Sc.isFlt]
      | _ => simp [Atom.prim] at hpa

theorem take_own {a : Atom} {v : V} (hok : atomOK a = true) (hw : wtAtom a v = true) :
    take a (payload v) = .ok (some v) := by
  cases hp : a.prim with
  | some c =>
    obtain ⟨s, rfl, hs⟩ := wtAtom_prim hp hw
    simp [take, hp, payload, typeMatch, hs]
  | none => simp [take, hp, tryUnpack_own hok hp hw]

theorem pass1_ok {v : V} : ∀ ms : List Atom, (∀ a ∈ ms, atomOK a = true) → noConflict ms = true →
    (∃ b ∈ ms, wtAtom b v = true) → pass1 ms (payload v) = .ok (some v)
  | [], _, _, ⟨b, hb, _⟩ => by simp at hb
  | a :: r, hok, hnc, ⟨b, hb, hw⟩ => by
    rw [pass1_cons]
    by_cases hwa : wtAtom a v = true
    · simp [take_own (hok a (by simp)) hwa]
    · have hbr : b ∈ r := by
        rcases List.mem_cons.1 hb with e | e
        · subst e; exact absurd hw hwa
        · exact e
      simp only [noConflict, Bool.and_eq_true, List.all_eq_true, Bool.not_eq_true'] at hnc
      rcases take_other (hok a (by simp)) (hok b hb) (hnc.1 b hbr) hw with h | h
      · simp only [h]
        exact pass1_ok r (fun x hx => hok x (by simp [hx])) hnc.2 ⟨b, hbr, hw⟩
      · simp only [h]

theorem decUnion_ok {ms : List Atom} {v : V} (hok : ∀ a ∈ ms, atomOK a = true) (hnc : noConflict ms = true)
    (hw : ∃ b ∈ ms, wtAtom b v = true) : decUnion ms (payload v) = .ok v := by
  simp [decUnion, pass1_ok ms hok hnc hw]

/-! ## unions: the packer -/

theorem firstEq_total {α : Type} (key : α → Sc) (s : Sc) :
    ∀ l : List α, (∀ a ∈ l, pyEq s (key a) ≠ none) →
      ∃ r, firstEq key s l = .ok r ∧ (r = none → ∀ a ∈ l, pyEq s (key a) = some false)
  | [], _ => ⟨none, rfl, fun _ _ h => by simp at h⟩
  | a :: r, h => by
    have h1 := h a (by simp)
    cases e : pyEq s (key a) with
    | none => exact absurd e h1
    | some b =>
      cases b with
      | true => exact ⟨some a, by simp [firstEq, e], fun h => by cases h⟩
      | false =>
        obtain ⟨q, hq, hn⟩ := firstEq_total key s r (fun b hb => h b (by simp [hb]))
        refine ⟨q, by simp [firstEq, e, hq], fun hqn x hx => ?_⟩
        rcases List.mem_cons.1 hx with rfl | hx
        · exact e
        · exact hn hqn x hx

/-- the packer `p` hands back the payload of `v` -/
def Returns (p : Packer) (v : V) : Prop :=
  match p with
  | .try_ b => b.prim = none ∧ wtAtom b v = true
  | .value _ cs => ∃ s, v = .sc s ∧ s.cls ∈ cs

theorem floatSafe_lit {ms : List Atom} (h : floatSafe ms = true) (hf : Atom.float ∈ ms) {l : List Sc}
    (hl : Atom.lit l ∈ ms) {x : Sc} (hx : x ∈ l) : x.isNum = false := by
  simp only [floatSafe, Bool.or_eq_true, Bool.not_eq_true', List.contains_eq_mem, decide_eq_false_iff_not,
    List.all_eq_true] at h
  rcases h with h | h
  · exact absurd hf h
  · have h2 := h _ hl
    simp only [List.all_eq_true, Bool.not_eq_true'] at h2
    exact h2 x hx

theorem runPack_ok {ms : List Atom} {v : V} (hok : ∀ a ∈ ms, atomOK a = true) (hfs : floatSafe ms = true)
    (hmem : ∃ b ∈ ms, wtAtom b v = true) :
    ∀ ps : List Packer, (∀ a, Packer.try_ a ∈ ps → a ∈ ms) → noLeakP ps = true → (∃ p ∈ ps, Returns p v) →
      runPack ps v = .ok (payload v)
  | [], _, _, ⟨p, hp, _⟩ => by simp at hp
  | .value true cs :: r, hin, hnl, ⟨p, hp, hr⟩ => by
    cases v with
    | sc s => simp [runPack, passThrough, payload]
    | «enum» c m val =>
      -- the packer of the enum member would come AFTER the unguarded `return value`: excluded by `noLeakP`
      exfalso
      rcases List.mem_cons.1 hp with rfl | hp
      · obtain ⟨s, hs, _⟩ := hr; cases hs
      · cases p with
        | value u cs' => obtain ⟨s, hs, _⟩ := hr; cases hs
        | try_ b =>
          have := (List.all_eq_true.1 (by simpa [noLeakP] using hnl)) _ hp
          cases b <;> simp [Returns, wtAtom, isLeakable] at hr this
    | path q =>
      exfalso
      rcases List.mem_cons.1 hp with rfl | hp
      · obtain ⟨s, hs, _⟩ := hr; cases hs
      · cases p with
        | value u cs' => obtain ⟨s, hs, _⟩ := hr; cases hs
        | try_ b =>
          have := (List.all_eq_true.1 (by simpa [noLeakP] using hnl)) _ hp
          cases b <;> simp [Returns, wtAtom, isLeakable] at hr this
    | tuple xs =>
      exfalso
      cases p with
      | value u cs' => obtain ⟨s, hs, _⟩ := hr; cases hs
      | try_ b => cases b <;> simp [Returns, wtAtom] at hr
    | fset xs =>
      exfalso
      cases p with
      | value u cs' => obtain ⟨s, hs, _⟩ := hr; cases hs
      | try_ b => cases b <;> simp [Returns, wtAtom] at hr
  | .value false cs :: r, hin, hnl, ⟨p, hp, hr⟩ => by
    have hin' : ∀ a, Packer.try_ a ∈ r → a ∈ ms := fun a ha => hin a (by simp [ha])
    have hnl' : noLeakP r = true := by simpa [noLeakP] using hnl
    cases v with
    | sc s =>
      by_cases hc : s.cls ∈ cs
      · simp [runPack, hc, payload]
      · have hpr : p ∈ r := by
          rcases List.mem_cons.1 hp with rfl | hp
          · obtain ⟨s', hs, hm⟩ := hr; cases hs; exact absurd hm hc
          · exact hp
        simp only [runPack, List.contains_eq_mem, hc, decide_false, Bool.false_eq_true, if_false]
        exact runPack_ok hok hfs hmem r hin' hnl' ⟨p, hpr, hr⟩
    | _ =>
      have hpr : p ∈ r := by
        rcases List.mem_cons.1 hp with rfl | hp
        · obtain ⟨s', hs, _⟩ := hr; cases hs
        · exact hp
      simp only [runPack]
      exact runPack_ok hok hfs hmem r hin' hnl' ⟨p, hpr, hr⟩
  | .try_ a :: r, hin, hnl, ⟨p, hp, hr⟩ => by
    have hin' : ∀ a, Packer.try_ a ∈ r → a ∈ ms := fun a ha => hin a (by simp [ha])
    have hnl' : noLeakP r = true := by simpa [noLeakP] using hnl
    have ham : a ∈ ms := hin a (by simp)
    by_cases hown : a.prim = none ∧ wtAtom a v = true
    · simp [runPack, tryPack_own (hok a ham) hown.1 hown.2]
    · have hpr : p ∈ r := by
        rcases List.mem_cons.1 hp with rfl | hp
        · exact absurd hr hown
        · exact hp
      have ih := runPack_ok hok hfs hmem r hin' hnl' ⟨p, hpr, hr⟩
      -- the packer of another member: raises (swallowed), or hands back the same payload
      cases a with
      | lit l =>
        cases v with
        | sc s =>
          have hlok := hok _ ham
          have hne : ∀ x ∈ l, pyEq s (id x) ≠ none := by
            intro x hx
            by_cases hsf : s.isFlt = true
            · -- a float value: its own member is `float`, so no literal holds a number
              obtain ⟨b, hb, hw⟩ := hmem
              have hbf : b = .float := by
                cases s <;> simp [Sc.isFlt] at hsf
                cases b <;> simp [wtAtom] at hw ⊢
                rename_i l'
                have := litOK_noFlt (alts := l') (hok _ hb) hw
                simp [Sc.isFlt] at this
              subst hbf
              cases s <;> simp [Sc.isFlt] at hsf
              rw [id, pyEq_flt_nonnum (floatSafe_lit hfs hb ham hx)]
              simp
            · exact pyEq_ne_none (by simpa using hsf) (litOK_noFlt hlok hx)
          obtain ⟨q, hq, _⟩ := firstEq_total id s l hne
          cases q with
          | none => simp only [runPack, tryPack, hq]; exact ih
          | some x => simp [runPack, tryPack, hq, payload]
        | _ => simp only [runPack, tryPack]; exact ih
      | «enum» d =>
        cases v with
        | «enum» c m val => simp [runPack, tryPack, payload]
        | _ => simp only [runPack, tryPack]; exact ih
      | path =>
        cases v with
        | path q => simp [runPack, tryPack, payload]
        | _ => simp only [runPack, tryPack]; exact ih
      | _ => simp only [runPack, tryPack]; exact ih

theorem packersFrom_try_mem (val : Packer) (hval : ∀ a, val ≠ .try_ a) :
    ∀ (done : Bool) (ms : List Atom) (a : Atom), Packer.try_ a ∈ packersFrom val done ms → a ∈ ms
  | _, [], _, h => by simp [packersFrom] at h
  | done, x :: r, a, h => by
    cases hp : x.prim with
    | some c =>
      simp only [packersFrom, hp] at h
      cases done with
      | true => exact List.mem_cons_of_mem _ (packersFrom_try_mem val hval true r a (by simpa using h))
      | false =>
        simp only [Bool.false_eq_true, if_false] at h
        rcases List.mem_cons.1 h with e | e
        · exact absurd e.symm (hval a)
        · exact List.mem_cons_of_mem _ (packersFrom_try_mem val hval true r a e)
    | none =>
      simp only [packersFrom, hp] at h
      rcases List.mem_cons.1 h with e | e
      · cases e; simp
      · exact List.mem_cons_of_mem _ (packersFrom_try_mem val hval done r a e)

theorem packersFrom_has_try (val : Packer) :
    ∀ (done : Bool) (ms : List Atom) (b : Atom), b ∈ ms → b.prim = none → Packer.try_ b ∈ packersFrom val done ms
  | _, [], _, h, _ => by simp at h
  | done, x :: r, b, h, hb => by
    rcases List.mem_cons.1 h with rfl | h
    · simp [packersFrom, hb]
    · cases hp : x.prim with
      | some c =>
        cases done <;> simp [packersFrom, hp, packersFrom_has_try val true r b h hb]
      | none => simp [packersFrom, hp, packersFrom_has_try val done r b h hb]

theorem packersFrom_has_val (val : Packer) :
    ∀ (ms : List Atom) (b : Atom), b ∈ ms → b.prim.isSome = true → val ∈ packersFrom val false ms
  | [], _, h, _ => by simp at h
  | x :: r, b, h, hb => by
    cases hp : x.prim with
    | some c => simp [packersFrom, hp]
    | none =>
      rcases List.mem_cons.1 h with rfl | h
      · simp [hp] at hb
      · simp [packersFrom, hp, packersFrom_has_val val r b h hb]

theorem packers_try_mem (ms : List Atom) (a : Atom) (h : Packer.try_ a ∈ packers ms) : a ∈ ms := by
  unfold packers at h
  split at h
  · simp at h
  · split at h
    · exact packersFrom_try_mem _ (by intro a; simp) _ _ _ h
    · split at h
      · exact packersFrom_try_mem _ (by intro a; simp [valueOf]) _ _ _ h
      · rcases List.mem_cons.1 h with e | e
        · simp [valueOf] at e
        · exact packersFrom_try_mem _ (by intro a; simp [valueOf]) _ _ _ e

theorem prim_mem_pts {ms : List Atom} {b : Atom} {c : Cls} (hb : b ∈ ms) (hp : b.prim = some c) :
    c ∈ ms.filterMap Atom.prim := List.mem_filterMap.2 ⟨b, hb, hp⟩

theorem packers_returns {ms : List Atom} {b : Atom} {v : V} (hb : b ∈ ms) (hw : wtAtom b v = true) :
    ∃ p ∈ packers ms, Returns p v := by
  cases hp : b.prim with
  | some c =>
    obtain ⟨s, rfl, hs⟩ := wtAtom_prim hp hw
    have hc : s.cls ∈ ms.filterMap Atom.prim := hs ▸ prim_mem_pts hb hp
    unfold packers
    split
    · exact ⟨Packer.value true (ms.filterMap Atom.prim), by simp, (show ∃ s', V.sc s = V.sc s' ∧ s'.cls ∈ _ from ⟨s, rfl, hc⟩)⟩
    · split
      · rename_i hnil; rw [hnil] at hc; simp at hc
      · rename_i p' rest hcons
        rw [hcons] at hc
        split
        · exact ⟨valueOf (p' :: rest), packersFrom_has_val _ ms b hb (by simp [hp]),
            (show ∃ s', V.sc s = V.sc s' ∧ s'.cls ∈ p' :: rest from ⟨s, rfl, hc⟩)⟩
        · exact ⟨valueOf (p' :: rest), by simp,
            (show ∃ s', V.sc s = V.sc s' ∧ s'.cls ∈ p' :: rest from ⟨s, rfl, hc⟩)⟩
  | none =>
    have hnall : (ms.all fun a => a.prim.isSome) = false := by
      apply Bool.eq_false_iff.2
      intro h
      have := List.all_eq_true.1 h b hb
      simp [hp] at this
    unfold packers
    simp only [hnall, Bool.false_eq_true, if_false]
    split
    · exact ⟨_, packersFrom_has_try _ _ ms b hb hp, hp, hw⟩
    · split
      · exact ⟨_, packersFrom_has_try _ _ ms b hb hp, hp, hw⟩
      · exact ⟨_, List.mem_cons_of_mem _ (packersFrom_has_try _ _ ms b hb hp), hp, hw⟩

/-- a union satisfying the side condition: the packer writes the payload, the unpacker reads the value back -/
theorem union_rt {ms : List Atom} {v : V} (hok : unionOK ms = true) (hw : ms.any (wtAtom · v) = true) :
    encUnion ms v = .ok (payload v) ∧ decUnion ms (payload v) = .ok v := by
  simp only [unionOK, Bool.and_eq_true, List.all_eq_true] at hok
  obtain ⟨⟨⟨hatoms, hnc⟩, hnl⟩, hfs⟩ := hok
  obtain ⟨b, hb, hwb⟩ := List.any_eq_true.1 hw
  refine ⟨?_, decUnion_ok hatoms hnc ⟨b, hb, hwb⟩⟩
  exact runPack_ok hatoms hfs ⟨b, hb, hwb⟩ (packers ms) (packers_try_mem ms) hnl (packers_returns hb hwb)

/-! ## all annotations -/

/-- the round-trip statement for one annotation -/
def Good (t : Ty) : Prop :=
  ∀ v, wt t v = true → ∃ j, enc t v = .ok j ∧ dec t j = .ok v ∧ j.jsonLike = true ∧ (j = .sc .null → v = .sc .null)

def GoodL (ts : List Ty) : Prop :=
  ∀ xs, wtFix ts xs = true → ∃ js, encFix ts xs = .ok js ∧ decFix ts js = .ok xs ∧ J.jsonLikeL js = true

theorem mapE_good {t : Ty} (ht : Good t) : ∀ xs : List V, xs.all (wt t) = true →
    ∃ js, mapE (enc t) xs = .ok js ∧ mapE (dec t) js = .ok xs ∧ J.jsonLikeL js = true
  | [], _ => ⟨[], rfl, rfl, rfl⟩
  | x :: r, h => by
    simp only [List.all_cons, Bool.and_eq_true] at h
    obtain ⟨j, hj, hd, hl, _⟩ := ht x h.1
    obtain ⟨js, hjs, hds, hls⟩ := mapE_good ht r h.2
    exact ⟨j :: js, by simp [mapE, hj, hjs], by simp [mapE, hd, hds], by simp [J.jsonLikeL, hl, hls]⟩

theorem good_atom {a : Atom} (h : atomOK a = true) : Good (.atom a) := by
  intro v hw
  have hw' : wtAtom a v = true := by simpa [wt] using hw
  obtain ⟨he, hd⟩ := atom_rt h hw'
  exact ⟨payload v, by simpa [enc] using he, by simpa [dec] using hd, payload_json hw', payload_null h hw'⟩

theorem good_union {ms : List Atom} (h : unionOK ms = true) : Good (.union ms) := by
  intro v hw
  have hw' : ms.any (wtAtom · v) = true := by simpa [wt] using hw
  obtain ⟨he, hd⟩ := union_rt h hw'
  obtain ⟨b, hb, hwb⟩ := List.any_eq_true.1 hw'
  have hokb : atomOK b = true := by
    simp only [unionOK, Bool.and_eq_true, List.all_eq_true] at h
    exact h.1.1.1 b hb
  exact ⟨payload v, by simpa [enc] using he, by simpa [dec] using hd, payload_json hwb, payload_null hokb hwb⟩

theorem good_opt {t : Ty} (ht : Good t) : Good (.opt t) := by
  intro v hw
  by_cases hv : v = .sc .null
  · subst hv
    exact ⟨.sc .null, by simp [enc], by simp [dec], rfl, fun _ => rfl⟩
  · have hw' : wt t v = true := by
      cases v with
      | sc s => cases s <;> first | exact absurd rfl hv | simpa [wt] using hw
      | _ => simpa [wt] using hw
    obtain ⟨j, hj, hd, hl, hn⟩ := ht v hw'
    have hjn : j ≠ .sc .null := fun e => hv (hn e)
    refine ⟨j, ?_, ?_, hl, hn⟩
    · cases v with
      | sc s => cases s <;> first | exact absurd rfl hv | simpa [enc] using hj
      | _ => simpa [enc] using hj
    · cases j with
      | sc s => cases s <;> first | exact absurd rfl hjn | simpa [dec] using hd
      | _ => simpa [dec] using hd

theorem good_tupleVar {t : Ty} (ht : Good t) : Good (.tupleVar t) := by
  intro v hw
  cases v with
  | tuple xs =>
    obtain ⟨js, hjs, hds, hls⟩ := mapE_good ht xs (by simpa [wt] using hw)
    exact ⟨.list js, by simp [enc, hjs], by simp [dec, hds], by simpa [J.jsonLike] using hls, fun e => by cases e⟩
  | _ => simp [wt] at hw

theorem good_fset {t : Ty} (ht : Good t) : Good (.fset t) := by
  intro v hw
  cases v with
  | fset xs =>
    obtain ⟨js, hjs, hds, hls⟩ := mapE_good ht xs (by simpa [wt] using hw)
    exact ⟨.list js, by simp [enc, hjs], by simp [dec, hds], by simpa [J.jsonLike] using hls, fun e => by cases e⟩
  | _ => simp [wt] at hw

theorem good_tupleFix {ts : List Ty} (hts : GoodL ts) : Good (.tupleFix ts) := by
  intro v hw
  cases v with
  | tuple xs =>
    obtain ⟨js, hjs, hds, hls⟩ := hts xs (by simpa [wt] using hw)
    exact ⟨.list js, by simp [enc, hjs], by simp [dec, hds], by simpa [J.jsonLike] using hls, fun e => by cases e⟩
  | _ => simp [wt] at hw

mutual
theorem good : (t : Ty) → t.rt = true → Good t
  | .atom _, h => good_atom (by simpa [Ty.rt] using h)
  | .opt t, h => good_opt (good t (by simpa [Ty.rt] using h))
  | .union _, h => good_union (by simpa [Ty.rt] using h)
  | .tupleVar t, h => good_tupleVar (good t (by simpa [Ty.rt] using h))
  | .tupleFix ts, h => good_tupleFix (goodL ts (by simpa [Ty.rt] using h))
  | .fset t, h => good_fset (good t (by simpa [Ty.rt] using h))
theorem goodL : (ts : List Ty) → Ty.rtL ts = true → GoodL ts
  | [], _ => fun xs hw => by
    cases xs with
    | nil => exact ⟨[], rfl, rfl, rfl⟩
    | cons x r => simp [wtFix] at hw
  | t :: ts, h => fun xs hw => by
    simp only [Ty.rtL, Bool.and_eq_true] at h
    cases xs with
    | nil => simp [wtFix] at hw
    | cons x r =>
      simp only [wtFix, Bool.and_eq_true] at hw
      obtain ⟨j, hj, hd, hl, _⟩ := good t h.1 x hw.1
      obtain ⟨js, hjs, hds, hls⟩ := goodL ts h.2 r hw.2
      exact ⟨j :: js, by simp [encFix, hj, hjs], by simp [decFix, hd, hds], by simp [J.jsonLikeL, hl, hls]⟩
end

/-- **the value codec round-trips**: for every annotation satisfying the decidable side condition `Ty.rt` and every
value that conforms to it, the packer succeeds and the unpacker gives the value back -/
theorem dec_enc {t : Ty} {v : V} (hrt : t.rt = true) (hw : wt t v = true) :
    ∃ j, enc t v = .ok j ∧ dec t j = .ok v := by
  obtain ⟨j, hj, hd, _, _⟩ := good t hrt v hw
  exact ⟨j, hj, hd⟩

/-- … and what it writes is a JSON / MessagePack / YAML document (nothing is handed through unserialized) -/
theorem enc_jsonLike {t : Ty} {v : V} {j : J} (hrt : t.rt = true) (hw : wt t v = true) (he : enc t v = .ok j) :
    j.jsonLike = true := by
  obtain ⟨j', hj, _, hl, _⟩ := good t hrt v hw
  rw [hj] at he; cases he; exact hl

/-- only `None` is written as null (this is what makes `Optional[T]` unambiguous) -/
theorem enc_null {t : Ty} {v : V} (hrt : t.rt = true) (hw : wt t v = true) (he : enc t v = .ok (.sc .null)) :
    v = .sc .null := by
  obtain ⟨j', hj, _, _, hn⟩ := good t hrt v hw
  rw [hj] at he; cases he; exact hn rfl

/-- two conforming values of one annotation that are written alike are the same value -/
theorem enc_injective_on_type {t : Ty} {v w : V} (hrt : t.rt = true) (hv : wt t v = true) (hw : wt t w = true)
    (h : enc t v = enc t w) : v = w := by
  obtain ⟨j, hj, hd⟩ := dec_enc hrt hv
  obtain ⟨j', hj', hd'⟩ := dec_enc hrt hw
  rw [hj, hj'] at h
  cases h
  rw [hd] at hd'
  cases hd'
  rfl

/-! ## non-vacuity, and the annotations outside `Ty.rt` on which the real code does not round-trip
(each witness below is reproduced on the real code by the correspondence, kinds `value-codec:enc/dec/finding`) -/

def color : EnumDecl := ⟨['C'], [(['R'], .int 1), (['G'], .int 2)]⟩
def tag : EnumDecl := ⟨['T'], [(['A'], .str ['a']), (['B'], .str ['b', '/', 'c'])]⟩
def red : V := .enum ['C'] ['R'] (.int 1)

/-- a nested annotation inside the side condition, with a conforming value (the hypotheses of `dec_enc` are satisfiable) -/
def exTy : Ty := .tupleFix [.opt (.fset (.atom .int)), .union [.int, .float, .str, .none], .tupleVar (.atom (.enum color)),
  .union [.enum tag, .int], .atom (.lit [.str ['a'], .int 1, .null]), .atom .path]
def exV : V := .tuple [.fset [.sc (.int 2), .sc (.int 1)], .sc (.flt ['0', 'x', '1', '.', '8', 'p', '+', '0']), .tuple [red, red],
  .enum ['T'] ['B'] (.str ['b', '/', 'c']), .sc (.int 1), .path ['a', '/', 'b']]

example : exTy.rt = true ∧ wt exTy exV = true := by decide
example : enc exTy exV = .ok (.list [.list [.sc (.int 2), .sc (.int 1)], .sc (.flt ['0', 'x', '1', '.', '8', 'p', '+', '0']),
    .list [.sc (.int 1), .sc (.int 1)], .sc (.str ['b', '/', 'c']), .sc (.int 1), .sc (.str ['a', '/', 'b'])]) := by decide
example : ∃ j, enc exTy exV = .ok j ∧ dec exTy j = .ok exV := dec_enc (by decide) (by decide)
example : (enc exTy exV).toOption.map J.jsonLike = some true := by decide

/-- `int | float`, `str | int`, `bool | int` and their reverses ARE unambiguous in the real code (the basic members
test the exact class): they satisfy the side condition -/
theorem basic_unions_rt :
    (Ty.union [.int, .float]).rt = true ∧ (Ty.union [.float, .int]).rt = true ∧ (Ty.union [.str, .int]).rt = true ∧
    (Ty.union [.int, .str]).rt = true ∧ (Ty.union [.bool, .int]).rt = true ∧ (Ty.union [.int, .bool, .none, .str]).rt = true := by
  decide

/-- `Color | int`: the int 1 comes back as `Color.RED` (the enum member is tried first and accepts the payload) -/
theorem enum_before_int_fails :
    wt (.union [.enum color, .int]) (.sc (.int 1)) = true ∧
    enc (.union [.enum color, .int]) (.sc (.int 1)) = .ok (.sc (.int 1)) ∧
    dec (.union [.enum color, .int]) (.sc (.int 1)) = .ok red ∧ (Ty.union [.enum color, .int]).rt = false := by decide

/-- `int | Color`: `Color.RED` comes back as the int 1 -/
theorem int_before_enum_fails :
    wt (.union [.int, .enum color]) red = true ∧
    enc (.union [.int, .enum color]) red = .ok (.sc (.int 1)) ∧
    dec (.union [.int, .enum color]) (.sc (.int 1)) = .ok (.sc (.int 1)) ∧ (Ty.union [.int, .enum color]).rt = false := by
  decide

/-- `Path | str`: the str "a" comes back as `Path("a")` -/
theorem path_before_str_fails :
    wt (.union [.path, .str]) (.sc (.str ['a'])) = true ∧
    enc (.union [.path, .str]) (.sc (.str ['a'])) = .ok (.sc (.str ['a'])) ∧
    dec (.union [.path, .str]) (.sc (.str ['a'])) = .ok (.path ['a']) ∧ (Ty.union [.path, .str]).rt = false := by decide

/-- `str | Path`: a `Path` is handed through UNSERIALIZED (mashumaro treats `str` as a collection and emits
`try: return value` without a class test): the payload is not JSON-like — `to_json` / `to_msgpck` raise, `to_yaml`
writes a python-object tag that `from_yaml` refuses -/
theorem str_before_path_leaks :
    wt (.union [.str, .path]) (.path ['a']) = true ∧
    enc (.union [.str, .path]) (.path ['a']) = .ok (.obj (.path ['a'])) ∧
    (J.obj (.path ['a'])).jsonLike = false ∧ (Ty.union [.str, .path]).rt = false := by decide

/-- `int | str | Enum`: the same leak whenever the LAST basic member is `str` -/
theorem str_last_enum_leaks :
    wt (.union [.int, .str, .enum color]) red = true ∧
    enc (.union [.int, .str, .enum color]) red = .ok (.obj red) ∧ (Ty.union [.int, .str, .enum color]).rt = false := by decide

/-- … and no leak when a basic member other than `str` comes last -/
theorem str_first_enum_ok :
    (Ty.union [.str, .int, .enum tag]).rt = false ∧ (Ty.union [.str, .int, .path]).rt = false ∧
    (Ty.union [.float, .none, .enum tag]).rt = true ∧ (Ty.union [.enum tag, .str, .int]).rt = false ∧
    (Ty.union [.enum color, .str, .float]).rt = false ∧ (Ty.union [.enum color, .str, .none]).rt = true ∧
    (Ty.union [.enum tag, .int, .bool]).rt = true := by decide

/-- `Literal[1, True]`: `True` comes back as `1` (`True == 1`, the first alternative that compares equal wins) -/
theorem literal_int_bool_fails :
    wt (.atom (.lit [.int 1, .bool true])) (.sc (.bool true)) = true ∧
    enc (.atom (.lit [.int 1, .bool true])) (.sc (.bool true)) = .ok (.sc (.bool true)) ∧
    dec (.atom (.lit [.int 1, .bool true])) (.sc (.bool true)) = .ok (.sc (.int 1)) ∧
    (Ty.atom (.lit [.int 1, .bool true])).rt = false := by decide

/-- `Color | bool`: `True` comes back as `Color.RED` -/
theorem enum_before_bool_fails :
    dec (.union [.enum color, .bool]) (.sc (.bool true)) = .ok red ∧ (Ty.union [.enum color, .bool]).rt = false := by decide

/-- an ambiguity INSIDE a collection is inherited: `tuple[Color | int, ...]` -/
theorem nested_fails :
    wt (.tupleVar (.union [.enum color, .int])) (.tuple [.sc (.int 2), red]) = true ∧
    (match enc (.tupleVar (.union [.enum color, .int])) (.tuple [.sc (.int 2), red]) with
      | .ok j => dec (.tupleVar (.union [.enum color, .int])) j
      | .error e => .error e) = .ok (.tuple [.enum ['C'] ['G'] (.int 2), red]) := by decide

/-- ill-typed values are handed through by the basic packers and coerced by the unpackers: `True` in an `int` field
comes back as `1` (this is why `wt` is a hypothesis of `dec_enc`) -/
theorem illtyped_bool_in_int :
    wt (.atom .int) (.sc (.bool true)) = false ∧ enc (.atom .int) (.sc (.bool true)) = .ok (.sc (.bool true)) ∧
    dec (.atom .int) (.sc (.bool true)) = .ok (.sc (.int 1)) := by decide

/-! ## the order of a frozenset's payload is irrelevant -/

theorem mapE_cons_ok {α β : Type} {f : α → Except Err β} {x : α} {r : List α} {ys : List β}
    (h : mapE f (x :: r) = .ok ys) : ∃ y ys', f x = .ok y ∧ mapE f r = .ok ys' ∧ ys = y :: ys' := by
  simp only [mapE] at h
  cases hx : f x with
  | error e => simp [hx] at h
  | ok y =>
    cases hr : mapE f r with
    | error e => simp [hx, hr] at h
    | ok ys' =>
      simp only [hx, hr, Except.ok.injEq] at h
      exact ⟨y, ys', rfl, rfl, h.symm⟩

theorem mapE_perm {α β : Type} {f : α → Except Err β} {l l' : List α} (hp : l.Perm l') :
    ∀ ys, mapE f l = .ok ys → ∃ ys', mapE f l' = .ok ys' ∧ ys.Perm ys' := by
  induction hp with
  | nil => intro ys h; exact ⟨ys, h, List.Perm.refl _⟩
  | cons x _ ih =>
    intro ys h
    obtain ⟨y, ys1, hx, hr, rfl⟩ := mapE_cons_ok h
    obtain ⟨ys2, h2, hp2⟩ := ih ys1 hr
    exact ⟨y :: ys2, by simp [mapE, hx, h2], hp2.cons y⟩
  | swap a b r =>
    intro ys h
    obtain ⟨y1, ys1, hb, hr1, rfl⟩ := mapE_cons_ok h
    obtain ⟨y2, ys2, ha, hr2, rfl⟩ := mapE_cons_ok hr1
    exact ⟨y2 :: y1 :: ys2, by simp [mapE, ha, hb, hr2], List.Perm.swap _ _ _⟩
  | trans _ _ ih1 ih2 =>
    intro ys h
    obtain ⟨ys1, h1, hp1⟩ := ih1 ys h
    obtain ⟨ys2, h2, hp2⟩ := ih2 ys1 h1
    exact ⟨ys2, h2, hp1.trans hp2⟩

/-- reading a frozenset from a permuted payload list gives the same set (the same elements, permuted) -/
theorem dec_fset_perm {t : Ty} {js js' : List J} {xs : List V} (hp : js.Perm js')
    (h : dec (.fset t) (.list js) = .ok (.fset xs)) :
    ∃ xs', dec (.fset t) (.list js') = .ok (.fset xs') ∧ xs.Perm xs' := by
  simp only [dec] at h
  cases hm : mapE (dec t) js with
  | error e => simp [hm] at h
  | ok ys =>
    simp only [hm, Except.ok.injEq, V.fset.injEq] at h
    subst h
    obtain ⟨ys', h', hp'⟩ := mapE_perm hp ys hm
    exact ⟨ys', by simp [dec, h'], hp'⟩

/-- the round trip of a frozenset holds for WHATEVER order the payload list is read in -/
theorem dec_enc_fset_perm {t : Ty} {xs : List V} {js js' : List J} (hrt : (Ty.fset t).rt = true)
    (hw : wt (.fset t) (.fset xs) = true) (he : enc (.fset t) (.fset xs) = .ok (.list js)) (hp : js.Perm js') :
    ∃ xs', dec (.fset t) (.list js') = .ok (.fset xs') ∧ xs.Perm xs' := by
  obtain ⟨j, hj, hd⟩ := dec_enc hrt hw
  rw [he] at hj; cases hj
  exact dec_fset_perm hp hd

example : dec (.fset (.atom .int)) (.list [.sc (.int 1), .sc (.int 2)]) = .ok (.fset [.sc (.int 1), .sc (.int 2)]) ∧
    dec (.fset (.atom .int)) (.list [.sc (.int 2), .sc (.int 1)]) = .ok (.fset [.sc (.int 2), .sc (.int 1)]) := by decide

/-! ## the node layout under the default options -/

theorem encFields_keys : ∀ (fs : List FieldV) (d : List (Str × J)), encFields fs = .ok d → d.map (·.1) = fs.map (·.name)
  | [], d, h => by simp [encFields] at h; subst h; rfl
  | f :: r, d, h => by
    simp only [encFields] at h
    cases hf : enc f.ty f.val with
    | error e => simp [hf] at h
    | ok j =>
      cases hr : encFields r with
      | error e => simp [hf, hr] at h
      | ok d' =>
        simp only [hf, hr, Except.ok.injEq] at h
        subst h
        simp [encFields_keys r d' hr]

/-- the keys of a serialized node: `__type`, `id`, `content_id`, `origin`, then the fields in dataclass order -/
theorem encNode_keys {cls id cid : Str} {origin : J} {fs : List FieldV} {d : List (Str × J)}
    (h : encNode cls id cid origin fs = .ok d) :
    d.map (·.1) = [kType, kId, kContentId, kOrigin] ++ fs.map (·.name) := by
  simp only [encNode] at h
  cases hf : encFields fs with
  | error e => simp [hf] at h
  | ok d' =>
    simp only [hf, Except.ok.injEq] at h
    subst h
    simp [encFields_keys fs d' hf]

/-- the layout is the one of the C16 model: mashumaro's dict passed through `ASTNode.__post_serialize__` with the
default options -/
theorem encNode_postNode {cls id cid : Str} {origin : J} {fs : List FieldV} {d : List (Str × J)} (cn : List Str)
    (h : encNode cls id cid origin fs = .ok d) :
    ∃ body, d = (kType, .sc (.str cls)) :: body ∧ toSerM d = SerOpts.postNode {} cls cn (toSerM body) := by
  simp only [encNode] at h
  cases hf : encFields fs with
  | error e => simp [hf] at h
  | ok d' =>
    simp only [hf, Except.ok.injEq] at h
    subst h
    exact ⟨_, rfl, by
      simp [SerOpts.postNode, SerOpts.postMixin, SerOpts.Opts.sortOn, SerOpts.Opts.skipOn, toSerM, toSer, kType,
        SerOpts.TYPE_KEY]⟩

example : encNode ['K'] ['i'] ['c'] (.dict []) [⟨['x'], .atom .int, .sc (.int 5)⟩, ⟨['a'], .opt (.atom .float), .sc .null⟩] =
    .ok [(kType, .sc (.str ['K'])), (kId, .sc (.str ['i'])), (kContentId, .sc (.str ['c'])), (kOrigin, .dict []),
      (['x'], .sc (.int 5)), (['a'], .sc .null)] := by decide
