/-
C18 (AUDIT item #10) — shared vocabulary for the acyclicity part.

`Inv` (Props/LegacyBase.lean) does not exclude cycles of the child graph: with a colliding content
digest the inadmissible call `leaf.replace_with(root of its own tree)` returns and leaves a cyclic,
attached, `Inv`-satisfying state (see `cyclic_reachable` in Props/C18Acyclic.lean).  The property
text restricts the histories to those "that never put one node object at two positions"; putting a
node below one of its own descendants is the case that matters for the upward walks and for the
content id.  This file states

  Ranked s        the child graph of the existing objects is acyclic (a rank function that strictly
                  decreases along every child link);
  Admissible s op the side condition on one operation, a predicate of the state and the request
                  only: `replace_with(new)` / `replace(**changes)` on a receiver that has a parent
                  `p` must not insert a node from which `p` can be reached along child links.

The theorems are in Props/C18Acyclic.lean (preservation, existence of the independently built tree
for `cid_eq_spec`) and Props/C18Queries.lean (`ancestors` / `get_depth` / `is_ancestor`).
-/
import PyOak.Props.C18
namespace PyOak.Legacy.C18
open PyOak PyOak.Legacy LState

/-- the child graph of the existing objects is acyclic: some rank strictly decreases along every
child link (the objects beyond `size` are junk, nothing is claimed about them) -/
def Ranked (s : LState) : Prop :=
  ∃ r : Nat → Nat, ∀ x, x < s.size → ∀ c ∈ (s.obj x).kidList, r c < r x

/-- **admissibility of one operation** ("never puts a node below itself"): the only operations that
add a child link between two *pre-existing* parts of the heap are `replace_with(new)` and
`replace(**changes)` on a receiver that has a parent `p` (the parent's field then stores `new`, resp.
the re-created node whose children are the given ones).  They are admissible when `p` is not
reachable along child links from the node(s) put below it.  Every other operation is admissible:
construction / duplication only add links from a new object to older ones, attach / detach add none. -/
def Admissible (s : LState) : LOp → Prop
  | .rwith u (some n) => ∀ p, s.parent u = some p → ¬ Desc s n p
  | .replace u ch => ∀ p, s.parent u = some p → ∀ c ∈ ch.fields.flatMap (·.2), ¬ Desc s c p
  | _ => True

/-- a decidable certificate for `¬ Desc s n p` on a concrete state: a list that contains `n`, is closed
under child links and does not contain `p` -/
theorem not_desc_of_closed {s : LState} {n p : Nat} (S : List Nat) (hn : n ∈ S)
    (hcl : ∀ x ∈ S, ∀ c ∈ (s.obj x).kidList, c ∈ S) (hp : p ∉ S) : ¬ Desc s n p := by
  intro hd
  apply hp
  clear hp
  induction hd with
  | refl => exact hn
  | step _ hk ih => exact hcl _ ih _ hk

end PyOak.Legacy.C18
