/-
C12 (addition, AUDIT C12 §4 (i), (iii)) — END-TO-END first-use independence.

`C12.call_runs_own_function` is about the abstract slot machine `World`: its conclusion
`(w.call k).1 = k` is a class INDEX, for one accessor, and nothing links it to the accessor
functions or to the memo dicts.  Model/AccessorsWorld.lean carries the class table, the four slot
tables holding generated CODE, and the memo of `get_cls_child_fields` / `get_cls_props`.  Here:

  dispatch_own_code      after ANY history of class definitions, accessor calls (any of the four,
                         on instances of any class, sub- or superclass first) and static
                         `get_child_fields` / `get_property_fields` calls, the code that runs when
                         accessor `a` is called on an instance of class `k` is the code generated
                         from `process_node_fields(fields(k))` — the class's OWN definition
  get_child_nodes_e2e … to_properties_dict_e2e
                         hence every public accessor returns the SPECIFICATION value of Spec/Accessors.lean
                         for class `k` (`spec…  (decl k)`), for every instance, flag vector, sort flag
  first_use_independent  two arbitrary histories, same class definition ⇒ same results: "the result
                         does not depend on which class of a hierarchy was instantiated or queried first"
  partition              child fields and properties partition `fields(cls)` (each field in exactly one)
  without_repointing_e2e_fails   without the re-pointing of `__init_subclass__` a subclass defined
                         after the first use of its base returns the BASE's children
-/
import PyOak.Model.AccessorsWorld
import PyOak.Props.C12
namespace PyOak
namespace Acc
namespace C12

/-- the histories a program can produce: class definitions (any definition, any MRO) and, in any
order and on any class, calls of the four generated accessors and of the static field getters -/
inductive ReachP : Prog → Prop
  | init : ReachP Prog.init
  | define (p : Prog) (d : ClassDecl) (mro : List Nat) : ReachP p → ReachP (p.defineClass d mro)
  | call (p : Prog) (a : AccId) (k : Nat) : ReachP p → k < p.decls.length → ReachP (p.dispatch a k).2
  | fields (p : Prog) (k : Nat) : ReachP p → k < p.decls.length → ReachP (p.clsFields k).2

/-- every class has its own entry for every accessor — the stub or the code generated from ITS
fields — and its memo entry is absent or what `process_node_fields` yields for it -/
structure GoodP (p : Prog) : Prop where
  lenM : p.mros.length = p.decls.length
  lenS : ∀ a, (p.slots a).length = p.decls.length
  lenMemo : p.memo.length = p.decls.length
  slot : ∀ a k, k < p.decls.length →
    (p.slots a)[k]? = some (some .stub) ∨ (p.slots a)[k]? = some (some (.gen (genCode a (p.fieldsOf k))))
  memo : ∀ k, k < p.decls.length → p.memo[k]? = some none ∨ p.memo[k]? = some (some (p.fieldsOf k))

theorem decl_defineClass_lt (p : Prog) (d : ClassDecl) (mro : List Nat) (k : Nat) (hk : k < p.decls.length) :
    (p.defineClass d mro).decl k = p.decl k := by
  simp [Prog.decl, Prog.defineClass, List.getElem?_append_left hk]

theorem fieldsOf_defineClass_lt (p : Prog) (d : ClassDecl) (mro : List Nat) (k : Nat)
    (hk : k < p.decls.length) : (p.defineClass d mro).fieldsOf k = p.fieldsOf k := by
  simp [Prog.fieldsOf, decl_defineClass_lt p d mro k hk]

theorem goodP_init : GoodP Prog.init :=
  ⟨rfl, fun _ => rfl, rfl, fun _ k hk => by simp [Prog.init] at hk, fun k hk => by simp [Prog.init] at hk⟩

theorem goodP_define {p : Prog} (h : GoodP p) (d : ClassDecl) (mro : List Nat) :
    GoodP (p.defineClass d mro) := by
  refine ⟨by simp [Prog.defineClass, h.lenM], fun a => by simp [Prog.defineClass, h.lenS a],
    by simp [Prog.defineClass, h.lenMemo], ?_, ?_⟩
  · intro a k hk
    simp only [Prog.defineClass, List.length_append, List.length_singleton] at hk
    by_cases hlt : k < p.decls.length
    · rw [fieldsOf_defineClass_lt p d mro k hlt]
      have : ((p.defineClass d mro).slots a)[k]? = (p.slots a)[k]? := by
        simp [Prog.defineClass, List.getElem?_append_left (by rw [h.lenS a]; exact hlt)]
      rw [this]; exact h.slot a k hlt
    · have : k = (p.slots a).length := by rw [h.lenS a]; omega
      left; subst this; simp [Prog.defineClass]
  · intro k hk
    simp only [Prog.defineClass, List.length_append, List.length_singleton] at hk
    by_cases hlt : k < p.decls.length
    · rw [fieldsOf_defineClass_lt p d mro k hlt]
      have : (p.defineClass d mro).memo[k]? = p.memo[k]? := by
        simp [Prog.defineClass, List.getElem?_append_left (by rw [h.lenMemo]; exact hlt)]
      rw [this]; exact h.memo k hlt
    · have : k = p.memo.length := by rw [h.lenMemo]; omega
      left; subst this; simp [Prog.defineClass]

/-- the memo: `get_cls_*` returns what `process_node_fields` yields for the class, whether the
entry was there or not -/
theorem clsFields_fst {p : Prog} (h : GoodP p) {k : Nat} (hk : k < p.decls.length) :
    (p.clsFields k).1 = p.fieldsOf k := by
  unfold Prog.clsFields
  rcases h.memo k hk with e | e <;> simp [e, Prog.fieldsOf]

theorem clsFields_snd (p : Prog) (k : Nat) :
    (p.clsFields k).2 = p ∨ (p.clsFields k).2 = { p with memo := p.memo.set k (some (p.fieldsOf k)) } := by
  unfold Prog.clsFields
  cases (p.memo[k]?).join <;> simp [Prog.fieldsOf]

theorem goodP_setMemo {p : Prog} (h : GoodP p) (k : Nat) :
    GoodP { p with memo := p.memo.set k (some (p.fieldsOf k)) } := by
  refine ⟨h.lenM, h.lenS, by simp [h.lenMemo], h.slot, ?_⟩
  intro j hj
  show (p.memo.set k (some (p.fieldsOf k)))[j]? = some none ∨
    (p.memo.set k (some (p.fieldsOf k)))[j]? = some (some (p.fieldsOf j))
  by_cases hjk : k = j
  · subst hjk; right; simp [h.lenMemo, hj]
  · rw [List.getElem?_set_ne hjk]; exact h.memo j hj

theorem goodP_clsFields {p : Prog} (h : GoodP p) (k : Nat) : GoodP (p.clsFields k).2 := by
  rcases clsFields_snd p k with e | e <;> rw [e]
  · exact h
  · exact goodP_setMemo h k

theorem clsFields_decls (p : Prog) (k : Nat) : (p.clsFields k).2.decls = p.decls := by
  rcases clsFields_snd p k with e | e <;> rw [e]

theorem lookup_goodP {p : Prog} (h : GoodP p) (a : AccId) {k : Nat} (hk : k < p.decls.length) :
    p.lookup a k = .stub ∨ p.lookup a k = .gen (genCode a (p.fieldsOf k)) := by
  unfold Prog.lookup
  rcases h.slot a k hk with e | e <;> simp [List.findSome?_cons, e]

theorem goodP_install {p : Prog} (h : GoodP p) (a : AccId) {k : Nat} :
    GoodP (p.install a k (genCode a (p.fieldsOf k))) := by
  refine ⟨h.lenM, ?_, h.lenMemo, ?_, h.memo⟩
  · intro b
    show (if b = a then (p.slots a).set k _ else p.slots b).length = p.decls.length
    split
    · simp [h.lenS a]
    · exact h.lenS b
  · intro b j hj
    show (if b = a then (p.slots a).set k _ else p.slots b)[j]? = _ ∨
      (if b = a then (p.slots a).set k _ else p.slots b)[j]? = _
    by_cases hb : b = a
    · subst hb
      rw [if_pos rfl]
      by_cases hjk : k = j
      · subst hjk
        right
        rw [List.getElem?_set_self (by rw [h.lenS b]; exact hj)]
        rfl
      · rw [List.getElem?_set_ne hjk]; exact h.slot b j hj
    · simp only [if_neg hb]; exact h.slot b j hj

theorem lookup_install {p : Prog} (h : GoodP p) (a : AccId) {k : Nat} (hk : k < p.decls.length) (code : Code) :
    (p.install a k code).lookup a k = .gen code := by
  unfold Prog.lookup Prog.install
  simp [h.lenS a, hk]

/-- one dispatch: runs the class's own code, keeps the invariant and the class table -/
theorem dispatch_goodP {p : Prog} (h : GoodP p) (a : AccId) {k : Nat} (hk : k < p.decls.length) :
    (p.dispatch a k).1 = genCode a (p.fieldsOf k) ∧ GoodP (p.dispatch a k).2 ∧
      (p.dispatch a k).2.decls = p.decls := by
  unfold Prog.dispatch
  rcases lookup_goodP h a hk with e | e
  · rw [e]
    have h1 := goodP_clsFields h k
    have hd := clsFields_decls p k
    have hf := clsFields_fst h hk
    have hk1 : k < (p.clsFields k).2.decls.length := by rw [hd]; exact hk
    have hfo : (p.clsFields k).2.fieldsOf k = p.fieldsOf k := by
      simp [Prog.fieldsOf, Prog.decl, hd]
    simp only []
    rw [hf, lookup_install h1 a hk1]
    refine ⟨rfl, ?_, hd⟩
    have := goodP_install h1 a (k := k)
    rw [hfo] at this
    exact this
  · rw [e]; exact ⟨rfl, h, rfl⟩

theorem goodP_of_reach {p : Prog} (h : ReachP p) : GoodP p := by
  induction h with
  | init => exact goodP_init
  | define p d mro _ ih => exact goodP_define ih d mro
  | call p a k _ hk ih => exact (dispatch_goodP ih a hk).2.1
  | fields p k _ _ ih => exact goodP_clsFields ih k

/-- **the code that runs is the class's own**: after any history, calling accessor `a` on an
instance of class `k` executes the function generated from `process_node_fields(fields(k))` -/
theorem dispatch_own_code {p : Prog} (h : ReachP p) (a : AccId) {k : Nat} (hk : k < p.decls.length) :
    (p.dispatch a k).1 = genCode a (processNodeFields (p.decl k).fields) :=
  (dispatch_goodP (goodP_of_reach h) a hk).1

/-! ### end to end: every accessor returns the specification value of the class -/

section E2E
variable {p : Prog} (h : ReachP p) {k : Nat} (hk : k < p.decls.length)
include h hk

theorem get_child_nodes_e2e (i : Inst) (s : Bool) :
    (p.getChildNodes k i s).1 = specChildNodes (p.decl k) i s := by
  rw [← get_child_nodes_eq_spec]
  simp only [Prog.getChildNodes, dispatch_own_code h .childNodes hk]
  rfl

theorem get_child_nodes_with_field_e2e (i : Inst) (s : Bool) :
    (p.getChildNodesWithField k i s).1 = specChildNodesWithField (p.decl k) i s := by
  rw [← get_child_nodes_with_field_eq_spec]
  simp only [Prog.getChildNodesWithField, dispatch_own_code h .childNodesWF hk]
  rfl

theorem iter_child_fields_e2e (i : Inst) (s : Bool) :
    (p.iterChildFields k i s).1 = specIterChildFields (p.decl k) i s := by
  rw [← iter_child_fields_eq_spec]
  simp only [Prog.iterChildFields, dispatch_own_code h .iterChildFields hk]
  rfl

theorem get_properties_e2e (i : Inst) (fl : Flags) (s : Bool) :
    (p.getProperties k i fl s).1 = specProperties (p.decl k) i fl s := by
  rw [← get_properties_eq_spec]
  simp only [Prog.getProperties, dispatch_own_code h .properties hk]
  rfl

theorem children_e2e (i : Inst) : (p.children k i).1 = specChildNodes (p.decl k) i false :=
  get_child_nodes_e2e h hk i false

theorem get_child_fields_e2e : (p.getChildFields k).1 = specChildFields (p.decl k) := by
  rw [← get_child_fields_eq_spec]
  simp only [Prog.getChildFields, clsFields_fst (goodP_of_reach h) hk]
  rfl

theorem get_property_fields_e2e (fl : Flags) :
    (p.getPropertyFields k fl).1 = specPropertyFields (p.decl k) fl false := by
  rw [← get_property_fields_eq_spec]
  simp only [Prog.getPropertyFields, clsFields_fst (goodP_of_reach h) hk]
  rfl

theorem to_properties_dict_e2e (i : Inst) :
    (p.toPropertiesDict k i).1 = specPropertiesDict (p.decl k) i := by
  rw [← to_properties_dict_eq_spec]
  simp only [Prog.toPropertiesDict, Prog.getProperties, dispatch_own_code h .properties hk]
  rfl

end E2E

/-- **first-use independence, end to end**: two arbitrary histories (other classes defined, other
classes of the hierarchy instantiated / queried first, other accessors used first) and two class
indices that carry the same class definition: every accessor returns the same result -/
theorem first_use_independent {p₁ p₂ : Prog} (h₁ : ReachP p₁) (h₂ : ReachP p₂) {k₁ k₂ : Nat}
    (hk₁ : k₁ < p₁.decls.length) (hk₂ : k₂ < p₂.decls.length) (hd : p₁.decl k₁ = p₂.decl k₂)
    (i : Inst) (fl : Flags) (s : Bool) :
    (p₁.getChildNodes k₁ i s).1 = (p₂.getChildNodes k₂ i s).1 ∧
    (p₁.getChildNodesWithField k₁ i s).1 = (p₂.getChildNodesWithField k₂ i s).1 ∧
    (p₁.iterChildFields k₁ i s).1 = (p₂.iterChildFields k₂ i s).1 ∧
    (p₁.getProperties k₁ i fl s).1 = (p₂.getProperties k₂ i fl s).1 ∧
    (p₁.getChildFields k₁).1 = (p₂.getChildFields k₂).1 ∧
    (p₁.getPropertyFields k₁ fl).1 = (p₂.getPropertyFields k₂ fl).1 ∧
    (p₁.toPropertiesDict k₁ i).1 = (p₂.toPropertiesDict k₂ i).1 := by
  rw [get_child_nodes_e2e h₁ hk₁, get_child_nodes_e2e h₂ hk₂,
    get_child_nodes_with_field_e2e h₁ hk₁, get_child_nodes_with_field_e2e h₂ hk₂,
    iter_child_fields_e2e h₁ hk₁, iter_child_fields_e2e h₂ hk₂,
    get_properties_e2e h₁ hk₁, get_properties_e2e h₂ hk₂,
    get_child_fields_e2e h₁ hk₁, get_child_fields_e2e h₂ hk₂,
    get_property_fields_e2e h₁ hk₁, get_property_fields_e2e h₂ hk₂,
    to_properties_dict_e2e h₁ hk₁, to_properties_dict_e2e h₂ hk₂, hd]
  exact ⟨rfl, rfl, rfl, rfl, rfl, rfl, rfl⟩

/-- in particular: a call does not change what any later call returns (the state a call leaves
behind is again reachable, and the class table is untouched) -/
theorem call_then_call {p : Prog} (h : ReachP p) (a : AccId) {j k : Nat} (hj : j < p.decls.length)
    (hk : k < p.decls.length) (i : Inst) (fl : Flags) (s : Bool) :
    ((p.dispatch a j).2.getProperties k i fl s).1 = (p.getProperties k i fl s).1 ∧
    ((p.dispatch a j).2.getChildNodesWithField k i s).1 = (p.getChildNodesWithField k i s).1 := by
  have hd := (dispatch_goodP (goodP_of_reach h) a hj).2.2
  have hk' : k < (p.dispatch a j).2.decls.length := by rw [hd]; exact hk
  have h' : ReachP (p.dispatch a j).2 := .call p a j h hj
  have hdecl : (p.dispatch a j).2.decl k = p.decl k := by simp [Prog.decl, hd]
  rw [get_properties_e2e h' hk', get_properties_e2e h hk, get_child_nodes_with_field_e2e h' hk',
    get_child_nodes_with_field_e2e h hk, hdecl]
  exact ⟨rfl, rfl⟩

/-! ### each dataclass field lands in exactly one of the two dicts -/

/-- `process_node_fields` partitions `fields(cls)`: child fields and properties together are a
permutation of all fields, and no field is in both -/
theorem partition (c : ClassDecl) :
    (c.childFields ++ c.props).Perm c.fields ∧ ∀ d, d ∈ c.childFields → d ∉ c.props := by
  rw [childFields_eq, props_eq]
  constructor
  · have : (fun d : FDecl => d.isProp) = (fun d => !d.isChild) := by
      funext d; simp [FDecl.isProp, FDecl.isChild]
    have h := List.filter_append_perm FDecl.isChild c.fields
    simpa [this] using h
  · intro d hd hp
    simp only [List.mem_filter, FDecl.isChild, FDecl.isProp] at hd hp
    simp_all

/-! ### non-vacuity: a two-class hierarchy, the subclass queried first -/

section Demo

private def fA : List FDecl := [⟨['x'], .childOne, true, true, false⟩, ⟨['v'], .prop, true, true, false⟩]
private def fB : List FDecl := [⟨['y', 's'], .childTuple, true, true, false⟩, ⟨['w'], .prop, false, true, false⟩]
/-- class A(ASTNode): x: Kid; v: int        class B(A): ys: tuple[Kid, ...]; w = field(compare=False) -/
private def dA : ClassDecl := ⟨[fA]⟩
private def dB : ClassDecl := ⟨[fA, fB]⟩

private def iB : Inst :=
  [ (nmId, .prop 100), (nmContentId, .prop 101), (nmOrigin, .prop 102),
    (['x'], .node ⟨1, false⟩), (['v'], .prop 5), (['y', 's'], .tuple [⟨2, true⟩, ⟨3, false⟩]), (['w'], .prop 6) ]

private def p0 : Prog := (Prog.init.defineClass dA []).defineClass dB [0]
/-- history 1: the SUBCLASS is queried first (properties, then children), then the base -/
private def h1 : Prog := ((((p0.dispatch .properties 1).2).dispatch .childNodesWF 1).2.dispatch .properties 0).2
/-- history 2: the BASE is used first with every accessor, then a third class is defined -/
private def h2 : Prog :=
  (((((p0.dispatch .properties 0).2).dispatch .childNodesWF 0).2.dispatch .childNodes 0).2.clsFields 1).2.defineClass dB [1, 0]

private theorem reach_p0 : ReachP p0 := .define _ _ _ (.define _ _ _ .init)
private theorem reach_h1 : ReachP h1 :=
  .call _ _ 0 (.call _ _ 1 (.call _ _ 1 reach_p0 (by decide)) (by decide)) (by decide)
private theorem reach_h2 : ReachP h2 :=
  .define _ _ _ (.fields _ 1 (.call _ _ 0 (.call _ _ 0 (.call _ _ 0 reach_p0 (by decide)) (by decide)) (by decide))
    (by decide))

example : ((h1.getChildNodesWithField 1 iB false).1.map fun x => (x.1.uid, String.ofList x.2.1.name, x.2.2))
    = [(1, "x", none), (2, "ys", some 0), (3, "ys", some 1)] := by decide
example : ((h2.getChildNodesWithField 1 iB false).1.map fun x => (x.1.uid, String.ofList x.2.1.name, x.2.2))
    = [(1, "x", none), (2, "ys", some 0), (3, "ys", some 1)] := by decide
-- the freshly defined third class (index 2, same definition as B) through the theorem
example : (h1.getChildNodesWithField 1 iB true).1 = (h2.getChildNodesWithField 2 iB true).1 :=
  (first_use_independent reach_h1 reach_h2 (k₁ := 1) (k₂ := 2) (by decide) (by decide) rfl iB Flags.default true).2.1
example : ((h1.getProperties 1 iB ⟨true, true, true, true, false⟩ true).1.map fun x => String.ofList x.2.name)
    = ["v"] := by decide
-- the base class is not disturbed by its subclass having been used first
example : ((h1.getChildNodesWithField 0 iB false).1.map fun x => (x.1.uid, String.ofList x.2.1.name))
    = [(1, "x")] := by decide

/-- why `__init_subclass__` must re-point the accessors, END TO END: `A` used, then `B(A)` defined
without the re-pointing → an instance of `B` gets `A`'s children only (`ys` is lost) -/
theorem without_repointing_e2e_fails :
    let p := ((Prog.init.defineClass dA []).dispatch .childNodesWF 0).2.defineClassNoRepoint dB [0]
    ((p.getChildNodesWithField 1 iB false).1.map fun x => x.1.uid) = [1] ∧
    ((specChildNodesWithField dB iB false).map fun x => x.1.uid) = [1, 2, 3] := by decide

end Demo

end C12
end Acc
end PyOak
