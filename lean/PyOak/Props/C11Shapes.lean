/-
C11, rejected shapes as GENERAL theorems (every type term, any depth) — the clause
"every other annotation (node types mixed with other types, inside non-tuple or mutable containers,
optional inside a tuple, nested or optional tuples of nodes, mutable collections anywhere) is rejected".

* `Sub u t`                     `u` occurs in `t` (reflexive sub-term relation, through NewType, union members,
                                tuple elements and container arguments)
* `childShape_sub`              every sub-term of a child-shaped annotation is `None` or child-shaped itself
* `childShape_not_mutable`      a child-shaped annotation mentions no mutable collection
* `mutable_rejected`            `MentionsMutable t → classify t = .reject`
* one inductive predicate per rejected shape the statement lists (`MixedUnion`, `NodeInContainer`,
  `OptInTuple`, `NestedTuple`, `OptionalTuple`), each *local* (it describes the offending sub-term), and
  for each one a theorem "`t` has a sub-term of that shape → `classify t = .reject`"
* `classify_trichotomy`         the three-way case split in one statement (a conjunction of
                                `classify_child_iff`, `classify_prop_iff`, `classify_reject_iff`)
* `reject_of_bad_subterm`       the general principle all the per-shape theorems instantiate.
-/
import PyOak.Props.C11
namespace PyOak
namespace C11
open Annot Annot.Ty

/-! ### sub-terms -/

/-- `Sub u t`: the annotation `u` occurs in the annotation `t` (at any depth, `t` itself included) -/
inductive Sub : Ty → Ty → Prop where
  | refl (t : Ty) : Sub t t
  | newtype {u t : Ty} : Sub u t → Sub u (.newtype t)
  | union {u x m : Ty} {ms : List Ty} : x ∈ m :: ms → Sub u x → Sub u (.union m ms)
  | vtuple {u t : Ty} : Sub u t → Sub u (.vtuple t)
  | coll {u x : Ty} {k : CollKind} {args : List Ty} : x ∈ args → Sub u x → Sub u (.coll k args)

theorem Sub.trans {a b c : Ty} (h1 : Sub a b) (h2 : Sub b c) : Sub a c := by
  induction h2 with
  | refl => exact h1
  | newtype _ ih => exact .newtype ih
  | union hx _ ih => exact .union hx ih
  | vtuple _ ih => exact .vtuple ih
  | coll hx _ ih => exact .coll hx ih

theorem Sub.mentionsNode {u t : Ty} (h : Sub u t) (hu : MentionsNode u) : MentionsNode t := by
  induction h with
  | refl => exact hu
  | newtype _ ih => exact .newtype ih
  | union hx _ ih => exact .union hx ih
  | vtuple _ ih => exact .vtuple ih
  | coll hx _ ih => exact .coll hx ih

theorem Sub.mentionsMutable {u t : Ty} (h : Sub u t) (hu : MentionsMutable u) : MentionsMutable t := by
  induction h with
  | refl => exact hu
  | newtype _ ih => exact .newtype ih
  | union hx _ ih => exact .union hx ih
  | vtuple _ ih => exact .vtuple ih
  | coll hx _ ih => exact .coll hx ih

/-- a mutable collection is mentioned iff some sub-term IS a mutable collection -/
theorem mentionsMutable_iff_sub (t : Ty) :
    MentionsMutable t ↔ ∃ k args, k.mutable = true ∧ Sub (.coll k args) t := by
  constructor
  · intro h
    induction h with
    | here hk => exact ⟨_, _, hk, .refl _⟩
    | newtype _ ih => obtain ⟨k, a, hk, hs⟩ := ih; exact ⟨k, a, hk, .newtype hs⟩
    | union hx _ ih => obtain ⟨k, a, hk, hs⟩ := ih; exact ⟨k, a, hk, .union hx hs⟩
    | vtuple _ ih => obtain ⟨k, a, hk, hs⟩ := ih; exact ⟨k, a, hk, .vtuple hs⟩
    | coll hx _ ih => obtain ⟨k, a, hk, hs⟩ := ih; exact ⟨k, a, hk, .coll hx hs⟩
  · rintro ⟨k, a, hk, hs⟩
    exact hs.mentionsMutable (.here hk)

/-- a node class is mentioned iff some sub-term IS a node class -/
theorem mentionsNode_iff_sub (t : Ty) :
    MentionsNode t ↔ ∃ c, Sub (.node c) t ∨ Sub (.fwd c) t := by
  constructor
  · intro h
    induction h with
    | node c => exact ⟨c, .inl (.refl _)⟩
    | fwd c => exact ⟨c, .inr (.refl _)⟩
    | newtype _ ih =>
      obtain ⟨c, h | h⟩ := ih
      · exact ⟨c, .inl (.newtype h)⟩
      · exact ⟨c, .inr (.newtype h)⟩
    | union hx _ ih =>
      obtain ⟨c, h | h⟩ := ih
      · exact ⟨c, .inl (.union hx h)⟩
      · exact ⟨c, .inr (.union hx h)⟩
    | vtuple _ ih =>
      obtain ⟨c, h | h⟩ := ih
      · exact ⟨c, .inl (.vtuple h)⟩
      · exact ⟨c, .inr (.vtuple h)⟩
    | coll hx _ ih =>
      obtain ⟨c, h | h⟩ := ih
      · exact ⟨c, .inl (.coll hx h)⟩
      · exact ⟨c, .inr (.coll hx h)⟩
  · rintro ⟨c, h | h⟩
    · exact h.mentionsNode (.node c)
    · exact h.mentionsNode (.fwd c)

/-! ### the shape predicates against each other -/

theorem nodeLike_childShape {t : Ty} (h : NodeLike t) : ChildShape t := .one h

theorem elemShape_childShape {t : Ty} (h : ElemShape t) : ChildShape t := by
  induction h with
  | one h => exact .one h
  | union h => exact .union (fun x hx => .inr (h x hx)) ⟨_, List.mem_cons_self, h _ List.mem_cons_self⟩
  | newtype _ ih => exact .newtype ih

theorem childShape_of_newtype {t : Ty} (h : ChildShape (.newtype t)) : ChildShape t := by
  cases h with
  | one h => cases h with | newtype h => exact .one h
  | newtype h => exact h

theorem elemShape_of_newtype {t : Ty} (h : ElemShape (.newtype t)) : ElemShape t := by
  cases h with
  | one h => cases h with | newtype h => exact .one h
  | newtype h => exact h

theorem not_nodeLike_none : ¬ NodeLike .none := fun h => by cases h
theorem not_nodeLike_union {m : Ty} {ms : List Ty} : ¬ NodeLike (.union m ms) := fun h => by cases h
theorem not_nodeLike_vtuple {t : Ty} : ¬ NodeLike (.vtuple t) := fun h => by cases h
theorem not_nodeLike_coll {k : CollKind} {a : List Ty} : ¬ NodeLike (.coll k a) := fun h => by cases h
theorem not_nodeLike_atom {a : Atom} : ¬ NodeLike (.atom a) := fun h => by cases h

theorem not_childShape_none : ¬ ChildShape .none := fun h => by cases h with | one h => cases h
theorem not_childShape_atom {a : Atom} : ¬ ChildShape (.atom a) := fun h => by cases h with | one h => cases h

theorem childShape_union_members {m : Ty} {ms : List Ty} (h : ChildShape (.union m ms)) :
    ∀ x ∈ m :: ms, x = .none ∨ NodeLike x := by
  cases h with
  | one h => cases h
  | union h _ => exact h

theorem childShape_vtuple_elem {t : Ty} (h : ChildShape (.vtuple t)) : ElemShape t := by
  cases h with
  | one h => cases h
  | vtuple h => exact h

theorem childShape_coll {k : CollKind} {args : List Ty} (h : ChildShape (.coll k args)) :
    k = .tuple ∧ args ≠ [] ∧ ∀ a ∈ args, ElemShape a := by
  cases h with
  | one h => cases h
  | tuple hne h => exact ⟨rfl, hne, h⟩

theorem sub_none {u : Ty} (h : Sub u .none) : u = .none := by cases h; rfl

/-- every sub-term of a child-shaped annotation is `None` or again child-shaped -/
theorem childShape_sub {u t : Ty} (hs : Sub u t) (ht : t = .none ∨ ChildShape t) :
    u = .none ∨ ChildShape u := by
  induction hs with
  | refl => exact ht
  | newtype _ ih =>
    rcases ht with ht | ht
    · cases ht
    · exact ih (.inr (childShape_of_newtype ht))
  | union hx _ ih =>
    rcases ht with ht | ht
    · cases ht
    · rcases childShape_union_members ht _ hx with h | h
      · exact ih (.inl h)
      · exact ih (.inr (.one h))
  | vtuple _ ih =>
    rcases ht with ht | ht
    · cases ht
    · exact ih (.inr (elemShape_childShape (childShape_vtuple_elem ht)))
  | coll hx _ ih =>
    rcases ht with ht | ht
    · cases ht
    · exact ih (.inr (elemShape_childShape ((childShape_coll ht).2.2 _ hx)))

/-! ### mutable collections anywhere -/

theorem nodeLike_not_mutable {t : Ty} (h : NodeLike t) : ¬ MentionsMutable t := by
  induction h with
  | node c => intro h; cases h
  | fwd c => intro h; cases h
  | newtype _ ih => intro h; cases h; exact ih (by assumption)

theorem elemShape_not_mutable {t : Ty} (h : ElemShape t) : ¬ MentionsMutable t := by
  induction h with
  | one h => exact nodeLike_not_mutable h
  | union h =>
    intro hm
    cases hm with
    | union hx hm => exact nodeLike_not_mutable (h _ hx) hm
  | newtype _ ih => intro h; cases h; exact ih (by assumption)

/-- a child-shaped annotation mentions no mutable collection (proved on the shape predicates alone) -/
theorem childShape_not_mutable {t : Ty} (h : ChildShape t) : ¬ MentionsMutable t := by
  induction h with
  | one h => exact nodeLike_not_mutable h
  | union h _ =>
    intro hm
    cases hm with
    | union hx hm =>
      rcases h _ hx with rfl | hn
      · cases hm
      · exact nodeLike_not_mutable hn hm
  | vtuple h =>
    intro hm
    cases hm with
    | vtuple hm => exact elemShape_not_mutable h hm
  | tuple _ h =>
    intro hm
    cases hm with
    | here hk => cases hk
    | coll hx hm => exact elemShape_not_mutable (h _ hx) hm
  | newtype _ ih => intro h; cases h; exact ih (by assumption)

/-- "mutable collections anywhere": an annotation that mentions `list` / `dict` / `set` at ANY depth
(bare or parameterised, behind NewTypes, inside unions, tuples, containers) is rejected — it is
neither a child field nor, silently, a property -/
theorem mutable_rejected (t : Ty) (h : MentionsMutable t) : classify t = .reject :=
  (classify_reject_iff t).2 ⟨fun hc => childShape_not_mutable hc h, .inr h⟩

/-- the same, reading "anywhere" as "some sub-term is a mutable collection" -/
theorem mutable_subterm_rejected (t : Ty) (k : CollKind) (args : List Ty) (hk : k.mutable = true)
    (hs : Sub (.coll k args) t) : classify t = .reject :=
  mutable_rejected t ((mentionsMutable_iff_sub t).2 ⟨k, args, hk, hs⟩)

example : MentionsMutable (.coll .mapping [.atom .str, .vtuple (.newtype (.coll .list [.atom .int]))]) :=
  .coll (x := .vtuple (.newtype (.coll .list [.atom .int]))) (by simp) (.vtuple (.newtype (.here rfl)))
example : MentionsMutable (.union (.node 0) [.coll .set []]) :=
  .union (x := .coll .set []) (by simp) (.here rfl)

/-! ### the general principle -/

/-- an annotation that mentions a node class and has a sub-term which is neither `None` nor child-shaped
is rejected -/
theorem reject_of_bad_subterm (t u : Ty) (hs : Sub u t) (hn : MentionsNode t)
    (hu1 : u ≠ .none) (hu2 : ¬ ChildShape u) : classify t = .reject := by
  refine (classify_reject_iff t).2 ⟨fun hc => ?_, .inl hn⟩
  rcases childShape_sub hs (.inr hc) with h | h
  · exact hu1 h
  · exact hu2 h

/-- the three-way split in one statement: child ⇔ child shape; property ⇔ no node class and no mutable
collection mentioned; rejected ⇔ everything else -/
theorem classify_trichotomy (t : Ty) :
    (classify t = .child ↔ ChildShape t) ∧
    (classify t = .prop ↔ (¬ MentionsNode t ∧ ¬ MentionsMutable t)) ∧
    (classify t = .reject ↔ (¬ ChildShape t ∧ ¬ (¬ MentionsNode t ∧ ¬ MentionsMutable t))) := by
  refine ⟨classify_child_iff t, classify_prop_iff t, ?_⟩
  rw [classify_reject_iff]
  constructor
  · rintro ⟨h1, h2⟩
    exact ⟨h1, fun ⟨a, b⟩ => h2.elim a b⟩
  · rintro ⟨h1, h2⟩
    refine ⟨h1, ?_⟩
    by_cases hn : MentionsNode t
    · exact .inl hn
    · by_cases hm : MentionsMutable t
      · exact .inr hm
      · exact absurd ⟨hn, hm⟩ h2

/-- "never silently treated as a property": an annotation that mentions a node class is a child or is
rejected -/
theorem node_never_prop (t : Ty) (h : MentionsNode t) : classify t = .child ∨ classify t = .reject := by
  cases hc : classify t
  · exact .inl rfl
  · exact absurd h (prop_hides_no_node t hc)
  · exact .inr rfl

/-! ### the rejected shapes of the statement, one local predicate each -/

/-- "node types mixed with other types": a union one member of which mentions a node class and one
member of which is neither `None` nor a node class (behind NewTypes) -/
inductive MixedUnion : Ty → Prop where
  | mk {m : Ty} {ms : List Ty} {x y : Ty} : x ∈ m :: ms → MentionsNode x → y ∈ m :: ms → y ≠ .none →
      ¬ NodeLike y → MixedUnion (.union m ms)

/-- "inside non-tuple containers": `frozenset` / `Sequence` / `Mapping` (or a mutable container) one
argument of which mentions a node class -/
inductive NodeInContainer : Ty → Prop where
  | mk {k : CollKind} {args : List Ty} : k ≠ .tuple → MentionsNode (.coll k args) →
      NodeInContainer (.coll k args)

/-- `Optional[..]` / a union with `None`, possibly behind NewTypes -/
def IsOptional (t : Ty) : Prop := ∃ m ms, t.unwrap = .union m ms ∧ Ty.none ∈ m :: ms

/-- a variadic or fixed-length tuple, possibly behind NewTypes -/
def IsTuple (t : Ty) : Prop := (∃ e, t.unwrap = .vtuple e) ∨ (∃ args, t.unwrap = .coll .tuple args)

/-- "optional inside a tuple": a tuple of nodes one element type of which is a union with `None` -/
inductive OptInTuple : Ty → Prop where
  | vtuple {e : Ty} : IsOptional e → MentionsNode (.vtuple e) → OptInTuple (.vtuple e)
  | tuple {args : List Ty} {e : Ty} : e ∈ args → IsOptional e → MentionsNode (.coll .tuple args) →
      OptInTuple (.coll .tuple args)

/-- "nested tuples of nodes": a tuple of nodes one element type of which is again a tuple -/
inductive NestedTuple : Ty → Prop where
  | vtuple {e : Ty} : IsTuple e → MentionsNode (.vtuple e) → NestedTuple (.vtuple e)
  | tuple {args : List Ty} {e : Ty} : e ∈ args → IsTuple e → MentionsNode (.coll .tuple args) →
      NestedTuple (.coll .tuple args)

/-- "optional tuples of nodes": a union one member of which is a tuple that mentions a node class -/
inductive OptionalTuple : Ty → Prop where
  | mk {m : Ty} {ms : List Ty} {x : Ty} : x ∈ m :: ms → IsTuple x → MentionsNode x →
      OptionalTuple (.union m ms)

theorem nodeLike_unwrap {t : Ty} (h : NodeLike t) : (∃ c, t.unwrap = .node c) ∨ (∃ c, t.unwrap = .fwd c) := by
  induction h with
  | node c => exact .inl ⟨c, rfl⟩
  | fwd c => exact .inr ⟨c, rfl⟩
  | newtype _ ih => simpa [unwrap] using ih

theorem elemShape_unwrap {t : Ty} (h : ElemShape t) :
    (∃ c, t.unwrap = .node c) ∨ (∃ c, t.unwrap = .fwd c) ∨
    (∃ m ms, t.unwrap = .union m ms ∧ ∀ x ∈ m :: ms, NodeLike x) := by
  induction h with
  | one h =>
    rcases nodeLike_unwrap h with h | h
    · exact .inl h
    · exact .inr (.inl h)
  | union h => exact .inr (.inr ⟨_, _, rfl, h⟩)
  | newtype _ ih => simpa [unwrap] using ih

theorem elemShape_not_optional {t : Ty} (h : ElemShape t) : ¬ IsOptional t := by
  rintro ⟨m, ms, hu, hn⟩
  rcases elemShape_unwrap h with ⟨c, hc⟩ | ⟨c, hc⟩ | ⟨m', ms', hc, hall⟩
  · rw [hc] at hu; cases hu
  · rw [hc] at hu; cases hu
  · rw [hc] at hu
    cases hu
    exact not_nodeLike_none (hall _ hn)

theorem elemShape_not_tuple {t : Ty} (h : ElemShape t) : ¬ IsTuple t := by
  intro ht
  rcases elemShape_unwrap h with ⟨c, hc⟩ | ⟨c, hc⟩ | ⟨m', ms', hc, _⟩ <;>
    rcases ht with ⟨e, he⟩ | ⟨a, ha⟩ <;> simp_all

theorem nodeLike_not_tuple {t : Ty} (h : NodeLike t) : ¬ IsTuple t := elemShape_not_tuple (.one h)

theorem isTuple_ne_none {t : Ty} (h : IsTuple t) : t ≠ .none := by
  rintro rfl
  rcases h with ⟨e, he⟩ | ⟨a, ha⟩
  · cases he
  · cases ha

theorem mixedUnion_not_child {u : Ty} (h : MixedUnion u) : ¬ ChildShape u := by
  cases h with
  | mk _ _ hy hy1 hy2 =>
    intro hc
    rcases childShape_union_members hc _ hy with h | h
    · exact hy1 h
    · exact hy2 h

theorem nodeInContainer_not_child {u : Ty} (h : NodeInContainer u) : ¬ ChildShape u := by
  cases h with
  | mk hk _ => intro hc; exact hk (childShape_coll hc).1

theorem optInTuple_not_child {u : Ty} (h : OptInTuple u) : ¬ ChildShape u := by
  cases h with
  | vtuple ho _ => intro hc; exact elemShape_not_optional (childShape_vtuple_elem hc) ho
  | tuple he ho _ => intro hc; exact elemShape_not_optional ((childShape_coll hc).2.2 _ he) ho

theorem nestedTuple_not_child {u : Ty} (h : NestedTuple u) : ¬ ChildShape u := by
  cases h with
  | vtuple ho _ => intro hc; exact elemShape_not_tuple (childShape_vtuple_elem hc) ho
  | tuple he ho _ => intro hc; exact elemShape_not_tuple ((childShape_coll hc).2.2 _ he) ho

theorem optionalTuple_mixed {u : Ty} (h : OptionalTuple u) : MixedUnion u := by
  cases h with
  | mk hx ht hn => exact .mk hx hn hx (isTuple_ne_none ht) (fun h => nodeLike_not_tuple h ht)

theorem mixedUnion_mentionsNode {u : Ty} (h : MixedUnion u) : MentionsNode u := by
  cases h with
  | mk hx hn _ _ _ => exact .union hx hn

/-- node classes mixed with other types in a union, at any depth of the annotation -/
theorem mixed_union_rejected (t u : Ty) (hs : Sub u t) (hu : MixedUnion u) : classify t = .reject :=
  reject_of_bad_subterm t u hs (hs.mentionsNode (mixedUnion_mentionsNode hu))
    (by cases hu; intro h; cases h) (mixedUnion_not_child hu)

/-- a node class inside `frozenset` / `Sequence` / `Mapping` / `list` / `dict` / `set`, at any depth -/
theorem node_in_container_rejected (t u : Ty) (hs : Sub u t) (hu : NodeInContainer u) :
    classify t = .reject :=
  reject_of_bad_subterm t u hs (hs.mentionsNode (by cases hu; assumption))
    (by cases hu; intro h; cases h) (nodeInContainer_not_child hu)

/-- an optional element type inside a tuple of nodes, at any depth -/
theorem opt_in_tuple_rejected (t u : Ty) (hs : Sub u t) (hu : OptInTuple u) : classify t = .reject :=
  reject_of_bad_subterm t u hs (hs.mentionsNode (by cases hu <;> assumption))
    (by cases hu <;> (intro h; cases h)) (optInTuple_not_child hu)

/-- a tuple inside a tuple of nodes, at any depth -/
theorem nested_tuple_rejected (t u : Ty) (hs : Sub u t) (hu : NestedTuple u) : classify t = .reject :=
  reject_of_bad_subterm t u hs (hs.mentionsNode (by cases hu <;> assumption))
    (by cases hu <;> (intro h; cases h)) (nestedTuple_not_child hu)

/-- an optional tuple of nodes (a tuple of nodes as a union member), at any depth -/
theorem optional_tuple_rejected (t u : Ty) (hs : Sub u t) (hu : OptionalTuple u) : classify t = .reject :=
  mixed_union_rejected t u hs (optionalTuple_mixed hu)

/-- all the listed shapes at once -/
theorem listed_shapes_rejected (t u : Ty) (hs : Sub u t)
    (hu : MixedUnion u ∨ NodeInContainer u ∨ OptInTuple u ∨ NestedTuple u ∨ OptionalTuple u ∨
      (∃ k args, u = .coll k args ∧ k.mutable = true)) : classify t = .reject := by
  rcases hu with h | h | h | h | h | ⟨k, args, rfl, hk⟩
  · exact mixed_union_rejected t u hs h
  · exact node_in_container_rejected t u hs h
  · exact opt_in_tuple_rejected t u hs h
  · exact nested_tuple_rejected t u hs h
  · exact optional_tuple_rejected t u hs h
  · exact mutable_subterm_rejected t k args hk hs

/-! ### non-vacuity: every predicate is inhabited, also below the top level -/

-- `Union[N0, int]`
example : MixedUnion (.union (.node 0) [.atom .int]) :=
  .mk (x := .node 0) (y := .atom .int) (by simp) (.node 0) (by simp) (by simp) not_nodeLike_atom
-- `tuple[Union[N0, int], ...]`: the mixed union sits inside a tuple
example : classify (.vtuple (.union (.node 0) [.atom .int])) = .reject :=
  mixed_union_rejected _ _ (.vtuple (.refl _))
    (.mk (x := .node 0) (y := .atom .int) (by simp) (.node 0) (by simp) (by simp) not_nodeLike_atom)
-- `Mapping[str, N0]`
example : NodeInContainer (.coll .mapping [.atom .str, .node 0]) :=
  .mk (by decide) (.coll (x := .node 0) (by simp) (.node 0))
-- `Optional[Sequence[N0]]`
example : classify (.union (.coll .sequence [.node 0]) [.none]) = .reject :=
  node_in_container_rejected _ (.coll .sequence [.node 0]) (.union (by simp) (.refl _))
    (.mk (by decide) (.coll (x := .node 0) (by simp) (.node 0)))
-- `tuple[NT, ...]` with `NT = NewType("NT", Optional[N0])`
example : OptInTuple (.vtuple (.newtype (.union (.node 0) [.none]))) :=
  .vtuple ⟨.node 0, [.none], rfl, by simp⟩ (.vtuple (.newtype (.union (x := .node 0) (by simp) (.node 0))))
-- `tuple[N0, tuple[N1, ...]]`
example : NestedTuple (.coll .tuple [.node 0, .vtuple (.node 1)]) :=
  .tuple (e := .vtuple (.node 1)) (by simp) (.inl ⟨.node 1, rfl⟩) (.coll (x := .node 0) (by simp) (.node 0))
-- `Optional[tuple[N0, ...]]`
example : OptionalTuple (.union (.vtuple (.node 0)) [.none]) :=
  .mk (x := .vtuple (.node 0)) (by simp) (.inl ⟨.node 0, rfl⟩) (.vtuple (.node 0))
-- the hypotheses matter: `tuple[Optional[int], ...]` and `Optional[tuple[int, ...]]` are properties
example : classify (.vtuple (.union (.atom .int) [.none])) = .prop ∧
    classify (.union (.vtuple (.atom .int)) [.none]) = .prop := by decide

end C11
end PyOak
