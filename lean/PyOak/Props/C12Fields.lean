/- C12, part 2: `dataclasses.fields(cls)` of a chain (`resolve`) is the declaration order of the hierarchy with every
   override in the slot of the field it overrides; `process_node_fields` is an order-preserving partition by kind. -/
import PyOak.Props.C12Order
namespace PyOak
namespace Acc
namespace C12

/-! ## C. `dataclasses.fields()` of a chain = declaration order with overrides in their slot -/

theorem dictSet_names (l : List FDecl) (f : FDecl) :
    (dictSet l f).map FDecl.name =
      if f.name ∈ l.map FDecl.name then l.map FDecl.name else l.map FDecl.name ++ [f.name] := by
  induction l with
  | nil => simp [dictSet]
  | cons g r ih =>
    simp only [dictSet]
    by_cases h : g.name = f.name
    · simp [h]
    · have h' : ¬ f.name = g.name := fun e => h e.symm
      simp only [h, if_false, List.map_cons, ih, List.mem_cons, h', false_or]
      split <;> simp

theorem mem_dictSet {l : List FDecl} {f d : FDecl} (hn : (l.map FDecl.name).Nodup) (h : d ∈ dictSet l f) :
    d = f ∨ (d ∈ l ∧ d.name ≠ f.name) := by
  induction l with
  | nil => simp [dictSet] at h; exact Or.inl h
  | cons g r ih =>
    simp only [List.map_cons, List.nodup_cons, List.mem_map, not_exists, not_and] at hn
    simp only [dictSet] at h
    by_cases hg : g.name = f.name
    · simp only [hg, if_true, List.mem_cons] at h
      rcases h with h | h
      · exact Or.inl h
      · refine Or.inr ⟨by simp [h], fun e => hn.1 d h (e.trans hg.symm)⟩
    · simp only [hg, if_false, List.mem_cons] at h
      rcases h with h | h
      · subst h; exact Or.inr ⟨by simp, hg⟩
      · rcases ih hn.2 h with h | h
        · exact Or.inl h
        · exact Or.inr ⟨by simp [h.1], h.2⟩

theorem mem_firstNames (n : Str) (xs : List Str) : n ∈ firstNames xs ↔ n ∈ xs := by
  induction xs with
  | nil => simp [firstNames]
  | cons x r ih =>
    simp only [firstNames, List.mem_cons, List.mem_filter, ih]
    by_cases h : n = x <;> simp [h]

theorem firstNames_nodup (xs : List Str) : (firstNames xs).Nodup := by
  induction xs with
  | nil => simp [firstNames]
  | cons x r ih =>
    simp only [firstNames, List.nodup_cons, List.mem_filter]
    exact ⟨by simp, List.Pairwise.sublist List.filter_sublist ih⟩

theorem firstNames_snoc (xs : List Str) (n : Str) :
    firstNames (xs ++ [n]) = if n ∈ xs then firstNames xs else firstNames xs ++ [n] := by
  induction xs with
  | nil => simp [firstNames]
  | cons x r ih =>
    simp only [List.cons_append, firstNames, ih, List.mem_cons]
    by_cases hr : n ∈ r
    · simp [hr]
    · by_cases hx : n = x
      · subst hx; simp [hr, List.filter_append]
      · simp [hr, hx, List.filter_append]

theorem lastDecl_snoc (n : Str) (ds : List FDecl) (f : FDecl) :
    lastDecl n (ds ++ [f]) = if f.name = n then some f else lastDecl n ds := by
  induction ds with
  | nil => simp [lastDecl]
  | cons d r ih =>
    simp only [List.cons_append, lastDecl, ih]
    by_cases h : f.name = n
    · simp [h]
    · simp [h]

/-- what one `fields[f.name] = f` preserves -/
structure ResInv (acc seen : List FDecl) : Prop where
  names : acc.map FDecl.name = firstNames (seen.map FDecl.name)
  last : ∀ d ∈ acc, lastDecl d.name seen = some d

theorem ResInv.nodup {acc seen : List FDecl} (h : ResInv acc seen) : (acc.map FDecl.name).Nodup := by
  rw [h.names]; exact firstNames_nodup _

theorem ResInv.step {acc seen : List FDecl} (h : ResInv acc seen) (f : FDecl) :
    ResInv (dictSet acc f) (seen ++ [f]) := by
  constructor
  · rw [dictSet_names, List.map_append, List.map_cons, List.map_nil, firstNames_snoc, h.names]
    simp only [mem_firstNames]
  · intro d hd
    rw [lastDecl_snoc]
    rcases mem_dictSet h.nodup hd with hd | hd
    · simp [hd]
    · have : ¬ f.name = d.name := fun e => hd.2 e.symm
      simp only [this, if_false]
      exact h.last d hd.1

theorem ResInv.foldl {acc seen : List FDecl} (h : ResInv acc seen) (ds : List FDecl) :
    ResInv (ds.foldl dictSet acc) (seen ++ ds) := by
  induction ds generalizing acc seen with
  | nil => simpa using h
  | cons f r ih =>
    have := ih (h.step f)
    simpa [List.append_assoc] using this

theorem resolve_eq_foldl (ls : List (List FDecl)) : resolve ls = ls.flatten.foldl dictSet [] := by
  simp [resolve, List.foldl_flatten]

theorem fields_inv (c : ClassDecl) : ResInv c.fields c.allDecls := by
  have h0 : ResInv [] [] := ⟨rfl, by simp⟩
  have := h0.foldl c.allDecls
  simpa [ClassDecl.fields, resolve_eq_foldl, ClassDecl.allDecls] using this

/-- field names of a class are pairwise distinct -/
theorem fields_names_nodup (c : ClassDecl) : (c.fields.map FDecl.name).Nodup := (fields_inv c).nodup

/-- the slots: names in order of first declaration along the chain -/
theorem fields_names (c : ClassDecl) :
    c.fields.map FDecl.name = firstNames (c.allDecls.map FDecl.name) := (fields_inv c).names

/-- every slot holds the most derived declaration of its name -/
theorem fields_most_derived (c : ClassDecl) (d : FDecl) (h : d ∈ c.fields) :
    lastDecl d.name c.allDecls = some d := (fields_inv c).last d h

theorem eq_filterMap_of_last (l decls : List FDecl) (h : ∀ d ∈ l, lastDecl d.name decls = some d) :
    l = (l.map FDecl.name).filterMap fun n => lastDecl n decls := by
  induction l with
  | nil => rfl
  | cons d r ih =>
    simp only [List.map_cons, List.filterMap_cons, h d (by simp)]
    rw [← ih (fun x hx => h x (by simp [hx]))]

/-- **`dataclasses.fields(cls)` is the declaration order of the hierarchy** -/
theorem fields_eq_declOrder (c : ClassDecl) : c.fields = declOrder c.allDecls := by
  have := eq_filterMap_of_last c.fields c.allDecls (fields_most_derived c)
  rw [fields_names] at this
  exact this

/-! ## D. `process_node_fields` is a partition by kind that keeps the order -/

theorem processNodeFields_aux (fs a b : List FDecl) :
    fs.foldl (fun (acc : List FDecl × List FDecl) f =>
      if f.kind = .prop then (acc.1, acc.2 ++ [f]) else (acc.1 ++ [f], acc.2)) (a, b)
    = (a ++ fs.filter FDecl.isChild, b ++ fs.filter FDecl.isProp) := by
  induction fs generalizing a b with
  | nil => simp
  | cons f r ih =>
    simp only [List.foldl_cons]
    by_cases h : f.kind = .prop
    · simp [h, ih, FDecl.isChild, FDecl.isProp]
    · simp [h, ih, FDecl.isChild, FDecl.isProp]

theorem childFields_eq (c : ClassDecl) : c.childFields = c.fields.filter FDecl.isChild := by
  simp [ClassDecl.childFields, processNodeFields, processNodeFields_aux]

theorem props_eq (c : ClassDecl) : c.props = c.fields.filter FDecl.isProp := by
  simp [ClassDecl.props, processNodeFields, processNodeFields_aux]

end C12
end Acc
end PyOak
