/-
C12 — Child and property accessors return exactly what the class definition dictates.

Model: `Model/Accessors.lean` (dataclass field resolution, `process_node_fields`, the four generated
accessor bodies as an IR with a sorted and an unsorted branch, the static `get_property_fields`,
`children`, `to_properties_dict`, the per-class installation of the generated functions).
Specification: `Spec/Accessors.lean`.

Everything is proved for **every** class description (any number of levels, any overrides), every
instance and every flag vector; only `children_complete` needs the instance to be well typed.

  helper files   C12Order  — Python's `str` order is a strict total order; `sorted(key=name)` is a
                             sorted permutation, unique for pairwise distinct names
                 C12Fields — `fields(cls)` = declaration order of the chain (`fields_eq_declOrder`,
                             `fields_names_nodup`); `process_node_fields` = partition by kind
                 C12Acc    — accessor = specification (`get_child_nodes_with_field_eq_spec`,
                             `get_child_nodes_eq_spec`, `children_eq_spec`, `iter_child_fields_eq_spec`,
                             `get_child_fields_eq_spec`, `get_properties_eq_spec`,
                             `get_property_fields_eq_spec`, `static_agrees_with_instance`)
                 C12Sorted — `ordered_isNameOrder`, `nameOrder_unique`, `get_properties_sorted`,
                             `get_properties_sorted_fields`, `child_nodes_sorted_perm`,
                             `to_properties_dict_eq_spec`
                 C12Pos    — `with_field_mem` (sound + complete positions), `children_complete`,
                             `with_field_truthiness_irrelevant`, `child_uids_truthiness_irrelevant`
  this file      `call_runs_own_function` (first-use independence), the `…_fails` witnesses for the
                 mechanism (`without_repointing_fails`, `marker_sharing_fails`) and for the two repaired defects
                 (`F12_pre_fix_fails`, `F17_pre_fix_fails`), non-vacuity examples.
-/
import PyOak.Props.C12Pos
namespace PyOak
namespace Acc
namespace C12

/-! ## J. first use: every class runs the function generated from its own fields -/

/-- every class has its own entry: the stub or the function generated for *that* class -/
def World.Good (w : World) : Prop :=
  w.slots.length = w.mros.length ∧
  ∀ k, k < w.slots.length → w.slots[k]? = some (some .stub) ∨ w.slots[k]? = some (some (.gen k))

/-- the worlds a program can reach: class definitions (any MRO: single or multiple inheritance,
with or without own fields) and accessor calls in any order -/
inductive Reach : World → Prop
  | init : Reach ⟨[], []⟩
  | define (w : World) (mro : List Nat) : Reach w → Reach (w.defineClass mro)
  | call (w : World) (k : Nat) : Reach w → k < w.mros.length → Reach (w.call k).2

theorem lookup_good {w : World} (h : World.Good w) {k : Nat} (hk : k < w.mros.length) :
    w.lookup k = .stub ∨ w.lookup k = .gen k := by
  unfold World.lookup
  have h1 := h.1
  rcases h.2 k (by omega) with e | e <;> simp [List.findSome?_cons, e]

theorem call_snd_slots (w : World) (k : Nat) :
    (w.call k).2 = w ∨ (w.call k).2 = ⟨w.mros, w.slots.set k (some (.gen k))⟩ := by
  unfold World.call
  split <;> simp

theorem good_of_reach {w : World} (h : Reach w) : World.Good w := by
  induction h with
  | init => exact ⟨rfl, by simp⟩
  | define w p _ ih =>
    refine ⟨by simp [World.defineClass, ih.1], ?_⟩
    intro k hk
    simp only [World.defineClass, List.length_append, List.length_singleton] at hk ⊢
    by_cases hlt : k < w.slots.length
    · rw [List.getElem?_append_left hlt]; exact ih.2 k hlt
    · have : k = w.slots.length := by omega
      subst this
      simp
  | call w k _ hk ih =>
    rcases call_snd_slots w k with e | e
    · rw [e]; exact ih
    · rw [e]
      refine ⟨by simp [ih.1], ?_⟩
      intro j hj
      simp only [List.length_set] at hj
      by_cases hjk : k = j
      · subst hjk; right; simp [hj]
      · simp only [List.getElem?_set_ne hjk]
        exact ih.2 j hj

/-- **the result does not depend on which class of a hierarchy was defined, instantiated or queried
first**: after any sequence of class definitions (single or multiple inheritance) and accessor
calls, calling the accessor on an instance of class `k` runs the function generated from the
fields of `k` itself -/
theorem call_runs_own_function {w : World} (h : Reach w) {k : Nat} (hk : k < w.mros.length) :
    (w.call k).1 = k := by
  have hg := good_of_reach h
  unfold World.call
  rcases lookup_good hg hk with e | e <;> simp [e]

/-- why `__init_subclass__` must re-point the accessors: without it a subclass defined after the
first use of its base runs the base's function (class 1 runs the function of class 0) -/
theorem without_repointing_fails :
    (((((World.mk [] []).defineClass []).call 0).2.defineClassNoRepoint [0]).call 1).1 = 0 := by
  decide

/-- … and why it must do so for **every** subclass, also one that declares no field of its own:
`class A`, `class B`, `A` used, `class C(A, B): pass` left without its own stubs → an instance of `C`
(class 2, whose fields are those of `B` and `A`) runs the function generated for `A` (class 0) -/
theorem marker_sharing_fails :
    ((((((World.mk [] []).defineClass []).defineClass []).call 0).2.defineClassNoRepoint [0, 1]).call 2).1 = 0 := by
  decide

/-! ## K. the two defects of the unrepaired tree, on the model of the unrepaired code -/

/-- F12: a field with `init=False, compare=False` was yielded under `skip_non_init=True` -/
theorem F12_pre_fix_fails :
    let d : FDecl := ⟨['q'], .prop, false, false, false⟩
    let fl : Flags := ⟨true, true, true, false, true⟩
    keeps fl d = false ∧ PStmt.run fl [] (buildPropPre d) = [(.none, d)] ∧ PStmt.run fl [] (buildProp d) = [] := by
  decide

/-- F17: the static variant dropped `id` under `skip_id=False, skip_non_compare=True` -/
theorem F17_pre_fix_fails :
    let fl : Flags := ⟨false, true, true, true, false⟩
    let idf : FDecl := ⟨nmId, .prop, false, false, false⟩
    keeps fl idf = true ∧ propertyFieldYieldedPre fl idf = false ∧ propertyFieldYielded fl idf = true := by
  decide

/-! ## non-vacuity: one concrete three-level hierarchy, evaluated -/

section Examples

private def s (x : String) : Str := x.toList
private def P (n : String) (cmp ini : Bool) : FDecl := ⟨n.toList, .prop, cmp, ini, false⟩

/-- class A(ASTNode): z: int; c: Kid; q = field(init=False, compare=False); t: tuple[Kid, ...]
    class B(A):       c: Kid | None (override, keeps its slot); a: str = field(compare=False)
    class C(B):       z: tuple[Kid, ...] (a property becomes a child field, keeps its slot); n = field(init=False) -/
private def cls : ClassDecl :=
  ⟨[ [P "z" true true, ⟨['c'], .childOne, true, true, false⟩, P "q" false false, ⟨['t'], .childTuple, true, true, false⟩],
     [⟨['c'], .childOne, true, true, true⟩, P "a" false true],
     [⟨['z'], .childTuple, true, true, false⟩, P "n" true false] ]⟩

private def inst : Inst :=
  [ (nmId, .prop 100), (nmContentId, .prop 101), (nmOrigin, .prop 102),
    (['z'], .tuple [⟨7, true⟩, ⟨8, false⟩]), (['c'], .none), (['q'], .prop 1),
    (['t'], .tuple []), (['a'], .prop 2), (['n'], .prop 3) ]

private def names (l : List FDecl) : List String := l.map fun d => String.ofList d.name

example : names cls.fields = ["id", "content_id", "origin", "z", "c", "q", "t", "a", "n"] := by decide
example : cls.fields = declOrder cls.allDecls := fields_eq_declOrder cls
example : (cls.fields.filter (·.name = ['c'])).map (·.kwOnly) = [true] := by decide  -- the override
example : names (getChildFields cls) = ["z", "c", "t"] := by decide
example : Conforms cls.fields inst := by decide
example : (getChildNodesWithField cls inst false).map (fun x => (x.1.uid, String.ofList x.2.1.name, x.2.2))
    = [(7, "z", some 0), (8, "z", some 1)] := by decide
example : (getChildNodesWithField cls ((['c'], FVal.node ⟨9, false⟩) :: inst) true).map
    (fun x => (x.1.uid, String.ofList x.2.1.name, x.2.2)) = [(9, "c", none), (7, "z", some 0), (8, "z", some 1)] := by
  decide
example : (children cls inst).map Nd.uid = [7, 8] := by decide
example : (iterChildFields cls inst true).map (fun x => (String.ofList x.2.name, x.1))
    = [("c", .none), ("t", .tuple []), ("z", .tuple [⟨7, true⟩, ⟨8, false⟩])] := by decide
example : names ((getProperties cls inst Flags.default false).map (·.2)) = ["q", "a", "n"] := by decide
example : names ((getProperties cls inst ⟨false, false, false, false, false⟩ true).map (·.2))
    = ["a", "content_id", "id", "n", "origin", "q"] := by decide
example : names ((getProperties cls inst ⟨false, true, true, true, false⟩ false).map (·.2)) = ["id", "n"] := by decide
example : names ((getProperties cls inst ⟨true, true, true, false, true⟩ false).map (·.2)) = ["a"] := by decide
example : names (getPropertyFields cls ⟨false, true, true, true, false⟩) = ["id", "n"] := by decide
example : (toPropertiesDict cls inst).map (fun e => (String.ofList e.1, e.2))
    = [("q", .prop 1), ("a", .prop 2), ("n", .prop 3)] := by decide
example : IsNameOrder (ordered true cls.props) cls.props := ordered_isNameOrder _
example : (getChildNodes cls (Inst.retruth (fun _ => false) inst) false).map Nd.uid = [7, 8] := by decide
example : Reach ((((World.mk [] []).defineClass []).call 0).2.defineClass [0]) :=
  .define _ _ (.call _ 0 (.define _ _ .init) (by decide))
example : (((((World.mk [] []).defineClass []).call 0).2.defineClass [0]).call 1).1 = 1 := by decide
example : ((((((World.mk [] []).defineClass []).defineClass []).call 0).2.defineClass [0, 1]).call 2).1 = 2 := by decide

end Examples

end C12
end Acc
end PyOak
