/-
`replace` / `replace_with` on a receiver that HAS a parent.

Between clearing the receiver's parent link and `_replace_child` the parent holds a detached child:
the invariant holds "with one hole" (`InvX (Hole p e) NoY`).  `_replace_child` closes the hole;
after it only the content id of the parent can be stale (`InvX NoX (· = p)`), and every step of
the `_reset_content_id` walk moves that single exception one node up, until the root is reached.
-/
import PyOak.Props.LegacyDetach
import PyOak.Props.LegacyConstruct
namespace PyOak.Legacy
open LState

/-! ### restoring parent slots -/

/-- two records that differ at most in the parent slots and agree there are equal -/
theorem eq_of_sameButParent {a b : LObj} (h : SameButParent a b) (h1 : a.pid = b.pid) (h2 : a.pfield = b.pfield)
    (h3 : a.pindex = b.pindex) : a = b := by
  cases a; cases b
  obtain ⟨c1, c2, c3, c4, c5, c6, c7, c8, c9⟩ := h
  simp only at c1 c2 c3 c4 c5 c6 c7 c8 c9 h1 h2 h3
  subst c1 c2 c3 c4 c5 c6 c7 c8 c9 h1 h2 h3
  rfl

theorem sameButParent_clearP (o : LObj) : SameButParent (clearP o) o := ⟨rfl, rfl, rfl, rfl, rfl, rfl, rfl, rfl, rfl⟩

theorem sameButParent_setSlots (o : LObj) (a : Option Str) (b : Option Str) (c : Option Nat) :
    SameButParent ({ o with pid := a, pfield := b, pindex := c } : LObj) o := ⟨rfl, rfl, rfl, rfl, rfl, rfl, rfl, rfl, rfl⟩

theorem SameButParent.symm {a b : LObj} (h : SameButParent a b) : SameButParent b a :=
  ⟨h.cls.symm, h.mro.symm, h.fqn.symm, h.props.symm, h.id.symm, h.origId.symm, h.collWith.symm, h.cid.symm,
   h.fields.symm⟩

/-- `reparent` gives the listed children exactly the parent slots of the target records `o` -/
theorem reparent_restore (u : Nat) (o : Nat → LObj) : ∀ (l : List (Nat × Str × Option Nat)) (t : LState),
    (∀ x, SameButParent (t.obj x) (o x)) →
    (∀ e ∈ l, (o e.1).pid = some (t.idOf u) ∧ (o e.1).pfield = some e.2.1 ∧ (o e.1).pindex = e.2.2) →
    ∀ x, x ∈ l.map (·.1) → (reparent u t l).obj x = o x := by
  intro l
  induction l with
  | nil => intro t _ _ x hx; cases hx
  | cons a r ih =>
    intro t hsame hl x hx
    obtain ⟨c, f, i⟩ := a
    simp only [reparent]
    have hsame' : ∀ y, SameButParent ((t.setParent c u f i).obj y) (o y) := by
      intro y; rw [setParent_obj]; split
      · next h =>
        subst h
        have h0 : SameButParent ({ t.obj y with pid := some (t.idOf u), pfield := some f, pindex := i } : LObj) (t.obj y) :=
          ⟨rfl, rfl, rfl, rfl, rfl, rfl, rfl, rfl, rfl⟩
        exact SameButParent.trans h0 (hsame y)
      · exact hsame y
    by_cases hxr : x ∈ r.map (·.1)
    · exact ih _ hsame' (fun e he => by rw [setParent_idOf]; exact hl e (List.mem_cons_of_mem _ he)) x hxr
    · have hxc : x = c := by
        simp only [List.map_cons, List.mem_cons] at hx
        rcases hx with h | h
        · exact h
        · exact absurd h hxr
      subst hxc
      rw [reparent_obj_not_mem u r _ x hxr]
      obtain ⟨p1, p2, p3⟩ := hl (x, f, i) (List.mem_cons_self ..)
      apply eq_of_sameButParent (hsame' x)
      · rw [setParent_obj]; simp [p1]
      · rw [setParent_obj]; simp [p2]
      · rw [setParent_obj]; simp [p3]

/-- the position `e` of `p` is exempt -/
def Hole (p : Nat) (e : Nat × Str × Option Nat) : Nat → (Nat × Str × Option Nat) → Prop :=
  fun q e' => q = p ∧ e' = e

section
variable (H Hc : Str → Str)

/-! ### opening the hole: `self._clear_parent()` on a node that has a parent -/

theorem clearParent_invX {s : LState} {u p : Nat} {f : Str} (hI : Inv Hc s) (hu : Att s u)
    (hp : s.parent u = some p) (hf : (s.obj u).pfield = some f) :
    InvX Hc (Hole p (u, f, (s.obj u).pindex)) NoY (s.clearParent u) := by
  have hobj : ∀ x, x ≠ u → (s.clearParent u).obj x = s.obj x := by
    intro x hx; rw [clearParent_obj']; simp [hx]
  have hobju : (s.clearParent u).obj u = clearP (s.obj u) := by rw [clearParent_obj']; simp
  have hfl : ∀ x, ((s.clearParent u).obj x).fields = (s.obj x).fields := by
    intro x; rw [clearParent_obj']; split
    · next h => subst h; rfl
    · rfl
  have hkp : ∀ x, ((s.clearParent u).obj x).kidsPos = (s.obj x).kidsPos := by
    intro x; unfold LObj.kidsPos; rw [hfl]
  have hcid : ∀ x, ((s.clearParent u).obj x).cid = (s.obj x).cid := by
    intro x; rw [clearParent_obj']; split
    · next h => subst h; rfl
    · rfl
  have hatt : ∀ x, Att (s.clearParent u) x ↔ Att s x := att_clearParent_iff s u
  refine ⟨?_, ?_, ?_, ?_, ?_, ?_, ?_, ?_⟩
  · intro k v hk
    obtain ⟨a, b⟩ := hI.regSound k v hk
    exact ⟨a, by rw [clearParent_idOf]; exact b⟩
  · intro w hw e' he' hx
    rw [hkp] at he'
    have hws := (hatt w).mp hw
    obtain ⟨a, b, c, d⟩ := hI.down' w hws e' he'
    have hne : e'.1 ≠ u := by
      intro h
      apply hx
      rw [h] at b c d
      have hwp : w = p := by
        unfold LState.parent at hp
        rw [b] at hp
        simp only at hp
        unfold Att at hws
        rw [hws] at hp
        exact Option.some.inj hp
      refine ⟨hwp, ?_⟩
      rw [hf] at c
      have : e'.2.1 = f := (Option.some.inj c).symm
      obtain ⟨e1, e2, e3⟩ := e'
      simp only at h this d
      subst h this d
      rfl
    exact ⟨(hatt _).mpr a, by rw [hobj _ hne, clearParent_idOf]; exact b, by rw [hobj _ hne]; exact c,
      by rw [hobj _ hne]; exact d⟩
  · intro x hx q hq
    have hxs := (hatt x).mp hx
    unfold LState.parent at hq
    by_cases hxu : x = u
    · subst hxu; rw [hobju] at hq; simp [clearP] at hq
    · rw [hobj x hxu] at hq ⊢
      rw [hkp]
      exact hI.up x hxs q (by unfold LState.parent; exact hq)
  · intro x hx _
    have hxs := (hatt x).mp hx
    rw [hcid, hI.cid' x hxs]
    congr 1
    symm
    apply cidPre_congr
    · rw [clearParent_obj']; split
      · next h => subst h; rfl
      · rfl
    · rw [clearParent_obj']; split
      · next h => subst h; rfl
      · rfl
    · exact hfl x
    · intro c _; exact hcid c
  · intro x k hk
    by_cases hxu : x = u
    · subst hxu; rw [hobju] at hk; simp [clearP] at hk
    · rw [hobj x hxu] at hk
      obtain ⟨a, b⟩ := hI.noDangling x k hk
      exact ⟨(hatt x).mpr a, b⟩
  · intro v hv c hc
    have : ((s.clearParent u).obj v).kidList = (s.obj v).kidList := by unfold LObj.kidList; rw [hfl]
    rw [this] at hc
    exact hI.closed v hv c hc
  · intro x hx
    unfold LState.parent at hx
    by_cases hxu : x = u
    · subst hxu; rw [hobju] at hx; simp [clearP] at hx
    · rw [hobj x hxu] at hx
      exact hI.noSelf x (by unfold LState.parent; exact hx)
  · intro v; unfold LObj.wf; rw [hfl]; exact hI.wf v

/-! ### the `_reset_content_id` walk -/

/-- recomputing the content id of the one node whose content id may be stale moves the exception to
its parent (if any) -/
theorem setContentId_invX {s : LState} {u : Nat} (hI : InvX Hc NoX (fun x => x = u) s) :
    InvX Hc NoX (fun x => s.parent u = some x) (s.setContentId Hc u) := by
  have hobj : ∀ x, x ≠ u → (s.setContentId Hc u).obj x = s.obj x := by
    intro x hx; rw [setContentId_obj]; simp [hx]
  have hfl : ∀ x, ((s.setContentId Hc u).obj x).fields = (s.obj x).fields := by
    intro x; rw [setContentId_obj]; split
    · next h => subst h; rfl
    · rfl
  have hkp : ∀ x, ((s.setContentId Hc u).obj x).kidsPos = (s.obj x).kidsPos := by
    intro x; unfold LObj.kidsPos; rw [hfl]
  have hslots : ∀ x, ((s.setContentId Hc u).obj x).pid = (s.obj x).pid ∧
      ((s.setContentId Hc u).obj x).pfield = (s.obj x).pfield ∧
      ((s.setContentId Hc u).obj x).pindex = (s.obj x).pindex := by
    intro x; rw [setContentId_obj]; split
    · next h => subst h; exact ⟨rfl, rfl, rfl⟩
    · exact ⟨rfl, rfl, rfl⟩
  have hatt : ∀ x, Att (s.setContentId Hc u) x ↔ Att s x := by
    intro x; unfold Att; rw [setContentId_idOf, setContentId_lookup]
  have hpar : ∀ x, (s.setContentId Hc u).parent x = s.parent x := by
    intro x; unfold LState.parent; rw [(hslots x).1]; rfl
  refine ⟨?_, ?_, hI.up |> fun hup => ?_, ?_, ?_, ?_, ?_, ?_⟩
  · intro k v hk
    obtain ⟨a, b⟩ := hI.regSound k v hk
    exact ⟨a, by rw [setContentId_idOf]; exact b⟩
  · intro w hw e he hx
    rw [hkp] at he
    obtain ⟨a, b, c, d⟩ := hI.down w ((hatt w).mp hw) e he hx
    exact ⟨(hatt _).mpr a, by rw [(hslots _).1, setContentId_idOf]; exact b, by rw [(hslots _).2.1]; exact c,
      by rw [(hslots _).2.2]; exact d⟩
  · intro x hx q hq
    rw [hpar] at hq
    obtain ⟨f, hf, hm⟩ := hup x ((hatt x).mp hx) q hq
    exact ⟨f, by rw [(hslots x).2.1]; exact hf, by rw [(hslots x).2.2, hkp]; exact hm⟩
  · intro x hx hy
    have hxs := (hatt x).mp hx
    by_cases hxu : x = u
    · subst hxu
      rw [setContentId_obj]; simp only [if_true]
      congr 1
      symm
      apply cidPre_congr rfl rfl rfl
      intro c hc
      have hcx : c ≠ x := by
        intro h; subst h
        obtain ⟨e, he, he1⟩ := (mem_kidList_iff _ _).mp hc
        obtain ⟨_, b, _, _⟩ := hI.down c hxs e he (fun h => h)
        rw [he1] at b
        apply hI.noSelf c
        unfold LState.parent; rw [b]; exact hxs
      rw [hobj c hcx]
    · rw [hobj x hxu, hI.cid x hxs hxu]
      congr 1
      symm
      apply cidPre_congr rfl rfl rfl
      intro c hc
      have hcu : c ≠ u := by
        intro h; subst h
        apply hy
        obtain ⟨e, he, he1⟩ := (mem_kidList_iff _ _).mp hc
        obtain ⟨_, b, _, _⟩ := hI.down x hxs e he (fun h => h)
        rw [he1] at b
        unfold LState.parent; rw [b]; exact hxs
      rw [hobj c hcu]
  · intro x k hk
    rw [(hslots x).1] at hk
    obtain ⟨a, b⟩ := hI.noDangling x k hk
    exact ⟨(hatt x).mpr a, b⟩
  · intro v hv c hc
    have : ((s.setContentId Hc u).obj v).kidList = (s.obj v).kidList := by unfold LObj.kidList; rw [hfl]
    rw [this] at hc
    exact hI.closed v hv c hc
  · intro x hx; rw [hpar] at hx; exact hI.noSelf x hx
  · intro v; unfold LObj.wf; rw [hfl]; exact hI.wf v

/-- **the walk**: if only the content id of `u` may be stale and `_reset_content_id` started at `u`
reaches a root, the invariant holds without exception (the change has propagated to all ancestors) -/
theorem resetContentId_inv : ∀ (fuel : Nat) (s : LState) (u : Nat) (s' : LState),
    InvX Hc NoX (fun x => x = u) s → resetContentId Hc s fuel u = (s', true) → Inv Hc s' := by
  intro fuel
  induction fuel with
  | zero => intro s u s' _ h; simp [resetContentId] at h
  | succ fuel ih =>
    intro s u s' hI h
    unfold resetContentId at h
    simp only at h
    have h1 := setContentId_invX Hc hI
    have hpar : (s.setContentId Hc u).parent u = s.parent u := by
      unfold LState.parent
      have : ((s.setContentId Hc u).obj u).pid = (s.obj u).pid := by rw [setContentId_obj]; simp
      rw [this]; rfl
    rw [hpar] at h
    cases hp : s.parent u with
    | none =>
      rw [hp] at h
      simp only [Prod.mk.injEq, and_true] at h
      subst h
      exact h1.weaken (fun _ _ h => h) (fun x hx => by rw [hp] at hx; cases hx)
    | some p =>
      rw [hp] at h
      simp only at h
      exact ih _ p s' (h1.weaken (fun _ _ h => h) (fun x hx => by rw [hp] at hx; exact (Option.some.inj hx).symm)) h

/-! ### the child positions of the parent after `_replace_child(old, field, index, new)` -/

/-- replace one entry -/
def swapEntry (eu en e : Nat × Str × Option Nat) : Nat × Str × Option Nat := if e = eu then en else e

/-- the new value of the field, as `_replace_child` builds it -/
def newKidsFor (kids : List Nat) (idx : Option Nat) (n : Nat) : List Nat :=
  match idx with
  | some i => kids.take i ++ n :: kids.drop (i + 1)
  | none => [n]

theorem posFrom_idx_ge (name : Str) : ∀ (l : List Nat) (j : Nat) (e : Nat × Str × Option Nat),
    e ∈ posFrom name j l → ∃ m, e.2.2 = some m ∧ j ≤ m ∧ e.2.1 = name := by
  intro l; induction l with
  | nil => intro j e he; cases he
  | cons c r ih =>
    intro j e he
    simp only [posFrom, List.mem_cons] at he
    rcases he with rfl | he
    · exact ⟨j, rfl, Nat.le_refl _, rfl⟩
    · obtain ⟨m, h1, h2, h3⟩ := ih (j + 1) e he
      exact ⟨m, h1, by omega, h3⟩

theorem posFrom_swap (name : Str) (u n : Nat) : ∀ (l : List Nat) (j i : Nat),
    (u, name, some (j + i)) ∈ posFrom name j l →
    posFrom name j (l.take i ++ n :: l.drop (i + 1)) =
      (posFrom name j l).map (swapEntry (u, name, some (j + i)) (n, name, some (j + i))) := by
  intro l; induction l with
  | nil => intro j i he; cases he
  | cons c r ih =>
    intro j i he
    cases i with
    | zero =>
      simp only [posFrom, List.mem_cons] at he
      have hc : c = u := by
        rcases he with h | h
        · simp only [Nat.add_zero, Prod.mk.injEq] at h; exact h.1.symm
        · obtain ⟨m, h1, h2, _⟩ := posFrom_idx_ge name r (j + 1) _ h
          simp only [Nat.add_zero, Option.some.injEq] at h1; omega
      subst hc
      simp only [List.take_zero, List.nil_append, Nat.zero_add, List.drop_succ_cons, List.drop_zero, posFrom,
        List.map_cons, Nat.add_zero]
      congr 1
      · simp [swapEntry]
      · symm
        rw [List.map_congr_left, List.map_id]
        intro e he'
        obtain ⟨m, h1, h2, _⟩ := posFrom_idx_ge name r (j + 1) e he'
        unfold swapEntry
        have : e ≠ (c, name, some j) := by
          intro h; rw [h] at h1; simp only [Option.some.injEq] at h1; omega
        simp [this]
    | succ i =>
      simp only [posFrom, List.mem_cons] at he
      have he' : (u, name, some (j + 1 + i)) ∈ posFrom name (j + 1) r := by
        rcases he with h | h
        · simp only [Prod.mk.injEq, Option.some.injEq] at h; omega
        · have : j + (i + 1) = j + 1 + i := by omega
          rw [this] at h; exact h
      have := ih (j + 1) i he'
      have e1 : j + (i + 1) = j + 1 + i := by omega
      simp only [List.take_succ_cons, List.cons_append, List.drop_succ_cons, posFrom, List.map_cons, e1]
      congr 1
      · unfold swapEntry
        have : (c, name, some j) ≠ (u, name, some (j + 1 + i)) := by
          intro h; simp only [Prod.mk.injEq, Option.some.injEq] at h; omega
        simp [this]

/-- one field -/
theorem pos_swap (fl : LField) (hwf : fl.wf) (u n : Nat) (idx : Option Nat) (he : (u, fl.name, idx) ∈ fl.pos) :
    ({ fl with kids := newKidsFor fl.kids idx n } : LField).pos =
      fl.pos.map (swapEntry (u, fl.name, idx) (n, fl.name, idx)) := by
  unfold LField.pos at he ⊢
  by_cases hs : fl.kind.isSeq = true
  · simp only [hs, if_true] at he ⊢
    obtain ⟨m, h1, _, _⟩ := posFrom_idx_ge fl.name fl.kids 0 _ he
    simp only at h1
    subst h1
    have := posFrom_swap fl.name u n fl.kids 0 m (by simpa using he)
    simpa [newKidsFor] using this
  · simp only [hs, Bool.false_eq_true, if_false] at he ⊢
    have hlen : fl.kids.length ≤ 1 := by
      rcases hwf with h | h
      · exact absurd h hs
      · exact h
    obtain ⟨c, hc, hce⟩ := List.mem_map.mp he
    simp only [Prod.mk.injEq] at hce
    obtain ⟨rfl, _, rfl⟩ := hce
    have hk : fl.kids = [c] := by
      match hkk : fl.kids, hc, hlen with
      | [x], hc, _ => simp at hc; rw [hc]
      | _ :: _ :: _, _, hl => simp at hl
    simp [newKidsFor, hk, swapEntry]

theorem pos_field_name (fl : LField) (e : Nat × Str × Option Nat) (he : e ∈ fl.pos) : e.2.1 = fl.name := by
  unfold LField.pos at he
  split at he
  · exact (posFrom_idx_ge _ _ _ _ he).choose_spec.2.2
  · obtain ⟨c, _, rfl⟩ := List.mem_map.mp he; rfl

/-- the whole object: `setattr(self, field.name, …)` swaps exactly the entry of the old child -/
theorem kidsPos_swap (o : LObj) (ho : o.wf) (u n : Nat) (f : Str) (idx : Option Nat)
    (he : (u, f, idx) ∈ o.kidsPos) (ks : List Nat)
    (hks : ∀ fl ∈ o.fields, fl.name = f → ks = newKidsFor fl.kids idx n) :
    ({ o with fields := o.fields.map fun fl => if fl.name = f then { fl with kids := ks } else fl } : LObj).kidsPos =
      o.kidsPos.map (swapEntry (u, f, idx) (n, f, idx)) := by
  unfold LObj.kidsPos at he ⊢
  obtain ⟨fl0, hfl0, he0⟩ := List.mem_flatMap.mp he
  have hn0 : fl0.name = f := (pos_field_name fl0 _ he0).symm
  simp only [List.flatMap_map, List.map_flatMap]
  apply flatMap_congr'
  intro fl hfl
  by_cases hname : fl.name = f
  · have : fl = fl0 := eq_of_nodup_map (·.name) o.fields ho.1 fl hfl fl0 hfl0 (hname.trans hn0.symm)
    subst this
    simp only [hname, if_true]
    rw [hks fl hfl hname]
    have := pos_swap fl (ho.2 fl hfl) u n idx (by rw [hname]; exact he0)
    rw [hname] at this
    exact this
  · simp only [hname, if_false]
    symm
    rw [List.map_congr_left, List.map_id]
    intro e he'
    have := pos_field_name fl e he'
    unfold swapEntry
    have hne : e ≠ (u, f, idx) := by
      intro h; rw [h] at this; exact hname this.symm
    simp [hne]

/-! ### closing the hole: `_replace_child(old, field, index, new)` with a new node -/

theorem fieldKids_eq {s : LState} {p : Nat} {f : Str} (ho : (s.obj p).wf) {fl : LField} (hfl : fl ∈ (s.obj p).fields)
    (hn : fl.name = f) : fieldKids s p f = fl.kids := by
  unfold fieldKids
  cases hf : (s.obj p).fields.find? (·.name = f) with
  | none =>
    have := List.find?_eq_none.mp hf fl hfl
    simp [hn] at this
  | some fl' =>
    have h1 := List.mem_of_find?_eq_some hf
    have h2 : fl'.name = f := by simpa using List.find?_some hf
    have : fl' = fl := eq_of_nodup_map (·.name) _ ho.1 fl' h1 fl hfl (h2.trans hn.symm)
    rw [this]

/-- the state after the field assignment and `new._set_parent(self, field, index)` -/
def swapped (s : LState) (p n : Nat) (f : Str) (idx : Option Nat) : LState :=
  (setField s p f (newKidsFor (fieldKids s p f) idx n)).setParent n p f idx

theorem ite_ne_swap {α β : Type} [DecidableEq α] (a b : α) (x y : β) :
    (if decide (a ≠ b) = true then x else y) = if a = b then y else x := by
  by_cases h : a = b <;> simp [h]

theorem replaceChild_some (fuel : Nat) (s : LState) (p u n : Nat) (f : Str) (idx : Option Nat) :
    replaceChild Hc fuel s p u f idx (some n) =
      if ((swapped s p n f idx).obj u).cid = ((swapped s p n f idx).obj n).cid
      then (swapped s p n f idx, true) else (swapped s p n f idx).resetContentId Hc fuel p := by
  unfold replaceChild swapped newKidsFor
  cases idx <;> simp only [Option.toList] <;> exact ite_ne_swap _ _ _ _

theorem swapped_obj (s : LState) (p n : Nat) (f : Str) (idx : Option Nat) (hnp : n ≠ p) (x : Nat) :
    (swapped s p n f idx).obj x =
      if x = n then { s.obj n with pid := some (s.idOf p), pfield := some f, pindex := idx }
      else if x = p then { s.obj p with fields := (s.obj p).fields.map fun fl =>
        if fl.name = f then { fl with kids := newKidsFor (fieldKids s p f) idx n } else fl }
      else s.obj x := by
  unfold swapped
  rw [setParent_obj]
  have hidp : (setField s p f (newKidsFor (fieldKids s p f) idx n)).idOf p = s.idOf p := by
    unfold LState.idOf setField; rw [modify_obj_same]
  by_cases hx : x = n
  · subst hx
    simp only [if_true, hidp]
    unfold setField; rw [modify_obj_ne _ _ _ _ hnp]
  · simp only [hx, if_false]
    unfold setField; rw [modify_obj]

/-- after the swap the invariant holds except, possibly, for the content id of the parent -/
theorem swapped_invX {s : LState} {p u n : Nat} {f : Str} {idx : Option Nat}
    (hI : InvX Hc (Hole p (u, f, idx)) NoY s) (hp : Att s p) (he : (u, f, idx) ∈ (s.obj p).kidsPos)
    (hn : Att s n) (hfree : ∀ q, Att s q → n ∉ (s.obj q).kidList) (hnp : n ≠ p) (hudet : ¬ Att s u) :
    InvX Hc NoX (fun x => x = p) (swapped s p n f idx) := by
  have hobj := swapped_obj s p n f idx hnp
  have hlk : ∀ k, (swapped s p n f idx).lookup k = s.lookup k := fun _ => rfl
  have hsz : (swapped s p n f idx).size = s.size := rfl
  have hid : ∀ x, (swapped s p n f idx).idOf x = s.idOf x := by
    intro x; unfold LState.idOf; rw [hobj]; split
    · next h => subst h; rfl
    · split
      · next h => subst h; rfl
      · rfl
  have hatt : ∀ x, Att (swapped s p n f idx) x ↔ Att s x := by intro x; unfold Att; rw [hid, hlk]
  have hslots : ∀ x, x ≠ n → ((swapped s p n f idx).obj x).pid = (s.obj x).pid ∧
      ((swapped s p n f idx).obj x).pfield = (s.obj x).pfield ∧
      ((swapped s p n f idx).obj x).pindex = (s.obj x).pindex := by
    intro x hx; rw [hobj]; simp only [hx, if_false]; split
    · next h => subst h; exact ⟨rfl, rfl, rfl⟩
    · exact ⟨rfl, rfl, rfl⟩
  have hcidall : ∀ x, ((swapped s p n f idx).obj x).cid = (s.obj x).cid := by
    intro x; rw [hobj]; split
    · next h => subst h; rfl
    · split
      · next h => subst h; rfl
      · rfl
  have hclsprops : ∀ x, ((swapped s p n f idx).obj x).cls = (s.obj x).cls ∧
      ((swapped s p n f idx).obj x).props = (s.obj x).props := by
    intro x; rw [hobj]; split
    · next h => subst h; exact ⟨rfl, rfl⟩
    · split
      · next h => subst h; exact ⟨rfl, rfl⟩
      · exact ⟨rfl, rfl⟩
  have hfl : ∀ x, x ≠ p → ((swapped s p n f idx).obj x).fields = (s.obj x).fields := by
    intro x hx; rw [hobj]; split
    · next h => subst h; rfl
    · simp [hx]
  have hkp : ∀ x, x ≠ p → ((swapped s p n f idx).obj x).kidsPos = (s.obj x).kidsPos := by
    intro x hx; unfold LObj.kidsPos; rw [hfl x hx]
  have hkpp : ((swapped s p n f idx).obj p).kidsPos =
      (s.obj p).kidsPos.map (swapEntry (u, f, idx) (n, f, idx)) := by
    rw [hobj]; simp only [Ne.symm hnp, if_false, if_true]
    exact kidsPos_swap (s.obj p) (hI.wf p) u n f idx he _
      (fun fl hfl hname => by rw [fieldKids_eq (hI.wf p) hfl hname])
  have hparp : s.lookup (s.idOf p) = some p := hp
  have hnu : n ≠ u := fun h => hudet (h ▸ hn)
  -- old entries of p other than the hole
  have old_entry : ∀ e', e' ∈ (s.obj p).kidsPos → e' ≠ (u, f, idx) → KidOk s p e' ∧ e'.1 ≠ n := by
    intro e' he' hne
    refine ⟨hI.down p hp e' he' (fun hx => hne hx.2), ?_⟩
    intro h
    exact hfree p hp (h ▸ (mem_kidList_iff _ _).mpr ⟨e', he', rfl⟩)
  refine ⟨?_, ?_, ?_, ?_, ?_, ?_, ?_, ?_⟩
  · intro k v hk
    obtain ⟨a, b⟩ := hI.regSound k v hk
    exact ⟨a, by rw [hid]; exact b⟩
  · -- down
    intro w hw e' he' _
    have hws := (hatt w).mp hw
    by_cases hwp : w = p
    · subst hwp
      rw [hkpp] at he'
      obtain ⟨e'', he'', hg⟩ := List.mem_map.mp he'
      unfold swapEntry at hg
      by_cases heq : e'' = (u, f, idx)
      · simp only [heq, if_true] at hg
        subst hg
        refine ⟨(hatt n).mpr hn, ?_, ?_, ?_⟩ <;> (rw [hobj]; simp [hid])
      · simp only [heq, if_false] at hg
        subst hg
        obtain ⟨⟨a, b, c, d⟩, hne⟩ := old_entry e'' he'' heq
        exact ⟨(hatt _).mpr a, by rw [(hslots _ hne).1, hid]; exact b, by rw [(hslots _ hne).2.1]; exact c,
          by rw [(hslots _ hne).2.2]; exact d⟩
    · rw [hkp w hwp] at he'
      obtain ⟨a, b, c, d⟩ := hI.down w hws e' he' (fun hx => hwp hx.1)
      have hne : e'.1 ≠ n := fun h => hfree w hws (h ▸ (mem_kidList_iff _ _).mpr ⟨e', he', rfl⟩)
      exact ⟨(hatt _).mpr a, by rw [(hslots _ hne).1, hid]; exact b, by rw [(hslots _ hne).2.1]; exact c,
        by rw [(hslots _ hne).2.2]; exact d⟩
  · -- up
    intro x hx q hq
    have hxs := (hatt x).mp hx
    unfold LState.parent at hq
    by_cases hxn : x = n
    · subst hxn
      rw [hobj] at hq ⊢
      simp only [if_true] at hq ⊢
      rw [hlk, hparp] at hq
      cases hq
      refine ⟨f, rfl, ?_⟩
      rw [hkpp]
      exact List.mem_map.mpr ⟨(u, f, idx), he, by simp [swapEntry]⟩
    · rw [(hslots x hxn).1] at hq
      rw [(hslots x hxn).2.1, (hslots x hxn).2.2]
      obtain ⟨f', hf', hm⟩ := hI.up x hxs q (by unfold LState.parent; exact hq)
      refine ⟨f', hf', ?_⟩
      by_cases hqp : q = p
      · subst hqp
        rw [hkpp]
        refine List.mem_map.mpr ⟨_, hm, ?_⟩
        unfold swapEntry
        have : (x, f', (s.obj x).pindex) ≠ (u, f, idx) := by
          intro h; simp only [Prod.mk.injEq] at h; exact hudet (h.1 ▸ hxs)
        simp [this]
      · rw [hkp q hqp]; exact hm
  · -- cid (everybody but p)
    intro x hx hy
    have hxs := (hatt x).mp hx
    rw [hcidall, hI.cid x hxs (fun h => h)]
    congr 1
    symm
    exact cidPre_congr (hclsprops x).1 (hclsprops x).2 (hfl x hy) (fun c _ => hcidall c)
  · -- noDangling
    intro x k hk
    by_cases hxn : x = n
    · subst hxn
      rw [hobj] at hk; simp only [if_true] at hk
      cases hk
      exact ⟨(hatt x).mpr hn, by rw [hlk, hparp]; rfl⟩
    · rw [(hslots x hxn).1] at hk
      obtain ⟨a, b⟩ := hI.noDangling x k hk
      exact ⟨(hatt x).mpr a, b⟩
  · -- closed
    intro v hv c hc
    show c < s.size
    have hv' : v < s.size := hv
    by_cases hvp : v = p
    · subst hvp
      obtain ⟨e', he', he1⟩ := (mem_kidList_iff _ _).mp hc
      rw [hkpp] at he'
      obtain ⟨e'', he'', hg⟩ := List.mem_map.mp he'
      unfold swapEntry at hg
      by_cases heq : e'' = (u, f, idx)
      · simp only [heq, if_true] at hg
        rw [← he1, ← hg]; exact att_lt hI hn
      · simp only [heq, if_false] at hg
        rw [← he1, ← hg]
        exact hI.closed v hv' _ ((mem_kidList_iff _ _).mpr ⟨e'', he'', rfl⟩)
    · have : ((swapped s p n f idx).obj v).kidList = (s.obj v).kidList := by
        unfold LObj.kidList; rw [hfl v hvp]
      rw [this] at hc
      exact hI.closed v hv' c hc
  · -- noSelf
    intro x hx
    unfold LState.parent at hx
    by_cases hxn : x = n
    · subst hxn
      rw [hobj] at hx; simp only [if_true] at hx
      rw [hlk, hparp] at hx
      exact hnp (Option.some.inj hx).symm
    · rw [(hslots x hxn).1] at hx
      exact hI.noSelf x (by unfold LState.parent; exact hx)
  · -- wf
    intro v
    by_cases hvp : v = p
    · subst hvp
      rw [hobj]; simp only [Ne.symm hnp, if_false, if_true]
      obtain ⟨h1, h2⟩ := hI.wf v
      constructor
      · simp only [List.map_map]
        have : (List.map ((fun x => x.name) ∘ fun fl => if fl.name = f then
            { fl with kids := newKidsFor (fieldKids s v f) idx n } else fl) (s.obj v).fields) =
            (s.obj v).fields.map (·.name) := by
          apply List.map_congr_left
          intro fl _
          simp only [Function.comp]
          split <;> rfl
        rw [this]; exact h1
      · intro fl' hfl'
        obtain ⟨fl, hfl, hfe⟩ := List.mem_map.mp hfl'
        by_cases hname : fl.name = f
        · simp only [hname, if_true] at hfe
          subst hfe
          rcases h2 fl hfl with hs | hs
          · exact .inl hs
          · -- a single field: the old child sits there with index None
            obtain ⟨fl0, hfl0, he0⟩ := List.mem_flatMap.mp he
            have hn0 : fl0.name = f := (pos_field_name fl0 _ he0).symm
            have hfe : fl = fl0 := eq_of_nodup_map (·.name) _ h1 fl hfl fl0 hfl0 (hname.trans hn0.symm)
            subst hfe
            by_cases hseq : fl.kind.isSeq = true
            · exact .inl hseq
            · right
              unfold LField.pos at he0
              simp only [hseq, Bool.false_eq_true, if_false] at he0
              obtain ⟨c, _, hce⟩ := List.mem_map.mp he0
              simp only [Prod.mk.injEq] at hce
              rw [← hce.2.2]
              simp [newKidsFor]
        · simp only [hname, if_false] at hfe
          subst hfe
          exact h2 fl hfl
    · unfold LObj.wf; rw [hfl v hvp]; exact hI.wf v

/-- if the new child has the content id of the old one, the parent's content id is still right -/
theorem swapped_cid_parent {s : LState} {p u n : Nat} {f : Str} {idx : Option Nat}
    (hI : InvX Hc (Hole p (u, f, idx)) NoY s) (hp : Att s p) (he : (u, f, idx) ∈ (s.obj p).kidsPos)
    (hnp : n ≠ p) (hcid : (s.obj u).cid = (s.obj n).cid) :
    ((swapped s p n f idx).obj p).cid = Hc (cidPre (swapped s p n f idx) ((swapped s p n f idx).obj p)) := by
  have hobj := swapped_obj s p n f idx hnp
  have hcidall : ∀ x, ((swapped s p n f idx).obj x).cid = (s.obj x).cid := by
    intro x; rw [hobj]; split
    · next h => subst h; rfl
    · split
      · next h => subst h; rfl
      · rfl
  have hkpp : ((swapped s p n f idx).obj p).kidsPos =
      (s.obj p).kidsPos.map (swapEntry (u, f, idx) (n, f, idx)) := by
    rw [hobj]; simp only [Ne.symm hnp, if_false, if_true]
    exact kidsPos_swap (s.obj p) (hI.wf p) u n f idx he _
      (fun fl hfl hname => by rw [fieldKids_eq (hI.wf p) hfl hname])
  have hcp : ((swapped s p n f idx).obj p).cls = (s.obj p).cls ∧ ((swapped s p n f idx).obj p).props = (s.obj p).props := by
    rw [hobj]; simp only [Ne.symm hnp, if_false, if_true]; simp
  rw [hcidall, hI.cid p hp (fun h => h)]
  congr 1
  unfold cidPre kidsText
  rw [hcp.1, hcp.2, hkpp]
  congr 1
  unfold sortByName
  have hname : (fun a b : Nat × Str × Option Nat =>
      strLt (swapEntry (u, f, idx) (n, f, idx) a).2.1 (swapEntry (u, f, idx) (n, f, idx) b).2.1) =
      (fun a b => strLt a.2.1 b.2.1) := by
    funext a b
    have : ∀ e : Nat × Str × Option Nat, (swapEntry (u, f, idx) (n, f, idx) e).2.1 = e.2.1 := by
      intro e; unfold swapEntry; split
      · next h => rw [h]
      · rfl
    rw [this a, this b]
  rw [sortBy_map (swapEntry (u, f, idx) (n, f, idx)) (fun a b => strLt a.2.1 b.2.1), hname, List.flatMap_map]
  apply flatMap_congr'
  intro e _
  unfold swapEntry
  by_cases heq : e = (u, f, idx)
  · simp only [heq, if_true]
    rw [hcidall, hcid]
  · simp only [heq, if_false]
    rw [hcidall]

/-- **`_replace_child` with a new node** closes the hole and, walking up, repairs the content ids -/
theorem replaceChild_some_inv {s s' : LState} {p u n fuel : Nat} {f : Str} {idx : Option Nat}
    (hI : InvX Hc (Hole p (u, f, idx)) NoY s) (hp : Att s p) (he : (u, f, idx) ∈ (s.obj p).kidsPos)
    (hn : Att s n) (hfree : ∀ q, Att s q → n ∉ (s.obj q).kidList) (hnp : n ≠ p) (hudet : ¬ Att s u)
    (h : replaceChild Hc fuel s p u f idx (some n) = (s', true)) : Inv Hc s' := by
  rw [replaceChild_some] at h
  have h1 := swapped_invX Hc hI hp he hn hfree hnp hudet
  have hobj := swapped_obj s p n f idx hnp
  have hcidall : ∀ x, ((swapped s p n f idx).obj x).cid = (s.obj x).cid := by
    intro x; rw [hobj]; split
    · next h => subst h; rfl
    · split
      · next h => subst h; rfl
      · rfl
  split at h
  · next hc =>
    simp only [Prod.mk.injEq, and_true] at h
    subst h
    rw [hcidall, hcidall] at hc
    have hcp := swapped_cid_parent Hc hI hp he hnp hc
    exact ⟨h1.regSound, h1.down, h1.up,
      fun x hx _ => by
        by_cases hxp : x = p
        · subst hxp; exact hcp
        · exact h1.cid x hx hxp,
      h1.noDangling, h1.closed, h1.noSelf, h1.wf⟩
  · exact resetContentId_inv Hc fuel _ p s' h1 h

/-! ### `replace(**changes)` on a receiver that has a parent -/

theorem chooseId_explicit {s0 : LState} {u : Nat} {n : NewSpec} {k : Str} (hk : n.idArg = some k)
    (hdet : n.createDetached = false) (hfree : s0.lookup k = none) {nid : Str} {coll orig : Option Str}
    (h : chooseId H s0 u n = .ok (nid, coll, orig)) : nid = k := by
  unfold chooseId at h
  simp only [hk, hdet, Bool.false_eq_true, if_false, hfree, Option.isSome_none] at h
  simp only [Except.ok.injEq, Prod.mk.injEq] at h
  exact h.1.symm

theorem replace_inv_parent {s s' : LState} {u p n fuel : Nat} {ch : Changes} (hI : Inv Hc s) (hu : u < s.size)
    (hpar : s.parent u = some p) (hrefs : ∀ c ∈ ch.fields.flatMap (·.2), c < s.size) (hwf : ch.wfFor (s.obj u))
    (h : replace H Hc fuel s u ch = (s', .ok n)) : Inv Hc s' := by
  -- the receiver is attached, stored in p at (f, index)
  have hua : Att s u := by
    unfold LState.parent at hpar
    cases hk : (s.obj u).pid with
    | none => rw [hk] at hpar; cases hpar
    | some k => exact (hI.noDangling u k hk).1
  obtain ⟨f, hf, hmem⟩ := hI.up u hua p hpar
  have hpa : Att s p := by
    unfold LState.parent at hpar
    cases hk : (s.obj u).pid with
    | none => rw [hk] at hpar; cases hpar
    | some k =>
      rw [hk] at hpar
      obtain ⟨_, hid⟩ := hI.regSound k p hpar
      unfold Att; rw [hid]; exact hpar
  have hpu : p ≠ u := fun h => hI.noSelf u (h ▸ hpar)
  have hps : p < s.size := att_lt hI hpa
  unfold replace at h
  split at h
  · simp at h
  · simp only [hpar, Option.isSome_some, if_true, hf, Option.getD_some] at h
    -- 1. clear the parent link: the hole opens
    have hI1 := clearParent_invX Hc hI hua hpar hf
    have ha1 : Att (s.clearParent u) u := (att_clearParent_iff s u u).mpr hua
    have hr1 : (s.clearParent u).parent u = none := by
      unfold LState.parent; rw [clearParent_obj']; simp [clearP]
    have hd1 : (s.clearParent u).detached u = false := (detached_eq_false_iff _ _).mpr ha1
    simp only [hd1, Bool.not_false, if_true] at h
    -- 2. detach_self
    have hds := detach_self_eq (fuel := fuel) ha1 hr1
    rw [hds] at h
    simp only at h
    generalize hs2 : (((s.clearParent u).obj u).kidList.foldl LState.clearParent (s.clearParent u)).unregister
      ((s.clearParent u).idOf u) = s2 at h hds
    have hF := detachGo_facts (fuel + 1) true (s.clearParent u) u true (by rw [hds])
    rw [hds] at hF
    have hS : Shrinks (s.clearParent u) s2 := hF.shr
    have hlk2 : ∀ k, s2.lookup k = if s.idOf u = k then none else s.lookup k := by
      intro k; rw [← hs2, unregister_lookup, foldl_clearParent_lookup, clearParent_idOf, clearParent_lookup]
    have hid2 : ∀ x, s2.idOf x = s.idOf x := by intro x; rw [hS.id_eq, clearParent_idOf]
    have hfl2 : ∀ x, (s2.obj x).fields = (s.obj x).fields := by
      intro x; rw [hS.fields_eq]; rw [clearParent_obj']; split
      · next hx => subst hx; rfl
      · rfl
    have hsz2 : s2.size = s.size := by rw [hS.size]; rfl
    have hpa2 : Att s2 p := by
      unfold Att; rw [hid2, hlk2]
      have : s.idOf u ≠ s.idOf p := fun e => hpu (att_inj hua hpa e).symm
      simp only [this, if_false]; exact hpa
    have hI2 : InvX Hc (Hole p (u, f, (s.obj u).pindex)) NoY s2 := by
      refine detachGo_invX Hc hI1 hds ?_
      intro q e hx hun
      rw [hx.1] at hun
      exact hun.2 hpa2
    have hureg2 : s2.lookup (s.idOf u) = none := by rw [hlk2]; simp
    -- 3. the new node
    split at h
    · simp at h
    · next s3 n0 hc =>
      have hid2u : (s2.obj u).id = s.idOf u := hid2 u
      -- name the specification of the new node
      obtain ⟨sp, hsp1, hsp2, hsp3, hc⟩ : ∃ sp : NewSpec, sp.idArg = some (s2.obj u).id ∧
          sp.createDetached = false ∧ sp.fields = applyFields (s2.obj u).fields ch.fields ∧
          construct H Hc fuel s2 sp = (s3, .ok n0) := ⟨_, rfl, rfl, rfl, hc⟩
      have hkids : ∀ c ∈ sp.fields.flatMap (·.kids), c < s2.size := by
        intro c hc'
        rw [hsz2]
        rw [hsp3] at hc'
        obtain ⟨fl, hfl, hcf⟩ := List.mem_flatMap.mp hc'
        unfold applyFields at hfl
        obtain ⟨f0, hf0, rfl⟩ := List.mem_map.mp hfl
        split at hcf
        · next nm ks hfind =>
          exact hrefs c (List.mem_flatMap.mpr ⟨(nm, ks), List.mem_of_find?_eq_some hfind, hcf⟩)
        · have : c ∈ (s.obj u).kidList := by
            unfold LObj.kidList
            rw [← hfl2 u]
            exact List.mem_flatMap.mpr ⟨f0, hf0, hcf⟩
          exact hI.closed u hu c this
      have hwf2 : ch.wfFor (s2.obj u) := by unfold Changes.wfFor; rw [hfl2 u]; exact hwf
      have hchoose : ∀ nid coll orig, chooseId H (s2.alloc (newObj sp)).1 s2.size sp = .ok (nid, coll, orig) →
          nid = s.idOf u := by
        intro nid coll orig hch
        have := chooseId_explicit H hsp1 hsp2 (by
          show s2.lookup (s2.obj u).id = none
          rw [hid2u]; exact hureg2) hch
        rw [this]; exact hid2u
      obtain ⟨hI3, hn0, hsz3, hatt3, hg3, hnid⟩ := construct_invX H Hc hI2 hkids
        (applyFields_wf (hI2.wf u) hwf2 sp hsp3)
        (by
          intro q e hx
          rw [hx.2]
          refine ⟨by rw [hsz2]; exact hu, ?_⟩
          intro nid coll orig hch
          rw [hchoose nid coll orig hch]; exact hid2 u)
        (fun h => h) hc
      have hn3 : Att s3 n0 := hatt3 hsp2
      -- the id of the new node is the id of the receiver
      have hidn : s3.idOf n0 = s.idOf u := by
        obtain ⟨nid, coll, orig, hch⟩ := construct_ok_chooseId H Hc hc
        rw [hn0, hnid nid coll orig hch]; exact hchoose nid coll orig hch
      have hups : u < s2.size := by rw [hsz2]; exact hu
      have hpps : p < s2.size := by rw [hsz2]; exact hps
      have hpa3 : Att s3 p := by
        unfold Att; rw [(hg3.same p hpps).1]; exact hg3.reg _ _ hpa2
      have hmem3 : (u, f, (s.obj u).pindex) ∈ (s3.obj p).kidsPos := by
        unfold LObj.kidsPos; rw [(hg3.same p hpps).2, hfl2 p]; exact hmem
      have hudet3 : ¬ Att s3 u := by
        intro hua3
        have : s3.idOf u = s3.idOf n0 := by rw [hidn, (hg3.same u hups).1, hid2]
        have := att_inj hua3 hn3 this
        rw [hn0] at this; omega
      have hnp : n0 ≠ p := by rw [hn0]; omega
      have hfree3 : ∀ q, Att s3 q → n0 ∉ (s3.obj q).kidList := by
        intro q hq hmemq
        by_cases hqn : q = n0
        · subst hqn
          obtain ⟨e, he, he1⟩ := (mem_kidList_iff _ _).mp hmemq
          obtain ⟨_, b, _, _⟩ := hI3.down q hq e he (fun hx => hnp hx.1)
          rw [he1] at b
          apply hI3.noSelf q
          unfold LState.parent; rw [b]; exact hq
        · have hq3 : q < s3.size := att_lt hI3 hq
          have hq2 : q < s2.size := by rw [hsz3] at hq3; rw [hn0] at hqn; omega
          have : (s3.obj q).kidList = (s2.obj q).kidList := by unfold LObj.kidList; rw [(hg3.same q hq2).2]
          rw [this] at hmemq
          have := hI2.closed q hq2 n0 hmemq
          rw [hn0] at this; omega
      -- 4. `_replace_child` closes the hole, 5. the bookkeeping fields
      cases hrc : replaceChild Hc fuel s3 p u f (s.obj u).pindex (some n0) with
      | mk s4 fin =>
        rw [hrc] at h
        simp only at h
        cases fin with
        | false => simp at h
        | true =>
          simp only [if_true, Prod.mk.injEq, Except.ok.injEq] at h
          obtain ⟨rfl, _⟩ := h
          have hI4 := replaceChild_some_inv Hc hI3 hpa3 hmem3 hn3 hfree3 hnp hudet3 hrc
          exact inv_modify_meta Hc hI4 n0 _ _

/-! ### `replace_with(new)` on a receiver that has a parent, `new` a detached node -/

/-- Hypothesis `hacyc`: the parent is not a descendant of the receiver (no cycle through the
receiver).  On a cyclic heap the `detach` of the receiver's subtree would run into the parent. -/
theorem replaceWith_inv_parent_some {s s' : LState} {u p n fuel : Nat} (hI : Inv Hc s) (hu : u < s.size)
    (hn : n < s.size) (hpar : s.parent u = some p) (hnd : s.detached n = true) (hacyc : ¬ Desc s u p)
    (h : replaceWith Hc fuel s u (some n) = (s', .ok ())) : Inv Hc s' := by
  have hua : Att s u := by
    unfold LState.parent at hpar
    cases hk : (s.obj u).pid with
    | none => rw [hk] at hpar; cases hpar
    | some k => exact (hI.noDangling u k hk).1
  obtain ⟨f, hf, hmem⟩ := hI.up u hua p hpar
  have hpa : Att s p := by
    unfold LState.parent at hpar
    cases hk : (s.obj u).pid with
    | none => rw [hk] at hpar; cases hpar
    | some k =>
      rw [hk] at hpar
      obtain ⟨_, hid⟩ := hI.regSound k p hpar
      unfold Att; rw [hid]; exact hpar
  have hps : p < s.size := att_lt hI hpa
  have hnatt : ¬ Att s n := (detached_eq_true_iff _ _).mp hnd
  have hnu : n ≠ u := fun e => hnatt (e ▸ hua)
  have hnp : n ≠ p := fun e => hnatt (e ▸ hpa)
  unfold replaceWith at h
  have hsub : s.isAttachedSubtree n = false := by simp [LState.isAttachedSubtree, hnd]
  simp only [hsub, Bool.false_eq_true, if_false, hpar, hf] at h
  split at h
  · simp at h
  · split at h
    · simp at h
    · -- 1. the hole opens, 2. the receiver's subtree is detached
      have hI1 := clearParent_invX Hc hI hua hpar hf
      have ha1 : Att (s.clearParent u) u := (att_clearParent_iff s u u).mpr hua
      cases hds : detachGo (fuel + 1) false (s.clearParent u) u with
      | mk s2 res =>
        rw [hds] at h
        cases res with
        | none => simp at h
        | some b =>
          simp only at h
          have hF := detachGo_facts (fuel + 1) false (s.clearParent u) u b (by rw [hds])
          rw [hds] at hF
          have hS : Shrinks (s.clearParent u) s2 := hF.shr
          have hDesc := detachGo_desc (fuel + 1) false (s.clearParent u) u b (by rw [hds])
          rw [hds] at hDesc
          have hkl1 : ∀ v, ((s.clearParent u).obj v).kidList = (s.obj v).kidList :=
            (shrinks_clearParent s u).kidList_eq
          have hpa2 : Att s2 p := by
            apply Classical.byContradiction; intro hnp2
            have := hDesc p ⟨(att_clearParent_iff s u p).mpr hpa, hnp2⟩
            exact hacyc (this.congr (fun v => (hkl1 v).symm))
          have hI2 : InvX Hc (Hole p (u, f, (s.obj u).pindex)) NoY s2 :=
            detachGo_invX Hc hI1 hds (fun q e hx hun => by rw [hx.1] at hun; exact hun.2 hpa2)
          have hid2 : ∀ x, s2.idOf x = s.idOf x := by intro x; rw [hS.id_eq, clearParent_idOf]
          have hfl2 : ∀ x, (s2.obj x).fields = (s.obj x).fields := by
            intro x; rw [hS.fields_eq]; rw [clearParent_obj']; split
            · next hx => subst hx; rfl
            · rfl
          have hsz2 : s2.size = s.size := by rw [hS.size]; rfl
          have hnatt2 : ¬ Att s2 n := fun h2 => hnatt ((att_clearParent_iff s u n).mp (hS.att h2))
          -- the receiver itself is detached now
          have huatt2 : ¬ Att s2 u := by
            unfold detachGo at hds
            have hd1 : (s.clearParent u).detached u = false := (detached_eq_false_iff _ _).mpr ha1
            have hr1 : (s.clearParent u).isAttachedRoot u = true := by
              unfold LState.isAttachedRoot LState.parent
              rw [clearParent_obj']; simp [clearP, hd1]
            simp only [hd1, Bool.false_eq_true, if_false, hr1, Bool.not_true] at hds
            split at hds
            · cases hds
            · next t heq =>
              simp only [Prod.mk.injEq] at hds
              rw [← hds.1]
              unfold Att; rw [unregister_idOf, unregister_lookup]; simp
          -- 3. the new node takes the id of the receiver (it is detached: only its own record changes)
          have hdet2 : s2.detached n = true := (detached_eq_true_iff _ _).mpr hnatt2
          have hto : takeOver s2 u n = (s2.modify n (fun x => { x with origId := some x.id, id := s2.idOf u }), false) := by
            unfold takeOver; simp [hdet2]
          rw [hto] at h
          simp only at h
          have hreg2 : ∀ k, s2.lookup k ≠ some n := by
            intro k hk
            have := (hI2.regSound k n hk).2
            apply hnatt2; unfold Att; rw [this]; exact hk
          have hpid2 : (s2.obj n).pid = none := by
            cases hk : (s2.obj n).pid with
            | none => rfl
            | some k => exact absurd (hI2.noDangling n k hk).1 hnatt2
          have hI3 := inv_modify_unregistered Hc hI2 hreg2
            (fun x => { x with origId := some x.id, id := s2.idOf u }) (.inr rfl) hpid2 (hI2.wf n)
            (fun q e hx => by rw [hx.2]; exact fun e' => hnu e'.symm)
          generalize hs3 : s2.modify n (fun x => { x with origId := some x.id, id := s2.idOf u }) = s3 at h hI3
          have hobj3 : ∀ x, x ≠ n → s3.obj x = s2.obj x := by
            intro x hx; rw [← hs3]; exact modify_obj_ne _ _ _ _ hx
          have hidn3 : s3.idOf n = s2.idOf u := by rw [← hs3]; unfold LState.idOf; rw [modify_obj_same]
          have hlk3 : ∀ k, s3.lookup k = s2.lookup k := by intro k; rw [← hs3]; rfl
          have hsz3 : s3.size = s2.size := by rw [← hs3]; rfl
          have hpid3 : (s3.obj n).pid = none := by rw [← hs3, modify_obj_same]; exact hpid2
          have hidu3 : s3.idOf u = s2.idOf u := by unfold LState.idOf; rw [hobj3 u (Ne.symm hnu)]
          -- 4. attach it
          cases hat : attach Hc fuel s3 n with
          | mk s4 r4 =>
            rw [hat] at h
            cases r4 with
            | error e =>
              exfalso
              simp only at h
              split at h <;> simp at h
            | ok x =>
              cases x
              simp only at h
              obtain ⟨hI4, hn4, hsz4, hg4, hpid4⟩ := attach_invX Hc hI3 (by rw [hsz3, hsz2]; exact hn)
                (fun q e hx => by rw [hx.2]; exact ⟨Ne.symm hnu, by rw [hidu3, hidn3]⟩) hat
              have hups : u < s3.size := by rw [hsz3, hsz2]; exact hu
              have hpps : p < s3.size := by rw [hsz3, hsz2]; exact hps
              have hpa3 : Att s3 p := by
                unfold Att; unfold LState.idOf; rw [hobj3 p (Ne.symm hnp), hlk3]; exact hpa2
              have hpa4 : Att s4 p := by unfold Att; rw [(hg4.same p hpps).1]; exact hg4.reg _ _ hpa3
              have hmem4 : (u, f, (s.obj u).pindex) ∈ (s4.obj p).kidsPos := by
                unfold LObj.kidsPos; rw [(hg4.same p hpps).2, hobj3 p (Ne.symm hnp), hfl2 p]; exact hmem
              have hudet4 : ¬ Att s4 u := by
                intro hu4
                have : s4.idOf u = s4.idOf n := by
                  rw [(hg4.same u hups).1, (hg4.same n (by rw [hsz3, hsz2]; exact hn)).1, hidu3, hidn3]
                exact hnu (att_inj hu4 hn4 this).symm
              have hfree4 : ∀ q, Att s4 q → n ∉ (s4.obj q).kidList := by
                intro q hq hmemq
                obtain ⟨e, he, he1⟩ := (mem_kidList_iff _ _).mp hmemq
                obtain ⟨_, b', _, _⟩ := hI4.down q hq e he (fun hx => by
                  have := hx.2; rw [this] at he1; exact hnu he1.symm)
                rw [he1, hpid4, hpid3] at b'
                cases b'
              cases hrc : replaceChild Hc fuel s4 p u f (s.obj u).pindex (some n) with
              | mk s5 fin =>
                rw [hrc] at h
                cases fin with
                | false => simp at h
                | true =>
                  simp only [if_true, Prod.mk.injEq, and_true] at h
                  subst h
                  exact replaceChild_some_inv Hc hI4 hpa4 hmem4 hn4 hfree4 hnp hudet4 hrc

end

end PyOak.Legacy
