import PyOak.Props.C02
import PyOak.Props.C02Laws
