/-
C08: the inductive relation `Matches` (Spec/PatternRel.lean, one rule per clause of the property text)
is equivalent to the functional specification `specPat` (Spec/Pattern.lean), hence — through
`C08.run_eq_spec` — to the matcher graph the interpreter builds:

 * `matches_iff`       : `specPat S p v ctx = .ok (some caps) ↔ Matches S p v ctx caps`  (no hypothesis);
 * `matches_unique`    : the captures of a match are determined;
 * `no_match_iff`      : where the specification raises no definition error, `.ok none ↔ ¬ ∃ caps, Matches …`;
 * `match_iff_matches` : **`matcher.match(node)` succeeds with `caps` exactly when `Matches p node {} caps`**,
 * `nomatch_iff_matches`: **and returns `(False, {})` exactly when no derivation exists** — for every
                          pattern the interpreter accepts (no unbound variable: `C08.no_unbound`).
-/
import PyOak.Props.C08
import PyOak.Spec.PatternRel
namespace PyOak
namespace C08
open PM

mutual
theorem pat_rel (S : Sem) : ∀ (p : Pat) (v : MVal) (ctx caps : Ctx),
    specPat S p v ctx = .ok (some caps) ↔ Matches S p v ctx caps
  | .mk cls fields, v, ctx, caps => by
    constructor
    · intro h
      cases v with
      | node n =>
        simp only [specPat] at h
        split at h
        · rename_i hc; exact .tree hc ((fields_rel S fields n ctx caps).1 h)
        · cases h
      | tup xs => simp [specPat] at h
      | atom t a => simp [specPat] at h
      | none => simp [specPat] at h
    · intro h
      cases h with
      | tree hc hf =>
        simp only [specPat, hc, if_true]
        exact (fields_rel S fields _ ctx caps).2 hf
theorem fields_rel (S : Sem) : ∀ (fs : Fields) (n : Node) (ctx caps : Ctx),
    specFields S fs n ctx = .ok (some caps) ↔ MatchesFields S fs n ctx caps
  | .nil, n, ctx, caps => by
    constructor
    · intro h
      simp only [specFields] at h
      injection h with h; injection h with h; subst h
      exact .nil
    · intro h; cases h; rfl
  | .cons f spec cap rest, n, ctx, caps => by
    constructor
    · intro h
      simp only [specFields] at h
      split at h
      · cases h
      rename_i fv hg
      split at h
      · cases h
      · cases h
      rename_i c0 h0
      split at h
      · cases h
      · cases h
      rename_i c2 h2
      injection h with h; injection h with h; subst h
      exact .cons hg ((fspec_rel S spec fv ctx c0).1 h0) ((fields_rel S rest n _ c2).1 h2)
    · intro h
      cases h with
      | cons hg h0 h2 =>
        have e0 := (fspec_rel S spec _ ctx _).2 h0
        have e2 := (fields_rel S rest n _ _).2 h2
        simp only [specFields, hg, e0, e2]
theorem fspec_rel (S : Sem) : ∀ (spec : FSpec) (v : MVal) (ctx caps : Ctx),
    specFSpec S spec v ctx = .ok (some caps) ↔ MatchesFSpec S spec v ctx caps
  | .any, v, ctx, caps => by
    constructor
    · intro h
      simp only [specFSpec] at h
      injection h with h; injection h with h; subst h
      exact .any
    · intro h; cases h; rfl
  | .val pv, v, ctx, caps => by
    constructor
    · intro h
      simp only [specFSpec] at h
      exact .val ((val_rel S pv v ctx caps).1 h)
    · intro h
      cases h with
      | val hv => simp only [specFSpec]; exact (val_rel S pv v ctx caps).2 hv
  | .seq items tail, v, ctx, caps => by
    constructor
    · intro h
      cases v with
      | tup xs =>
        cases tail with
        | none =>
          simp only [specFSpec] at h
          split at h
          · rename_i hl; exact .seqExact hl ((items_rel S items xs ctx caps).1 h)
          · cases h
        | some tcap =>
          simp only [specFSpec] at h
          split at h
          · rename_i hl
            split at h
            · cases h
            · cases h
            rename_i c hc
            injection h with h; injection h with h; subst h
            exact .seqTail hl ((items_rel S items xs ctx c).1 hc)
          · cases h
      | node n => simp [specFSpec] at h
      | atom t a => simp [specFSpec] at h
      | none => simp [specFSpec] at h
    · intro h
      cases h with
      | seqExact hl hi =>
        simp only [specFSpec, hl, if_true]
        exact (items_rel S items _ ctx caps).2 hi
      | seqTail hl hi =>
        have e := (items_rel S items _ ctx _).2 hi
        simp only [specFSpec, hl, if_true, e]
theorem items_rel (S : Sem) : ∀ (items : Items) (xs : List MVal) (ctx caps : Ctx),
    specItems S items xs ctx = .ok (some caps) ↔ MatchesItems S items xs ctx caps
  | .nil, xs, ctx, caps => by
    constructor
    · intro h
      simp only [specItems] at h
      injection h with h; injection h with h; subst h
      exact .nil
    · intro h; cases h; rfl
  | .cons pv cap rest, [], ctx, caps => by
    constructor
    · intro h; simp [specItems] at h
    · intro h; cases h
  | .cons pv cap rest, x :: xs, ctx, caps => by
    constructor
    · intro h
      simp only [specItems] at h
      split at h
      · cases h
      · cases h
      rename_i c0 h0
      split at h
      · cases h
      · cases h
      rename_i c2 h2
      injection h with h; injection h with h; subst h
      exact .cons ((val_rel S pv x ctx c0).1 h0) ((items_rel S rest xs _ c2).1 h2)
    · intro h
      cases h with
      | cons h0 h2 =>
        have e0 := (val_rel S pv x ctx _).2 h0
        have e2 := (items_rel S rest xs _ _).2 h2
        simp only [specItems, e0, e2]
theorem val_rel (S : Sem) : ∀ (pv : PVal) (v : MVal) (ctx caps : Ctx),
    specVal S pv v ctx = .ok (some caps) ↔ MatchesVal S pv v ctx caps
  | .tree p, v, ctx, caps => by
    constructor
    · intro h
      simp only [specVal] at h
      exact .tree ((pat_rel S p v ctx caps).1 h)
    · intro h
      cases h with
      | tree hp => simp only [specVal]; exact (pat_rel S p v ctx caps).2 hp
  | .var x, v, ctx, caps => by
    constructor
    · intro h
      simp only [specVal] at h
      split at h
      · cases h
      rename_i cv hl
      split at h
      · rename_i he
        injection h with h; injection h with h; subst h
        exact .var hl he
      · injection h with h; cases h
    · intro h
      cases h with
      | var hl he => simp only [specVal, hl, he, if_true]
  | .none, v, ctx, caps => by
    constructor
    · intro h
      simp only [specVal] at h
      split at h
      · rename_i he
        injection h with h; injection h with h; subst h
        exact .none he
      · injection h with h; cases h
    · intro h
      cases h with
      | none he => simp only [specVal, he, if_true]
  | .re s, v, ctx, caps => by
    constructor
    · intro h
      simp only [specVal] at h
      split at h
      · rename_i he
        injection h with h; injection h with h; subst h
        exact .re he
      · injection h with h; cases h
    · intro h
      cases h with
      | re he => simp only [specVal, he, if_true]
end

/-- **functional specification = inductive relation** -/
theorem matches_iff (S : Sem) (p : Pat) (v : MVal) (ctx caps : Ctx) :
    specPat S p v ctx = .ok (some caps) ↔ Matches S p v ctx caps := pat_rel S p v ctx caps

/-- the captures of a match are determined by pattern, value and context -/
theorem matches_unique (S : Sem) (p : Pat) (v : MVal) (ctx c1 c2 : Ctx)
    (h1 : Matches S p v ctx c1) (h2 : Matches S p v ctx c2) : c1 = c2 := by
  have e1 := (matches_iff S p v ctx c1).2 h1
  have e2 := (matches_iff S p v ctx c2).2 h2
  rw [e1] at e2
  injection e2 with e2; injection e2

/-- where no definition error arises, "does not match" = "no derivation" -/
theorem no_match_iff (S : Sem) (p : Pat) (v : MVal) (ctx : Ctx) (r : Option Ctx)
    (h : specPat S p v ctx = .ok r) : r = none ↔ ¬ ∃ caps, Matches S p v ctx caps := by
  constructor
  · rintro rfl ⟨caps, hm⟩
    have := (matches_iff S p v ctx caps).2 hm
    rw [h] at this; injection this with this; cases this
  · intro hn
    cases r with
    | none => rfl
    | some caps => exact absurd ⟨caps, (matches_iff S p v ctx caps).1 h⟩ hn

/-- **`matcher.match(node) = (True, caps)` exactly when the pattern `Matches` the node with `caps`** -/
theorem match_iff_matches (K : CEnv) (S : Sem) (p : Pat) (m : Matcher) (h : compile K p = .ok m) (n : Node) (caps : Ctx) :
    matchNode S m n = .ok (true, caps) ↔ Matches S p (.node n) [] caps := by
  rw [match_iff K S p m h n caps, specMatch, matches_iff]

/-- **`matcher.match(node) = (False, {})` exactly when no derivation exists**; and these are the only two
outcomes (no definition error at match time) -/
theorem nomatch_iff_matches (K : CEnv) (S : Sem) (p : Pat) (m : Matcher) (h : compile K p = .ok m) (n : Node) :
    (matchNode S m n = .ok (false, []) ↔ ¬ ∃ caps, Matches S p (.node n) [] caps)
    ∧ ((∃ caps, matchNode S m n = .ok (true, caps)) ∨ matchNode S m n = .ok (false, [])) := by
  obtain ⟨r, hr, hm⟩ := no_unbound K S p m h n
  have hiff := no_match_iff S p (.node n) [] r hr
  cases r with
  | none =>
    refine ⟨⟨fun _ => hiff.1 rfl, fun _ => hm⟩, Or.inr hm⟩
  | some caps =>
    refine ⟨⟨fun hf => ?_, fun hn => ?_⟩, Or.inl ⟨caps, hm⟩⟩
    · rw [hm] at hf; simp [specRes] at hf
    · exact absurd (hiff.2 hn) (by simp)

/-! ### non-vacuity -/
section Examples
-- `(T @i=[*] -> c)` against `T(i=(L1, L2))`: a derivation, built rule by rule
example : Matches exS exP8 (.node (exTup [exLeaf 1, exLeaf 2])) []
    [(['c'], .tup [.node (exLeaf 1), .node (exLeaf 2)])] :=
  .tree (by decide)
    (.cons (fv := .tup [.node (exLeaf 1), .node (exLeaf 2)]) (c0 := []) (c2 := []) (by rfl)
      (.seqTail (c := []) (by decide) .nil) .nil)
-- `(T @i=[(L) (L) *])` does not match `T(i=(L1,))`: no derivation
example : ¬ ∃ caps, Matches exS exP7 (.node (exTup [exLeaf 1])) [] caps :=
  (no_match_iff exS exP7 _ [] none (by rfl)).1 rfl
end Examples

end C08
end PyOak
