/-
C02 — `==` is content equality plus origin equality at every position.

`eqImpl H a b` (Model/Equality.lean) is the model of `_eq_fn`; `NodeEq` (Spec/NodeEq.lean) the
specification.  For an injective digest without `':'`, well-formed trees that conform to a class
table (`Conforms sig`):
    eq_total        the strict zip of the two dfs streams never raises
    eq_iff          eqImpl H a b = .ok true ↔ NodeEq a b
    eq_refl / eq_symm / eq_trans, ne_eq_not, eq_other_class

Architecture: `allKeys n` is the pre-order list of origin keys of `n` and its descendants;
`zipOrigins` on two streams of equal length decides equality of their key lists
(`zipOrigins_eq`).  ContentEq + Conforms align the two trees positionwise (`aligned`): same
child fields in the same order, same number of children per field, children pairwise ContentEq.
On aligned trees the key streams have the same length, and they are equal iff `originsAgree`
(`keys_agree`, size induction).
-/
import PyOak.Props.C01
import PyOak.Props.C05
import PyOak.Model.Equality
import PyOak.Spec.NodeEq
namespace PyOak
namespace C02
open C01

/-! ### pointwise relation of two lists -/

def All2 {α β : Type} (R : α → β → Prop) : List α → List β → Prop
  | [], [] => True
  | x :: xs, y :: ys => R x y ∧ All2 R xs ys
  | [], _ :: _ => False
  | _ :: _, [] => False

theorem All2.imp_mem {α β : Type} {R S : α → β → Prop} : ∀ {xs : List α} {ys : List β},
    All2 R xs ys → (∀ x ∈ xs, ∀ y ∈ ys, R x y → S x y) → All2 S xs ys
  | [], [], _, _ => trivial
  | x :: xs, y :: ys, h, hi =>
    ⟨hi x (by simp) y (by simp) h.1,
      All2.imp_mem h.2 (fun a ha b hb => hi a (by simp [ha]) b (by simp [hb]))⟩
  | [], _ :: _, h, _ => h.elim
  | _ :: _, [], h, _ => h.elim

theorem All2.of_map_eq {α β γ : Type} (f : α → γ) (g : β → γ) : ∀ {xs : List α} {ys : List β},
    xs.map f = ys.map g → All2 (fun x y => f x = g y) xs ys
  | [], [], _ => trivial
  | x :: xs, y :: ys, h => by
    simp only [List.map_cons, List.cons.injEq] at h
    exact ⟨h.1, All2.of_map_eq f g h.2⟩
  | [], _ :: _, h => by simp at h
  | _ :: _, [], h => by simp at h

/-- on related lists whose related elements produce blocks of equal length, the concatenations
have equal length, and are equal iff the blocks are pairwise equal -/
theorem All2.flat {α β γ : Type} {R Q : α → β → Prop} {f : α → List γ} {g : β → List γ} :
    ∀ {xs : List α} {ys : List β}, All2 R xs ys →
      (∀ x ∈ xs, ∀ y ∈ ys, R x y → (f x).length = (g y).length ∧ (Q x y ↔ f x = g y)) →
      (xs.flatMap f).length = (ys.flatMap g).length ∧ (All2 Q xs ys ↔ xs.flatMap f = ys.flatMap g)
  | [], [], _, _ => by simp [All2]
  | x :: xs, y :: ys, h, hi => by
    obtain ⟨h1, h2⟩ := hi x (by simp) y (by simp) h.1
    obtain ⟨h3, h4⟩ := All2.flat h.2 (fun a ha b hb => hi a (by simp [ha]) b (by simp [hb]))
    simp only [List.flatMap_cons, List.length_append, All2]
    refine ⟨by omega, ?_⟩
    rw [h2, h4]
    constructor
    · rintro ⟨e1, e2⟩; rw [e1, e2]
    · intro e; exact List.append_inj e h1
  | [], _ :: _, h, _ => h.elim
  | _ :: _, [], h, _ => h.elim

/-! ### the dfs stream as a list of origin keys -/

def P0 : Item → Bool := fun _ => false
def F0 : Item → Bool := fun _ => true

/-- origin keys of the proper descendants, in `dfs()` order -/
def descKeys (n : Node) : List Nat := (C05.pre P0 F0 n).map (·.node.org.key)
/-- origin keys of the node and its descendants, pre-order -/
def allKeys (n : Node) : List Nat := n.org.key :: descKeys n

theorem pre_unfold (n : Node) :
    C05.pre P0 F0 n = n.items.flatMap fun it => it :: C05.pre P0 F0 it.node := by
  rw [C05.pre_eq_preItems, C05.preItems]
  apply flatMap_congr'
  intro it _
  rw [C05.preN_unfold, C05.pre_eq_preItems]
  simp [P0, F0]

theorem kid_edges_nodes (k : Kid) : k.edges.map (·.1) = k.nodes := by
  cases k with
  | mk name coll ns =>
    cases coll
    · simp [Kid.edges, Kid.nodes, Function.comp_def]
    · simp only [Kid.edges, Kid.nodes, List.map_map, Function.comp_def]
      exact enumFrom_map_snd 0 ns

theorem descKeys_mk (h : Head) (ks : List Kid) :
    descKeys (.mk h ks) = ks.flatMap fun k => k.nodes.flatMap allKeys := by
  have h1 : descKeys (.mk h ks) = ((Node.mk h ks).items.map (·.node)).flatMap allKeys := by
    rw [descKeys, pre_unfold, List.flatMap_map]
    generalize (Node.mk h ks).items = its
    induction its with
    | nil => simp
    | cons it r ih => simp [ih, allKeys, descKeys]
  rw [h1]
  clear h1
  simp only [Node.items, Node.edges, Node.kids, List.map_map, Function.comp_def]
  induction ks with
  | nil => simp
  | cons k r ih =>
    simp only [List.flatMap_cons, List.map_append, List.flatMap_append, ih]
    congr 1
    rw [← kid_edges_nodes k]

theorem zipOrigins_eq : ∀ (xs ys : List Item),
    (xs.map (·.node.org.key)).length = (ys.map (·.node.org.key)).length →
    zipOrigins xs ys = .ok (decide (xs.map (·.node.org.key) = ys.map (·.node.org.key)))
  | [], [], _ => by simp [zipOrigins]
  | x :: xs, y :: ys, h => by
    simp only [List.map_cons, List.length_cons, Nat.add_right_cancel_iff] at h
    simp only [zipOrigins, zipOrigins_eq xs ys h, List.map_cons, List.cons.injEq]
    by_cases e : x.node.org.key = y.node.org.key
    · simp [e]
    · simp [e]
  | [], _ :: _, h => by simp at h
  | _ :: _, [], h => by simp at h

theorem zipOrigins_self : ∀ xs : List Item, zipOrigins xs xs = .ok true
  | [] => by simp [zipOrigins]
  | x :: xs => by simp [zipOrigins, zipOrigins_self xs]

/-! ### the mutual specifications as list statements -/

def AgreeNs (ns ns' : List Node) : Prop := All2 (fun x y => originsAgree x y = true) ns ns'

theorem originsAgree_mk (h h' : Head) (ks ks' : List Kid) :
    originsAgree (.mk h ks) (.mk h' ks') = (h.org.key == h'.org.key && agreeKs ks ks') := by
  simp only [originsAgree]

theorem agreeNs_iff : ∀ ns ns' : List Node, agreeNs ns ns' = true ↔ AgreeNs ns ns'
  | [], [] => by simp [agreeNs, AgreeNs, All2]
  | n :: r, n' :: r' => by
    simp only [agreeNs, AgreeNs, All2, Bool.and_eq_true]
    rw [agreeNs_iff r r']; rfl
  | [], _ :: _ => by simp [agreeNs, AgreeNs, All2]
  | _ :: _, [] => by simp [agreeNs, AgreeNs, All2]

theorem agreeKs_iff : ∀ ks ks' : List Kid,
    agreeKs ks ks' = true ↔ All2 (fun k k' => AgreeNs k.nodes k'.nodes) ks ks'
  | [], [] => by simp [agreeKs, All2]
  | k :: r, k' :: r' => by
    cases k; cases k'
    simp only [agreeKs, agreeK, All2, Bool.and_eq_true]
    rw [agreeKs_iff r r', agreeNs_iff]
    exact Iff.rfl
  | [], _ :: _ => by simp [agreeKs, All2]
  | _ :: _, [] => by simp [agreeKs, All2]

theorem ConformsNs_iff (sig : Str → List (Str × Bool)) (ns : List Node) :
    ConformsNs sig ns ↔ ∀ n ∈ ns, Conforms sig n := by
  induction ns with
  | nil => simp [ConformsNs]
  | cons n r ih => simp [ConformsNs, ih]

theorem ConformsKs_iff (sig : Str → List (Str × Bool)) (ks : List Kid) :
    ConformsKs sig ks ↔ ∀ k ∈ ks, ∀ n ∈ k.nodes, Conforms sig n := by
  induction ks with
  | nil => simp [ConformsKs]
  | cons k r ih => cases k; simp [ConformsKs, ConformsK, ih, ConformsNs_iff, Kid.nodes]

theorem Conforms_iff (sig : Str → List (Str × Bool)) (h : Head) (ks : List Kid) :
    Conforms sig (.mk h ks) ↔ ks.map (fun k => (k.name, k.coll)) = sig h.cls ∧
      ∀ k ∈ ks, ∀ n ∈ k.nodes, Conforms sig n := by
  simp only [Conforms, ConformsKs_iff]

/-! ### ContentEq + Conforms align the two trees -/

theorem mem_liveKids_iff {ks : List Kid} {k : Kid} : k ∈ liveKids ks ↔ k ∈ ks ∧ k.nodes ≠ [] := by
  simp [liveKids, List.mem_filter, sortByName, Framing.mem_sortBy, neKid]

theorem canon_lookup {ks ks' : List Kid} (hnd' : (ks'.map Kid.name).Nodup)
    (hc : (liveKids ks).map canonKid = (liveKids ks').map canonKid) {k k' : Kid}
    (hk : k ∈ ks) (hk' : k' ∈ ks') (hn : k.name = k'.name) (hne : k.nodes ≠ []) :
    k.nodes.map canonN = k'.nodes.map canonN := by
  have h1 : canonKid k ∈ (liveKids ks).map canonKid :=
    List.mem_map.mpr ⟨k, mem_liveKids_iff.mpr ⟨hk, hne⟩, rfl⟩
  rw [hc] at h1
  obtain ⟨k'', hk'', e⟩ := List.mem_map.mp h1
  simp only [canonKid_eq, Prod.mk.injEq] at e
  have : k'' = k' := Framing.eq_of_nodup_map Kid.name ks' hnd' k'' (mem_liveKids_iff.mp hk'').1
    k' hk' (e.1.trans hn)
  rw [← this, e.2]

theorem kid_canon_eq {ks ks' : List Kid} (hnd : (ks.map Kid.name).Nodup)
    (hnd' : (ks'.map Kid.name).Nodup)
    (hc : (liveKids ks).map canonKid = (liveKids ks').map canonKid) {k k' : Kid}
    (hk : k ∈ ks) (hk' : k' ∈ ks') (hn : k.name = k'.name) :
    k.nodes.map canonN = k'.nodes.map canonN := by
  by_cases h1 : k.nodes = []
  · by_cases h2 : k'.nodes = []
    · rw [h1, h2]
    · exact (canon_lookup hnd hc.symm hk' hk hn.symm h2).symm
  · exact canon_lookup hnd' hc hk hk' hn h1

/-- key step: same child fields in the same order, same number of children per field,
children pairwise content-equal -/
theorem aligned (sig : Str → List (Str × Bool)) (h h' : Head) (ks ks' : List Kid)
    (ha : WFN (.mk h ks)) (hb : WFN (.mk h' ks'))
    (ca : Conforms sig (.mk h ks)) (cb : Conforms sig (.mk h' ks'))
    (hc : ContentEq (.mk h ks) (.mk h' ks')) :
    All2 (fun k k' => All2 ContentEq k.nodes k'.nodes) ks ks' := by
  rw [ContentEq, canonN_eq, canonN_eq] at hc
  simp only [Canon.mk.injEq] at hc
  obtain ⟨hcls, -, hkids⟩ := hc
  obtain ⟨-, -, -, -, hnd⟩ := (WFN_iff h ks).mp ha
  obtain ⟨-, -, -, -, hnd'⟩ := (WFN_iff h' ks').mp hb
  have e : ks.map (fun k => (k.name, k.coll)) = ks'.map (fun k => (k.name, k.coll)) := by
    rw [((Conforms_iff sig h ks).mp ca).1, ((Conforms_iff sig h' ks').mp cb).1, hcls]
  apply All2.imp_mem (All2.of_map_eq _ _ e)
  intro k hk k' hk' hn
  simp only [Prod.mk.injEq] at hn
  exact All2.of_map_eq canonN canonN (kid_canon_eq hnd hnd' hkids hk hk' hn.1)

/-- on content-equal conforming trees the key streams have the same length, and they are equal
exactly when the origins agree positionwise -/
theorem keys_agree (sig : Str → List (Str × Bool)) :
    ∀ (n : Nat) (a b : Node), a.size ≤ n → WFN a → WFN b → Conforms sig a → Conforms sig b →
      ContentEq a b →
      (allKeys a).length = (allKeys b).length ∧ (originsAgree a b = true ↔ allKeys a = allKeys b) := by
  intro n
  induction n with
  | zero => intro a b hs; have := a.size_pos; omega
  | succ n ih =>
    intro a b hs ha hb ca cb hc
    cases a with
    | mk h ks =>
    cases b with
    | mk h' ks' =>
    have hal := aligned sig h h' ks ks' ha hb ca cb hc
    obtain ⟨-, -, -, ha4, -⟩ := (WFN_iff h ks).mp ha
    obtain ⟨-, -, -, hb4, -⟩ := (WFN_iff h' ks').mp hb
    have ca2 := ((Conforms_iff sig h ks).mp ca).2
    have cb2 := ((Conforms_iff sig h' ks').mp cb).2
    obtain ⟨h1, h2⟩ := All2.flat (Q := fun k k' => AgreeNs k.nodes k'.nodes)
      (f := fun k => k.nodes.flatMap allKeys) (g := fun k => k.nodes.flatMap allKeys) hal
      (by
        intro k hk k' hk' hkk
        apply All2.flat hkk
        intro x hx y hy hxy
        have hsz := size_lt_of_mem (h := h) hk hx
        exact ih x y (by omega) (((WFKid_iff k).mp (ha4 k hk)).2.2 x hx)
          (((WFKid_iff k').mp (hb4 k' hk')).2.2 y hy) (ca2 k hk x hx) (cb2 k' hk' y hy) hxy)
    simp only [allKeys, descKeys_mk, List.length_cons, originsAgree_mk, Bool.and_eq_true,
      beq_iff_eq, agreeKs_iff, List.cons.injEq, Node.org, Node.hd]
    exact ⟨by omega, by rw [h2]⟩

/-! ### the theorems -/

theorem eqImpl_eq (H : Str → Str) (a b : Node) :
    eqImpl H a b =
      if a.cls = b.cls ∧ cid H a = cid H b ∧ a.org.key = b.org.key
      then zipOrigins (C05.pre P0 F0 a) (C05.pre P0 F0 b) else .ok false := by
  simp only [eqImpl, eqCore, C05.dfs_top_down]
  by_cases h1 : a.cls = b.cls
  · by_cases h2 : cid H a = cid H b
    · by_cases h3 : a.org.key = b.org.key
      · simp [h1, h2, h3]; rfl
      · simp [h1, h2, h3]
    · simp [h1, h2]
  · simp [h1]

theorem contentEq_cls {a b : Node} (h : ContentEq a b) : a.cls = b.cls := by
  obtain ⟨p, k, e⟩ := canon_cls a
  obtain ⟨p', k', e'⟩ := canon_cls b
  rw [ContentEq, e, e'] at h
  simp only [Canon.mk.injEq] at h
  exact h.1

theorem zip_of_contentEq (sig : Str → List (Str × Bool)) (a b : Node) (ha : WFN a) (hb : WFN b)
    (ca : Conforms sig a) (cb : Conforms sig b) (hc : ContentEq a b) :
    zipOrigins (C05.pre P0 F0 a) (C05.pre P0 F0 b) = .ok (decide (descKeys a = descKeys b)) ∧
    (originsAgree a b = true ↔ a.org.key = b.org.key ∧ descKeys a = descKeys b) := by
  obtain ⟨h1, h2⟩ := keys_agree sig a.size a b (Nat.le_refl _) ha hb ca cb hc
  simp only [allKeys, List.length_cons, Nat.add_right_cancel_iff, List.cons.injEq] at h1 h2
  exact ⟨zipOrigins_eq _ _ h1, h2⟩

section Main
variable (H : Str → Str) (hinj : Function.Injective H) (hsep : ∀ s, ∀ c ∈ H s, c ≠ ':')
  (sig : Str → List (Str × Bool))
include hinj hsep

/-- `a == b` never raises: when the content ids are equal the two dfs streams have the same
length, so `zip(strict=True)` is exhausted on both sides simultaneously -/
theorem eq_total (a b : Node) (ha : WFN a) (hb : WFN b) (ca : Conforms sig a) (cb : Conforms sig b) :
    ∃ r, eqImpl H a b = .ok r := by
  rw [eqImpl_eq]
  split
  · rename_i h
    have hc := (cid_eq_iff H hinj hsep a b ha hb).mp h.2.1
    exact ⟨_, (zip_of_contentEq sig a b ha hb ca cb hc).1⟩
  · exact ⟨false, rfl⟩

/-- `a == b` ⇔ same content and `==` origins at every position -/
theorem eq_iff (a b : Node) (ha : WFN a) (hb : WFN b) (ca : Conforms sig a) (cb : Conforms sig b) :
    eqImpl H a b = .ok true ↔ NodeEq a b := by
  rw [eqImpl_eq, NodeEq]
  constructor
  · intro h
    split at h
    · rename_i h0
      have hc := (cid_eq_iff H hinj hsep a b ha hb).mp h0.2.1
      obtain ⟨h1, h2⟩ := zip_of_contentEq sig a b ha hb ca cb hc
      rw [h1] at h
      simp only [Except.ok.injEq, decide_eq_true_eq] at h
      exact ⟨hc, h2.mpr ⟨h0.2.2, h⟩⟩
    · simp at h
  · rintro ⟨hc, ho⟩
    obtain ⟨h1, h2⟩ := zip_of_contentEq sig a b ha hb ca cb hc
    have h3 := h2.mp ho
    rw [if_pos ⟨contentEq_cls hc, (cid_eq_iff H hinj hsep a b ha hb).mpr hc, h3.1⟩, h1]
    simp [h3.2]

omit hinj hsep in
/-- reflexivity needs no hypothesis at all -/
theorem eq_refl (a : Node) : eqImpl H a a = .ok true := by
  rw [eqImpl_eq]; simp [zipOrigins_self]

theorem eq_symm (a b : Node) (ha : WFN a) (hb : WFN b) (ca : Conforms sig a) (cb : Conforms sig b)
    (h : eqImpl H a b = .ok true) : eqImpl H b a = .ok true := by
  obtain ⟨hc, ho⟩ := (eq_iff H hinj hsep sig a b ha hb ca cb).mp h
  have hc' : ContentEq b a := hc.symm
  refine (eq_iff H hinj hsep sig b a hb ha cb ca).mpr ⟨hc', ?_⟩
  have h1 := (zip_of_contentEq sig a b ha hb ca cb hc).2.mp ho
  exact (zip_of_contentEq sig b a hb ha cb ca hc').2.mpr ⟨h1.1.symm, h1.2.symm⟩

theorem eq_trans (a b c : Node) (ha : WFN a) (hb : WFN b) (hc : WFN c)
    (ca : Conforms sig a) (cb : Conforms sig b) (cc : Conforms sig c)
    (h1 : eqImpl H a b = .ok true) (h2 : eqImpl H b c = .ok true) : eqImpl H a c = .ok true := by
  obtain ⟨e1, o1⟩ := (eq_iff H hinj hsep sig a b ha hb ca cb).mp h1
  obtain ⟨e2, o2⟩ := (eq_iff H hinj hsep sig b c hb hc cb cc).mp h2
  have e3 : ContentEq a c := e1.trans e2
  refine (eq_iff H hinj hsep sig a c ha hc ca cc).mpr ⟨e3, ?_⟩
  have k1 := (zip_of_contentEq sig a b ha hb ca cb e1).2.mp o1
  have k2 := (zip_of_contentEq sig b c hb hc cb cc e2).2.mp o2
  exact (zip_of_contentEq sig a c ha hc ca cc e3).2.mpr ⟨k1.1.trans k2.1, k1.2.trans k2.2⟩

omit hinj hsep in
theorem ne_eq_not (a b : Node) : neImpl H a b = (eqImpl H a b).map (!·) := rfl

omit hinj hsep in
/-- nodes of different classes are unequal (and the comparison does not raise) -/
theorem eq_other_class (a b : Node) (h : a.cls ≠ b.cls) : eqImpl H a b = .ok false := by
  rw [eqImpl_eq]; simp [h]

end Main

/-! ### non-vacuity -/

namespace Demo

instance : DecidableEq (Except Unit Bool)
  | .ok a, .ok b => if h : a = b then isTrue (by rw [h]) else isFalse (by simpa using h)
  | .error _, .error _ => isTrue rfl
  | .ok _, .error _ => isFalse (by simp)
  | .error _, .ok _ => isFalse (by simp)

def sig (c : Str) : List (Str × Bool) :=
  if c = ['P'] then [(['x', 's'], true), (['o'], false)]
  else if c = ['Q'] then [(['y'], false)]
  else []

def org (k : Nat) : Org := ⟨k, ['f']⟩
def leafA (uid k : Nat) : Node := .mk ⟨uid, ['A'], [], org k, [], true⟩ []
def nodeQ (uid k : Nat) (y : List Node) : Node :=
  .mk ⟨uid, ['Q'], [], org k, [], true⟩ [.mk ['y'] false y]
/-- `P(xs=(Q(y=A), Q(y=None)), o=A)`; `kg` is the origin of the grandchild, `k` of all others -/
def tree (uid k kg : Nat) (y2 : List Node) : Node :=
  .mk ⟨uid, ['P'], [], org k, [], true⟩
    [ .mk ['x', 's'] true [nodeQ (uid + 1) k [leafA (uid + 2) kg], nodeQ (uid + 3) k y2],
      .mk ['o'] false [leafA (uid + 4) k] ]

def t1 : Node := tree 10 1 1 []
def t2 : Node := tree 20 1 1 []          -- other objects, same content, same origins
def t3 : Node := tree 30 1 2 []          -- origin differs at a grandchild
def t4 : Node := tree 40 1 1 [leafA 49 1]  -- other content (and a longer dfs stream)

example : eqImpl Hesc t1 t2 = .ok true := by decide
example : eqImpl Hesc t1 t3 = .ok false := by decide
example : eqImpl Hesc t1 t4 = .ok false := by decide
example : eqImpl Hesc t1 (leafA 1 1) = .ok false := by decide
example : neImpl Hesc t1 t3 = .ok true := by decide
example : originsAgree t1 t2 = true ∧ originsAgree t1 t3 = false := by decide

theorem wf_tree (uid k kg : Nat) : WFN (tree uid k kg []) := by
  simp [tree, nodeQ, leafA, WFN_iff, WFKid_iff, IdentLike, Kid.name, Kid.coll, Kid.nodes]
  decide

theorem conf_tree (uid k kg : Nat) : Conforms sig (tree uid k kg []) := by
  simp [tree, nodeQ, leafA, Conforms_iff, Kid.name, Kid.coll, Kid.nodes, sig]

-- the same through the theorems: their hypotheses are jointly satisfiable
example : NodeEq t1 t2 :=
  (eq_iff Hesc Hesc_injective Hesc_no_colon sig t1 t2 (wf_tree ..) (wf_tree ..) (conf_tree ..)
    (conf_tree ..)).mp (by decide)
example : ¬ NodeEq t1 t3 := fun h =>
  absurd ((eq_iff Hesc Hesc_injective Hesc_no_colon sig t1 t3 (wf_tree ..) (wf_tree ..)
    (conf_tree ..) (conf_tree ..)).mpr h) (by decide)

/-- `Conforms` is needed in `eq_iff`: two well-formed nodes of class `P` that declare their
fields in different orders (impossible for instances of one Python class) are content-equal, all
origins are equal, the flat dfs streams `[A, A, B]` / `[B, A, A]` have the same length, so
`==` answers True — but the trees do not agree positionwise (2 children vs 1 in the first field). -/
def u1 : Node := .mk ⟨1, ['P'], [], org 1, [], true⟩
  [.mk ['x'] true [leafA 2 1, leafA 3 1], .mk ['y'] false [leafA 4 1]]
def u2 : Node := .mk ⟨5, ['P'], [], org 1, [], true⟩
  [.mk ['y'] false [leafA 8 1], .mk ['x'] true [leafA 6 1, leafA 7 1]]
example : eqImpl Hesc u1 u2 = .ok true := by decide
example : originsAgree u1 u2 = false := by decide
example : WFN u1 ∧ WFN u2 := by
  simp [u1, u2, leafA, WFN_iff, WFKid_iff, IdentLike, Kid.name, Kid.coll, Kid.nodes]
  decide

end Demo

end C02
end PyOak
