/- C10: all property theorems (the audited module of harness/props/c10.py); RegOrder = fuel adequacy of `descendants` -/
import PyOak.Props.C10
import PyOak.Props.C10Extra
import PyOak.Props.RegOrder
