/-
C07 — the bottom-up matcher (`ASTXpath.match`) and the top-down search (`ASTXpath.findall`)
both compute the documented top-down semantics `sat` (Spec/XPath.lean).
-/
import PyOak.Model.XPath
import PyOak.Spec.Tree
import PyOak.Spec.XPath
import PyOak.Props.C05
namespace PyOak
namespace C07

/-! ## (A) chain-level bottom-up matcher -/

/-- `for ancestor in get_ancestors(node): if f(ancestor…): return True` over the node-first chain:
some non-empty suffix of `up` satisfies `f` -/
def anyUp (f : List (Node × Option Edge) → Bool) : List (Node × Option Edge) → Bool
  | [] => false
  | a :: up => f (a :: up) || anyUp f up

/-- `_match_node_xpath` read over the node-first chain (head = the node asked about, last = the
root) and the reversed element list (self first) -/
def matchUpC : List (Node × Option Edge) → List XElem → Bool
  | [], _ => false
  | _ :: _, [] => false
  | x :: up, el :: tail =>
    if !matchElem x.1 x.2 el then false
    else if tail.isEmpty then el.anywhere || up.isEmpty
    else if up.isEmpty then false
    else if el.anywhere then anyUp (fun s => matchUpC s tail) up
    else matchUpC up tail

theorem anyUp_iff (f : List (Node × Option Edge) → Bool) (up : List (Node × Option Edge)) :
    anyUp f up = true ↔ ∃ t s, up = t ++ s ∧ s ≠ [] ∧ f s = true := by
  induction up with
  | nil => simp [anyUp]
  | cons a up ih =>
    simp only [anyUp, Bool.or_eq_true, ih]
    constructor
    · rintro (h | ⟨t, s, rfl, hs, hf⟩)
      · exact ⟨[], a :: up, rfl, by simp, h⟩
      · exact ⟨a :: t, s, rfl, hs, hf⟩
    · rintro ⟨t, s, h, hs, hf⟩
      cases t with
      | nil => left; simp at h; subst h; exact hf
      | cons b t =>
        simp at h
        right; exact ⟨t, s, h.2, hs, hf⟩

theorem sat_nil_left (els : List XElem) : sat [] els = false := by
  cases els <;> simp [sat]

theorem sat_nil_right (c : Chain) : sat c [] = false := by
  cases c <;> simp [sat]

theorem sat_cons (x : Node × Option Edge) (c : Chain) (el : XElem) (rest : List XElem) :
    sat (x :: c) (el :: rest) =
      ((matchElem x.1 x.2 el && (if rest.isEmpty then c.isEmpty else (!c.isEmpty && sat c rest)))
        || (el.anywhere && !c.isEmpty && sat c (el :: rest))) := by
  cases rest <;> simp [sat]

/-- the condition the last step puts on what is above the last member -/
def AboveOK (c : Chain) (p : List XElem) (el : XElem) : Prop :=
  (p = [] ∧ (el.anywhere = true ∨ c = [])) ∨
  (p ≠ [] ∧ c ≠ [] ∧
    ((el.anywhere = true ∧ ∃ c1 c2, c = c1 ++ c2 ∧ sat c1 p = true) ∨
     (el.anywhere = false ∧ sat c p = true)))

theorem sat_ne_nil {c : Chain} {p : List XElem} (h : sat c p = true) : c ≠ [] ∧ p ≠ [] := by
  constructor
  · rintro rfl; simp [sat_nil_left] at h
  · rintro rfl; simp [sat_nil_right] at h

theorem anyPre_cons (y : Node × Option Edge) (c' : Chain) (e : XElem) (p' : List XElem) :
    (∃ c1 c2, y :: c' = c1 ++ c2 ∧ sat c1 (e :: p') = true) ↔
      ((matchElem y.1 y.2 e = true ∧
          (p' = [] ∨ (p' ≠ [] ∧ ∃ d1 d2, c' = d1 ++ d2 ∧ sat d1 p' = true))) ∨
       (e.anywhere = true ∧ ∃ d1 d2, c' = d1 ++ d2 ∧ sat d1 (e :: p') = true)) := by
  constructor
  · rintro ⟨c1, c2, hc, hs⟩
    cases c1 with
    | nil => simp [sat_nil_left] at hs
    | cons y' d1 =>
      simp only [List.cons_append, List.cons.injEq] at hc
      obtain ⟨rfl, rfl⟩ := hc
      rw [sat_cons] at hs
      simp only [Bool.or_eq_true, Bool.and_eq_true] at hs
      rcases hs with ⟨hm, h⟩ | ⟨⟨ha, _⟩, h⟩
      · left
        refine ⟨hm, ?_⟩
        cases p' with
        | nil => left; rfl
        | cons e' p'' =>
          right
          simp at h
          exact ⟨by simp, d1, c2, rfl, h.2⟩
      · right; exact ⟨ha, d1, c2, rfl, h⟩
  · rintro (⟨hm, rfl | ⟨hp, d1, d2, rfl, hs⟩⟩ | ⟨ha, d1, d2, rfl, hs⟩)
    · exact ⟨[y], c', rfl, by simp [sat_cons, hm]⟩
    · refine ⟨y :: d1, d2, rfl, ?_⟩
      have := (sat_ne_nil hs).1
      rw [sat_cons]
      simp [hm, hs, hp, this]
    · refine ⟨y :: d1, d2, rfl, ?_⟩
      have := (sat_ne_nil hs).1
      rw [sat_cons]
      simp [ha, hs, this]

/-- snoc characterisation of `sat`: the reading from the last member upwards -/
theorem sat_snoc (c : Chain) (x : Node × Option Edge) (p : List XElem) (el : XElem) :
    sat (c ++ [x]) (p ++ [el]) = true ↔ (matchElem x.1 x.2 el = true ∧ AboveOK c p el) := by
  induction c generalizing p with
  | nil =>
    cases p with
    | nil => simp [sat_cons, AboveOK]
    | cons e p' => simp [sat_cons, AboveOK]
  | cons y c' ih =>
    cases p with
    | nil =>
      have := ih []
      simp only [List.nil_append] at this
      simp only [List.cons_append, List.nil_append, sat_cons, Bool.or_eq_true, Bool.and_eq_true, this]
      simp [AboveOK]
      grind
    | cons e p' =>
      have h1 := ih p'
      have h2 := ih (e :: p')
      simp only [List.cons_append] at h2
      simp only [List.cons_append, sat_cons, Bool.or_eq_true, Bool.and_eq_true]
      have e1 : (p' ++ [el]).isEmpty = false := by simp
      have e2 : (c' ++ [x]).isEmpty = false := by simp
      simp only [e1, e2, Bool.false_eq_true, if_false, Bool.not_false, Bool.true_and, and_true]
      rw [h1, h2]
      unfold AboveOK
      rw [anyPre_cons, sat_cons]
      have hA : ∀ q, (∃ c1 c2, c' = c1 ++ c2 ∧ sat c1 q = true) → c' ≠ [] := by
        rintro q ⟨c1, c2, rfl, hs⟩
        have := (sat_ne_nil hs).1
        simp [this]
      have hA1 := hA p'
      have hA2 := hA (e :: p')
      generalize (∃ c1 c2, c' = c1 ++ c2 ∧ sat c1 p' = true) = A at *
      generalize (∃ c1 c2, c' = c1 ++ c2 ∧ sat c1 (e :: p') = true) = B at *
      have hS1 : sat c' p' = true → c' ≠ [] ∧ p' ≠ [] := sat_ne_nil
      have hS2 : sat c' (e :: p') = true → c' ≠ [] := fun h => (sat_ne_nil h).1
      generalize sat c' p' = s1 at *
      generalize sat c' (e :: p') = s2 at *
      cases hel : el.anywhere <;> cases p' <;> cases c' <;> simp_all
      all_goals (clear ih h1 h2; grind)

theorem matchUpC_nil_right (c : List (Node × Option Edge)) : matchUpC c [] = false := by
  cases c <;> simp [matchUpC]

theorem matchUpC_rev (tail : List XElem) (c : Chain) :
    matchUpC c.reverse tail = sat c tail.reverse := by
  induction tail generalizing c with
  | nil => simp [matchUpC_nil_right, sat_nil_right]
  | cons el tail ih =>
    rcases List.eq_nil_or_concat c with rfl | ⟨c', x, rfl⟩
    · simp [matchUpC, sat_nil_left]
    · simp only [List.concat_eq_append, List.reverse_append, List.reverse_cons, List.reverse_nil,
        List.nil_append, List.cons_append]
      rw [Bool.eq_iff_iff, sat_snoc]
      simp only [matchUpC]
      have hany : anyUp (fun s => matchUpC s tail) c'.reverse = true ↔
          ∃ c1 c2, c' = c1 ++ c2 ∧ sat c1 tail.reverse = true := by
        rw [anyUp_iff]
        constructor
        · rintro ⟨t, s, h, _, hf⟩
          refine ⟨s.reverse, t.reverse, ?_, ?_⟩
          · have := congrArg List.reverse h
            simpa using this
          · rw [← ih]; simpa using hf
        · rintro ⟨c1, c2, rfl, hs⟩
          refine ⟨c2.reverse, c1.reverse, by simp, ?_, ?_⟩
          · have := (sat_ne_nil hs).1
            simpa using this
          · show matchUpC c1.reverse tail = true; rw [ih]; exact hs
      have hup := ih c'
      unfold AboveOK
      by_cases hm : matchElem x.1 x.2 el = true
      · simp only [hm, Bool.not_true, Bool.false_eq_true, if_false, true_and]
        by_cases ht : tail = []
        · subst ht; simp
        · have ht' : tail.isEmpty = false := by simpa using ht
          have ht'' : tail.reverse ≠ [] := by simpa using ht
          simp only [ht', Bool.false_eq_true, if_false]
          by_cases hc : c' = []
          · subst hc; simp [ht]
          · have hc' : c'.reverse.isEmpty = false := by simpa using hc
            simp only [hc', Bool.false_eq_true, if_false]
            cases hel : el.anywhere
            · simp [hup, ht, hc]
            · simp [hany, ht, hc]
      · simp [hm]

/-- (A) the bottom-up reading over the node-first chain and the reversed path is the documented
top-down semantics -/
theorem matchUpC_eq_sat (chain : Chain) (els : List XElem) :
    matchUpC chain.reverse els.reverse = sat chain els := by
  rw [matchUpC_rev, List.reverse_reverse]

/-! ## downward paths, chains and the candidates of the search -/

/-- `path` is a downward path below `n`: each member is stored in its predecessor (`n` for the
first) under the given edge -/
def Path : Node → Chain → Prop
  | _, [] => True
  | n, (c, oe) :: r => (∃ e, oe = some e ∧ (c, e) ∈ n.edges) ∧ Path c r

/-- the node the path below `n` ends in (`n` itself for the empty path) -/
def lastNode : Node → Chain → Node
  | n, [] => n
  | _, a :: r => lastNode a.1 r

@[simp] theorem lastNode_nil (n : Node) : lastNode n [] = n := rfl

theorem lastNode_cons (n : Node) (a : Node × Option Edge) (c : Chain) :
    lastNode n (a :: c) = lastNode a.1 c := rfl

@[simp] theorem lastNode_snoc (n : Node) (c : Chain) (a : Node × Option Edge) :
    lastNode n (c ++ [a]) = a.1 := by
  induction c generalizing n with
  | nil => rfl
  | cons b r ih => simp [lastNode, ih]

theorem getLast?_cons_lastNode (n : Node) (oe : Option Edge) (c : Chain) :
    (((n, oe) :: c).getLast?.map (·.1)) = some (lastNode n c) := by
  induction c generalizing n oe with
  | nil => simp [lastNode]
  | cons a r ih =>
    rw [List.getLast?_cons_cons]
    obtain ⟨m, oe'⟩ := a
    rw [ih]; rfl

theorem snoc_induction {α : Type} {motive : List α → Prop} (nil : motive [])
    (snoc : ∀ l a, motive l → motive (l ++ [a])) (l : List α) : motive l := by
  have : ∀ l : List α, motive l.reverse := by
    intro l
    induction l with
    | nil => exact nil
    | cons a r ih => simpa using snoc _ a ih
  simpa using this l.reverse

theorem path_append (n : Node) (a b : Chain) :
    Path n (a ++ b) ↔ Path n a ∧ Path (lastNode n a) b := by
  induction a generalizing n with
  | nil => simp [Path]
  | cons x r ih =>
    obtain ⟨c, oe⟩ := x
    simp only [List.cons_append, Path, ih, lastNode_cons, and_assoc]

theorem path_single (n c : Node) (oe : Option Edge) :
    Path n [(c, oe)] ↔ ∃ e, oe = some e ∧ (c, e) ∈ n.edges := by
  simp [Path]

theorem exists_snoc {α : Type} (a : α) (l : List α) : ∃ c b, a :: l = c ++ [b] := by
  rcases List.eq_nil_or_concat (a :: l) with h | ⟨c, b, h⟩
  · simp at h
  · exact ⟨c, b, by simpa using h⟩

theorem isChain_iff (root : Node) (chain : Chain) :
    IsChain root chain ↔ ∃ path, chain = (root, none) :: path ∧ Path root path := by
  constructor
  · intro h
    induction h with
    | root => exact ⟨[], rfl, trivial⟩
    | snoc c p pe n e _ hmem ih =>
      obtain ⟨path, hc, hp⟩ := ih
      refine ⟨path ++ [(n, some e)], by rw [hc]; simp, ?_⟩
      rw [path_append]
      refine ⟨hp, ?_⟩
      have h1 := getLast?_cons_lastNode root none path
      rw [← hc] at h1
      simp at h1
      rw [← h1, path_single]
      exact ⟨e, rfl, hmem⟩
  · rintro ⟨path, rfl, hp⟩
    induction path using snoc_induction with
    | nil => exact IsChain.root
    | snoc path' a ih =>
      rw [path_append] at hp
      obtain ⟨n, oe⟩ := a
      obtain ⟨e, rfl, hmem⟩ := (path_single _ _ _).1 hp.2
      have hc := ih hp.1
      obtain ⟨c, b, hcb⟩ := exists_snoc (root, (none : Option Edge)) path'
      have h1 := getLast?_cons_lastNode root none path'
      rw [hcb] at h1 hc
      simp at h1
      obtain ⟨q, qe⟩ := b
      simp at h1
      have := IsChain.snoc c q qe n e hc (by rw [h1]; exact hmem)
      rw [← hcb] at this
      simpa using this

/-! ### candidates = children / proper descendants -/

abbrev allItems (its : List Item) : List Item := C05.preItems (fun _ => false) (fun _ => true) its

theorem mem_items_iff (n : Node) (it : Item) :
    it ∈ n.items ↔ it.parent = n ∧ (it.node, it.edge) ∈ n.edges := by
  simp only [Node.items, List.mem_map]
  constructor
  · rintro ⟨⟨c, e⟩, h, rfl⟩; exact ⟨rfl, h⟩
  · rintro ⟨hp, h⟩
    refine ⟨(it.node, it.edge), h, ?_⟩
    cases it; simp at hp; simp [hp]

theorem mem_allItems_iff (its : List Item) (x : Item) :
    x ∈ allItems its ↔ ∃ it ∈ its, x = it ∨ x ∈ allItems it.node.items := by
  simp only [allItems, C05.preItems, List.mem_flatMap]
  constructor
  · rintro ⟨it, hit, hx⟩
    rw [C05.preN_unfold] at hx
    simp at hx
    exact ⟨it, hit, by simpa [C05.preItems] using hx⟩
  · rintro ⟨it, hit, hx⟩
    refine ⟨it, hit, ?_⟩
    rw [C05.preN_unfold]
    simpa [C05.preItems] using hx

theorem mem_weight_le (its : List Item) (it : Item) (h : it ∈ its) : it.node.size ≤ C05.weight its := by
  induction its with
  | nil => simp at h
  | cons a r ih =>
    simp only [List.mem_cons] at h
    rcases h with rfl | h
    · simp
    · have := ih h; simp; omega

theorem item_size_lt (n : Node) (it : Item) (h : it ∈ n.items) : it.node.size < n.size := by
  have := mem_weight_le _ _ h
  have := C05.weight_items n
  omega

/-- every position yielded below `n` is the end of a non-empty downward path from `n` -/
theorem desc_sound (n : Node) (x : Item) (hx : x ∈ allItems n.items) :
    ∃ pre, Path n (pre ++ [(x.node, some x.edge)]) ∧ x.parent = lastNode n pre := by
  generalize hk : n.size = k
  induction k using Nat.strongRecOn generalizing n with
  | _ k ih =>
    rw [mem_allItems_iff] at hx
    obtain ⟨it, hit, hx⟩ := hx
    have hlt := item_size_lt n it hit
    rw [mem_items_iff] at hit
    rcases hx with rfl | hx
    · exact ⟨[], by simpa [Path] using hit.2, by simpa using hit.1⟩
    · obtain ⟨pre, hp, hpar⟩ := ih it.node.size (by omega) it.node hx rfl
      refine ⟨(it.node, some it.edge) :: pre, ?_, ?_⟩
      · simp only [List.cons_append, Path]
        exact ⟨⟨it.edge, rfl, hit.2⟩, hp⟩
      · simpa [lastNode] using hpar

/-- the end of every non-empty downward path from `n` is yielded, with its real parent -/
theorem desc_complete (n : Node) (pre : Chain) (c : Node) (e : Edge)
    (hp : Path n (pre ++ [(c, some e)])) : (⟨c, lastNode n pre, e⟩ : Item) ∈ allItems n.items := by
  induction pre generalizing n with
  | nil =>
    rw [mem_allItems_iff]
    refine ⟨⟨c, n, e⟩, ?_, Or.inl rfl⟩
    rw [mem_items_iff]
    simpa [Path] using hp
  | cons a r ih =>
    obtain ⟨c1, oe1⟩ := a
    simp only [List.cons_append, Path] at hp
    obtain ⟨⟨e1, rfl, hmem⟩, hp⟩ := hp
    rw [mem_allItems_iff]
    refine ⟨⟨c1, n, e1⟩, ?_, Or.inr ?_⟩
    · rw [mem_items_iff]; exact ⟨rfl, hmem⟩
    · exact ih c1 hp

theorem candidates_true (n : Node) : candidates n true = (allItems n.items).map XPos.ofItem := by
  simp [candidates, C05.dfs_top_down, C05.pre_eq_preItems]

theorem candidates_false (n : Node) : candidates n false = n.items.map XPos.ofItem := by
  simp [candidates]

theorem cand_sound (n : Node) (aw : Bool) (q : XPos) (hq : q ∈ candidates n aw) :
    ∃ pre e, q.edge = some e ∧ Path n (pre ++ [(q.node, some e)]) ∧
      q.parent = some (lastNode n pre) ∧ (aw = false → pre = []) := by
  cases aw with
  | true =>
    rw [candidates_true, List.mem_map] at hq
    obtain ⟨x, hx, rfl⟩ := hq
    obtain ⟨pre, hp, hpar⟩ := desc_sound n x hx
    exact ⟨pre, x.edge, rfl, hp, by simp [XPos.ofItem, hpar], by simp⟩
  | false =>
    rw [candidates_false, List.mem_map] at hq
    obtain ⟨x, hx, rfl⟩ := hq
    rw [mem_items_iff] at hx
    exact ⟨[], x.edge, rfl, by simpa [Path, XPos.ofItem] using hx.2, by simp [XPos.ofItem, hx.1], by simp⟩

theorem cand_complete (n : Node) (aw : Bool) (pre : Chain) (c : Node) (e : Edge)
    (hp : Path n (pre ++ [(c, some e)])) (haw : aw = false → pre = []) :
    (⟨c, some (lastNode n pre), some e⟩ : XPos) ∈ candidates n aw := by
  cases aw with
  | true =>
    rw [candidates_true, List.mem_map]
    exact ⟨_, desc_complete n pre c e hp, rfl⟩
  | false =>
    obtain rfl := haw rfl
    rw [candidates_false, List.mem_map]
    refine ⟨⟨c, n, e⟩, ?_, rfl⟩
    rw [mem_items_iff]
    simpa [Path] using hp

/-! ### the ordered-set fold -/

/-- `for c in cs: if f(c) and c not in nw: nw[c] = None` -/
def addCands (f : XPos → Bool) (nw cs : List XPos) : List XPos :=
  cs.foldl (fun nw c => if f c then insertPos nw c else nw) nw

theorem findStep_eq (W : List XPos) (el : XElem) :
    findStep W el = addCands (fun c => matchElem c.node c.edge el) []
      (W.flatMap fun w => candidates w.node el.anywhere) := by
  simp only [findStep, addCands, List.foldl_flatMap]

theorem findFirst_eq (root : Node) (el : XElem) :
    findFirst root el = addCands (fun c => matchElem c.node c.edge el) []
      (⟨root, none, none⟩ :: (if el.anywhere then candidates root true else [])) := rfl

theorem mem_insertPos (w : List XPos) (p q : XPos) : q ∈ insertPos w p → q ∈ w ∨ q = p := by
  unfold insertPos
  split
  · exact Or.inl
  · simp

theorem mem_insertPos_of_mem (w : List XPos) (p q : XPos) (h : q ∈ w) : q ∈ insertPos w p := by
  unfold insertPos
  split
  · exact h
  · simp [h]

theorem insertPos_has_key (w : List XPos) (p : XPos) : ∃ q ∈ insertPos w p, q.key = p.key := by
  unfold insertPos
  split
  · rename_i h
    rw [List.any_eq_true] at h
    obtain ⟨q, hq, hk⟩ := h
    exact ⟨q, hq, by simpa using hk⟩
  · exact ⟨p, by simp, rfl⟩

theorem insertPos_nodup (w : List XPos) (p : XPos) (h : (w.map XPos.key).Nodup) :
    ((insertPos w p).map XPos.key).Nodup := by
  unfold insertPos
  split
  · exact h
  · rename_i hn
    rw [List.map_append, List.nodup_append]
    refine ⟨h, by simp, ?_⟩
    intro a ha b hb
    simp at hb
    subst hb
    rintro rfl
    apply hn
    rw [List.any_eq_true]
    rw [List.mem_map] at ha
    obtain ⟨q, hq, hk⟩ := ha
    exact ⟨q, hq, by simp [hk]⟩

theorem mem_addCands (f : XPos → Bool) (nw cs : List XPos) (p : XPos) (h : p ∈ addCands f nw cs) :
    p ∈ nw ∨ (p ∈ cs ∧ f p = true) := by
  induction cs generalizing nw with
  | nil => exact Or.inl h
  | cons c r ih =>
    simp only [addCands, List.foldl_cons] at h
    rcases ih _ h with h1 | ⟨h1, h2⟩
    · by_cases hf : f c = true
      · simp only [hf, if_true] at h1
        rcases mem_insertPos _ _ _ h1 with h1 | rfl
        · exact Or.inl h1
        · exact Or.inr ⟨by simp, hf⟩
      · simp only [hf] at h1
        exact Or.inl h1
    · exact Or.inr ⟨by simp [h1], h2⟩

theorem addCands_mono (f : XPos → Bool) (nw cs : List XPos) (p : XPos) (h : p ∈ nw) :
    p ∈ addCands f nw cs := by
  induction cs generalizing nw with
  | nil => exact h
  | cons c r ih =>
    simp only [addCands, List.foldl_cons]
    apply ih
    split
    · exact mem_insertPos_of_mem _ _ _ h
    · exact h

theorem addCands_has_key (f : XPos → Bool) (nw cs : List XPos) (c : XPos) (hc : c ∈ cs)
    (hf : f c = true) : ∃ q ∈ addCands f nw cs, q.key = c.key := by
  induction cs generalizing nw with
  | nil => simp at hc
  | cons d r ih =>
    simp only [List.mem_cons] at hc
    rcases hc with rfl | hc
    · simp only [addCands, List.foldl_cons, hf, if_true]
      obtain ⟨q, hq, hk⟩ := insertPos_has_key nw c
      exact ⟨q, addCands_mono f _ r q hq, hk⟩
    · simp only [addCands, List.foldl_cons]
      exact ih _ hc

theorem addCands_nodup (f : XPos → Bool) (nw cs : List XPos) (h : (nw.map XPos.key).Nodup) :
    ((addCands f nw cs).map XPos.key).Nodup := by
  induction cs generalizing nw with
  | nil => exact h
  | cons c r ih =>
    simp only [addCands, List.foldl_cons]
    apply ih
    split
    · exact insertPos_nodup _ _ h
    · exact h

/-! ## (B) the top-down search -/

/-- `p` is the position of the last member of `chain` -/
def lastOf (chain : Chain) (p : XPos) : Prop :=
  ∃ pre, chain = pre ++ [(p.node, p.edge)] ∧ p.parent = (pre.getLast?.map (·.1))

/-- `p` is a position of the tree under `root` whose chain satisfies `els` -/
def Good (root : Node) (els : List XElem) (p : XPos) : Prop :=
  ∃ chain, IsChain root chain ∧ lastOf chain p ∧ sat chain els = true

theorem chain_split (root : Node) (c : Chain) (n : Node) (oe : Option Edge)
    (h : IsChain root (c ++ [(n, oe)])) :
    ∃ path0, c ++ [(n, oe)] = (root, none) :: path0 ∧ Path root path0 ∧ lastNode root path0 = n := by
  obtain ⟨path0, hc, hp⟩ := (isChain_iff _ _).1 h
  refine ⟨path0, hc, hp, ?_⟩
  have h1 := getLast?_cons_lastNode root none path0
  rw [← hc] at h1
  simpa using h1.symm

theorem chain_extend (root : Node) (c : Chain) (n : Node) (oe : Option Edge) (pth : Chain)
    (h : IsChain root (c ++ [(n, oe)])) (hp : Path n pth) : IsChain root (c ++ [(n, oe)] ++ pth) := by
  obtain ⟨path0, hc, hp0, hl⟩ := chain_split root c n oe h
  rw [isChain_iff]
  refine ⟨path0 ++ pth, by rw [hc]; simp, ?_⟩
  rw [path_append, hl]
  exact ⟨hp0, hp⟩

theorem chain_sub (root : Node) (c : Chain) (n : Node) (oe : Option Edge) (pth : Chain)
    (h : IsChain root (c ++ [(n, oe)] ++ pth)) : IsChain root (c ++ [(n, oe)]) ∧ Path n pth := by
  obtain ⟨path, hc, hp⟩ := (isChain_iff _ _).1 h
  obtain ⟨path1, h1⟩ : ∃ path1, c ++ [(n, oe)] = (root, none) :: path1 := by
    cases c with
    | nil => simp at hc; exact ⟨[], by simp [hc.1]⟩
    | cons a c' => simp at hc; exact ⟨c' ++ [(n, oe)], by simp [hc.1]⟩
  rw [h1] at hc
  simp only [List.cons_append, List.cons.injEq, true_and] at hc
  subst hc
  rw [path_append] at hp
  have hch : IsChain root (c ++ [(n, oe)]) := by
    rw [isChain_iff]; exact ⟨path1, h1, hp.1⟩
  obtain ⟨path0, hc0, _, hl⟩ := chain_split root c n oe hch
  rw [h1] at hc0
  simp at hc0
  subst hc0
  rw [hl] at hp
  exact ⟨hch, hp.2⟩

theorem first_sound (root : Node) (el : XElem) (p : XPos) (hp : p ∈ findFirst root el) :
    Good root [el] p := by
  rw [findFirst_eq] at hp
  rcases mem_addCands _ _ _ _ hp with h | ⟨hc, hm⟩
  · simp at h
  · simp only [List.mem_cons] at hc
    rcases hc with rfl | hc
    · refine ⟨[(root, none)], IsChain.root, ⟨[], rfl, rfl⟩, ?_⟩
      simpa [sat_cons] using hm
    · by_cases ha : el.anywhere = true
      · simp only [ha, if_true] at hc
        obtain ⟨pre, e, he, hpath, hpar, _⟩ := cand_sound root true p hc
        refine ⟨(root, none) :: pre ++ [(p.node, p.edge)], ?_, ⟨(root, none) :: pre, rfl, ?_⟩, ?_⟩
        · rw [isChain_iff]
          exact ⟨pre ++ [(p.node, p.edge)], by simp, by rw [he]; exact hpath⟩
        · rw [hpar, getLast?_cons_lastNode]
        · have := sat_snoc ((root, none) :: pre) (p.node, p.edge) [] el
          simp only [List.nil_append] at this
          rw [this]
          exact ⟨hm, Or.inl ⟨rfl, Or.inl ha⟩⟩
      · simp [ha] at hc

theorem step_sound (root : Node) (pre : List XElem) (hpre : pre ≠ []) (W : List XPos)
    (hW : ∀ q ∈ W, Good root pre q) (el : XElem) (p : XPos) (hp : p ∈ findStep W el) :
    Good root (pre ++ [el]) p := by
  rw [findStep_eq] at hp
  rcases mem_addCands _ _ _ _ hp with h | ⟨hc, hm⟩
  · simp at h
  · rw [List.mem_flatMap] at hc
    obtain ⟨w, hw, hc⟩ := hc
    obtain ⟨cw, hch, ⟨prew, rfl, hparw⟩, hs⟩ := hW w hw
    obtain ⟨pth, e, he, hpath, hpar, haw⟩ := cand_sound w.node el.anywhere p hc
    refine ⟨prew ++ [(w.node, w.edge)] ++ pth ++ [(p.node, p.edge)], ?_,
      ⟨prew ++ [(w.node, w.edge)] ++ pth, rfl, ?_⟩, ?_⟩
    · rw [List.append_assoc (prew ++ [(w.node, w.edge)])]
      apply chain_extend _ _ _ _ _ hch
      rw [he]; exact hpath
    · rw [hpar, List.append_assoc, List.getLast?_append]
      have := getLast?_cons_lastNode w.node w.edge pth
      simp only [List.singleton_append]
      cases hg : ((w.node, w.edge) :: pth).getLast? with
      | none => simp [hg] at this
      | some a => rw [hg] at this; simpa using this.symm
    · rw [sat_snoc]
      refine ⟨hm, Or.inr ⟨hpre, by simp, ?_⟩⟩
      cases hel : el.anywhere with
      | true => exact Or.inl ⟨rfl, _, pth, rfl, hs⟩
      | false =>
        obtain rfl := haw hel
        exact Or.inr ⟨rfl, by simpa using hs⟩

theorem fold_sound (root : Node) (rest pre : List XElem) (hpre : pre ≠ []) (W : List XPos)
    (hW : ∀ q ∈ W, Good root pre q) : ∀ p ∈ rest.foldl findStep W, Good root (pre ++ rest) p := by
  induction rest generalizing pre W with
  | nil => simpa using hW
  | cons el rest ih =>
    simp only [List.foldl_cons]
    have := ih (pre ++ [el]) (by simp) (findStep W el) (fun q hq => step_sound root pre hpre W hW el q hq)
    simpa using this

/-- (B, soundness) every position returned by `findall` is a position of the tree whose chain
satisfies the path -/
theorem findall_sound (els : List XElem) (root : Node) (p : XPos) (hp : p ∈ findallPos els root) :
    ∃ chain, IsChain root chain ∧ lastOf chain p ∧ sat chain els = true := by
  cases els with
  | nil => simp [findallPos] at hp
  | cons el rest =>
    exact fold_sound root rest [el] (by simp) _ (fun q hq => first_sound root el q hq) p hp

/-- (B) no position is returned twice -/
theorem findall_nodup (els : List XElem) (root : Node) : ((findallPos els root).map XPos.key).Nodup := by
  cases els with
  | nil => simp [findallPos]
  | cons el rest =>
    simp only [findallPos]
    have h0 : ((findFirst root el).map XPos.key).Nodup := by
      rw [findFirst_eq]; exact addCands_nodup _ _ _ (by simp)
    generalize findFirst root el = W at h0
    induction rest generalizing W with
    | nil => exact h0
    | cons e r ih =>
      simp only [List.foldl_cons]
      apply ih
      rw [findStep_eq]; exact addCands_nodup _ _ _ (by simp)

/-- (B) `find()` is the first element of `findall()` -/
theorem find_first (els : List XElem) (root : Node) :
    (findall els root).head? = ((findallPos els root).head?.map (·.node)) := by
  simp [findall]

/-! ### completeness -/

theorem inj_of_nodup_map {α β : Type} (f : α → β) (l : List α) (h : (l.map f).Nodup)
    (a b : α) (ha : a ∈ l) (hb : b ∈ l) (hab : f a = f b) : a = b := by
  induction l with
  | nil => simp at ha
  | cons x r ih =>
    simp only [List.map_cons, List.nodup_cons, List.mem_map, not_exists, not_and] at h
    simp only [List.mem_cons] at ha hb
    rcases ha with rfl | ha <;> rcases hb with rfl | hb
    · rfl
    · exact absurd hab.symm (h.1 b hb)
    · exact absurd hab (h.1 a ha)
    · exact ih h.2 ha hb

/-- what the search really needs of the tree: the identity `uid` determines the node.  Implied
by `NoRepeat` (and also true of a tree in which one object is stored at several places). -/
def UidInj (root : Node) : Prop :=
  ∀ a b, a ∈ allNodes root → b ∈ allNodes root → a.uid = b.uid → a = b

theorem uidInj_of_noRepeat (root : Node) (h : NoRepeat root) : UidInj root :=
  fun a b ha hb hab => inj_of_nodup_map _ _ h a b ha hb hab

theorem allNodes_eq (root : Node) : allNodes root = root :: (allItems root.items).map (·.node) := by
  simp [allNodes, C05.dfs_top_down, C05.pre_eq_preItems]

theorem path_last_edge (n : Node) (pth : Chain) (c : Node) (oe : Option Edge)
    (h : Path n (pth ++ [(c, oe)])) : ∃ e, oe = some e := by
  rw [path_append, path_single] at h
  obtain ⟨_, e, he, _⟩ := h
  exact ⟨e, he⟩

theorem chain_mem_allNodes (root : Node) (c : Chain) (n : Node) (oe : Option Edge)
    (h : IsChain root (c ++ [(n, oe)])) : n ∈ allNodes root := by
  obtain ⟨path0, _, hp, hl⟩ := chain_split root c n oe h
  rw [allNodes_eq]
  rcases List.eq_nil_or_concat path0 with rfl | ⟨pre, a, rfl⟩
  · simp at hl; simp [hl]
  · obtain ⟨m, oe'⟩ := a
    simp only [List.concat_eq_append] at hp hl
    obtain ⟨e, rfl⟩ := path_last_edge _ _ _ _ hp
    have := desc_complete root pre m e hp
    simp at hl
    subst hl
    simp only [List.mem_cons, List.mem_map]
    exact Or.inr ⟨_, this, rfl⟩

theorem getLast?_snoc_path (c0 : Chain) (m : Node) (oe : Option Edge) (c2 : Chain) :
    ((c0 ++ [(m, oe)] ++ c2).getLast?.map (·.1)) = some (lastNode m c2) := by
  rw [List.append_assoc, List.getLast?_append]
  have := getLast?_cons_lastNode m oe c2
  simp only [List.singleton_append]
  cases hg : ((m, oe) :: c2).getLast? with
  | none => simp [hg] at this
  | some a => rw [hg] at this; simpa using this

theorem first_complete (root : Node) (el : XElem) (p : XPos) (hp : Good root [el] p) :
    ∃ q ∈ findFirst root el, q.key = p.key := by
  obtain ⟨chain, hch, ⟨pre, rfl, hpar⟩, hs⟩ := hp
  have hsn := sat_snoc pre (p.node, p.edge) [] el
  simp only [List.nil_append] at hsn
  rw [hsn] at hs
  obtain ⟨hm, hab⟩ := hs
  rw [findFirst_eq]
  apply addCands_has_key _ _ _ p _ hm
  obtain ⟨path, hc, hpath⟩ := (isChain_iff _ _).1 hch
  cases pre with
  | nil =>
    simp at hc hpar
    obtain ⟨⟨h1, h2⟩, _⟩ := hc
    have : p = ⟨root, none, none⟩ := by
      cases p; simp at h1 h2 hpar; simp [h1, h2, hpar]
    simp [this]
  | cons a pre' =>
    simp only [List.cons_append, List.cons.injEq] at hc
    obtain ⟨rfl, rfl⟩ := hc
    have ha : el.anywhere = true := by
      rcases hab with ⟨_, h | h⟩ | ⟨h, _⟩
      · exact h
      · simp at h
      · simp at h
    obtain ⟨e, he⟩ := path_last_edge _ _ _ _ hpath
    rw [he] at hpath
    have hc := cand_complete root true pre' p.node e hpath (by simp)
    rw [getLast?_cons_lastNode] at hpar
    have : p = ⟨p.node, some (lastNode root pre'), some e⟩ := by
      cases p; simp at he hpar; simp [he, hpar]
    rw [← this] at hc
    simp [ha, hc]

theorem step_complete (root : Node) (hnr : UidInj root) (pre : List XElem) (hpre : pre ≠ [])
    (W : List XPos) (hS : ∀ q ∈ W, Good root pre q)
    (hC : ∀ p, Good root pre p → ∃ q ∈ W, q.key = p.key) (el : XElem) (p : XPos)
    (hp : Good root (pre ++ [el]) p) : ∃ q ∈ findStep W el, q.key = p.key := by
  obtain ⟨chain, hch, ⟨c, rfl, hpar⟩, hs⟩ := hp
  rw [sat_snoc] at hs
  obtain ⟨hm, hab⟩ := hs
  obtain ⟨c1, c2, rfl, hs1, haw⟩ : ∃ c1 c2, c = c1 ++ c2 ∧ sat c1 pre = true ∧
      (el.anywhere = false → c2 = []) := by
    rcases hab with ⟨h, _⟩ | ⟨_, _, ⟨ha, c1, c2, rfl, hs1⟩ | ⟨ha, hs1⟩⟩
    · exact absurd h hpre
    · exact ⟨c1, c2, rfl, hs1, by simp [ha]⟩
    · exact ⟨c, [], by simp, hs1, by simp⟩
  rcases List.eq_nil_or_concat c1 with rfl | ⟨c0, a, rfl⟩
  · simp [sat_nil_left] at hs1
  obtain ⟨m, oe⟩ := a
  simp only [List.concat_eq_append] at *
  rw [List.append_assoc (c0 ++ [(m, oe)])] at hch
  obtain ⟨hch1, hpath⟩ := chain_sub _ _ _ _ _ hch
  have hg1 : Good root pre ⟨m, c0.getLast?.map (·.1), oe⟩ := ⟨_, hch1, ⟨c0, rfl, rfl⟩, hs1⟩
  obtain ⟨q, hqW, hqk⟩ := hC _ hg1
  have hqm : q.node = m := by
    obtain ⟨cq, hcq, ⟨preq, rfl, _⟩, _⟩ := hS q hqW
    have h1 := chain_mem_allNodes _ _ _ _ hcq
    have h2 := chain_mem_allNodes _ _ _ _ hch1
    apply hnr _ _ h1 h2
    simp [XPos.key] at hqk
    exact hqk.1
  obtain ⟨e, he⟩ := path_last_edge _ _ _ _ hpath
  rw [he] at hpath
  have hc := cand_complete m el.anywhere c2 p.node e hpath haw
  rw [getLast?_snoc_path] at hpar
  have : p = ⟨p.node, some (lastNode m c2), some e⟩ := by
    cases p; simp at he hpar; simp [he, hpar]
  rw [← this] at hc
  rw [findStep_eq]
  apply addCands_has_key _ _ _ p _ hm
  rw [List.mem_flatMap]
  exact ⟨q, hqW, by rw [hqm]; exact hc⟩

theorem fold_complete (root : Node) (hnr : UidInj root) (rest pre : List XElem) (hpre : pre ≠ [])
    (W : List XPos) (hS : ∀ q ∈ W, Good root pre q)
    (hC : ∀ p, Good root pre p → ∃ q ∈ W, q.key = p.key) :
    ∀ p, Good root (pre ++ rest) p → ∃ q ∈ rest.foldl findStep W, q.key = p.key := by
  induction rest generalizing pre W with
  | nil => simpa using hC
  | cons el rest ih =>
    simp only [List.foldl_cons]
    have := ih (pre ++ [el]) (by simp) (findStep W el)
      (fun q hq => step_sound root pre hpre W hS el q hq)
      (fun p hp => step_complete root hnr pre hpre W hS hC el p hp)
    simpa using this

/-- completeness up to the key under the weaker hypothesis `UidInj` -/
theorem findall_complete_uidInj (els : List XElem) (root : Node) (h : UidInj root)
    (chain : Chain) (p : XPos) (hc : IsChain root chain) (hl : lastOf chain p)
    (hs : sat chain els = true) : ∃ q ∈ findallPos els root, q.key = p.key := by
  cases els with
  | nil => simp [sat_nil_right] at hs
  | cons el rest =>
    exact fold_complete root h rest [el] (by simp) _ (fun q hq => first_sound root el q hq)
      (fun p hp => first_complete root el p hp) p ⟨chain, hc, hl, hs⟩

/-- (B, completeness up to the de-duplication key) every position of the tree whose chain
satisfies the path is returned.  (`hne` is as in the task statement; it is implied by `hs`.) -/
theorem findall_complete (els : List XElem) (_hne : els ≠ []) (root : Node) (h : NoRepeat root)
    (chain : Chain) (p : XPos) (hc : IsChain root chain) (hl : lastOf chain p)
    (hs : sat chain els = true) : ∃ q ∈ findallPos els root, q.key = p.key :=
  findall_complete_uidInj els root (uidInj_of_noRepeat root h) chain p hc hl hs

theorem chain_prefix (root : Node) (c1 c2 : Chain) (h1 : c1 ≠ []) (h : IsChain root (c1 ++ c2)) :
    IsChain root c1 := by
  rcases List.eq_nil_or_concat c1 with rfl | ⟨c0, a, rfl⟩
  · exact absurd rfl h1
  · obtain ⟨m, oe⟩ := a
    simp only [List.concat_eq_append] at *
    exact (chain_sub _ _ _ _ _ h).1

theorem lastOf_parent_mem (root : Node) (chain : Chain) (p : XPos) (hc : IsChain root chain)
    (hl : lastOf chain p) (m : Node) (hm : p.parent = some m) : m ∈ allNodes root := by
  obtain ⟨pre, rfl, hpar⟩ := hl
  rcases List.eq_nil_or_concat pre with rfl | ⟨c0, a, rfl⟩
  · simp [hm] at hpar
  · obtain ⟨m', oe⟩ := a
    simp only [List.concat_eq_append] at *
    rw [hm] at hpar
    simp at hpar
    subst hpar
    exact chain_mem_allNodes _ _ _ _ (chain_prefix root _ _ (by simp) hc)

/-- under `NoRepeat` the de-duplication key identifies a position of the tree -/
theorem key_inj (root : Node) (hnr : UidInj root) (p q : XPos) (cp cq : Chain)
    (hcp : IsChain root cp) (hlp : lastOf cp p) (hcq : IsChain root cq) (hlq : lastOf cq q)
    (hk : q.key = p.key) : q = p := by
  have hpn : p.node ∈ allNodes root := by
    obtain ⟨pre, rfl, _⟩ := hlp; exact chain_mem_allNodes _ _ _ _ hcp
  have hqn : q.node ∈ allNodes root := by
    obtain ⟨pre, rfl, _⟩ := hlq; exact chain_mem_allNodes _ _ _ _ hcq
  have hpp := lastOf_parent_mem root cp p hcp hlp
  have hqp := lastOf_parent_mem root cq q hcq hlq
  obtain ⟨pn, pp, pe⟩ := p
  obtain ⟨qn, qp, qe⟩ := q
  simp only [XPos.key, Prod.mk.injEq] at hk
  obtain ⟨h1, h2, h3⟩ := hk
  have e1 : qn = pn := hnr _ _ hqn hpn h1
  have e2 : qp = pp := by
    cases qp with
    | none => cases pp with
      | none => rfl
      | some b => simp at h2
    | some a => cases pp with
      | none => simp at h2
      | some b =>
        simp at h2
        have := hnr _ _ (hqp a rfl) (hpp b rfl) h2
        rw [this]
  simp [e1, e2, h3]

theorem findall_complete_mem_uidInj (els : List XElem) (root : Node) (h : UidInj root)
    (chain : Chain) (p : XPos) (hc : IsChain root chain) (hl : lastOf chain p)
    (hs : sat chain els = true) : p ∈ findallPos els root := by
  obtain ⟨q, hq, hk⟩ := findall_complete_uidInj els root h chain p hc hl hs
  obtain ⟨cq, hcq, hlq, _⟩ := findall_sound els root q hq
  rw [← key_inj root h p q chain cq hc hl hcq hlq hk]
  exact hq

/-- (B, completeness, strengthened) under `NoRepeat` the position itself is returned -/
theorem findall_complete_mem (els : List XElem) (root : Node) (h : NoRepeat root)
    (chain : Chain) (p : XPos) (hc : IsChain root chain) (hl : lastOf chain p)
    (hs : sat chain els = true) : p ∈ findallPos els root :=
  findall_complete_mem_uidInj els root (uidInj_of_noRepeat root h) chain p hc hl hs

/-- summary: under `NoRepeat`, `findallPos` returns exactly the positions whose chain satisfies
the path (each once, by `findall_nodup`) -/
theorem findall_iff (els : List XElem) (root : Node) (h : NoRepeat root) (p : XPos) :
    p ∈ findallPos els root ↔ ∃ chain, IsChain root chain ∧ lastOf chain p ∧ sat chain els = true :=
  ⟨findall_sound els root p, fun ⟨chain, hc, hl, hs⟩ => findall_complete_mem els root h chain p hc hl hs⟩

/-! ## (C) the matcher over the `Tree` tables, given table correctness (C06) -/

/-- the ancestor loop: if every ancestor's verdict is what `g` says of the corresponding
non-empty suffix, the loop computes `anyUp g` -/
theorem foldr_anyUp (t : TreeT) (fuel : Nat) (tail : List XElem)
    (g : List (Node × Option Edge) → Bool) (up : List (Node × Option Edge))
    (h : ∀ pre a s, up = pre ++ a :: s → matchUpT t fuel a.1 tail = .ok (g (a :: s))) :
    (up.map (·.1)).foldr (fun a (acc : Except TErr Bool) =>
        match matchUpT t fuel a tail with
        | .error e => .error e
        | .ok true => .ok true
        | .ok false => acc) (.ok false) = .ok (anyUp g up) := by
  induction up with
  | nil => simp [anyUp]
  | cons a s ih =>
    simp only [List.map_cons, List.foldr_cons, anyUp]
    rw [h [] a s rfl, ih (fun pre b s' hs => h (a :: pre) b s' (by simp [hs]))]
    cases g (a :: s) <;> simp

/-- one level of the table matcher at a non-root node, everything above it abstracted -/
theorem matchUpT_step_nonroot (t : TreeT) (fuel : Nat) (n : Node) (el : XElem) (tail : List XElem)
    (p : Node) (e : Edge) (up : List (Node × Option Edge))
    (hpi : t.getParentInfo n = .ok (some ⟨p, e⟩))
    (hanc : t.getAncestors n = .ok (up.map (·.1)))
    (hne : up ≠ [])
    (hp : matchUpT t fuel p tail = .ok (matchUpC up tail))
    (hall : ∀ pre a s, up = pre ++ a :: s → matchUpT t fuel a.1 tail = .ok (matchUpC (a :: s) tail)) :
    matchUpT t (fuel + 1) n (el :: tail) = .ok (matchUpC ((n, some e) :: up) (el :: tail)) := by
  have hfold := foldr_anyUp t fuel tail (fun s => matchUpC s tail) up hall
  have hne' : up.isEmpty = false := by simpa using hne
  cases tail with
  | nil =>
    by_cases hm : matchElem n (some e) el = true <;> simp [matchUpT, matchUpC, hpi, hm, hne']
  | cons el2 tail2 =>
    by_cases hm : matchElem n (some e) el = true
    · cases hel : el.anywhere
      · simp [matchUpT, matchUpC, hpi, hm, hne', hel, hp]
      · rw [matchUpT]
        simp only [hpi, hanc]
        simp [matchUpC, hm, hne', hel]
        exact hfold
    · simp [matchUpT, matchUpC, hpi, hm]

theorem isChain_cases (root : Node) (c : Chain) (n : Node) (oe : Option Edge)
    (h : IsChain root (c ++ [(n, oe)])) :
    (c = [] ∧ n = root ∧ oe = none) ∨ (∃ c' p pe e, c = c' ++ [(p, pe)] ∧ oe = some e) := by
  generalize hch : c ++ [(n, oe)] = chain at h
  cases h with
  | root =>
    left
    cases c with
    | nil => simp at hch; simp [hch]
    | cons a r => simp at hch
  | snoc c' p pe n' e _ _ =>
    right
    have := List.append_inj' hch (by simp)
    simp at this
    exact ⟨c', p, pe, e, this.1, this.2.2⟩

theorem matchUpT_chain (root : Node)
    (hpi : ∀ c p pe n e, IsChain root (c ++ [(p, pe)] ++ [(n, some e)]) →
      (TreeT.build root).getParentInfo n = .ok (some ⟨p, e⟩))
    (hroot : (TreeT.build root).getParentInfo root = .ok none)
    (hanc : ∀ c n oe, IsChain root (c ++ [(n, oe)]) →
      (TreeT.build root).getAncestors n = .ok (c.reverse.map (·.1)))
    (fuel : Nat) (c : Chain) (n : Node) (oe : Option Edge) (els : List XElem)
    (hc : IsChain root (c ++ [(n, oe)])) (hf : (c ++ [(n, oe)]).length ≤ fuel) :
    matchUpT (TreeT.build root) fuel n els = .ok (matchUpC (c ++ [(n, oe)]).reverse els) := by
  induction fuel generalizing c n oe els with
  | zero => simp at hf
  | succ fuel ih =>
    cases els with
    | nil => simp [matchUpT, matchUpC_nil_right]
    | cons el tail =>
      rcases isChain_cases root c n oe hc with ⟨rfl, rfl, rfl⟩ | ⟨c', p, pe, e, rfl, rfl⟩
      · simp only [matchUpT, hroot, List.nil_append, List.reverse_cons, List.reverse_nil, matchUpC]
        by_cases hm : matchElem n none el = true <;> cases tail <;> simp [hm]
      · have hpi' := hpi c' p pe n e hc
        have hanc' := hanc _ n _ hc
        have hcp : IsChain root (c' ++ [(p, pe)]) := chain_prefix root _ _ (by simp) hc
        simp only [List.length_append, List.length_cons, List.length_nil] at hf
        have ihp := ih c' p pe tail hcp (by simp; omega)
        have hrev : (c' ++ [(p, pe)] ++ [(n, some e)]).reverse = (n, some e) :: (c' ++ [(p, pe)]).reverse := by
          simp
        rw [hrev]
        apply matchUpT_step_nonroot _ _ _ _ _ _ _ _ hpi' hanc' (by simp) ihp
        intro pre a s hs
        have hrev : c' ++ [(p, pe)] = s.reverse ++ [a] ++ pre.reverse := by
          have := congrArg List.reverse hs
          simpa using this
        obtain ⟨m, moe⟩ := a
        have hcs : IsChain root (s.reverse ++ [(m, moe)]) := by
          rw [hrev] at hcp
          exact chain_prefix root _ _ (by simp) hcp
        have hlen : (s.reverse ++ [(m, moe)]).length ≤ fuel := by
          have := congrArg List.length hrev
          simp at this ⊢; omega
        have := ih s.reverse m moe tail hcs hlen
        simpa using this

/-- (C) `ASTXpath.match` over the tables of `Tree(root)` computes the chain-level matcher, hence
(by `matchUpC_eq_sat`) the documented semantics, given the table-correctness facts of C06 -/
theorem matchUpT_eq (root : Node)
    (hpi : ∀ c p pe n e, IsChain root (c ++ [(p, pe)] ++ [(n, some e)]) →
      (TreeT.build root).getParentInfo n = .ok (some ⟨p, e⟩))
    (hroot : (TreeT.build root).getParentInfo root = .ok none)
    (hanc : ∀ c n oe, IsChain root (c ++ [(n, oe)]) →
      (TreeT.build root).getAncestors n = .ok (c.reverse.map (·.1)))
    (hlen : ∀ chain, IsChain root chain → chain.length ≤ root.size)
    (c : Chain) (n : Node) (oe : Option Edge) (elsRev : List XElem)
    (hc : IsChain root (c ++ [(n, oe)])) :
    matchUpT (TreeT.build root) (root.size + 1) n elsRev =
      .ok (matchUpC (c ++ [(n, oe)]).reverse elsRev) :=
  matchUpT_chain root hpi hroot hanc _ c n oe elsRev hc (by have := hlen _ hc; omega)

/-- (C, corollary) the table-level matcher decides `sat` -/
theorem matchUpT_eq_sat (root : Node)
    (hpi : ∀ c p pe n e, IsChain root (c ++ [(p, pe)] ++ [(n, some e)]) →
      (TreeT.build root).getParentInfo n = .ok (some ⟨p, e⟩))
    (hroot : (TreeT.build root).getParentInfo root = .ok none)
    (hanc : ∀ c n oe, IsChain root (c ++ [(n, oe)]) →
      (TreeT.build root).getAncestors n = .ok (c.reverse.map (·.1)))
    (hlen : ∀ chain, IsChain root chain → chain.length ≤ root.size)
    (c : Chain) (n : Node) (oe : Option Edge) (els : List XElem)
    (hc : IsChain root (c ++ [(n, oe)])) :
    matchUpT (TreeT.build root) (root.size + 1) n els.reverse = .ok (sat (c ++ [(n, oe)]) els) := by
  rw [matchUpT_eq root hpi hroot hanc hlen c n oe _ hc, matchUpC_eq_sat]

/-! ## non-vacuity: a concrete tree, 2- and 3-step paths -/

private def leaf (u : Nat) : Node :=
  .mk { uid := u, cls := ['L'], mro := [['L']], org := ⟨0, []⟩, props := [], truthy := true } []
private def mid : Node :=
  .mk { uid := 2, cls := ['M'], mro := [['M']], org := ⟨0, []⟩, props := [], truthy := false }
    [.mk ['x'] false [leaf 3]]
private def tree : Node :=
  .mk { uid := 0, cls := ['R'], mro := [['R']], org := ⟨0, []⟩, props := [], truthy := true }
    [.mk ['a'] true [leaf 1, mid], .mk ['b'] false [leaf 4]]

/-- `//M/L` -/
private def pML : List XElem := [⟨['M'], none, none, true⟩, ⟨['L'], none, none, false⟩]
/-- `/R/@a[0]L` -/
private def pRaL : List XElem := [⟨['R'], none, none, false⟩, ⟨['L'], some ['a'], some 0, false⟩]
/-- `/R//L` -/
private def pRL : List XElem := [⟨['R'], none, none, false⟩, ⟨['L'], none, none, true⟩]
/-- `/R/M/@x L` -/
private def pRMxL : List XElem :=
  [⟨['R'], none, none, false⟩, ⟨['M'], none, none, false⟩, ⟨['L'], some ['x'], none, false⟩]

/-- root-first chains of leaf 3, leaf 1 and `mid` -/
private def chain3 : Chain := [(tree, none), (mid, some ⟨['a'], some 1⟩), (leaf 3, some ⟨['x'], none⟩)]
private def chain1 : Chain := [(tree, none), (leaf 1, some ⟨['a'], some 0⟩)]
private def chainM : Chain := [(tree, none), (mid, some ⟨['a'], some 1⟩)]

private def isOkTrue : Except TErr Bool → Bool
  | .ok true => true
  | _ => false
private def isOkFalse : Except TErr Bool → Bool
  | .ok false => true
  | _ => false

-- `sat`, `matchUpC` and `findall` agree, and are true / non-empty where they should be
example : sat chain3 pML = true := by decide
example : matchUpC chain3.reverse pML.reverse = true := by decide
example : (findall pML tree).map (·.uid) = [3] := by decide
example : isOkTrue (matchUpT (TreeT.build tree) (tree.size + 1) (leaf 3) pML.reverse) = true := by decide

example : sat chain1 pRaL = true := by decide
example : matchUpC chain1.reverse pRaL.reverse = true := by decide
example : (findall pRaL tree).map (·.uid) = [1] := by decide
example : sat chain3 pRaL = false := by decide
example : matchUpC chain3.reverse pRaL.reverse = false := by decide
example : isOkFalse (matchUpT (TreeT.build tree) (tree.size + 1) (leaf 3) pRaL.reverse) = true := by decide

example : sat chain3 pRL = true ∧ sat chain1 pRL = true ∧ sat chainM pRL = false := by decide
example : matchUpC chain3.reverse pRL.reverse = true ∧ matchUpC chainM.reverse pRL.reverse = false := by
  decide
example : (findall pRL tree).map (·.uid) = [1, 3, 4] := by decide
example : (findallPos pRL tree).map XPos.key =
    [(1, some 0, some ⟨['a'], some 0⟩), (3, some 2, some ⟨['x'], none⟩), (4, some 0, some ⟨['b'], none⟩)] := by
  decide

example : sat chain3 pRMxL = true := by decide
example : matchUpC chain3.reverse pRMxL.reverse = true := by decide
example : (findall pRMxL tree).map (·.uid) = [3] := by decide

-- the hypotheses of the theorems are inhabited: the chains are chains, the tree has no repeats
example : IsChain tree chain3 := by
  rw [isChain_iff]
  refine ⟨_, rfl, ?_⟩
  simp [Path, tree, mid, Node.edges, Node.kids, Kid.edges, enumFrom]
example : NoRepeat tree := by unfold NoRepeat; decide

/-! ### the `NoRepeat` / `UidInj` hypothesis of completeness is necessary *in the model*

Two different nodes carrying the same `uid` (impossible for Python objects, where `uid` is object
identity, but expressible in the model): the positions `(X, P1, f)` and `(Y, P2, f)` get the same
de-duplication key, the second is dropped from the work list, and its child `Z` is never found
although its chain satisfies the path. -/

private def nd (u : Nat) (c : Str) (ks : List Kid) : Node :=
  .mk { uid := u, cls := c, mro := [c], org := ⟨0, []⟩, props := [], truthy := true } ks
private def zN : Node := nd 7 ['Z'] []
private def xN : Node := nd 5 ['X'] []
private def yN : Node := nd 5 ['X'] [.mk ['g'] false [zN]]
private def p1N : Node := nd 1 ['P'] [.mk ['f'] false [xN]]
private def p2N : Node := nd 1 ['P'] [.mk ['f'] false [yN]]
private def bad : Node := nd 0 ['R'] [.mk ['a'] true [p1N, p2N]]
/-- `/R/P/X/Z` -/
private def pBad : List XElem :=
  [⟨['R'], none, none, false⟩, ⟨['P'], none, none, false⟩, ⟨['X'], none, none, false⟩,
   ⟨['Z'], none, none, false⟩]
private def chainZ : Chain :=
  [(bad, none), (p2N, some ⟨['a'], some 1⟩), (yN, some ⟨['f'], none⟩), (zN, some ⟨['g'], none⟩)]

example : sat chainZ pBad = true := by decide
example : (findallPos pBad bad).length = 0 := by decide
example : IsChain bad chainZ := by
  rw [isChain_iff]
  refine ⟨_, rfl, ?_⟩
  simp [Path, bad, p2N, yN, nd, Node.edges, Node.kids, Kid.edges, enumFrom]
example : ¬ NoRepeat bad := by unfold NoRepeat; decide

end C07
end PyOak
