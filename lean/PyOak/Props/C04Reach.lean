/-
C04 (registry half): the hypotheses of `C04.roundtrip_alive` (`u` is an object of the heap) and of
`C04.roundtrip_fresh` / `roundtrip_iso` (`Covered`: the fuel of the serializer suffices) are DERIVED
for every state the machine can reach:

* `WF s` — children precede their parents in the heap (`HeapOrd`; hence the child relation is well
  founded and every subtree has height `< heap.length`) and the harness variables point into the
  heap (`RootsIn`); `wf_step`, `wf_run`: preserved by every admissible operation.
* `covered_heap` — `WF s → Inv s → u ∈ heap → Covered s s.heap.length u`; `live_in_heap`.
* `roundtrip_alive_history`, `roundtrip_fresh_history` — the two round-trip theorems for the state
  after ANY admissible history (`AllOkK {} ops`), with the fuel `heap.length`, and no hypothesis
  other than "live", "not detached" and "the fresh tokens are fresh".
* `deser_total` — `_deserialize` succeeds when there are at least as many tokens as serialized nodes.
-/
import PyOak.Props.C04RoundTrip
namespace PyOak
namespace C04
open RState RegL C03

/-! ### `_deserialize` succeeds given enough tokens -/

mutual
theorem deserAux_total : ∀ (t : SerTree) (s : RState) (f : Fresh), t.sids.length ≤ f.length →
    ∃ s' r fr, s.deserAux t f = some (s', r, fr) ∧ f.length ≤ fr.length + t.sids.length
  | .mk sid cls mro kids, s, f, h => by
    have hlen : (SerTree.sids (.mk sid cls mro kids)).length = (SerTree.sidsL kids).length + 1 := by
      rw [SerTree.sids]; simp
    rw [deserAux_eq]
    cases hg : s.regGet sid with
    | some u => exact ⟨s, u, f, rfl, by omega⟩
    | none =>
      obtain ⟨s1, us, fr1, hk, hl⟩ := deserKids_total kids s f (by omega)
      simp only [hk]
      cases fr1 with
      | nil => exfalso; simp at hl; omega
      | cons e fr' =>
        obtain ⟨tok, base⟩ := e
        exact ⟨_, tok, fr', rfl, by simp at hl ⊢; omega⟩
theorem deserKids_total : ∀ (ts : List SerTree) (s : RState) (f : Fresh), (SerTree.sidsL ts).length ≤ f.length →
    ∃ s' us fr, s.deserKids ts f = some (s', us, fr) ∧ f.length ≤ fr.length + (SerTree.sidsL ts).length
  | [], s, f, _ => ⟨s, [], f, deserKids_nil s f, by omega⟩
  | t :: r, s, f, h => by
    have hlen : (SerTree.sidsL (t :: r)).length = t.sids.length + (SerTree.sidsL r).length := by
      rw [SerTree.sidsL]; simp
    obtain ⟨s1, u, f1, ha, hl1⟩ := deserAux_total t s f (by omega)
    obtain ⟨s2, us, f2, hk, hl2⟩ := deserKids_total r s1 f1 (by omega)
    exact ⟨s2, u :: us, f2, by rw [deserKids_cons, ha]; simp only [hk], by omega⟩
end

/-- `_deserialize` of a payload succeeds when there is a token for every serialized node -/
theorem deser_total (t : SerTree) (s : RState) (f : Fresh) (h : t.sids.length ≤ f.length) :
    ∃ s' r fr, s.deserAux t f = some (s', r, fr) :=
  let ⟨s', r, fr, h, _⟩ := deserAux_total t s f h
  ⟨s', r, fr, h⟩

/-! ### the heap order -/

/-- children precede their parents in the heap -/
def HeapOrd (s : RState) : Prop :=
  ∀ i o, s.heap[i]? = some o → ∀ k ∈ o.kids, k ∈ (s.heap.take i).map (·.uid)

/-- the harness variables point to objects of the heap -/
def RootsIn (s : RState) : Prop := ∀ r ∈ s.roots, r.2 ∈ s.heap.map (·.uid)

structure WF (s : RState) : Prop where
  ord : HeapOrd s
  roots : RootsIn s

theorem wf_empty : WF {} := ⟨by intro i o h; simp at h, by intro r h; simp at h⟩

theorem heapOrd_congr {s s' : RState} (h : s'.heap = s.heap) (hO : HeapOrd s) : HeapOrd s' := by
  intro i o ho k hk
  rw [h] at ho ⊢
  exact hO i o ho k hk

theorem mem_take_uids {heap : List RObj} {i k : Nat} (h : k ∈ (heap.take i).map (·.uid)) : k ∈ heap.map (·.uid) := by
  obtain ⟨o, ho, rfl⟩ := List.mem_map.mp h
  exact List.mem_map.mpr ⟨o, List.mem_of_mem_take ho, rfl⟩

theorem heapOrd_pNew {s : RState} (hO : HeapOrd s) {ks : List Nat} (hk : ∀ k ∈ ks, k ∈ s.heap.map (·.uid))
    (tok : Nat) (cls : Str) (mro : List Str) (base : Str) : HeapOrd (s.pNew tok cls mro base ks) := by
  intro i o ho k hko
  simp only [pNew] at ho ⊢
  by_cases hi : i < s.heap.length
  · rw [List.getElem?_append_left hi] at ho
    rw [List.take_append_of_le_length (Nat.le_of_lt hi)]
    exact hO i o ho k hko
  · by_cases hi' : i = s.heap.length
    · subst hi'
      rw [List.getElem?_append_right (Nat.le_refl _)] at ho
      simp at ho
      subst ho
      rw [List.take_left']
      · exact hk k hko
      · rfl
    · rw [List.getElem?_eq_none (by simp; omega)] at ho
      cases ho

theorem heapOrd_pForceId {s : RState} (hO : HeapOrd s) (u : Nat) (sid : Str) : HeapOrd (s.pForceId u sid) := by
  intro i o ho k hk
  simp only [pForceId] at ho ⊢
  rw [List.getElem?_map] at ho
  cases h0 : s.heap[i]? with
  | none => simp [h0] at ho
  | some o0 =>
    simp only [h0, Option.map_some, Option.some.injEq] at ho
    have hk0 : k ∈ o0.kids := by
      rw [← ho] at hk
      split at hk <;> exact hk
    have := hO i o0 h0 k hk0
    rw [← List.map_take, List.map_map]
    obtain ⟨x, hx, rfl⟩ := List.mem_map.mp this
    refine List.mem_map.mpr ⟨x, hx, ?_⟩
    simp only [Function.comp]
    split <;> rfl

theorem uids_pNew (s : RState) (tok : Nat) (cls : Str) (mro : List Str) (base : Str) (ks : List Nat) :
    (s.pNew tok cls mro base ks).heap.map (·.uid) = s.heap.map (·.uid) ++ [tok] := by
  simp [pNew]

/-- a live object is an object of the heap -/
theorem live_in_heap {s : RState} (hW : WF s) {u : Nat} (hl : s.isLive u = true) : u ∈ s.heap.map (·.uid) := by
  refine isLive_ind (s := s) (fun a => a ∈ s.heap.map (fun (o : RObj) => o.uid)) hW.roots ?_ hl
  intro a _ b hb
  cases ho : s.obj? a with
  | none => simp [kidsOf, ho] at hb
  | some o =>
    rw [kidsOf_obj ho] at hb
    obtain ⟨i, hi⟩ := List.mem_iff_getElem?.mp (obj?_some ho).1
    exact mem_take_uids (hW.ord i o hi b hb)

theorem covered_le {s : RState} : ∀ {n m u : Nat}, s.Covered n u → n ≤ m → s.Covered m u := by
  intro n m u h hle
  induction hle with
  | refl => exact h
  | step _ ih => exact covered_mono ih

theorem heapOrd_covered {s : RState} (hO : HeapOrd s) (hnd : (s.heap.map (·.uid)).Nodup) :
    ∀ (i : Nat) (o : RObj), s.heap[i]? = some o → s.Covered (i + 1) o.uid := by
  intro i
  induction i using Nat.strongRecOn with
  | _ i ih =>
    intro o ho
    have hm : o ∈ s.heap := List.mem_of_getElem? ho
    rw [covered_succ]
    refine ⟨by rw [obj?_of_mem hnd hm]; rfl, ?_⟩
    intro k hk
    rw [kidsOf_of_mem hnd hm] at hk
    obtain ⟨ok, hok, rfl⟩ := List.mem_map.mp (hO i o ho k hk)
    obtain ⟨j, hj⟩ := List.mem_iff_getElem?.mp hok
    rw [List.getElem?_take] at hj
    split at hj
    · rename_i hlt
      exact covered_le (ih j hlt ok hj) (by omega)
    · cases hj

/-- the fuel `heap.length` always suffices for the serializer -/
theorem covered_heap {s : RState} (hO : HeapOrd s) (hI : Inv s) {u : Nat} (hu : u ∈ s.heap.map (·.uid)) :
    s.Covered s.heap.length u := by
  obtain ⟨o, ho, rfl⟩ := List.mem_map.mp hu
  obtain ⟨i, hi⟩ := List.mem_iff_getElem?.mp ho
  have hlt : i < s.heap.length := by
    rcases Nat.lt_or_ge i s.heap.length with h | h
    · exact h
    · rw [List.getElem?_eq_none h] at hi; cases hi
  exact covered_le (heapOrd_covered hO hI.heapNodup i o hi) (by omega)

/-! ### `duplicate` and `_deserialize` keep the heap order -/

mutual
theorem deserAux_ord : ∀ (t : SerTree) (s : RState) (f : Fresh) (s' : RState) (r : Nat) (fr : Fresh),
    Inv s → FreshOk s f → HeapOrd s → s.deserAux t f = some (s', r, fr) →
    HeapOrd s' ∧ r ∈ s'.heap.map (·.uid) ∧ ∀ x ∈ s.heap.map (·.uid), x ∈ s'.heap.map (·.uid)
  | .mk sid cls mro kids, s, f, s', r, fr, hI, hf, hO, h => by
    rcases deserAux_inv h with ⟨hg, rfl, rfl⟩ | ⟨_, s1, ks, base, hk, rfl⟩
    · obtain ⟨o, ho, h1, _⟩ := hI.regId _ _ (rget_some_mem hg)
      exact ⟨hO, List.mem_map.mpr ⟨o, ho, h1⟩, fun x hx => hx⟩
    · obtain ⟨hO1, hks, hsub⟩ := deserKids_ord kids s f s1 ks _ hI hf hO hk
      have hO2 := heapOrd_pNew hO1 hks r cls mro base
      have hu2 := uids_pNew s1 r cls mro base ks
      split
      · refine ⟨hO2, by rw [hu2]; simp, ?_⟩
        intro x hx; rw [hu2]; exact List.mem_append_left _ (hsub x hx)
      · refine ⟨heapOrd_pForceId hO2 r sid, by rw [pForceId_uids, hu2]; simp, ?_⟩
        intro x hx; rw [pForceId_uids, hu2]; exact List.mem_append_left _ (hsub x hx)
theorem deserKids_ord : ∀ (ts : List SerTree) (s : RState) (f : Fresh) (s' : RState) (us : List Nat) (fr : Fresh),
    Inv s → FreshOk s f → HeapOrd s → s.deserKids ts f = some (s', us, fr) →
    HeapOrd s' ∧ (∀ u ∈ us, u ∈ s'.heap.map (·.uid)) ∧ ∀ x ∈ s.heap.map (·.uid), x ∈ s'.heap.map (·.uid)
  | [], s, f, s', us, fr, _, _, hO, h => by
    simp [deserKids_nil] at h
    obtain ⟨rfl, rfl, _⟩ := h
    exact ⟨hO, by intro u hu; simp at hu, fun x hx => hx⟩
  | t :: r, s, f, s', us, fr, hI, hf, hO, h => by
    obtain ⟨s1, u, f1, us', ha, hk, rfl⟩ := deserKids_cons_inv h
    obtain ⟨hI1, hf1⟩ := evol_good (deserAux_evol t s f s1 u f1 ha) hI hf
    obtain ⟨hO1, hu1, hsub1⟩ := deserAux_ord t s f s1 u f1 hI hf hO ha
    obtain ⟨hO2, hus, hsub2⟩ := deserKids_ord r s1 f1 s' us' fr hI1 hf1 hO1 hk
    refine ⟨hO2, ?_, fun x hx => hsub2 x (hsub1 x hx)⟩
    intro w hw
    rcases List.mem_cons.mp hw with rfl | hw
    · exact hsub2 _ hu1
    · exact hus w hw
end

theorem dupAux_ord : ∀ (fuel : Nat) (s : RState) (u : Nat) (f : Fresh) (s' : RState) (r : Nat) (fr : Fresh),
    HeapOrd s → s.dupAux fuel u f = some (s', r, fr) →
    HeapOrd s' ∧ r ∈ s'.heap.map (·.uid) ∧ ∀ x ∈ s.heap.map (·.uid), x ∈ s'.heap.map (·.uid)
  | 0, s, u, f, s', r, fr, _, h => by simp [dupAux_zero] at h
  | fuel + 1, s, u, f, s', r, fr, hO, h => by
    obtain ⟨o, s1, ks, base, _, hfold, rfl⟩ := dupAux_inv h
    have key : ∀ (kids : List Nat) (s0 : RState) (ks0 : List Nat) (f0 : Fresh) (res : RState × List Nat × Fresh),
        HeapOrd s0 → (∀ k ∈ ks0, k ∈ s0.heap.map (·.uid)) →
        dupFold fuel kids (some (s0, ks0, f0)) = some res →
        HeapOrd res.1 ∧ (∀ k ∈ res.2.1, k ∈ res.1.heap.map (·.uid)) ∧
          ∀ x ∈ s0.heap.map (·.uid), x ∈ res.1.heap.map (·.uid) := by
      intro kids
      induction kids with
      | nil =>
        intro s0 ks0 f0 res hO0 hks h
        simp [dupFold_nil] at h; subst h; exact ⟨hO0, hks, fun x hx => hx⟩
      | cons c rest ih =>
        intro s0 ks0 f0 res hO0 hks h
        obtain ⟨s1, c', fr1, hd, hr⟩ := dupFold_cons_inv h
        obtain ⟨hO1, hc', hsub1⟩ := dupAux_ord fuel s0 c f0 s1 c' fr1 hO0 hd
        have hks1 : ∀ k ∈ ks0 ++ [c'], k ∈ s1.heap.map (·.uid) := by
          intro k hk
          rcases List.mem_append.mp hk with h | h
          · exact hsub1 k (hks k h)
          · simp at h; subst h; exact hc'
        obtain ⟨hO2, hks2, hsub2⟩ := ih _ _ _ _ hO1 hks1 hr
        exact ⟨hO2, hks2, fun x hx => hsub2 x (hsub1 x hx)⟩
    obtain ⟨hO1, hks, hsub⟩ := key _ _ _ _ _ hO (by intro k hk; simp at hk) hfold
    refine ⟨heapOrd_pNew hO1 hks _ _ _ _, by rw [uids_pNew]; simp, ?_⟩
    intro x hx; rw [uids_pNew]; exact List.mem_append_left _ (hsub x hx)

/-! ### every operation keeps `WF` -/

theorem detachAll_roots : ∀ (us : List Nat) (s : RState), (detachAll s us).roots = s.roots
  | [], _ => rfl
  | c :: r, s => by rw [detachAll_cons, detachAll_roots r, pDetachSelf_fst_roots]

theorem wf_bind {s : RState} (hW : WF s) (v : Nat) {u : Nat} (hu : u ∈ s.heap.map (·.uid)) : WF (s.bind v u) := by
  refine ⟨heapOrd_congr rfl hW.ord, ?_⟩
  intro r hr
  simp only [RState.bind, List.mem_append, List.mem_singleton] at hr
  rcases hr with hr | rfl
  · exact hW.roots r (List.mem_filter.mp hr).1
  · exact hu

theorem wf_of_grow {s s1 : RState} (hW : WF s) (hO : HeapOrd s1) (hr : s1.roots = s.roots)
    (hsub : ∀ x ∈ s.heap.map (·.uid), x ∈ s1.heap.map (·.uid)) : WF s1 :=
  ⟨hO, by intro r h; rw [hr] at h; exact hsub _ (hW.roots r h)⟩

theorem wf_pNew {s : RState} (hW : WF s) {ks : List Nat} (hk : ∀ k ∈ ks, k ∈ s.heap.map (·.uid))
    (tok : Nat) (cls : Str) (mro : List Str) (base : Str) : WF (s.pNew tok cls mro base ks) :=
  wf_of_grow hW (heapOrd_pNew hW.ord hk _ _ _ _) rfl
    (by intro x hx; rw [uids_pNew]; exact List.mem_append_left _ hx)

theorem wf_same {s s1 : RState} (hW : WF s) (hh : s1.heap = s.heap) (hr : s1.roots = s.roots) : WF s1 :=
  ⟨heapOrd_congr hh hW.ord, by intro r h; rw [hr] at h; rw [hh]; exact hW.roots r h⟩

theorem wf_pre {s : RState} {op : ROp} {s1 : RState} (hW : WF s) (hI : Inv s) (hok : OpOk s op)
    (hp : Pre s op s1) : WF s1 := by
  have hlive : ∀ {ks : List Nat}, ks.all s.isLive = true → ∀ k ∈ ks, k ∈ s.heap.map (·.uid) :=
    fun h k hk => live_in_heap hW (List.all_eq_true.mp h k hk)
  cases hp with
  | construct hk =>
    refine wf_bind (wf_pNew hW (hlive hk) _ _ _ _) _ ?_
    rw [uids_pNew]; simp
  | duplicate hx h =>
    obtain ⟨hO1, hu, hsub⟩ := dupAux_ord _ _ _ _ _ _ _ hW.ord h
    exact wf_bind (wf_of_grow hW hO1 (dupAux_evol _ _ _ _ _ _ _ h).roots hsub) _ hu
  | duplicateD hx h =>
    obtain ⟨hO1, _, hsub⟩ := dupAux_ord _ _ _ _ _ _ _ hW.ord h
    exact wf_of_grow hW hO1 (dupAux_evol _ _ _ _ _ _ _ h).roots hsub
  | dcReplace hx hk ho =>
    refine wf_bind (wf_pNew hW (hlive hk) _ _ _ _) _ ?_
    rw [uids_pNew]; simp
  | @replaceFail v x kids hx hk =>
    split
    · exact wf_same hW (by simp [pRestore, pDetachSelf_fst_heap]) (by simp [pRestore, pDetachSelf_fst_roots])
    · exact wf_same hW (pDetachSelf_fst_heap s x) (pDetachSelf_fst_roots s x)
  | @replaceOk v x kids tok base o hx hk ho =>
    have hW1 : WF (s.pDetachSelf x).1 := wf_same hW (pDetachSelf_fst_heap s x) (pDetachSelf_fst_roots s x)
    refine wf_bind (wf_pNew hW1 ?_ _ _ _ _) _ ?_
    · rw [pDetachSelf_fst_heap]; exact hlive hk
    · rw [uids_pNew]; simp
  | detach hx =>
    exact wf_same hW (by rw [detachAll_heap, pDetachSelf_fst_heap]) (by rw [detachAll_roots, pDetachSelf_fst_roots])
  | detachSelf hx => exact wf_same hW (pDetachSelf_fst_heap s _) (pDetachSelf_fst_roots s _)
  | asObj h =>
    obtain ⟨hO1, hu, hsub⟩ := deserAux_ord _ _ _ _ _ _ hI hok hW.ord h
    exact wf_bind (wf_of_grow hW hO1 (deserAux_evol _ _ _ _ _ _ h).roots hsub) _ hu
  | asObjD h =>
    obtain ⟨hO1, _, hsub⟩ := deserAux_ord _ _ _ _ _ _ hI hok hW.ord h
    exact wf_of_grow hW hO1 (deserAux_evol _ _ _ _ _ _ h).roots hsub
  | alias hu => exact wf_bind hW _ (live_in_heap hW hu)
  | drop =>
    refine ⟨heapOrd_congr rfl hW.ord, ?_⟩
    intro r hr
    exact hW.roots r (List.mem_filter.mp hr).1

theorem wf_step {s : RState} {op : ROp} (hW : WF s) (hI : Inv s) (hok : OpOk s op) : WF (s.step op).1 := by
  rcases step_shape s op with h | ⟨s1, hp, h⟩
  · rw [h]; exact hW
  · rw [h]; exact wf_same (wf_pre hW hI hok hp) rfl rfl

theorem wf_run_from : ∀ (ops : List ROp) (s : RState), WF s → Inv s → AllOk s ops → WF (run s ops)
  | [], _, hW, _, _ => hW
  | _ :: r, _, hW, hI, hok => wf_run_from r _ (wf_step hW hI hok.1) (inv_step hI hok.1) hok.2

theorem wf_run (ops : List ROp) (hok : AllOk {} ops) : WF (run {} ops) :=
  wf_run_from ops {} wf_empty inv_empty hok

theorem allOk_of_allOkK : ∀ (ops : List ROp) (s : RState), AllOkK s ops → AllOk s ops
  | [], _, _ => trivial
  | _ :: r, _, h => ⟨h.1, allOk_of_allOkK r _ h.2.2⟩

/-! ### the round trip after any admissible history -/

/-- **(a) for all histories**: after any admissible history, `as_obj(u.as_dict())` of a live, not
detached node answers `u` itself and creates nothing -/
theorem roundtrip_alive_history (ops : List ROp) (hok : AllOkK {} ops) {u : Nat}
    (hl : (run {} ops).isLive u = true) (hd : u ∉ (run {} ops).detached) (n v : Nat) (f : Fresh) :
    (run {} ops).deserAux ((run {} ops).serOf n u) f = some (run {} ops, u, f) ∧
    ((run {} ops).step (.asObj v ((run {} ops).serOf n u) [])).2 = .ok (some u) none := by
  have hok' := allOk_of_allOkK ops {} hok
  have hI : Inv (run {} ops) := inv_run ops hok'
  have hL := liveRegistered_run ops hok
  have hu := live_in_heap (wf_run ops hok') hl
  exact ⟨roundtrip_alive hI hL hu hl hd n f, (roundtrip_alive_step hI hL hu hl hd n v).1⟩

/-- **(b) for all histories**: the tree below a live node `u` none of whose nodes was detached,
serialized after any admissible history and read back in a fresh process with enough tokens:
`_deserialize` succeeds and the result is `Iso` to the original (and consists of new objects,
registered under the serialized ids) -/
theorem roundtrip_fresh_history (ops : List ROp) (hok : AllOkK {} ops) {u : Nat}
    (hl : (run {} ops).isLive u = true) (hd : ∀ v, Desc (run {} ops) u v → v ∉ (run {} ops).detached)
    {f : Fresh} (hf : FreshOk {} f)
    (hlen : ((run {} ops).serOf (run {} ops).heap.length u).sids.length ≤ f.length) :
    ∃ s' u' fr, ({} : RState).deserAux ((run {} ops).serOf (run {} ops).heap.length u) f = some (s', u', fr) ∧
      Iso (run {} ops) u s' u' ∧ ∀ v, Desc (run {} ops) u v → Good (run {} ops) s' (f.map (·.1)) v := by
  have hok' := allOk_of_allOkK ops {} hok
  have hI : Inv (run {} ops) := inv_run ops hok'
  have hL := liveRegistered_run ops hok
  have hW := wf_run ops hok'
  have hcov := covered_heap hW.ord hI (live_in_heap hW hl)
  obtain ⟨s', u', fr, h⟩ := deser_total _ ({} : RState) f hlen
  exact ⟨s', u', fr, h, roundtrip_fresh_process hI hL hcov hl hd hf h⟩

section Examples
private def A : Str := "A".toList
private def hist : List ROp :=
  [ .construct 0 A [A] [] [(1, "l".toList)], .construct 1 A [A] [1, 1] [(2, "p".toList)], .drop 0 ]
example : AllOkK {} hist ∧ (run {} hist).isLive 2 = true ∧ (run {} hist).detached = [] ∧
    FreshOk {} [(7, "l".toList), (8, "q".toList), (9, "r".toList)] ∧
    ((run {} hist).serOf (run {} hist).heap.length 2).sids.length = 3 := by decide
example : WF (run {} hist) := wf_run hist (by decide)
end Examples

end C04
end PyOak

#print axioms PyOak.C04.deser_total
#print axioms PyOak.C04.covered_heap
#print axioms PyOak.C04.live_in_heap
#print axioms PyOak.C04.wf_step
#print axioms PyOak.C04.wf_run
#print axioms PyOak.C04.roundtrip_alive_history
#print axioms PyOak.C04.roundtrip_fresh_history
