/- import-only aggregate: the two OPTIONAL translation ties of C07 (`_match_node_xpath`, `ASTXpath.findall`), so that one
   axiom audit covers both (harness/kernels_tie.py `optional_obligation`) -/
import PyOak.Props.GenBridgeXPath
import PyOak.Props.GenBridgeFindall
