/-
C15 (additions, target 2) — `concat_origins` as a statement about the OPERAND LIST.

`concat_origins(o, *os)` folds `+`.  The accumulated value can fuse with the next operand only while it is still ONE code
origin, i.e. only at the head of the list of non-empty operands.  So (all for flat operands, no validity hypothesis, no
`= .ok r` hypothesis):

* `concat_eq_merge_fuse`:  `concat o os = merge (fuseLive (live (o :: os)))` where `live` drops the NoOrigin operands and
  `fuseLive` replaces, left to right, the first two operands by their hull while they are fusable code origins
  (same source, overlapping or touching);
* `concat_eq_merge_iff`:   `concat o os = merge (o :: os)`  IFF  the first two non-empty operands are not fusable;
* `concat_eq_merge`:       in particular whenever no two adjacent non-empty operands are fusable;
  `concat_eq_merge_adjacent_fails`: "adjacent" must be read after dropping NoOrigin (witness `[c02, NoOrigin, c24]`);
  `concat_inner_not_fused`: fusable neighbours that are NOT at the head are listed unfused (`[xB, c02, c24]`);
* `concat_lists_operands`: the result lists exactly the operands with NoOrigin dropped and multi-origins flattened, in
  order (`(o :: os).flatMap leaves`), when the head is not fusable; `concat_lists_fused` in general.
-/
import PyOak.Props.C15Total
namespace PyOak.C15
open PyOak.Gen PyOak.OriginAlg

/-- the operands that are not NoOrigin, in order -/
def live (xs : List Origin) : List Origin := xs.filter (fun o => !o.isNone)

/-- the single code origin two fusable code origins are replaced by: the LEFT source, the hull of the ranges, class
`CodeOrigin` (never `GeneratedCodeOrigin`) -/
def fuse : Origin → Origin → Origin
  | .code _ sa ra, .code _ _ rb => .code false sa (ra.add rb)
  | a, _ => a

/-- fuse `a` with the following operands as long as the next one is fusable with what has been accumulated -/
def fuseFrom : Origin → List Origin → List Origin
  | a, [] => [a]
  | a, b :: r => if mergeable a b then fuseFrom (fuse a b) r else a :: b :: r

/-- head fusion on a list of non-empty operands -/
def fuseLive : List Origin → List Origin
  | [] => []
  | a :: r => fuseFrom a r

/-- the first two non-empty operands are fusable code origins -/
def headFusable (xs : List Origin) : Bool :=
  match live xs with
  | a :: b :: _ => mergeable a b
  | _ => false

/-- some two neighbours are fusable code origins -/
def adjFusable : List Origin → Bool
  | a :: b :: r => mergeable a b || adjFusable (b :: r)
  | _ => false

/-! ### single `+` steps -/

theorem flat_none : Flat .none := trivial

theorem add_none_right (a : Origin) (ha : Flat a) : add a .none = .ok a := by
  have hm : mergeable a .none = false := by cases a <;> rfl
  rw [add_eq_merge a .none hm, merge_flat_spec [a, .none] (by intro o ho; simp at ho; rcases ho with rfl | rfl <;> trivial)]
  simpa [leaves] using flat_pack_leaves a ha

theorem add_none_left (b : Origin) (hb : Flat b) : add .none b = .ok b := by
  have hm : mergeable .none b = false := rfl
  rw [add_eq_merge .none b hm, merge_flat_spec [.none, b] (by intro o ho; simp at ho; rcases ho with rfl | rfl <;> trivial)]
  simpa [leaves] using flat_pack_leaves b hb

theorem mergeable_code (a b : Origin) (h : mergeable a b = true) :
    ∃ ga sa ra gb sb rb, a = .code ga sa ra ∧ b = .code gb sb rb := by
  cases a <;> cases b <;> simp [mergeable] at h
  exact ⟨_, _, _, _, _, _, rfl, rfl⟩

theorem add_mergeable (a b : Origin) (h : mergeable a b = true) : add a b = .ok (fuse a b) := by
  obtain ⟨ga, sa, ra, gb, sb, rb, rfl, rfl⟩ := mergeable_code a b h
  exact add_fuse ga gb sa sb ra rb h

theorem fuse_leaf (a b : Origin) (h : mergeable a b = true) :
    (fuse a b).isNone = false ∧ Flat (fuse a b) ∧ leaves (fuse a b) = [fuse a b] := by
  obtain ⟨ga, sa, ra, gb, sb, rb, rfl, rfl⟩ := mergeable_code a b h
  exact ⟨rfl, trivial, rfl⟩

/-- a flat origin that is not NoOrigin lists at least one single origin -/
theorem flat_leaves_ne (a : Origin) (ha : Flat a) (hn : a.isNone = false) : 1 ≤ (leaves a).length := by
  cases a with
  | none => simp [Origin.isNone] at hn
  | code g s r => simp [leaves]
  | other k s p => simp [leaves]
  | multi s p os =>
    obtain ⟨_, hm⟩ := ha
    match os, hm with
    | [], hm => simp [mkMulti] at hm
    | [_], hm => simp [mkMulti] at hm
    | x :: y :: r, _ => simp [leaves]

/-- a `+` that does not fuse, on flat operands: returns a flat origin listing both listings -/
theorem add_unfused (a b : Origin) (ha : Flat a) (hb : Flat b) (hm : mergeable a b = false) :
    ∃ r, add a b = .ok r ∧ Flat r ∧ leaves r = leaves a ++ leaves b := by
  obtain ⟨r, hr⟩ := add_total a b
  refine ⟨r, hr, ?_⟩
  rw [add_eq_merge a b hm] at hr
  have := merge_flat [a, b] (by intro o ho; simp at ho; rcases ho with rfl | rfl <;> assumption) r hr
  simpa using this

/-! ### NoOrigin operands can be dropped -/

theorem concat_live_tail (a : Origin) (t : List Origin) (ha : Flat a) (hf : ∀ b ∈ t, Flat b) :
    concat a t = concat a (live t) := by
  induction t generalizing a with
  | nil => rfl
  | cons b t ih =>
    have hft : ∀ c ∈ t, Flat c := fun c hc => hf c (by simp [hc])
    by_cases hb : b.isNone = true
    · have : b = .none := by cases b <;> simp_all [Origin.isNone]
      subst this
      have hl : live (Origin.none :: t) = live t := by simp [live, Origin.isNone]
      rw [hl, concat_cons, add_none_right a ha]
      exact ih a ha hft
    · have hl : live (b :: t) = b :: live t := by simp [live, hb]
      obtain ⟨a', ha'⟩ := add_total a b
      have hfa' := (add_flat a b ha (hf b (by simp)) a' ha').1
      rw [hl, concat_cons, concat_cons, ha']
      exact ih a' hfa' hft

theorem live_flat (xs : List Origin) (hf : ∀ b ∈ xs, Flat b) : ∀ b ∈ live xs, Flat b ∧ b.isNone = false := by
  intro b hb
  simp only [live, List.mem_filter, Bool.not_eq_eq_eq_not, Bool.not_true] at hb
  exact ⟨hf b hb.1, hb.2⟩

/-- `concat_origins` sees only the non-empty operands -/
theorem concat_live (o : Origin) (os : List Origin) (ho : Flat o) (hf : ∀ b ∈ os, Flat b) :
    concat o os = (match live (o :: os) with
      | [] => .ok .none
      | a :: r => concat a r) := by
  rw [concat_live_tail o os ho hf]
  by_cases hn : o.isNone = true
  · have : o = .none := by cases o <;> simp_all [Origin.isNone]
    subst this
    have hl : live (Origin.none :: os) = live os := by simp [live, Origin.isNone]
    rw [hl]
    match h : live os with
    | [] => rfl
    | b :: r =>
      have hb : b ∈ live os := by rw [h]; simp
      show concat Origin.none (b :: r) = concat b r
      rw [concat_cons, add_none_left b (live_flat os hf b hb).1]; rfl
  · have hl : live (o :: os) = o :: live os := by simp [live, hn]
    rw [hl]

theorem flatMap_leaves_live (xs : List Origin) : (live xs).flatMap leaves = xs.flatMap leaves := by
  induction xs with
  | nil => rfl
  | cons x r ih =>
    cases x <;> simp_all [live, Origin.isNone, leaves, List.flatMap_cons]

theorem merge_live (xs : List Origin) (hf : ∀ b ∈ xs, Flat b) : merge (live xs) = merge xs := by
  rw [merge_flat_spec xs hf, merge_flat_spec (live xs) (fun b hb => (live_flat xs hf b hb).1), flatMap_leaves_live]

/-! ### an accumulated multi-origin never fuses again -/

theorem concat_multi (a : Origin) (os : List Origin) (ha : Flat a) (h2 : 2 ≤ (leaves a).length)
    (hf : ∀ b ∈ os, Flat b) : concat a os = pack (leaves a ++ os.flatMap leaves) := by
  induction os generalizing a with
  | nil => rw [concat_nil, List.flatMap_nil, List.append_nil]; exact (flat_pack_leaves a ha).symm
  | cons b t ih =>
    have hm : mergeable a b = false := by
      cases hmb : mergeable a b with
      | false => rfl
      | true =>
        obtain ⟨ga, sa, ra, gb, sb, rb, rfl, rfl⟩ := mergeable_code a b hmb
        simp [leaves] at h2
    obtain ⟨a', ha', hfa', hl⟩ := add_unfused a b ha (hf b (by simp)) hm
    rw [concat_cons, ha']
    show concat a' t = _
    rw [ih a' hfa' (by rw [hl, List.length_append]; omega) (fun c hc => hf c (by simp [hc])), hl]
    simp [List.flatMap_cons, List.append_assoc]

/-! ### the main statement -/

/-- on non-empty flat operands: concat = merge after head fusion -/
theorem concat_fuseFrom (a : Origin) (r : List Origin) (ha : Flat a) (hn : a.isNone = false)
    (hf : ∀ b ∈ r, Flat b ∧ b.isNone = false) : concat a r = merge (fuseFrom a r) := by
  induction r generalizing a with
  | nil => rfl
  | cons b t ih =>
    have hft : ∀ c ∈ t, Flat c ∧ c.isNone = false := fun c hc => hf c (by simp [hc])
    by_cases hm : mergeable a b = true
    · have fl := fuse_leaf a b hm
      rw [concat_cons, add_mergeable a b hm]
      show concat (fuse a b) t = merge (fuseFrom a (b :: t))
      rw [fuseFrom, if_pos hm]
      exact ih (fuse a b) fl.2.1 fl.1 hft
    · have hm' : mergeable a b = false := by simpa using hm
      obtain ⟨a', ha', hfa', hl⟩ := add_unfused a b ha (hf b (by simp)).1 hm'
      have l1 := flat_leaves_ne a ha hn
      have l2 := flat_leaves_ne b (hf b (by simp)).1 (hf b (by simp)).2
      rw [concat_cons, ha']
      show concat a' t = merge (fuseFrom a (b :: t))
      rw [fuseFrom, if_neg hm, concat_multi a' t hfa' (by rw [hl, List.length_append]; omega) (fun c hc => (hft c hc).1),
        merge_spec (a :: b :: t) (by simp), hl]
      simp [List.flatMap_cons, List.append_assoc]

/-- **`concat_origins` = `merge_origins` after head fusion, as a function of the operand list** (flat operands):
drop the NoOrigin operands; while the first two remaining operands are code origins of `==` sources whose ranges
overlap or touch, replace them by one `CodeOrigin` over the hull (left source); merge what is left. -/
theorem concat_eq_merge_fuse (o : Origin) (os : List Origin) (ho : Flat o) (hf : ∀ b ∈ os, Flat b) :
    concat o os = merge (fuseLive (live (o :: os))) := by
  rw [concat_live o os ho hf]
  have hfl := live_flat (o :: os) (by intro b hb; rcases List.mem_cons.mp hb with rfl | hb; exact ho; exact hf b hb)
  match h : live (o :: os) with
  | [] => rfl
  | a :: r =>
    rw [h] at hfl
    exact concat_fuseFrom a r (hfl a (by simp)).1 (hfl a (by simp)).2 (fun b hb => hfl b (by simp [hb]))

theorem fuseLive_of_not_headFusable (xs : List Origin) (h : headFusable xs = false) : fuseLive (live xs) = live xs := by
  unfold headFusable at h
  match hl : live xs with
  | [] => rfl
  | [a] => rfl
  | a :: b :: r =>
    rw [hl] at h
    simp only at h
    simp [fuseLive, fuseFrom, h]

/-- fusion only shortens the listing, strictly when it happens -/
theorem fuseFrom_length (a : Origin) (r : List Origin) :
    ((fuseFrom a r).flatMap leaves).length ≤ ((a :: r).flatMap leaves).length := by
  induction r generalizing a with
  | nil => simp [fuseFrom]
  | cons b t ih =>
    by_cases hm : mergeable a b = true
    · rw [fuseFrom, if_pos hm]
      refine Nat.le_trans (ih (fuse a b)) ?_
      obtain ⟨ga, sa, ra, gb, sb, rb, rfl, rfl⟩ := mergeable_code a b hm
      simp [fuse, leaves, List.flatMap_cons]
    · rw [fuseFrom, if_neg hm]; exact Nat.le_refl _

theorem fuseLive_length_lt (xs : List Origin) (h : headFusable xs = true) :
    ((fuseLive (live xs)).flatMap leaves).length < (xs.flatMap leaves).length := by
  rw [← flatMap_leaves_live xs]
  unfold headFusable at h
  match hl : live xs with
  | [] => rw [hl] at h; simp at h
  | [a] => rw [hl] at h; simp at h
  | a :: b :: r =>
    rw [hl] at h
    simp only at h
    simp only [fuseLive, fuseFrom, h, if_true]
    refine Nat.lt_of_le_of_lt (fuseFrom_length (fuse a b) r) ?_
    obtain ⟨ga, sa, ra, gb, sb, rb, rfl, rfl⟩ := mergeable_code a b h
    simp [fuse, leaves, List.flatMap_cons]

theorem fuseFrom_flat (a : Origin) (t : List Origin) (ha : Flat a) (ht : ∀ b ∈ t, Flat b) :
    ∀ b ∈ fuseFrom a t, Flat b := by
  induction t generalizing a with
  | nil => intro b hb; simp [fuseFrom] at hb; exact hb ▸ ha
  | cons c t ih =>
    intro b hb
    by_cases hm : mergeable a c = true
    · rw [fuseFrom, if_pos hm] at hb
      exact ih (fuse a c) (fuse_leaf a c hm).2.1 (fun d hd => ht d (by simp [hd])) b hb
    · rw [fuseFrom, if_neg hm] at hb
      rcases List.mem_cons.mp hb with rfl | hb
      · exact ha
      · exact ht b hb

theorem fuseLive_flat (xs : List Origin) (hf : ∀ b ∈ xs, Flat b) : ∀ b ∈ fuseLive (live xs), Flat b := by
  have hl := live_flat xs hf
  match hlv : live xs with
  | [] => intro b hb; simp [fuseLive] at hb
  | a :: t =>
    rw [hlv] at hl
    exact fuseFrom_flat a t (hl a (by simp)).1 (fun b hb => (hl b (by simp [hb])).1)

/-- **exact boundary**: on flat operands `concat_origins(o, *os)` and `merge_origins(o, *os)` agree IFF the first two
non-empty operands are not fusable code origins -/
theorem concat_eq_merge_iff (o : Origin) (os : List Origin) (ho : Flat o) (hf : ∀ b ∈ os, Flat b) :
    concat o os = merge (o :: os) ↔ headFusable (o :: os) = false := by
  have hfa : ∀ b ∈ o :: os, Flat b := by
    intro b hb; rcases List.mem_cons.mp hb with rfl | hb; exact ho; exact hf b hb
  constructor
  · intro heq
    cases hh : headFusable (o :: os) with
    | false => rfl
    | true =>
      exfalso
      have hlt := fuseLive_length_lt (o :: os) hh
      obtain ⟨r, hr⟩ := merge_ok (o :: os)
      have h1 := (merge_flat (o :: os) hfa r hr).2
      have h2 := (concat_flat o os ho hf r (heq.trans hr))
      -- the same `r` would list both the fused and the unfused operands
      have hc : concat o os = merge (fuseLive (live (o :: os))) := concat_eq_merge_fuse o os ho hf
      have hfl := fuseLive_flat (o :: os) hfa
      have h3 := (merge_flat _ hfl r (hc.symm.trans (heq.trans hr))).2
      rw [← h3, h1] at hlt
      exact Nat.lt_irrefl _ hlt
  · intro hh
    rw [concat_eq_merge_fuse o os ho hf, fuseLive_of_not_headFusable (o :: os) hh, merge_live (o :: os) hfa]

theorem headFusable_adj (xs : List Origin) (h : headFusable xs = true) : adjFusable (live xs) = true := by
  unfold headFusable at h
  match hl : live xs with
  | [] => rw [hl] at h; simp at h
  | [a] => rw [hl] at h; simp at h
  | a :: b :: r => rw [hl] at h; simp only at h; simp [adjFusable, h]

/-- **`concat_origins` = `merge_origins` whenever no two adjacent non-empty operands are fusable code origins** -/
theorem concat_eq_merge (o : Origin) (os : List Origin) (ho : Flat o) (hf : ∀ b ∈ os, Flat b)
    (h : adjFusable (live (o :: os)) = false) : concat o os = merge (o :: os) := by
  apply (concat_eq_merge_iff o os ho hf).mpr
  cases hh : headFusable (o :: os) with
  | false => rfl
  | true => rw [headFusable_adj _ hh] at h; cases h

/-- **"lists the non-empty operands in order" about the operand list**: when the head is not fusable the result of
`concat_origins` on flat operands is flat and lists exactly the operands with NoOrigin dropped and multi-origins
flattened, in order; NoOrigin when nothing remains, the operand itself when one remains, else the MultiOrigin of them -/
theorem concat_lists_operands (o : Origin) (os : List Origin) (ho : Flat o) (hf : ∀ b ∈ os, Flat b)
    (h : headFusable (o :: os) = false) :
    ∃ r, concat o os = .ok r ∧ Flat r ∧ leaves r = (o :: os).flatMap leaves ∧
      concat o os = pack ((o :: os).flatMap leaves) := by
  have hfa : ∀ b ∈ o :: os, Flat b := by
    intro b hb; rcases List.mem_cons.mp hb with rfl | hb; exact ho; exact hf b hb
  have he := (concat_eq_merge_iff o os ho hf).mpr h
  obtain ⟨r, hr⟩ := merge_ok (o :: os)
  have := merge_flat (o :: os) hfa r hr
  exact ⟨r, he.trans hr, this.1, this.2, by rw [he, merge_flat_spec (o :: os) hfa]⟩

/-- … and in general it lists the head-fused operands -/
theorem concat_lists_fused (o : Origin) (os : List Origin) (ho : Flat o) (hf : ∀ b ∈ os, Flat b) :
    ∃ r, concat o os = .ok r ∧ Flat r ∧ leaves r = (fuseLive (live (o :: os))).flatMap leaves := by
  obtain ⟨r, hr⟩ := concat_total o os
  have h1 := concat_flat o os ho hf r hr
  refine ⟨r, hr, h1.1, ?_⟩
  -- a flat origin is determined by its listing, and merge of the fused list has that listing
  have hc := concat_eq_merge_fuse o os ho hf
  rw [hr] at hc
  obtain ⟨r', hr'⟩ := merge_ok (fuseLive (live (o :: os)))
  rw [hr'] at hc
  cases hc
  by_cases h1 : (fuseLive (live (o :: os))).length = 1
  · match hfl : fuseLive (live (o :: os)), h1 with
    | [x], _ =>
      rw [hfl] at hr'
      cases hr'
      simp
  · rw [merge_spec _ h1] at hr'
    -- members of the fused list: every one is flat, so `pack_flat` applies
    have hfa : ∀ b ∈ o :: os, Flat b := by
      intro b hb; rcases List.mem_cons.mp hb with rfl | hb; exact ho; exact hf b hb
    have hflat := fuseLive_flat (o :: os) hfa
    refine (pack_flat _ ?_ r hr').2
    intro x hx
    obtain ⟨b, hb, hxb⟩ := List.mem_flatMap.mp hx
    exact flat_leaves_leaf b (hflat b hb) x hxb

/-! ### witnesses / non-vacuity -/

/-- "adjacent" has to be read after dropping NoOrigin: `[c02, NoOrigin, c24]` has no two adjacent fusable operands, yet
concat fuses (one code origin 0-4) where merge lists two -/
theorem concat_eq_merge_adjacent_fails :
    adjFusable [c02, .none, c24] = false ∧
    (concat c02 [.none, c24]).toOption.map leaves = some [.code false sA ⟨⟨0, 1, 0⟩, ⟨4, 1, 4⟩⟩] ∧
    (merge [c02, .none, c24]).toOption.map leaves = some [c02, c24] ∧
    concat c02 [.none, c24] ≠ merge [c02, .none, c24] := by
  refine ⟨by decide, rfl, rfl, ?_⟩
  intro h
  have : (concat c02 [.none, c24]).toOption.map (fun r => (leaves r).length) = some 1 := rfl
  rw [h] at this
  exact absurd this (by decide)

/-- fusable neighbours that are not at the head stay unfused: `concat_origins(xB, c02, c24)` lists three origins -/
theorem concat_inner_not_fused :
    adjFusable (live [xB, c02, c24]) = true ∧ headFusable [xB, c02, c24] = false ∧
    (concat xB [c02, c24]).toOption.map leaves = some [xB, c02, c24] := by
  refine ⟨by decide, by decide, rfl⟩

example : headFusable [c02, .none, c24] = true ∧ fuseLive (live [.none, c02, .none, c24, xB, c57]) =
    [.code false sA ⟨⟨0, 1, 0⟩, ⟨4, 1, 4⟩⟩, xB, c57] := ⟨by decide, rfl⟩
example : adjFusable (live [c02, xB, c57, .none]) = false ∧ headFusable [c02, c57, c24] = false := by decide
example : (concat c02 [xB, c57, .none]).toOption.map leaves = some [c02, xB, c57] := rfl

end PyOak.C15
