/-
Bridge for the traversal generators (C05): the hand-written model `dfsImpl` / `bfsImpl` / `gatherImpl` (Model/Traverse.lean)
is the set of definitions GENERATED from `ASTNode.dfs`, `ASTNode.bfs`, `ASTNode.gather` (src/pyoak/node.py) by
harness/py2lean_v.py (Gen/KernelsTraverse.lean), instantiated with

  N := Node   C := Str (class names)   py.isinstance := Node.isInst   py.type_of := Node.cls
  py.child_items n := n.edges as (child, Field, index)      (`get_child_nodes_with_field()`: modelled and tied in C12)
  NodeTraversalInfo(node, parent, field, findex) := `toInfo` of the model's `Item` (injective: `ofInfo_toInfo`)
  a callback `Callable | None`: `pruneOf` (None: never prune) / `filterOf` (None: keep everything)

FOR EVERY tree, prune, filter (each possibly None) and flag, with the fuel the model itself uses (`n.size`, for every loop):
  dfs_gen_eq, bfs_gen_eq, gather_gen_eq      generated = (model mapped through `toInfo`, no exception): in particular the
                                             generated loops never run out of fuel and never pop from an empty list
  dfsImpl_eq_gen, bfsImpl_eq_gen, gatherImpl_eq_gen    the same read from the model's side, for arbitrary predicates on `Item`

The generated `dfs` has the two `while` loops of the source (build, then drain the yield deque); the model returns the
deque itself: `dfs_loop_2_drain` shows the drain loop yields the deque left to right (fuel: its length + 1).
-/
import PyOak.Gen.KernelsTraverse
import PyOak.Props.C05
namespace PyOak.GenBridgeTraverse
open PyOak PyOak.C05

/-! ### the instantiation -/

abbrev Info := GenV.NodeTraversalInfo Node

/-- a position of the model as the `(child, field, index)` triple of `get_child_nodes_with_field()` -/
def toTriple (ce : Node × Edge) : Node × GenV.FieldR × Option Int := (ce.1, ⟨ce.2.field⟩, ce.2.idx.map Int.ofNat)

/-- the model's `Item` as a `NodeTraversalInfo` -/
def toInfo (it : Item) : Info :=
  { node := it.node, parent := it.parent, field := ⟨it.edge.field⟩, findex := it.edge.idx.map Int.ofNat }

def ofInfo (r : Info) : Item := ⟨r.node, r.parent, ⟨r.field.name, r.findex.map Int.toNat⟩⟩

theorem ofInfo_toInfo (it : Item) : ofInfo (toInfo it) = it := by
  obtain ⟨n, p, f, i⟩ := it
  cases i <;> simp [ofInfo, toInfo]

def pyM : GenV.Py Node Str :=
  { child_items := fun n => n.edges.map toTriple, isinstance := Node.isInst, type_of := Node.cls }

/-- `prune: Callable | None` as the model's predicate (None: never prune) -/
def pruneOf (o : Option (Info → Bool)) : Item → Bool := fun it =>
  match o with
  | none => false
  | some p => p (toInfo it)

/-- `filter: Callable | None` as the model's predicate (None: keep everything) -/
def filterOf (o : Option (Info → Bool)) : Item → Bool := fun it =>
  match o with
  | none => true
  | some p => p (toInfo it)

/-- `NodeTraversalInfo(c, parent, f, i)` for one triple -/
def mk (parent : Node) (t : Node × GenV.FieldR × Option Int) : Info :=
  { node := t.1, parent := parent, field := t.2.1, findex := t.2.2 }

theorem items_toInfo (n : Node) : n.items.map toInfo = (pyM.child_items n).map (mk n) := by
  simp [Node.items, pyM, List.map_map, Function.comp_def, toInfo, mk, toTriple]

/-- a `for` loop that appends one value per item -/
theorem foldl_snoc {α β : Type} (step : List β → α → List β) (g : α → β) (h : ∀ acc x, step acc x = acc ++ [g x])
    (l : List α) (acc : List β) : l.foldl step acc = acc ++ l.map g := by
  induction l generalizing acc with
  | nil => simp
  | cons x l ih => simp [List.foldl, h, ih]

/-- the children pushed on the build stack (top at the END of the Python list; the model keeps the top at the head) -/
theorem push_eq (b : Bool) (n : Node) :
    ((if (!b) = true then (pyM.child_items n).reverse else pyM.child_items n).map (mk n))
      = ((if b = true then n.items.reverse else n.items).map toInfo).reverse := by
  cases b <;> simp [List.map_reverse, items_toInfo]

@[simp] theorem pruneOf_none (it : Item) : pruneOf none it = false := rfl
@[simp] theorem pruneOf_some (p : Info → Bool) (it : Item) : pruneOf (some p) it = p (toInfo it) := rfl
@[simp] theorem filterOf_none (it : Item) : filterOf none it = true := rfl
@[simp] theorem filterOf_some (p : Info → Bool) (it : Item) : filterOf (some p) it = p (toInfo it) := rfl

/-- the yield deque after `if filter(..): appender(child_info)` -/
theorem dfs_step_queue (b c : Bool) (queue : List Item) (it : Item) :
    (if c = true then GenV.DequeOp.apply (if b = true then GenV.DequeOp.appendleft else GenV.DequeOp.append)
        (queue.map toInfo) (toInfo it) else queue.map toInfo)
      = (if c = true then (if b = true then it :: queue else queue ++ [it]) else queue).map toInfo := by
  cases b <;> cases c <;> simp [GenV.DequeOp.apply]

theorem dfs_step_queue_true (b : Bool) (queue : List Item) (it : Item) :
    GenV.DequeOp.apply (if b = true then GenV.DequeOp.appendleft else GenV.DequeOp.append) (queue.map toInfo) (toInfo it)
      = (if b = true then it :: queue else queue ++ [it]).map toInfo := by
  cases b <;> simp [GenV.DequeOp.apply]

theorem yield_eq {α : Type} (x : α) (g : GenV.Gen α) (l : List α) (h : g = (l, none)) :
    GenV.Gen.yield_ x g = (x :: l, none) := by subst h; rfl

@[simp] theorem toInfo_node (it : Item) : (toInfo it).node = it.node := rfl

theorem isEmpty_revmap (it : Item) (st : List Item) : ((it :: st).map toInfo).reverse.isEmpty = false := by simp

/-! ### `dfs` -/

/-- the drain loop `while yield_queue: yield yield_queue.popleft()` yields the deque left to right -/
theorem dfs_loop_2_drain (self : Node) (fuel0 fuel : Nat) (q : List Info) (h : q.length < fuel) :
    GenV.dfs_loop_2 pyM self fuel0 fuel q = (q, none) := by
  induction fuel generalizing q with
  | zero => omega
  | succ fuel ih =>
    cases q with
    | nil => simp [GenV.dfs_loop_2, GenV.Gen.done]
    | cons x q =>
      simp only [List.length_cons] at h
      simp [GenV.dfs_loop_2, GenV.Gen.yield_, ih q (by omega)]

theorem getLast_revmap (it : Item) (st : List Item) :
    ((it :: st).map toInfo).reverse.getLast? = some (toInfo it) := by simp

theorem dropLast_revmap (it : Item) (st : List Item) :
    ((it :: st).map toInfo).reverse.dropLast = (st.map toInfo).reverse := by simp

/-- the build loop: generated state = model state (stack reversed), as long as the fuel exceeds the weight of the stack -/
theorem dfs_loop_eq (self : Node) (oP oF : Option (Info → Bool)) (b : Bool) (fuel0 fuel : Nat)
    (stack queue : List Item) (ci : List (Node × GenV.FieldR × Option Int)) (h : weight stack < fuel) :
    GenV.dfs_loop pyM self oP oF b (if b then .appendleft else .append) fuel0 fuel
        (stack.map toInfo).reverse (queue.map toInfo) ci
      = GenV.dfs_loop_2 pyM self fuel0 fuel0 ((dfsLoop (pruneOf oP) (filterOf oF) b fuel stack queue).map toInfo) := by
  induction fuel generalizing stack queue ci with
  | zero => omega
  | succ fuel ih =>
    cases stack with
    | nil => simp [GenV.dfs_loop, dfsLoop]
    | cons it st =>
      have hp := it.node.size_pos
      have hw := weight_items it.node
      simp only [weight_cons] at h
      have A : ∀ Q : List Item, GenV.dfs_loop pyM self oP oF b (if b then .appendleft else .append) fuel0 fuel
            (st.map toInfo).reverse (Q.map toInfo) ci
          = GenV.dfs_loop_2 pyM self fuel0 fuel0 ((dfsLoop (pruneOf oP) (filterOf oF) b fuel st Q).map toInfo) :=
        fun Q => ih _ _ _ (by omega)
      have B : ∀ (Q : List Item) ci', GenV.dfs_loop pyM self oP oF b (if b then .appendleft else .append) fuel0 fuel
            (List.foldl (fun bs x => bs ++ [mk it.node x]) (st.map toInfo).reverse
              (if (!b) = true then (pyM.child_items it.node).reverse else pyM.child_items it.node)) (Q.map toInfo) ci'
          = GenV.dfs_loop_2 pyM self fuel0 fuel0 ((dfsLoop (pruneOf oP) (filterOf oF) b fuel
              ((if b = true then it.node.items.reverse else it.node.items) ++ st) Q).map toInfo) := by
        intro Q ci'
        rw [foldl_snoc _ (mk it.node) (fun acc x => rfl)]
        have : ((st.map toInfo).reverse ++
              (if (!b) = true then (pyM.child_items it.node).reverse else pyM.child_items it.node).map (mk it.node))
            = (((if b = true then it.node.items.reverse else it.node.items) ++ st).map toInfo).reverse := by
          rw [push_eq b it.node]; simp
        rw [this]
        exact ih _ _ _ (by cases b <;> simp <;> omega)
      rw [GenV.dfs_loop, dfsLoop]
      simp only [getLast_revmap, dropLast_revmap, isEmpty_revmap, Bool.not_false, if_true, toInfo_node]
      rcases oP with _ | p <;> rcases oF with _ | f <;>
        simp only [pruneOf_none, pruneOf_some, filterOf_none, filterOf_some, Bool.false_eq_true, if_false, if_true] <;>
        (first | rw [dfs_step_queue] | rw [dfs_step_queue_true])
      · exact B _ _
      · exact B _ _
      · by_cases hc : p (toInfo it) = true
        · simp only [hc, if_true]; exact A _
        · simp only [hc]; exact B _ _
      · by_cases hc : p (toInfo it) = true
        · simp only [hc, if_true]; exact A _
        · simp only [hc]; exact B _ _

/-- `dfs`: the generated generator yields exactly the model's list and ends without an exception, with the model's fuel -/
theorem dfs_gen_eq (oP oF : Option (Info → Bool)) (b : Bool) (n : Node) :
    GenV.dfs pyM n.size n oP oF b = ((dfsImpl (pruneOf oP) (filterOf oF) b n).map toInfo, none) := by
  have hw := weight_items n
  have hlen : ∀ (fuel : Nat) (stack queue : List Item), weight stack ≤ fuel →
      (dfsLoop (pruneOf oP) (filterOf oF) b fuel stack queue).length ≤ queue.length + weight stack := by
    intro fuel
    induction fuel with
    | zero => intro stack queue _; simp [dfsLoop]
    | succ fuel ih =>
      intro stack queue h
      cases stack with
      | nil => simp [dfsLoop]
      | cons it st =>
        have hp := it.node.size_pos
        have hw := weight_items it.node
        simp only [weight_cons] at h
        simp only [dfsLoop]
        split
        · refine Nat.le_trans (ih _ _ (by omega)) ?_
          split <;> (try split) <;> simp <;> omega
        · refine Nat.le_trans (ih _ _ (by cases b <;> simp <;> omega)) ?_
          split <;> (try split) <;> cases b <;> simp <;> omega
  unfold GenV.dfs
  have hpush := push_eq b n
  have h0 := fun ci => dfs_loop_eq n oP oF b n.size n.size (if b then n.items.reverse else n.items) [] ci
    (by cases b <;> simp <;> omega)
  simp only [List.map_nil] at h0
  have hfold : ∀ l : List (Node × GenV.FieldR × Option Int),
      l.foldl (fun acc x => match x with | (c, f, i) => acc ++ [({ node := c, parent := n, field := f, findex := i } : Info)]) []
        = l.map (mk n) := by
    intro l
    rw [foldl_snoc _ (mk n) (fun acc x => by obtain ⟨c, f, i⟩ := x; rfl)]; simp
  have hl := hlen n.size (if b then n.items.reverse else n.items) [] (by cases b <;> simp <;> omega)
  have hdrain := dfs_loop_2_drain n n.size n.size
    ((dfsLoop (pruneOf oP) (filterOf oF) b n.size (if b then n.items.reverse else n.items) []).map toInfo)
    (by simp only [List.length_map]; cases b <;> simp at hl ⊢ <;> omega)
  rw [hdrain] at h0
  cases b
  · simp only [Bool.false_eq_true, if_false, Bool.not_false, if_true] at h0 hpush ⊢
    simp only [hfold, hpush]
    simpa [dfsImpl] using h0 _
  · simp only [if_true, Bool.not_true, Bool.false_eq_true, if_false] at h0 hpush ⊢
    simp only [hfold, hpush]
    simpa [dfsImpl] using h0 _

/-! ### `bfs` -/

theorem bfs_loop_eq (self : Node) (oP oF : Option (Info → Bool)) (fuel0 fuel : Nat) (q : List Item)
    (h : weight q < fuel) :
    GenV.bfs_loop pyM self oP oF fuel0 fuel (q.map toInfo)
      = ((bfsLoop (pruneOf oP) (filterOf oF) fuel q).map toInfo, none) := by
  induction fuel generalizing q with
  | zero => omega
  | succ fuel ih =>
    cases q with
    | nil => simp [GenV.bfs_loop, bfsLoop, GenV.Gen.done]
    | cons it q =>
      have hp := it.node.size_pos
      have hw := weight_items it.node
      simp only [weight_cons] at h
      have A := ih q (by omega)
      have B : GenV.bfs_loop pyM self oP oF fuel0 fuel
            (q.map toInfo ++ (pyM.child_items it.node).map (fun x => mk it.node x))
          = ((bfsLoop (pruneOf oP) (filterOf oF) fuel (q ++ it.node.items)).map toInfo, none) := by
        have h2 := ih (q ++ it.node.items) (by simp; omega)
        rw [List.map_append, items_toInfo] at h2
        exact h2
      rw [GenV.bfs_loop, bfsLoop]
      simp only [List.map_cons, List.isEmpty_cons, Bool.not_false, if_true, List.head?_cons, List.tail_cons, toInfo_node]
      rcases oP with _ | p <;> rcases oF with _ | f <;>
        simp only [pruneOf_none, pruneOf_some, filterOf_none, filterOf_some, Bool.false_eq_true, if_false, if_true]
      · exact yield_eq _ _ _ B
      · by_cases hf : f (toInfo it) = true
        · simp only [hf, if_true]; exact yield_eq _ _ _ B
        · simp only [hf]; exact B
      · by_cases hc : p (toInfo it) = true
        · simp only [hc, if_true]; exact yield_eq _ _ _ A
        · simp only [hc]; exact yield_eq _ _ _ B
      · by_cases hf : f (toInfo it) = true <;> by_cases hc : p (toInfo it) = true <;>
          simp only [hf, hc, if_true] <;>
          first | exact A | exact B | exact yield_eq _ _ _ A | exact yield_eq _ _ _ B

/-- `bfs`: the generated generator yields exactly the model's list and ends without an exception, with the model's fuel -/
theorem bfs_gen_eq (oP oF : Option (Info → Bool)) (n : Node) :
    GenV.bfs pyM n.size n oP oF = ((bfsImpl (pruneOf oP) (filterOf oF) n).map toInfo, none) := by
  have hw := weight_items n
  have h0 := bfs_loop_eq n oP oF n.size n.size n.items (by omega)
  unfold GenV.bfs
  rw [items_toInfo] at h0
  exact h0

/-! ### `gather` -/

/-- `obj_class: type | tuple[type, ...]` as the model's list of class names -/
def classesOf : Str ⊕ List Str → List Str
  | .inl c => [c]
  | .inr cs => cs

theorem gather_gen_eq (oc : Str ⊕ List Str) (exact : Bool) (oExtra oP : Option (Info → Bool)) (n : Node) :
    GenV.gather pyM n.size n oc exact oExtra oP
      = (gatherImpl (classesOf oc) exact (filterOf oExtra) (pruneOf oP) n, none) := by
  have key : ∀ f : Info → Bool, GenV.Gen.forYield (GenV.dfs pyM n.size n oP (some f) false) (fun r => r.node) GenV.Gen.done
      = ((dfsImpl (pruneOf oP) (fun it => f (toInfo it)) false n).map (·.node), none) := by
    intro f
    rw [dfs_gen_eq]
    have : filterOf (some f) = fun it => f (toInfo it) := rfl
    rw [this]
    simp [GenV.Gen.forYield, GenV.Gen.done, List.map_map, Function.comp_def]
  unfold GenV.gather
  cases oc <;> cases exact <;>
    simp only [Bool.not_false, Bool.not_true, if_true, if_false, Bool.false_eq_true, key, gatherImpl, classesOf] <;>
    (congr 3; funext it; cases oExtra <;> rfl)

/-! ### read from the model's side: arbitrary predicates on `Item` -/

theorem pruneOf_ofInfo (p : Item → Bool) : pruneOf (some (p ∘ ofInfo)) = p := by
  funext it; simp [pruneOf, ofInfo_toInfo]

theorem filterOf_ofInfo (p : Item → Bool) : filterOf (some (p ∘ ofInfo)) = p := by
  funext it; simp [filterOf, ofInfo_toInfo]

/-- the hand-written `dfsImpl` is the generated `dfs`, for every tree, prune, filter and flag -/
theorem dfsImpl_eq_gen (prune filt : Item → Bool) (b : Bool) (n : Node) :
    GenV.dfs pyM n.size n (some (prune ∘ ofInfo)) (some (filt ∘ ofInfo)) b = ((dfsImpl prune filt b n).map toInfo, none) := by
  rw [dfs_gen_eq, pruneOf_ofInfo, filterOf_ofInfo]

/-- the hand-written `bfsImpl` is the generated `bfs`, for every tree, prune and filter -/
theorem bfsImpl_eq_gen (prune filt : Item → Bool) (n : Node) :
    GenV.bfs pyM n.size n (some (prune ∘ ofInfo)) (some (filt ∘ ofInfo)) = ((bfsImpl prune filt n).map toInfo, none) := by
  rw [bfs_gen_eq, pruneOf_ofInfo, filterOf_ofInfo]

/-- the hand-written `gatherImpl` is the generated `gather`, for every tree, class tuple, flag, extra filter and prune -/
theorem gatherImpl_eq_gen (classes : List Str) (exact : Bool) (extra prune : Item → Bool) (n : Node) :
    GenV.gather pyM n.size n (.inr classes) exact (some (extra ∘ ofInfo)) (some (prune ∘ ofInfo))
      = (gatherImpl classes exact extra prune n, none) := by
  rw [gather_gen_eq, pruneOf_ofInfo, filterOf_ofInfo]; rfl

/-- the defaults `prune=None`, `filter=None` -/
theorem dfs_defaults_eq_gen (b : Bool) (n : Node) :
    GenV.dfs pyM n.size n none none b = ((dfsImpl (fun _ => false) (fun _ => true) b n).map toInfo, none) :=
  dfs_gen_eq none none b n

end PyOak.GenBridgeTraverse
