/-
C19 (AUDIT, section C19, addition (ii)) — which errors can come out of `replace_with`.

`replaceWith` (Model/Legacy.lean) has, besides ASTNodeReplaceWithError and `hang`, two `internal` exits (the
receiver's `_parent_field` is missing / the parent has no field of that name: KeyError-like) and, inside the
roll-back, the error of a FAILED RE-ATTACHMENT of the receiver (`self._attach("replace")` in the handler, which
Python lets propagate).  `fail_frame_rwith` covers ASTNodeReplaceWithError only.

PROVED HERE
  rwith_field_found       under `Inv` the receiver's parent field is found (so the `internal` exits are dead)
  rwith_err_kind_partial  under `Inv`, every error of `replaceWith` is ASTNodeReplaceWithError, `hang`, or a
                          registry / parent collision; `internal` (and every other class) is unreachable
  step_rwith_err_kind_partial  the same at the level of `step` (plus `badRequest` for a missing object)

FULL STATEMENT (open; the registry / parent collision can only come from the re-attachment of the just detached
receiver inside the roll-back, which should never collide):

  theorem rwith_err_kind : Inv Hc s → replaceWith Hc fuel s u new = (s', .error e) →
      e = .replaceWithError ∨ e = .hang

What is missing is "`attachPlan` of a subtree that `detach` has just unregistered, in a state whose records
agree with an `Inv` state up to parent slots, returns neither `registryCollision` nor a parent collision"
(a dual of `attachPlan_facts`: a sufficient condition for the plan to succeed).  With it `Documented` of
Props/C19Rejected.lean becomes `e ≠ .hang` for every operation.
-/
import PyOak.Props.C19Rejected
namespace PyOak.Legacy.C19
open PyOak PyOak.Legacy LState

variable (H Hc : Str → Str)

theorem pos_name {fl : LField} {e : Nat × Str × Option Nat} (h : e ∈ fl.pos) : e.2.1 = fl.name := by
  unfold LField.pos at h
  split at h
  · have : ∀ (i : Nat) (ks : List Nat), e ∈ posFrom fl.name i ks → e.2.1 = fl.name := by
      intro i ks
      induction ks generalizing i with
      | nil => intro h; cases h
      | cons c r ih =>
        intro h
        simp only [posFrom, List.mem_cons] at h
        rcases h with rfl | h
        · rfl
        · exact ih _ h
    exact this _ _ h
  · obtain ⟨c, _, rfl⟩ := List.mem_map.mp h; rfl

/-- under the invariant the two `internal` exits of `replace_with` are dead: the receiver reports a parent
field, and the parent has a field of that name -/
theorem rwith_field_found {s : LState} {u p : Nat} (hI : Inv Hc s) (hp : s.parent u = some p) :
    ∃ f fl, (s.obj u).pfield = some f ∧ (s.obj p).fields.find? (·.name = f) = some fl := by
  have hua : Att s u := by
    unfold LState.parent at hp
    cases hk : (s.obj u).pid with
    | none => rw [hk] at hp; cases hp
    | some k => exact (hI.noDangling u k hk).1
  obtain ⟨f, hf, hm⟩ := hI.up u hua p hp
  unfold LObj.kidsPos at hm
  obtain ⟨fl, hfl, hpos⟩ := List.mem_flatMap.mp hm
  have hname : fl.name = f := (pos_name hpos).symm
  cases hfind : (s.obj p).fields.find? (·.name = f) with
  | some fl' => exact ⟨f, fl', hf, hfind⟩
  | none =>
    have := List.find?_eq_none.mp hfind fl hfl
    simp [hname] at this

/-- the errors that `replace_with` is shown to be confined to -/
def RwithErr (e : Err) : Prop :=
  e = .replaceWithError ∨ e = .hang ∨ e = .registryCollision ∨ e = .parentCollision

def ErrsIn (r : Except Err Unit) : Prop := ∀ e, r = .error e → RwithErr e

theorem errsIn_ok : ErrsIn (.ok ()) := fun _ h => by cases h
theorem errsIn_rwe : ErrsIn (.error .replaceWithError) := fun _ h => by cases h; exact .inl rfl
theorem errsIn_hang : ErrsIn (.error .hang) := fun _ h => by cases h; exact .inr (.inl rfl)
theorem errsIn_fin (b : Bool) (a c : LState) :
    ErrsIn (if b = true then (a, (Except.ok () : Except Err Unit)) else (c, Except.error Err.hang)).2 := by
  cases b
  · exact errsIn_hang
  · exact errsIn_ok
theorem errsIn_roll1 {e e' : Err} (h' : e' = .hang ∨ e' = .registryCollision ∨ e' = .parentCollision) :
    ErrsIn (.error (if e = .hang then .hang else e')) := by
  intro x hx
  cases hx
  split
  · exact .inr (.inl rfl)
  · rcases h' with h | h | h <;> simp [RwithErr, h]
theorem errsIn_roll2 {e : Err} : ErrsIn (.error (if e = .hang then .hang else .replaceWithError)) := by
  intro x hx
  cases hx
  split
  · exact .inr (.inl rfl)
  · exact .inl rfl

theorem rwith_errs_none (fuel : Nat) {s : LState} (hI : Inv Hc s) (u : Nat) :
    ErrsIn (replaceWith Hc fuel s u none).2 := by
  unfold replaceWith
  simp only [Bool.false_eq_true, if_false]
  cases hp : s.parent u with
  | some p =>
    obtain ⟨f, fl, hf, hfl⟩ := rwith_field_found Hc hI hp
    simp only [hf, hfl]
    split
    · exact errsIn_rwe
    · cases hd : detachGo (fuel + 1) false (s.clearParent u) u with
      | mk s2 r2 =>
        cases r2 with
        | none => exact errsIn_hang
        | some b => simp only; exact errsIn_fin _ _ _
  | none =>
    simp only
    cases hd : detachGo (fuel + 1) false s u with
    | mk s1 r1 =>
      cases r1 with
      | none => exact errsIn_hang
      | some b => exact errsIn_ok

theorem rwith_errs_some (fuel : Nat) {s : LState} (hI : Inv Hc s) (u n : Nat) :
    ErrsIn (replaceWith Hc fuel s u (some n)).2 := by
  unfold replaceWith
  simp only
  split
  · exact errsIn_rwe
  · cases hp : s.parent u with
    | some p =>
      obtain ⟨f, fl, hf, hfl⟩ := rwith_field_found Hc hI hp
      simp only [hf, hfl]
      split
      · exact errsIn_rwe
      · cases hd : detachGo (fuel + 1) false (s.clearParent u) u with
        | mk s2 r2 =>
          cases r2 with
          | none => exact errsIn_hang
          | some b =>
            simp only
            cases ha : attach Hc fuel (takeOver s2 u n).1 n with
            | mk s4 r4 =>
              cases r4 with
              | error e =>
                simp only
                cases ha2 : attach Hc fuel ((s4.modify n fun x =>
                    { x with id := (s2.obj n).id, origId := (s2.obj n).origId }).setParent u p f (s.obj u).pindex) u with
                | mk s7 r7 =>
                  cases r7 with
                  | error e' => exact errsIn_roll1 (attach_err_kind Hc ha2)
                  | ok x => exact errsIn_roll2
              | ok x => simp only; exact errsIn_fin _ _ _
    | none =>
      simp only
      cases hd : (if (!s.detached u) = true then detachGo (fuel + 1) false s u else (s, some true)) with
      | mk s1 r1 =>
        cases r1 with
        | none => exact errsIn_hang
        | some b =>
          simp only
          cases ha : attach Hc fuel (takeOver s1 u n).1 n with
          | mk s3 r3 =>
            cases r3 with
            | ok x => exact errsIn_ok
            | error e =>
              simp only
              cases ha2 : (if (!s.detached u) = true then attach Hc fuel
                  (s3.modify n fun x => { x with id := (s1.obj n).id, origId := (s1.obj n).origId }) u
                  else (s3.modify n fun x => { x with id := (s1.obj n).id, origId := (s1.obj n).origId }, .ok ())) with
              | mk s5 r5 =>
                cases r5 with
                | error e' =>
                  refine errsIn_roll1 ?_
                  split at ha2
                  · exact attach_err_kind Hc ha2
                  · cases ha2
                | ok x => exact errsIn_roll2

/-- **the errors of `replace_with` under the invariant**: ASTNodeReplaceWithError, a walk that does not end, or a
collision (which can only come from the re-attachment of the receiver inside the roll-back); in particular the
`internal` exits are unreachable.  `_partial`: the full statement excludes the collisions too. -/
theorem rwith_err_kind_partial {s s' : LState} {u fuel : Nat} {new : Option Nat} {e : Err} (hI : Inv Hc s)
    (h : replaceWith Hc fuel s u new = (s', .error e)) :
    e = .replaceWithError ∨ e = .hang ∨ e = .registryCollision ∨ e = .parentCollision := by
  have : ErrsIn (replaceWith Hc fuel s u new).2 := by
    cases new with
    | none => exact rwith_errs_none Hc fuel hI u
    | some n => exact rwith_errs_some Hc fuel hI u n
  rw [h] at this
  exact this e rfl

theorem rwith_not_internal {s s' : LState} {u fuel : Nat} {new : Option Nat} {e : Err} (hI : Inv Hc s)
    (h : replaceWith Hc fuel s u new = (s', .error e)) : e ≠ .internal := by
  rcases rwith_err_kind_partial Hc hI h with h | h | h | h <;> rw [h] <;> decide

theorem step_rwith_err_kind_partial {s s' : LState} {u : Nat} {new : Option Nat} {e : Err} (hI : Inv Hc s)
    (h : step H Hc s (.rwith u new) = (s', .raised e)) :
    e = .replaceWithError ∨ e = .hang ∨ e = .registryCollision ∨ e = .parentCollision ∨ e = .badRequest := by
  unfold step at h
  split at h
  · cases h; exact .inr (.inr (.inr (.inr rfl)))
  · simp only at h
    cases hrw : replaceWith Hc (fuelOf s) s u new with
    | mk s1 r1 =>
      rw [hrw] at h
      cases r1 with
      | ok x => cases x; simp [ofUnit] at h
      | error e' =>
        simp only [ofUnit, Prod.mk.injEq, LOut.raised.injEq] at h
        obtain ⟨_, rfl⟩ := h
        rcases rwith_err_kind_partial Hc hI hrw with h | h | h | h
        · exact .inl h
        · exact .inr (.inl h)
        · exact .inr (.inr (.inl h))
        · exact .inr (.inr (.inr (.inl h)))

section examples
open PyOak.Legacy.Ex PyOak.Legacy.C18

example := rwith_field_found id (s := st base4) (u := 1) (p := 3) (inv_run_init_partial id id _ (by decide)) (by decide)
example := step_rwith_err_kind_partial id id (s := st base4) (u := 1) (new := some 4) (e := .replaceWithError)
  (inv_run_init_partial id id _ (by decide)) (mk_eq _ _ (by decide))
example := rwith_not_internal id (s := st base4) (u := 1) (fuel := 9) (new := some 4) (e := .replaceWithError)
  (s' := (replaceWith id 9 (st base4) 1 (some 4)).1) (inv_run_init_partial id id _ (by decide)) (Prod.ext rfl rfl)

end examples

#print axioms rwith_field_found
#print axioms rwith_err_kind_partial
#print axioms rwith_not_internal
#print axioms step_rwith_err_kind_partial

end PyOak.Legacy.C19
