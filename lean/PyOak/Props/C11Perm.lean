/-
C11, union-member order: the verdict of an annotation does not depend on the order in which the members of
its unions are written — for every union of the term, at any depth, all at once.

Why it matters: `typing.Union[A, B] == typing.Union[B, A]` (and the hashes agree), and every predicate of
src/pyoak/typing.py is `functools.lru_cache`d on its argument, so the answer for one order is the cached
answer for ANY earlier order of the same members.  Only if the verdict is order-independent is that sound.

* `permStep_same`       one permuted union, anywhere: `has_check_type_in_type`, `is_valid_property_type`,
                        `_is_valid_child_field_type` (both values of `allow_sequence`) return the same
* `classify_permEq`     `PermEq t t' → classify t' = classify t` (any number of unions, any depths)
* `specVerdict_permEq`, `childShape_permEq`   the same for the documented verdict / the child shape
* `PermEq` is a congruence: `.trans`, `.newtype`, `.vtuple`, `.arg`, `.member`, `.coll_pointwise`,
  `.union_pointwise`, `.union` (permute the members AND rewrite each of them)
* `permEq_swapU`, `classify_swapU`, `classOutcome_permuted`, `chainOutcome_permuted`   a rewriting that permutes
  every union of every annotation of every class of a chain at once changes no outcome
-/
import PyOak.Spec.AnnotPerm
import PyOak.Props.C11Fwd
namespace PyOak
namespace C11
open Annot Annot.Ty

theorem hasNode_union (m : Ty) (ms : List Ty) : hasNode (.union m ms) = (m :: ms).any hasNode := by
  simp [hasNode, hasNodeL_eq]

theorem validProp_union (m : Ty) (ms : List Ty) : validProp (.union m ms) = (m :: ms).all validProp := by
  simp [validProp, validPropL_eq]

theorem validChild_union (b : Bool) (m : Ty) (ms : List Ty) :
    validChild b (.union m ms) =
      if !b && (m :: ms).any isNone then false else (m :: ms).all unionMemberOk := by
  simp only [validChild]

/-- everything the classifier ever asks about an annotation -/
structure Same (t t' : Ty) : Prop where
  hn : hasNode t' = hasNode t
  vp : validProp t' = validProp t
  vc : ∀ b, validChild b t' = validChild b t
  isn : t'.isNone = t.isNone
  nc : t'.unwrap.isNodeClass = t.unwrap.isNodeClass

theorem permStep_same {t t' : Ty} (h : PermStep t t') : Same t t' := by
  induction h with
  | here hp =>
    refine ⟨?_, ?_, fun b => ?_, rfl, rfl⟩
    · rw [hasNode_union, hasNode_union, hp.any_eq]
    · rw [validProp_union, validProp_union, hp.all_eq]
    · rw [validChild_union, validChild_union, hp.any_eq, hp.all_eq]
  | newtype _ ih =>
    refine ⟨?_, ?_, fun b => ?_, rfl, ?_⟩
    · simp only [hasNode]; exact ih.hn
    · simp only [validProp]; exact ih.vp
    · simp only [validChild]; exact ih.vc b
    · simp only [unwrap]; exact ih.nc
  | vtuple _ ih =>
    refine ⟨?_, ?_, fun b => ?_, rfl, rfl⟩
    · simp only [hasNode]; exact ih.hn
    · simp only [validProp]; exact ih.vp
    · simp only [validChild, ih.vc false]
  | @member m m' x x' ms ms' l1 l2 e1 e2 _ ih =>
    have hu : unionMemberOk x' = unionMemberOk x := by
      simp only [unionMemberOk, ih.isn, ih.nc]
    refine ⟨?_, ?_, fun b => ?_, rfl, rfl⟩
    · rw [hasNode_union, hasNode_union, e1, e2]
      simp only [List.any_append, List.any_cons, ih.hn]
    · rw [validProp_union, validProp_union, e1, e2]
      simp only [List.all_append, List.all_cons, ih.vp]
    · rw [validChild_union, validChild_union, e1, e2]
      simp only [List.any_append, List.any_cons, List.all_append, List.all_cons, ih.isn, hu]
  | @arg k x x' l1 l2 _ ih =>
    refine ⟨?_, ?_, fun b => ?_, rfl, rfl⟩
    · simp only [hasNode, hasNodeL_eq, List.any_append, List.any_cons, ih.hn]
    · simp only [validProp, validPropL_eq, List.all_append, List.all_cons, ih.vp]
    · have e : ∀ y : Ty, (l1 ++ y :: l2).isEmpty = false := by intro y; cases l1 <;> rfl
      cases k <;> simp only [validChild]
      simp only [validChildL_eq, List.all_append, List.all_cons, ih.vc false, e]

theorem classifyRaw_permStep {t t' : Ty} (h : PermStep t t') : classifyRaw t' = classifyRaw t := by
  have s := permStep_same h
  unfold classifyRaw
  rw [s.hn, s.vp, s.vc]

/-- permuting the members of one union somewhere in the annotation does not change the verdict -/
theorem classify_permStep {t t' : Ty} (h : PermStep t t') : classify t' = classify t := by
  rw [classify_eq_classifyRaw, classify_eq_classifyRaw, classifyRaw_permStep h]

/-- permuting the members of any number of unions, at any depths, does not change the verdict -/
theorem classify_permEq {t t' : Ty} (h : PermEq t t') : classify t' = classify t := by
  induction h with
  | refl => rfl
  | tail _ hs ih => rw [classify_permStep hs, ih]

/-- the documented verdict is a property of the annotation up to union-member order -/
theorem specVerdict_permEq {t t' : Ty} (h : PermEq t t') (v : Verdict) : SpecVerdict t v ↔ SpecVerdict t' v := by
  rw [specVerdict_unique, specVerdict_unique, classify_permEq h]

theorem childShape_permEq {t t' : Ty} (h : PermEq t t') : ChildShape t ↔ ChildShape t' := by
  rw [← classify_child_iff, ← classify_child_iff, classify_permEq h]

/-- the top-level case in one line: two unions with the same members in another order -/
theorem classify_union_perm (m m' : Ty) (ms ms' : List Ty) (h : (m :: ms).Perm (m' :: ms')) :
    classify (.union m' ms') = classify (.union m ms) :=
  classify_permStep (.here h)

/-! ### `PermEq` is a congruence -/

theorem _root_.PyOak.Annot.PermEq.single {a b : Ty} (h : PermStep a b) : PermEq a b := .tail (.refl a) h

theorem _root_.PyOak.Annot.PermEq.trans {a b c : Ty} (h1 : PermEq a b) (h2 : PermEq b c) : PermEq a c := by
  induction h2 with
  | refl => exact h1
  | tail _ hs ih => exact .tail ih hs

theorem _root_.PyOak.Annot.PermEq.newtype {t t' : Ty} (h : PermEq t t') : PermEq (.newtype t) (.newtype t') := by
  induction h with
  | refl => exact .refl _
  | tail _ hs ih => exact .tail ih (.newtype hs)

theorem _root_.PyOak.Annot.PermEq.vtuple {t t' : Ty} (h : PermEq t t') : PermEq (.vtuple t) (.vtuple t') := by
  induction h with
  | refl => exact .refl _
  | tail _ hs ih => exact .tail ih (.vtuple hs)

theorem _root_.PyOak.Annot.PermEq.arg {k : CollKind} {x x' : Ty} (l1 l2 : List Ty) (h : PermEq x x') :
    PermEq (.coll k (l1 ++ x :: l2)) (.coll k (l1 ++ x' :: l2)) := by
  induction h with
  | refl => exact .refl _
  | tail _ hs ih => exact .tail ih (.arg hs)

theorem _root_.PyOak.Annot.PermStep.mkU {x x' : Ty} (l1 l2 : List Ty) (h : PermStep x x') :
    PermStep (mkU (l1 ++ x :: l2)) (mkU (l1 ++ x' :: l2)) := by
  cases l1 with
  | nil => exact .member (l1 := []) rfl rfl h
  | cons a r => exact .member (l1 := a :: r) rfl rfl h

theorem _root_.PyOak.Annot.PermEq.member {x x' : Ty} (l1 l2 : List Ty) (h : PermEq x x') :
    PermEq (mkU (l1 ++ x :: l2)) (mkU (l1 ++ x' :: l2)) := by
  induction h with
  | refl => exact .refl _
  | tail _ hs ih => exact .tail ih (hs.mkU l1 l2)

theorem _root_.PyOak.Annot.PermEq.coll_pointwise {k : CollKind} {l l' : List Ty} (h : Pointwise PermEq l l') :
    PermEq (.coll k l) (.coll k l') := by
  suffices ∀ pre : List Ty, PermEq (.coll k (pre ++ l)) (.coll k (pre ++ l')) from this []
  induction h with
  | nil => intro pre; exact .refl _
  | @cons a b l l' hab _ ih =>
    intro pre
    have h2 := ih (pre ++ [b])
    simp only [List.append_assoc, List.singleton_append] at h2
    exact (PermEq.arg pre l hab).trans h2

theorem _root_.PyOak.Annot.PermEq.mkU_pointwise {l l' : List Ty} (h : Pointwise PermEq l l') : PermEq (mkU l) (mkU l') := by
  suffices ∀ pre : List Ty, PermEq (mkU (pre ++ l)) (mkU (pre ++ l')) from this []
  induction h with
  | nil => intro pre; exact .refl _
  | @cons a b l l' hab _ ih =>
    intro pre
    have h2 := ih (pre ++ [b])
    simp only [List.append_assoc, List.singleton_append] at h2
    exact (PermEq.member pre l hab).trans h2

/-- rewrite every member of a union -/
theorem _root_.PyOak.Annot.PermEq.union_pointwise {m m' : Ty} {ms ms' : List Ty} (h : Pointwise PermEq (m :: ms) (m' :: ms')) :
    PermEq (.union m ms) (.union m' ms') :=
  PermEq.mkU_pointwise h

/-- permute the members of a union AND rewrite each of them -/
theorem _root_.PyOak.Annot.PermEq.union {m m' : Ty} {ms ms' l : List Ty} (hp : (m :: ms).Perm l)
    (h : Pointwise PermEq l (m' :: ms')) : PermEq (.union m ms) (.union m' ms') := by
  cases h with
  | @cons a _ r _ hab hr =>
    exact (PermEq.single (.here hp)).trans (PermEq.union_pointwise (.cons hab hr))

theorem pointwise_map {F : Ty → Ty} (l : List Ty) (h : ∀ x ∈ l, PermEq x (F x)) :
    Pointwise PermEq l (l.map F) := by
  induction l with
  | nil => exact .nil
  | cons a r ih =>
    exact .cons (h a List.mem_cons_self) (ih fun x hx => h x (List.mem_cons_of_mem _ hx))

/-! ### every union of every annotation at once -/

theorem swapUL_eq (l : List Ty) : swapUL l = l.map swapU := by
  induction l with
  | nil => rfl
  | cons t r ih => simp [swapUL, ih]

/-- `swapU` (swap the first two members of EVERY union, at every depth) stays inside `PermEq` -/
theorem permEq_swapU : ∀ t, PermEq t (swapU t) := by
  intro t
  induction t using Ty.induct with
  | hnt t ih => simpa [swapU] using ih.newtype
  | hunion m ms ihm ihms =>
    cases ms with
    | nil =>
      simp only [swapU, swapUL]
      exact PermEq.union_pointwise (.cons ihm .nil)
    | cons a r =>
      simp only [swapU, swapUL, swapUL_eq]
      exact PermEq.union (l := a :: m :: r) (List.Perm.swap a m r)
        (.cons (ihms a List.mem_cons_self) (.cons ihm
          (pointwise_map r fun x hx => ihms x (List.mem_cons_of_mem _ hx))))
  | hvt t ih => simpa [swapU] using ih.vtuple
  | hcoll k args ih =>
    simp only [swapU, swapUL_eq]
    exact PermEq.coll_pointwise (pointwise_map args ih)
  | _ => exact .refl _

theorem classify_swapU (t : Ty) : classify (swapU t) = classify t := classify_permEq (permEq_swapU t)

/-- any rewriting of the annotations of a class that only permutes union members (of any unions, at any depth,
in any of the fields, own or inherited) leaves the outcome of the class unchanged -/
theorem classOutcome_permuted (F : Ty → Ty) (hF : ∀ t, PermEq t (F t)) (ls : List Level) :
    classOutcome (mapLevels F ls) = classOutcome ls :=
  classOutcome_mapLevels F (fun t => classify_permEq (hF t)) ls

theorem chainOutcome_permuted (F : Ty → Ty) (hF : ∀ t, PermEq t (F t)) (ls : List Level) :
    chainOutcome (mapLevels F ls) = chainOutcome ls :=
  chainFrom_mapLevels F (fun t => classify_permEq (hF t)) [] ls

/-! ### non-vacuity -/

-- `Union[N0, None, N2]` ~ `Union[None, N2, N0]`
example : PermEq (.union (.node 0) [.none, .node 2]) (.union .none [.node 2, .node 0]) :=
  .single (.here (List.perm_append_comm (l₁ := [Ty.node 0]) (l₂ := [Ty.none, Ty.node 2])))
-- `tuple[Union[N0, N1], Union[N2, None]]`: two unions inside a tuple, both permuted
example : PermEq (.coll .tuple [.union (.node 0) [.node 1], .union (.node 2) [.none]])
    (.coll .tuple [.union (.node 1) [.node 0], .union .none [.node 2]]) :=
  PermEq.coll_pointwise (.cons (.single (.here (.swap _ _ []))) (.cons (.single (.here (.swap _ _ []))) .nil))
-- `swapU` really moves members, at depth
example : swapU (.vtuple (.union (.node 0) [.union (.atom .int) [.none], .node 2])) =
    .vtuple (.union (.union .none [.atom .int]) [.node 0, .node 2]) := by rfl

end C11
end PyOak
