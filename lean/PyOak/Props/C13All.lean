import PyOak.Props.C13
import PyOak.Props.C13Sound
