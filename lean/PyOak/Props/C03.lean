/-
C03 — the registry holds exactly the live, not-detached nodes, under pairwise different ids.

* `Inv` (keys pairwise different, `regId`, heap uids pairwise different, registered ⇒ not detached,
  plus the auxiliary clause `detachedHeap`) is preserved by every admissible operation
  (`inv_step`, `inv_run`); `RegLive` (registered ⇒ live) holds after every step (`regLive_step`).
* `freshId_free`: the id chosen by `__post_init__` is never a key (pigeonhole over the
  `reg.length + 1` suffix candidates, `RegL.pigeon`); `id_fresh_is_base`.
* primitives: `pNew_inv`, `pDetachSelf_inv`, `pRestore_inv`, `pForceId_inv`, `gc_inv`,
  `gc_regLive`, `gc_liveRegistered`; completeness: `pDetachSelf_LR`, `pRestore_LR`,
  `pNew_bind_LR`, `pForceId_LR` (only when the forced id is not a key — F19 otherwise).
* completeness `LiveRegistered` is preserved by every operation (`liveRegistered_step`), `as_obj`
  included provided no forced id clashes with a key of the registry (`noClash`; the excluded case
  is defect F19, counterexample `asObj_evicts_live`); `liveRegistered_step_partial` is the
  statement for the operations other than `as_obj` (no `RegLive`/`noClash` hypothesis).
  The fuel of the model's `live` (all children lists + roots) always suffices
  (`RegL.live_complete`).
  `liveRegistered_run` lifts the result to histories.
* `replace_fail_frame`, `replace_fail_raised`; `get_sound`, `getAny_eq`.
-/
import PyOak.Lemmas.Registry
namespace PyOak
namespace C03
open RState RegL

/-! ### the invariant -/

/-- The always-true clauses.  `detachedHeap` (the ghost list `detached` only mentions created
objects) is an auxiliary clause needed to make the others inductive. -/
structure Inv (s : RState) : Prop where
  /-- ids of registered nodes are pairwise different -/
  keysNodup : (s.reg.map (·.1)).Nodup
  /-- a lookup under `k` returns a node whose id is `k` -/
  regId : ∀ k u, (k, u) ∈ s.reg → ∃ o ∈ s.heap, o.uid = u ∧ o.id = k
  heapNodup : (s.heap.map (·.uid)).Nodup
  /-- detached nodes are not returned -/
  regNotDetached : ∀ k u, (k, u) ∈ s.reg → u ∉ s.detached
  detachedHeap : ∀ u ∈ s.detached, u ∈ s.heap.map (·.uid)

/-- nodes no longer referenced are not returned (holds at quiescent points) -/
def RegLive (s : RState) : Prop := ∀ k u, (k, u) ∈ s.reg → s.isLive u = true

/-- completeness: every live node that was not detached is returned under its id -/
def LiveRegistered (s : RState) : Prop :=
  ∀ o ∈ s.heap, s.isLive o.uid = true → o.uid ∉ s.detached → (o.id, o.uid) ∈ s.reg

/-- the `fresh` tokens are pairwise distinct and not yet objects -/
def FreshOk (s : RState) (fresh : Fresh) : Prop :=
  (fresh.map (·.1)).Nodup ∧ ∀ t ∈ fresh.map (·.1), t ∉ s.heap.map (·.uid)

instance (s : RState) (fresh : Fresh) : Decidable (FreshOk s fresh) := by
  unfold FreshOk; infer_instance

def opFresh : ROp → Fresh
  | .construct _ _ _ _ f => f
  | .duplicate _ _ f => f
  | .dcReplace _ _ _ f => f
  | .replace _ _ _ _ f => f
  | .asObj _ _ f => f
  | _ => []

/-- admissible operation (`step` does not check this) -/
def OpOk (s : RState) (op : ROp) : Prop := FreshOk s (opFresh op)

instance (s : RState) (op : ROp) : Decidable (OpOk s op) := by
  unfold OpOk; infer_instance

theorem inv_empty : Inv {} where
  keysNodup := by simp
  regId := by intro k u h; simp at h
  heapNodup := by simp
  regNotDetached := by intro k u h; simp at h
  detachedHeap := by intro u h; simp at h

/-! ### C03.1 -/

theorem freshId_free (s : RState) (base : Str) : s.freshId base ∉ s.reg.map (·.1) :=
  RegL.freshId_free s base

theorem id_fresh_is_base (s : RState) (base : Str) (h : s.regGet base = none) : s.freshId base = base :=
  RegL.id_fresh_is_base s base h

/-! ### C03.2 primitives -/

theorem mem_uids_iff {s : RState} {u : Nat} : u ∈ s.heap.map (·.uid) ↔ ∃ o ∈ s.heap, o.uid = u := by
  simp

theorem pNew_inv {s : RState} (h : Inv s) {u : Nat} (hu : u ∉ s.heap.map (·.uid))
    (cls : Str) (mro : List Str) (base : Str) (kids : List Nat) : Inv (s.pNew u cls mro base kids) where
  keysNodup := keysNodup_regSet _ _ h.keysNodup
  regId := by
    intro k u' hm
    simp only [pNew] at hm ⊢
    rcases mem_regSet.mp hm with ⟨hm', _⟩ | he
    · obtain ⟨o, ho, h1, h2⟩ := h.regId k u' hm'
      exact ⟨o, List.mem_append_left _ ho, h1, h2⟩
    · cases he
      exact ⟨_, List.mem_append_right _ (List.mem_singleton.mpr rfl), rfl, rfl⟩
  heapNodup := by
    simp only [pNew, List.map_append, List.map_cons, List.map_nil]
    rw [List.nodup_append]
    refine ⟨h.heapNodup, by simp, ?_⟩
    intro a ha b hb
    simp at hb
    subst hb
    intro e; subst e
    exact hu ha
  regNotDetached := by
    intro k u' hm
    simp only [pNew] at hm ⊢
    rcases mem_regSet.mp hm with ⟨hm', _⟩ | he
    · exact h.regNotDetached k u' hm'
    · cases he
      intro hd
      exact hu (h.detachedHeap _ hd)
  detachedHeap := by
    intro u' hd
    simp only [pNew, List.map_append, List.mem_append] at hd ⊢
    exact Or.inl (h.detachedHeap u' hd)

/-- a registered entry determines the key: the object's own id -/
theorem key_of_mem {s : RState} (h : Inv s) {k : Str} {u : Nat} (hm : (k, u) ∈ s.reg) : s.idOf u = k := by
  obtain ⟨o, ho, rfl, rfl⟩ := h.regId k u hm
  exact idOf_of_mem h.heapNodup ho

theorem pDetachSelf_fst_heap (s : RState) (u : Nat) : (s.pDetachSelf u).1.heap = s.heap := by
  unfold pDetachSelf; split <;> rfl

theorem pDetachSelf_fst_roots (s : RState) (u : Nat) : (s.pDetachSelf u).1.roots = s.roots := by
  unfold pDetachSelf; split <;> rfl

theorem pDetachSelf_true {s : RState} {u : Nat} (h : (s.pDetachSelf u).2 = true) :
    s.regGet (s.idOf u) = some u ∧
    (s.pDetachSelf u).1 = { s with reg := regDel s.reg (s.idOf u), detached := u :: s.detached } := by
  unfold pDetachSelf at h ⊢
  split at h
  · rename_i hc
    simp only [hc, if_true, and_true]
    simpa using hc
  · cases h

theorem pDetachSelf_false {s : RState} {u : Nat} (h : (s.pDetachSelf u).2 = false) :
    s.regGet (s.idOf u) ≠ some u ∧ (s.pDetachSelf u).1 = s := by
  unfold pDetachSelf at h ⊢
  split at h
  · cases h
  · rename_i hc
    simp only [hc]
    exact ⟨by simpa using hc, by simp⟩

theorem pDetachSelf_inv {s : RState} (h : Inv s) (u : Nat) : Inv (s.pDetachSelf u).1 := by
  cases hb : (s.pDetachSelf u).2 with
  | false => rw [(pDetachSelf_false hb).2]; exact h
  | true =>
    obtain ⟨hreg, heq⟩ := pDetachSelf_true hb
    rw [heq]
    have hmem : (s.idOf u, u) ∈ s.reg := rget_some_mem hreg
    refine ⟨h.keysNodup.sublist (keys_regDel _ _), ?_, h.heapNodup, ?_, ?_⟩
    · intro k u' hm
      exact h.regId k u' (mem_regDel.mp hm).1
    · intro k u' hm
      obtain ⟨hm1, hm2⟩ := mem_regDel.mp hm
      simp only [List.mem_cons, not_or]
      refine ⟨?_, h.regNotDetached k u' hm1⟩
      intro e; subst e
      exact hm2 (key_of_mem h hm1).symm
    · intro u' hd
      simp only [List.mem_cons] at hd
      rcases hd with rfl | hd
      · obtain ⟨o, ho, h1, _⟩ := h.regId _ _ hmem
        exact mem_uids_iff.mpr ⟨o, ho, h1⟩
      · exact h.detachedHeap u' hd

theorem pRestore_inv {s : RState} (h : Inv s) {u : Nat} (hu : u ∈ s.heap.map (·.uid)) : Inv (s.pRestore u) where
  keysNodup := keysNodup_regSet _ _ h.keysNodup
  regId := by
    intro k u' hm
    simp only [pRestore] at hm ⊢
    rcases mem_regSet.mp hm with ⟨hm', _⟩ | he
    · exact h.regId k u' hm'
    · cases he
      obtain ⟨o, ho, rfl⟩ := mem_uids_iff.mp hu
      exact ⟨o, ho, rfl, (idOf_of_mem h.heapNodup ho).symm⟩
  heapNodup := h.heapNodup
  regNotDetached := by
    intro k u' hm
    simp only [pRestore] at hm ⊢
    rcases mem_regSet.mp hm with ⟨hm', _⟩ | he
    · intro hd; exact h.regNotDetached k u' hm' (List.mem_filter.mp hd).1
    · cases he; simp
  detachedHeap := by
    intro u' hd
    exact h.detachedHeap u' (List.mem_filter.mp hd).1

theorem pForceId_uids (s : RState) (u : Nat) (sid : Str) :
    (s.pForceId u sid).heap.map (·.uid) = s.heap.map (·.uid) := by
  simp only [pForceId, List.map_map]
  apply List.map_congr_left
  intro o _
  simp only [Function.comp]
  split <;> rfl

/-- forcing the serialized id: the four always-true clauses survive (the forced object must exist
and not be detached — in `_deserialize` it was created and registered just before) -/
theorem pForceId_inv {s : RState} (h : Inv s) {u : Nat} (hu : u ∈ s.heap.map (·.uid)) (hd : u ∉ s.detached)
    (sid : Str) : Inv (s.pForceId u sid) where
  keysNodup := keysNodup_regSet _ _ (h.keysNodup.sublist (keys_regDel _ _))
  regId := by
    intro k u' hm
    simp only [pForceId] at hm ⊢
    rcases mem_regSet.mp hm with ⟨hm', _⟩ | he
    · obtain ⟨hm1, hm2⟩ := mem_regDel.mp hm'
      obtain ⟨o, ho, h1, h2⟩ := h.regId k u' hm1
      have hne : u' ≠ u := by
        intro e; subst e
        exact hm2 (key_of_mem h hm1).symm
      refine ⟨o, List.mem_map.mpr ⟨o, ho, ?_⟩, h1, h2⟩
      have : (o.uid == u) = false := by rw [h1]; simpa using hne
      simp [this]
    · cases he
      obtain ⟨o, ho, rfl⟩ := mem_uids_iff.mp hu
      exact ⟨{ o with id := sid }, List.mem_map.mpr ⟨o, ho, by simp⟩, rfl, rfl⟩
  heapNodup := by rw [pForceId_uids]; exact h.heapNodup
  regNotDetached := by
    intro k u' hm
    simp only [pForceId] at hm ⊢
    rcases mem_regSet.mp hm with ⟨hm', _⟩ | he
    · exact h.regNotDetached k u' (mem_regDel.mp hm').1
    · cases he; exact hd
  detachedHeap := by
    intro u' hd'
    rw [pForceId_uids]
    exact h.detachedHeap u' hd'

theorem gc_inv {s : RState} (h : Inv s) : Inv s.gc where
  keysNodup := h.keysNodup.sublist (List.filter_sublist.map _)
  regId := fun k u hm => h.regId k u (List.mem_filter.mp hm).1
  heapNodup := h.heapNodup
  regNotDetached := fun k u hm => h.regNotDetached k u (List.mem_filter.mp hm).1
  detachedHeap := h.detachedHeap

theorem bind_inv {s : RState} (h : Inv s) (v u : Nat) : Inv (s.bind v u) :=
  ⟨h.keysNodup, h.regId, h.heapNodup, h.regNotDetached, h.detachedHeap⟩

theorem unbind_inv {s : RState} (h : Inv s) (v : Nat) : Inv (s.unbind v) :=
  ⟨h.keysNodup, h.regId, h.heapNodup, h.regNotDetached, h.detachedHeap⟩

/-! liveness only depends on the heap and the roots -/

theorem reach_congr {s s' : RState} (hh : s.heap = s'.heap) :
    ∀ (fuel : Nat) (fr seen : List Nat), s.reach fuel fr seen = s'.reach fuel fr seen
  | 0, _, _ => by simp [reach]
  | fuel + 1, [], seen => by simp [reach]
  | fuel + 1, u :: rest, seen => by
    have hk : s.kidsOf u = s'.kidsOf u := by simp [kidsOf, obj?, hh]
    simp only [reach, hk]
    split
    · exact reach_congr hh fuel rest seen
    · exact reach_congr hh fuel _ _

theorem live_congr {s s' : RState} (hh : s.heap = s'.heap) (hr : s.roots = s'.roots) : s.live = s'.live := by
  unfold live
  rw [reach_congr hh, hh, hr]

theorem isLive_congr {s s' : RState} (hh : s.heap = s'.heap) (hr : s.roots = s'.roots) (u : Nat) :
    s.isLive u = s'.isLive u := by
  unfold isLive; rw [live_congr hh hr]

theorem isLive_gc (s : RState) (u : Nat) : s.gc.isLive u = s.isLive u :=
  isLive_congr (s := s.gc) (s' := s) rfl rfl u

theorem gc_regLive (s : RState) : RegLive s.gc := by
  intro k u hm
  rw [isLive_gc]
  exact (List.mem_filter.mp hm).2

theorem gc_liveRegistered {s : RState} (h : LiveRegistered s) : LiveRegistered s.gc := by
  intro o ho hl hd
  rw [isLive_gc] at hl
  exact List.mem_filter.mpr ⟨h o ho hl hd, hl⟩

theorem gc_eq_self {s : RState} (h : RegLive s) : s.gc = s := by
  have : s.reg.filter (fun e => s.live.contains e.2) = s.reg := by
    rw [List.filter_eq_self]
    intro e he
    exact h e.1 e.2 he
  cases s
  simp only [gc] at this ⊢
  rw [this]

theorem regLive_of_gc_eq {s : RState} (h : s.gc = s) : RegLive s := by
  rw [← h]; exact gc_regLive s

/-! ### evolutions (`duplicate`, `_deserialize`) preserve the invariant -/

theorem FreshOk.tail {s : RState} {tok : Nat} {base : Str} {fr : Fresh} (h : FreshOk s ((tok, base) :: fr))
    (cls : Str) (mro : List Str) (ks : List Nat) : FreshOk (s.pNew tok cls mro base ks) fr := by
  obtain ⟨h1, h2⟩ := h
  simp only [List.map_cons, List.nodup_cons] at h1
  refine ⟨h1.2, ?_⟩
  intro t ht
  simp only [pNew, List.map_append, List.map_cons, List.map_nil, List.mem_append, List.mem_singleton, not_or]
  refine ⟨h2 t (by simp [List.mem_map] at ht ⊢; exact Or.inr ht), ?_⟩
  intro e; subst e
  exact h1.1 ht

theorem FreshOk.head {s : RState} {tok : Nat} {base : Str} {fr : Fresh} (h : FreshOk s ((tok, base) :: fr)) :
    tok ∉ s.heap.map (·.uid) := h.2 tok (by simp)

theorem evol_good {K L : Nat → Prop} {F C : Bool} {s f s1 f1} (h : Evol K L F C s f s1 f1) (hI : Inv s) (hf : FreshOk s f) :
    Inv s1 ∧ FreshOk s1 f1 := by
  induction h with
  | refl => exact ⟨hI, hf⟩
  | new _ cls mro ks hk hl ih =>
    obtain ⟨i1, f1⟩ := ih
    exact ⟨pNew_inv i1 f1.head _ _ _ _, f1.tail _ _ _⟩
  | @newForce s1 tok base fr hF _ cls mro ks hk hl sid hC ih =>
    obtain ⟨i1, f1⟩ := ih
    have i2 := pNew_inv i1 f1.head cls mro base ks
    have f2 := f1.tail cls mro ks
    have hmem : tok ∈ (s1.pNew tok cls mro base ks).heap.map (·.uid) := by simp [pNew]
    have hnd : tok ∉ (s1.pNew tok cls mro base ks).detached := fun hd => f1.head (i1.detachedHeap _ hd)
    refine ⟨pForceId_inv i2 hmem hnd sid, f2.1, ?_⟩
    intro t ht
    rw [pForceId_uids]
    exact f2.2 t ht

theorem detachAll_inv : ∀ (us : List Nat) {s : RState}, Inv s → Inv (detachAll s us)
  | [], _, h => h
  | c :: r, _, h => by rw [detachAll_cons]; exact detachAll_inv r (pDetachSelf_inv h c)

/-! ### C03.3 every operation preserves the invariant -/

theorem inv_pre {s : RState} {op : ROp} {s1 : RState} (hI : Inv s) (hok : OpOk s op) (hp : Pre s op s1) :
    Inv s1 := by
  cases hp with
  | construct hk => exact bind_inv (pNew_inv hI (FreshOk.head hok) _ _ _ _) _ _
  | duplicate hx h => exact bind_inv (evol_good (dupAux_evol _ _ _ _ _ _ _ h) hI hok).1 _ _
  | duplicateD hx h => exact (evol_good (dupAux_evol _ _ _ _ _ _ _ h) hI hok).1
  | dcReplace hx hk ho => exact bind_inv (pNew_inv hI (FreshOk.head hok) _ _ _ _) _ _
  | @replaceFail v x kids hx hk =>
    cases hb : (s.pDetachSelf x).2 with
    | false => simp only [Bool.false_eq_true, if_false]; exact pDetachSelf_inv hI x
    | true =>
      simp only [if_true]
      apply pRestore_inv (pDetachSelf_inv hI x)
      rw [pDetachSelf_fst_heap]
      obtain ⟨o, ho, h1, _⟩ := hI.regId _ _ (rget_some_mem (pDetachSelf_true hb).1)
      exact mem_uids_iff.mpr ⟨o, ho, h1⟩
  | @replaceOk v x kids tok base o hx hk ho =>
    apply bind_inv
    apply pNew_inv (pDetachSelf_inv hI x)
    rw [pDetachSelf_fst_heap]
    exact FreshOk.head hok
  | detach hx => exact detachAll_inv _ (pDetachSelf_inv hI _)
  | detachSelf hx => exact pDetachSelf_inv hI _
  | asObj h => exact bind_inv (evol_good (deserAux_evol _ _ _ _ _ _ h) hI hok).1 _ _
  | asObjD h => exact (evol_good (deserAux_evol _ _ _ _ _ _ h) hI hok).1
  | alias hu => exact bind_inv hI _ _
  | drop => exact unbind_inv hI _

theorem inv_step {s : RState} {op : ROp} (hI : Inv s) (hok : OpOk s op) : Inv (s.step op).1 := by
  rcases step_shape s op with h | ⟨s1, hp, h⟩
  · rw [h]; exact hI
  · rw [h]; exact gc_inv (inv_pre hI hok hp)

/-- after any step every registered node is live (`RegLive` holds initially and is only ever
left untouched — rejected operations — or re-established by the final `gc`) -/
theorem regLive_step {s : RState} (op : ROp) (hq : RegLive s) : RegLive (s.step op).1 := by
  rcases step_shape s op with h | ⟨s1, _, h⟩
  · rw [h]; exact hq
  · rw [h]; exact gc_regLive s1

/-- states are quiescent after every step: `gc` is idempotent on them -/
theorem quiescent_step {s : RState} (op : ROp) (hq : s.gc = s) : (s.step op).1.gc = (s.step op).1 :=
  gc_eq_self (regLive_step op (regLive_of_gc_eq hq))

def run (s : RState) (ops : List ROp) : RState := ops.foldl (fun s o => (s.step o).1) s

/-- every operation of the history is admissible in the state it is applied to -/
def AllOk : RState → List ROp → Prop
  | _, [] => True
  | s, op :: r => OpOk s op ∧ AllOk (s.step op).1 r

instance : ∀ (s : RState) (ops : List ROp), Decidable (AllOk s ops)
  | _, [] => by unfold AllOk; infer_instance
  | s, op :: r => by
    unfold AllOk
    have := instDecidableAllOk (s.step op).1 r
    infer_instance

theorem inv_run_from : ∀ (ops : List ROp) (s : RState), Inv s → RegLive s → AllOk s ops →
    Inv (run s ops) ∧ RegLive (run s ops)
  | [], _, hI, hq, _ => ⟨hI, hq⟩
  | op :: r, _, hI, hq, hok => inv_run_from r _ (inv_step hI hok.1) (regLive_step op hq) hok.2

theorem inv_run (ops : List ROp) (hok : AllOk {} ops) :
    Inv (ops.foldl (fun s o => (s.step o).1) {}) :=
  (inv_run_from ops {} inv_empty (by intro k u h; simp at h) hok).1

theorem regLive_run (ops : List ROp) (hok : AllOk {} ops) :
    RegLive (ops.foldl (fun s o => (s.step o).1) {}) :=
  (inv_run_from ops {} inv_empty (by intro k u h; simp at h) hok).2

/-! ### C03.4 completeness: every live, not detached node is registered

Liveness is *computed* by `live`; its fuel always suffices (`RegL.live_complete`), so `isLive` is
exactly reachability from the roots. -/

def isAsObj : ROp → Bool
  | .asObj _ _ _ => true
  | _ => false

theorem reg_functional {s : RState} (h : Inv s) {k : Str} {u u' : Nat} (h1 : (k, u) ∈ s.reg)
    (h2 : (k, u') ∈ s.reg) : u = u' := by
  have a := rget_of_mem h.keysNodup h1
  have b := rget_of_mem h.keysNodup h2
  rw [a] at b
  exact Option.some.inj b

theorem pDetachSelf_LR {s : RState} (hI : Inv s) (hL : LiveRegistered s) (x : Nat) :
    LiveRegistered (s.pDetachSelf x).1 := by
  cases hb : (s.pDetachSelf x).2 with
  | false => rw [(pDetachSelf_false hb).2]; exact hL
  | true =>
    obtain ⟨hreg, heq⟩ := pDetachSelf_true hb
    rw [heq]
    intro o ho hl hd
    have hl' : s.isLive o.uid = true := by
      rw [← hl]; exact isLive_congr (by rfl) (by rfl) _
    simp only [List.mem_cons, not_or] at hd
    have hm := hL o ho hl' hd.2
    refine mem_regDel.mpr ⟨hm, ?_⟩
    intro e
    have hx : (s.idOf x, x) ∈ s.reg := rget_some_mem hreg
    simp only at e
    rw [← e] at hx
    exact hd.1 (reg_functional hI hm hx)

theorem detachAll_LR : ∀ (us : List Nat) {s : RState}, Inv s → LiveRegistered s → LiveRegistered (detachAll s us)
  | [], _, _, h => h
  | c :: r, _, hI, h => by
    rw [detachAll_cons]; exact detachAll_LR r (pDetachSelf_inv hI c) (pDetachSelf_LR hI h c)

/-- re-registration keeps completeness when the key is free or the node's own -/
theorem pRestore_LR {s : RState} (hI : Inv s) (hL : LiveRegistered s) (x : Nat)
    (hfree : s.regGet (s.idOf x) = none ∨ s.regGet (s.idOf x) = some x) : LiveRegistered (s.pRestore x) := by
  intro o ho hl hd
  have hl' : s.isLive o.uid = true := by
    rw [← hl]; exact isLive_congr (by rfl) (by rfl) _
  have ho' : o ∈ s.heap := ho
  simp only [pRestore] at hd ⊢
  by_cases e : o.uid = x
  · apply mem_regSet.mpr; right
    rw [← e, idOf_of_mem hI.heapNodup ho']
  · have hnd : o.uid ∉ s.detached := by
      intro h; apply hd; exact List.mem_filter.mpr ⟨h, by simpa using e⟩
    have hm := hL o ho' hl' hnd
    apply mem_regSet.mpr; left
    refine ⟨hm, ?_⟩
    intro e'
    simp only at e'
    have hg : s.regGet o.id = some o.uid := rget_of_mem hI.keysNodup hm
    rw [e'] at hg
    rcases hfree with h | h
    · rw [h] at hg; cases hg
    · rw [h] at hg; exact e (Option.some.inj hg).symm

theorem pNew_bind_LR {s : RState} (hI : Inv s) (hL : LiveRegistered s) {tok : Nat}
    (htok : tok ∉ s.heap.map (·.uid)) {kids : List Nat} (hk : kids.all s.isLive = true)
    (cls : Str) (mro : List Str) (base : Str) (v : Nat) :
    LiveRegistered ((s.pNew tok cls mro base kids).bind v tok) := by
  intro o ho hl hd
  have hP : s.isLive o.uid = true ∨ o.uid = tok := by
    refine isLive_ind (fun a => s.isLive a = true ∨ a = tok) ?_ ?_ hl
    · intro r hr
      simp only [RState.bind, List.mem_append, List.mem_singleton] at hr
      rcases hr with hr | rfl
      · exact Or.inl (isLive_root hI.heapNodup (List.mem_filter.mp hr).1)
      · exact Or.inr rfl
    · intro a ha b hb
      left
      rw [kidsOf_def] at hb
      simp only [RState.bind, pNew] at hb
      by_cases hm : a ∈ s.heap.map (·.uid)
      · rw [kidsL_append_of_mem hm, ← kidsOf_def] at hb
        rcases ha with ha | rfl
        · exact isLive_kid hI.heapNodup ha hb
        · exact absurd hm htok
      · rw [kidsL_append_of_not_mem hm] at hb
        by_cases e : tok = a
        · subst e
          simp [kidsL] at hb
          exact List.all_eq_true.mp hk b hb
        · have : (tok == a) = false := by simpa using e
          simp [kidsL, this] at hb
  simp only [RState.bind, pNew] at ho hd ⊢
  rcases List.mem_append.mp ho with ho' | ho'
  · have hne : o.uid ≠ tok := fun e => htok (e ▸ List.mem_map.mpr ⟨o, ho', rfl⟩)
    have hl' : s.isLive o.uid = true := hP.resolve_right hne
    have hm := hL o ho' hl' hd
    apply mem_regSet.mpr; left
    refine ⟨hm, ?_⟩
    intro e
    apply freshId_free s base
    rw [← e]
    exact List.mem_map.mpr ⟨_, hm, rfl⟩
  · simp only [List.mem_singleton] at ho'
    subst ho'
    exact mem_regSet.mpr (Or.inr rfl)

/-! forcing an id does not change liveness (children links are untouched) -/

theorem reach_congr_kids {s s' : RState} (hk : ∀ u, s.kidsOf u = s'.kidsOf u) :
    ∀ (fuel : Nat) (fr seen : List Nat), s.reach fuel fr seen = s'.reach fuel fr seen
  | 0, _, _ => by simp [reach]
  | fuel + 1, [], seen => by simp [reach]
  | fuel + 1, u :: rest, seen => by
    simp only [reach, hk u]
    split
    · exact reach_congr_kids hk fuel rest seen
    · exact reach_congr_kids hk fuel _ _

theorem kidsL_map (f : RObj → RObj) (hu : ∀ o, (f o).uid = o.uid) (hk : ∀ o, (f o).kids = o.kids) (a : Nat) :
    ∀ (heap : List RObj), kidsL (heap.map f) a = kidsL heap a
  | [] => rfl
  | o :: r => by
    have ih := kidsL_map f hu hk a r
    unfold kidsL at ih ⊢
    rw [List.map_cons, List.find?_cons, List.find?_cons, hu]
    cases (o.uid == a) with
    | true => simp [hk]
    | false => exact ih

theorem kidsL_map_id (u : Nat) (sid : Str) (a : Nat) (heap : List RObj) :
    kidsL (heap.map (fun o => if o.uid == u then { o with id := sid } else o)) a = kidsL heap a := by
  apply kidsL_map
  · intro o; split <;> rfl
  · intro o; split <;> rfl

theorem isLive_pForceId (s : RState) (u : Nat) (sid : Str) (w : Nat) :
    (s.pForceId u sid).isLive w = s.isLive w := by
  have hk : ∀ a, (s.pForceId u sid).kidsOf a = s.kidsOf a := by
    intro a; rw [kidsOf_def, kidsOf_def]; exact kidsL_map_id u sid a s.heap
  have hsum : ((s.pForceId u sid).heap.map (·.kids.length)).sum = (s.heap.map (·.kids.length)).sum := by
    simp only [pForceId, List.map_map]
    congr 1
    apply List.map_congr_left
    intro o _
    simp only [Function.comp]
    split <;> rfl
  unfold isLive live
  rw [reach_congr_kids hk, hsum]
  rfl

/-- forcing the serialized id keeps completeness **only when `sid` is not a key of the registry
at that moment** (and the forced node is registered under its own id, or its id is free).
The excluded case is defect F19, see `asObj_evicts_live`. -/
theorem pForceId_LR {s : RState} (hI : Inv s) (hL : LiveRegistered s) {u : Nat}
    (hown : s.regGet (s.idOf u) = none ∨ s.regGet (s.idOf u) = some u)
    {sid : Str} (hsid : sid ∉ s.reg.map (·.1)) : LiveRegistered (s.pForceId u sid) := by
  intro o' ho' hl hd
  rw [isLive_pForceId] at hl
  simp only [pForceId] at ho' hd ⊢
  obtain ⟨o, ho, rfl⟩ := List.mem_map.mp ho'
  by_cases e : o.uid = u
  · have : (o.uid == u) = true := by simpa using e
    simp only [this, if_true]
    exact mem_regSet.mpr (Or.inr (by rw [e]))
  · have hb : (o.uid == u) = false := by simpa using e
    simp only [hb, Bool.false_eq_true, if_false] at hl hd ⊢
    have hm := hL o ho hl hd
    apply mem_regSet.mpr; left
    refine ⟨mem_regDel.mpr ⟨hm, ?_⟩, ?_⟩
    · intro e'
      simp only at e'
      have hg : s.regGet o.id = some o.uid := rget_of_mem hI.keysNodup hm
      rw [e'] at hg
      rcases hown with h | h
      · rw [h] at hg; cases hg
      · rw [h] at hg; exact e (Option.some.inj hg).symm
    · intro e'
      simp only at e'
      exact hsid (e' ▸ List.mem_map.mpr ⟨_, hm, rfl⟩)

theorem idOf_pNew {s : RState} {tok : Nat} (htok : tok ∉ s.heap.map (·.uid)) (cls : Str) (mro : List Str)
    (base : Str) (kids : List Nat) : (s.pNew tok cls mro base kids).idOf tok = s.freshId base := by
  have : s.heap.find? (·.uid == tok) = none := by
    rw [List.find?_eq_none]
    intro o ho
    simp only [beq_iff_eq]
    intro e; exact htok (List.mem_map.mpr ⟨o, ho, e⟩)
  simp [idOf, obj?, pNew, List.find?_append, this]

/-- what an evolution without id clashes does to heap and registry: old records are untouched,
new ones are registered under their id, no entry is lost -/
theorem evol_cases {K L : Nat → Prop} {F : Bool} {s f s1 f1} (h : Evol K L F false s f s1 f1)
    (hI : Inv s) (hf : FreshOk s f) :
    (∀ o ∈ s1.heap, o ∈ s.heap ∨ (o.uid ∈ f.map (·.1) ∧ (∀ k ∈ o.kids, K k) ∧ (o.id, o.uid) ∈ s1.reg)) ∧
    (∀ e ∈ s.reg, e ∈ s1.reg) := by
  induction h with
  | refl => exact ⟨fun o ho => Or.inl ho, fun e he => he⟩
  | @new s1 tok base fr hE cls mro ks hk hl ih =>
    obtain ⟨p, hp⟩ := hE.suffix
    have hreg : (s1.pNew tok cls mro base ks).reg = s1.reg ++ [(s1.freshId base, tok)] :=
      regSet_of_free tok (freshId_free s1 base)
    constructor
    · intro o ho
      rw [hreg]
      simp only [pNew] at ho
      rcases List.mem_append.mp ho with ho' | ho'
      · rcases ih.1 o ho' with h | ⟨h1, h2, h3⟩
        · exact Or.inl h
        · exact Or.inr ⟨h1, h2, List.mem_append_left _ h3⟩
      · simp only [List.mem_singleton] at ho'
        subst ho'
        exact Or.inr ⟨by rw [hp]; simp, hk, by simp⟩
    · intro e he
      rw [hreg]
      exact List.mem_append_left _ (ih.2 e he)
  | @newForce s1 tok base fr hF hE cls mro ks hk hl sid hC ih =>
    obtain ⟨p, hp⟩ := hE.suffix
    obtain ⟨hI1, hf1⟩ := evol_good hE hI hf
    have htok : tok ∉ s1.heap.map (·.uid) := hf1.head
    have hreg : (s1.pNew tok cls mro base ks).reg = s1.reg ++ [(s1.freshId base, tok)] :=
      regSet_of_free tok (freshId_free s1 base)
    have hid : (s1.pNew tok cls mro base ks).idOf tok = s1.freshId base := idOf_pNew htok _ _ _ _
    have hsid := hC rfl
    -- entries of `s1.reg` survive the forcing
    have hkeep : ∀ e ∈ s1.reg, e ∈ ((s1.pNew tok cls mro base ks).pForceId tok sid).reg := by
      intro e he
      simp only [pForceId]
      apply mem_regSet.mpr; left
      have he2 : e ∈ (s1.pNew tok cls mro base ks).reg := by rw [hreg]; exact List.mem_append_left _ he
      refine ⟨mem_regDel.mpr ⟨he2, ?_⟩, ?_⟩
      · rw [hid]; intro e'
        exact freshId_free s1 base (e' ▸ List.mem_map.mpr ⟨e, he, rfl⟩)
      · intro e'
        exact hsid (e' ▸ List.mem_map.mpr ⟨e, he2, rfl⟩)
    constructor
    · intro o3 ho3
      simp only [pForceId] at ho3
      obtain ⟨o2, ho2, rfl⟩ := List.mem_map.mp ho3
      simp only [pNew] at ho2
      rcases List.mem_append.mp ho2 with ho' | ho'
      · have hne : (o2.uid == tok) = false := by
          simp only [beq_eq_false_iff_ne, ne_eq]
          intro e; exact htok (e ▸ List.mem_map.mpr ⟨o2, ho', rfl⟩)
        simp only [hne, Bool.false_eq_true, if_false]
        rcases ih.1 o2 ho' with h | ⟨h1, h2, h3⟩
        · exact Or.inl h
        · exact Or.inr ⟨h1, h2, hkeep _ h3⟩
      · simp only [List.mem_singleton] at ho'
        subst ho'
        simp only [beq_self_eq_true, if_true]
        refine Or.inr ⟨by rw [hp]; simp, hk, ?_⟩
        simp only [pForceId]
        exact mem_regSet.mpr (Or.inr rfl)
    · intro e he
      exact hkeep e (ih.2 e he)

theorem evol_LR {L : Nat → Prop} {F : Bool} {s : RState} {f : Fresh} {s1 : RState} {f1 : Fresh} (hI : Inv s)
    (hf : FreshOk s f) (hL : LiveRegistered s)
    (hE : Evol (fun k => s.isLive k = true ∨ k ∈ f.map (·.1)) L F false s f s1 f1)
    (roots' : List (Nat × Nat)) (hr : ∀ r ∈ roots', s.isLive r.2 = true ∨ r.2 ∈ f.map (·.1)) :
    LiveRegistered { s1 with roots := roots' } := by
  obtain ⟨hc1, hc2⟩ := evol_cases hE hI hf
  have hI1 := (evol_good hE hI hf).1
  intro o ho hl hd
  have ho' : o ∈ s1.heap := ho
  have hP : s.isLive o.uid = true ∨ o.uid ∈ f.map (·.1) := by
    refine isLive_ind (fun a => s.isLive a = true ∨ a ∈ f.map (·.1)) hr ?_ hl
    intro a ha b hb
    rw [kidsOf_def] at hb
    have hb : b ∈ kidsL s1.heap a := hb
    by_cases hm : a ∈ s1.heap.map (·.uid)
    · obtain ⟨oa, hoa, rfl⟩ := List.mem_map.mp hm
      have hk1 : kidsL s1.heap oa.uid = oa.kids := kidsOf_of_mem (s := s1) hI1.heapNodup hoa
      rw [hk1] at hb
      rcases hc1 oa hoa with h | ⟨_, h2, _⟩
      · have hk0 : s.kidsOf oa.uid = oa.kids := kidsOf_of_mem hI.heapNodup h
        rcases ha with ha | ha
        · left; exact isLive_kid hI.heapNodup ha (by rw [hk0]; exact hb)
        · exact absurd (List.mem_map.mpr ⟨oa, h, rfl⟩) (hf.2 _ ha)
      · exact h2 b hb
    · rw [kidsL_of_not_mem hm] at hb; simp at hb
  show (o.id, o.uid) ∈ s1.reg
  rcases hc1 o ho' with h | ⟨_, _, h3⟩
  · have hl' : s.isLive o.uid = true := by
      rcases hP with h' | h'
      · exact h'
      · exact absurd (List.mem_map.mpr ⟨o, h, rfl⟩) (hf.2 _ h')
    have hd' : o.uid ∉ s.detached := by rw [← hE.detached]; exact hd
    exact hc2 _ (hL o h hl' hd')
  · exact h3

theorem liveRegistered_pre {s : RState} {op : ROp} {s1 : RState} (hI : Inv s) (hok : OpOk s op)
    (hL : LiveRegistered s) (hp : Pre s op s1) (hop : isAsObj op = false) :
    LiveRegistered s1 := by
  cases hp with
  | construct hk => exact pNew_bind_LR hI hL (FreshOk.head hok) hk _ _ _ _
  | @duplicate v x fresh s' u hx h =>
    obtain ⟨hE, hKu⟩ := dupAux_evolK (fun k => s.isLive k = true ∨ k ∈ fresh.map (·.1))
      (fun _ => True) false _ _ _ _ _ _ _ (fun t ht => Or.inr ht) (fun _ _ => trivial) h
    refine evol_LR hI hok hL hE _ ?_
    intro r hr
    simp only [List.mem_append, List.mem_singleton] at hr
    rcases hr with hr | rfl
    · rw [hE.roots] at hr
      exact Or.inl (isLive_root hI.heapNodup (List.mem_filter.mp hr).1)
    · exact hKu
  | @duplicateD v x fresh s' u e fr hx h =>
    obtain ⟨hE, _⟩ := dupAux_evolK (fun k => s.isLive k = true ∨ k ∈ fresh.map (·.1))
      (fun _ => True) false _ _ _ _ _ _ _ (fun t ht => Or.inr ht) (fun _ _ => trivial) h
    refine evol_LR hI hok hL hE s1.roots ?_
    intro r hr
    rw [hE.roots] at hr
    exact Or.inl (isLive_root hI.heapNodup hr)
  | dcReplace hx hk ho => exact pNew_bind_LR hI hL (FreshOk.head hok) hk _ _ _ _
  | @replaceFail v x kids hx hk =>
    cases hb : (s.pDetachSelf x).2 with
    | false => simp only [Bool.false_eq_true, if_false]; exact pDetachSelf_LR hI hL x
    | true =>
      simp only [if_true]
      apply pRestore_LR (pDetachSelf_inv hI x) (pDetachSelf_LR hI hL x)
      left
      obtain ⟨_, heq⟩ := pDetachSelf_true hb
      rw [heq]
      show rget (regDel s.reg (s.idOf x)) (s.idOf x) = none
      rw [rget_regDel]; simp
  | @replaceOk v x kids tok base o hx hk ho =>
    have hh := pDetachSelf_fst_heap s x
    have hr := pDetachSelf_fst_roots s x
    have hlive : ∀ u, (s.pDetachSelf x).1.isLive u = s.isLive u := fun u => isLive_congr hh hr u
    apply pNew_bind_LR (pDetachSelf_inv hI x) (pDetachSelf_LR hI hL x)
    · rw [hh]; exact FreshOk.head hok
    · rw [List.all_eq_true] at hk ⊢
      intro k hk'; rw [hlive]; exact hk k hk'
  | detach hx => exact detachAll_LR _ (pDetachSelf_inv hI _) (pDetachSelf_LR hI hL _)
  | detachSelf hx => exact pDetachSelf_LR hI hL _
  | asObj h => cases hop
  | asObjD h => cases hop
  | @alias v u hu =>
    intro o ho hl hd
    apply hL o ho _ hd
    refine isLive_ind (s := s.bind v u) (fun a => s.isLive a = true) ?_ ?_ hl
    · intro r hr
      simp only [RState.bind, List.mem_append, List.mem_singleton] at hr
      rcases hr with hr | rfl
      · exact isLive_root hI.heapNodup (List.mem_filter.mp hr).1
      · exact hu
    · intro a ha b hb
      exact isLive_kid hI.heapNodup ha hb
  | @drop v =>
    intro o ho hl hd
    apply hL o ho _ hd
    refine isLive_ind (s := s.unbind v) (fun a => s.isLive a = true) ?_ ?_ hl
    · intro r hr
      simp only [RState.unbind] at hr
      exact isLive_root hI.heapNodup (List.mem_filter.mp hr).1
    · intro a ha b hb
      exact isLive_kid hI.heapNodup ha hb

/-- completeness is preserved by every operation except `as_obj` (defect F19, see
`asObj_evicts_live` below) -/
theorem liveRegistered_step_partial {s : RState} {op : ROp} (hI : Inv s) (hok : OpOk s op)
    (hL : LiveRegistered s) (hop : isAsObj op = false) :
    LiveRegistered (s.step op).1 := by
  rcases step_shape s op with h | ⟨s1, hp, h⟩
  · rw [h]; exact hL
  · rw [h]; exact gc_liveRegistered (liveRegistered_pre hI hok hL hp hop)

/-! ### C03.5 a `replace()` that raises leaves the registry as it was -/

theorem replace_fail_frame {s : RState} (hI : Inv s) (hq : s.gc = s) (v x : Nat) (kids : List Nat) :
    (∀ k, ((s.step (.replace v x kids true [])).1).regGet k = s.regGet k) ∧
    (s.step (.replace v x kids true [])).1.heap = s.heap ∧
    (s.step (.replace v x kids true [])).1.roots = s.roots ∧
    (s.step (.replace v x kids true [])).1.detached = s.detached := by
  rcases step_shape s (.replace v x kids true []) with h | ⟨s1, hp, h⟩
  · rw [h]; exact ⟨fun _ => rfl, rfl, rfl, rfl⟩
  · rw [h]
    cases hp with
    | replaceFail hx hk =>
      cases hb : (s.pDetachSelf x).2 with
      | false =>
        simp only [Bool.false_eq_true, if_false]
        rw [(pDetachSelf_false hb).2, hq]
        exact ⟨fun _ => rfl, rfl, rfl, rfl⟩
      | true =>
        simp only [if_true]
        obtain ⟨hreg, heq⟩ := pDetachSelf_true hb
        rw [heq]
        have hlive := regLive_of_gc_eq hq
        have hmem : (s.idOf x, x) ∈ s.reg := rget_some_mem hreg
        -- the state after roll-back
        have hid : RState.idOf { s with reg := regDel s.reg (s.idOf x), detached := x :: s.detached } x = s.idOf x := rfl
        have hrl : RegLive (RState.pRestore { s with reg := regDel s.reg (s.idOf x), detached := x :: s.detached } x) := by
          intro k u hm
          have e : ∀ (t : RState), t.heap = s.heap → t.roots = s.roots → t.isLive u = s.isLive u :=
            fun t a b => isLive_congr a b u
          rw [e _ (by rfl) (by rfl)]
          simp only [pRestore, hid] at hm
          rcases mem_regSet.mp hm with ⟨hm', _⟩ | he
          · exact hlive k u (mem_regDel.mp hm').1
          · cases he; exact hlive _ _ hmem
        rw [gc_eq_self hrl]
        refine ⟨?_, rfl, rfl, ?_⟩
        · intro k
          simp only [regGet_def, pRestore, hid]
          rw [rget_regSet, rget_regDel]
          by_cases hk' : k = s.idOf x
          · subst hk'; simp only [if_true]; exact hreg.symm
          · simp [hk']
        · simp only [pRestore]
          have hnd : x ∉ s.detached := hI.regNotDetached _ _ hmem
          rw [List.filter_cons]
          simp only [bne_self_eq_false, Bool.false_eq_true, if_false]
          rw [List.filter_eq_self]
          intro a ha
          simp only [bne_iff_ne, ne_eq]
          intro e; subst e; exact hnd ha

theorem replace_fail_raised {s : RState} (v x : Nat) (kids : List Nat)
    (hx : s.isLive x = true) (hk : kids.all s.isLive = true) :
    (s.step (.replace v x kids true [])).2 = .raised := by
  simp [step, hx, hk]

/-! ### C03.6 lookups -/

theorem getAny_eq (s : RState) (k : Str) : s.getAny k = s.regGet k := rfl

theorem get_sound {s : RState} {cls k : Str} {strict : Bool} {u : Nat} (h : s.get cls k strict = some u) :
    s.regGet k = some u ∧ ∃ o, s.obj? u = some o ∧ (if strict then o.cls = cls else cls ∈ o.mro) := by
  unfold RState.get at h
  cases hg : s.regGet k with
  | none => simp [hg] at h
  | some u' =>
    simp only [hg] at h
    cases ho : s.obj? u' with
    | none => simp [ho] at h
    | some o =>
      simp only [ho] at h
      cases strict with
      | true =>
        simp only [if_true] at h
        split at h
        · rename_i hc; cases h; exact ⟨rfl, o, ho, by simpa using hc⟩
        · cases h
      | false =>
        simp only [Bool.false_eq_true, if_false] at h
        split at h
        · rename_i hc; cases h; exact ⟨rfl, o, ho, by simpa using hc⟩
        · cases h

/-- under the invariant, `get` returns a node that carries the requested id -/
theorem get_id {s : RState} (hI : Inv s) {cls k : Str} {strict : Bool} {u : Nat}
    (h : s.get cls k strict = some u) : s.idOf u = k :=
  key_of_mem hI (rget_some_mem (get_sound h).1)

/-- no forced id clashes with a key of the registry (only `as_obj` can) -/
def noClash (s : RState) : ROp → Bool
  | .asObj _ t fresh => !clashAux s t fresh
  | _ => true

theorem liveRegistered_pre_asObj {s : RState} {v : Nat} {t : SerTree} {fresh : Fresh} {s1 : RState}
    (hI : Inv s) (hok : OpOk s (.asObj v t fresh)) (hq : RegLive s)
    (hL : LiveRegistered s) (hp : Pre s (.asObj v t fresh) s1) (hnc : clashAux s t fresh = false) :
    LiveRegistered s1 := by
  have hK : ∀ e ∈ s.reg, s.isLive e.2 = true ∨ e.2 ∈ fresh.map (·.1) := fun e he => Or.inl (hq e.1 e.2 he)
  cases hp with
  | @asObj _ _ _ s' u h =>
    obtain ⟨hE, hKu⟩ := deserAux_evolK (fun k => s.isLive k = true ∨ k ∈ fresh.map (·.1)) _ _ _ _ _ _
      (fun t ht => Or.inr ht) hK hnc h
    refine evol_LR hI hok hL hE _ ?_
    intro r hr
    simp only [List.mem_append, List.mem_singleton] at hr
    rcases hr with hr | rfl
    · rw [hE.roots] at hr
      exact Or.inl (isLive_root hI.heapNodup (List.mem_filter.mp hr).1)
    · exact hKu
  | @asObjD _ _ _ _ u e fr h =>
    obtain ⟨hE, _⟩ := deserAux_evolK (fun k => s.isLive k = true ∨ k ∈ fresh.map (·.1)) _ _ _ _ _ _
      (fun t ht => Or.inr ht) hK hnc h
    refine evol_LR hI hok hL hE s1.roots ?_
    intro r hr
    rw [hE.roots] at hr
    exact Or.inl (isLive_root hI.heapNodup hr)

/-- **completeness is preserved by every operation**, `as_obj` included provided no forced id
clashes with a key of the registry at that moment (`noClash`, the negation of defect F19) -/
theorem liveRegistered_step {s : RState} {op : ROp} (hI : Inv s) (hok : OpOk s op)
    (hq : RegLive s) (hL : LiveRegistered s) (hnc : noClash s op = true) :
    LiveRegistered (s.step op).1 := by
  rcases step_shape s op with h | ⟨s1, hp, h⟩
  · rw [h]; exact hL
  · rw [h]
    apply gc_liveRegistered
    cases hop : isAsObj op with
    | false => exact liveRegistered_pre hI hok hL hp hop
    | true =>
      cases op with
      | asObj v t fresh =>
        exact liveRegistered_pre_asObj hI hok hq hL hp (by simpa [noClash] using hnc)
      | _ => cases hop

theorem detachAll_heap : ∀ (us : List Nat) (s : RState), (detachAll s us).heap = s.heap
  | [], _ => rfl
  | c :: r, s => by rw [detachAll_cons, detachAll_heap r, pDetachSelf_fst_heap]

/-- admissibility along a history for the completeness theorem: fresh tokens and no id clash in
`as_obj` (decidable) -/
def AllOkK : RState → List ROp → Prop
  | _, [] => True
  | s, op :: r => OpOk s op ∧ noClash s op = true ∧ AllOkK (s.step op).1 r

theorem liveRegistered_run_from : ∀ (ops : List ROp) (s : RState), Inv s → RegLive s → LiveRegistered s →
    AllOkK s ops → LiveRegistered (run s ops)
  | [], _, _, _, hL, _ => hL
  | op :: r, _, hI, hq, hL, hok =>
    liveRegistered_run_from r _ (inv_step hI hok.1) (regLive_step op hq)
      (liveRegistered_step hI hok.1 hq hL hok.2.1) hok.2.2

theorem liveRegistered_run (ops : List ROp) (hok : AllOkK {} ops) : LiveRegistered (run {} ops) :=
  liveRegistered_run_from ops {} inv_empty (by intro k u h; simp at h) (by intro o ho; simp at ho) hok

instance (s : RState) : Decidable (LiveRegistered s) := by unfold LiveRegistered; infer_instance
instance (s : RState) : Decidable (RegLive s) :=
  decidable_of_iff (∀ e ∈ s.reg, s.isLive e.2 = true)
    ⟨fun h k u hm => h (k, u) hm, fun h e he => h e.1 e.2 he⟩

instance instDecidableAllOkK : ∀ (s : RState) (ops : List ROp), Decidable (AllOkK s ops)
  | _, [] => by unfold AllOkK; infer_instance
  | s, op :: r => by
    unfold AllOkK
    have := instDecidableAllOkK (s.step op).1 r
    infer_instance

/-! ### non-vacuity: content-identical twins -/

section Examples

private def A : Str := "A".toList
private def ab : Str := "ab".toList

/-- two twins (same digest `ab`), the second detached, a third twin re-uses the freed suffix id,
a second `detach_self` of the detached twin must not evict it; finally the first twin dies -/
def twins : List ROp :=
  [ .construct 0 A [A] [] [(100, ab)],
    .construct 1 A [A] [] [(101, ab)],
    .detachSelf 101,
    .construct 2 A [A] [] [(102, ab)],
    .detachSelf 101,
    .drop 0 ]

def outs (s : RState) : List ROp → List ROut
  | [] => []
  | op :: r => (s.step op).2 :: outs (s.step op).1 r

example : AllOk {} twins := by decide
example : AllOkK {} twins := by decide
example : outs {} twins = [.ok (some 100) none, .ok (some 101) none, .ok none (some true),
    .ok (some 102) none, .ok none (some false), .ok none none] := by decide
example : (run {} (twins.take 2)).reg = [(ab, 100), ("ab_1".toList, 101)] := by decide
example : (run {} (twins.take 3)).reg = [(ab, 100)] := by decide
example : (run {} (twins.take 5)).reg = [(ab, 100), ("ab_1".toList, 102)] := by decide
example : (run {} twins).reg = [("ab_1".toList, 102)] := by decide
example : (run {} twins).get A "ab_1".toList true = some 102 := by decide
example : LiveRegistered (run {} twins) ∧ RegLive (run {} twins) := by decide

/-! F19: `as_obj` of a parent serialized with the same id as its (formerly detached) child:
the child is created, takes the id, and is evicted when the parent's id is forced. -/

private def x : Str := "x".toList
def f19 : ROp := .asObj 0 (.mk x A [A] [.mk x A [A] []]) [(1, "a".toList), (2, "b".toList)]

theorem asObj_evicts_live :
    OpOk {} f19 ∧ LiveRegistered {} ∧ noClash {} f19 = false ∧
    ¬ LiveRegistered (({} : RState).step f19).1 := by decide

/-- a consistent serialization (distinct ids) deserializes without clash, ids forced -/
def roundTrip : ROp := .asObj 0 (.mk x A [A] [.mk "y".toList A [A] []]) [(1, "a".toList), (2, "b".toList)]
example : noClash {} roundTrip = true ∧ AllOkK {} [roundTrip, .drop 0] ∧
    (({} : RState).step roundTrip).1.reg = [("y".toList, 1), (x, 2)] := by decide

example : (({} : RState).step f19).1.reg = [(x, 2)] ∧ (({} : RState).step f19).1.isLive 1 = true := by decide

/-! A node listing the same child many times: with the former fuel of `live`
(`heap.length * (heap.length + 1) + roots.length + 1`) `c` (token 2), only reachable through `b`
whose children list holds `a` 13 times before `c`, was missed, evicted by `gc`, and computed live
again — unregistered — once an unrelated node raised the fuel.  With the fuel "all children lists
+ roots" it stays live and registered throughout. -/

def longKids : List ROp :=
  [ .construct 0 A [A] [] [(1, "a".toList)],
    .construct 1 A [A] [] [(2, "c".toList)],
    .construct 2 A [A] (List.replicate 13 1 ++ [2]) [(3, "b".toList)],
    .drop 1 ]

def longKidsOp : ROp := .construct 3 A [A] [] [(4, "d".toList)]

example :
    AllOkK {} (longKids ++ [longKidsOp]) ∧ (run {} longKids).isLive 2 = true ∧
    (run {} longKids).regGet "c".toList = some 2 ∧
    LiveRegistered (run {} longKids) ∧ LiveRegistered ((run {} longKids).step longKidsOp).1 := by decide

end Examples

end C03
end PyOak

#print axioms PyOak.C03.freshId_free
#print axioms PyOak.C03.id_fresh_is_base
#print axioms PyOak.C03.pNew_inv
#print axioms PyOak.C03.pDetachSelf_inv
#print axioms PyOak.C03.pRestore_inv
#print axioms PyOak.C03.pForceId_inv
#print axioms PyOak.C03.pForceId_LR
#print axioms PyOak.C03.gc_inv
#print axioms PyOak.C03.gc_regLive
#print axioms PyOak.C03.gc_liveRegistered
#print axioms PyOak.C03.inv_step
#print axioms PyOak.C03.regLive_step
#print axioms PyOak.C03.inv_run
#print axioms PyOak.C03.regLive_run
#print axioms PyOak.C03.liveRegistered_step_partial
#print axioms PyOak.C03.liveRegistered_step
#print axioms PyOak.C03.liveRegistered_run
#print axioms PyOak.C03.replace_fail_frame
#print axioms PyOak.C03.replace_fail_raised
#print axioms PyOak.C03.get_sound
#print axioms PyOak.C03.asObj_evicts_live
