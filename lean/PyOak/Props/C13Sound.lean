/-
C13 (addition, AUDIT item #8) — the sound half of C13 WITHOUT any don't-care hypothesis.

`C13.invalid_fields_exact` / `C13.construct_on` need `dontCare f.val f.ty = false` for EVERY field
(even the unchecked `id` / `content_id`): one don't-care field voids the conclusion for all.  The
model is never stricter than the specification, at any value and any annotation of the grammar:
    conforms_imp               conforms v t = true → isInstance v t = true
    construct_ok_of_conforms   every checked field conforms ⇒ construction succeeds (switch on)
    checkRuntimeTypes_sublist  the reported fields are a sub-LIST (order, multiplicity) of the
                               non-conforming ones: nothing conforming is ever reported
    construct_error_sound      an `InvalidTypes` error names only non-conforming fields, and ≥ 1
    invalid_fields_exact_checked / construct_on_checked
                               exactness needs the don't-care hypothesis for the CHECKED fields only
    field_reported_iff         per-field exactness: one don't-care field does not spoil the others
-/
import PyOak.Props.C13
namespace PyOak
namespace C13
open RT
set_option linter.unusedSimpArgs false

theorem strict_imp_pyEq (v : PyVal) (m : Lit) (h : strictEqLit v m = true) : pyEqLit v m = true := by
  cases v <;> cases m <;> simp_all [pyEqLit, strictEqLit, PyVal.num, Lit.num]
  all_goals (rename_i a b; cases a <;> cases b <;> simp_all)

theorem all_mono {α : Type} (xs : List α) (f g : α → Bool) (h : ∀ x, f x = true → g x = true)
    (hf : xs.all f = true) : xs.all g = true := by
  simp only [List.all_eq_true] at *
  exact fun x hx => h x (hf x hx)

mutual
theorem conforms_imp (v : PyVal) (t : Ty) (h : conforms v t = true) : isInstance v t = true := by
  match t with
  | .int => cases v <;> simp_all [isInstance, conforms, pre, pyIsinstance, Ty.isInt, Ty.isFloat, Ty.isAny,
      PyVal.isInt, PyVal.isBool, PyVal.isFloat]
  | .float =>
    cases v <;> simp_all [isInstance, conforms, pre, pyIsinstance, Ty.isInt, Ty.isFloat, Ty.isAny,
      PyVal.isInt, PyVal.isBool, PyVal.isFloat]
  | .str => cases v <;> simp_all [isInstance, conforms, pre, pyIsinstance, Ty.isInt, Ty.isFloat, Ty.isAny,
      PyVal.isStr]
  | .bool => cases v <;> simp_all [isInstance, conforms, pre, pyIsinstance, Ty.isInt, Ty.isFloat, Ty.isAny,
      PyVal.isBool]
  | .bytes => cases v <;> simp_all [isInstance, conforms, pre, pyIsinstance, Ty.isInt, Ty.isFloat, Ty.isAny,
      PyVal.isBytes]
  | .any => simp [isInstance, pre, pyIsinstance, Ty.isInt, Ty.isFloat, Ty.isAny]
  | .none => cases v <;> simp_all [isInstance, conforms, pre, pyIsinstance, Ty.isInt, Ty.isFloat, Ty.isAny,
      PyVal.isNone]
  | .cls c =>
    simp only [conforms] at h
    simp [isInstance, pre, pyIsinstance, Ty.isInt, Ty.isFloat, Ty.isAny, h]
  | .tupleAny => cases v <;> simp_all [isInstance, conforms, pre, pyIsinstance, Ty.isInt, Ty.isFloat, Ty.isAny,
      PyVal.isTuple]
  | .fsetAny => cases v <;> simp_all [isInstance, conforms, pre, pyIsinstance, Ty.isInt, Ty.isFloat, Ty.isAny,
      PyVal.isFset]
  | .seqAny =>
    simp only [conforms] at h
    simp [isInstance, pre, pyIsinstance, Ty.isInt, Ty.isFloat, Ty.isAny, h]
  | .mapAny => cases v <;> simp_all [isInstance, conforms, pre, pyIsinstance, Ty.isInt, Ty.isFloat, Ty.isAny,
      PyVal.isDict]
  | .lit ms =>
    simp only [conforms, litMember, List.any_eq_true] at h
    simp only [isInstance, pre_lit, List.any_eq_true]
    obtain ⟨m, hm, hs⟩ := h
    exact ⟨m, hm, strict_imp_pyEq v m hs⟩
  | .newtype _ u =>
    simp only [conforms] at h
    simp only [isInstance]
    exact conforms_imp v u h
  | .union ts =>
    simp only [conforms] at h
    simp only [isInstance]
    exact conformsAny_imp v ts h
  | .tupleFix ts =>
    simp only [isInstance, pre_tupleFix]
    cases v with
    | tuple xs =>
      simp only [conforms, Bool.and_eq_true, beq_iff_eq] at h
      simp only []
      have hz := conformsZip_imp xs ts h.2
      cases ts with
      | nil => cases xs <;> simp_all
      | cons t r =>
        simp only [List.isEmpty_cons, Bool.false_eq_true, if_false]
        rw [len_guard]; simp [h.1, hz]
    | _ => simp [conforms] at h
  | .tupleVar u =>
    simp only [isInstance, pre_tupleVar]
    cases v with
    | tuple xs =>
      simp only [conforms] at h
      exact all_mono xs _ _ (fun x hx => conforms_imp x u hx) h
    | _ => simp [conforms] at h
  | .fset u =>
    simp only [isInstance, pre_fset]
    cases v with
    | fset xs =>
      simp only [conforms] at h
      exact all_mono xs _ _ (fun x hx => conforms_imp x u hx) h
    | _ => simp [conforms] at h
  | .seq u =>
    simp only [isInstance, pre_seq]
    simp only [conforms] at h
    cases hv : v.seqElems with
    | none => simp [hv] at h
    | some xs =>
      rw [hv] at h
      exact all_mono xs _ _ (fun x hx => conforms_imp x u hx) h
  | .map k w =>
    simp only [isInstance, pre_map]
    cases v with
    | dict kvs =>
      simp only [conforms] at h
      refine all_mono kvs _ _ (fun kv hkv => ?_) h
      simp only [Bool.and_eq_true] at hkv ⊢
      exact ⟨conforms_imp kv.1 k hkv.1, conforms_imp kv.2 w hkv.2⟩
    | _ => simp [conforms] at h
theorem conformsAny_imp (v : PyVal) (ts : List Ty) (h : conformsAny v ts = true) : isInstAny v ts = true := by
  match ts with
  | [] => simp [conformsAny] at h
  | t :: r =>
    simp only [conformsAny, Bool.or_eq_true] at h
    simp only [isInstAny, Bool.or_eq_true]
    rcases h with h | h
    · exact .inl (conforms_imp v t h)
    · exact .inr (conformsAny_imp v r h)
theorem conformsZip_imp (xs : List PyVal) (ts : List Ty) (h : conformsZip xs ts = true) : isInstZip xs ts = true := by
  match ts with
  | [] => simp [isInstZip]
  | t :: r =>
    match xs with
    | [] => simp [isInstZip]
    | x :: xr =>
      simp only [conformsZip, Bool.and_eq_true] at h
      simp only [isInstZip, Bool.and_eq_true]
      exact ⟨conforms_imp x t h.1, conformsZip_imp xr r h.2⟩
end


/-- success direction of the statement, no don't-care hypothesis: if every checked field holds a
conforming value, construction with the switch on succeeds (and builds what the switch-off
construction builds, `construct_off`) -/
theorem construct_ok_of_conforms (fs : List FieldV)
    (h : ∀ f ∈ fs, f.checked = true → conforms f.val f.ty = true) :
    construct true fs = .ok (mkBuilt fs) := by
  have : checkRuntimeTypes fs = [] := by
    simp only [checkRuntimeTypes, List.map_eq_nil_iff, List.filter_eq_nil_iff, List.mem_filter, Bool.not_eq_true',
      Bool.not_eq_false, and_imp]
    intro f hf hc
    rw [isInstance_unwrap]
    exact conforms_imp _ _ (h f hf hc)
  simp [construct, this]

theorem filter_sublist_of_imp {α : Type} (p q : α → Bool) (hpq : ∀ x, p x = true → q x = true) :
    ∀ l : List α, (l.filter p).Sublist (l.filter q)
  | [] => List.Sublist.refl _
  | x :: r => by
    have ih := filter_sublist_of_imp p q hpq r
    by_cases hp : p x = true
    · simp only [List.filter_cons, hp, hpq x hp, if_true]
      exact ih.cons₂ x
    · by_cases hq : q x = true
      · simp only [List.filter_cons, hp, hq, if_true]
        exact ih.cons x
      · simp only [List.filter_cons, hp, hq]
        exact ih

/-- what `_check_runtime_types` reports is a sub-list of the non-conforming checked fields (same
order, no field reported twice as often): a conforming field is never reported — for all field
lists, no don't-care hypothesis -/
theorem checkRuntimeTypes_sublist (fs : List FieldV) :
    (checkRuntimeTypes fs).Sublist (nonConforming fs) := by
  unfold checkRuntimeTypes nonConforming
  apply List.Sublist.map
  apply filter_sublist_of_imp
  intro f hf
  simp only [Bool.not_eq_true', isInstance_unwrap] at hf ⊢
  cases hc : conforms f.val f.ty with
  | false => rfl
  | true => rw [conforms_imp _ _ hc] at hf; cases hf

theorem checkRuntimeTypes_subset (fs : List FieldV) : ∀ x ∈ checkRuntimeTypes fs, x ∈ nonConforming fs :=
  fun _ hx => (checkRuntimeTypes_sublist fs).subset hx

/-- an `InvalidTypes` error lists at least one field, and only non-conforming checked fields -/
theorem construct_error_sound (fs : List FieldV) (bad : List Str) (h : construct true fs = .error bad) :
    bad ≠ [] ∧ bad.Sublist (nonConforming fs) := by
  obtain ⟨h1, h2⟩ := construct_on_error_nonempty fs bad h
  exact ⟨h1, h2 ▸ checkRuntimeTypes_sublist fs⟩

/-- construction with the switch on fails only if some checked field really does not conform -/
theorem construct_error_witness (fs : List FieldV) (bad : List Str) (h : construct true fs = .error bad) :
    ∃ f ∈ fs, f.checked = true ∧ conforms f.val f.ty = false := by
  obtain ⟨h1, h2⟩ := construct_error_sound fs bad h
  obtain ⟨x, hx⟩ := List.exists_mem_of_ne_nil bad h1
  have := h2.subset hx
  simp only [nonConforming, List.mem_map, List.mem_filter, Bool.not_eq_true'] at this
  obtain ⟨f, ⟨⟨a, b⟩, c⟩, -⟩ := this
  exact ⟨f, a, b, c⟩

/-- exactness with the don't-care hypothesis for the CHECKED fields only (`id` / `content_id`
may hold anything) -/
theorem invalid_fields_exact_checked (fs : List FieldV)
    (h : ∀ f ∈ fs, f.checked = true → dontCare f.val f.ty = false) :
    checkRuntimeTypes fs = nonConforming fs := by
  unfold checkRuntimeTypes nonConforming
  congr 1
  apply List.filter_congr
  intro f hf
  obtain ⟨hf1, hf2⟩ := List.mem_filter.mp hf
  rw [isInstance_unwrap, isInstance_eq_conforms f.val f.ty (h f hf1 hf2)]

theorem construct_on_checked (fs : List FieldV)
    (h : ∀ f ∈ fs, f.checked = true → dontCare f.val f.ty = false) :
    construct true fs =
      if (∀ f ∈ fs, f.checked = true → conforms f.val f.ty = true) then .ok (mkBuilt fs)
      else .error (nonConforming fs) := by
  simp only [construct, if_true, invalid_fields_exact_checked fs h, List.isEmpty_iff, nonConforming_nil_iff]

/-- per-field exactness: whether ONE field is reported depends on that field alone; outside its own
don't-care points it is reported iff it is checked and does not conform (whatever the other fields hold) -/
theorem field_reported_iff (pre post : List FieldV) (f : FieldV) (hd : dontCare f.val f.ty = false) :
    checkRuntimeTypes (pre ++ f :: post) =
      checkRuntimeTypes pre ++ (if f.checked && !conforms f.val f.ty then [f.name] else []) ++
        checkRuntimeTypes post := by
  simp only [checkRuntimeTypes, List.filter_append, List.filter_cons, List.map_append, List.append_assoc]
  congr 1
  have e := isInstance_eq_conforms f.val f.ty hd
  rw [← isInstance_unwrap] at e
  cases hc : f.checked <;> cases hv : conforms f.val f.ty <;> simp [hv, e]

/-! ### "literals by membership" -/

/-- the model: `value in get_args(type_)` (Python `==`, numbers compare across bool / int / float) -/
theorem isInstance_lit (v : PyVal) (ms : List Lit) : isInstance v (.lit ms) = ms.any (fun m => pyEqLit v m) := by
  simp only [isInstance, pre_lit]

/-- the specification: membership with equal values OF EQUAL TYPES -/
theorem conforms_lit (v : PyVal) (ms : List Lit) : conforms v (.lit ms) = ms.any (fun m => strictEqLit v m) := by
  simp only [conforms, litMember]

/-- they agree whenever no member is cross-type-equal to the value (`1 == True`, `1 == 1.0`) -/
theorem lit_exact (v : PyVal) (ms : List Lit) (h : ∀ m ∈ ms, crossEqLit v m = false) :
    isInstance v (.lit ms) = conforms v (.lit ms) := by
  rw [isInstance_lit, conforms_lit]
  induction ms with
  | nil => rfl
  | cons m r ih =>
    simp only [List.any_cons]
    rw [pyEqLit_of_not_cross (h m (by simp)), ih (fun x hx => h x (by simp [hx]))]

/-! ### non-vacuity -/

-- `conforms_imp` is strict: at a don't-care point the model accepts more than the specification
example : conforms (.bool true) .float = false ∧ isInstance (.bool true) .float = true := by decide
-- a field list with a don't-care field (`w : float = True`): the old `construct_on` does not apply,
-- `construct_ok_of_conforms` / `checkRuntimeTypes_sublist` do
def fsDC : List FieldV :=
  [⟨"id".toList, .str, .int 5⟩, ⟨"y".toList, .newtype sA .bool, .bool false⟩,
   ⟨"w".toList, .lit [.int 1, .bool true], .int 1⟩]
example : ¬ (∀ f ∈ fsDC, dontCare f.val f.ty = false) := by decide
example : ∀ f ∈ fsDC, f.checked = true → conforms f.val f.ty = true := by decide
example : construct true fsDC = .ok (mkBuilt fsDC) := construct_ok_of_conforms fsDC (by decide)
-- the error case: `fsDemo` (from C13.lean) is rejected; the reported fields are non-conforming
example : construct true fsDemo = .error ["x".toList, "z".toList] ∧
    nonConforming fsDemo = ["x".toList, "z".toList] := ⟨rfl, by decide⟩
-- the inclusion can be strict (reported ⊊ non-conforming) exactly at don't-care points
def fsStrict : List FieldV := [⟨"w".toList, .float, .bool true⟩]
example : checkRuntimeTypes fsStrict = [] ∧ nonConforming fsStrict = ["w".toList] := by decide
-- `invalid_fields_exact_checked`: the unchecked `id` field may be a don't-care point
def fsId : List FieldV := [⟨"id".toList, .float, .bool true⟩, ⟨"x".toList, .int, .bool true⟩]
example : dontCare (.bool true) .float = true ∧ ∀ f ∈ fsId, f.checked = true → dontCare f.val f.ty = false := by
  decide
example : construct true fsId = .error ["x".toList] := rfl
-- literals: membership, strict in the specification, Python `==` in the code
example : isInstance (.str sA) (.lit [.int 1, .str sA]) = true ∧ conforms (.str sA) (.lit [.int 1, .str sA]) = true ∧
    isInstance (.bool true) (.lit [.int 1]) = true ∧ conforms (.bool true) (.lit [.int 1]) = false := by decide
example : isInstance (.int 2) (.lit [.int 1, .str sA]) = conforms (.int 2) (.lit [.int 1, .str sA]) :=
  lit_exact _ _ (by decide)

end C13
end PyOak
