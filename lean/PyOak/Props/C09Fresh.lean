/-
C09 — "every ancestor of a change is a NEW node" in the sense of object identity, and "an unchanged
subtree is returned as the very same object" with a semantic hypothesis.

* `new_uids`: under a fresh counter (`uidsLt c n`, and `uidsLt c k` for every replacement node `k`)
  the objects of the output with identity `≥ c` (the ones the call created) have pairwise distinct
  identities, all in `[c, c')`, every other object of the output is literally a node value of the
  input or of a replacement node, and all of those have identities `< c`: a created object is
  distinct from every input object, every replacement object and every other created object.
* `changed_ancestors_new_rw`: the `changed_ancestors_new` of Props/C09 also through ancestors whose
  method is a `rewriteProp` method (they call `generic_visit` too).
* `unchanged_semantic`: if the pure rewrite `Rw` returns the node itself (same value, same
  identities everywhere: nothing was dropped, replaced by something else or rebuilt differently) and
  no visited method is a `rewriteProp` method, `T` returns the very same object and allocates
  nothing.  The extra hypothesis is needed (`unchanged_semantic_fails`): a method that does
  `dataclasses.replace(node, v=<the value it already has>)` changes nothing structurally and still
  returns a new object — in the real code as well.
-/
import PyOak.Props.C09Rw
namespace PyOak
namespace C09

/-! ### identities below the counter -/

mutual
theorem uidsLt_subs (c : Nat) : ∀ n : Node, uidsLt c n = true → ∀ m ∈ subs n, m.uid < c
  | .mk h ks, hu, m, hm => by
    simp only [uidsLt, Bool.and_eq_true, decide_eq_true_eq] at hu
    simp only [subs, List.mem_cons] at hm
    rcases hm with rfl | hm
    · exact hu.1
    · exact uidsLt_subsKids c ks hu.2 m hm
termination_by structural n => n
theorem uidsLt_subsKids (c : Nat) : ∀ ks : List Kid, uidsLtKids c ks = true → ∀ m ∈ subsKids ks, m.uid < c
  | [], _, m, hm => by simp [subsKids] at hm
  | k :: r, hu, m, hm => by
    simp only [uidsLtKids, Bool.and_eq_true] at hu
    simp only [subsKids, List.mem_append] at hm
    rcases hm with hm | hm
    · exact uidsLt_subsKid c k hu.1 m hm
    · exact uidsLt_subsKids c r hu.2 m hm
termination_by structural ks => ks
theorem uidsLt_subsKid (c : Nat) : ∀ k : Kid, uidsLtKid c k = true → ∀ m ∈ subsKid k, m.uid < c
  | .mk _ _ ns, hu, m, hm => by
    simp only [uidsLtKid] at hu
    simp only [subsKid] at hm
    exact uidsLt_subsNodes c ns hu m hm
termination_by structural k => k
theorem uidsLt_subsNodes (c : Nat) : ∀ ns : List Node, uidsLtNodes c ns = true → ∀ m ∈ subsNodes ns, m.uid < c
  | [], _, m, hm => by simp [subsNodes] at hm
  | n :: r, hu, m, hm => by
    simp only [uidsLtNodes, Bool.and_eq_true] at hu
    simp only [subsNodes, List.mem_append] at hm
    rcases hm with hm | hm
    · exact uidsLt_subs c n hu.1 m hm
    · exact uidsLt_subsNodes c r hu.2 m hm
termination_by structural ns => ns
end

/-! ### the invariant -/

/-- identities `≥ c0` among the nodes of `L`, with multiplicity, in order -/
def news (c0 : Nat) (L : List Node) : List Nat :=
  (L.filter fun m => decide (c0 ≤ m.uid)).map Node.uid

/-- every node of `L` is old (`< c0`) or was created in `[c, c')`, and the created ones are pairwise
distinct -/
def G (c0 c c' : Nat) (L : List Node) : Prop :=
  (∀ m ∈ L, m.uid < c0 ∨ (c ≤ m.uid ∧ m.uid < c')) ∧ (news c0 L).Nodup

theorem mem_news {c0 : Nat} {L : List Node} {a : Nat} (h : a ∈ news c0 L) :
    ∃ m ∈ L, c0 ≤ m.uid ∧ m.uid = a := by
  simp only [news, List.mem_map, List.mem_filter, decide_eq_true_eq] at h
  obtain ⟨m, ⟨h1, h2⟩, h3⟩ := h
  exact ⟨m, h1, h2, h3⟩

theorem news_old {c0 : Nat} {L : List Node} (h : ∀ m ∈ L, m.uid < c0) : news c0 L = [] := by
  simp only [news, List.map_eq_nil_iff, List.filter_eq_nil_iff, decide_eq_true_eq]
  intro m hm; have := h m hm; omega

theorem G_old {c0 c c' : Nat} {L : List Node} (h : ∀ m ∈ L, m.uid < c0) : G c0 c c' L :=
  ⟨fun m hm => .inl (h m hm), by rw [news_old h]; exact List.nodup_nil⟩

theorem G_nil (c0 c c' : Nat) : G c0 c c' [] := G_old (by simp)

theorem G_append {c0 c c1 c2 : Nat} {L1 L2 : List Node} (_h0 : c0 ≤ c) (h1 : c ≤ c1) (h2 : c1 ≤ c2)
    (g1 : G c0 c c1 L1) (g2 : G c0 c1 c2 L2) : G c0 c c2 (L1 ++ L2) := by
  refine ⟨fun m hm => ?_, ?_⟩
  · simp only [List.mem_append] at hm
    rcases hm with hm | hm
    · rcases g1.1 m hm with h | h
      · exact .inl h
      · exact .inr ⟨h.1, by omega⟩
    · rcases g2.1 m hm with h | h
      · exact .inl h
      · exact .inr ⟨by omega, h.2⟩
  · have : news c0 (L1 ++ L2) = news c0 L1 ++ news c0 L2 := by simp [news]
    rw [this, List.nodup_append]
    refine ⟨g1.2, g2.2, fun a ha b hb hab => ?_⟩
    obtain ⟨m1, hm1, hc1, rfl⟩ := mem_news ha
    obtain ⟨m2, hm2, hc2, rfl⟩ := mem_news hb
    have a1 := g1.1 m1 hm1
    have a2 := g2.1 m2 hm2
    omega

theorem G_cons {c0 c c1 : Nat} {L : List Node} {m : Node} (h0 : c0 ≤ c) (h1 : c ≤ c1) (hm : c1 ≤ m.uid)
    (g : G c0 c c1 L) : G c0 c (m.uid + 1) (m :: L) := by
  refine ⟨fun x hx => ?_, ?_⟩
  · simp only [List.mem_cons] at hx
    rcases hx with rfl | hx
    · exact .inr ⟨by omega, by omega⟩
    · rcases g.1 x hx with h | h
      · exact .inl h
      · exact .inr ⟨h.1, by omega⟩
  · have hd : decide (c0 ≤ m.uid) = true := by simp; omega
    have : news c0 (m :: L) = m.uid :: news c0 L := by simp [news, hd]
    rw [this, List.nodup_cons]
    refine ⟨fun hin => ?_, g.2⟩
    obtain ⟨m2, hm2, hc2, he⟩ := mem_news hin
    have := g.1 m2 hm2
    omega

theorem G_widen {c0 c c1 c2 : Nat} {L : List Node} (h : c1 ≤ c2) (g : G c0 c c1 L) : G c0 c c2 L :=
  ⟨fun m hm => (g.1 m hm).imp id (fun h' => ⟨h'.1, by omega⟩), g.2⟩

theorem subs_eq (n : Node) : subs n = n :: subsKids n.kids := by
  cases n; simp [subs]

theorem setProp_kids {n : Node} {p : PropV} {u : Nat} {n' : Node} (h : setProp n p u = some n') :
    n'.kids = n.kids := by
  unfold setProp at h
  split at h
  · simp at h; subst h; rfl
  · simp at h

theorem setProp_cls {n : Node} {p : PropV} {u : Nat} {n' : Node} (h : setProp n p u = some n') :
    n'.cls = n.cls := by
  unfold setProp at h
  split at h
  · simp at h; subst h; rfl
  · simp at h

theorem lookup_mem {α β : Type} [BEq α] (l : List (α × β)) (a : α) (b : β) (h : l.lookup a = some b) :
    ∃ a', (a', b) ∈ l := by
  induction l with
  | nil => simp at h
  | cons e t ih =>
    obtain ⟨a0, b0⟩ := e
    simp only [List.lookup] at h
    split at h
    · simp at h; subst h; exact ⟨a0, by simp⟩
    · obtain ⟨a', ha'⟩ := ih h; exact ⟨a', by simp [ha']⟩

/-- a replacement node comes from the rule table: it is the default action or a per-object action of
one of the visitor's methods -/
theorem replaceBy_in_table (v : Visitor) (h : Head) (k : Node) (hk : v.action h = .replaceBy k) :
    ∃ c r, (c, r) ∈ v.rules ∧ (r.dflt = .replaceBy k ∨ ∃ u, (u, Act.replaceBy k) ∈ r.per) := by
  unfold Visitor.action at hk
  split at hk
  · rename_i r hr
    have hmem : ∃ c, (c, r) ∈ v.rules := by
      unfold Visitor.method at hr
      split at hr
      · exact lookup_mem _ _ _ hr
      · obtain ⟨a, _, ha⟩ := List.exists_of_findSome?_eq_some hr
        exact lookup_mem _ _ _ ha
    obtain ⟨c, hc⟩ := hmem
    refine ⟨c, r, hc, ?_⟩
    unfold Rule.act at hk
    split at hk
    · rename_i a ha
      subst hk
      obtain ⟨u, hu⟩ := lookup_mem _ _ _ ha
      exact .inr ⟨u, hu⟩
    · exact .inl hk
  · cases hk

/-- every replacement node a method may return exists before the call -/
def ReplOld (v : Visitor) (c0 : Nat) : Prop := ∀ h k, v.action h = .replaceBy k → uidsLt c0 k = true

mutual
theorem fresh_T (v : Visitor) (c0 : Nat) (hR : ReplOld v c0) :
    ∀ (n : Node) (c : Nat) (r : Option Node) (c' : Nat), c0 ≤ c → uidsLt c0 n = true →
    T v n c = .ok (r, c') → c ≤ c' ∧ ∀ n', r = some n' → G c0 c c' (subs n')
  | .mk h ks, c, r, c', h0, hu, ht => by
    have hold := uidsLt_subs c0 _ hu
    simp only [uidsLt, Bool.and_eq_true, decide_eq_true_eq] at hu
    unfold T at ht
    split at ht
    · simp at ht; obtain ⟨rfl, rfl⟩ := ht
      exact ⟨Nat.le_refl _, fun n' hn => by simp at hn; subst hn; exact G_old hold⟩
    · rename_i k ha
      simp at ht; obtain ⟨rfl, rfl⟩ := ht
      exact ⟨Nat.le_refl _, fun n' hn => by
        simp at hn; subst hn; exact G_old (uidsLt_subs c0 _ (hR h _ ha))⟩
    · simp at ht; obtain ⟨rfl, rfl⟩ := ht
      exact ⟨Nat.le_refl _, fun n' hn => by simp at hn⟩
    · simp at ht
    · obtain ⟨ks', chg, c1, hk, hcase⟩ := rebuilt_ok ht
      obtain ⟨h1, h2⟩ := fresh_TKids v c0 hR ks c ks' chg c1 h0 hu.2 hk
      rcases hcase with ⟨rfl, rfl, rfl⟩ | ⟨rfl, rfl, rfl⟩
      · refine ⟨by omega, fun n' hn => ?_⟩
        simp at hn; subst hn
        simp only [subs]
        exact G_cons (m := .mk { h with uid := c1 } ks') h0 h1 (by simp) h2
      · exact ⟨h1, fun n' hn => by simp at hn; subst hn; exact G_old hold⟩
    · rename_i p ha
      obtain ⟨n1, c1', n2, hres, hsp, rfl, rfl⟩ := finishRewrite_ok ht
      obtain ⟨ks', chg, c1, hk, hcase⟩ := rebuilt_ok hres
      obtain ⟨h1, h2⟩ := fresh_TKids v c0 hR ks c ks' chg c1 h0 hu.2 hk
      have hu2 := setProp_uid hsp
      have hk2 := setProp_kids hsp
      rcases hcase with ⟨rfl, hn1, rfl⟩ | ⟨rfl, hn1, rfl⟩
      · refine ⟨by omega, fun n' hn => ?_⟩
        simp at hn; subst hn; simp at hn1; subst hn1
        rw [subs_eq, hk2, ← hu2]
        exact G_cons h0 h1 (by omega) h2
      · refine ⟨by omega, fun n' hn => ?_⟩
        simp at hn; subst hn; simp at hn1; subst hn1
        rw [subs_eq, hk2, ← hu2]
        have hold' : ∀ m ∈ subsKids ks, m.uid < c0 := fun m hm => hold m (by simp [subs, hm])
        exact G_cons (c1 := c1') h0 h1 (by omega) (G_old hold')
termination_by structural n => n
theorem fresh_TKids (v : Visitor) (c0 : Nat) (hR : ReplOld v c0) :
    ∀ (ks : List Kid) (c : Nat) (ks' : List Kid) (chg : Bool) (c' : Nat), c0 ≤ c →
    uidsLtKids c0 ks = true → TKids v ks c = .ok (ks', chg, c') → c ≤ c' ∧ G c0 c c' (subsKids ks')
  | [], c, ks', chg, c', _, _, ht => by
    simp [TKids] at ht; obtain ⟨rfl, _, rfl⟩ := ht
    exact ⟨Nat.le_refl _, by simpa [subsKids] using G_nil c0 c c⟩
  | k :: r, c, ks', chg, c', h0, hu, ht => by
    simp only [uidsLtKids, Bool.and_eq_true] at hu
    unfold TKids at ht
    split at ht
    · simp at ht
    · rename_i k' chg1 c1 hk
      obtain ⟨a1, a2⟩ := fresh_TKid v c0 hR k c k' chg1 c1 h0 hu.1 hk
      split at ht
      · simp at ht
      · rename_i r' chg2 c2 hr
        obtain ⟨b1, b2⟩ := fresh_TKids v c0 hR r c1 r' chg2 c2 (by omega) hu.2 hr
        simp at ht; obtain ⟨rfl, _, rfl⟩ := ht
        exact ⟨by omega, by simpa [subsKids] using G_append h0 a1 b1 a2 b2⟩
termination_by structural ks => ks
theorem fresh_TKid (v : Visitor) (c0 : Nat) (hR : ReplOld v c0) :
    ∀ (k : Kid) (c : Nat) (k' : Kid) (chg : Bool) (c' : Nat), c0 ≤ c →
    uidsLtKid c0 k = true → TKid v k c = .ok (k', chg, c') → c ≤ c' ∧ G c0 c c' (subsKid k')
  | .mk name coll ns, c, k', chg, c', h0, hu, ht => by
    have hold := uidsLt_subsKid c0 _ hu
    simp only [uidsLtKid] at hu
    unfold TKid at ht
    split at ht
    · simp at ht
    · rename_i out chg1 c1 hn
      obtain ⟨a1, a2⟩ := fresh_TNodes v c0 hR ns c out chg1 c1 h0 hu hn
      simp at ht; obtain ⟨rfl, _, rfl⟩ := ht
      refine ⟨a1, ?_⟩
      cases chg1
      · simpa using G_old hold
      · simpa [subsKid] using a2
termination_by structural k => k
theorem fresh_TNodes (v : Visitor) (c0 : Nat) (hR : ReplOld v c0) :
    ∀ (ns : List Node) (c : Nat) (out : List Node) (chg : Bool) (c' : Nat), c0 ≤ c →
    uidsLtNodes c0 ns = true → TNodes v ns c = .ok (out, chg, c') → c ≤ c' ∧ G c0 c c' (subsNodes out)
  | [], c, out, chg, c', _, _, ht => by
    simp [TNodes] at ht; obtain ⟨rfl, _, rfl⟩ := ht
    exact ⟨Nat.le_refl _, by simpa [subsNodes] using G_nil c0 c c⟩
  | x :: r, c, out, chg, c', h0, hu, ht => by
    simp only [uidsLtNodes, Bool.and_eq_true] at hu
    unfold TNodes at ht
    split at ht
    · simp at ht
    · rename_i rx c1 hx
      obtain ⟨a1, a2⟩ := fresh_T v c0 hR x c rx c1 h0 hu.1 hx
      split at ht
      · simp at ht
      · rename_i out' chg2 c2 hr
        obtain ⟨b1, b2⟩ := fresh_TNodes v c0 hR r c1 out' chg2 c2 (by omega) hu.2 hr
        simp at ht; obtain ⟨rfl, _, rfl⟩ := ht
        refine ⟨by omega, ?_⟩
        cases rx with
        | none =>
          simp only [Option.toList_none, List.nil_append]
          exact ⟨fun m hm => (b2.1 m hm).imp id (fun h' => ⟨by omega, h'.2⟩), b2.2⟩
        | some y =>
          simp only [Option.toList_some, List.cons_append, List.nil_append, subsNodes]
          exact G_append h0 a1 b1 (a2 y rfl) b2
termination_by structural ns => ns
end

/-- **new_uids** — "every ancestor of a change is a NEW node", as object identity.  With a fresh
counter (all identities of the input and of every replacement node are `< c`):
1. the objects of the output with identity `≥ c` have pairwise distinct identities,
2. all of them in `[c, c')` (they were created by this call),
3. every other object of the output is literally a node value of the input or of a replacement node,
4. and all input / replacement objects have identities `< c`.
So a created object is distinct from every input object, from every replacement object and from
every other created object. -/
theorem new_uids (v : Visitor) (n : Node) (c c' : Nat) (n' : Node)
    (hu : uidsLt c n = true) (hR : ∀ h k, v.action h = .replaceBy k → uidsLt c k = true)
    (ht : T v n c = .ok (some n', c')) :
    (((subs n').filter fun m => decide (c ≤ m.uid)).map Node.uid).Nodup ∧
    (∀ m ∈ subs n', c ≤ m.uid → m.uid < c') ∧
    (∀ m ∈ subs n', m.uid < c → m ∈ subs n ∨ Repl v m) ∧
    (∀ m, m ∈ subs n ∨ Repl v m → m.uid < c) := by
  obtain ⟨_, g⟩ := fresh_T v c hR n c (some n') c' (Nat.le_refl _) hu ht
  have g := g n' rfl
  refine ⟨g.2, fun m hm hc => ?_, fun m hm hc => ?_, fun m hm => ?_⟩
  · rcases g.1 m hm with h | h
    · omega
    · exact h.2
  · rcases input_untouched v n c c' n' ht m hm with h | h | h
    · omega
    · exact .inl h
    · exact .inr h
  · rcases hm with hm | ⟨h, k, ha, hm⟩
    · exact uidsLt_subs c n hu m hm
    · exact uidsLt_subs c k (hR h k ha) m hm

/-- the same for the implementation-shaped model -/
theorem transform_new_uids (v : Visitor) (n : Node) (c c' : Nat) (n' : Node) (hw : wf n = true)
    (hu : uidsLt c n = true) (hR : ∀ h k, v.action h = .replaceBy k → uidsLt c k = true)
    (ht : transform v n c = .ok (some n', c')) :
    (((subs n').filter fun m => decide (c ≤ m.uid)).map Node.uid).Nodup ∧
    (∀ m ∈ subs n', c ≤ m.uid → m.uid < c') ∧
    (∀ m ∈ subs n', m.uid < c → m ∈ subs n ∨ Repl v m) ∧
    (∀ m, m ∈ subs n ∨ Repl v m → m.uid < c) := by
  rw [transform_eq_spec v n c hw] at ht; exact new_uids v n c c' n' hu hR ht

/-- two created objects at different places of the output are different objects; a created object is
no input object -/
theorem new_ne_input (v : Visitor) (n : Node) (c c' : Nat) (n' : Node)
    (hu : uidsLt c n = true) (hR : ∀ h k, v.action h = .replaceBy k → uidsLt c k = true)
    (ht : T v n c = .ok (some n', c')) (m x : Node) (_hm : m ∈ subs n') (hc : c ≤ m.uid)
    (hx : x ∈ subs n ∨ Repl v x) : m.uid ≠ x.uid := by
  have := (new_uids v n c c' n' hu hR ht).2.2.2 x hx
  omega

/-! ### ancestors of a change, also through `rewriteProp` methods -/

/-- `BelowRw v a d`: `d` is visited strictly below `a`, every node on the way calling `generic_visit`
(directly, or from a `rewriteProp` method) -/
inductive BelowRw (v : Visitor) : Node → Node → Prop where
  | child {a x : Node} : (v.action a.hd = .generic ∨ ∃ p, v.action a.hd = .rewriteProp p) →
      x ∈ childrenOf a → BelowRw v a x
  | trans {a x d : Node} : (v.action a.hd = .generic ∨ ∃ p, v.action a.hd = .rewriteProp p) →
      x ∈ childrenOf a → BelowRw v x d → BelowRw v a d

theorem quiet_rewrite (v : Visitor) (a : Node) (p : PropV) (ha : v.action a.hd = .rewriteProp p) :
    quiet v a = false := by
  cases a with
  | mk h ks => simp only [Node.hd_mk] at ha; unfold quiet; simp [ha]

theorem belowRw_not_quiet (v : Visitor) (a d : Node) (hb : BelowRw v a d) (hd : quiet v d = false) :
    quiet v a = false := by
  induction hb with
  | child ha hx =>
    rcases ha with ha | ⟨p, ha⟩
    · cases hq : quiet v _ with
      | false => rfl
      | true => rw [quiet_child v _ _ ha hx hq] at hd; cases hd
    · exact quiet_rewrite v _ p ha
  | trans ha hx _ ih =>
    rcases ha with ha | ⟨p, ha⟩
    · cases hq : quiet v _ with
      | false => rfl
      | true => rw [quiet_child v _ _ ha hx hq] at ih; exact absurd (ih hd) (by simp)
    · exact quiet_rewrite v _ p ha

/-- **changed_ancestors_new_rw**: every ancestor `a` of a change at `d` (reached through methods that
call `generic_visit`, plain or `rewriteProp`) is returned as a NEW object of the same class:
identity in `[c, c')`, hence (by `new_uids`) different from every input, replacement and other
created object. -/
theorem changed_ancestors_new_rw (v : Visitor) (a d : Node) (c c' : Nat) (r : Option Node)
    (hu : uidsLt c a = true) (hb : BelowRw v a d) (hd : quiet v d = false)
    (ht : T v a c = .ok (r, c')) :
    ∃ a', r = some a' ∧ c ≤ a'.uid ∧ a'.uid < c' ∧ a'.cls = a.cls ∧ a'.uid ≠ a.uid := by
  have hq := belowRw_not_quiet v a d hb hd
  have ha : v.action a.hd = .generic ∨ ∃ p, v.action a.hd = .rewriteProp p := by
    cases hb <;> assumption
  cases a with
  | mk h ks =>
    simp only [Node.hd_mk] at ha
    rcases ha with ha | ⟨p, ha⟩
    · rcases generic_result_same_or_new v h ks c c' r ha hu ht with ⟨_, _, hq'⟩ | ⟨ks', u, rfl, h1, h2, _⟩
      · rw [hq] at hq'; cases hq'
      · simp only [uidsLt, Bool.and_eq_true, decide_eq_true_eq] at hu
        exact ⟨_, rfl, by simpa using h1, by simpa using h2, rfl, by simp; omega⟩
    · simp only [uidsLt, Bool.and_eq_true, decide_eq_true_eq] at hu
      unfold T at ht; simp only [ha] at ht
      obtain ⟨n1, c1', n2, hres, hsp, rfl, rfl⟩ := finishRewrite_ok ht
      obtain ⟨ks', chg, c1, hk, hcase⟩ := rebuilt_ok hres
      have hm := TKids_mono v ks c ks' chg c1 hk
      have hu2 := setProp_uid hsp
      have hc2 := setProp_cls hsp
      refine ⟨n2, rfl, ?_, by omega, ?_, ?_⟩
      · rcases hcase with ⟨_, _, rfl⟩ | ⟨_, _, rfl⟩ <;> omega
      · rcases hcase with ⟨_, hn1, _⟩ | ⟨_, hn1, _⟩ <;>
          (simp at hn1; subst hn1; rw [hc2]; first | rfl | skip)
      · simp only [Node.uid_mk]
        rcases hcase with ⟨_, _, rfl⟩ | ⟨_, _, rfl⟩ <;> omega

/-! ### unchanged subtrees, semantic hypothesis -/

mutual
/-- no `rewriteProp` method is called in the subtree -/
def noRw (v : Visitor) : Node → Bool
  | .mk h ks => match v.action h with
    | .generic => noRwKids v ks
    | .rewriteProp _ => false
    | _ => true
termination_by structural n => n
def noRwKids (v : Visitor) : List Kid → Bool
  | [] => true
  | k :: r => noRwKid v k && noRwKids v r
termination_by structural ks => ks
def noRwKid (v : Visitor) : Kid → Bool
  | .mk _ _ ns => noRwNodes v ns
termination_by structural k => k
def noRwNodes (v : Visitor) : List Node → Bool
  | [] => true
  | n :: r => noRw v n && noRwNodes v r
termination_by structural ns => ns
end

theorem RwNodes_length (act : Head → Act) (ns out : List Node) (h : RwNodes act ns = .ok out) :
    out.length ≤ ns.length := by
  induction ns generalizing out with
  | nil => simp [RwNodes] at h; simp [← h]
  | cons x r ih =>
    unfold RwNodes at h
    split at h
    · simp at h
    · rename_i rx _
      split at h
      · simp at h
      · rename_i out' hr
        simp at h; subst h
        have := ih out' hr
        cases rx <;> simp <;> omega

mutual
/-- **unchanged_semantic**: the hypothesis is about the RESULT of the pure rewrite, not about which
rules fire: if `Rw` maps the subtree to itself (nothing dropped, nothing replaced by another node,
every rebuilt node equal to the old one — whatever the methods did to get there: `keep`, `generic`,
returning the node they were given, at any depth) and no `rewriteProp` method is involved, then `T`
returns the very same object and creates nothing.  No hypothesis on identities. -/
theorem unchanged_semantic (v : Visitor) (c : Nat) :
    ∀ n : Node, noRw v n = true → Rw v.action n = .ok (some n) → T v n c = .ok (some n, c)
  | .mk h ks, hn, hr => by
    unfold noRw at hn
    unfold Rw at hr
    unfold T
    split at hr
    · rename_i ha; simp [ha]
    · rename_i k ha; simp at hr; simp [ha, hr]
    · simp at hr
    · simp at hr
    · rename_i ha
      simp only [ha] at hn
      split at hr
      · simp at hr
      · rename_i ks' hk
        have e : ks' = ks := by simpa using hr
        rw [e] at hk
        simp [ha, rebuilt, unchanged_sem_kids v c ks hn hk]
    · rename_i p ha; simp [ha] at hn
termination_by structural n => n
theorem unchanged_sem_kids (v : Visitor) (c : Nat) :
    ∀ ks : List Kid, noRwKids v ks = true → RwKids v.action ks = .ok ks → TKids v ks c = .ok (ks, false, c)
  | [], _, _ => by simp [TKids]
  | k :: r, hn, hr => by
    simp only [noRwKids, Bool.and_eq_true] at hn
    unfold RwKids at hr
    split at hr
    · simp at hr
    · rename_i k' hk
      split at hr
      · simp at hr
      · rename_i r' hr'
        simp at hr; obtain ⟨e1, e2⟩ := hr
        rw [e1] at hk; rw [e2] at hr'
        simp [TKids, unchanged_sem_kid v c k hn.1 hk, unchanged_sem_kids v c r hn.2 hr']
termination_by structural ks => ks
theorem unchanged_sem_kid (v : Visitor) (c : Nat) :
    ∀ k : Kid, noRwKid v k = true → RwKid v.action k = .ok k → TKid v k c = .ok (k, false, c)
  | .mk name coll ns, hn, hr => by
    simp only [noRwKid] at hn
    unfold RwKid at hr
    split at hr
    · simp at hr
    · rename_i out ho
      have e : out = ns := by simpa using hr
      rw [e] at ho
      simp [TKid, unchanged_sem_nodes v c ns hn ho]
termination_by structural k => k
theorem unchanged_sem_nodes (v : Visitor) (c : Nat) :
    ∀ ns : List Node, noRwNodes v ns = true → RwNodes v.action ns = .ok ns → TNodes v ns c = .ok (ns, false, c)
  | [], _, _ => by simp [TNodes]
  | x :: r, hn, hr => by
    simp only [noRwNodes, Bool.and_eq_true] at hn
    unfold RwNodes at hr
    split at hr
    · simp at hr
    · rename_i rx hx
      split at hr
      · simp at hr
      · rename_i out ho
        simp at hr
        have hl := RwNodes_length v.action r out ho
        cases rx with
        | none =>
          simp at hr; subst hr; simp at hl; omega
        | some y =>
          simp at hr; obtain ⟨e1, e2⟩ := hr
          rw [e1] at hx; rw [e2] at ho
          simp [TNodes, unchanged_semantic v c x hn.1 hx, unchanged_sem_nodes v c r hn.2 ho, sameObj]
termination_by structural ns => ns
end

/-- for the implementation-shaped model -/
theorem transform_unchanged_semantic (v : Visitor) (n : Node) (c : Nat) (hw : wf n = true)
    (hn : noRw v n = true) (hr : Rw v.action n = .ok (some n)) : transform v n c = .ok (some n, c) := by
  rw [transform_eq_spec v n c hw]; exact unchanged_semantic v c n hn hr

/-! ### non-vacuity, and the witness that `noRw` cannot be dropped -/
namespace Ex

-- new_uids: hypotheses hold for a visitor that replaces `Leaf#1` by the existing node `Leaf#7`
theorem replOld_vExpr : ∀ h k, (vExpr 1 (.replaceBy (leaf 7))).action h = .replaceBy k → uidsLt 10 k = true := by
  intro h k hk
  obtain ⟨c, r, hm, hcase⟩ := replaceBy_in_table _ h k hk
  simp only [vExpr, List.mem_cons, List.not_mem_nil, or_false, Prod.mk.injEq] at hm
  obtain ⟨_, rfl⟩ := hm
  rcases hcase with hd | ⟨u, hu⟩
  · cases hd
  · simp only [List.mem_cons, List.not_mem_nil, or_false, Prod.mk.injEq] at hu
    obtain ⟨_, hu⟩ := hu; cases hu; decide
example : uidsLt 10 tree = true := by decide
example : ∃ n' c', T (vExpr 1 (.replaceBy (leaf 7))) tree 10 = .ok (some n', c') ∧
    (((subs n').filter fun m => decide (10 ≤ m.uid)).map Node.uid) = [10] := ⟨_, _, rfl, by decide⟩
-- a deep rewrite: three created objects, pairwise distinct, in [10, 13)
example : ∃ n' c', T (vExpr 3 (.rewriteProp (pV 5))) tree 10 = .ok (some n', c') ∧
    (((subs n').filter fun m => decide (10 ≤ m.uid)).map Node.uid) = [12, 11, 10] ∧ c' = 13 :=
  ⟨_, _, rfl, by decide, rfl⟩

-- changed_ancestors_new_rw: `Opt#2` is handled by a `rewriteProp`-less visitor … and by one whose
-- method for the root is a rewriteProp method
def vRootRw : Visitor :=
  { strict := true, rules := [(sTup, { dflt := .rewriteProp (pV 1) }), (sLeaf, { dflt := .remove })] }
example : BelowRw vRootRw tree (leaf 1) :=
  .child (.inr ⟨pV 1, rfl⟩) (by simp [childrenOf, tree, tup, Kid.nodes])
example : quiet vRootRw (leaf 1) = false := by decide

-- unchanged_semantic: `keep`, `generic`, and a method that returns the node it is given
example : noRw (vExpr 1 (.replaceBy (leaf 1))) tree = true := by decide
example : Rw (vExpr 1 (.replaceBy (leaf 1))).action tree = .ok (some tree) := rfl
example : transform (vExpr 1 (.replaceBy (leaf 1))) tree 10 = .ok (some tree, 10) :=
  transform_unchanged_semantic _ _ _ (by decide) (by decide) rfl
-- (the syntactic `still` of Props/C09 does not cover this visitor)
example : still (vExpr 1 (.replaceBy (leaf 1))) tree = false := by decide

/-- **`noRw` cannot be dropped**: `visit_Expr` does `dataclasses.replace(generic_visit(node), v=0)` for
`Leaf2#3`, whose `v` is `0` already.  The rewritten tree IS the input tree (same values, same
identities), yet the model returns a new `Leaf2` (#10) and new ancestors (#11, #12) — as the real
code does: `dataclasses.replace` always creates a new object. -/
theorem unchanged_semantic_fails :
    Rw (vExpr 3 (.rewriteProp (pV 0))).action tree = .ok (some tree) ∧
    obs (T (vExpr 3 (.rewriteProp (pV 0))) tree 10) = some (some (12, [(1, []), (11, [10]), (4, [])]), 13) :=
  ⟨rfl, by decide⟩

end Ex

end C09
end PyOak
