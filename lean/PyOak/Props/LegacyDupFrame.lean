/-
A rejected `duplicate`: whatever happened, every pre-existing record is untouched, every pre-existing
registry entry is kept, and every additional registry entry belongs to an object created by the call
(a duplicated child that is garbage as soon as the call is rejected: weak registry).
-/
import PyOak.Props.LegacyRollback
namespace PyOak.Legacy
open LState

/-- relative to the state `s` in which the call started: old records and entries untouched, new
entries point to new objects, new objects only have new children -/
structure NewOnly (s t : LState) : Prop where
  size : s.size ≤ t.size
  obj : ∀ v, v < s.size → t.obj v = s.obj v
  keep : ∀ k v, s.lookup k = some v → t.lookup k = some v
  fresh : ∀ k v, t.lookup k = some v → s.lookup k = some v ∨ s.size ≤ v
  closed : ∀ v, s.size ≤ v → v < t.size → ∀ c ∈ (t.obj v).kidList, s.size ≤ c

theorem NewOnly.refl (s : LState) : NewOnly s s :=
  ⟨Nat.le_refl _, fun _ _ => rfl, fun _ _ h => h, fun _ _ h => .inl h, fun v h1 h2 => by omega⟩

section
variable (H Hc : Str → Str)

/-- a construction over NEW children (rejected or not) keeps that -/
theorem construct_newOnly {s t t' : LState} {n : NewSpec} {fuel : Nat} {r : Except Err Nat}
    (hI : Inv Hc t) (hN : NewOnly s t)
    (hk : ∀ c ∈ n.fields.flatMap (·.kids), s.size ≤ c ∧ c < t.size) (hwf : (newObj n).wf)
    (h : construct H Hc fuel t n = (t', r)) :
    Inv Hc t' ∧ NewOnly s t' ∧ t'.size = t.size + 1 ∧ (∀ u, r = .ok u → u = t.size) := by
  have hI0 : Inv Hc (t.alloc (newObj n)).1 :=
    alloc_inv Hc hI (newObj n) rfl (fun c hc => (hk c hc).2) hwf (fun _ _ hx => hx.elim)
  have hN0 : NewOnly s (t.alloc (newObj n)).1 := by
    have hobj0 : ∀ v, v ≠ t.size → (t.alloc (newObj n)).1.obj v = t.obj v := by
      intro v hv; unfold LState.alloc LState.obj; simp [hv]
    have hobjn : (t.alloc (newObj n)).1.obj t.size = newObj n := by
      unfold LState.alloc LState.obj; simp
    refine ⟨Nat.le_trans hN.size (Nat.le_succ _), ?_, hN.keep, hN.fresh, ?_⟩
    · intro v hv
      rw [hobj0 v (by have := hN.size; omega)]; exact hN.obj v hv
    · intro v hv1 hv2 c hc
      have hv2' : v < t.size + 1 := hv2
      by_cases hvn : v = t.size
      · subst hvn; rw [hobjn] at hc; exact (hk c hc).1
      · rw [hobj0 v hvn] at hc; exact hN.closed v hv1 (by omega) c hc
  have hreg0 : ∀ k, (t.alloc (newObj n)).1.lookup k ≠ some t.size :=
    fun k => not_registered_of_ge Hc hI (Nat.le_refl _) k
  have hsz0 : (t.alloc (newObj n)).1.size = t.size + 1 := rfl
  unfold construct at h
  simp only at h
  generalize (t.alloc (newObj n)).1 = t0 at h hI0 hN0 hreg0 hsz0
  split at h
  · simp only [Prod.mk.injEq] at h; obtain ⟨rfl, rfl⟩ := h
    exact ⟨hI0, hN0, hsz0, fun u hu => by cases hu⟩
  · split at h
    · simp only [Prod.mk.injEq] at h; obtain ⟨rfl, rfl⟩ := h
      exact ⟨hI0, hN0, hsz0, fun u hu => by cases hu⟩
    · next nid coll orig _ =>
      -- the ids are set: only the new record changes, its child fields stay
      have hI1 : Inv Hc (t0.modify t.size (setIds nid coll orig)) :=
        inv_modify_unregistered Hc hI0 hreg0 _ (.inr rfl) rfl (hI0.wf _) (fun _ _ hx => hx.elim)
      have hts : s.size ≤ t.size := hN.size
      have hN1 : NewOnly s (t0.modify t.size (setIds nid coll orig)) := by
        refine ⟨hN0.size, ?_, hN0.keep, hN0.fresh, ?_⟩
        · intro v hv; rw [modify_obj_ne _ _ _ _ (by omega)]; exact hN0.obj v hv
        · intro v hv1 hv2 c hc
          rw [modify_size] at hv2
          have : ((t0.modify t.size (setIds nid coll orig)).obj v).kidList = (t0.obj v).kidList := by
            rw [modify_obj]; split
            · next hvn => subst hvn; rfl
            · rfl
          rw [this] at hc
          exact hN0.closed v hv1 hv2 c hc
      have hsz1 : (t0.modify t.size (setIds nid coll orig)).size = t.size + 1 := by rw [modify_size, hsz0]
      have hreg1 : ∀ k, (t0.modify t.size (setIds nid coll orig)).lookup k ≠ some t.size := by
        intro k; rw [modify_lookup]; exact hreg0 k
      generalize t0.modify t.size (setIds nid coll orig) = t1 at h hI1 hN1 hsz1 hreg1
      -- descendants of the new node are new
      have hdesc : ∀ q, Desc t1 t.size q → s.size ≤ q ∧ q < t1.size := by
        intro q hd
        induction hd with
        | refl => exact ⟨hts, by omega⟩
        | step _ hkq ih => exact ⟨hN1.closed _ ih.1 ih.2 _ hkq, hI1.closed _ ih.2 _ hkq⟩
      have hset : ∀ (t2 : LState), NewOnly s t2 → t2.size = t.size + 1 → NewOnly s (t2.setContentId Hc t.size) := by
        intro t2 h2 hs2
        refine ⟨h2.size, ?_, h2.keep, h2.fresh, ?_⟩
        · intro v hv; rw [setContentId_obj]; simp only [show v ≠ t.size by omega, if_false]; exact h2.obj v hv
        · intro v hv1 hv2 c hc
          have : ((t2.setContentId Hc t.size).obj v).kidList = (t2.obj v).kidList := by
            rw [setContentId_obj]; split
            · next hvn => subst hvn; rfl
            · rfl
          rw [this] at hc
          exact h2.closed v hv1 hv2 c hc
      cases hr : r with
      | error e =>
        rw [hr] at h
        unfold finishConstruct at h
        split at h
        · simp at h
        · cases ha : attach Hc fuel t1 t.size with
          | mk t2 res =>
            rw [ha] at h
            cases res with
            | ok x => cases x; simp at h
            | error e' =>
              simp only [Prod.mk.injEq] at h
              obtain ⟨rfl, _⟩ := h
              rw [attach_fail_frame Hc _ _ _ _ _ ha]
              exact ⟨hI1, hN1, hsz1, fun u hu => by cases hu⟩
      | ok u =>
        rw [hr] at h
        obtain ⟨hI', hu, hsz', _, _⟩ := finishConstruct_inv Hc hI1 (by omega) hreg1 (fun _ _ hx => hx.elim)
          (fun hx => hx) h
        refine ⟨hI', ?_, by rw [hsz', hsz1], fun u' hu' => by cases hu'; exact hu⟩
        unfold finishConstruct at h
        split at h
        · simp only [Prod.mk.injEq] at h
          rw [← h.1]; exact hset t1 hN1 hsz1
        · cases ha : attach Hc fuel t1 t.size with
          | mk t2 res =>
            rw [ha] at h
            cases res with
            | error e' => simp at h
            | ok x =>
              cases x
              simp only [Prod.mk.injEq] at h
              rw [← h.1]
              obtain ⟨_, _, hsz2, hg2, _⟩ := attach_invX Hc hI1 (by omega) (fun _ _ hx => hx.elim) ha
              obtain ⟨seg, hsd, hsl, hso⟩ := attach_effect Hc hI1 (by omega) ha
              apply hset t2 _ (by rw [hsz2, hsz1])
              refine ⟨by rw [hsz2]; exact hN1.size, ?_, ?_, ?_, ?_⟩
              · intro v hv
                rw [hso v, hN1.obj v hv]
                · intro hm; have := (hdesc v (hsd v hm)).1; omega
                · intro hm
                  obtain ⟨m, hm1, hm2⟩ := List.mem_flatMap.mp hm
                  have hmd := hdesc m (hsd m hm1)
                  have := hN1.closed m hmd.1 hmd.2 v hm2
                  omega
              · intro k v hk; exact hg2.reg k v (hN1.keep k v hk)
              · intro k v hk
                rcases hsl k v hk with h1 | h1
                · exact hN1.fresh k v h1
                · exact .inr (hdesc v (hsd v h1)).1
              · intro v hv1 hv2 c hc
                rw [hsz2] at hv2
                have : (t2.obj v).kidList = (t1.obj v).kidList := by
                  unfold LObj.kidList; rw [(hg2.same v hv2).2]
                rw [this] at hc
                exact hN1.closed v hv1 hv2 c hc

theorem modify_kidList (t : LState) (n : Nat) (f : LObj → LObj) (hf : ∀ o, (f o).fields = o.fields) (v : Nat) :
    ((t.modify n f).obj v).kidList = (t.obj v).kidList := by
  rw [modify_obj]; split
  · next hvn => subst hvn; unfold LObj.kidList; rw [hf]
  · rfl

/-- what is carried through `duplicate`, whatever the outcome -/
def DupAll (s t t' : LState) : Prop := Inv Hc t' ∧ NewOnly s t' ∧ t.size ≤ t'.size

theorem dupList_all {s : LState} (rec : LState → Nat → LState × Except Err Nat)
    (hrec : ∀ t c t' r, Inv Hc t → NewOnly s t → c < t.size → rec t c = (t', r) →
      DupAll Hc s t t' ∧ ∀ n, r = .ok n → s.size ≤ n ∧ n < t'.size) :
    ∀ (ks : List Nat) (t t' : LState) (r : Except Err (List Nat)), Inv Hc t → NewOnly s t →
      (∀ c ∈ ks, c < t.size) → dupList rec t ks = (t', r) →
      DupAll Hc s t t' ∧ ∀ rs, r = .ok rs → ∀ x ∈ rs, s.size ≤ x ∧ x < t'.size := by
  intro ks
  induction ks with
  | nil =>
    intro t t' r hI hN _ h
    simp only [dupList, Prod.mk.injEq] at h
    obtain ⟨rfl, rfl⟩ := h
    exact ⟨⟨hI, hN, Nat.le_refl _⟩, fun rs hrs x hx => by cases hrs; cases hx⟩
  | cons c cs ih =>
    intro t t' r hI hN hks h
    unfold dupList at h
    cases h1 : rec t c with
    | mk t1 res1 =>
      rw [h1] at h
      obtain ⟨⟨hI1, hN1, hs1⟩, hr1⟩ := hrec t c t1 res1 hI hN (hks c (List.mem_cons_self ..)) h1
      cases res1 with
      | error e =>
        simp only [Prod.mk.injEq] at h
        obtain ⟨rfl, rfl⟩ := h
        exact ⟨⟨hI1, hN1, hs1⟩, fun rs hrs => by cases hrs⟩
      | ok c' =>
        simp only at h
        cases h2 : dupList rec t1 cs with
        | mk t2 res2 =>
          rw [h2] at h
          obtain ⟨⟨hI2, hN2, hs2⟩, hr2⟩ := ih t1 t2 res2 hI1 hN1
            (fun x hx => Nat.lt_of_lt_of_le (hks x (List.mem_cons_of_mem _ hx)) hs1) h2
          cases res2 with
          | error e =>
            simp only [Prod.mk.injEq] at h
            obtain ⟨rfl, rfl⟩ := h
            exact ⟨⟨hI2, hN2, Nat.le_trans hs1 hs2⟩, fun rs hrs => by cases hrs⟩
          | ok cs' =>
            simp only [Prod.mk.injEq] at h
            obtain ⟨rfl, rfl⟩ := h
            refine ⟨⟨hI2, hN2, Nat.le_trans hs1 hs2⟩, ?_⟩
            intro rs hrs x hx
            cases hrs
            rcases List.mem_cons.mp hx with rfl | hx
            · have := hr1 x rfl; exact ⟨this.1, Nat.lt_of_lt_of_le this.2 hs2⟩
            · exact hr2 cs' rfl x hx

theorem dupFields_all {s : LState} (rec : LState → Nat → LState × Except Err Nat)
    (hrec : ∀ t c t' r, Inv Hc t → NewOnly s t → c < t.size → rec t c = (t', r) →
      DupAll Hc s t t' ∧ ∀ n, r = .ok n → s.size ≤ n ∧ n < t'.size) :
    ∀ (fs : List LField) (t t' : LState) (r : Except Err (List LField)), Inv Hc t → NewOnly s t →
      (∀ c ∈ fs.flatMap (·.kids), c < t.size) → dupFields rec t fs = (t', r) →
      DupAll Hc s t t' ∧ ∀ fs', r = .ok fs' → ∀ x ∈ fs'.flatMap (·.kids), s.size ≤ x ∧ x < t'.size := by
  intro fs
  induction fs with
  | nil =>
    intro t t' r hI hN _ h
    simp only [dupFields, Prod.mk.injEq] at h
    obtain ⟨rfl, rfl⟩ := h
    exact ⟨⟨hI, hN, Nat.le_refl _⟩, fun fs' hfs x hx => by cases hfs; simp at hx⟩
  | cons f fr ih =>
    intro t t' r hI hN hks h
    unfold dupFields at h
    cases h1 : dupList rec t f.kids with
    | mk t1 res1 =>
      rw [h1] at h
      obtain ⟨⟨hI1, hN1, hs1⟩, hr1⟩ := dupList_all Hc rec hrec f.kids t t1 res1 hI hN
        (fun c hc => hks c (by simp only [List.flatMap_cons]; exact List.mem_append_left _ hc)) h1
      cases res1 with
      | error e =>
        simp only [Prod.mk.injEq] at h
        obtain ⟨rfl, rfl⟩ := h
        exact ⟨⟨hI1, hN1, hs1⟩, fun fs' hfs => by cases hfs⟩
      | ok ks =>
        simp only at h
        cases h2 : dupFields rec t1 fr with
        | mk t2 res2 =>
          rw [h2] at h
          obtain ⟨⟨hI2, hN2, hs2⟩, hr2⟩ := ih t1 t2 res2 hI1 hN1
            (fun c hc => Nat.lt_of_lt_of_le
              (hks c (by simp only [List.flatMap_cons]; exact List.mem_append_right _ hc)) hs1) h2
          cases res2 with
          | error e =>
            simp only [Prod.mk.injEq] at h
            obtain ⟨rfl, rfl⟩ := h
            exact ⟨⟨hI2, hN2, Nat.le_trans hs1 hs2⟩, fun fs' hfs => by cases hfs⟩
          | ok fr' =>
            simp only [Prod.mk.injEq] at h
            obtain ⟨rfl, rfl⟩ := h
            refine ⟨⟨hI2, hN2, Nat.le_trans hs1 hs2⟩, ?_⟩
            intro fs' hfs x hx
            cases hfs
            simp only [List.flatMap_cons] at hx
            rcases List.mem_append.mp hx with hx | hx
            · have := hr1 ks rfl x hx; exact ⟨this.1, Nat.lt_of_lt_of_le this.2 hs2⟩
            · exact hr2 fr' rfl x hx

/-- `duplicate`, whatever the outcome -/
theorem duplicate_all {s : LState} (cfuel : Nat) (clone : Bool) : ∀ (fuel : Nat) (t : LState) (u : Nat)
    (t' : LState) (r : Except Err Nat), Inv Hc t → NewOnly s t → u < t.size →
    duplicate H Hc cfuel clone fuel t u = (t', r) →
    DupAll Hc s t t' ∧ ∀ n, r = .ok n → s.size ≤ n ∧ n < t'.size := by
  intro fuel
  induction fuel with
  | zero =>
    intro t u t' r hI hN _ h
    simp only [duplicate, Prod.mk.injEq] at h
    obtain ⟨rfl, rfl⟩ := h
    exact ⟨⟨hI, hN, Nat.le_refl _⟩, fun n hn => by cases hn⟩
  | succ fuel ih =>
    intro t u t' r hI hN hu h
    unfold duplicate at h
    cases h1 : dupFields (duplicate H Hc cfuel clone fuel) t (t.obj u).fields with
    | mk t1 res1 =>
      rw [h1] at h
      obtain ⟨⟨hI1, hN1, hs1⟩, hr1⟩ := dupFields_all Hc _ (fun t c t' r a b c' d => ih t c t' r a b c' d)
        (t.obj u).fields t t1 res1 hI hN (fun c hc => hI.closed u hu c hc) h1
      cases res1 with
      | error e =>
        simp only [Prod.mk.injEq] at h
        obtain ⟨rfl, rfl⟩ := h
        exact ⟨⟨hI1, hN1, hs1⟩, fun n hn => by cases hn⟩
      | ok fs =>
        simp only at h
        have hsh := dupFields_shape _ _ _ _ _ h1
        have hwf : ∀ sp : NewSpec, sp.fields = fs → (newObj sp).wf :=
          fun sp hsp => wf_of_shape hsh (t.obj u) (newObj sp) rfl hsp (hI.wf u)
        split at h
        · next t2 e hc =>
          simp only [Prod.mk.injEq] at h
          obtain ⟨rfl, rfl⟩ := h
          obtain ⟨hI2, hN2, hs2, _⟩ := construct_newOnly H Hc hI1 hN1 (hr1 fs rfl) (hwf _ rfl) hc
          exact ⟨⟨hI2, hN2, by omega⟩, fun n hn => by cases hn⟩
        · next t2 n hc =>
          simp only [Prod.mk.injEq] at h
          obtain ⟨rfl, rfl⟩ := h
          obtain ⟨hI2, hN2, hs2, hn2⟩ := construct_newOnly H Hc hI1 hN1 (hr1 fs rfl) (hwf _ rfl) hc
          have hn := hn2 n rfl
          have hts : s.size ≤ t1.size := hN1.size
          refine ⟨⟨inv_modify_meta Hc hI2 n _ _, ?_, by rw [modify_size]; omega⟩, ?_⟩
          · refine ⟨by rw [modify_size]; exact hN2.size, ?_, hN2.keep, hN2.fresh, ?_⟩
            · intro v hv; rw [modify_obj_ne _ _ _ _ (by omega)]; exact hN2.obj v hv
            · intro v hv1 hv2 c hc'
              rw [modify_size] at hv2
              rw [modify_obj] at hc'
              split at hc'
              · next hvn => subst hvn; exact hN2.closed v hv1 hv2 c hc'
              · exact hN2.closed v hv1 hv2 c hc'
          · intro n' hn'
            cases hn'
            rw [modify_size]; omega

end

end PyOak.Legacy
