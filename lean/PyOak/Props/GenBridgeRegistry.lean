/-
Bridge for the node registry (C03): the hand-written registry machine (Model/Registry.lean) is the set of definitions
GENERATED from src/pyoak/node.py by harness/py2lean_r.py (Gen/KernelsRegistry.lean), instantiated with

  reg := s.reg     (`NODE_REGISTRY` read as the plain mapping id ↦ object it is at the moment of the call; objects = uids)
  py.uid := id     py.id_attr := the `id` the object carries in the heap (`RState.idOf`)
  py.type_of u := the class of `u` (`none` for an object the heap does not know)      cls := `some c`
  py.isinstance u (some c) := `c ∈ mro u`           py.dfs_nodes := any function `D` (for `step`: `RState.descendants`)

ON EVERY STATE `s` (no hypothesis, no invariant):
  regGet_eq_gen, regDel_eq_gen, regSet_eq_gen    the dict primitives of the model ARE the primitives of the prelude (rfl)
  nextUniqueFrom_eq_gen   the model's search from counter i = the generated `while` loop entered with `id_ = base_i`
                          (when the model's answer is free: it always is from the counter 1 with fuel `reg.length + 1`)
  freshId_eq_gen          `_get_next_unique_id(base)` = `.ok (s.freshId base)` with fuel `reg.length + 2`: the loop body runs
                          at most `reg.length + 1` times (one more test of the condition ends it); in particular no
                          `OutOfFuel`;   freshId_eq_gen_of_le: the same for every larger fuel (the source has none)
  getAny_eq_gen, get_eq_gen            (with an arbitrary `default`; `_none`: the default `None` of the signature)
  detachSelf_eq_gen       `detach_self` = `.ok (registry of pDetachSelf, its flag)`; in particular no `KeyError` from `del`
  detach_eq_gen           `detach` = `.ok (registry after pDetachSelf on self and then on every element of D self, ())`
  step_detach_eq_gen, step_detachSelf_eq_gen      the same two, read off `RState.step` (the state before the final `gc`)
-/
import PyOak.Gen.KernelsRegistry
import PyOak.Props.C03Extra
namespace PyOak.GenBridgeRegistry
open PyOak RState RegL
set_option linter.unusedSimpArgs false

/-! ### the instantiation -/

/-- objects are uids; what the generated code asks of an object is read from the heap -/
def pyOf (heap : List RObj) (D : Nat → List Nat) : GenR.Py Nat (Option Str) :=
  { uid := fun u => u
    id_attr := fun u => ((heap.find? (·.uid == u)).map (·.id)).getD []
    type_of := fun u => (heap.find? (·.uid == u)).map (·.cls)
    isinstance := fun u c => (heap.find? (·.uid == u)).any (fun o => c.any (fun c => o.mro.contains c))
    dfs_nodes := D }

theorem pyOf_id_attr (s : RState) (D : Nat → List Nat) (u : Nat) : (pyOf s.heap D).id_attr u = s.idOf u := rfl
theorem pyOf_uid (heap : List RObj) (D : Nat → List Nat) (u : Nat) : (pyOf heap D).uid u = u := rfl
theorem pyOf_type_of (s : RState) (D : Nat → List Nat) (u : Nat) :
    (pyOf s.heap D).type_of u = (s.obj? u).map (·.cls) := rfl
theorem pyOf_isinstance (s : RState) (D : Nat → List Nat) (u : Nat) (c : Option Str) :
    (pyOf s.heap D).isinstance u c = (s.obj? u).any (fun o => c.any (fun c => o.mro.contains c)) := rfl

/-! ### the primitives -/

theorem regGet_eq_gen (s : RState) (k : Str) : s.regGet k = GenR.Reg.get s.reg k := rfl
theorem regDel_eq_gen (reg : List (Str × Nat)) (k : Str) : regDel reg k = GenR.Reg.discard reg k := rfl
theorem regSet_eq_gen (reg : List (Str × Nat)) (k : Str) (u : Nat) : regSet reg k u = GenR.Reg.setitem reg k u := rfl

theorem pyStrInt_natCast (i : Nat) : GenR.py_str_int (i : Int) = natStr i := rfl

theorem suffixed_eq_gen (base : Str) (i : Nat) : base ++ ['_'] ++ GenR.py_str_int (i : Int) = suffixed base i := by
  simp [suffixed, pyStrInt_natCast]

theorem contains_iff_get {reg : List (Str × Nat)} {k : Str} :
    GenR.Reg.contains reg k = (GenR.Reg.get reg k).isSome := by
  induction reg with
  | nil => rfl
  | cons e r ih =>
    simp only [GenR.Reg.contains, GenR.Reg.get, List.any_cons, List.find?_cons] at ih ⊢
    cases h : (e.1 == k) <;> simp [ih]

/-! ### `_get_next_unique_id` -/

section
variable {C : Type} [BEq C] (py : GenR.Py Nat C)

/-- the generated loop entered with the candidate `base_i` under test and the counter `i + 1` is the model's search from
`i`, whatever (larger) fuel the model is given — provided a free candidate `base_j` lies within the fuel of the loop -/
theorem nextUniqueFrom_eq_gen (s : RState) (base : Str) :
    ∀ (fuel i : Nat), (∃ j, i ≤ j ∧ j < i + fuel ∧ suffixed base j ∉ s.reg.map (·.1)) → ∀ fuel', fuel ≤ fuel' →
      GenR._get_next_unique_id_loop py s.reg base fuel (suffixed base i) ((i + 1 : Nat) : Int)
        = .ok (s.nextUniqueFrom base fuel' i)
  | 0, i, ⟨j, h1, h2, _⟩, _, _ => by omega
  | fuel + 1, i, ⟨j, h1, h2, h3⟩, 0, hle => by omega
  | fuel + 1, i, ⟨j, h1, h2, h3⟩, f'' + 1, hle => by
    unfold GenR._get_next_unique_id_loop
    simp only [nextUniqueFrom, regGet_eq_gen]
    have e1 : ((i + 1 : Nat) : Int) + (1 : Int) = ((i + 1 + 1 : Nat) : Int) := by omega
    rcases Option.eq_none_or_eq_some (GenR.Reg.get s.reg (suffixed base i)) with hg | ⟨u, hg⟩
    · -- absent
      simp only [contains_iff_get, hg, Option.isSome_none, Option.isNone_none, Bool.not_true, Bool.not_false, if_true, if_false,
        Bool.false_eq_true]
    · -- present
      have hne : j ≠ i := by
        intro e; subst e
        refine h3 (rget_isSome_iff.mp ?_)
        show (GenR.Reg.get s.reg (suffixed base j)).isSome = true
        rw [hg]; rfl
      have ih := nextUniqueFrom_eq_gen s base fuel (i + 1) ⟨j, by omega, by omega, h3⟩ f'' (by omega)
      simp only [contains_iff_get, hg, Option.isSome_some, Option.isNone_some, Bool.not_true, Bool.not_false, if_true, if_false,
        Bool.false_eq_true, suffixed_eq_gen, e1]
      exact ih

/-- one more unit of fuel never changes a run that ended -/
theorem loop_fuel_mono (reg : GenR.Reg Nat) (base : Str) :
    ∀ (fuel : Nat) (id_ : Str) (i : Int) (r : Str), GenR._get_next_unique_id_loop py reg base fuel id_ i = .ok r →
      GenR._get_next_unique_id_loop py reg base (fuel + 1) id_ i = .ok r
  | 0, _, _, _, h => by simp [GenR._get_next_unique_id_loop] at h
  | fuel + 1, id_, i, r, h => by
    unfold GenR._get_next_unique_id_loop at h ⊢
    rcases Option.eq_none_or_eq_some (GenR.Reg.get reg id_) with hg | ⟨u, hg⟩
    · -- absent
      simp only [contains_iff_get, hg, Option.isSome_none, Option.isNone_none, Bool.not_true, Bool.not_false, if_true, if_false,
        Bool.false_eq_true] at h ⊢
      exact h
    · -- present
      simp only [contains_iff_get, hg, Option.isSome_some, Option.isNone_some, Bool.not_true, Bool.not_false, if_true, if_false,
        Bool.false_eq_true] at h ⊢
      exact loop_fuel_mono reg base fuel _ _ r h

theorem loop_fuel_le (reg : GenR.Reg Nat) (base : Str) (f f' : Nat) (hle : f ≤ f') (id_ : Str) (i : Int) (r : Str)
    (h : GenR._get_next_unique_id_loop py reg base f id_ i = .ok r) :
    GenR._get_next_unique_id_loop py reg base f' id_ i = .ok r := by
  induction hle with
  | refl => exact h
  | step _ ih => exact loop_fuel_mono py reg base _ _ _ _ ih

/-- **`_get_next_unique_id`**: on every registry the generated function, given `reg.length + 2` tests of the loop condition
(= at most `reg.length + 1` runs of the loop body), returns the id the model hands out -/
theorem freshId_eq_gen (s : RState) (base : Str) :
    GenR._get_next_unique_id py s.reg (s.reg.length + 2) base = .ok (s.freshId base) := by
  unfold GenR._get_next_unique_id freshId
  unfold GenR._get_next_unique_id_loop
  simp only [regGet_eq_gen]
  have e1 : (1 : Int) + (1 : Int) = ((1 + 1 : Nat) : Int) := by decide
  have e2 : base ++ ['_'] ++ GenR.py_str_int (1 : Int) = suffixed base 1 := suffixed_eq_gen base 1
  rcases Option.eq_none_or_eq_some (GenR.Reg.get s.reg base) with hg | ⟨u, hg⟩
  · -- absent
    simp only [contains_iff_get, hg, Option.isSome_none, Option.isNone_none, Bool.not_true, Bool.not_false, if_true, if_false,
      Bool.false_eq_true]
  · -- present
    obtain ⟨j, h1, h2, h3⟩ := pigeon (suffixed base) (suffixed_injective base) s.reg.length (s.reg.map (·.1)) 1 (by simp)
    have h := nextUniqueFrom_eq_gen py s base (s.reg.length + 1) 1 ⟨j, h1, by omega, h3⟩ (s.reg.length + 1) (Nat.le_refl _)
    simp only [contains_iff_get, hg, Option.isSome_some, Option.isNone_some, Bool.not_true, Bool.not_false, if_true, if_false,
      Bool.false_eq_true, e1, e2]
    exact h

/-- the source has no fuel: every larger bound gives the same answer -/
theorem freshId_eq_gen_of_le (s : RState) (base : Str) (fuel : Nat) (h : s.reg.length + 2 ≤ fuel) :
    GenR._get_next_unique_id py s.reg fuel base = .ok (s.freshId base) := by
  have h0 := freshId_eq_gen py s base
  unfold GenR._get_next_unique_id at h0 ⊢
  exact loop_fuel_le py s.reg _ _ _ h _ _ _ h0

/-- no registry makes the generated loop run out of the fuel `reg.length + 2` -/
theorem nextUnique_no_outOfFuel (s : RState) (base : Str) :
    GenR._get_next_unique_id py s.reg (s.reg.length + 2) base ≠ .error .OutOfFuel := by
  rw [freshId_eq_gen]; intro h; cases h

/-! ### `get_any` -/

theorem getAny_eq_gen (s : RState) (cls : C) (k : Str) (d : Option Nat) :
    GenR.get_any py s.reg cls k d = (s.getAny k).or d := rfl

theorem getAny_eq_gen_none (s : RState) (cls : C) (k : Str) : GenR.get_any py s.reg cls k none = s.getAny k := by
  rw [getAny_eq_gen]; simp

end

/-! ### `get` -/

theorem get_eq_gen (s : RState) (D : Nat → List Nat) (cls k : Str) (d : Option Nat) (strict : Bool) :
    GenR.get (pyOf s.heap D) s.reg (some cls) k d strict = (s.get cls k strict).or d := by
  unfold GenR.get RState.get
  rw [← regGet_eq_gen]
  cases hg : s.regGet k with
  | none => simp
  | some u =>
    have ht := pyOf_type_of s D u
    have hi := pyOf_isinstance s D u (some cls)
    cases ho : s.obj? u with
    | none =>
      rw [ho] at ht hi
      cases strict <;> simp [ht, hi, ho]
    | some o =>
      rw [ho] at ht hi
      cases strict <;> by_cases hc : o.cls = cls <;> cases hm : o.mro.contains cls <;> simp_all

theorem get_eq_gen_none (s : RState) (D : Nat → List Nat) (cls k : Str) (strict : Bool) :
    GenR.get (pyOf s.heap D) s.reg (some cls) k none strict = s.get cls k strict := by
  rw [get_eq_gen]; simp

/-! ### `detach_self` -/

theorem pDetachSelf_heap (s : RState) (u : Nat) : (s.pDetachSelf u).1.heap = s.heap := by
  unfold pDetachSelf; split <;> rfl

/-- **`detach_self`**: the generated function never raises (`del` finds its key) and is the model's `pDetachSelf` -/
theorem detachSelf_eq_gen (s : RState) (D : Nat → List Nat) (u : Nat) :
    GenR.detach_self (pyOf s.heap D) s.reg u = .ok ((s.pDetachSelf u).1.reg, (s.pDetachSelf u).2) := by
  unfold GenR.detach_self pDetachSelf
  rw [pyOf_id_attr, ← regGet_eq_gen]
  simp only [pyOf, Option.map_id']
  by_cases h : s.regGet (s.idOf u) = some u
  · have hc : GenR.Reg.contains s.reg (s.idOf u) = true := by
      rw [contains_iff_get, ← regGet_eq_gen, h]; rfl
    simp [h, hc, regDel_eq_gen]
  · have h' : (s.regGet (s.idOf u) == some u) = false := by simpa using h
    simp [h']

/-! ### `detach` -/

theorem foldlM_detach (f : GenR.Reg Nat → Nat → Except GenR.Err (GenR.Reg Nat)) : ∀ (us : List Nat) (s : RState),
    (∀ s' : RState, s'.heap = s.heap → ∀ c, f s'.reg c = .ok (s'.pDetachSelf c).1.reg) →
      us.foldlM f s.reg = .ok (detachAll s us).reg
  | [], s, _ => rfl
  | c :: r, s, hf => by
    rw [List.foldlM_cons, detachAll_cons, hf s rfl c]
    simp only [Bind.bind, Except.bind]
    exact foldlM_detach f r (s.pDetachSelf c).1 (fun s' hs' => hf s' (hs'.trans (pDetachSelf_heap s c)))

/-- **`detach`**: `detach_self` on the node, then on every element of `self.dfs()` in order -/
theorem detach_eq_gen (s : RState) (D : Nat → List Nat) (x : Nat) :
    GenR.detach (pyOf s.heap D) s.reg x = .ok ((detachAll (s.pDetachSelf x).1 (D x)).reg, ()) := by
  unfold GenR.detach
  have hd : (pyOf s.heap D).dfs_nodes x = D x := rfl
  rw [detachSelf_eq_gen, hd]
  dsimp only
  rw [foldlM_detach _ (D x) (s.pDetachSelf x).1]
  intro s' hs' c
  have h : s'.heap = s.heap := hs'.trans (pDetachSelf_heap s x)
  rw [← h, detachSelf_eq_gen]

/-! ### read off `RState.step` -/

/-- `x.detach()` as an operation of the machine: the registry just before the final `gc` is the one the generated `detach`
returns, with `self.dfs()` = the model's `descendants` -/
theorem step_detach_eq_gen (s : RState) (x : Nat) (hx : s.isLive x = true) :
    ∃ s1 : RState, (s.step (.detach x)).1 = s1.gc ∧
      GenR.detach (pyOf s.heap (s.descendants (s.heap.length + 1))) s.reg x = .ok (s1.reg, ()) :=
  ⟨detachAll (s.pDetachSelf x).1 (s.descendants (s.heap.length + 1) x), by simp [step, hx, detachAll], detach_eq_gen s _ x⟩

theorem step_detachSelf_eq_gen (s : RState) (D : Nat → List Nat) (x : Nat) (hx : s.isLive x = true) :
    ∃ (s1 : RState) (b : Bool), s.step (.detachSelf x) = (s1.gc, .ok none (some b)) ∧
      GenR.detach_self (pyOf s.heap D) s.reg x = .ok (s1.reg, b) :=
  ⟨(s.pDetachSelf x).1, (s.pDetachSelf x).2, by simp [step, hx], detachSelf_eq_gen s D x⟩

/-! ### non-vacuity: the hypotheses `isLive` are satisfiable and the equations are not about an empty registry -/

namespace Demo

/-- two leaves that collide on the digest "ab": ids "ab" and "ab_1"; variable 0 holds the first -/
def s2 : RState :=
  { heap := [⟨1, ['L'], [['L']], ['a', 'b'], ['a', 'b'], []⟩, ⟨2, ['L'], [['L']], ['a', 'b'], ['a', 'b', '_', '1'], []⟩],
    reg := [(['a', 'b'], 1), (['a', 'b', '_', '1'], 2)], roots := [(0, 1), (1, 2)] }

example : s2.isLive 1 = true := by decide
example : GenR._get_next_unique_id (pyOf s2.heap (fun _ => [])) s2.reg 4 ['a', 'b'] = .ok ['a', 'b', '_', '2'] := by rfl
/-- the fuel matters: with one test less the generated loop gives up -/
example : GenR._get_next_unique_id (pyOf s2.heap (fun _ => [])) s2.reg 2 ['a', 'b'] = .error .OutOfFuel := by rfl
example : GenR.detach_self (pyOf s2.heap (fun _ => [])) s2.reg 2 = .ok ([(['a', 'b'], 1)], true) := by rfl
/-- the identity test: an object that carries a registered id without being the registered object removes nothing -/
example : GenR.detach_self (pyOf (s2.heap ++ [⟨3, ['L'], [['L']], ['a', 'b'], ['a', 'b'], []⟩]) (fun _ => [])) s2.reg 3
    = .ok (s2.reg, false) := by rfl

end Demo

end PyOak.GenBridgeRegistry
