/-
C05, bottom-up: `dfs(bottom_up=True)` by PATHS, for every tree (shared objects allowed).

`Trav.trailsPost P n` lists the same trails as `Trav.trails P n` (`trailsPost_perm`), the trails
through a position BEFORE the trail that ends there; its ends are the post-order stream
(`trailsPost_end`), its paths increase for the post-order of paths `PathLtPost`
(`postPaths_sorted`), which is irreflexive under `WellKeyed` (`pathLtPost_irrefl`).
`dfs_bottom_up_enumerates_paths` puts it together: under `WellKeyed n` only, the unpruned,
unfiltered bottom-up stream enumerates the non-empty valid paths exactly once, in post-order.
-/
import PyOak.Props.C05Paths
namespace PyOak
namespace C05P
open C05 C05X C05T Trav

variable (P : Item → Bool)

theorem trailsPostF_nil (f : Nat) : trailsPostF P f [] = [] := by cases f <;> simp [trailsPostF]

theorem trailsPostF_fuel (f1 f2 : Nat) (its : List Item)
    (h1 : ∀ it ∈ its, it.node.size ≤ f1) (h2 : ∀ it ∈ its, it.node.size ≤ f2) :
    trailsPostF P f1 its = trailsPostF P f2 its := by
  induction f1 generalizing f2 its with
  | zero =>
    cases its with
    | nil => simp [trailsPostF_nil]
    | cons it r => have := h1 it (by simp); have := it.node.size_pos; omega
  | succ f1 ih =>
    cases f2 with
    | zero =>
      cases its with
      | nil => simp [trailsPostF_nil]
      | cons it r => have := h2 it (by simp); have := it.node.size_pos; omega
    | succ f2 =>
      simp only [trailsPostF]
      apply flatMap_congr'
      intro it hit
      have e : trailsPostF P f1 it.node.items = trailsPostF P f2 it.node.items := by
        apply ih
        · intro c hc; have := items_size it.node c hc; have := h1 it hit; omega
        · intro c hc; have := items_size it.node c hc; have := h2 it hit; omega
      rw [e]

/-- the recursion equation of `trailsPost` (no fuel) -/
theorem trailsPost_eq (n : Node) : trailsPost P n = n.items.flatMap fun it =>
    (if P it then [] else (trailsPost P it.node).map (it :: ·)) ++ [[it]] := by
  unfold trailsPost
  obtain ⟨k, hk⟩ : ∃ k, n.size = k + 1 := ⟨n.size - 1, by have := n.size_pos; omega⟩
  rw [hk]
  simp only [trailsPostF]
  apply flatMap_congr'
  intro it hit
  have e : trailsPostF P k it.node.items = trailsPostF P it.node.size it.node.items := by
    apply trailsPostF_fuel
    · intro c hc; have := items_size it.node c hc; have := items_size n it hit; omega
    · intro c hc; have := items_size it.node c hc; omega
  rw [e]

theorem flatMap_perm_congr {α β : Type} {l : List α} {f g : α → List β}
    (h : ∀ a ∈ l, (f a).Perm (g a)) : (l.flatMap f).Perm (l.flatMap g) := by
  induction l with
  | nil => exact List.Perm.refl _
  | cons a r ih =>
    simp only [List.flatMap_cons]
    exact (h a (by simp)).append (ih (fun x hx => h x (by simp [hx])))

/-- post-order lists the same trails as pre-order -/
theorem trailsPost_perm (n : Node) : (trailsPost P n).Perm (trails P n) := by
  induction n using node_induction with
  | step n ih =>
    rw [trailsPost_eq, trails_eq]
    apply flatMap_perm_congr
    intro it hit
    refine List.perm_append_comm.trans ?_
    simp only [List.singleton_append]
    refine List.Perm.cons _ ?_
    by_cases hP : P it
    · simp [hP]
    · simp only [hP, Bool.false_eq_true, if_false]
      exact (ih it hit).map _

theorem trailsPost_ne_nil (n : Node) (t : List Item) (h : t ∈ trailsPost P n) : t ≠ [] :=
  trails_ne_nil P n t ((trailsPost_perm P n).mem_iff.mp h)

theorem post_rec (n : Node) : post P (fun _ => true) n =
    n.items.flatMap fun it => (if P it then [] else post P (fun _ => true) it.node) ++ [it] := by
  rw [post_eq_postItems]
  unfold postItems
  apply flatMap_congr'
  intro it _
  rw [postN_unfold, post_eq_postItems]
  simp [postItems]

/-- the ends of the post-order trails, in order, are the post-order stream -/
theorem trailsPost_end (n : Node) : (trailsPost P n).map trailEnd = post P (fun _ => true) n := by
  induction n using node_induction with
  | step n ih =>
    rw [trailsPost_eq, post_rec, List.map_flatMap]
    apply flatMap_congr'
    intro it hit
    simp only [List.map_append, List.map_cons, List.map_nil, trailEnd_single]
    congr 1
    by_cases hP : P it
    · simp [hP]
    · simp only [hP, Bool.false_eq_true, if_false, List.map_map]
      rw [← ih it hit]
      apply List.map_congr_left
      intro t ht
      exact trailEnd_cons it t (trailsPost_ne_nil P it.node t ht)

/-- `dfs(prune, filter, bottom_up=True)` = the ends of the post-order trails, filtered -/
theorem dfs_bottom_up_eq_trails (F : Item → Bool) (n : Node) :
    dfsImpl P F true n = ((trailsPost P n).map trailEnd).filter F := by
  rw [dfsImpl_filter, dfs_bottom_up, trailsPost_end]

/-- the members of `trailsPost P n`: as for `trails` -/
theorem mem_trailsPost_iff (n : Node) (t : List Item) :
    t ∈ trailsPost P n ↔ t ≠ [] ∧ IsTrail n t ∧ ∀ y ∈ t.dropLast, P y = false := by
  rw [(trailsPost_perm P n).mem_iff]; exact mem_trails_iff P n t

/-- **post-order of paths**: a path comes after its extensions, siblings in declaration order -/
theorem postPaths_sorted (n : Node) :
    ((trailsPost (fun _ => false) n).map pathOf).Pairwise (PathLtPost n) := by
  induction n using node_induction with
  | step n ih =>
    rw [trailsPost_eq, List.map_flatMap]
    refine List.pairwise_flatMap.mpr ⟨?_, ?_⟩
    · intro it hit
      have hmem := ((mem_items_iff n it).mp hit).2
      simp only [Bool.false_eq_true, if_false, List.map_append, List.map_cons, List.map_nil,
        List.map_map]
      refine List.pairwise_append.mpr ⟨?_, by simp, ?_⟩
      · have := ih it hit
        rw [List.pairwise_map] at this ⊢
        exact this.imp (fun h => PathLtPost.down n it.node it.edge _ _ hmem h)
      · intro p hp q hq
        simp only [List.mem_singleton] at hq
        subst hq
        obtain ⟨t, ht, rfl⟩ := List.mem_map.mp hp
        have hne := trailsPost_ne_nil _ _ t ht
        cases t with
        | nil => exact absurd rfl hne
        | cons a r => exact PathLtPost.down n it.node it.edge _ [] hmem (PathLtPost.ext _ _ _)
    · refine (items_pairwise_sublist n).imp ?_
      intro a b hab x hx y hy
      have hfirst : ∀ (it : Item) (z : List Edge),
          z ∈ List.map pathOf ((if (fun _ => false) it = true then []
            else List.map (fun x => it :: x) (trailsPost (fun _ => false) it.node)) ++ [[it]]) →
          ∃ z', z = it.edge :: z' := by
        intro it z hz
        obtain ⟨t, ht, rfl⟩ := List.mem_map.mp hz
        rcases List.mem_append.mp ht with ht | ht
        · simp only [Bool.false_eq_true, if_false] at ht
          obtain ⟨t', _, rfl⟩ := List.mem_map.mp ht
          exact ⟨pathOf t', rfl⟩
        · simp only [List.mem_singleton] at ht; subst ht; exact ⟨[], rfl⟩
      obtain ⟨x', rfl⟩ := hfirst a x hx
      obtain ⟨y', rfl⟩ := hfirst b y hy
      exact PathLtPost.fork n _ _ _ _ hab

theorem pathLtPost_irrefl (n : Node) (hW : WellKeyed n) (p q : List Edge) (h : PathLtPost n p q) :
    p ≠ q := by
  induction h with
  | ext n e p => simp
  | fork n e1 e2 p q hs =>
    intro heq
    have he : e1 = e2 := (List.cons.inj heq).1
    subst he
    have hnd : (n.edges.map (·.2)).Nodup := hW n (self_mem_allNodes n)
    have := hnd.sublist hs
    simp at this
  | down n c e p q hmem _ ih =>
    intro heq
    exact ih (wellKeyed_edge n c e hW hmem) (List.cons.inj heq).2

/-- **exactly once, bottom-up, with sharing**: the unpruned, unfiltered `dfs(bottom_up=True)`
stream is, position by position, the list of ends of trails whose paths are pairwise distinct,
in the post-order of paths, and are all the non-empty valid paths below the start node -/
theorem dfs_bottom_up_enumerates_paths (n : Node) (hW : WellKeyed n) :
    ∃ ts : List (List Item),
      ts.map trailEnd = dfsImpl (fun _ => false) (fun _ => true) true n ∧
      (∀ t ∈ ts, t ≠ [] ∧ IsTrail n t) ∧
      (ts.map pathOf).Nodup ∧
      (ts.map pathOf).Pairwise (PathLtPost n) ∧
      (∀ p, p ∈ ts.map pathOf ↔ p ≠ [] ∧ ValidPath n p) ∧
      (ts.map pathOf).length + 1 = n.size := by
  have hperm := trailsPost_perm (fun _ => false) n
  refine ⟨trailsPost (fun _ => false) n, ?_, ?_, ?_, postPaths_sorted n, ?_, ?_⟩
  · rw [dfs_bottom_up, trailsPost_end]
  · intro t ht; exact (mem_trails_noprune n t).mp (hperm.mem_iff.mp ht)
  · exact (postPaths_sorted n).imp (fun h => pathLtPost_irrefl n hW _ _ h)
  · intro p; rw [(hperm.map pathOf).mem_iff]; exact mem_paths_iff n p
  · rw [(hperm.map pathOf).length_eq]; exact paths_length n

/-! ### non-vacuity -/

private def hd (u : Nat) (c : Str) : Head :=
  { uid := u, cls := c, mro := [c], org := ⟨0, []⟩, props := [], truthy := true }
private def leaf (u : Nat) : Node := .mk (hd u ['L']) []
private def mid : Node := .mk (hd 2 ['M']) [.mk ['x'] false [leaf 3], .mk ['y'] true [leaf 5, leaf 6]]
private def shared : Node := .mk (hd 0 ['R']) [.mk ['a'] true [mid, mid], .mk ['b'] false [leaf 4]]

example : WellKeyed shared := by unfold WellKeyed EdgesNodup; decide
example : (trailsPost (fun _ => false) shared).map pathOf =
    [[⟨['a'], some 0⟩, ⟨['x'], none⟩], [⟨['a'], some 0⟩, ⟨['y'], some 0⟩],
     [⟨['a'], some 0⟩, ⟨['y'], some 1⟩], [⟨['a'], some 0⟩],
     [⟨['a'], some 1⟩, ⟨['x'], none⟩], [⟨['a'], some 1⟩, ⟨['y'], some 0⟩],
     [⟨['a'], some 1⟩, ⟨['y'], some 1⟩], [⟨['a'], some 1⟩], [⟨['b'], none⟩]] := by decide
example : (dfsImpl (fun _ => false) (fun _ => true) true shared).map (·.node.uid) =
    [3, 5, 6, 2, 3, 5, 6, 2, 4] := by decide

#print axioms trailsPost_perm
#print axioms trailsPost_end
#print axioms dfs_bottom_up_eq_trails
#print axioms mem_trailsPost_iff
#print axioms postPaths_sorted
#print axioms pathLtPost_irrefl
#print axioms dfs_bottom_up_enumerates_paths

end C05P
end PyOak
