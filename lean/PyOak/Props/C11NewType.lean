/-
C11, "the verdict is the same … for NewType wrappers": erasing EVERY NewType wrapper, at any depth.

`classify_erase` (Props/C11.lean) needs `ntBaseOk` (every NewType wraps a non-Union, non-None base).  Here:

* `classify_erase_of_accepted`   UNCONDITIONAL: an accepted annotation (child or property) keeps its verdict
                                 when all NewType wrappers are erased
* `classify_erase_cases`         UNCONDITIONAL: the only thing erasure can change is rejected ↦ child
* `classify_erase_weak`          the verdict is unchanged under the weaker hypothesis `noNoneNT` (no union
                                 member is a NewType of None); `ntBaseOk_noNoneNT`, `noNoneNT_strictly_weaker`
* `classify_erase_needs_noNoneNT` that hypothesis cannot be dropped (`Union[N, NT]`, `NT = NewType(.., None)`:
                                 rejected, `Union[N, None]`: child — the real code agrees, see the run below)
* `union_base_python_erasure`    why `ntBaseOk` also excluded Union bases: the model's `erase` leaves the nested
                                 union `Union[Union[A, B], None]` in place (still rejected), but Python flattens
                                 it to `Union[A, B, None]`, a child, whereas `Optional[NT]`, `NT = NewType(..,
                                 Union[A, B])`, is rejected — for Python's reading of "the annotation without
                                 NewTypes" the Union-base condition IS needed.  Real code (probe run against
                                 /tmp/agent_q8/repo/src): `Optional[NTU]` → InvalidFieldAnnotations (NON_NODE_TYPE),
                                 `Union[A, B, None]` → child; `Union[A, NTN]` → InvalidFieldAnnotations,
                                 `Union[A, None]` → child.  Model and code agree at all four points.
-/
import PyOak.Spec.AnnotFwd
import PyOak.Props.C11
namespace PyOak
namespace C11
open Annot Annot.Ty

theorem noNoneNTL_eq (l : List Ty) : noNoneNTL l = l.all fun x => !(isNoneNT x) && noNoneNT x := by
  induction l with
  | nil => rfl
  | cons t r ih => simp [noNoneNTL, ih]

theorem noNoneNTArgs_eq (l : List Ty) : noNoneNTArgs l = l.all noNoneNT := by
  induction l with
  | nil => rfl
  | cons t r ih => simp [noNoneNTArgs, ih]

theorem isNone_erase_of (t : Ty) (h : isNoneNT t = false) : (erase t).isNone = t.isNone := by
  rw [isNone_erase]
  cases t with
  | newtype u => simpa [isNoneNT, unwrap, isNone] using h
  | _ => rfl

theorem unionMemberOk_erase_of (t : Ty) (h : isNoneNT t = false) :
    unionMemberOk (erase t) = unionMemberOk t := by
  simp only [unionMemberOk, isNone_erase_of t h, isNodeClass_erase]

theorem validChild_erase_weak :
    ∀ t, noNoneNT t = true → ∀ b, validChild b (erase t) = validChild b t := by
  intro t
  induction t using Ty.induct with
  | hnt t ih =>
    intro h b
    simp only [noNoneNT] at h
    simpa [erase, validChild] using ih h b
  | hunion m ms _ _ =>
    intro h b
    simp only [noNoneNT, noNoneNTL_eq, Bool.and_eq_true, List.all_eq_true, Bool.not_eq_true'] at h
    have hall : ∀ x ∈ m :: ms, isNoneNT x = false := by
      intro x hx
      rcases List.mem_cons.1 hx with rfl | hx
      · exact h.1.1
      · exact (h.2 x hx).1
    have e1 : (erase m :: eraseL ms) = (m :: ms).map erase := by simp [eraseL_eq]
    simp only [erase, validChild, e1, List.any_map, List.all_map]
    rw [any_congr_mem (f := isNone ∘ erase) (g := isNone) (fun x hx => isNone_erase_of x (hall x hx)),
        all_congr_mem (f := unionMemberOk ∘ erase) (g := unionMemberOk)
          (fun x hx => unionMemberOk_erase_of x (hall x hx))]
  | hvt t ih =>
    intro h b
    simp only [noNoneNT] at h
    simp only [erase, validChild, ih h false]
  | hcoll k args ih =>
    intro h b
    simp only [noNoneNT, noNoneNTArgs_eq, List.all_eq_true] at h
    cases k <;> simp only [erase, validChild]
    simp only [validChildL_eq, eraseL_eq, List.all_map, List.isEmpty_map]
    congr 2
    exact all_congr_mem fun x hx => ih x hx (h x hx) false
  | _ => intro _ _; rfl

/-- removing the NewType wrappers at every depth keeps the verdict as soon as no union member is a NewType
of None -/
theorem classify_erase_weak (t : Ty) (h : noNoneNT t = true) : classify (erase t) = classify t := by
  rw [classify_eq_classifyRaw, classify_eq_classifyRaw]
  unfold classifyRaw
  rw [hasNode_erase, validProp_erase, validChild_erase_weak t h]

theorem ntBaseOk_isNoneNT (t : Ty) (h : ntBaseOk t = true) : isNoneNT t = false := by
  cases t with
  | newtype u =>
    simp only [ntBaseOk, Bool.and_eq_true] at h
    simp only [isNoneNT]
    cases hu : u.unwrap <;> simp_all [isNone]
  | _ => rfl

/-- the new hypothesis is implied by the old one … -/
theorem ntBaseOk_noNoneNT : ∀ t, ntBaseOk t = true → noNoneNT t = true := by
  intro t
  induction t using Ty.induct with
  | hnt t ih =>
    intro h
    simp only [ntBaseOk, Bool.and_eq_true] at h
    simpa [noNoneNT] using ih h.1
  | hunion m ms ihm ihms =>
    intro h
    simp only [ntBaseOk, ntBaseOkL_eq, Bool.and_eq_true, List.all_eq_true] at h
    simp only [noNoneNT, noNoneNTL_eq, Bool.and_eq_true, List.all_eq_true, Bool.not_eq_true']
    exact ⟨⟨ntBaseOk_isNoneNT m h.1, ihm h.1⟩,
      fun x hx => ⟨ntBaseOk_isNoneNT x (h.2 x hx), ihms x hx (h.2 x hx)⟩⟩
  | hvt t ih =>
    intro h
    simp only [ntBaseOk] at h
    simpa [noNoneNT] using ih h
  | hcoll k args ih =>
    intro h
    simp only [ntBaseOk, ntBaseOkL_eq, List.all_eq_true] at h
    simp only [noNoneNT, noNoneNTArgs_eq, List.all_eq_true]
    exact fun x hx => ih x hx (h x hx)
  | _ => intro _; rfl

/-- … and is strictly weaker: `Optional[NT]` with `NT = NewType("NT", Union[N0, N1])`, and a NewType of None
outside a union -/
theorem noNoneNT_strictly_weaker :
    (∃ t, noNoneNT t = true ∧ ntBaseOk t = false) ∧
    noNoneNT (.union (.newtype (.union (.node 0) [.node 1])) [.none]) = true ∧
    noNoneNT (.vtuple (.newtype .none)) = true ∧ ntBaseOk (.vtuple (.newtype .none)) = false :=
  ⟨⟨.union (.newtype (.union (.node 0) [.node 1])) [.none], by decide⟩, by decide, by decide, by decide⟩

/-- `classify_erase` follows from the weak form -/
theorem classify_erase_from_weak (t : Ty) (h : ntBaseOk t = true) : classify (erase t) = classify t :=
  classify_erase_weak t (ntBaseOk_noNoneNT t h)

/-- the weak hypothesis cannot be dropped: `Union[N, NT]` with `NT = NewType("NT", None)` is rejected,
`Union[N, None]` is a child (real code: the same, see the header) -/
theorem classify_erase_needs_noNoneNT :
    noNoneNT (.union (.node 0) [.newtype .none]) = false ∧
    classify (.union (.node 0) [.newtype .none]) = .reject ∧
    classify (erase (.union (.node 0) [.newtype .none])) = .child := by decide

/-- Python's own erasure flattens nested unions: for it the Union-base condition of `ntBaseOk` is needed -/
theorem union_base_python_erasure :
    classify (.union (.newtype (.union (.node 0) [.node 1])) [.none]) = .reject ∧        -- Optional[NT]
    classify (erase (.union (.newtype (.union (.node 0) [.node 1])) [.none])) = .reject ∧ -- Union[Union[..], None]
    classify (.union (.node 0) [.node 1, .none]) = .child := by decide                     -- Union[N0, N1, None]

/-! ### unconditional: accepted annotations -/

theorem isNone_unwrap_of_isNone (t : Ty) (h : t.isNone = true) : t.unwrap.isNone = true := by
  cases t <;> simp_all [isNone, unwrap]

theorem not_isNone_of_isNodeClass (t : Ty) (h : t.isNodeClass = true) : t.isNone = false := by
  cases t <;> simp_all [isNone, isNodeClass]

theorem unionMemberOk_erase_of_true (x : Ty) (h : unionMemberOk x = true) :
    unionMemberOk (erase x) = true := by
  simp only [unionMemberOk, Bool.or_eq_true] at h ⊢
  rw [isNone_erase, isNodeClass_erase]
  rcases h with h | h
  · exact .inl (isNone_unwrap_of_isNone x h)
  · exact .inr h

theorem validChild_erase_of_true : ∀ t b, validChild b t = true → validChild b (erase t) = true := by
  intro t
  induction t using Ty.induct with
  | hnt t ih => intro b h; simp only [validChild] at h; simpa [erase] using ih b h
  | hunion m ms _ _ =>
    intro b h
    have e1 : (erase m :: eraseL ms) = (m :: ms).map erase := by simp [eraseL_eq]
    simp only [validChild] at h
    simp only [erase, validChild, e1]
    split at h
    · cases h
    · rename_i hc
      have hall : ∀ x ∈ m :: ms, unionMemberOk x = true := List.all_eq_true.1 h
      have hall' : ((m :: ms).map erase).all unionMemberOk = true := by
        rw [List.all_map, List.all_eq_true]
        exact fun x hx => unionMemberOk_erase_of_true x (hall x hx)
      rw [hall']
      cases b
      · -- inside a tuple: no member is None, so every member is a node class, so no erased member is None
        have hnone : (m :: ms).any isNone = false := by simpa using hc
        have : ((m :: ms).map erase).any isNone = false := by
          rw [List.any_map, List.any_eq_false]
          intro x hx
          have h1 : x.isNone = false := by
            have := List.any_eq_false.1 hnone x hx
            simpa using this
          have h2 : x.unwrap.isNodeClass = true := by
            have := hall x hx
            simpa [unionMemberOk, h1] using this
          simp only [Function.comp, isNone_erase, not_isNone_of_isNodeClass _ h2]
          simp
        rw [this]; simp
      · simp
  | hvt t ih =>
    intro b h
    simp only [validChild, Bool.and_eq_true] at h
    simp only [erase, validChild, Bool.and_eq_true]
    exact ⟨h.1, ih false h.2⟩
  | hcoll k args ih =>
    intro b h
    cases k <;> simp only [validChild, Bool.false_eq_true] at h
    simp only [validChildL_eq, Bool.and_eq_true, List.all_eq_true] at h
    simp only [erase, validChild, validChildL_eq, eraseL_eq, List.all_map, List.isEmpty_map,
      Bool.and_eq_true, List.all_eq_true]
    exact ⟨h.1, h.2.1, fun x hx => ih x hx false (h.2.2 x hx)⟩
  | _ => intro _ h; exact h

/-- erasing all NewType wrappers never changes the verdict of an ACCEPTED annotation — no side condition -/
theorem classify_erase_of_accepted (t : Ty) (h : classify t ≠ .reject) : classify (erase t) = classify t := by
  rw [classify_eq_classifyRaw] at h ⊢
  rw [classify_eq_classifyRaw]
  unfold classifyRaw at h ⊢
  rw [hasNode_erase, validProp_erase]
  cases hn : hasNode t
  · rfl
  · simp only [hn, if_true] at h ⊢
    cases hv : validChild true t
    · simp [hv] at h
    · rw [validChild_erase_of_true t true hv]

/-- in general the only possible effect of erasing NewType wrappers is rejected ↦ child (a NewType of None
in a union becoming a plain None); a property never appears or disappears -/
theorem classify_erase_cases (t : Ty) :
    classify (erase t) = classify t ∨ (classify t = .reject ∧ classify (erase t) = .child) := by
  by_cases h : classify t = .reject
  · rw [h]
    rw [classify_eq_classifyRaw] at h ⊢
    unfold classifyRaw at h ⊢
    rw [hasNode_erase, validProp_erase]
    cases hn : hasNode t
    · simp only [hn, Bool.false_eq_true, if_false] at h ⊢
      exact .inl h
    · simp only [if_true]
      cases validChild true (erase t)
      · exact .inl (by simp)
      · exact .inr ⟨by simp, by simp⟩
  · exact .inl (classify_erase_of_accepted t h)

/-- consequence: erasure never produces or removes a property, and never removes a child -/
theorem classify_erase_prop_iff (t : Ty) : classify (erase t) = .prop ↔ classify t = .prop := by
  rcases classify_erase_cases t with h | ⟨h1, h2⟩
  · rw [h]
  · rw [h1, h2]; simp

-- non-vacuity: a deep term with NewTypes over a Union base and over None outside unions
example : noNoneNT (.coll .tuple [.newtype (.newtype (.union (.node 0) [.fwd 1])), .newtype (.node 2)]) = true ∧
    classify (.coll .tuple [.newtype (.newtype (.union (.node 0) [.fwd 1])), .newtype (.node 2)]) = .child ∧
    ntBaseOk (.coll .tuple [.newtype (.newtype (.union (.node 0) [.fwd 1])), .newtype (.node 2)]) = false := by
  decide
example : classify (.coll .mapping [.atom .str, .newtype (.vtuple (.newtype (.atom .int)))]) ≠ .reject := by decide

end C11
end PyOak
