/-
C05 — Traversals visit exactly the descendants, in order, with exact position info.

Specification (`preN`, `postN`, `level`) is the textbook structural recursion over the tree;
the theorems say that the stack/deque/queue loops of the implementation-shaped model
(`Model/Traverse.lean`) compute exactly that, for every tree, every prune and filter predicate
and both directions, and that the fuel handed to the loops is sufficient.
-/
import PyOak.Model.Traverse
namespace PyOak
namespace C05

variable (P F : Item → Bool)

/-! ### Specification -/

mutual
/-- pre-order below (and including) the position `⟨n, par, e⟩` -/
def preN (par : Node) (e : Edge) (n : Node) : List Item :=
  match n with
  | .mk h ks =>
    let it : Item := ⟨.mk h ks, par, e⟩
    (if F it then [it] else []) ++ (if P it then [] else preKs (.mk h ks) ks)
termination_by structural n
def preKs (par : Node) (ks : List Kid) : List Item :=
  match ks with
  | [] => []
  | k :: r => preK par k ++ preKs par r
termination_by structural ks
def preK (par : Node) (k : Kid) : List Item :=
  match k with
  | .mk name coll ns => preNs par name coll 0 ns
termination_by structural k
def preNs (par : Node) (name : Str) (coll : Bool) (i : Nat) (ns : List Node) : List Item :=
  match ns with
  | [] => []
  | n :: r => preN par ⟨name, if coll then some i else none⟩ n ++ preNs par name coll (i + 1) r
termination_by structural ns
end

mutual
/-- post-order below (and including) the position `⟨n, par, e⟩` -/
def postN (par : Node) (e : Edge) (n : Node) : List Item :=
  match n with
  | .mk h ks =>
    let it : Item := ⟨.mk h ks, par, e⟩
    (if P it then [] else postKs (.mk h ks) ks) ++ (if F it then [it] else [])
termination_by structural n
def postKs (par : Node) (ks : List Kid) : List Item :=
  match ks with
  | [] => []
  | k :: r => postK par k ++ postKs par r
termination_by structural ks
def postK (par : Node) (k : Kid) : List Item :=
  match k with
  | .mk name coll ns => postNs par name coll 0 ns
termination_by structural k
def postNs (par : Node) (name : Str) (coll : Bool) (i : Nat) (ns : List Node) : List Item :=
  match ns with
  | [] => []
  | n :: r => postN par ⟨name, if coll then some i else none⟩ n ++ postNs par name coll (i + 1) r
termination_by structural ns
end

/-- `dfs()` must be: pre-order of the proper descendants of `n` -/
def pre (n : Node) : List Item := preKs P F n n.kids
/-- `dfs(bottom_up=True)` must be: post-order of the proper descendants of `n` -/
def post (n : Node) : List Item := postKs P F n n.kids

/-- children positions of the not-pruned members of a level -/
def nextLevel (lvl : List Item) : List Item :=
  (lvl.filter (fun it => !P it)).flatMap (·.node.items)

/-- the positions at depth `k + 1` below `n` that are reachable without crossing a pruned one -/
def level (n : Node) : Nat → List Item
  | 0 => n.items
  | k + 1 => nextLevel P (level n k)

/-- `bfs()` must be: the levels one after the other, filtered -/
def bfs (n : Node) : List Item :=
  ((List.range n.size).flatMap (level P n)).filter F

/-! ### helper lemmas -/

def preItems (its : List Item) : List Item := its.flatMap fun it => preN P F it.parent it.edge it.node
def postItems (its : List Item) : List Item := its.flatMap fun it => postN P F it.parent it.edge it.node

def weight (its : List Item) : Nat := (its.map (·.node.size)).sum

@[simp] theorem weight_nil : weight [] = 0 := rfl
@[simp] theorem weight_cons (a : Item) (l : List Item) : weight (a :: l) = a.node.size + weight l := by
  simp [weight]
@[simp] theorem weight_append (a b : List Item) : weight (a ++ b) = weight a + weight b := by
  simp [weight]
@[simp] theorem weight_reverse (a : List Item) : weight a.reverse = weight a := by
  simp [weight]

theorem enumFrom_map_size (i : Nat) (ns : List Node) :
    ((enumFrom i ns).map (fun p => p.2.size)).sum = nodesSize ns := by
  induction ns generalizing i with
  | nil => simp [enumFrom, nodesSize]
  | cons n r ih => simp [enumFrom, nodesSize, ih]

theorem kid_edges_weight (k : Kid) : ((k.edges).map (·.1.size)).sum = k.size := by
  cases k with
  | mk name coll ns =>
    cases coll
    · simp only [Kid.edges, Kid.size, List.map_map]
      induction ns with
      | nil => simp [nodesSize]
      | cons n r ih => simp [nodesSize] at *; omega
    · simp only [Kid.edges, Kid.size, List.map_map]
      have := enumFrom_map_size 0 ns
      simpa [Function.comp_def] using this

theorem edges_weight_aux (ks : List Kid) :
    ((ks.flatMap Kid.edges).map (·.1.size)).sum = kidsSize ks := by
  induction ks with
  | nil => simp [kidsSize]
  | cons k r ih => simp [kidsSize, List.flatMap_cons, kid_edges_weight, ih]

theorem weight_items (n : Node) : weight n.items + 1 = n.size := by
  cases n with
  | mk h ks =>
    have := edges_weight_aux ks
    simp [weight, Node.items, Node.edges, Node.kids, Node.size, Function.comp_def] at *
    omega

theorem preNs_eq (par : Node) (name : Str) (i : Nat) (ns : List Node) :
    preNs P F par name true i ns =
      ((enumFrom i ns).map fun (j, n) => ((n, (⟨name, some j⟩ : Edge)) : Node × Edge)).flatMap
        (fun ce => preN P F par ce.2 ce.1) := by
  induction ns generalizing i with
  | nil => simp [preNs, enumFrom]
  | cons n r ih => simp [preNs, enumFrom, ih]

theorem preNs_eq_single (par : Node) (name : Str) (i : Nat) (ns : List Node) :
    preNs P F par name false i ns =
      (ns.map fun n => ((n, (⟨name, none⟩ : Edge)) : Node × Edge)).flatMap
        (fun ce => preN P F par ce.2 ce.1) := by
  induction ns generalizing i with
  | nil => simp [preNs]
  | cons n r ih => simp [preNs, ih]

theorem preKs_eq (par : Node) (ks : List Kid) :
    preKs P F par ks = (ks.flatMap Kid.edges).flatMap (fun ce => preN P F par ce.2 ce.1) := by
  induction ks with
  | nil => simp [preKs]
  | cons k r ih =>
    cases k with
    | mk name coll ns =>
      cases coll
      · simp [preKs, preK, Kid.edges, ih, preNs_eq_single]
      · simp [preKs, preK, Kid.edges, ih, preNs_eq]

theorem pre_eq_preItems (n : Node) : pre P F n = preItems P F n.items := by
  simp [pre, preItems, Node.items, Node.edges, preKs_eq, List.flatMap_map]

theorem postNs_eq (par : Node) (name : Str) (i : Nat) (ns : List Node) :
    postNs P F par name true i ns =
      ((enumFrom i ns).map fun (j, n) => ((n, (⟨name, some j⟩ : Edge)) : Node × Edge)).flatMap
        (fun ce => postN P F par ce.2 ce.1) := by
  induction ns generalizing i with
  | nil => simp [postNs, enumFrom]
  | cons n r ih => simp [postNs, enumFrom, ih]

theorem postNs_eq_single (par : Node) (name : Str) (i : Nat) (ns : List Node) :
    postNs P F par name false i ns =
      (ns.map fun n => ((n, (⟨name, none⟩ : Edge)) : Node × Edge)).flatMap
        (fun ce => postN P F par ce.2 ce.1) := by
  induction ns generalizing i with
  | nil => simp [postNs]
  | cons n r ih => simp [postNs, ih]

theorem postKs_eq (par : Node) (ks : List Kid) :
    postKs P F par ks = (ks.flatMap Kid.edges).flatMap (fun ce => postN P F par ce.2 ce.1) := by
  induction ks with
  | nil => simp [postKs]
  | cons k r ih =>
    cases k with
    | mk name coll ns =>
      cases coll
      · simp [postKs, postK, Kid.edges, ih, postNs_eq_single]
      · simp [postKs, postK, Kid.edges, ih, postNs_eq]

theorem post_eq_postItems (n : Node) : post P F n = postItems P F n.items := by
  simp [post, postItems, Node.items, Node.edges, postKs_eq, List.flatMap_map]

theorem preN_unfold (it : Item) :
    preN P F it.parent it.edge it.node =
      (if F it then [it] else []) ++ (if P it then [] else preItems P F it.node.items) := by
  obtain ⟨n, par, e⟩ := it
  cases n with
  | mk h ks =>
    have := pre_eq_preItems P F (.mk h ks)
    simp only [pre, Node.kids] at this
    simp [preN, this]

theorem postN_unfold (it : Item) :
    postN P F it.parent it.edge it.node =
      (if P it then [] else postItems P F it.node.items) ++ (if F it then [it] else []) := by
  obtain ⟨n, par, e⟩ := it
  cases n with
  | mk h ks =>
    have := post_eq_postItems P F (.mk h ks)
    simp only [post, Node.kids] at this
    simp [postN, this]

theorem dfsLoop_topdown (fuel : Nat) (stack queue : List Item) (h : weight stack ≤ fuel) :
    dfsLoop P F false fuel stack queue = queue ++ preItems P F stack := by
  induction fuel generalizing stack queue with
  | zero =>
    cases stack with
    | nil => simp [dfsLoop, preItems]
    | cons it st => have := it.node.size_pos; simp at h; omega
  | succ fuel ih =>
    cases stack with
    | nil => simp [dfsLoop, preItems]
    | cons it st =>
      have hp := it.node.size_pos
      have hw := weight_items it.node
      simp only [weight_cons] at h
      simp only [dfsLoop]
      have hu := preN_unfold P F it
      by_cases hP : P it <;> by_cases hF : F it <;>
        simp only [hP, hF, if_true, if_false, Bool.false_eq_true] <;>
        rw [ih _ _ (by first | omega | (simp; omega))] <;>
        simp [preItems, hu, hP, hF]

theorem dfsLoop_bottomup (fuel : Nat) (stack queue : List Item) (h : weight stack ≤ fuel) :
    dfsLoop P F true fuel stack queue = postItems P F stack.reverse ++ queue := by
  induction fuel generalizing stack queue with
  | zero =>
    cases stack with
    | nil => simp [dfsLoop, postItems]
    | cons it st => have := it.node.size_pos; simp at h; omega
  | succ fuel ih =>
    cases stack with
    | nil => simp [dfsLoop, postItems]
    | cons it st =>
      have hp := it.node.size_pos
      have hw := weight_items it.node
      simp only [weight_cons] at h
      simp only [dfsLoop]
      have hu := postN_unfold P F it
      by_cases hP : P it <;> by_cases hF : F it <;>
        simp only [hP, hF, if_true, if_false, Bool.false_eq_true] <;>
        rw [ih _ _ (by first | omega | (simp; omega))] <;>
        simp [postItems, hu, hP, hF]

/-! ### C05 theorems: depth-first -/

/-- `dfs()` is the pre-order of the proper descendants, honouring prune and filter. -/
theorem dfs_top_down (n : Node) : dfsImpl P F false n = pre P F n := by
  have hw := weight_items n
  simp only [dfsImpl]
  rw [dfsLoop_topdown P F _ _ _ (by simp; omega), pre_eq_preItems]; simp

/-- `dfs(bottom_up=True)` is the post-order of the proper descendants. -/
theorem dfs_bottom_up (n : Node) : dfsImpl P F true n = post P F n := by
  have hw := weight_items n
  simp only [dfsImpl]
  rw [dfsLoop_bottomup P F _ _ _ (by simp; omega), post_eq_postItems]; simp

/-- `gather` is the pre-order stream restricted to the class test and the extra filter. -/
theorem gather_eq (classes : List Str) (exact : Bool) (extra : Item → Bool) (n : Node) :
    gatherImpl classes exact extra P n =
      (pre P (fun it => (if exact then classes.contains it.node.cls
                         else classes.any it.node.isInst) && extra it) n).map (·.node) := by
  simp [gatherImpl, dfs_top_down]

/-! ### breadth-first -/

theorem bfsLoop_filter (fuel : Nat) (q : List Item) :
    bfsLoop P F fuel q = (bfsLoop P (fun _ => true) fuel q).filter F := by
  induction fuel generalizing q with
  | zero => simp [bfsLoop]
  | succ fuel ih =>
    cases q with
    | nil => simp [bfsLoop]
    | cons it q =>
      simp only [bfsLoop, if_true]
      by_cases hP : P it <;> by_cases hF : F it <;> simp [hP, hF, ← ih]

/-- children contributed by one queue element -/
def kidsOf (it : Item) : List Item := if P it then [] else it.node.items

theorem nextLevel_cons (it : Item) (q : List Item) :
    nextLevel P (it :: q) = kidsOf P it ++ nextLevel P q := by
  by_cases h : P it <;> simp [nextLevel, kidsOf, h, List.filter_cons]

@[simp] theorem nextLevel_nil : nextLevel P [] = [] := rfl

theorem weight_kidsOf (it : Item) : weight (kidsOf P it) + 1 ≤ it.node.size := by
  have := weight_items it.node
  by_cases h : P it <;> simp [kidsOf, h] <;> omega

theorem weight_nextLevel (q : List Item) : weight (nextLevel P q) + q.length ≤ weight q := by
  induction q with
  | nil => simp
  | cons it q ih =>
    have := weight_kidsOf P it
    rw [nextLevel_cons]; simp; omega

theorem bfsLoop_step (fuel : Nat) (it : Item) (q : List Item) :
    bfsLoop P (fun _ => true) (fuel + 1) (it :: q) =
      it :: bfsLoop P (fun _ => true) fuel (q ++ kidsOf P it) := by
  by_cases h : P it <;> simp [bfsLoop, kidsOf, h]

/-- enough fuel: the result does not depend on the amount -/
theorem bfsLoop_fuel (f1 f2 : Nat) (q : List Item) (h1 : weight q ≤ f1) (h2 : weight q ≤ f2) :
    bfsLoop P (fun _ => true) f1 q = bfsLoop P (fun _ => true) f2 q := by
  induction f1 generalizing f2 q with
  | zero =>
    cases q with
    | nil => cases f2 <;> simp [bfsLoop]
    | cons it q => have := it.node.size_pos; simp at h1; omega
  | succ f1 ih =>
    cases q with
    | nil => cases f2 <;> simp [bfsLoop]
    | cons it q =>
      have hp := it.node.size_pos
      have hk := weight_kidsOf P it
      simp only [weight_cons] at h1 h2
      cases f2 with
      | zero => omega
      | succ f2 =>
        rw [bfsLoop_step, bfsLoop_step]
        congr 1
        exact ih _ _ (by simp; omega) (by simp; omega)

/-- the fuel-free reading of the loop -/
def B (q : List Item) : List Item := bfsLoop P (fun _ => true) (weight q) q

theorem B_nil : B P [] = [] := by simp [B, bfsLoop]

theorem B_cons (it : Item) (q : List Item) : B P (it :: q) = it :: B P (q ++ kidsOf P it) := by
  have hp := it.node.size_pos
  have hk := weight_kidsOf P it
  unfold B
  obtain ⟨w, hw⟩ : ∃ w, weight (it :: q) = w + 1 := ⟨weight (it :: q) - 1, by simp; omega⟩
  rw [hw, bfsLoop_step]
  congr 1
  apply bfsLoop_fuel
  · simp at hw ⊢; omega
  · exact Nat.le_refl _

theorem B_append (q r : List Item) : B P (q ++ r) = q ++ B P (r ++ nextLevel P q) := by
  induction q generalizing r with
  | nil => simp
  | cons it q ih =>
    simp only [List.cons_append, B_cons, List.append_assoc]
    rw [ih, nextLevel_cons]; simp

theorem B_level (q : List Item) : B P q = q ++ B P (nextLevel P q) := by
  simpa using B_append P q []

/-- iterating `nextLevel` -/
def iter (q : List Item) : Nat → List Item
  | 0 => q
  | k + 1 => nextLevel P (iter q k)

theorem iter_succ' (q : List Item) (k : Nat) : iter P q (k + 1) = iter P (nextLevel P q) k := by
  induction k with
  | zero => rfl
  | succ k ih => simp only [iter] at *; rw [ih]

theorem weight_zero_nil (q : List Item) (h : weight q = 0) : q = [] := by
  cases q with
  | nil => rfl
  | cons it q => have := it.node.size_pos; simp at h; omega

theorem B_levels (k : Nat) (q : List Item) (h : weight q ≤ k) :
    B P q = (List.range (k + 1)).flatMap (iter P q) := by
  induction k generalizing q with
  | zero =>
    have := weight_zero_nil q (by omega)
    subst this; simp [B_nil, iter]
  | succ k ih =>
    cases q with
    | nil =>
      have hnil : ∀ j, iter P [] j = [] := by
        intro j; induction j with
        | zero => rfl
        | succ j ihj => simp [iter, ihj]
      simp [B_nil, hnil]
    | cons it q =>
      have hw := weight_nextLevel P (it :: q)
      have hr : List.range (k + 1 + 1) = 0 :: (List.range (k + 1)).map Nat.succ :=
        List.range_succ_eq_map
      have h0 : iter P (it :: q) 0 = it :: q := rfl
      have hs : (fun a => iter P (it :: q) (Nat.succ a)) = iter P (nextLevel P (it :: q)) := by
        funext a; exact iter_succ' P _ a
      rw [B_level, ih _ (by simp at hw h ⊢; omega), hr, List.flatMap_cons, List.flatMap_map, h0]
      simp only [Function.comp_def, hs]

theorem level_eq_iter (n : Node) (k : Nat) : level P n k = iter P n.items k := by
  induction k with
  | zero => rfl
  | succ k ih => simp [level, iter, ih]

/-- `bfs()` yields the levels one after the other (each level in the order induced by the
previous one), skipping the children of pruned positions, and filtered. -/
theorem bfs_levels (n : Node) : bfsImpl P F n = bfs P F n := by
  have hw := weight_items n
  have hn := n.size_pos
  unfold bfsImpl bfs
  rw [bfsLoop_filter]
  have h1 : bfsLoop P (fun _ => true) n.size n.items = B P n.items :=
    bfsLoop_fuel P _ _ _ (by omega) (Nat.le_refl _)
  rw [h1, B_levels P (n.size - 1) n.items (by omega)]
  have : n.size - 1 + 1 = n.size := by omega
  rw [this]
  congr 1
  have : (fun k => iter P n.items k) = level P n := by
    funext k; exact (level_eq_iter P n k).symm
  rw [← this]

/-! ### position soundness, start node never yielded, exactly-once -/

/-- Every yielded `(node, parent, field, index)` is a real storage position of the parent:
`parent.field` (at `index` for tuples, index `None` otherwise) is that very node. -/
theorem preItems_sound (its : List Item) (hin : ∀ it ∈ its, (it.node, it.edge) ∈ it.parent.edges)
    (x : Item) (hx : x ∈ preItems P F its) : (x.node, x.edge) ∈ x.parent.edges := by
  -- induction on the total weight
  generalize hk : weight its = k at *
  induction k using Nat.strongRecOn generalizing its with
  | _ k ih =>
    cases its with
    | nil => simp [preItems] at hx
    | cons it st =>
      simp only [preItems, List.flatMap_cons, List.mem_append] at hx
      have hp := it.node.size_pos
      have hwi := weight_items it.node
      simp only [weight_cons] at hk
      rcases hx with hx | hx
      · rw [preN_unfold] at hx
        simp only [List.mem_append] at hx
        rcases hx with hx | hx
        · by_cases hF : F it
          · simp [hF] at hx; subst hx; exact hin _ (by simp)
          · simp [hF] at hx
        · by_cases hP : P it
          · simp [hP] at hx
          · simp only [hP] at hx
            refine ih (weight it.node.items) (by omega) it.node.items ?_ hx rfl
            intro c hc
            simp only [Node.items, List.mem_map] at hc
            obtain ⟨⟨c', e'⟩, hce, rfl⟩ := hc
            exact hce
      · exact ih (weight st) (by omega) st (fun i hi => hin i (by simp [hi])) hx rfl

theorem items_sound (n : Node) : ∀ it ∈ n.items, (it.node, it.edge) ∈ it.parent.edges := by
  intro it hit
  simp only [Node.items, List.mem_map] at hit
  obtain ⟨⟨c, e⟩, hce, rfl⟩ := hit
  exact hce

/-- position soundness of `dfs()` for every prune / filter -/
theorem dfs_yield_sound (n : Node) (x : Item) (hx : x ∈ dfsImpl P F false n) :
    (x.node, x.edge) ∈ x.parent.edges := by
  rw [dfs_top_down, pre_eq_preItems] at hx
  exact preItems_sound P F _ (items_sound n) x hx

/-- every yielded node is strictly smaller than the start node: the start node is never yielded -/
theorem preItems_smaller (its : List Item) (x : Item) (hx : x ∈ preItems P F its) :
    x.node.size ≤ weight its := by
  generalize hk : weight its = k at *
  induction k using Nat.strongRecOn generalizing its with
  | _ k ih =>
    cases its with
    | nil => simp [preItems] at hx
    | cons it st =>
      simp only [preItems, List.flatMap_cons, List.mem_append] at hx
      have hp := it.node.size_pos
      have hwi := weight_items it.node
      simp only [weight_cons] at hk
      rcases hx with hx | hx
      · rw [preN_unfold] at hx
        simp only [List.mem_append] at hx
        rcases hx with hx | hx
        · by_cases hF : F it
          · simp [hF] at hx; subst hx; omega
          · simp [hF] at hx
        · by_cases hP : P it
          · simp [hP] at hx
          · simp only [hP] at hx
            have := ih (weight it.node.items) (by omega) it.node.items hx rfl
            omega
      · have := ih (weight st) (by omega) st hx rfl
        omega

theorem dfs_never_yields_start (n : Node) (x : Item) (hx : x ∈ dfsImpl P F false n) :
    x.node.size < n.size := by
  rw [dfs_top_down, pre_eq_preItems] at hx
  have := preItems_smaller P F _ x hx
  have := weight_items n
  omega

/-- without prune and filter every proper-descendant position is yielded exactly once:
the stream has exactly `size - 1` elements (together with soundness and order this is the
"exactly once" clause) -/
theorem preItems_length (its : List Item) :
    (preItems (fun _ => false) (fun _ => true) its).length = weight its := by
  generalize hk : weight its = k at *
  induction k using Nat.strongRecOn generalizing its with
  | _ k ih =>
    cases its with
    | nil => simp [preItems] at *; omega
    | cons it st =>
      have hp := it.node.size_pos
      have hwi := weight_items it.node
      simp only [weight_cons] at hk
      simp only [preItems, List.flatMap_cons, List.length_append]
      rw [preN_unfold]
      have h1 := ih (weight it.node.items) (by omega) it.node.items rfl
      have h2 := ih (weight st) (by omega) st rfl
      simp only [preItems] at h1 h2
      simp [h1, h2, preItems]; omega

theorem dfs_all_positions (n : Node) :
    (dfsImpl (fun _ => false) (fun _ => true) false n).length + 1 = n.size := by
  rw [dfs_top_down, pre_eq_preItems, preItems_length]
  exact weight_items n

/-- post-order is a permutation-free re-ordering of the same positions: same length -/
theorem postItems_length (its : List Item) :
    (postItems (fun _ => false) (fun _ => true) its).length = weight its := by
  generalize hk : weight its = k at *
  induction k using Nat.strongRecOn generalizing its with
  | _ k ih =>
    cases its with
    | nil => simp [postItems] at *; omega
    | cons it st =>
      have hp := it.node.size_pos
      have hwi := weight_items it.node
      simp only [weight_cons] at hk
      simp only [postItems, List.flatMap_cons, List.length_append]
      rw [postN_unfold]
      have h1 := ih (weight it.node.items) (by omega) it.node.items rfl
      have h2 := ih (weight st) (by omega) st rfl
      simp only [postItems] at h1 h2
      simp [h1, h2, postItems]; omega

/-! ### non-vacuity: a concrete tree with a tuple, a single child and a pruned position -/

private def leaf (u : Nat) : Node := .mk { uid := u, cls := ['L'], mro := [['L']], org := ⟨0, []⟩, props := [], truthy := true } []
private def tree : Node :=
  .mk { uid := 0, cls := ['R'], mro := [['R']], org := ⟨0, []⟩, props := [], truthy := true }
    [.mk ['a'] true [leaf 1, .mk { uid := 2, cls := ['M'], mro := [['M']], org := ⟨0, []⟩, props := [], truthy := false }
                                  [.mk ['x'] false [leaf 3]]],
     .mk ['b'] false [leaf 4]]

example : (dfsImpl (fun _ => false) (fun _ => true) false tree).map (·.node.uid) = [1, 2, 3, 4] := by decide
example : (dfsImpl (fun _ => false) (fun _ => true) true tree).map (·.node.uid) = [1, 3, 2, 4] := by decide
example : (dfsImpl (fun it => it.node.uid == 2) (fun _ => true) false tree).map (·.node.uid) = [1, 2, 4] := by decide
example : (bfsImpl (fun _ => false) (fun _ => true) tree).map (·.node.uid) = [1, 2, 4, 3] := by decide

end C05
end PyOak
