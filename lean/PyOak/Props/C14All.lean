/- C14: all property theorems (the audited module of harness/props/c14.py) -/
import PyOak.Props.C14
import PyOak.Props.C14Extra
