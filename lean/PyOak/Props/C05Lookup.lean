/-
C05, position soundness in LOOKUP form, and the bridge to the well-formedness predicate.

`C05.dfs_yield_sound` states `(x.node, x.edge) ∈ x.parent.edges`, where `Node.edges` is the
model's own enumerator.  Here the enumerator is tied to an independent reading
(`Trav.Stored`, Spec/Traverse.lean): look the field up BY NAME among the parent's child fields;
for a tuple field the stored list has `nodes[index]? = some node`; for a single field
`index = None` and the stored node is `node`.

* `mem_edges_iff_stored` : in a node whose child-field names are pairwise distinct and whose single
  fields hold at most one node (`C06X.NodeFieldsOK`, a consequence of `WFN`), the enumerator yields
  `(c, e)` iff `Stored p e c`;
* `dfs_yield_lookup`, `bfs_yield_lookup`, `gather_yield_lookup` : every yielded
  `(node, parent, field, index)` — both directions of `dfs`, `bfs`, `gather`; any prune, any
  filter; shared objects allowed — satisfies `Stored parent ⟨field, index⟩ node`;
* `stored_getField` : the same through the model's `getattr` (`PM.getField`, exercised by C08);
* `kidsOK_iff`, `wellKeyed_of_fieldsOK`, `wellKeyed_of_wfn` : the hypotheses `C05X.KidsOK` /
  `C05X.WellKeyed` of the exactly-once theorems follow from `C06X.FieldsOK` / `WFN`;
* `path_iff_trail` : the trails of Spec/Traverse.lean are the downward paths `C07.Path`.
-/
import PyOak.Props.C05Paths
import PyOak.Props.C05Depth
import PyOak.Props.C06Xpath
import PyOak.Model.Pattern
namespace PyOak
namespace C05L
open C05 C05X C05T Trav

/-! ### lookup by name inside one node -/

theorem find_by_name (ks : List Kid) (hnd : (ks.map Kid.name).Nodup) (k : Kid) (hk : k ∈ ks) :
    ks.find? (fun k' => k'.name == k.name) = some k := by
  induction ks with
  | nil => simp at hk
  | cons x r ih =>
    simp only [List.map_cons, List.nodup_cons] at hnd
    rcases List.mem_cons.mp hk with rfl | hk'
    · simp
    · have hne : x.name ≠ k.name := by
        intro h; exact hnd.1 (h ▸ List.mem_map_of_mem hk')
      rw [List.find?_cons]
      have : (x.name == k.name) = false := by simpa using hne
      rw [this]
      exact ih hnd.2 hk'

theorem enumFrom_mem_of_get {α : Type} (l : List α) (k j : Nat) (a : α) (h : l[j]? = some a) :
    (k + j, a) ∈ enumFrom k l := by
  induction l generalizing k j with
  | nil => simp at h
  | cons x r ih =>
    cases j with
    | zero => simp at h; subst h; simp [enumFrom]
    | succ j =>
      simp only [List.getElem?_cons_succ] at h
      have := ih (k + 1) j h
      simp only [enumFrom, List.mem_cons]
      right
      have e : k + (j + 1) = k + 1 + j := by omega
      rw [e]; exact this

/-- the enumerator is sound for the lookup reading -/
theorem stored_of_mem_edges (p : Node) (hp : C06X.NodeFieldsOK p) (c : Node) (e : Edge)
    (h : (c, e) ∈ p.edges) : Stored p e c := by
  simp only [Node.edges, List.mem_flatMap] at h
  obtain ⟨k, hk, h⟩ := h
  obtain ⟨hf, hm, hc, hs⟩ := C06X.mem_kid_edges k c e h
  refine ⟨k, ?_, hc, ?_⟩
  · unfold childField?
    rw [hf]; exact find_by_name p.kids hp.nodup k hk
  · intro hcoll
    refine ⟨hs hcoll, ?_⟩
    have hl := hp.single k hk hcoll
    match hns : k.nodes, hm, hl with
    | [], hm, _ => simp at hm
    | [a], hm, _ => simp only [List.mem_singleton] at hm; rw [hm]
    | _ :: _ :: _, _, hl => simp at hl

/-- the enumerator is complete for the lookup reading (no hypothesis) -/
theorem mem_edges_of_stored (p : Node) (c : Node) (e : Edge) (h : Stored p e c) : (c, e) ∈ p.edges := by
  obtain ⟨k, hk, hc, hs⟩ := h
  unfold childField? at hk
  have hmem := List.mem_of_find?_eq_some hk
  have hname : k.name = e.field := by simpa using List.find?_some hk
  simp only [Node.edges, List.mem_flatMap]
  refine ⟨k, hmem, ?_⟩
  obtain ⟨ef, ei⟩ := e
  cases k with
  | mk name coll ns =>
    simp only [Kid.name] at hname
    subst hname
    cases coll with
    | true =>
      obtain ⟨i, hi, hg⟩ := hc rfl
      simp only at hi; subst hi
      simp only [Kid.edges, List.mem_map, Prod.mk.injEq]
      refine ⟨(i, c), ?_, rfl, rfl⟩
      have := enumFrom_mem_of_get ns 0 i c hg
      simpa using this
    | false =>
      obtain ⟨hi, hn⟩ := hs rfl
      simp only at hi; subst hi
      simp only [Kid.nodes] at hn
      subst hn
      simp [Kid.edges]

/-- **enumerator = lookup by name** in a node that is consistent with its class table -/
theorem mem_edges_iff_stored (p : Node) (hp : C06X.NodeFieldsOK p) (c : Node) (e : Edge) :
    (c, e) ∈ p.edges ↔ Stored p e c :=
  ⟨stored_of_mem_edges p hp c e, mem_edges_of_stored p c e⟩

/-! ### every yielded position is a lookup position -/

theorem mem_desc_of_dfs (P F : Item → Bool) (b : Bool) (n : Node) (x : Item)
    (hx : x ∈ dfsImpl P F b n) : x ∈ desc n := by
  have hr := ((mem_dfsImpl_iff P F b n x).mp hx).1
  have := reach_antitone (fun _ => false) P (by simp) hr
  exact (mem_pre_iff _ _ n x).mpr ⟨this, rfl⟩

theorem mem_desc_of_bfs (P F : Item → Bool) (n : Node) (x : Item)
    (hx : x ∈ bfsImpl P F n) : x ∈ desc n := by
  have hr := ((mem_bfsImpl_iff P F n x).mp hx).1
  have := reach_antitone (fun _ => false) P (by simp) hr
  exact (mem_pre_iff _ _ n x).mpr ⟨this, rfl⟩

theorem desc_lookup (n : Node) (hF : C06X.FieldsOK n) (x : Item) (hx : x ∈ desc n) :
    Stored x.parent x.edge x.node :=
  stored_of_mem_edges x.parent (hF _ (desc_parent_mem n x hx)) _ _ (pre_sound _ _ n x hx)

/-- **position soundness of `dfs`, lookup form** (both directions, any prune and filter, shared
objects allowed): looking `field` up by name in `parent` gives, for a tuple field, a list with
`nodes[index]? = some node`, and for a single field `index = None` and the stored node is `node` -/
theorem dfs_yield_lookup (P F : Item → Bool) (b : Bool) (n : Node) (hF : C06X.FieldsOK n)
    (x : Item) (hx : x ∈ dfsImpl P F b n) : Stored x.parent x.edge x.node :=
  desc_lookup n hF x (mem_desc_of_dfs P F b n x hx)

/-- … of `bfs` -/
theorem bfs_yield_lookup (P F : Item → Bool) (n : Node) (hF : C06X.FieldsOK n)
    (x : Item) (hx : x ∈ bfsImpl P F n) : Stored x.parent x.edge x.node :=
  desc_lookup n hF x (mem_desc_of_bfs P F n x hx)

/-- … of `gather`: every gathered node is the content of a storage position of a node of the
tree, it passes the class test and the extra filter -/
theorem gather_yield_lookup (classes : List Str) (exact : Bool) (extra P : Item → Bool) (n : Node)
    (hF : C06X.FieldsOK n) (m : Node) (hm : m ∈ gatherImpl classes exact extra P n) :
    ∃ x : Item, x.node = m ∧ x.parent ∈ allNodes n ∧ Stored x.parent x.edge m ∧
      ClassOK classes exact m ∧ extra x = true := by
  rw [gather_spec] at hm
  obtain ⟨x, hx, rfl⟩ := List.mem_map.mp hm
  obtain ⟨hx, ht⟩ := List.mem_filter.mp hx
  simp only [Bool.and_eq_true, decide_eq_true_eq] at ht
  have hd := mem_desc_of_dfs P _ false n x hx
  exact ⟨x, rfl, desc_parent_mem n x hd, desc_lookup n hF x hd, ht.1, ht.2⟩

/-- the same from the well-formedness predicate used by C01 / C04 / C06 -/
theorem yield_lookup_wfn (P F : Item → Bool) (n : Node) (h : WFN n) (x : Item) (b : Bool)
    (hx : x ∈ dfsImpl P F b n ∨ x ∈ bfsImpl P F n) : Stored x.parent x.edge x.node := by
  rcases hx with hx | hx
  · exact dfs_yield_lookup P F b n (C06X.fieldsOK_of_wfn n h) x hx
  · exact bfs_yield_lookup P F n (C06X.fieldsOK_of_wfn n h) x hx

/-- the lookup read through the model's `getattr` (`PM.getField`, the function the pattern matcher
uses), when no property of the parent has the name of the child field: a tuple field reads as the
tuple of its nodes with `node` at `index`, a single field reads as `node` itself -/
theorem stored_getField (p c : Node) (e : Edge) (h : Stored p e c)
    (hprops : ∀ pr ∈ p.hd.props, pr.name ≠ e.field) :
    (∀ i, e.idx = some i → ∃ ns : List Node,
        PM.getField p e.field = some (.tup (ns.map .node)) ∧ ns[i]? = some c) ∧
    (e.idx = none → PM.getField p e.field = some (.node c)) := by
  obtain ⟨k, hk, hc, hs⟩ := h
  have hnone : p.hd.props.find? (fun pr => pr.name == e.field) = none := by
    rw [List.find?_eq_none]
    intro pr hpr
    simpa using hprops pr hpr
  unfold childField? at hk
  unfold PM.getField
  rw [hnone]
  simp only [hk]
  cases hcoll : k.coll with
  | true =>
    obtain ⟨i, hi, hg⟩ := hc hcoll
    refine ⟨?_, ?_⟩
    · intro j hj
      rw [hi] at hj
      cases hj
      exact ⟨k.nodes, by simp, hg⟩
    · intro hn; rw [hi] at hn; cases hn
  | false =>
    obtain ⟨hi, hn⟩ := hs hcoll
    refine ⟨?_, ?_⟩
    · intro j hj; rw [hi] at hj; cases hj
    · intro _; simp [hn]

/-! ### the hypotheses of the exactly-once theorems follow from well-formedness -/

/-- the two copies of "class-table consistency of one node" agree -/
theorem kidsOK_iff (n : Node) : KidsOK n ↔ C06X.NodeFieldsOK n :=
  ⟨fun h => ⟨h.nodup, h.single⟩, fun h => ⟨h.nodup, h.single⟩⟩

theorem wellKeyed_of_fieldsOK (n : Node) (h : C06X.FieldsOK n) : WellKeyed n :=
  wellKeyed_of_kidsOK n (fun m hm => (kidsOK_iff m).mpr (h m hm))

/-- `WFN` (names identifier-like and pairwise distinct, single fields hold at most one node,
recursively) gives the `WellKeyed` hypothesis of `C05X.dfsImpl_keys_nodup`,
`C05X.pruned_descendants_not_visited_impl`, `C05P.dfs_enumerates_paths` -/
theorem wellKeyed_of_wfn (n : Node) (h : WFN n) : WellKeyed n :=
  wellKeyed_of_fieldsOK n (C06X.fieldsOK_of_wfn n h)

/-- exactly once, with sharing, from `WFN` -/
theorem dfs_enumerates_paths_wfn (n : Node) (h : WFN n) :
    ∃ ts : List (List Item),
      ts.map trailEnd = dfsImpl (fun _ => false) (fun _ => true) false n ∧
      (∀ t ∈ ts, t ≠ [] ∧ IsTrail n t) ∧
      (ts.map pathOf).Nodup ∧
      (ts.map pathOf).Pairwise (PathLt n) ∧
      (∀ p, p ∈ ts.map pathOf ↔ p ≠ [] ∧ ValidPath n p) ∧
      (ts.map pathOf).length + 1 = n.size :=
  C05P.dfs_enumerates_paths n (wellKeyed_of_wfn n h)

/-! ### trails are the downward paths of C07 -/

theorem path_iff_trail (n : Node) (c : Chain) :
    C07.Path n c ↔ ∃ t, IsTrail n t ∧ c = t.map (fun it => (it.node, some it.edge)) := by
  induction c generalizing n with
  | nil =>
    constructor
    · intro _; exact ⟨[], trivial, rfl⟩
    · intro _; trivial
  | cons a r ih =>
    obtain ⟨m, oe⟩ := a
    simp only [C07.Path]
    constructor
    · rintro ⟨⟨e, rfl, hm⟩, hr⟩
      obtain ⟨t, ht, rfl⟩ := (ih m).mp hr
      exact ⟨⟨m, n, e⟩ :: t, ⟨(C05P.mem_items_iff n _).mpr ⟨rfl, hm⟩, ht⟩, rfl⟩
    · rintro ⟨t, ht, he⟩
      cases t with
      | nil => simp at he
      | cons x t' =>
        simp only [List.map_cons, List.cons.injEq, Prod.mk.injEq] at he
        obtain ⟨⟨rfl, rfl⟩, rfl⟩ := he
        exact ⟨⟨x.edge, rfl, ((C05P.mem_items_iff n x).mp ht.1).2⟩, (ih x.node).mpr ⟨t', ht.2, rfl⟩⟩

/-! ### non-vacuity -/

private def nd (u : Nat) (c : Str) (ks : List Kid) : Node :=
  .mk { uid := u, cls := c, mro := [c], org := ⟨0, []⟩, props := [], truthy := true } ks
private def leaf (u : Nat) : Node := nd u ['L'] []
private def mid : Node := nd 2 ['M'] [.mk ['x'] false [leaf 3], .mk ['y'] true [leaf 5, leaf 6]]
private def tree : Node := nd 0 ['R'] [.mk ['a'] true [mid, mid], .mk ['b'] false [leaf 4]]

private theorem tree_wf : WFN tree := by
  simp [tree, mid, leaf, nd, WFN, WFKids, WFKid, WFNodes, kidNames, kidName, nodesLen, IdentLike]
  decide

/-- a tuple position and a single position, by lookup -/
example : Stored tree ⟨['a'], some 1⟩ mid :=
  ⟨.mk ['a'] true [mid, mid], rfl, fun _ => ⟨1, rfl, rfl⟩, fun h => by cases h⟩
example : Stored mid ⟨['x'], none⟩ (leaf 3) :=
  ⟨.mk ['x'] false [leaf 3], rfl, (fun h => by cases h), fun _ => ⟨rfl, rfl⟩⟩
/-- `NodeFieldsOK` is needed: with a duplicated field name the lookup finds the first field -/
private def dup : Node := nd 0 ['R'] [.mk ['a'] false [leaf 1], .mk ['a'] false [leaf 2]]
example : (leaf 2, (⟨['a'], none⟩ : Edge)) ∈ dup.edges := List.Mem.tail _ (List.Mem.head _)
example : ¬ Stored dup ⟨['a'], none⟩ (leaf 2) := by
  rintro ⟨k, hk, _, hs⟩
  have : k = .mk ['a'] false [leaf 1] := by
    have h : childField? dup ['a'] = some (.mk ['a'] false [leaf 1]) := rfl
    rw [h] at hk; exact (Option.some.inj hk).symm
  subst this
  have := (hs rfl).2
  simp only [Kid.nodes, List.cons.injEq, and_true] at this
  have h2 := congrArg Node.uid this
  revert h2; decide

#print axioms mem_edges_iff_stored
#print axioms dfs_yield_lookup
#print axioms bfs_yield_lookup
#print axioms gather_yield_lookup
#print axioms yield_lookup_wfn
#print axioms stored_getField
#print axioms kidsOK_iff
#print axioms wellKeyed_of_fieldsOK
#print axioms wellKeyed_of_wfn
#print axioms dfs_enumerates_paths_wfn
#print axioms path_iff_trail

end C05L
end PyOak
