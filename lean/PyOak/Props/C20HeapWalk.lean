/-
C20 — the legacy TRAVERSALS and `calculate_xpath` AS THEY RUN ON THE HEAP (Model/LegacyHeapWalk.lean: deques of
object references, `get_child_nodes()` read from the object's child fields, callbacks on objects; `_set_xpath`
reading the node's own `parent_field` / `parent_index`) agree with the tree-level models (Model/LegacyTraverse.lean,
the functions the `ldfs` / `lbfs` / `lgather` / `lcalc` correspondence exercises) and with the SUCCESSOR's
`dfsImpl` / `bfsImpl` / `gatherImpl` / `Tree.get_xpath` on the tree the heap represents — for every state satisfying
the C18 invariant whose child graph is acyclic, from every attached start node.

  ldfsLoop_fuel / lbfsLoop_fuel   the tree-level loops do not depend on the fuel beyond `size + 1`
  hdfsLoop_sim / hbfsLoop_sim     the heap loops are the tree loops, step by step (callbacks related by
                                  `P (treeOf s x) = p x`)
  heap_dfs / heap_bfs / heap_gather
        **target 3**: `node.dfs(…)` / `bfs` / `gather` on the heap, mapped through `treeOf`, is the legacy tree-level
        walk of `treeOf s u`; as object identities it is that walk's `uid`s; the model's fuel suffices
  heap_dfs_successor / heap_bfs_successor / heap_gather_successor
        with `skip_self` the yielded objects are exactly the nodes of the successor's `dfs` / `bfs` / `gather`
        positions on `treeOf s u`; without it the start node is added (offered to filter and prune) — in the
        order given by C05 (`ldfs_top_down`, `ldfs_bottom_up`, `lbfs_levels`)
  heap_items_agree
        every position `(node, parent, field, index)` the successor's walks yield on `treeOf s u` — under ANY prune
        and filter — is what the heap's own parent pointers say: `node.parent` is that parent object, the node's
        `parent_field` / `parent_index` slots are that field and index
  heap_calc_xpath / heap_calc_eq_get_xpath
        **target 4**: `root.calculate_xpath()` on the heap makes exactly the assignments of the tree-level
        `calcXpath (treeOf s root)` (to the same objects, in the same order), and every text assigned to an object
        `x` is what the successor's `Tree(treeOf s root).get_xpath(treeOf s x)` returns; a node that is not an
        attached root is refused
-/
import PyOak.Model.LegacyHeapWalk
import PyOak.Props.C20Heap
import PyOak.Props.C20Text
import PyOak.Props.C05Extra
namespace PyOak
namespace C20
open Legacy Legacy.C18 LState

section Fuel
variable (P F : Node → Bool)

/-- the legacy loop (start not skipped any more) in closed form, for any sufficient fuel -/
theorem ldfsLoop_closed (bu : Bool) (fuel : Nat) (stack : List Item) (h : C05.weight stack ≤ fuel) :
    ldfsLoop P F bu fuel false (stack.map (·.node)) [] =
      (if bu then C05.postItems (onItem P) (onItem F) stack.reverse
       else C05.preItems (onItem P) (onItem F) stack).map (·.node) := by
  have := ldfsLoop_sim P F bu fuel stack []
  simp only [List.map_nil] at this
  rw [this]
  cases bu
  · rw [C05.dfsLoop_topdown _ _ _ _ _ h]; simp
  · rw [C05.dfsLoop_bottomup _ _ _ _ _ h]; simp

/-- **fuel**: more fuel than `size + 1` does not change `dfs` -/
theorem ldfsLoop_fuel (bu skip : Bool) (n : Node) (fuel : Nat) (h : n.size + 1 ≤ fuel) :
    ldfsLoop P F bu fuel skip [n] [] = ldfsImpl P F bu skip n := by
  have hw := C05.weight_items n
  have key : ∀ k, n.size ≤ k → ldfsLoop P F bu (k + 1) skip [n] [] = ldfsLoop P F bu (n.size + 1) skip [n] [] := by
    intro k hk
    cases skip
    · have e : [n] = ([⟨n, n, default⟩] : List Item).map (·.node) := rfl
      rw [e, ldfsLoop_closed P F bu (k + 1) _ (by simp; omega), ldfsLoop_closed P F bu (n.size + 1) _ (by simp)]
    · simp only [ldfsLoop, if_true, List.append_nil]
      rw [children_eq]
      have e : (if bu = true then (n.items.map (·.node)).reverse else n.items.map (·.node)) =
          (if bu then n.items.reverse else n.items).map (·.node) := by cases bu <;> simp
      rw [e, ldfsLoop_closed P F bu k _ (by cases bu <;> simp <;> omega),
        ldfsLoop_closed P F bu n.size _ (by cases bu <;> simp <;> omega)]
  obtain ⟨k, rfl⟩ : ∃ k, fuel = k + 1 := ⟨fuel - 1, by omega⟩
  exact key k (by omega)

theorem lbfsLoop_fuel_gen (f1 f2 : Nat) (q : List Item) (h1 : C05.weight q ≤ f1) (h2 : C05.weight q ≤ f2) :
    lbfsLoop P F f1 false (q.map (·.node)) = lbfsLoop P F f2 false (q.map (·.node)) := by
  rw [lbfsLoop_sim, lbfsLoop_sim, C05.bfsLoop_filter, C05.bfsLoop_filter (fuel := f2),
    C05.bfsLoop_fuel _ f1 f2 q h1 h2]

/-- **fuel**: more fuel than `size + 1` does not change `bfs` -/
theorem lbfsLoop_fuel (skip : Bool) (n : Node) (fuel : Nat) (h : n.size + 1 ≤ fuel) :
    lbfsLoop P F fuel skip [n] = lbfsImpl P F skip n := by
  have hw := C05.weight_items n
  obtain ⟨k, rfl⟩ : ∃ k, fuel = k + 1 := ⟨fuel - 1, by omega⟩
  unfold lbfsImpl
  cases skip
  · have e : [n] = ([⟨n, n, default⟩] : List Item).map (·.node) := rfl
    rw [e]
    exact lbfsLoop_fuel_gen P F _ _ _ (by simp; omega) (by simp)
  · simp only [lbfsLoop, if_true, List.nil_append]
    rw [children_eq]
    exact lbfsLoop_fuel_gen P F _ _ _ (by omega) (by omega)

end Fuel

/-! ### the heap loops are the tree loops -/

section Sim
variable {s : LState} (hR : Ranked s) (hC : Closed s)
variable (P F : Node → Bool) (p f : Nat → Bool)

include hR hC in
theorem hdfsLoop_sim (hP : ∀ x, P (treeOf s x) = p x) (hF : ∀ x, F (treeOf s x) = f x) (bu : Bool) :
    ∀ (fuel : Nat) (skip : Bool) (build queue : List Nat), (∀ x ∈ build, x < s.size) →
      ldfsLoop P F bu fuel skip (build.map (treeOf s)) (queue.map (treeOf s)) =
        (hdfsLoop s p f bu fuel skip build queue).map (treeOf s) := by
  intro fuel
  induction fuel with
  | zero => intro skip build queue _; rfl
  | succ fuel ih =>
    intro skip build queue hb
    cases build with
    | nil => rfl
    | cons child build =>
      have hcs : child < s.size := hb child (List.mem_cons_self ..)
      have hb' : ∀ x ∈ build, x < s.size := fun x hx => hb x (List.mem_cons_of_mem _ hx)
      have hk : ∀ x ∈ (if bu = true then (s.obj child).kidList.reverse else (s.obj child).kidList) ++ build,
          x < s.size := by
        intro x hx
        rcases List.mem_append.mp hx with h | h
        · exact hC child hcs x (by cases bu <;> simpa using h)
        · exact hb' x h
      have e1 : (if bu = true then ((s.obj child).kidList.map (treeOf s)).reverse else (s.obj child).kidList.map (treeOf s))
          ++ build.map (treeOf s) =
          ((if bu = true then (s.obj child).kidList.reverse else (s.obj child).kidList) ++ build).map (treeOf s) := by
        cases bu <;> simp
      have q1 : treeOf s child :: queue.map (treeOf s) = (child :: queue).map (treeOf s) := rfl
      have q2 : queue.map (treeOf s) ++ [treeOf s child] = (queue ++ [child]).map (treeOf s) := by simp
      simp only [List.map_cons, ldfsLoop, hdfsLoop, treeOf_children hR hC hcs, hP, hF, e1]
      cases skip
      · by_cases h1 : p child <;> by_cases h2 : f child <;> cases bu <;>
          simp only [h1, h2, if_true, if_false, Bool.false_eq_true, q1, q2] <;>
          first | exact ih _ _ _ hb' | exact ih _ _ _ hk
      · simp only [if_true]
        exact ih _ _ _ hk

include hR hC in
theorem hbfsLoop_sim (hP : ∀ x, P (treeOf s x) = p x) (hF : ∀ x, F (treeOf s x) = f x) :
    ∀ (fuel : Nat) (skip : Bool) (queue : List Nat), (∀ x ∈ queue, x < s.size) →
      lbfsLoop P F fuel skip (queue.map (treeOf s)) = (hbfsLoop s p f fuel skip queue).map (treeOf s) := by
  intro fuel
  induction fuel with
  | zero => intro skip queue _; rfl
  | succ fuel ih =>
    intro skip queue hb
    cases queue with
    | nil => rfl
    | cons child queue =>
      have hcs : child < s.size := hb child (List.mem_cons_self ..)
      have hb' : ∀ x ∈ queue, x < s.size := fun x hx => hb x (List.mem_cons_of_mem _ hx)
      have hk : ∀ x ∈ queue ++ (s.obj child).kidList, x < s.size := by
        intro x hx
        rcases List.mem_append.mp hx with h | h
        · exact hb' x h
        · exact hC child hcs x h
      have e1 : queue.map (treeOf s) ++ (s.obj child).kidList.map (treeOf s) =
          (queue ++ (s.obj child).kidList).map (treeOf s) := by simp
      simp only [List.map_cons, lbfsLoop, hbfsLoop, treeOf_children hR hC hcs, hP, hF, e1]
      cases skip
      · by_cases h1 : p child <;> by_cases h2 : f child <;>
          simp only [h1, h2, if_true, if_false, Bool.false_eq_true, List.map_cons, ih _ _ hb', ih _ _ hk]
      · simp only [if_true]
        exact ih _ _ hk

end Sim

theorem map_uid_treeOf (s : LState) (l : List Nat) : (l.map (treeOf s)).map (·.uid) = l := by
  simp [List.map_map, Function.comp_def]

variable (Hc : Str → Str)

/-! ### target 3: `dfs` / `bfs` / `gather` -/

/-- legacy `dfs` on the heap from ANY existing object of an acyclic heap whose represented tree fits the model's fuel
(`fuelOf s = size + 1` pops; always true below an attached node: `treeOf_size_le`) -/
theorem heap_dfs_of_size {s : LState} (hR : Ranked s) (hC : Closed s) {u : Nat} (hus : u < s.size)
    (hsz : (treeOf s u).size ≤ s.size)
    (P F : Node → Bool) (p f : Nat → Bool) (hP : ∀ x, P (treeOf s x) = p x) (hF : ∀ x, F (treeOf s x) = f x)
    (bu skip : Bool) :
    (hdfsImpl s p f bu skip u).map (treeOf s) = ldfsImpl P F bu skip (treeOf s u) ∧
    hdfsImpl s p f bu skip u = (ldfsImpl P F bu skip (treeOf s u)).map (·.uid) := by
  have h1 : (hdfsImpl s p f bu skip u).map (treeOf s) = ldfsImpl P F bu skip (treeOf s u) := by
    unfold hdfsImpl
    have := hdfsLoop_sim hR hC P F p f hP hF bu (fuelOf s) skip [u] []
      (fun x hx => by simp at hx; subst hx; exact hus)
    rw [← this]
    exact ldfsLoop_fuel P F bu skip (treeOf s u) (fuelOf s) (by unfold fuelOf; omega)
  exact ⟨h1, by rw [← h1, map_uid_treeOf]⟩

theorem heap_bfs_of_size {s : LState} (hR : Ranked s) (hC : Closed s) {u : Nat} (hus : u < s.size)
    (hsz : (treeOf s u).size ≤ s.size)
    (P F : Node → Bool) (p f : Nat → Bool) (hP : ∀ x, P (treeOf s x) = p x) (hF : ∀ x, F (treeOf s x) = f x)
    (skip : Bool) :
    (hbfsImpl s p f skip u).map (treeOf s) = lbfsImpl P F skip (treeOf s u) ∧
    hbfsImpl s p f skip u = (lbfsImpl P F skip (treeOf s u)).map (·.uid) := by
  have h1 : (hbfsImpl s p f skip u).map (treeOf s) = lbfsImpl P F skip (treeOf s u) := by
    unfold hbfsImpl
    have := hbfsLoop_sim hR hC P F p f hP hF (fuelOf s) skip [u]
      (fun x hx => by simp at hx; subst hx; exact hus)
    rw [← this]
    exact lbfsLoop_fuel P F skip (treeOf s u) (fuelOf s) (by unfold fuelOf; omega)
  exact ⟨h1, by rw [← h1, map_uid_treeOf]⟩

/-- **legacy `dfs` on the heap** from an attached node = the legacy tree-level `dfs` of the represented tree, object
by object (callbacks: `P` on tree nodes and `p` on objects answer alike) -/
theorem heap_dfs {s : LState} (hI : Inv Hc s) (hR : Ranked s) {u : Nat} (hu : Att s u)
    (P F : Node → Bool) (p f : Nat → Bool) (hP : ∀ x, P (treeOf s x) = p x) (hF : ∀ x, F (treeOf s x) = f x)
    (bu skip : Bool) :
    (hdfsImpl s p f bu skip u).map (treeOf s) = ldfsImpl P F bu skip (treeOf s u) ∧
    hdfsImpl s p f bu skip u = (ldfsImpl P F bu skip (treeOf s u)).map (·.uid) :=
  heap_dfs_of_size hR hI.closed (att_lt hI hu) (treeOf_size_le Hc hI hR hu) P F p f hP hF bu skip

/-- **legacy `bfs` on the heap** -/
theorem heap_bfs {s : LState} (hI : Inv Hc s) (hR : Ranked s) {u : Nat} (hu : Att s u)
    (P F : Node → Bool) (p f : Nat → Bool) (hP : ∀ x, P (treeOf s x) = p x) (hF : ∀ x, F (treeOf s x) = f x)
    (skip : Bool) :
    (hbfsImpl s p f skip u).map (treeOf s) = lbfsImpl P F skip (treeOf s u) ∧
    hbfsImpl s p f skip u = (lbfsImpl P F skip (treeOf s u)).map (·.uid) :=
  heap_bfs_of_size hR hI.closed (att_lt hI hu) (treeOf_size_le Hc hI hR hu) P F p f hP hF skip

/-- **legacy `gather` on the heap** (the class test reads the object's class / MRO) -/
theorem heap_gather {s : LState} (hI : Inv Hc s) (hR : Ranked s) {u : Nat} (hu : Att s u)
    (classes : List Str) (exact : Bool) (E P : Node → Bool) (e p : Nat → Bool)
    (hE : ∀ x, E (treeOf s x) = e x) (hP : ∀ x, P (treeOf s x) = p x) (skip : Bool) :
    (hgatherImpl s classes exact e p skip u).map (treeOf s) = lgatherImpl classes exact E P skip (treeOf s u) ∧
    hgatherImpl s classes exact e p skip u = (lgatherImpl classes exact E P skip (treeOf s u)).map (·.uid) := by
  unfold hgatherImpl lgatherImpl
  refine heap_dfs Hc hI hR hu P _ p _ hP (fun x => ?_) false skip
  show ((if exact = true then classes.contains (treeOf s x).cls else classes.any (treeOf s x).isInst)
    && E (treeOf s x)) = _
  have : (treeOf s x).isInst = fun c => (s.obj x).mro.contains c := funext (treeOf_isInst s x)
  rw [hE, treeOf_cls, this]

/-! ### … and the successor's walks -/

/-- an object callback seen as a callback on the successor's positions -/
def onUid (p : Nat → Bool) : Item → Bool := fun it => p it.node.uid

theorem onItem_uid (p : Nat → Bool) : onItem (fun n => p n.uid) = onUid p := rfl

/-- **`dfs(skip_self=True)` on the heap yields exactly the nodes of the successor's `dfs` positions** on the
represented tree, in the same order (both directions, any prune / filter on objects); without `skip_self` the start
object is added in front (top-down) / at the end (bottom-up) — if the filter accepts it, and alone if it is pruned -/
theorem heap_dfs_successor {s : LState} (hI : Inv Hc s) (hR : Ranked s) {u : Nat} (hu : Att s u)
    (p f : Nat → Bool) (bu : Bool) :
    hdfsImpl s p f bu true u = (dfsImpl (onUid p) (onUid f) bu (treeOf s u)).map (·.node.uid) ∧
    hdfsImpl s p f false false u = (if f u then [u] else []) ++
      (if p u then [] else (dfsImpl (onUid p) (onUid f) false (treeOf s u)).map (·.node.uid)) ∧
    hdfsImpl s p f true false u =
      (if p u then [] else (dfsImpl (onUid p) (onUid f) true (treeOf s u)).map (·.node.uid)) ++
        (if f u then [u] else []) := by
  have hh := fun bu skip => (heap_dfs Hc hI hR hu (fun n => p n.uid) (fun n => f n.uid) p f
    (fun x => by simp) (fun x => by simp) bu skip).2
  refine ⟨?_, ?_, ?_⟩
  · rw [hh, ldfs_skip_self, onItem_uid, onItem_uid]
    cases bu
    · simp [C05.dfs_top_down]
    · simp [C05.dfs_bottom_up]
  · rw [hh, ldfs_top_down, onItem_uid, onItem_uid, C05.dfs_top_down]
    by_cases h1 : p u <;> by_cases h2 : f u <;> simp [h1, h2]
  · rw [hh, ldfs_bottom_up, onItem_uid, onItem_uid, C05.dfs_bottom_up]
    by_cases h1 : p u <;> by_cases h2 : f u <;> simp [h1, h2]

/-- **`bfs` on the heap against the successor's `bfs`** -/
theorem heap_bfs_successor {s : LState} (hI : Inv Hc s) (hR : Ranked s) {u : Nat} (hu : Att s u)
    (p f : Nat → Bool) :
    hbfsImpl s p f true u = (bfsImpl (onUid p) (onUid f) (treeOf s u)).map (·.node.uid) ∧
    hbfsImpl s p f false u = (if f u then [u] else []) ++
      (if p u then [] else (bfsImpl (onUid p) (onUid f) (treeOf s u)).map (·.node.uid)) := by
  have hh := fun skip => (heap_bfs Hc hI hR hu (fun n => p n.uid) (fun n => f n.uid) p f
    (fun x => by simp) (fun x => by simp) skip).2
  refine ⟨?_, ?_⟩
  · rw [hh, lbfs_skip_self, onItem_uid, onItem_uid, C05.bfs_levels]
    simp
  · rw [hh, lbfs_levels, onItem_uid, onItem_uid, C05.bfs_levels]
    by_cases h1 : p u <;> by_cases h2 : f u <;> simp [h1, h2]

/-- **`gather(skip_self=True)` on the heap is the successor's `gather`** on the represented tree -/
theorem heap_gather_successor {s : LState} (hI : Inv Hc s) (hR : Ranked s) {u : Nat} (hu : Att s u)
    (classes : List Str) (exact : Bool) (e p : Nat → Bool) :
    hgatherImpl s classes exact e p true u =
      (gatherImpl classes exact (onUid e) (onUid p) (treeOf s u)).map (·.uid) := by
  rw [(heap_gather Hc hI hR hu classes exact (fun n => e n.uid) (fun n => p n.uid) e p
    (fun x => by simp) (fun x => by simp) true).2]
  rw [(lgather_eq (fun n => p n.uid) classes exact (fun n => e n.uid) (treeOf s u)).2]
  simp only [gatherImpl]
  rw [C05.dfs_top_down]
  rfl

/-! ### the yielded positions agree with the heap's own parent pointers -/

theorem items_treeOf {s : LState} (hR : Ranked s) (hC : Closed s) {q : Nat} (hq : q < s.size) (x : Item)
    (hx : x ∈ (treeOf s q).items) :
    ∃ e ∈ (s.obj q).kidsPos, x = ⟨treeOf s e.1, treeOf s q, ⟨e.2.1, e.2.2⟩⟩ := by
  rw [Node.items, treeOf_edges hR hC hq] at hx
  simp only [List.map_map, List.mem_map, Function.comp_def] at hx
  obtain ⟨e, he, rfl⟩ := hx
  exact ⟨e, he, rfl⟩

/-- **every position the successor's `dfs` / `bfs` yields on the represented tree** (any prune, any filter, both
directions) **is what the heap's parent pointers say**: the node is the tree of an attached object `c` below the start
node, the position's parent is the tree of the object `node.parent`, and the position's field / index are `c`'s own
`parent_field` / `parent_index` slots -/
theorem heap_items_agree {s : LState} (hI : Inv Hc s) (hR : Ranked s) {u : Nat} (hu : Att s u)
    (P F : Item → Bool) (x : Item)
    (hx : (∃ b, x ∈ dfsImpl P F b (treeOf s u)) ∨ x ∈ bfsImpl P F (treeOf s u)) :
    ∃ c q, x.node = treeOf s c ∧ x.parent = treeOf s q ∧ Att s c ∧ Att s q ∧ Desc s u q ∧
      s.parent c = some q ∧ edgeOf s c = some x.edge ∧
      (s.obj c).pfield = some x.edge.field ∧ (s.obj c).pindex = x.edge.idx := by
  have hreach : C05X.Reach P (treeOf s u).items x := by
    rcases hx with ⟨b, hx⟩ | hx
    · exact ((C05X.mem_dfsImpl_iff P F b _ x).mp hx).1
    · exact ((C05X.mem_bfsImpl_iff P F _ x).mp hx).1
  have one : ∀ q, Att s q → Desc s u q → ∀ x ∈ (treeOf s q).items,
      ∃ c q, x.node = treeOf s c ∧ x.parent = treeOf s q ∧ Att s c ∧ Att s q ∧ Desc s u q ∧
        s.parent c = some q ∧ edgeOf s c = some x.edge ∧
        (s.obj c).pfield = some x.edge.field ∧ (s.obj c).pindex = x.edge.idx := by
    intro q hq hd x hx
    obtain ⟨e, he, rfl⟩ := items_treeOf hR hI.closed (att_lt hI hq) x hx
    obtain ⟨hca, _, hf, hi⟩ := hI.down' q hq e he
    refine ⟨e.1, q, rfl, rfl, hca, hq, hd, holder_is_parent Hc hI hq he, ?_, hf, hi⟩
    unfold edgeOf; rw [hf, hi]
  clear hx
  induction hreach with
  | top hx => exact one u hu .refl _ hx
  | @down y x _ _ hxy ih =>
    obtain ⟨c, q, hn, _, hca, hqa, hd, hpc, _⟩ := ih
    rw [hn] at hxy
    have hcq : c ∈ (s.obj q).kidList := by
      obtain ⟨_, f, _, hm⟩ := parent_is_holder Hc hI hca hpc
      exact (mem_kidList_iff _ _).mpr ⟨_, hm, rfl⟩
    exact one c hca (.step hd hcq) _ hxy

/-! ### target 4: `calculate_xpath` -/

theorem collectM_eq {α : Type} (f : Nat → Option (List α)) (g : Nat → List α) :
    ∀ l : List Nat, (∀ c ∈ l, f c = some (g c)) → collectM f l = some (l.flatMap g) := by
  intro l
  induction l with
  | nil => intro _; rfl
  | cons c r ih =>
    intro h
    simp only [collectM, h c (List.mem_cons_self ..), ih (fun x hx => h x (List.mem_cons_of_mem _ hx)),
      Option.map_some, List.flatMap_cons]

/-- the assignments as (object identity, text) -/
def asUid (l : List (Node × Str)) : List (Nat × Str) := l.map fun p => (p.1.uid, p.2)

/-- `_set_xpath(c, parent_xpath)` on the heap, for an attached node that records field `f` -/
theorem hsetXpath_eq {s : LState} (hI : Inv Hc s) (hR : Ranked s) {r : Nat → Nat}
    (hr : ∀ x, x < s.size → ∀ c ∈ (s.obj x).kidList, r c < r x) :
    ∀ (fuel c : Nat) (pp f : Str), Att s c → (s.obj c).pfield = some f → nrank r s.size c < fuel →
      hsetXpath s fuel pp c = some (asUid (setXpathN pp ⟨f, (s.obj c).pindex⟩ (treeOf s c))) := by
  intro fuel
  induction fuel with
  | zero => intro c pp f _ _ h; omega
  | succ fuel ih =>
    intro c pp f hc hf hlt
    have hcs := att_lt hI hc
    have hkids : ∀ k ∈ (s.obj c).kidList, hsetXpath s fuel (pp ++ xpathStep f (s.obj c).pindex (s.obj c).cls) k =
        some (asUid (setXpathN (pp ++ xpathStep f (s.obj c).pindex (s.obj c).cls)
          ⟨((s.obj k).pfield).getD [], (s.obj k).pindex⟩ (treeOf s k))) := by
      intro k hk
      obtain ⟨e, he, he1⟩ := (mem_kidList_iff _ _).mp hk
      obtain ⟨hka, _, hkf, _⟩ := hI.down' c hc e he
      rw [he1] at hka hkf
      have := nrank_mono r s.size k c (hI.closed c hcs k hk) (hr c hcs k hk)
      rw [ih k _ e.2.1 hka hkf (by omega), hkf]
      rfl
    simp only [hsetXpath, hf, collectM_eq _ _ _ hkids, Option.map_some]
    rw [setXpathN_unfold, treeOf_edges hR hI.closed hcs]
    simp only [treeOf_cls, asUid, List.map_cons, treeOf_uid, List.map_flatMap, List.flatMap_map]
    congr 2
    rw [← kidsPos_map_fst, List.flatMap_map]
    apply Legacy.flatMap_congr'
    intro e he
    obtain ⟨_, _, hkf, hki⟩ := hI.down' c hc e he
    simp [hkf, hki]

/-- **target 4**: `root.calculate_xpath()` on the heap, for an attached root: the assignments made (object, text) are
those of the tree-level `calcXpath` on the represented tree, in the same order -/
theorem heap_calc_xpath {s : LState} (hI : Inv Hc s) (hR : Ranked s) {u : Nat} (hu : Att s u)
    (hp : s.parent u = none) : hcalcXpath s u = .ok (asUid (calcXpath (treeOf s u))) := by
  obtain ⟨r, hr⟩ := id hR
  have hus := att_lt hI hu
  have hroot : s.isAttachedRoot u = true := by
    simp [LState.isAttachedRoot, hp, (detached_eq_false_iff s u).mpr hu]
  have hkids : ∀ k ∈ (s.obj u).kidList,
      hsetXpath s (fuelOf s) (xpathStep ['r','o','o','t'] none (s.obj u).cls) k =
        some (asUid (setXpathN (xpathStep ['r','o','o','t'] none (s.obj u).cls)
          ⟨((s.obj k).pfield).getD [], (s.obj k).pindex⟩ (treeOf s k))) := by
    intro k hk
    obtain ⟨e, he, he1⟩ := (mem_kidList_iff _ _).mp hk
    obtain ⟨hka, _, hkf, _⟩ := hI.down' u hu e he
    rw [he1] at hka hkf
    have := nrank_lt r s.size k (hI.closed u hus k hk)
    rw [hsetXpath_eq Hc hI hR hr (fuelOf s) k _ e.2.1 hka hkf (by unfold fuelOf; omega), hkf]
    rfl
  unfold hcalcXpath
  simp only [hroot, Bool.not_true, Bool.false_eq_true, if_false, collectM_eq _ _ _ hkids]
  congr 1
  simp only [calcXpath]
  rw [setXpathKs_eq]
  have he := treeOf_edges hR hI.closed hus
  unfold Node.edges at he
  rw [he]
  simp only [treeOf_cls, asUid, List.map_cons, treeOf_uid, List.map_flatMap, List.flatMap_map]
  congr 1
  rw [← kidsPos_map_fst, List.flatMap_map]
  apply Legacy.flatMap_congr'
  intro e he
  obtain ⟨_, _, hkf, hki⟩ := hI.down' u hu e he
  simp [hkf, hki]

/-- a node that is not an attached root is refused (`return False`) -/
theorem heap_calc_refused (s : LState) (u : Nat) (h : s.isAttachedRoot u = false) : hcalcXpath s u = .refused := by
  simp [hcalcXpath, h]

/-- **… and every text assigned is the successor's `Tree.get_xpath`**: whatever `calculate_xpath` assigns to an
object is what `Tree(treeOf s root).get_xpath` returns for the tree node of that object -/
theorem heap_calc_eq_get_xpath {s : LState} (hI : Inv Hc s) (hR : Ranked s) {u : Nat} (hu : Att s u)
    (hp : s.parent u = none) :
    ∃ l, hcalcXpath s u = .ok l ∧ l.map (·.1) = descU s u ∧
      ∀ x str, (x, str) ∈ l → Desc s u x ∧ (TreeT.build (treeOf s u)).getXpath (treeOf s x) = .ok str := by
  refine ⟨_, heap_calc_xpath Hc hI hR hu hp, ?_, ?_⟩
  · have := calc_nodes (treeOf s u)
    simp only [asUid, List.map_map, descU, ← this]
    rfl
  · intro x str hm
    simp only [asUid, List.mem_map] at hm
    obtain ⟨⟨m, str'⟩, hmem, heq⟩ := hm
    simp only [Prod.mk.injEq] at heq
    obtain ⟨rfl, rfl⟩ := heq
    have hnr := treeOf_noRepeat Hc hI hR hu
    have hall : m ∈ allNodes (treeOf s u) := by
      rw [← calc_nodes]; exact List.mem_map.mpr ⟨_, hmem, rfl⟩
    obtain ⟨y, hy, rfl⟩ := (mem_allNodes_treeOf hR hI.closed (att_lt hI hu) m).mp hall
    simp only [treeOf_uid]
    exact ⟨hy, calc_eq_get_xpath _ hnr _ _ hmem⟩

end C20
end PyOak
